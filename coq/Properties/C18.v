(* Properties/C18.v — rapidproto generators always yield valid, well-formed messages.
   Statements only; proofs in Proofs/RapidGenProofs.v; the model is Model/RapidGen.v:

     rapid_in_range vr o sch ann mid m = true     "m can be produced by rapidproto.MessageGenerator for
                                                   message type mid of schema sch under options o"
                                                  (every random draw existentially quantified)
     deep sch ann Q top_fuel 1 INoField mid m     "Q holds at every scalar, slot and message of m that
                                                   the generator produced" (one walk along the schema,
                                                   through Any payloads via the decoder model)
     gen vr o sch ann mid tape                    the generator as a function of the draws

   vr says which revision of the code is modelled; [code_variant] (= all six `fix:` commits of
   /repo/rapidproto in) is the one the correspondence check ties to the implementation. Theorems that
   need a repair state it as a hypothesis on vr and are instantiated at [code_variant] below. *)
From CP Require Import DecodeTotal Extra RapidGen RapidGenProofs RapidGenSound RapidProg RapidProgProofs RapidProgEqb.
Local Open Scope N_scope.

(* termination: fuel depthLimit + 2 suffices for every schema (recursive ones included: recursion
   through singular fields, lists, map values, oneof members and Any payloads), options and draws *)
Theorem gen_terminates : forall vr o sch ann mid tape, gen vr o sch ann mid tape <> OutOfFuel.
Proof. exact RapidGenProofs.gen_terminates. Qed.

(* the value is well typed (slots aligned with the descriptor, every scalar in the range of its Go
   type, no duplicate map keys, at most one member per oneof): what Marshal/Size are defined on (C04) *)
Theorem gen_wt : forall vr o sch ann, ann_ok sch ann = true -> fmap_typed o ->
  forall mid m, rapid_in_range vr o sch ann mid m = true -> wt_msg sch mid m = true.
Proof. exact RapidGenProofs.gen_wt. Qed.

(* every string is valid UTF-8 (a FieldMapper can break this: hypothesis on the mappers) *)
Theorem gen_utf8 : forall vr o sch ann, fmap_sound o (p_scalar utf8_preds) ->
  forall mid m, rapid_in_range vr o sch ann mid m = true -> deep sch ann utf8_preds top_fuel 1 INoField mid m = true.
Proof. exact RapidGenProofs.gen_utf8. Qed.

(* Timestamp and Duration values pass CheckValid *)
Theorem gen_timestamp_valid : forall vr o sch ann mid m,
  rapid_in_range vr o sch ann mid m = true -> deep sch ann timestamp_preds top_fuel 1 INoField mid m = true.
Proof. exact RapidGenProofs.gen_timestamp_valid. Qed.
Theorem gen_duration_valid : forall vr o sch ann mid m,
  rapid_in_range vr o sch ann mid m = true -> deep sch ann duration_preds top_fuel 1 INoField mid m = true.
Proof. exact RapidGenProofs.gen_duration_valid. Qed.

(* with AnyTypeURLs: every Any names a type the options offer (AnyTypeURLs or an interface hint) and
   its value decodes as that type *)
Theorem gen_any_resolvable : forall vr o sch ann, o_any o <> [] ->
  forall mid m, rapid_in_range vr o sch ann mid m = true ->
                deep sch ann (any_preds o sch ann) top_fuel 1 INoField mid m = true.
Proof. exact RapidGenProofs.gen_any_resolvable. Qed.
(* without: there is no Any below the root *)
Theorem gen_any_absent : forall o sch ann, o_any o = [] ->
  forall mid m, rapid_in_range code_variant o sch ann mid m = true ->
                deep sch ann (no_any_field_preds ann) top_fuel 1 INoField mid m = true.
Proof. intros o sch ann. apply RapidGenProofs.gen_any_absent; reflexivity. Qed.

(* every FieldMask carries 1..5 paths of the drawn shape *)
Theorem gen_fieldmask_paths : forall o sch ann mid m,
  rapid_in_range code_variant o sch ann mid m = true -> deep sch ann fieldmask_preds top_fuel 1 INoField mid m = true.
Proof. intros o sch ann. apply RapidGenProofs.gen_fieldmask_paths. reflexivity. Qed.

(* every enum field holds a number its enum declares *)
Theorem gen_enum_declared : forall o sch ann, fmap_sound o (p_scalar enum_preds) ->
  forall mid m, rapid_in_range code_variant o sch ann mid m = true -> deep sch ann enum_preds top_fuel 1 INoField mid m = true.
Proof. intros o sch ann. apply RapidGenProofs.gen_enum_declared. reflexivity. Qed.

(* NoEmptyLists, DisallowNilMessages (within the nesting limit), no nil list element / map value /
   oneof payload, FieldMappers obeyed *)
Theorem gen_no_empty_lists : forall vr o sch ann mid m,
  rapid_in_range vr o sch ann mid m = true -> deep sch ann (no_empty_preds vr o ann) top_fuel 1 INoField mid m = true.
Proof. exact RapidGenProofs.gen_no_empty_lists. Qed.
(* ... and at ANY depth no repeated field holds an empty non-nil list (the state the option exists to
   prevent: a struct that differs from its decoded form) *)
Theorem gen_no_empty_nonnil : forall o sch ann mid m,
  rapid_in_range code_variant o sch ann mid m = true -> deep sch ann (no_empty_nonnil_preds o) top_fuel 1 INoField mid m = true.
Proof. intros o sch ann. apply RapidGenProofs.gen_no_empty_nonnil. reflexivity. Qed.
Theorem gen_disallow_nil : forall vr o sch ann mid m,
  rapid_in_range vr o sch ann mid m = true -> deep sch ann (disallow_nil_preds o ann) top_fuel 1 INoField mid m = true.
Proof. exact RapidGenProofs.gen_disallow_nil. Qed.
Theorem gen_no_nil_elements : forall vr o sch ann mid m,
  rapid_in_range vr o sch ann mid m = true -> deep sch ann no_nil_elem_preds top_fuel 1 INoField mid m = true.
Proof. exact RapidGenProofs.gen_no_nil_elements. Qed.
Theorem gen_field_mapper : forall vr o sch ann mid m,
  rapid_in_range vr o sch ann mid m = true -> deep sch ann (mapper_preds o) top_fuel 1 INoField mid m = true.
Proof. exact RapidGenProofs.gen_field_mapper. Qed.

(* messages nest at most depthLimit + 2 = 12 levels deep: the root, 10 levels below it, and a singular
   Any field of a depth-10 message (setFieldValue calls genAny without the depth test; its payload is empty) *)
Theorem gen_depth_bounded : forall vr o sch ann, fmap_typed o ->
  forall mid m, rapid_in_range vr o sch ann mid m = true -> (val_depth m <= 12)%nat.
Proof. exact RapidGenProofs.gen_depth_bounded. Qed.

(* the traversal is monotone: the shape all of the above share *)
Theorem deep_monotone : forall sch ann (P Q : preds),
  (forall k d v, p_scalar P k d v = true -> p_scalar Q k d v = true) ->
  (forall r p f fa s, p_slot P r p f fa s = true -> p_slot Q r p f fa s = true) ->
  (forall r ic ma md slots unk, p_msg P r ic ma md slots unk = true -> p_msg Q r ic ma md slots unk = true) ->
  forall r p ic mid v, deep sch ann P r p ic mid v = true -> deep sch ann Q r p ic mid v = true.
Proof. exact RapidGenProofs.deep_mono. Qed.

(* the code BEFORE its fix: commits ([current]): each statement above that needed a repair was false,
   with a witness the generator model of that code produces (regression cases of the run) *)
Theorem fieldmask_paths_refuted_before_fix :
  exists o sch ann mid tape m, ann_ok sch ann = true /\ gen current o sch ann mid tape = Ok m /\
    rapid_in_range current o sch ann mid m = true /\ deep sch ann fieldmask_preds top_fuel 1 INoField mid m = false.
Proof. exact RapidGenProofs.gen_fieldmask_paths_refuted_before_fix. Qed.
Theorem enum_declared_refuted_before_fix :
  exists o sch ann mid tape m, ann_ok sch ann = true /\ gen current o sch ann mid tape = Ok m /\
    rapid_in_range current o sch ann mid m = true /\ deep sch ann enum_preds top_fuel 1 INoField mid m = false.
Proof. exact RapidGenProofs.gen_enum_declared_refuted_before_fix. Qed.
Theorem any_resolvable_refuted_before_fix :
  exists o sch ann mid tape m, ann_ok sch ann = true /\ gen current o sch ann mid tape = Ok m /\
    rapid_in_range current o sch ann mid m = true /\ deep sch ann no_url_preds top_fuel 1 INoField mid m = false.
Proof. exact RapidGenProofs.gen_any_resolvable_refuted_before_fix. Qed.
Theorem any_root_panicked_before_fix : forall o sch ann mid md ma tape,
  get_msg sch mid = Some md -> nth_error ann mid = Some ma -> a_wkt ma = WAny -> o_any o <> [] ->
  gen current o sch ann mid tape = Panic.
Proof. exact RapidGenProofs.gen_any_root_panicked_before_fix. Qed.
Theorem list_leftover_before_fix : forall sch (child : child_t) depth fa tm,
  (forall d ic t cur tp, child d ic t cur tp = Ok (None, tp)) ->
  forall n tp, list_loop current sch child depth fa tm (S n) 0 [] tp = Ok (repeat (fresh sch tm) n, tp).
Proof. exact RapidGenProofs.list_loop_leftover_before_fix. Qed.

(* non-vacuity and regression: on the old witnesses the code as it stands generates in-range, valid values *)
Example regression_fieldmask :
  rapid_in_range code_variant o_plain sch_fm ann_fm 0 (VMsg [VNil] []) = false /\
  gen code_variant o_plain sch_fm ann_fm 0 [1; 3; 1; 2] = Ok fm_regr /\
  rapid_in_range code_variant o_plain sch_fm ann_fm 0 fm_regr = true /\
  deep sch_fm ann_fm fieldmask_preds top_fuel 1 INoField 0 fm_regr = true.
Proof. vm_compute. repeat split; reflexivity. Qed.
Example regression_enum_any :
  gen code_variant o_plain sch_en ann_en 0 [1; 0; 0] = Ok (VMsg [VInt 4] []) /\
  rapid_in_range code_variant o_plain sch_en ann_en 0 (VMsg [VInt 0] []) = false /\
  gen code_variant o_plain sch_anyl ann_anyl 0 [1; 1; 1] = Ok (VMsg [VNil] []) /\
  gen code_variant o_any1 sch_anyl ann_anyl 1 [1; 0; 1; 2] = Ok any_regr /\
  rapid_in_range code_variant o_any1 sch_anyl ann_anyl 1 any_regr = true.
Proof. vm_compute. repeat split; reflexivity. Qed.

(* the tape-driven generator model produces values inside the range (and well typed) on sample tapes
   over a schema with recursion through lists, bool-keyed maps (revisited entries), a oneof, enum,
   Timestamp/Duration/FieldMask and Any (accepts_interface, repeated, Any inside Any to the nesting
   limit), 4 option sets x 3 tapes; a test of the range predicate against over-tightness, not a proof *)
Example gen_in_range_samples :
  ann_ok sch_demo ann_demo = true /\
  forallb (fun o => forallb (sample_ok code_variant o) [1; 2; 3]) demo_opts = true.
Proof. destruct RapidGenProofs.gen_in_range_samples as (A & B & _). split; [exact A|exact B]. Qed.

(* EVERY output of the generator model lies in the range, for every schema, option set and tape of
   draws (Proofs/RapidGenSound.v): the code after its fix: commits, a well-formed schema whose
   annotations fit (well-known type layouts, distinct full names, enums with at least one int32 value),
   FieldMappers that answer from their declared sets with values of the field's type and do not tell
   nil bytes from empty bytes, and an output whose encoding fits a Go slice (< 2^63 bytes: C01's own
   premise; the payload of every Any is decoded again by the range predicate). The revisiting of map
   entries by duplicate keys, oneof members overwriting each other, the nesting limit and Any payloads
   inside Any payloads are all covered. *)
Theorem gen_in_range : forall o sch ann,
  wf sch = true -> ann_ok sch ann = true -> NoDup (map a_name ann) -> enums_ok sch ann ->
  fmap_gen_sound o -> fmap_typed o -> fmap_bytes_norm o ->
  forall mid tape v, gen code_variant o sch ann mid tape = Ok v ->
    N.of_nat (length (emit sch false mid v)) < two63 ->
    rapid_in_range code_variant o sch ann mid v = true.
Proof. exact RapidGenSound.gen_in_range. Qed.

(* hence every validity statement above holds of every output of the generator model *)
Theorem gen_outputs_valid : forall o sch ann,
  wf sch = true -> ann_ok sch ann = true -> NoDup (map a_name ann) -> enums_ok sch ann ->
  fmap_gen_sound o -> fmap_typed o -> fmap_bytes_norm o ->
  fmap_sound o (p_scalar utf8_preds) -> fmap_sound o (p_scalar enum_preds) ->
  forall mid tape v, gen code_variant o sch ann mid tape = Ok v -> N.of_nat (length (emit sch false mid v)) < two63 ->
    let D := fun Q => deep sch ann Q top_fuel 1 INoField mid v = true in
    wt_msg sch mid v = true /\ (val_depth v <= 12)%nat /\
    D utf8_preds /\ D timestamp_preds /\ D duration_preds /\ D fieldmask_preds /\ D enum_preds /\
    D (no_empty_preds code_variant o ann) /\ D (no_empty_nonnil_preds o) /\ D (disallow_nil_preds o ann) /\
    D no_nil_elem_preds /\ D (mapper_preds o) /\
    (o_any o <> [] -> D (any_preds o sch ann)) /\ (o_any o = [] -> D (no_any_field_preds ann)).
Proof. exact RapidGenSound.gen_outputs_valid. Qed.

(* the premises are decidable or hold of the runner's options: boolean checker for the enum premise, the
   options without FieldMapper and with the runner's string mapper *)
Theorem enums_okb_sound : forall sch ann, enums_okb sch ann = true -> enums_ok sch ann.
Proof. exact RapidGenSound.enums_okb_sound. Qed.
Theorem no_mapper_premises : forall o, (forall k d, o_fmap o k d = FmNone) ->
  fmap_gen_sound o /\ fmap_typed o /\ fmap_bytes_norm o /\ fmap_sound o (p_scalar utf8_preds) /\ fmap_sound o (p_scalar enum_preds).
Proof. exact RapidGenSound.no_mapper_ok. Qed.
Theorem string_mapper_premises : forall o, o_fmap o = fmap_of_id 1 ->
  fmap_gen_sound o /\ fmap_typed o /\ fmap_bytes_norm o /\ fmap_sound o (p_scalar utf8_preds) /\ fmap_sound o (p_scalar enum_preds).
Proof. exact RapidGenSound.mapper1_ok. Qed.

(* non-vacuity of gen_in_range: all premises hold of the demo schema with AnyTypeURLs, an interface hint,
   NoEmptyLists and the string mapper, and the generator model produces a non-trivial value there *)
Example gen_in_range_nonvacuous :
  wf sch_demo = true /\ ann_ok sch_demo ann_demo = true /\ NoDup (map a_name ann_demo) /\ enums_ok sch_demo ann_demo /\
  fmap_gen_sound demo_o /\ fmap_typed demo_o /\ fmap_bytes_norm demo_o /\
  exists m, gen code_variant demo_o sch_demo ann_demo 0 (lcg 1500 2) = Ok m /\
            N.of_nat (length (emit sch_demo false 0 m)) < two63 /\ (1 < length (emit sch_demo false 0 m))%nat.
Proof. exact RapidGenSound.gen_in_range_demo. Qed.

(* ---- translator tie (task T16, DESIGN 12.7): /repo/rapidproto/rapidproto.go is re-translated on every run into the language of
   Model/RapidProg.v and compared, declaration by declaration, with [canon_rapidproto]. The canonical program INTERPRETED is the
   generator model all theorems above are about: for every well-formed schema with fitting annotations (enums declare a value),
   options (a FieldMapper answers map keys with map keys), message type of the schema, draw tape and fuel >= rp_fuel = 37 (three
   Go calls per nesting level: setFields -> setFieldValue -> genAny -> setFields), MessageGenerator(x, options) followed by one draw
   from the generator it returns is [gen] — the same message, or the same Err (abandoned draw) / Panic; never stuck, never out of fuel. *)
Theorem rapidprog_correct : forall o sch ann,
  wf sch = true -> ann_ok sch ann = true -> rp_enums_ok sch ann -> rp_keys_ok o ->
  forall mid extra tape, (mid < length sch)%nat ->
    rp_generate o sch ann canon_rapidproto (rp_fuel + extra) mid tape = Some (gen code_variant o sch ann mid tape).
Proof. exact RapidProgProofs.rapidprog_correct. Qed.
(* hence (the two premises follow from those of gen_in_range: RapidProgProofs.rapidprog_correct_std) what the translated-and-compared
   code generates lies in the range of the generator model: every validity theorem above (gen_outputs_valid) applies to it *)
Theorem rapidprog_in_range : forall o sch ann,
  wf sch = true -> ann_ok sch ann = true -> NoDup (map a_name ann) -> enums_ok sch ann ->
  fmap_gen_sound o -> fmap_typed o -> fmap_bytes_norm o ->
  forall mid extra tape v, (mid < length sch)%nat ->
    rp_generate o sch ann canon_rapidproto (rp_fuel + extra) mid tape = Some (Ok v) ->
    N.of_nat (length (emit sch false mid v)) < two63 ->
    rapid_in_range code_variant o sch ann mid v = true.
Proof. exact RapidProgProofs.rapidprog_in_range. Qed.

(* the comparison the driver makes (`RAPIDPROG <name> eqb`) is sound: a translated declaration the decidable equality accepts IS
   the canonical one *)
Theorem rdecl_eqb_sound : forall a b : rdecl, rdecl_eqb a b = true -> a = b.
Proof. exact RapidProgEqb.rdecl_eqb_sound. Qed.

(* non-vacuity: on the demo schema (recursion through lists and bool-keyed maps, oneof, enum, the four well-known types, Any with
   accepts_interface and Any inside Any) with AnyTypeURLs, an interface hint, NoEmptyLists and the string mapper, the interpreter
   on the canonical program yields the model's non-trivial message; and the fuel matters: with less it answers OutOfFuel *)
Example rapidprog_nonvacuous :
  rp_generate demo_o sch_demo ann_demo canon_rapidproto rp_fuel 0 (lcg 1500 2) = Some (gen code_variant demo_o sch_demo ann_demo 0 (lcg 1500 2)) /\
  (exists m, gen code_variant demo_o sch_demo ann_demo 0 (lcg 1500 2) = Ok m /\ (1 < length (emit sch_demo false 0 m))%nat) /\
  rp_generate demo_o sch_demo ann_demo canon_rapidproto 20 0 (lcg 1500 2) = Some OutOfFuel.
Proof.
  split; [vm_compute; reflexivity|]. split; [|vm_compute; reflexivity].
  destruct RapidGenSound.gen_in_range_demo as (_ & _ & _ & _ & _ & _ & _ & m & Hm & _ & Hl). exists m. split; assumption.
Qed.
