(* Properties/C09.v — nil and read-only empty messages, lists and maps: laws of Reflect.step (Model/Reflect.v) for ALL
   schemas, heaps, message types, fields, keys and values. `PMsg mid None` is the nil message of type mid (a typed nil
   pointer, MessageType.Zero(), Get of an unset message field / oneof member, a nil list element or map value, a oneof
   wrapper holding nil); `PList t RNil` / `PMap kk t RNil` are the invalid views Get returns for empty containers.
   Only statements; proofs are in Proofs/ReflectLaws.v. *)
From CP Require Import Reflect ReflectLaws.
Local Open Scope nat_scope.

(* every read of a nil message returns what the same read returns on a freshly allocated empty message of the type
   (heap h extended by new_obj; containers give the invalid view and message fields the nil message in both cases) *)
Theorem nil_reads_as_empty : forall sch h mid,
  let hE := h ++ [HObj (new_obj sch mid)] in
  let E := PMsg mid (Some (length h)) in
  let N := PMsg mid None in
  (forall f, snd (step sch h (OHas N f)) = snd (step sch hE (OHas E f))) /\
  (forall f, snd (step sch h (OGet N f)) = snd (step sch hE (OGet E f))) /\
  (forall j, snd (step sch h (OWhichOneof N j)) = snd (step sch hE (OWhichOneof E j))) /\
  snd (step sch h (ORange N)) = snd (step sch hE (ORange E)) /\
  snd (step sch h (OGetUnknown N)) = snd (step sch hE (OGetUnknown E)).
Proof. exact ReflectLaws.nil_reads_as_empty. Qed.

(* ... namely: Has false, WhichOneof none, Range nothing, no unknown fields, IsValid false; the heap is untouched *)
Theorem nil_reads_values : forall sch h mid,
  let N := PMsg mid None in
  (forall f fd, field_of sch mid f = Some fd -> step sch h (OHas N f) = (h, PBool false)) /\
  (forall j md, get_msg sch mid = Some md -> j < m_oneofs md -> step sch h (OWhichOneof N j) = (h, PField None)) /\
  step sch h (ORange N) = (h, PRange []) /\
  step sch h (OGetUnknown N) = (h, PBytes []) /\
  step sch h (OIsValid N) = (h, PBool false).
Proof. exact ReflectLaws.nil_reads_values. Qed.

(* Get on a nil message gives the default: zero scalar, the nil message again, the invalid list / map view — so access
   chains of any length (Get of Get of Get ...) stay nil / invalid *)
Theorem nil_get_is_default : forall sch h mid f fd, field_of sch mid f = Some fd ->
  step sch h (OGet (PMsg mid None) f) = (h, default_pval fd).
Proof. exact ReflectLaws.nil_get_is_default. Qed.

Theorem nil_reads_never_panic : forall sch h mid,
  let N := PMsg mid None in
  (forall f fd, field_of sch mid f = Some fd ->
     snd (step sch h (OHas N f)) <> PPanic /\ snd (step sch h (OGet N f)) <> PPanic) /\
  (forall j md, get_msg sch mid = Some md -> j < m_oneofs md -> snd (step sch h (OWhichOneof N j)) <> PPanic) /\
  snd (step sch h (ORange N)) <> PPanic /\ snd (step sch h (OGetUnknown N)) <> PPanic /\
  snd (step sch h (OIsValid N)) <> PPanic.
Proof. exact ReflectLaws.nil_reads_never_panic. Qed.

Theorem nil_list_reads : forall sch h t,
  let L := PList t RNil in
  step sch h (OLLen L) = (h, PScalar (VInt 0)) /\ step sch h (OIsValid L) = (h, PBool false) /\
  snd (step sch h (OLNewElement L)) <> PPanic.
Proof. exact ReflectLaws.nil_list_reads. Qed.

Theorem nil_map_reads : forall sch h kk t k,
  let M := PMap kk t RNil in
  step sch h (OMLen M) = (h, PScalar (VInt 0)) /\ step sch h (OMHas M k) = (h, PBool false) /\
  step sch h (OMGet M k) = (h, PInvalid) /\ step sch h (OMRange M) = (h, PMapRange []) /\
  step sch h (OIsValid M) = (h, PBool false) /\ step sch h (OMClear M k) = (h, PUnit) /\
  snd (step sch h (OMNewValue M)) <> PPanic.
Proof. exact ReflectLaws.nil_map_reads. Qed.

(* every write to a nil message panics and leaves the heap unchanged: never a silent drop *)
Theorem nil_writes_panic : forall sch h mid f v u,
  let N := PMsg mid None in
  step sch h (OSet N f v) = (h, PPanic) /\ step sch h (OClear N f) = (h, PPanic) /\
  step sch h (OMutable N f) = (h, PPanic) /\ step sch h (OSetUnknown N u) = (h, PPanic).
Proof. exact ReflectLaws.nil_writes_panic. Qed.

Theorem nil_list_writes_panic : forall sch h t i n v,
  let L := PList t RNil in
  step sch h (OLSet L i v) = (h, PPanic) /\ step sch h (OLAppend L v) = (h, PPanic) /\
  step sch h (OLAppendMutable L) = (h, PPanic) /\ step sch h (OLTruncate L n) = (h, PPanic).
Proof. exact ReflectLaws.nil_list_writes_panic. Qed.

Theorem nil_map_writes_panic : forall sch h kk t k v,
  let M := PMap kk t RNil in
  step sch h (OMSet M k v) = (h, PPanic) /\ step sch h (OMMutable M k) = (h, PPanic).
Proof. exact ReflectLaws.nil_map_writes_panic. Qed.

(* reads never modify anything (shared with C08) *)
Theorem nil_reads_frame : forall sch h o, is_read o = true -> fst (step sch h o) = h.
Proof. exact ReflectLaws.reads_frame. Qed.

(* ---- non-vacuity: a chain Get(c) of Get(c) of the nil message, then reads and a write ------------------------------ *)
Example ex_nil_chain :
  let sch := [ {| m_fields := [ {| f_num := 1; f_ty := TScalar KBytes; f_shape := Singular |};
                                {| f_num := 2; f_ty := TMsg 0; f_shape := Singular |};
                                {| f_num := 3; f_ty := TMsg 0; f_shape := Rep false |} ];
                  m_oneofs := 0; m_impl := Pulsar |} ] in
  snd (run sch
         [ (fun _ => ONil 0);
           (fun o => OGet (nth 0 o PPanic) 1);
           (fun o => OGet (nth 1 o PPanic) 1);
           (fun o => OHas (nth 2 o PPanic) 0);
           (fun o => OGet (nth 2 o PPanic) 2);
           (fun o => OLLen (nth 4 o PPanic));
           (fun o => OLAppendMutable (nth 4 o PPanic));
           (fun o => OSet (nth 2 o PPanic) 0 (PScalar (VBytes [])));
           (fun o => ORange (nth 2 o PPanic)) ])
  = [ PMsg 0 None; PMsg 0 None; PMsg 0 None; PBool false; PList (TMsg 0) RNil; PScalar (VInt 0); PPanic; PPanic; PRange [] ].
Proof. vm_compute. reflexivity. Qed.

(* ---- translator tie for the remaining methods of fastReflection_T (DESIGN 12.7, task T18) --------------------------------
   Model/ReflectMiscProg.v: the statement language of what proto_message.go / type.go print beside the eight per-field
   methods (ProtoReflect, Descriptor, Type, New, Interface, GetUnknown with its nil guard, SetUnknown WITHOUT one, IsValid,
   the ProtoMethods table, Zero / New / Descriptor of the message type), its interpreter over Reflect.v's heap, and
   canon_mzprogs (the bodies the templates emit). Engine reflectmiscprog translates the generated source into this language
   on every run and the driver checks translated = canonical (mzprogs_eqb). The statements are in Model/ReflectMiscProg.v,
   the proofs in Proofs/ReflectMiscProgProofs.v; they hold for EVERY heap (hence for every heap with rp_heap_okb) and every
   receiver, the typed nil pointer included. *)
From CP Require Import ReflectProg ReflectMiscProg ReflectMiscProgProofs.

Theorem getunknown_prog_correct : getunknown_prog_stmt.
Proof. exact ReflectMiscProgProofs.getunknown_prog. Qed.

Theorem setunknown_prog_correct : setunknown_prog_stmt.
Proof. exact ReflectMiscProgProofs.setunknown_prog. Qed.

Theorem isvalid_prog_correct : isvalid_prog_stmt.
Proof. exact ReflectMiscProgProofs.isvalid_prog. Qed.

(* GetUnknown of nil = no bytes, IsValid of nil = false, SetUnknown of nil = panic with the heap unchanged *)
Theorem misc_nil_receiver_correct : misc_nil_receiver_stmt.
Proof. exact ReflectMiscProgProofs.misc_nil_receiver. Qed.

Theorem new_prog_correct : new_prog_stmt.
Proof. exact ReflectMiscProgProofs.new_prog. Qed.

Theorem type_new_prog_correct : type_new_prog_stmt.
Proof. exact ReflectMiscProgProofs.type_new_prog. Qed.

Theorem type_zero_prog_correct : type_zero_prog_stmt.
Proof. exact ReflectMiscProgProofs.type_zero_prog. Qed.

Theorem protoreflect_prog_correct : protoreflect_prog_stmt.
Proof. exact ReflectMiscProgProofs.protoreflect_prog. Qed.

Theorem interface_identity_correct : interface_identity_stmt.
Proof. exact ReflectMiscProgProofs.interface_identity. Qed.

Theorem descriptor_prog_correct : descriptor_prog_stmt.
Proof. exact ReflectMiscProgProofs.descriptor_prog. Qed.

(* the protoiface.Methods literal: exactly Size, Marshal, Unmarshal set, Merge and CheckInitialized nil, Flags = 3, for every receiver *)
Theorem methods_prog_correct : methods_prog_stmt.
Proof. exact ReflectMiscProgProofs.methods_prog. Qed.

(* all at once: OGetUnknown / OSetUnknown / OIsValid / ONew / ONil executed with the canonical methods are Reflect.step *)
Theorem reflect_misc_prog_correct : reflect_misc_prog_correct_stmt.
Proof. exact ReflectMiscProgProofs.reflect_misc_prog_correct. Qed.

Theorem reflect_misc_prog_correct_ok : reflect_misc_prog_correct_ok_stmt.
Proof. exact ReflectMiscProgProofs.reflect_misc_prog_correct_ok. Qed.

(* the driver's comparison decides equality, and methods found equal to the canonical ones behave as Reflect.step *)
Theorem mzprogs_eqb_decides : mzprogs_eqb_stmt.
Proof. exact ReflectMiscProgProofs.mzprogs_eqb_eq. Qed.

Theorem translated_equal_is_step : forall sch progs,
  (forall mid, match progs mid with Some ps => mzprogs_eqb ps (canon_mzprogs sch mid) = true | None => True end) ->
  forall h o, rmz_step sch progs h o = Some (step sch h o).
Proof. exact ReflectMiscProgProofs.translated_equal_is_step. Qed.

(* ---- non-vacuity: the canonical methods on a real object and on the nil pointer; a SetUnknown WITH a nil guard (the shape
   of seeded/C09_r5) is a different program and does not panic on nil ---------------------------------------------------- *)
Example ex_reflect_misc_prog :
  let sch := [ {| m_fields := [ {| f_num := 1; f_ty := TScalar KBytes; f_shape := Singular |} ]; m_oneofs := 0; m_impl := Pulsar |} ] in
  let ps := canon_mzprogs sch 0 in
  let h0 : heap := [] in
  let '(h1, x) := step sch h0 (ONew 0) in
  let u := [Coq.Init.Byte.x01; Coq.Init.Byte.x02] in
  let guarded := mkMzProgs (z_protoreflect ps) (z_descriptor ps) (z_type ps) (z_new ps) (z_interface ps) (z_getunknown ps)
                           [MZIfNilReturnVoid; MZStoreUnknown] (z_isvalid ps) (z_methods ps) (z_tzero ps) (z_tnew ps) (z_tdescriptor ps) in
  x = PMsg 0 (Some 0) /\
  rmz_step sch (canon_mz sch) h0 (ONew 0) = Some (h1, x) /\
  run_mz_setunknown sch ps h1 x u = Some (step sch h1 (OSetUnknown x u)) /\
  run_mz_getunknown sch ps (fst (step sch h1 (OSetUnknown x u))) x = Some (fst (step sch h1 (OSetUnknown x u)), PBytes u) /\
  run_mz_setunknown sch ps h1 (PMsg 0 None) u = Some (h1, PPanic) /\
  run_mz_setunknown sch guarded h1 (PMsg 0 None) u = Some (h1, PUnit) /\
  mzprogs_eqb guarded ps = false /\
  run_mz_type_zero sch (canon_mz sch) ps h1 x = Some (h1, PMsg 0 None) /\
  run_mz_interface_reflect sch (canon_mz sch) ps h1 (PMsg 0 None) = Some (h1, PMsg 0 None) /\
  mz_methods_law (z_methods ps) 0 = true.
Proof. vm_compute. repeat split; reflexivity. Qed.
