(* Properties/C09.v — nil and read-only empty messages, lists and maps: laws of Reflect.step (Model/Reflect.v) for ALL
   schemas, heaps, message types, fields, keys and values. `PMsg mid None` is the nil message of type mid (a typed nil
   pointer, MessageType.Zero(), Get of an unset message field / oneof member, a nil list element or map value, a oneof
   wrapper holding nil); `PList t RNil` / `PMap kk t RNil` are the invalid views Get returns for empty containers.
   Only statements; proofs are in Proofs/ReflectLaws.v. *)
From CP Require Import Reflect ReflectLaws.
Local Open Scope nat_scope.

(* every read of a nil message returns what the same read returns on a freshly allocated empty message of the type
   (heap h extended by new_obj; containers give the invalid view and message fields the nil message in both cases) *)
Theorem nil_reads_as_empty : forall sch h mid,
  let hE := h ++ [HObj (new_obj sch mid)] in
  let E := PMsg mid (Some (length h)) in
  let N := PMsg mid None in
  (forall f, snd (step sch h (OHas N f)) = snd (step sch hE (OHas E f))) /\
  (forall f, snd (step sch h (OGet N f)) = snd (step sch hE (OGet E f))) /\
  (forall j, snd (step sch h (OWhichOneof N j)) = snd (step sch hE (OWhichOneof E j))) /\
  snd (step sch h (ORange N)) = snd (step sch hE (ORange E)) /\
  snd (step sch h (OGetUnknown N)) = snd (step sch hE (OGetUnknown E)).
Proof. exact ReflectLaws.nil_reads_as_empty. Qed.

(* ... namely: Has false, WhichOneof none, Range nothing, no unknown fields, IsValid false; the heap is untouched *)
Theorem nil_reads_values : forall sch h mid,
  let N := PMsg mid None in
  (forall f fd, field_of sch mid f = Some fd -> step sch h (OHas N f) = (h, PBool false)) /\
  (forall j md, get_msg sch mid = Some md -> j < m_oneofs md -> step sch h (OWhichOneof N j) = (h, PField None)) /\
  step sch h (ORange N) = (h, PRange []) /\
  step sch h (OGetUnknown N) = (h, PBytes []) /\
  step sch h (OIsValid N) = (h, PBool false).
Proof. exact ReflectLaws.nil_reads_values. Qed.

(* Get on a nil message gives the default: zero scalar, the nil message again, the invalid list / map view — so access
   chains of any length (Get of Get of Get ...) stay nil / invalid *)
Theorem nil_get_is_default : forall sch h mid f fd, field_of sch mid f = Some fd ->
  step sch h (OGet (PMsg mid None) f) = (h, default_pval fd).
Proof. exact ReflectLaws.nil_get_is_default. Qed.

Theorem nil_reads_never_panic : forall sch h mid,
  let N := PMsg mid None in
  (forall f fd, field_of sch mid f = Some fd ->
     snd (step sch h (OHas N f)) <> PPanic /\ snd (step sch h (OGet N f)) <> PPanic) /\
  (forall j md, get_msg sch mid = Some md -> j < m_oneofs md -> snd (step sch h (OWhichOneof N j)) <> PPanic) /\
  snd (step sch h (ORange N)) <> PPanic /\ snd (step sch h (OGetUnknown N)) <> PPanic /\
  snd (step sch h (OIsValid N)) <> PPanic.
Proof. exact ReflectLaws.nil_reads_never_panic. Qed.

Theorem nil_list_reads : forall sch h t,
  let L := PList t RNil in
  step sch h (OLLen L) = (h, PScalar (VInt 0)) /\ step sch h (OIsValid L) = (h, PBool false) /\
  snd (step sch h (OLNewElement L)) <> PPanic.
Proof. exact ReflectLaws.nil_list_reads. Qed.

Theorem nil_map_reads : forall sch h kk t k,
  let M := PMap kk t RNil in
  step sch h (OMLen M) = (h, PScalar (VInt 0)) /\ step sch h (OMHas M k) = (h, PBool false) /\
  step sch h (OMGet M k) = (h, PInvalid) /\ step sch h (OMRange M) = (h, PMapRange []) /\
  step sch h (OIsValid M) = (h, PBool false) /\ step sch h (OMClear M k) = (h, PUnit) /\
  snd (step sch h (OMNewValue M)) <> PPanic.
Proof. exact ReflectLaws.nil_map_reads. Qed.

(* every write to a nil message panics and leaves the heap unchanged: never a silent drop *)
Theorem nil_writes_panic : forall sch h mid f v u,
  let N := PMsg mid None in
  step sch h (OSet N f v) = (h, PPanic) /\ step sch h (OClear N f) = (h, PPanic) /\
  step sch h (OMutable N f) = (h, PPanic) /\ step sch h (OSetUnknown N u) = (h, PPanic).
Proof. exact ReflectLaws.nil_writes_panic. Qed.

Theorem nil_list_writes_panic : forall sch h t i n v,
  let L := PList t RNil in
  step sch h (OLSet L i v) = (h, PPanic) /\ step sch h (OLAppend L v) = (h, PPanic) /\
  step sch h (OLAppendMutable L) = (h, PPanic) /\ step sch h (OLTruncate L n) = (h, PPanic).
Proof. exact ReflectLaws.nil_list_writes_panic. Qed.

Theorem nil_map_writes_panic : forall sch h kk t k v,
  let M := PMap kk t RNil in
  step sch h (OMSet M k v) = (h, PPanic) /\ step sch h (OMMutable M k) = (h, PPanic).
Proof. exact ReflectLaws.nil_map_writes_panic. Qed.

(* reads never modify anything (shared with C08) *)
Theorem nil_reads_frame : forall sch h o, is_read o = true -> fst (step sch h o) = h.
Proof. exact ReflectLaws.reads_frame. Qed.

(* ---- non-vacuity: a chain Get(c) of Get(c) of the nil message, then reads and a write ------------------------------ *)
Example ex_nil_chain :
  let sch := [ {| m_fields := [ {| f_num := 1; f_ty := TScalar KBytes; f_shape := Singular |};
                                {| f_num := 2; f_ty := TMsg 0; f_shape := Singular |};
                                {| f_num := 3; f_ty := TMsg 0; f_shape := Rep false |} ];
                  m_oneofs := 0; m_impl := Pulsar |} ] in
  snd (run sch
         [ (fun _ => ONil 0);
           (fun o => OGet (nth 0 o PPanic) 1);
           (fun o => OGet (nth 1 o PPanic) 1);
           (fun o => OHas (nth 2 o PPanic) 0);
           (fun o => OGet (nth 2 o PPanic) 2);
           (fun o => OLLen (nth 4 o PPanic));
           (fun o => OLAppendMutable (nth 4 o PPanic));
           (fun o => OSet (nth 2 o PPanic) 0 (PScalar (VBytes [])));
           (fun o => ORange (nth 2 o PPanic)) ])
  = [ PMsg 0 None; PMsg 0 None; PMsg 0 None; PBool false; PList (TMsg 0) RNil; PScalar (VInt 0); PPanic; PPanic; PRange [] ].
Proof. vm_compute. reflexivity. Qed.
