(* Properties/C17.v — timepb arithmetic is exact and normalised; TsCompare is chronological. *)
From Coq Require Import Lia.
From CP Require Import Bytes TimePb TimePbProofs TimePbOverflow GoFun GoFunProofs.
Local Open Scope Z_scope.

(* TsAdd denotes exactly t + d, normalised (hence a valid Timestamp whenever representable), never
   panics on valid inputs *)
Theorem add_exact_normalised : forall t d, valid_ts t -> valid_dur d ->
  exists r, TsAdd t d = Ok r /\ inst r = inst t + inst d /\ 0 <= nanos r < second.
Proof. exact Add_exact. Qed.

(* TsAdd agrees with TsAddStd for every duration expressible as a time.Duration (int64 nanoseconds) *)
Theorem add_eq_addstd : forall t d, valid_ts t -> int64 d -> TsAdd t (dur_of_ns d) = TsAddStd t d.
Proof. exact Add_eq_AddStd. Qed.

(* when the seconds sum (with the nanos carry) does not fit in 64 bits, TsAdd panics: no wrapped value
   is ever returned. For all int64 seconds, normalised t, sign-consistent d. *)
Theorem add_overflow_panics : forall t d,
  int64 (secs t) -> int64 (secs d) ->
  0 <= nanos t < second -> - second < nanos d < second ->
  (0 < secs d -> 0 <= nanos d) -> (secs d < 0 -> nanos d <= 0) ->
  ~ int64 (secs t + secs d + carry (nanos t + nanos d)) ->
  TsAdd t d = Panic.
Proof. exact Add_overflow_panics. Qed.

(* TsCompare orders normalised timestamps as their instants *)
Theorem compare_chrono : forall t1 t2, normalised t1 -> normalised t2 ->
  TsCompare t1 t2 = match inst t1 ?= inst t2 with Lt => -1 | Eq => 0 | Gt => 1 end.
Proof. exact Compare_chrono. Qed.

(* ... and is a total order: antisymmetric, zero exactly on equal values, transitive *)
Theorem compare_total_order : forall t1 t2 t3, normalised t1 -> normalised t2 -> normalised t3 ->
  TsCompare t1 t2 = - TsCompare t2 t1 /\ (TsCompare t1 t2 = 0 <-> t1 = t2) /\
  (TsCompare t1 t2 <= 0 -> TsCompare t2 t3 <= 0 -> TsCompare t1 t3 <= 0).
Proof. exact Compare_total. Qed.

(* non-vacuity: the borrow boundary that the unrepaired code got wrong, and an overflow *)
Example borrow_example :
  valid_ts {| secs := 10; nanos := 0 |} /\ valid_dur {| secs := 0; nanos := -5 |} /\
  TsAdd {| secs := 10; nanos := 0 |} {| secs := 0; nanos := -5 |} = Ok {| secs := 9; nanos := 999999995 |}.
Proof. unfold valid_ts, valid_dur, second. cbn. repeat split; try lia; try discriminate; vm_compute; reflexivity. Qed.
Example overflow_example :
  TsAdd {| secs := 9223372036854775807; nanos := 1000 |} {| secs := 1; nanos := 0 |} = Panic.
Proof. vm_compute. reflexivity. Qed.

(* ---- the Go source itself (support/timepb/cmp.go transcribed by the translator: GoFun.canon_timepb, re-derived and compared
        on every run) computes the models above, for all int64 x int32 operands, panics included (task T12; proofs in
        Proofs/GoFunProofs.v by symbolic execution of the interpreter GoFun.run_fun) ---- *)
Theorem iszero_prog : iszero_prog_stmt.
Proof. exact GoFunProofs.iszero_prog_correct. Qed.
Theorem compare_prog : compare_prog_stmt.
Proof. exact GoFunProofs.compare_prog_correct. Qed.
Theorem compare_nil_prog : compare_nil_prog_stmt.
Proof. exact GoFunProofs.compare_nil_prog_correct. Qed.
Theorem durationisnegative_prog : durationisnegative_prog_stmt.
Proof. exact GoFunProofs.durationisnegative_prog_correct. Qed.
Theorem overflowpanic_prog : overflowpanic_prog_stmt.
Proof. exact GoFunProofs.overflowpanic_prog_correct. Qed.
Theorem add_prog : add_prog_stmt.
Proof. exact GoFunProofs.add_prog_correct. Qed.
Theorem add_nil_prog : add_nil_prog_stmt.
Proof. exact GoFunProofs.add_nil_prog_correct. Qed.
Theorem addstd_prog : addstd_prog_stmt.
Proof. exact GoFunProofs.addstd_prog_correct. Qed.

(* non-vacuity: the interpreted Go code on an addition with a nanos carry, and on one whose seconds overflow (panic) *)
Example add_prog_example :
  run_fun canon_timepb 0 3 "Add" [ts_ptr {| secs := 10; nanos := 999999999 |}; ts_ptr {| secs := 1; nanos := 2 |}]
  = GOk [ts_ptr {| secs := 12; nanos := 1 |}] [ts_ptr {| secs := 10; nanos := 999999999 |}; ts_ptr {| secs := 1; nanos := 2 |}] /\
  run_fun canon_timepb 0 3 "Add" [ts_ptr {| secs := 9223372036854775807; nanos := 1000 |}; ts_ptr {| secs := 1; nanos := 0 |}] = GPanic.
Proof. split; vm_compute; reflexivity. Qed.
