(* Properties/C19.v — generated Go API and descriptors are coherent with the schema.
   Statements only; proofs in Proofs/GenOrderProofs.v and Proofs/GenNamesProofs.v. Theorems cover the generator's table
   logic on the model (Model/GenOrder.v): which entry of the file's message-type table a message uses, and which
   descriptor the md_ look-up chain selects. Registry coherence, getters, Reset, String and enum methods are behaviour
   of protobuf-go and of the embedded protoc-gen-go templates, observed by the desc engine on every linked package. *)
From CP Require Import Bytes GenNames GenOrder GenDeps GenNamesProofs GenOrderProofs GenDepsProofs.
Local Open Scope N_scope.

(* NewFileInfo's accumulator walk yields filetype.TypeBuilder's documented "flattened ordering" of the messages, so the
   index emitted into slowProtoReflect (file_x_msgTypes[i]) is the entry protobuf-go builds for that very message *)
Theorem msg_index_flatten : forall tops, flatten_gen tops = flatten_spec tops.
Proof. exact GenOrderProofs.flatten_gen_eq_spec. Qed.

Theorem msg_index_is_flat_position : forall tops t, NoDup (flatten_gen tops) ->
  msg_index tops t = index_of (flatten_spec tops) t.
Proof. exact (fun tops t H => eq_trans (GenOrderProofs.scan_is_position (flatten_gen tops) t H) (f_equal (fun l => index_of l t) (GenOrderProofs.flatten_gen_eq_spec tops))). Qed.

(* md_X = File.Messages().ByName(n1).Messages().ByName(n2)... over the parents of X: for every message of a file whose
   sibling names are distinct the chain ends at a declaration, and that declaration carries the message's own name *)
Theorem descriptor_paths : forall tops, wf_forest tops = true -> forall p, In p (flatten_spec tops) ->
  exists m, lookup_path tops p = Some m /\ mt_name m = last p [].
Proof. exact GenOrderProofs.descriptor_paths. Qed.

(* md_ / fd_ variables of different messages / fields are different variables (fd_ under the proviso of C12) *)
Theorem descriptor_vars_distinct : forall k1 k2, key_ok k1 -> key_ok k2 -> ident_of k1 = ident_of k2 -> k1 = k2.
Proof. exact GenNamesProofs.ident_of_inj. Qed.

(* genReflectFileDescriptor's tables (Model/GenDeps.v is the generator's state machine: `seen` map, goTypes, depIdxs):
   for each of the five dependency sub-lists of filetype.TypeBuilder.DependencyIndexes (k = 0 field type_name, 1 extension
   extendee, 2 extension type_name, 3 method input_type, 4 method output_type), entry i, counted from the sub-list's start
   offset, is the index in goTypes of the type named by the i-th message/enum-typed field (extension, method input, method
   output) of the file, and goTypes holds that very type there — for every file *)
Theorem dep_indexes_resolve : forall f k R o i n,
  nth_error (sublists f) k = Some R -> nth_error (offsets f) k = Some o -> nth_error R i = Some n ->
  nth_error (depIdxs (gen_tables f)) (N.to_nat o + i) = Some (pos (goTypes (gen_tables f)) n) /\
  nth_error (goTypes (gen_tables f)) (N.to_nat (pos (goTypes (gen_tables f)) n)) = Some n.
Proof. exact GenDepsProofs.dep_indexes_resolve. Qed.

(* the whole depIdxs table: the five sub-lists back to back, then their start offsets in reverse order; and goTypes is
   the de-duplicated list of declarations followed by dependencies in first-use order *)
Theorem dep_table_layout : forall f,
  goTypes (gen_tables f) = fold_left declare (all_names f) [] /\
  depIdxs (gen_tables f) = map (pos (goTypes (gen_tables f))) (concat (sublists f)) ++ rev (offsets f).
Proof. exact GenDepsProofs.tables_closed_form. Qed.

(* declarations come first (enums, then messages, both in flattened order), every type once, nothing else *)
Theorem go_types_layout : forall f, NoDup (all_enums f ++ map dm_full (all_messages f)) ->
  (exists deps, goTypes (gen_tables f) = all_enums f ++ map dm_full (all_messages f) ++ deps) /\
  NoDup (goTypes (gen_tables f)) /\ (forall n, In n (goTypes (gen_tables f)) <-> In n (all_names f)).
Proof. exact GenDepsProofs.go_types_layout. Qed.

Local Open Scope byte_scope.
Example flatten_example :
  let t := [MT ["A"] [MT ["B"] [MT ["D"] []]; MT ["C"] []]; MT ["E"] []] in
  flatten_gen t = [[["A"]]; [["E"]]; [["A"]; ["B"]]; [["A"]; ["C"]]; [["A"]; ["B"]; ["D"]]] /\
  msg_index t [["A"]; ["B"]; ["D"]] = Some 4 /\ wf_forest t = true.
Proof. vm_compute. repeat split; reflexivity. Qed.

Example dep_example :
  let a := ["A"] in let b := ["B"] in let e := ["E"] in let x := ["X"] in
  let f := {| df_enums := [e]; df_exts := [];
              df_msgs := [DM a [] [] [Some b; None; Some e; Some x] []; DM b [] [] [Some a] []];
              df_services := [[ {| me_in := a; me_out := b |} ]] |} in
  goTypes (gen_tables f) = [e; a; b; x] /\ depIdxs (gen_tables f) = [2; 0; 3; 1; 1; 2; 5; 4; 4; 4; 0].
Proof. vm_compute. split; reflexivity. Qed.

(* ---- translator tie for the plain Go API (DESIGN 12.7, tasks/T14.md): the declarations the protoc-gen-go part of the plugin prints
   for a message type — struct declaration with its struct tags, oneof wrapper types, getters, Reset — as data (Model/ApiProg.v:
   canon_prog, computed from the schema and the message's naming context; the generated source is translated into the same
   syntax and compared with it on every run by the engine apiprog), interpreted over the heap of Go objects of Model/Reflect.v.
   Proofs: Proofs/ApiProgProofs.v. (Required here, after the theorems above: Schema.v's field record shadows GenNames.v's.) *)
From CP Require Import Reflect ReflectProg ApiProg ApiProgProofs.

(* "getters (also on nil receivers) return what Get returns": for every wf schema, heap satisfying the invariant of ReflectProg.v,
   receiver (Some object / None = the nil pointer), naming context of the right shape and field, the canonical getter returns a Go
   value related by api_rel to the protoreflect.Value that Reflect.step's Get returns: equal scalars; the same message pointer
   (nil where Get returns the read-only typed-nil message); for a list / map the slice / map held, where Get returns the invalid
   view exactly when it has no elements (nil or empty) and otherwise a view of that very field with those contents *)
Theorem getter_api_correct : getter_api_stmt.
Proof. exact ApiProgProofs.getter_api_correct. Qed.

(* on the nil receiver a getter returns the zero value of its Go type (nil slice / map / pointer / []byte, "", 0, false, enum 0) *)
Theorem getter_nil_api_correct : getter_nil_api_stmt.
Proof. exact ApiProgProofs.getter_nil_api_correct. Qed.

(* the oneof getter Get<O>() returns the wrapper of the member that WhichOneof names (nil: none), nil receiver included *)
Theorem ogetter_api_correct : ogetter_api_stmt.
Proof. exact ApiProgProofs.ogetter_api_correct. Qed.

(* "Reset empties the message": the object becomes the freshly allocated one (every other heap entry untouched), … *)
Theorem reset_api_correct : reset_api_stmt.
Proof. exact ApiProgProofs.reset_api_correct. Qed.
(* … Reset of the nil pointer panics (`*x = T{}`), … *)
Theorem reset_nil_api_correct : reset_nil_api_stmt.
Proof. exact ApiProgProofs.reset_nil_api_correct. Qed.
(* … the heap invariant is kept (so that the statements apply along every history that contains Reset), … *)
Theorem reset_keeps_ok_api_correct : reset_keeps_ok_api_stmt.
Proof. exact ApiProgProofs.reset_keeps_ok_api_correct. Qed.
(* … and afterwards Has is false for every field and every getter returns its zero value *)
Theorem reset_empties_api_correct : reset_empties_api_stmt.
Proof. exact ApiProgProofs.reset_empties_api_correct. Qed.

(* struct layout: what the reflect-based name -> index maps of the runner (values.go) and of every translator rely on. The Go
   field of a field outside a oneof stands at position 3 + (number of Go fields printed for the fields before it), is the one
   genMessageField prints (Go name, Go type, protobuf tag with the wire word, number, label, packed, name, json, proto3, enum the
   descriptor implies, json tag, map key / value tags) and is the only Go field of the struct whose tag carries that number *)
Theorem struct_layout_field_correct : struct_layout_field_stmt.
Proof. exact ApiProgProofs.struct_layout_field_correct. Qed.
(* the interface field of a oneof stands where the oneof's first member is declared and is the only field tagged
   protobuf_oneof:"<its name>"; the wrapper type of each member is declared with the oneof and is the only wrapper of the message
   whose payload tag carries the member's number *)
Theorem struct_layout_oneof_correct : struct_layout_oneof_stmt.
Proof. exact ApiProgProofs.struct_layout_oneof_correct. Qed.
(* exactly one Go field per field outside a oneof and per oneof with a member, after state / sizeCache / unknownFields … *)
Theorem struct_layout_count_correct : struct_layout_count_stmt.
Proof. exact ApiProgProofs.struct_layout_count_correct. Qed.
(* … in declaration order *)
Theorem struct_layout_order_correct : struct_layout_order_stmt.
Proof. exact ApiProgProofs.struct_layout_order_correct. Qed.

(* non-vacuity. message 0 "T": x int32 = 1; oneof o { a string = 2; b T = 3 }; r repeated int64 = 4 [packed]; m map<string,int32> = 5;
   e enum E = 6. The struct has 3 + 5 Go fields (x, the interface field O, r, m, e); the naming context is consistent and the layout
   law holds; on the struct built from (x = 7, o = b holding nil, r = [1, 2], m nil, e = 0) the getters return 7, "" (a is not the
   member set), the nil pointer held by the wrapper, the slice, the nil map, 0; the oneof getter returns the wrapper of member 2;
   Reset leaves the empty struct; the index printed into Reset is the message's position in the file's flattened order. *)
Example ex_api_prog :
  let ex_sch : schema :=
  [ {| m_fields := [ {| f_num := 1; f_ty := TScalar KInt32; f_shape := Singular |};
                     {| f_num := 2; f_ty := TScalar KString; f_shape := Member 0 |};
                     {| f_num := 3; f_ty := TMsg 0; f_shape := Member 0 |};
                     {| f_num := 4; f_ty := TScalar KInt64; f_shape := Rep true |};
                     {| f_num := 5; f_ty := TScalar KInt32; f_shape := MapOf KString |};
                     {| f_num := 6; f_ty := TScalar KEnum; f_shape := Singular |} ];
       m_oneofs := 1; m_impl := Pulsar |} ] in
  let nm : amnames :=
    mkMNames ["T"] [ mkFNames ["x"] ["x"] ["X"] [] [] [] false 0; mkFNames ["a"] ["a"] ["A"] ["T"; "_"; "A"] [] [] false 0;
                     mkFNames ["b"] ["b"] ["B"] ["T"; "_"; "B"] [] [] false 0; mkFNames ["r"] ["r"] ["R"] [] [] [] false 0;
                     mkFNames ["m"] ["m"] ["M"] [] [] [] false 0; mkFNames ["e"] ["e"] ["E"] [] ["p"; "."; "E"] ["E"] true 0 ]
             [ mkONames ["o"] ["O"] ["i"; "s"; "T"; "_"; "O"] ] ["v"] [MT ["S"] [MT ["U"] []]; MT ["T"] []] [["T"]] in
  let prog := canon_prog ex_sch 0 nm in
  let v := VMsg [VInt 7; VNil; VSome VNil; VList [VInt 1; VInt 2]; VNil; VInt 0] [] in
  let h := fst (load ex_sch 8 [] 0 v) in
  wf ex_sch = true /\ api_names_okb ex_sch 0 nm = true /\ api_layout_law ex_sch 0 nm = true /\ rp_heap_okb ex_sch h = true /\
  map gf_name (as_fields (ap_struct prog)) = [api_s_state; api_s_sizecache; api_s_unknown; ["X"]; ["O"]; ["R"]; ["M"]; ["E"]] /\
  nth_error (as_fields (ap_struct prog)) 5 =
    Some (mkGoField ["R"] (ATSlice ATInt64) (TGField (mkPTag AWVarint 4 ALRep true ["r"] None true None false) ["r"])) /\
  map (fun f => run_getter ex_sch prog h 0 (Some 0%nat) f) (seq 0 6) =
    [Some (AVScalar (VInt 7)); Some (AVScalar (VBytes [])); Some (AVMsg 0 None); Some (AVList (TScalar KInt64) (Some [EScalar (VInt 1); EScalar (VInt 2)]));
     Some (AVMap KString (TScalar KInt32) None); Some (AVScalar (VInt 0))] /\
  run_ogetter ex_sch prog h 0 (Some 0%nat) 0 = Some (AVOneof (Some (2%nat, EPtr None))) /\
  run_reset ex_sch (ap_reset prog) h 0 (Some 0%nat) = Some ([HObj (new_obj ex_sch 0)], AVUnit) /\
  ap_reset prog = ARReset 0 ["v"] (Some 1) /\
  forallb (fun f => api_getter_law ex_sch 0 nm h (Some 0%nat) f && api_getter_law ex_sch 0 nm h None f) (seq 0 6) = true /\
  api_reset_law ex_sch 0 nm h (Some 0%nat) = true.
Proof. vm_compute. repeat split; reflexivity. Qed.

From CP Require Import EnumProg EnumProgProofs.
(* ---- generated enum types and the per-file type tables (Model/EnumProg.v; translator tie: engine enumprog) -------------------
   The index an enum's Descriptor() / Type() (hence String()) and a message's slowProtoReflect / Reset read is the position in
   newFileInfo's flattened list; it is below the table length and distinct for distinct declarations *)
Theorem enum_index_bound : EnumProgProofs.enum_index_bound_stmt.
Proof. exact EnumProgProofs.enum_index_bound. Qed.
Theorem enum_index_injective : EnumProgProofs.enum_index_injective_stmt.
Proof. exact EnumProgProofs.enum_index_injective. Qed.
Theorem message_index_bound : EnumProgProofs.message_index_bound_stmt.
Proof. exact EnumProgProofs.message_index_bound. Qed.
Theorem message_index_injective : EnumProgProofs.message_index_injective_stmt.
Proof. exact EnumProgProofs.message_index_injective. Qed.
(* the canonical program exists for every enum of the file the naming context describes *)
Theorem canon_enum_total : EnumProgProofs.canon_enum_total_stmt.
Proof. exact EnumProgProofs.canon_enum_total. Qed.
(* the slot the canonical Descriptor() and Type() of enum e read is exactly the goTypes slot GenDeps.gen_tables assigns to e —
   protoimpl.TypeBuilder pairs enumTypes[i] with goTypes[i] — so the descriptor a Go enum value reports is its own *)
Theorem enum_descriptor_own : EnumProgProofs.enum_descriptor_own_stmt.
Proof. exact EnumProgProofs.enum_descriptor_own. Qed.
(* msgTypes[i] is paired with goTypes[len(enums) + i]: the slot a message's methods read is the message's own *)
Theorem message_slot_own : EnumProgProofs.message_slot_own_stmt.
Proof. exact EnumProgProofs.message_slot_own. Qed.
(* the index path the deprecated EnumDescriptor() returns leads to the enum in the declaration tree *)
Theorem enum_raw_path : EnumProgProofs.enum_raw_path_stmt.
Proof. exact EnumProgProofs.enum_raw_path. Qed.
(* E_name holds exactly the (number -> first declared name) pairs, each number once; the const block and E_value list every
   declared value, aliases included, in declaration order *)
Theorem enum_name_map : EnumProgProofs.enum_name_map_stmt.
Proof. exact EnumProgProofs.enum_name_map. Qed.
(* String() of the canonical program renders a number through the enum's own values: first declared name, = E_name *)
Theorem enum_string_own : EnumProgProofs.enum_string_own_stmt.
Proof. exact EnumProgProofs.enum_string_own. Qed.
(* the executable form of the above, which the driver evaluates on every file of a run *)
Theorem enum_law_holds : EnumProgProofs.enum_law_holds_stmt.
Proof. exact EnumProgProofs.enum_law_holds. Qed.
Theorem eprog_eqb_correct : EnumProgProofs.eprog_eqb_stmt.
Proof. exact EnumProgProofs.eprog_eqb_correct. Qed.

(* non-vacuity. file: enum p.F { Z = 0; }  message p.A { message B { enum D { X = 0; Y = 1; Y2 = 1; } } enum E { U = 0; } }
   message p.C { enum G { V = 0; } }.  Flattened enum order: F, A.E, A.B.D, C.G — D (declared first in the text of A, one level
   deeper) comes after E. D's methods read slot 2, its path is [0; 0; 0], the alias Y2 is left out of D_name and kept in the const
   block, String() renders 1 as "Y". With the parent index (seed C19_r5: 0) the slot would be F's. *)
Example ex_enum_prog :
  let d : dfile := {| df_enums := [["F"]]; df_exts := [];
                     df_msgs := [DM ["A"] [["E"]] [] [] [DM ["B"] [["D"]] [] [] []]; DM ["C"] [["G"]] [] [] []]; df_services := [] |} in
  let f : efile := mkEFile d ["v"]
      [ mkEInfo ["D"] ["A"; "_"; "B"; "_"; "D"] [mkEValue ["X"] ["B"; "_"; "X"] 0; mkEValue ["Y"] ["B"; "_"; "Y"] 1; mkEValue ["Y"; "2"] ["B"; "_"; "Y"; "2"] 1];
        mkEInfo ["F"] ["F"] [mkEValue ["Z"] ["F"; "_"; "Z"] 0] ] in
  all_enums d = [["F"]; ["E"]; ["D"]; ["G"]] /\
  map dm_full (all_messages d) = [["A"]; ["C"]; ["B"]] /\
  canon_enum f ["D"] =
    Some (mkEProg ["A"; "_"; "B"; "_"; "D"] [(["B"; "_"; "X"], 0%Z); (["B"; "_"; "Y"], 1%Z); (["B"; "_"; "Y"; "2"], 1%Z)]
            [(0%Z, ["X"]); (1%Z, ["Y"])] [(["X"], 0%Z); (["Y"], 1%Z); (["Y"; "2"], 1%Z)]
            [EMEnum ["A"; "_"; "B"; "_"; "D"]; EMString ["A"; "_"; "B"; "_"; "D"]; EMDescriptor ["A"; "_"; "B"; "_"; "D"] ["v"] 2;
             EMType ["A"; "_"; "B"; "_"; "D"] ["v"] 2; EMNumber ["A"; "_"; "B"; "_"; "D"]; EMRawDesc ["A"; "_"; "B"; "_"; "D"] ["v"] [0; 0; 0]%N]) /\
  canon_msg f ["B"] = Some (MPIdx ["v"] 2 2) /\
  enum_law f ["D"] = true /\ enum_law f ["F"] = true /\
  match canon_enum f ["D"] with Some p => run_string f p 1 = Some (Some ["Y"]) /\ run_string f p 7 = Some None | None => False end /\
  resolve_path d [0; 0; 0]%N = Some ["D"] /\ resolve_path d [1; 0]%N = Some ["G"] /\ resolve_path d [0]%N = Some ["F"].
Proof. vm_compute. repeat split; reflexivity. Qed.
