(* Properties/C19.v — generated Go API and descriptors are coherent with the schema.
   Statements only; proofs in Proofs/GenOrderProofs.v and Proofs/GenNamesProofs.v. Theorems cover the generator's table
   logic on the model (Model/GenOrder.v): which entry of the file's message-type table a message uses, and which
   descriptor the md_ look-up chain selects. Registry coherence, getters, Reset, String and enum methods are behaviour
   of protobuf-go and of the embedded protoc-gen-go templates, observed by the desc engine on every linked package. *)
From CP Require Import Bytes GenNames GenOrder GenNamesProofs GenOrderProofs.
Local Open Scope N_scope.

(* NewFileInfo's accumulator walk yields filetype.TypeBuilder's documented "flattened ordering" of the messages, so the
   index emitted into slowProtoReflect (file_x_msgTypes[i]) is the entry protobuf-go builds for that very message *)
Theorem msg_index_flatten : forall tops, flatten_gen tops = flatten_spec tops.
Proof. exact GenOrderProofs.flatten_gen_eq_spec. Qed.

Theorem msg_index_is_flat_position : forall tops t, NoDup (flatten_gen tops) ->
  msg_index tops t = index_of (flatten_spec tops) t.
Proof. exact (fun tops t H => eq_trans (GenOrderProofs.scan_is_position (flatten_gen tops) t H) (f_equal (fun l => index_of l t) (GenOrderProofs.flatten_gen_eq_spec tops))). Qed.

(* md_X = File.Messages().ByName(n1).Messages().ByName(n2)... over the parents of X: for every message of a file whose
   sibling names are distinct the chain ends at a declaration, and that declaration carries the message's own name *)
Theorem descriptor_paths : forall tops, wf_forest tops = true -> forall p, In p (flatten_spec tops) ->
  exists m, lookup_path tops p = Some m /\ mt_name m = last p [].
Proof. exact GenOrderProofs.descriptor_paths. Qed.

(* md_ / fd_ variables of different messages / fields are different variables (fd_ under the proviso of C12) *)
Theorem descriptor_vars_distinct : forall k1 k2, key_ok k1 -> key_ok k2 -> ident_of k1 = ident_of k2 -> k1 = k2.
Proof. exact GenNamesProofs.ident_of_inj. Qed.

Local Open Scope byte_scope.
Example flatten_example :
  let t := [MT ["A"] [MT ["B"] [MT ["D"] []]; MT ["C"] []]; MT ["E"] []] in
  flatten_gen t = [[["A"]]; [["E"]]; [["A"]; ["B"]]; [["A"]; ["C"]]; [["A"]; ["B"]; ["D"]]] /\
  msg_index t [["A"]; ["B"]; ["D"]] = Some 4 /\ wf_forest t = true.
Proof. vm_compute. repeat split; reflexivity. Qed.
