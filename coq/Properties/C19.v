(* Properties/C19.v — generated Go API and descriptors are coherent with the schema.
   Statements only; proofs in Proofs/GenOrderProofs.v and Proofs/GenNamesProofs.v. Theorems cover the generator's table
   logic on the model (Model/GenOrder.v): which entry of the file's message-type table a message uses, and which
   descriptor the md_ look-up chain selects. Registry coherence, getters, Reset, String and enum methods are behaviour
   of protobuf-go and of the embedded protoc-gen-go templates, observed by the desc engine on every linked package. *)
From CP Require Import Bytes GenNames GenOrder GenDeps GenNamesProofs GenOrderProofs GenDepsProofs.
Local Open Scope N_scope.

(* NewFileInfo's accumulator walk yields filetype.TypeBuilder's documented "flattened ordering" of the messages, so the
   index emitted into slowProtoReflect (file_x_msgTypes[i]) is the entry protobuf-go builds for that very message *)
Theorem msg_index_flatten : forall tops, flatten_gen tops = flatten_spec tops.
Proof. exact GenOrderProofs.flatten_gen_eq_spec. Qed.

Theorem msg_index_is_flat_position : forall tops t, NoDup (flatten_gen tops) ->
  msg_index tops t = index_of (flatten_spec tops) t.
Proof. exact (fun tops t H => eq_trans (GenOrderProofs.scan_is_position (flatten_gen tops) t H) (f_equal (fun l => index_of l t) (GenOrderProofs.flatten_gen_eq_spec tops))). Qed.

(* md_X = File.Messages().ByName(n1).Messages().ByName(n2)... over the parents of X: for every message of a file whose
   sibling names are distinct the chain ends at a declaration, and that declaration carries the message's own name *)
Theorem descriptor_paths : forall tops, wf_forest tops = true -> forall p, In p (flatten_spec tops) ->
  exists m, lookup_path tops p = Some m /\ mt_name m = last p [].
Proof. exact GenOrderProofs.descriptor_paths. Qed.

(* md_ / fd_ variables of different messages / fields are different variables (fd_ under the proviso of C12) *)
Theorem descriptor_vars_distinct : forall k1 k2, key_ok k1 -> key_ok k2 -> ident_of k1 = ident_of k2 -> k1 = k2.
Proof. exact GenNamesProofs.ident_of_inj. Qed.

(* genReflectFileDescriptor's tables (Model/GenDeps.v is the generator's state machine: `seen` map, goTypes, depIdxs):
   for each of the five dependency sub-lists of filetype.TypeBuilder.DependencyIndexes (k = 0 field type_name, 1 extension
   extendee, 2 extension type_name, 3 method input_type, 4 method output_type), entry i, counted from the sub-list's start
   offset, is the index in goTypes of the type named by the i-th message/enum-typed field (extension, method input, method
   output) of the file, and goTypes holds that very type there — for every file *)
Theorem dep_indexes_resolve : forall f k R o i n,
  nth_error (sublists f) k = Some R -> nth_error (offsets f) k = Some o -> nth_error R i = Some n ->
  nth_error (depIdxs (gen_tables f)) (N.to_nat o + i) = Some (pos (goTypes (gen_tables f)) n) /\
  nth_error (goTypes (gen_tables f)) (N.to_nat (pos (goTypes (gen_tables f)) n)) = Some n.
Proof. exact GenDepsProofs.dep_indexes_resolve. Qed.

(* the whole depIdxs table: the five sub-lists back to back, then their start offsets in reverse order; and goTypes is
   the de-duplicated list of declarations followed by dependencies in first-use order *)
Theorem dep_table_layout : forall f,
  goTypes (gen_tables f) = fold_left declare (all_names f) [] /\
  depIdxs (gen_tables f) = map (pos (goTypes (gen_tables f))) (concat (sublists f)) ++ rev (offsets f).
Proof. exact GenDepsProofs.tables_closed_form. Qed.

(* declarations come first (enums, then messages, both in flattened order), every type once, nothing else *)
Theorem go_types_layout : forall f, NoDup (all_enums f ++ map dm_full (all_messages f)) ->
  (exists deps, goTypes (gen_tables f) = all_enums f ++ map dm_full (all_messages f) ++ deps) /\
  NoDup (goTypes (gen_tables f)) /\ (forall n, In n (goTypes (gen_tables f)) <-> In n (all_names f)).
Proof. exact GenDepsProofs.go_types_layout. Qed.

Local Open Scope byte_scope.
Example flatten_example :
  let t := [MT ["A"] [MT ["B"] [MT ["D"] []]; MT ["C"] []]; MT ["E"] []] in
  flatten_gen t = [[["A"]]; [["E"]]; [["A"]; ["B"]]; [["A"]; ["C"]]; [["A"]; ["B"]; ["D"]]] /\
  msg_index t [["A"]; ["B"]; ["D"]] = Some 4 /\ wf_forest t = true.
Proof. vm_compute. repeat split; reflexivity. Qed.

Example dep_example :
  let a := ["A"] in let b := ["B"] in let e := ["E"] in let x := ["X"] in
  let f := {| df_enums := [e]; df_exts := [];
              df_msgs := [DM a [] [] [Some b; None; Some e; Some x] []; DM b [] [] [Some a] []];
              df_services := [[ {| me_in := a; me_out := b |} ]] |} in
  goTypes (gen_tables f) = [e; a; b; x] /\ depIdxs (gen_tables f) = [2; 0; 3; 1; 1; 2; 5; 4; 4; 4; 0].
Proof. vm_compute. split; reflexivity. Qed.
