(* Properties/C05.v — the deterministic encoding is a pure function of the message VALUE.
   Statements only; proofs in Proofs/CodecDet.v.
   In the model a Go map is an association list in an ARBITRARY order (the order stands for Go's
   randomised iteration and for the insertion/deletion history); [canon] is the value a message
   denotes: every map sorted by key, nil and empty containers identified, at every depth. *)
From CP Require Import Extra CodecDet.
From Coq Require Import Permutation.
Local Open Scope N_scope.

(* two well-typed messages that denote the same value have the same deterministic bytes *)
Theorem det_is_function_of_value : forall sch mid v1 v2, wf sch = true ->
  wt_msg sch mid v1 = true -> wt_msg sch mid v2 = true ->
  canon v1 = canon v2 -> emit sch true mid v1 = emit sch true mid v2.
Proof. exact CodecDet.det_canon_invariant. Qed.

Theorem det_ignores_representation : forall sch, wf sch = true -> forall v mid, wt_msg sch mid v = true ->
  emit sch true mid (canon v) = emit sch true mid v.
Proof. exact CodecDet.emit_canon. Qed.

(* any iteration order of the same entries denotes the same value ... *)
Theorem map_order_irrelevant : forall kk kvs1 kvs2, legal_key kk = true -> Permutation kvs1 kvs2 ->
  nodup_keys (map fst kvs1) = true -> forallb (fun kv => wt_scalar kk (fst kv)) kvs1 = true ->
  canon (VMap kvs1) = canon (VMap kvs2).
Proof. exact CodecDet.canon_map_perm. Qed.

(* ... and so do nil and empty containers *)
Theorem nil_empty_same_value : canon (VList []) = canon VNil /\ canon (VMap []) = canon VNil.
Proof. exact CodecDet.canon_nil_empty. Qed.

(* non-vacuity: a bool-keyed map nested in a map value, in two iteration orders *)
Definition ex_schema : schema :=
  [ {| m_fields := [ {| f_num := 7; f_ty := TMsg 1; f_shape := MapOf KInt32 |} ]; m_oneofs := 0; m_impl := Pulsar |};
    {| m_fields := [ {| f_num := 1; f_ty := TScalar KBool; f_shape := MapOf KBool |};
                     {| f_num := 2; f_ty := TScalar KInt64; f_shape := Rep true |} ]; m_oneofs := 0; m_impl := Pulsar |} ].
Definition inner1 := VMsg [VMap [(VBool true, VBool false); (VBool false, VBool true)]; VNil] [].
Definition inner2 := VMsg [VMap [(VBool false, VBool true); (VBool true, VBool false)]; VList []] [].
Definition v1 := VMsg [VMap [(VInt 5, inner1); (VInt (-1), VNil)]] [].
Definition v2 := VMsg [VMap [(VInt (-1), VNil); (VInt 5, inner2)]] [].
Example det_example :
  wf ex_schema = true /\ wt_msg ex_schema 0 v1 = true /\ wt_msg ex_schema 0 v2 = true /\ canon v1 = canon v2 /\
  emit ex_schema true 0 v1 = emit ex_schema true 0 v2 /\ emit ex_schema false 0 v1 <> emit ex_schema false 0 v2.
Proof. vm_compute. repeat split; try reflexivity. discriminate. Qed.
