(* Properties/C08.v — the reflection API on generated messages: laws of Reflect.step (Model/Reflect.v, the faithful
   model of the code printed by features/fastreflection/{has,get,set,clear,mutable,new_field,which_oneof,range,list,map}.go)
   for ALL schemas, heaps, objects, fields and values. Only statements; proofs are in Proofs/ReflectLaws.v.
   `heap_ok sch h` is the shape invariant (every object has one cell per declared field, of the constructor of the
   field's shape, and one slot per oneof); it holds in every heap reachable from the empty heap by ANY history
   (reachable_shape_invariant), whatever operands the history chooses. Receivers are `PMsg (o_mid ob) (Some id)`:
   the valid message handle of object id. *)
From CP Require Import Reflect ReflectLaws RefReflect ReflectAbs ReflectRefine ReflectProg ReflectProgProofs.
From Coq Require Import Sorted.
Local Open Scope nat_scope.

(* ---- histories ---------------------------------------------------------------------------------------------- *)
Theorem shape_invariant_preserved : forall sch h o, heap_ok sch h -> heap_ok sch (fst (step sch h o)).
Proof. exact ReflectLaws.step_preserves_ok. Qed.

Theorem reachable_shape_invariant : forall sch (ops : list (list pval -> op)), heap_ok sch (fst (run sch ops)).
Proof. exact ReflectLaws.reachable_ok. Qed.

(* every read accessor (Has Get WhichOneof Range GetUnknown IsValid; List Len/Get; Map Len/Has/Get/Range) returns the
   heap unchanged *)
Theorem reads_frame : forall sch h o, is_read o = true -> fst (step sch h o) = h.
Proof. exact ReflectLaws.reads_frame. Qed.

(* ---- Has / Get after Set, per shape ---------------------------------------------------------------------------- *)
Theorem has_get_after_set_scalar : forall sch h id ob, heap_ok sch h -> get_obj h id = Some ob ->
  forall f fd k s, field_of sch (o_mid ob) f = Some fd -> f_shape fd = Singular -> f_ty fd = TScalar k ->
  wt_scalar k s = true ->
  exists h', step sch h (OSet (PMsg (o_mid ob) (Some id)) f (PScalar s)) = (h', PUnit) /\
             step sch h' (OHas (PMsg (o_mid ob) (Some id)) f) = (h', PBool (present k s)) /\
             step sch h' (OGet (PMsg (o_mid ob) (Some id)) f) = (h', PScalar s).
Proof. exact ReflectLaws.has_get_after_set_scalar. Qed.

Theorem has_get_after_set_message : forall sch h id ob, heap_ok sch h -> get_obj h id = Some ob ->
  forall f fd m q, field_of sch (o_mid ob) f = Some fd -> f_shape fd = Singular -> f_ty fd = TMsg m ->
  exists h', step sch h (OSet (PMsg (o_mid ob) (Some id)) f (PMsg m (Some q))) = (h', PUnit) /\
             step sch h' (OHas (PMsg (o_mid ob) (Some id)) f) = (h', PBool true) /\
             step sch h' (OGet (PMsg (o_mid ob) (Some id)) f) = (h', PMsg m (Some q)).
Proof. exact ReflectLaws.has_get_after_set_message. Qed.

(* Set of a singular message field with an invalid (nil, read-only) message panics and stores nothing *)
Theorem set_invalid_message_panics : forall sch h id ob, get_obj h id = Some ob ->
  forall f fd m, field_of sch (o_mid ob) f = Some fd -> f_shape fd = Singular -> f_ty fd = TMsg m ->
  step sch h (OSet (PMsg (o_mid ob) (Some id)) f (PMsg m None)) = (h, PPanic).
Proof. exact ReflectLaws.set_invalid_message_panics. Qed.

(* a member of a oneof: populated after Set whatever the value (zero values included), Get returns the value,
   WhichOneof names it, and every other member of the oneof is unpopulated (set_member_replaces) *)
Theorem has_get_after_set_member : forall sch, wf sch = true -> forall h id ob, heap_ok sch h -> get_obj h id = Some ob ->
  forall f fd j v e md, field_of sch (o_mid ob) f = Some fd -> f_shape fd = Member j ->
  pval_to_elem (f_ty fd) v = Some e -> get_msg sch (o_mid ob) = Some md ->
  exists h', step sch h (OSet (PMsg (o_mid ob) (Some id)) f v) = (h', PUnit) /\
             step sch h' (OHas (PMsg (o_mid ob) (Some id)) f) = (h', PBool true) /\
             step sch h' (OGet (PMsg (o_mid ob) (Some id)) f) = (h', v) /\
             step sch h' (OWhichOneof (PMsg (o_mid ob) (Some id)) j) = (h', PField (Some f)) /\
             (forall f2 fd2, field_of sch (o_mid ob) f2 = Some fd2 -> f_shape fd2 = Member j -> f2 <> f ->
                step sch h' (OHas (PMsg (o_mid ob) (Some id)) f2) = (h', PBool false) /\
                step sch h' (OGet (PMsg (o_mid ob) (Some id)) f2) = (h', zero_elem (f_ty fd2))).
Proof. exact ReflectLaws.has_get_after_set_member. Qed.

Theorem has_get_after_set_list : forall sch h id ob, heap_ok sch h -> get_obj h id = Some ob ->
  forall f fd p t r l, field_of sch (o_mid ob) f = Some fd -> f_shape fd = Rep p -> read_list h r = Some l ->
  exists h', step sch h (OSet (PMsg (o_mid ob) (Some id)) f (PList t r)) = (h', PUnit) /\
             step sch h' (OHas (PMsg (o_mid ob) (Some id)) f) = (h', PBool (negb (Nat.eqb (olen l) 0))) /\
             step sch h' (OGet (PMsg (o_mid ob) (Some id)) f) =
               (h', PList (f_ty fd) (if Nat.eqb (olen l) 0 then RNil else RField id f)).
Proof. exact ReflectLaws.has_get_after_set_list. Qed.

Theorem has_get_after_set_map : forall sch h id ob, heap_ok sch h -> get_obj h id = Some ob ->
  forall f fd kk kk' t r m, field_of sch (o_mid ob) f = Some fd -> f_shape fd = MapOf kk -> read_map h r = Some m ->
  exists h', step sch h (OSet (PMsg (o_mid ob) (Some id)) f (PMap kk' t r)) = (h', PUnit) /\
             step sch h' (OHas (PMsg (o_mid ob) (Some id)) f) = (h', PBool (negb (Nat.eqb (olen m) 0))) /\
             step sch h' (OGet (PMsg (o_mid ob) (Some id)) f) =
               (h', PMap kk (f_ty fd) (if Nat.eqb (olen m) 0 then RNil else RField id f)).
Proof. exact ReflectLaws.has_get_after_set_map. Qed.

(* ---- Clear ------------------------------------------------------------------------------------------------------ *)
(* after Clear of ANY field: Has is false and Get is the default (zero scalar / nil message / invalid view) *)
Theorem has_get_after_clear : forall sch h id ob, heap_ok sch h -> get_obj h id = Some ob ->
  forall f fd, field_of sch (o_mid ob) f = Some fd ->
  exists h', step sch h (OClear (PMsg (o_mid ob) (Some id)) f) = (h', PUnit) /\
             step sch h' (OHas (PMsg (o_mid ob) (Some id)) f) = (h', PBool false) /\
             step sch h' (OGet (PMsg (o_mid ob) (Some id)) f) = (h', default_pval fd).
Proof. exact ReflectLaws.has_get_after_clear. Qed.

(* Clear of a member that is not the one set (or of a member of an empty oneof) changes nothing at all *)
Theorem clear_other_member_noop : forall sch h id ob, get_obj h id = Some ob ->
  forall f fd j f', field_of sch (o_mid ob) f = Some fd -> f_shape fd = Member j ->
  step sch h (OWhichOneof (PMsg (o_mid ob) (Some id)) j) = (h, PField f') -> f' <> Some f ->
  step sch h (OClear (PMsg (o_mid ob) (Some id)) f) = (h, PUnit).
Proof. exact ReflectLaws.clear_other_member_is_noop. Qed.

(* ---- oneofs ------------------------------------------------------------------------------------------------------ *)
(* in EVERY heap (reachable or not), for every object and every oneof at most one member Has *)
Theorem oneof_at_most_one : forall sch h id ob, get_obj h id = Some ob ->
  forall f1 f2 fd1 fd2 j, field_of sch (o_mid ob) f1 = Some fd1 -> field_of sch (o_mid ob) f2 = Some fd2 ->
  f_shape fd1 = Member j -> f_shape fd2 = Member j ->
  step sch h (OHas (PMsg (o_mid ob) (Some id)) f1) = (h, PBool true) ->
  step sch h (OHas (PMsg (o_mid ob) (Some id)) f2) = (h, PBool true) -> f1 = f2.
Proof. exact ReflectLaws.oneof_has_at_most_one. Qed.

Theorem which_oneof_consistent : forall sch h id ob, get_obj h id = Some ob ->
  forall j md, get_msg sch (o_mid ob) = Some md -> j < m_oneofs md ->
  exists w, step sch h (OWhichOneof (PMsg (o_mid ob) (Some id)) j) = (h, PField w) /\
    forall f fd, field_of sch (o_mid ob) f = Some fd -> f_shape fd = Member j ->
      (step sch h (OHas (PMsg (o_mid ob) (Some id)) f) = (h, PBool true) <-> w = Some f).
Proof. exact ReflectLaws.which_oneof_is_the_member_set. Qed.

(* ---- Range ------------------------------------------------------------------------------------------------------- *)
(* the fields Range lists are exactly those with Has = true, each with the value Get returns, once each, in field order *)
Theorem range_exactly_populated : forall sch h id ob, get_obj h id = Some ob ->
  exists l, step sch h (ORange (PMsg (o_mid ob) (Some id))) = (h, PRange l) /\
    (forall i v, In (i, v) l <->
       exists fd, field_of sch (o_mid ob) i = Some fd /\
                  step sch h (OHas (PMsg (o_mid ob) (Some id)) i) = (h, PBool true) /\
                  step sch h (OGet (PMsg (o_mid ob) (Some id)) i) = (h, v)) /\
    StronglySorted lt (map fst l).
Proof. exact ReflectLaws.range_visits_exactly_the_populated_fields. Qed.

(* ---- Mutable views write through ---------------------------------------------------------------------------------- *)
Theorem mutable_list_view_writes_through : forall sch h id ob, heap_ok sch h -> get_obj h id = Some ob ->
  forall f fd p x e, field_of sch (o_mid ob) f = Some fd -> f_shape fd = Rep p -> pval_to_elem (f_ty fd) x = Some e ->
  let v := PList (f_ty fd) (RField id f) in
  exists h1 h2 n, step sch h (OMutable (PMsg (o_mid ob) (Some id)) f) = (h1, v) /\
                  step sch h (OLLen v) = (h, PScalar (VInt (Z.of_nat n))) /\
                  step sch h1 (OLAppend v x) = (h2, PUnit) /\
                  step sch h2 (OLLen v) = (h2, PScalar (VInt (Z.of_nat (S n)))) /\
                  step sch h2 (OLGet v (Z.of_nat n)) = (h2, x) /\
                  step sch h2 (OHas (PMsg (o_mid ob) (Some id)) f) = (h2, PBool true) /\
                  step sch h2 (OGet (PMsg (o_mid ob) (Some id)) f) = (h2, v).
Proof. exact ReflectLaws.mutable_list_view_writes_through. Qed.

Theorem mutable_map_view_writes_through : forall sch, wf sch = true -> forall h id ob, heap_ok sch h -> get_obj h id = Some ob ->
  forall f fd kk k x e, field_of sch (o_mid ob) f = Some fd -> f_shape fd = MapOf kk -> wt_scalar kk k = true ->
  pval_to_elem (f_ty fd) x = Some e ->
  let v := PMap kk (f_ty fd) (RField id f) in
  exists h1 h2, step sch h (OMutable (PMsg (o_mid ob) (Some id)) f) = (h1, v) /\
                step sch h1 (OMSet v k x) = (h2, PUnit) /\
                step sch h2 (OMHas v k) = (h2, PBool true) /\
                step sch h2 (OMGet v k) = (h2, x) /\
                step sch h2 (OHas (PMsg (o_mid ob) (Some id)) f) = (h2, PBool true) /\
                step sch h2 (OGet (PMsg (o_mid ob) (Some id)) f) = (h2, v).
Proof. exact ReflectLaws.mutable_map_view_writes_through. Qed.

(* Mutable of a singular message field: returns the stored message when populated (heap unchanged), allocates and
   stores one otherwise; afterwards Has, Get and Mutable again all name the same message *)
Theorem mutable_message_is_stable : forall sch h id ob, heap_ok sch h -> get_obj h id = Some ob ->
  forall f fd m, field_of sch (o_mid ob) f = Some fd -> f_shape fd = Singular -> f_ty fd = TMsg m ->
  exists h1 q, step sch h (OMutable (PMsg (o_mid ob) (Some id)) f) = (h1, PMsg m (Some q)) /\
               (step sch h (OHas (PMsg (o_mid ob) (Some id)) f) = (h, PBool true) ->
                h1 = h /\ step sch h (OGet (PMsg (o_mid ob) (Some id)) f) = (h, PMsg m (Some q))) /\
               step sch h1 (OHas (PMsg (o_mid ob) (Some id)) f) = (h1, PBool true) /\
               step sch h1 (OGet (PMsg (o_mid ob) (Some id)) f) = (h1, PMsg m (Some q)) /\
               step sch h1 (OMutable (PMsg (o_mid ob) (Some id)) f) = (h1, PMsg m (Some q)).
Proof. exact ReflectLaws.mutable_message_is_stable. Qed.

(* Mutable of a oneof MESSAGE member: returns the stored message when this member is the one set and holds one (heap
   unchanged); stores a fresh message otherwise (empty oneof, another member set, wrapper holding nil); afterwards this
   member is the one set, Get / Mutable again return the same message, and the other members are unpopulated *)
Theorem mutable_member_is_stable : forall sch, wf sch = true -> forall h id ob, heap_ok sch h -> get_obj h id = Some ob ->
  forall f fd j m md, field_of sch (o_mid ob) f = Some fd -> f_shape fd = Member j -> f_ty fd = TMsg m ->
  get_msg sch (o_mid ob) = Some md ->
  exists h1 q, step sch h (OMutable (PMsg (o_mid ob) (Some id)) f) = (h1, PMsg m (Some q)) /\
               (forall q0, step sch h (OHas (PMsg (o_mid ob) (Some id)) f) = (h, PBool true) ->
                           step sch h (OGet (PMsg (o_mid ob) (Some id)) f) = (h, PMsg m (Some q0)) -> q = q0 /\ h1 = h) /\
               step sch h1 (OHas (PMsg (o_mid ob) (Some id)) f) = (h1, PBool true) /\
               step sch h1 (OGet (PMsg (o_mid ob) (Some id)) f) = (h1, PMsg m (Some q)) /\
               step sch h1 (OWhichOneof (PMsg (o_mid ob) (Some id)) j) = (h1, PField (Some f)) /\
               step sch h1 (OMutable (PMsg (o_mid ob) (Some id)) f) = (h1, PMsg m (Some q)) /\
               (forall f2 fd2, field_of sch (o_mid ob) f2 = Some fd2 -> f_shape fd2 = Member j -> f2 <> f ->
                  step sch h1 (OHas (PMsg (o_mid ob) (Some id)) f2) = (h1, PBool false)).
Proof. exact ReflectLaws.mutable_member_is_stable. Qed.

(* ---- list elements through any valid view (a field's or a NewField variable's) ------------------------------------ *)
Theorem list_set_get : forall sch h t r l i x e, read_list h r = Some l -> pval_to_elem t x = Some e ->
  (in_bounds i (olen l) = true ->
   exists h', step sch h (OLSet (PList t r) i x) = (h', PUnit) /\
              step sch h' (OLLen (PList t r)) = (h', PScalar (VInt (Z.of_nat (olen l)))) /\
              step sch h' (OLGet (PList t r) i) = (h', x) /\
              (forall i', i' <> i -> snd (step sch h' (OLGet (PList t r) i')) = snd (step sch h (OLGet (PList t r) i')))) /\
  (in_bounds i (olen l) = false -> step sch h (OLSet (PList t r) i x) = (h, PPanic)).
Proof. exact ReflectLaws.list_set_get. Qed.

Theorem list_truncate : forall sch h t r l n, read_list h r = Some l -> (0 <= n <= Z.of_nat (olen l))%Z ->
  exists h', step sch h (OLTruncate (PList t r) n) = (h', PUnit) /\
             step sch h' (OLLen (PList t r)) = (h', PScalar (VInt n)) /\
             (forall i, (0 <= i < n)%Z -> snd (step sch h' (OLGet (PList t r) i)) = snd (step sch h (OLGet (PList t r) i))).
Proof. exact ReflectLaws.list_truncate. Qed.

(* ---- allocation -------------------------------------------------------------------------------------------------- *)
(* new(T): a fresh object in which nothing is populated; no existing object changes *)
Theorem new_message_is_empty : forall sch h mid,
  let h' := h ++ [HObj (new_obj sch mid)] in
  let E := PMsg mid (Some (length h)) in
  step sch h (ONew mid) = (h', E) /\
  (forall id o, get_obj h id = Some o -> get_obj h' id = Some o) /\
  (forall f fd, field_of sch mid f = Some fd -> step sch h' (OHas E f) = (h', PBool false)) /\
  step sch h' (ORange E) = (h', PRange []) /\
  step sch h' (OIsValid E) = (h', PBool true).
Proof. exact ReflectLaws.new_message_is_empty. Qed.

(* NewField / NewElement / NewValue never touch an existing object *)
Theorem new_values_are_fresh : forall sch h o,
  match o with ONewField _ _ | OLNewElement _ | OMNewValue _ => True | _ => False end ->
  forall id ob, get_obj h id = Some ob -> get_obj (fst (step sch h o)) id = Some ob.
Proof. exact ReflectLaws.new_values_are_fresh. Qed.

(* ---- refinement: the generated code implements the reference semantics of protoreflect ------------------------------
   Model/RefReflect.v is the reference model (a message = finite map field -> populated value, no nil-vs-empty, oneof
   members as ordinary entries, views as references to places; written from the protoreflect documentation and what
   dynamicpb and the struct-based reflection agree on; validated against both on every history of a run: HISTREF lines).
   abs / abs_out (Model/ReflectAbs.v) forget the Go representation. tidyb is the representation invariant of heaps built
   through the API (no nil list elements / map values / wrapper payloads: states only a struct literal produces);
   well_scopedb is the API contract needed: views used at their container's type, map keys of the key kind, no write
   through a Map view whose field was cleared, and NOT passing the read-only message to Set of a oneof member /
   List.Set / List.Append / Map.Set (the two reference implementations disagree there: unspecified). *)
Theorem step_refines : forall sch, wf sch = true -> forall h o, tidyb sch h = true -> well_scopedb sch h o = true ->
  abs_out (snd (step sch h o)) = snd (ref_step sch (abs sch h) o) /\
  abs sch (fst (step sch h o)) = fst (ref_step sch (abs sch h) o).
Proof. exact ReflectRefine.step_refines_pair. Qed.

Theorem tidy_preserved : forall sch h o, tidyb sch h = true -> well_scopedb sch h o = true ->
  tidyb sch (fst (step sch h o)) = true.
Proof. exact ReflectRefine.tidy_preserved. Qed.

(* every finite history (the operations executed, in order; scoped_from checks well_scopedb at each step on the heap
   reached): the reference model computes the abstraction of every result and of the final heap *)
Theorem history_refines : forall sch, wf sch = true -> forall os, scoped_from sch [] os = true ->
  fst (ref_exec sch os) = abs sch (fst (exec sch os)) /\
  snd (ref_exec sch os) = map abs_out (snd (exec sch os)) /\
  tidyb sch (fst (exec sch os)) = true.
Proof. exact ReflectRefine.history_refines_eq. Qed.

(* the same for Reflect.run, where each operation is drawn from the earlier results by an arbitrary function *)
Theorem run_refines : forall sch, wf sch = true -> forall ops, scoped_from sch [] (trace sch ops) = true ->
  fst (ref_exec sch (trace sch ops)) = abs sch (fst (run sch ops)) /\
  snd (ref_exec sch (trace sch ops)) = map abs_out (snd (run sch ops)) /\
  tidyb sch (fst (run sch ops)) = true.
Proof. exact ReflectRefine.run_refines_eq. Qed.

(* ---- non-vacuity: a concrete schema and history (the model computes) -------------------------------------------- *)
(* message 0: x int32; oneof { a string; b message 0 }; r repeated int64; m map<string,int32>; c message 0 *)
(* new; Set a := ""; Set b := fresh message; Clear a (not the member set: nothing happens); WhichOneof; Has a; Has b;
   Mutable r; Append 7 through the view; Get r; Len *)
Example ex_history :
  let ex_sch : schema :=
  [ {| m_fields := [ {| f_num := 1; f_ty := TScalar KInt32; f_shape := Singular |};
                     {| f_num := 2; f_ty := TScalar KString; f_shape := Member 0 |};
                     {| f_num := 3; f_ty := TMsg 0; f_shape := Member 0 |};
                     {| f_num := 4; f_ty := TScalar KInt64; f_shape := Rep true |};
                     {| f_num := 5; f_ty := TScalar KInt32; f_shape := MapOf KString |};
                     {| f_num := 6; f_ty := TMsg 0; f_shape := Singular |} ];
       m_oneofs := 1; m_impl := Pulsar |} ] in
  wf ex_sch = true /\
  snd (run ex_sch
         [ (fun _ => ONew 0);
           (fun o => OSet (nth 0 o PPanic) 1 (PScalar (VBytes [])));
           (fun o => ONewField (nth 0 o PPanic) 2);
           (fun o => OSet (nth 0 o PPanic) 2 (nth 2 o PPanic));
           (fun o => OClear (nth 0 o PPanic) 1);
           (fun o => OWhichOneof (nth 0 o PPanic) 0);
           (fun o => OHas (nth 0 o PPanic) 1);
           (fun o => OHas (nth 0 o PPanic) 2);
           (fun o => OMutable (nth 0 o PPanic) 3);
           (fun o => OLAppend (nth 8 o PPanic) (PScalar (VInt 7)));
           (fun o => OGet (nth 0 o PPanic) 3);
           (fun o => OLLen (nth 10 o PPanic)) ])
  = [ PMsg 0 (Some 0); PUnit; PMsg 0 (Some 1); PUnit; PUnit; PField (Some 2); PBool false; PBool true;
      PList (TScalar KInt64) (RField 0 3); PUnit; PList (TScalar KInt64) (RField 0 3); PScalar (VInt 1) ].
Proof. vm_compute. split; reflexivity. Qed.

(* the history of ex_history is well scoped, and the reference model gives the normalised results *)
Example ex_refines :
  let ex_sch : schema :=
  [ {| m_fields := [ {| f_num := 1; f_ty := TScalar KInt32; f_shape := Singular |};
                     {| f_num := 2; f_ty := TScalar KString; f_shape := Member 0 |};
                     {| f_num := 3; f_ty := TMsg 0; f_shape := Member 0 |};
                     {| f_num := 4; f_ty := TScalar KInt64; f_shape := Rep true |};
                     {| f_num := 5; f_ty := TScalar KInt32; f_shape := MapOf KString |};
                     {| f_num := 6; f_ty := TMsg 0; f_shape := Singular |} ];
       m_oneofs := 1; m_impl := Pulsar |} ] in
  let os := [ ONew 0;
              OSet (PMsg 0 (Some 0)) 1 (PScalar (VBytes []));
              ONewField (PMsg 0 (Some 0)) 2;
              OSet (PMsg 0 (Some 0)) 2 (PMsg 0 (Some 1));
              OClear (PMsg 0 (Some 0)) 1;
              OWhichOneof (PMsg 0 (Some 0)) 0;
              OSet (PMsg 0 (Some 0)) 0 (PScalar (VInt 0));
              OHas (PMsg 0 (Some 0)) 0;
              OMutable (PMsg 0 (Some 0)) 3;
              OLAppend (PList (TScalar KInt64) (RField 0 3)) (PScalar (VInt 7));
              ORange (PMsg 0 (Some 0)) ] in
  scoped_from ex_sch [] os = true /\
  snd (ref_exec ex_sch os) =
  [ AOMsg 0 (Some 0); AOUnit; AOMsg 0 (Some 1); AOUnit; AOUnit; AOField (Some 2); AOUnit; AOBool false;
    AOList (TScalar KInt64) (RField 0 3); AOUnit;
    AORange [ (2, AOMsg 0 (Some 1)); (3, AOList (TScalar KInt64) (RField 0 3)) ] ].
Proof. vm_compute. split; reflexivity. Qed.

(* ---- the generated fast-reflection methods are Reflect.step (DESIGN 12.7: translator tie) ------------------------- *)
(* The eight methods  Has Clear Get Set Mutable NewField WhichOneof Range  the templates print for a message type
   (Model/ReflectProg.v: canon_has … canon_range, compared literally with the parsed *.pulsar.go on every run), executed
   by the interpreters of their statement languages, compute Reflect.step: for every well-formed schema, every heap
   satisfying the invariant rp_heap_okb (the shape invariant + a oneof slot holds a member of that oneof), every receiver
   and operand. Side conditions: Range needs the members of a oneof declared consecutively (rp_contigb); Set of a list /
   map view needs the view's element type to be the field's (set_arg_okb). Proofs: Proofs/ReflectProgProofs.v. *)
Theorem has_prog_correct : has_prog_stmt.
Proof. exact ReflectProgProofs.has_prog_correct. Qed.

Theorem clear_prog_correct : clear_prog_stmt.
Proof. exact ReflectProgProofs.clear_prog_correct. Qed.

Theorem get_prog_correct : get_prog_stmt.
Proof. exact ReflectProgProofs.get_prog_correct. Qed.

Theorem set_prog_correct : set_prog_stmt.
Proof. exact ReflectProgProofs.set_prog_correct. Qed.

Theorem mutable_prog_correct : mutable_prog_stmt.
Proof. exact ReflectProgProofs.mutable_prog_correct. Qed.

Theorem newfield_prog_correct : newfield_prog_stmt.
Proof. exact ReflectProgProofs.newfield_prog_correct. Qed.

Theorem whichoneof_prog_correct : whichoneof_prog_stmt.
Proof. exact ReflectProgProofs.whichoneof_prog_correct. Qed.

Theorem range_prog_correct : range_prog_stmt.
Proof. exact ReflectProgProofs.range_prog_correct. Qed.

(* Range with any callback: the calls of the full iteration up to and including the first one answered false *)
Theorem range_stop_prog_correct : range_stop_prog_stmt.
Proof. exact ReflectProgProofs.range_stop_prog_correct. Qed.

(* all eight at once: one operation executed with the canonical methods of every message type is Reflect.step *)
Theorem reflect_prog_correct : reflect_prog_correct_stmt.
Proof. exact ReflectProgProofs.reflect_prog_correct. Qed.

(* the invariant of the statements above is kept by every step (and holds of the empty heap: ex_reflect_prog) *)
Theorem rp_heap_ok_kept : rp_heap_ok_kept_stmt.
Proof. exact ReflectProgProofs.rp_heap_ok_kept. Qed.

(* non-vacuity. message 0: x int32; oneof { a string; b message 0 }; r repeated int64; m map<string,int32>; c message 0.
   heap: object 0 = {x: 5, oneof: wrapper of b holding nil, r: [7], m: {"k": 1}, c: object 1}; object 1 = empty;
   entry 2 = a stand-alone slice [1, 2] (as NewField + Append make it).
   Set r := the view of entry 2; Mutable b (the wrapper holds nil: a message is allocated in place, object 3); Range
   (all five populated fields, in declaration order); Range stopped by the callback at field 3. *)
Example ex_reflect_prog :
  let ex_sch : schema :=
  [ {| m_fields := [ {| f_num := 1; f_ty := TScalar KInt32; f_shape := Singular |};
                     {| f_num := 2; f_ty := TScalar KString; f_shape := Member 0 |};
                     {| f_num := 3; f_ty := TMsg 0; f_shape := Member 0 |};
                     {| f_num := 4; f_ty := TScalar KInt64; f_shape := Rep true |};
                     {| f_num := 5; f_ty := TScalar KInt32; f_shape := MapOf KString |};
                     {| f_num := 6; f_ty := TMsg 0; f_shape := Singular |} ];
       m_oneofs := 1; m_impl := Pulsar |} ] in
  let progs := fun mid => Some (canon_progs ex_sch mid) in
  let h0 : heap :=
    [ HObj (mkObj 0 [ CScalar (VInt 5); CMember; CMember; CList (Some [EScalar (VInt 7)]);
                      CMap (Some [(VBytes [Coq.Init.Byte.x6b], EScalar (VInt 1))]); CMsg (Some 1) ]
                  [ Some (2, EPtr None) ] None);
      HObj (new_obj ex_sch 0);
      HListVar (Some [EScalar (VInt 1); EScalar (VInt 2)]) ] in
  let x := PMsg 0 (Some 0) in
  let o1 := OSet x 3 (PList (TScalar KInt64) (RVar 2)) in
  let o2 := OMutable x 2 in
  let o3 := ORange x in
  let h1 := fst (step ex_sch h0 o1) in
  let h2 := fst (step ex_sch h1 o2) in
  wf ex_sch = true /\ rp_contigb ex_sch = true /\
  rp_heap_okb ex_sch [] = true /\ rp_heap_okb ex_sch h0 = true /\ rp_heap_okb ex_sch h2 = true /\
  set_arg_okb ex_sch o1 = true /\
  rp_step ex_sch progs h0 o1 = Some (step ex_sch h0 o1) /\
  rp_step ex_sch progs h1 o2 = Some (step ex_sch h1 o2) /\
  rp_step ex_sch progs h2 o3 = Some (step ex_sch h2 o3) /\
  rp_step ex_sch progs h2 (OGet (PMsg 0 None) 3) = Some (h2, PList (TScalar KInt64) RNil) /\
  rp_step ex_sch progs h2 (OWhichOneof x 0) = Some (h2, PField (Some 2)) /\
  rp_step ex_sch progs h2 (OClear (PMsg 0 None) 0) = Some (h2, PPanic) /\
  snd (step ex_sch h0 o1) = PUnit /\
  read_list h1 (RField 0 3) = Some (Some [EScalar (VInt 1); EScalar (VInt 2)]) /\
  snd (step ex_sch h1 o2) = PMsg 0 (Some 3) /\
  get_obj h2 3 = Some (new_obj ex_sch 0) /\
  option_map o_oneofs (get_obj h2 0) = Some [Some (2, EPtr (Some 3))] /\
  step ex_sch h2 o3 =
    (h2, PRange [ (0, PScalar (VInt 5)); (2, PMsg 0 (Some 3)); (3, PList (TScalar KInt64) (RField 0 3));
                  (4, PMap KString (TScalar KInt32) (RField 0 4)); (5, PMsg 0 (Some 1)) ]) /\
  run_range ex_sch (fun i _ => Nat.ltb i 3) (canon_range ex_sch 0) h2 x =
    Some (h2, PRange [ (0, PScalar (VInt 5)); (2, PMsg 0 (Some 3)); (3, PList (TScalar KInt64) (RField 0 3)) ]).
Proof. vm_compute. repeat split; reflexivity. Qed.

(* ---- the canonical list / map wrapper methods are Reflect.step -------------------------------------------------- *)
(* The methods  Len Get Set Append AppendMutable Truncate NewElement IsValid  of the wrapper type of every repeated field and
   Len Range Has Clear Get Set Mutable NewValue IsValid  of the wrapper type of every map field, as the templates list.go / map.go
   print them (Model/ReflectViewProg.v: canon_list, canon_map, compared literally with the parsed *.pulsar.go on every run),
   executed by the interpreter of their statement language, compute Reflect.step: for every well-formed schema, every heap
   satisfying rp_heap_okb, every view (of a struct field, of a stand-alone variable, or the invalid nil view) and operands.
   Side conditions (each with a counterexample in Model/ReflectViewProg.v): the view of Len / Range is live (view_liveb), a value /
   key unwrapped with .String() is a string (str_val_okb / str_key_okb: vp_op_okb). After a panic the interpreter's heap may hold
   the object allocated before the panicking statement (vp_res_rel). Proofs: Proofs/ReflectViewProgProofs.v. *)
From CP Require Import ReflectViewProg ReflectViewProgProofs.

Theorem list_isvalid_prog_correct : list_isvalid_prog_stmt.
Proof. exact ReflectViewProgProofs.list_isvalid_prog_correct. Qed.

Theorem list_len_prog_correct : list_len_prog_stmt.
Proof. exact ReflectViewProgProofs.list_len_prog_correct. Qed.

Theorem list_get_prog_correct : list_get_prog_stmt.
Proof. exact ReflectViewProgProofs.list_get_prog_correct. Qed.

Theorem list_newelement_prog_correct : list_newelement_prog_stmt.
Proof. exact ReflectViewProgProofs.list_newelement_prog_correct. Qed.

Theorem list_set_prog_correct : list_set_prog_stmt.
Proof. exact ReflectViewProgProofs.list_set_prog_correct. Qed.

Theorem list_append_prog_correct : list_append_prog_stmt.
Proof. exact ReflectViewProgProofs.list_append_prog_correct. Qed.

Theorem list_truncate_prog_correct : list_truncate_prog_stmt.
Proof. exact ReflectViewProgProofs.list_truncate_prog_correct. Qed.

(* AppendMutable: the view must be live (as for Len). `v := new(T)` is executed before `*x.list` is read: a dangling view that points
   one past the end of the heap, at a repeated field of the message type allocated, would come alive (counterexample below: message 0 =
   { repeated message 0 f }, the empty heap, the view RField 0 0: Reflect.step answers ([], PPanic), the generated method stores the new
   object in its own field and returns it). No history produces such a view (vp_view_live_kept, vp_result_live below). *)
Theorem list_appendmutable_prog_correct : list_appendmutable_prog_stmt.
Proof. exact ReflectViewProgProofs.list_appendmutable_prog_correct. Qed.

Theorem list_appendmutable_needs_live_view :
  wf ReflectViewProgProofs.am_sch = true /\ rp_heap_okb ReflectViewProgProofs.am_sch [] = true /\
  vp_op_okb [] (OLAppendMutable (PList (TMsg 0) (RField 0 0))) = true /\
  ~ vp_agrees ReflectViewProgProofs.am_sch [] (OLAppendMutable (PList (TMsg 0) (RField 0 0))).
Proof. exact ReflectViewProgProofs.list_appendmutable_prog_counterexample. Qed.

Theorem list_appendmutable_prog_gen : forall sch h t r, wf sch = true -> rp_heap_okb sch h = true ->
  (forall m, t = TMsg m -> read_list h r = None -> read_list (h ++ [HObj (new_obj sch m)]) r = None) ->
  vp_agrees sch h (OLAppendMutable (PList t r)).
Proof. exact ReflectViewProgProofs.list_appendmutable_prog_gen. Qed.

Theorem map_isvalid_prog_correct : map_isvalid_prog_stmt.
Proof. exact ReflectViewProgProofs.map_isvalid_prog_correct. Qed.

Theorem map_len_prog_correct : map_len_prog_stmt.
Proof. exact ReflectViewProgProofs.map_len_prog_correct. Qed.

Theorem map_newvalue_prog_correct : map_newvalue_prog_stmt.
Proof. exact ReflectViewProgProofs.map_newvalue_prog_correct. Qed.

Theorem map_has_prog_correct : map_has_prog_stmt.
Proof. exact ReflectViewProgProofs.map_has_prog_correct. Qed.

Theorem map_get_prog_correct : map_get_prog_stmt.
Proof. exact ReflectViewProgProofs.map_get_prog_correct. Qed.

Theorem map_clear_prog_correct : map_clear_prog_stmt.
Proof. exact ReflectViewProgProofs.map_clear_prog_correct. Qed.

Theorem map_set_prog_correct : map_set_prog_stmt.
Proof. exact ReflectViewProgProofs.map_set_prog_correct. Qed.

Theorem map_mutable_prog_correct : map_mutable_prog_stmt.
Proof. exact ReflectViewProgProofs.map_mutable_prog_correct. Qed.

Theorem map_range_prog_correct : map_range_prog_stmt.
Proof. exact ReflectViewProgProofs.map_range_prog_correct. Qed.

(* Map.Range with any callback: the calls of the full iteration up to and including the first one answered false *)
Theorem map_range_stop_prog_correct : map_range_stop_prog_stmt.
Proof. exact ReflectViewProgProofs.map_range_stop_prog_correct. Qed.

(* all at once: every operation, with the view of AppendMutable live as the view of Len has to be *)
Theorem view_prog_correct : view_prog_correct_stmt.
Proof. exact ReflectViewProgProofs.view_prog_correct. Qed.

(* the wrapper the plugin emits for a field is the canonical wrapper of the field's element (key, value) type *)
Theorem canon_view_correct : canon_view_stmt.
Proof. exact ReflectViewProgProofs.canon_view_correct. Qed.

(* liveness of views is an invariant of histories: kept by every step, and true of every view a step returns *)
Theorem vp_view_live_kept : vp_view_live_kept_stmt.
Proof. exact ReflectViewProgProofs.vp_view_live_kept. Qed.

Theorem vp_result_live : vp_result_live_stmt.
Proof. exact ReflectViewProgProofs.vp_result_live. Qed.

(* non-vacuity. message 0: l repeated message 1; m map<string, message 1>; n repeated int32. message 1: x int32.
   heap: object 0 = {l: [object 1], m: {"k": object 1}, n: nil}; object 1 = empty. NewField n allocates the stand-alone slice 2.
   On the stand-alone list: Append 7, Append 8, Truncate 1. On the view of l: AppendMutable (object 3 is allocated and appended),
   Truncate 1 (the zeroing loop). On the view of m: Set "j" := object 3, Get "j", Mutable "z" (object 4 is allocated and stored),
   Clear "k", Range, Range stopped by the callback at "j". On the invalid nil view: Len = 0, Map.Get = invalid, and AppendMutable
   panics after `v := new(T)`: the interpreter's heap holds the garbage object, Reflect.step's does not (vp_res_rel). *)
Example ex_reflect_view_prog :
  let ex_sch : schema :=
  [ {| m_fields := [ {| f_num := 1; f_ty := TMsg 1; f_shape := Rep false |};
                     {| f_num := 2; f_ty := TMsg 1; f_shape := MapOf KString |};
                     {| f_num := 3; f_ty := TScalar KInt32; f_shape := Rep true |} ];
       m_oneofs := 0; m_impl := Pulsar |};
    {| m_fields := [ {| f_num := 1; f_ty := TScalar KInt32; f_shape := Singular |} ]; m_oneofs := 0; m_impl := Pulsar |} ] in
  let kk := VBytes [Coq.Init.Byte.x6b] in
  let kj := VBytes [Coq.Init.Byte.x6a] in
  let kz := VBytes [Coq.Init.Byte.x7a] in
  let h0 : heap :=
    [ HObj (mkObj 0 [ CList (Some [EPtr (Some 1)]); CMap (Some [(kk, EPtr (Some 1))]); CList None ] [] None);
      HObj (new_obj ex_sch 1) ] in
  let x := PMsg 0 (Some 0) in
  let lv := PList (TScalar KInt32) (RVar 2) in
  let ml := PList (TMsg 1) (RField 0 0) in
  let mv := PMap KString (TMsg 1) (RField 0 1) in
  let nl := PList (TMsg 1) RNil in
  let nm := PMap KString (TMsg 1) RNil in
  let o1 := OLAppend lv (PScalar (VInt 7)) in
  let o2 := OLAppend lv (PScalar (VInt 8)) in
  let o3 := OLTruncate lv 1 in
  let o4 := OLAppendMutable ml in
  let o5 := OLTruncate ml 1 in
  let o6 := OMSet mv kj (PMsg 1 (Some 3)) in
  let o7 := OMGet mv kj in
  let o8 := OMMutable mv kz in
  let o9 := OMClear mv kk in
  let h1 := fst (step ex_sch h0 (ONewField x 2)) in
  let h2 := fst (step ex_sch h1 o1) in
  let h3 := fst (step ex_sch h2 o2) in
  let h4 := fst (step ex_sch h3 o3) in
  let h5 := fst (step ex_sch h4 o4) in
  let h6 := fst (step ex_sch h5 o5) in
  let h7 := fst (step ex_sch h6 o6) in
  let h8 := fst (step ex_sch h7 o8) in
  let h9 := fst (step ex_sch h8 o9) in
  wf ex_sch = true /\ rp_heap_okb ex_sch h0 = true /\ rp_heap_okb ex_sch h9 = true /\
  snd (step ex_sch h0 (ONewField x 2)) = lv /\
  view_liveb h1 lv = true /\ view_liveb h1 ml = true /\ view_liveb h1 mv = true /\ view_liveb h1 nl = true /\
  view_liveb h0 lv = false /\
  canon_view ex_sch 0 0 = Some (VPList (canon_list (TMsg 1))) /\
  canon_view ex_sch 0 1 = Some (VPMap (canon_map KString (TMsg 1))) /\
  vp_agrees ex_sch h1 o1 /\ vp_agrees ex_sch h2 o2 /\ vp_agrees ex_sch h3 o3 /\ vp_agrees ex_sch h4 o4 /\
  vp_agrees ex_sch h5 o5 /\ vp_agrees ex_sch h6 o6 /\ vp_agrees ex_sch h7 o7 /\ vp_agrees ex_sch h7 o8 /\
  vp_agrees ex_sch h8 o9 /\ vp_agrees ex_sch h9 (OMRange mv) /\ vp_agrees ex_sch h9 (OLLen nl) /\ vp_agrees ex_sch h9 (OMGet nm kk) /\
  read_list h3 (RVar 2) = Some (Some [EScalar (VInt 7); EScalar (VInt 8)]) /\
  read_list h4 (RVar 2) = Some (Some [EScalar (VInt 7)]) /\
  vp_canon_step ex_sch h4 o4 = Some (h5, PMsg 1 (Some 3)) /\
  read_list h5 (RField 0 0) = Some (Some [EPtr (Some 1); EPtr (Some 3)]) /\
  get_obj h5 3 = Some (new_obj ex_sch 1) /\
  read_list h6 (RField 0 0) = Some (Some [EPtr (Some 1)]) /\
  vp_canon_step ex_sch h7 o7 = Some (h7, PMsg 1 (Some 3)) /\
  vp_canon_step ex_sch h7 o8 = Some (h8, PMsg 1 (Some 4)) /\
  read_map h8 (RField 0 1) = Some (Some [(kk, EPtr (Some 1)); (kj, EPtr (Some 3)); (kz, EPtr (Some 4))]) /\
  read_map h9 (RField 0 1) = Some (Some [(kj, EPtr (Some 3)); (kz, EPtr (Some 4))]) /\
  vp_canon_step ex_sch h9 (OMRange mv) = Some (h9, PMapRange [(kj, PMsg 1 (Some 3)); (kz, PMsg 1 (Some 4))]) /\
  run_maprange ex_sch (fun k _ => negb (rp_val_eqb k kj)) (canon_map KString (TMsg 1)) h9 mv =
    Some (h9, PMapRange [(kj, PMsg 1 (Some 3))]) /\
  vp_canon_step ex_sch h9 (OLLen nl) = Some (h9, PScalar (VInt 0)) /\
  vp_canon_step ex_sch h9 (OMGet nm kk) = Some (h9, PInvalid) /\
  vp_canon_step ex_sch h9 (OLAppendMutable nl) = Some (h9 ++ [HObj (new_obj ex_sch 1)], PPanic) /\
  step ex_sch h9 (OLAppendMutable nl) = (h9, PPanic) /\
  view_prog_law ex_sch h9 (OLAppendMutable nl) = true.
Proof. vm_compute. repeat split; reflexivity. Qed.
