(* Properties/C15.v — runtime varint helpers agree with the protobuf wire format on all inputs.
   Only statements, each closed by `exact <lemma>`; proofs are in Proofs/RuntimeProofs.v. *)
From CP Require Import Bytes Runtime Wire BytesLemmas RuntimeProofs GoFun GoFunProofs.
Local Open Scope N_scope.

(* Sov is the length of the varint the writers produce, and is protowire.SizeVarint *)
Theorem sov_spec : forall x, x < two64 ->
  N.of_nat (length (enc_varint x)) = Sov x /\ Sov x = protowire_size x /\ 1 <= Sov x <= 10.
Proof. intros x H. split; [|split]. exact (enc_varint_length x H). exact (Sov_protowire x H). exact (Sov_bounds x H). Qed.

(* that varint decodes back to x (so it is *the* varint of x, of minimal length by sov_spec) *)
Theorem varint_roundtrip : forall v rest, v < two64 ->
  dec_varint (enc_varint v ++ rest) = Some (v, length (enc_varint v), rest).
Proof. exact dec_enc_varint. Qed.

(* Soz sizes the zig-zag image: 2z for z >= 0, -2z-1 for z < 0, for every int64 z
   (int32 arguments reach it sign-extended through uint64, i.e. as the same z) *)
Theorem soz_spec : forall z, (- Z.of_N two63 <= z < Z.of_N two63)%Z ->
  Soz (z2u64 z) = Sov (Z.to_N (if (z <? 0)%Z then (-2 * z - 1)%Z else (2 * z)%Z)).
Proof. intros z H. unfold Soz. rewrite (zigzag64_spec z H). reflexivity. Qed.

(* EncodeVarint stores exactly enc_varint v ending at off and touches no other byte *)
Theorem encode_varint_spec : forall buf off v, v < two64 ->
  (Z.of_N (Sov v) <= off <= Z.of_nat (length buf))%Z ->
  EncodeVarint buf off v =
  Ok (firstn (Z.to_nat (off - Z.of_N (Sov v))) buf ++ enc_varint v ++ skipn (Z.to_nat off) buf,
      (off - Z.of_N (Sov v))%Z).
Proof. exact encode_varint_ok. Qed.

(* ... and panics (index out of range) exactly when the space is missing *)
Theorem encode_varint_panics_iff_no_room : forall buf off v, v < two64 ->
  ~ (Z.of_N (Sov v) <= off <= Z.of_nat (length buf))%Z -> EncodeVarint buf off v = Panic.
Proof. exact encode_varint_panics. Qed.

(* Skip never panics and always terminates, for every byte string *)
Theorem skip_total : forall bs, Skip bs <> Panic /\ Skip bs <> OutOfFuel.
Proof.
  intro bs. split; [apply skip_loop_not_panic|]. apply skip_loop_enough_fuel. apply Nat.lt_succ_diag_r.
Qed.

(* Skip always makes progress (Go slices are shorter than 2^63 bytes) *)
Theorem skip_progress : forall bs n,
  (Z.of_nat (length bs) < Z.of_N two63)%Z -> Skip bs = Ok n -> (1 <= n)%Z.
Proof.
  intros bs n Hl H. unfold Skip in H. apply skip_loop_progress in H; [|apply Z.le_refl|intros _; exact Hl].
  apply Z.le_succ_l in H. exact H.
Qed.

(* Skip returns precisely the length of the first record, for all five wire types and nested groups *)
Theorem skip_wellformed : forall r rest,
  wf_wrec r -> (Z.of_nat (length (enc_wrec r ++ rest)) < Z.of_N two63)%Z ->
  Skip (enc_wrec r ++ rest) = Ok (Z.of_nat (length (enc_wrec r))).
Proof. exact skip_wellformed_record. Qed.

(* non-vacuity: a nested record meets the hypotheses, and the model computes on it *)
Example wf_example :
  let r := WGroup 3 [WVarint 1 300; WGroup 2 [WBytes 536870911 [x61; x62]; WFixed32 7 [x01; x02; x03; x04]] 2;
                     WFixed64 16 [x00; x00; x00; x00; x00; x00; x00; x01]] 3 in
  wf_wrec r /\ Skip (enc_wrec r ++ [xff; xff]) = Ok (Z.of_nat (length (enc_wrec r))) /\ (length (enc_wrec r) = 30)%nat.
Proof. cbv zeta. split; [|split]; [| vm_compute; reflexivity | vm_compute; reflexivity].
  unfold wf_wrec, num_ok, two64. repeat split; try reflexivity. Qed.
Example encode_example : EncodeVarint [xaa; xbb; xcc; xdd] 3 300 = Ok ([xaa; xac; x02; xdd], 1%Z).
Proof. vm_compute. reflexivity. Qed.

(* ---- the Go source itself (runtime.go transcribed by the translator: GoFun.canon_runtime, re-derived and compared on every
        run) computes the models above: for every input and every amount of fuel from the stated minimum up (task T12;
        proofs in Proofs/GoFunProofs.v by symbolic execution of the interpreter GoFun.run_fun) ---- *)
Theorem sov_prog : sov_prog_stmt.
Proof. exact GoFunProofs.sov_prog_correct. Qed.
Theorem soz_prog : soz_prog_stmt.
Proof. exact GoFunProofs.soz_prog_correct. Qed.
Theorem encodevarint_prog : encodevarint_prog_stmt.
Proof. exact GoFunProofs.encodevarint_prog_correct. Qed.
Theorem skip_prog : skip_prog_stmt.
Proof. exact GoFunProofs.skip_prog_correct. Qed.
Theorem options_prog : options_prog_stmt.
Proof. exact GoFunProofs.options_prog_correct. Qed.
Theorem child_limit : child_limit_stmt.
Proof. exact GoFunProofs.child_limit_correct. Qed.

(* non-vacuity: the interpreted Go code on a nested-group input (same answer as the model: 30 bytes), on a malformed one
   (an end-group without a start: an error value, n = 0), and EncodeVarint writing 300 backwards from offset 3 *)
Example skip_prog_example :
  let r := WGroup 3 [WVarint 1 300; WGroup 2 [WBytes 536870911 [x61; x62]; WFixed32 7 [x01; x02; x03; x04]] 2;
                     WFixed64 16 [x00; x00; x00; x00; x00; x00; x00; x01]] 3 in
  let bs := enc_wrec r ++ [xff; xff] in
  run_fun canon_runtime (11 + length bs) 1 "Skip" [GvBytes bs] = GOk [intv 30; GvErr None] [GvBytes bs] /\
  skip_view (run_fun canon_runtime 13 1 "Skip" [GvBytes [x0c; x00]]) = Some Err /\ Skip [x0c; x00] = Err.
Proof. cbv zeta. split; [|split]; vm_compute; reflexivity. Qed.
Example encodevarint_prog_example :
  run_fun canon_runtime 10 2 "EncodeVarint" [GvBytes [xaa; xbb; xcc; xdd]; intv 3; u64v 300]
  = GOk [intv 1] [GvBytes [xaa; xac; x02; xdd]; intv 2; u64v 2].
Proof. vm_compute. reflexivity. Qed.
