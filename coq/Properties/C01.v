(* Properties/C01.v — wire round trip preserves every message value.
   Statements only; proofs in Proofs/RoundTrip.v (about 2000 lines: per-kind scalar lemmas, one
   record per shape, the decode loop over the emitted stream, nesting by induction on the fuel).
   emit = the marshal template (Codec.v), pulsar_unmarshal = the decode loop (Decode.v), both
   faithful and schema-parametric; [norm] (RefSpec.v) is the documented normalisation: a nil and an
   empty container are the same value, nil list elements / map values / oneof payloads come back as
   empty messages, an empty non-nil singular bytes field comes back nil; [canon] additionally forgets
   map iteration order (what proto.Equal compares).
   Unknown fields are part of the value: [unknowns_okb] (UnkOk.v) says that the unknown bytes carried
   at every depth are a sequence of records the protobuf parser delimits, with numbers the message type
   does not declare — what SetUnknown requires and what decoding produces. Nesting is bounded by the
   decoder's own recursion limit (10000), as for the reference. *)
From CP Require Import Extra UnkOk RoundTrip RoundTripUnk CodecSize.
Local Open Scope N_scope.

(* every scalar of every kind decodes back from its own payload: extreme integers (sign extension
   and truncation), zig-zag, -0 and NaN bit patterns, bool, strings and bytes of any length *)
Theorem scalar_roundtrip : forall k v rest, wt_scalar k v = true -> N.of_nat (length (as_bytes v)) < two63 ->
  dec_scalar k (scalar_payload k v ++ rest) = Some (norm_scalar k v, rest).
Proof. exact RoundTrip.scalar_roundtrip. Qed.

(* non-deterministic marshal (maps emitted in their iteration order): decoding gives exactly norm v *)
Theorem roundtrip_nondet : forall sch, wf sch = true -> forall v mid, wt_msg sch mid v = true ->
  strip_unknown v = v -> N.of_nat (val_depth v) < 9999 -> N.of_nat (length (emit sch false mid v)) < two63 ->
  pulsar_unmarshal sch false mid VNil (emit sch false mid v) = Ok (norm sch mid v).
Proof. exact RoundTrip.roundtrip_nondet. Qed.

(* deterministic marshal: decoding succeeds and gives a message equal to norm v up to map order *)
Theorem roundtrip_det : forall sch, wf sch = true -> forall v mid, wt_msg sch mid v = true ->
  strip_unknown v = v -> N.of_nat (val_depth v) < 9999 -> N.of_nat (length (emit sch true mid v)) < two63 ->
  exists r, pulsar_unmarshal sch false mid VNil (emit sch true mid v) = Ok r /\ canon r = canon (norm sch mid v).
Proof. exact RoundTrip.roundtrip_det. Qed.

(* the full statements, unknown fields included (of every wire type, nested groups, at every depth) *)
Theorem roundtrip_nondet_unknown : forall sch, wf sch = true -> forall v mid, wt_msg sch mid v = true ->
  unknowns_okb sch mid v = true -> N.of_nat (val_depth v) < 9999 -> N.of_nat (length (emit sch false mid v)) < two63 ->
  pulsar_unmarshal sch false mid VNil (emit sch false mid v) = Ok (norm sch mid v).
Proof. exact RoundTripUnk.roundtrip_nondet_unk. Qed.

Theorem roundtrip_det_unknown : forall sch, wf sch = true -> forall v mid, wt_msg sch mid v = true ->
  unknowns_okb sch mid v = true -> N.of_nat (val_depth v) < 9999 -> N.of_nat (length (emit sch true mid v)) < two63 ->
  exists r, pulsar_unmarshal sch false mid VNil (emit sch true mid v) = Ok r /\ canon r = canon (norm sch mid v).
Proof. exact RoundTripUnk.roundtrip_det_unk. Qed.

(* the first two theorems are the special case without unknown fields *)
Theorem stripped_values_are_unknown_ok : forall sch v mid, wt_msg sch mid v = true -> strip_unknown v = v ->
  unknowns_okb sch mid v = true.
Proof. exact RoundTripUnk.unknowns_okb_of_stripped. Qed.

(* encoding never fails or panics (the model has no UTF-8 check: pulsar never validates; nested
   protobuf-go types do, which is what the "valid UTF-8" proviso of the property is about) *)
Theorem marshal_total : forall sch det mid v, wf sch = true ->
  N.of_nat (length (emit sch det mid v)) < two64 -> pulsar_marshal sch det mid v = Ok (emit sch det mid v).
Proof. exact CodecSize.marshal_ok. Qed.

(* non-vacuity: oneof member holding its zero value, -0.0, a NaN payload, int64 minimum, a map with a
   nil message value, a nil list element, nested twice *)
Definition ex_schema : schema :=
  [ {| m_fields := [ {| f_num := 1; f_ty := TScalar KDouble; f_shape := Singular |};
                     {| f_num := 2; f_ty := TScalar KFloat; f_shape := Rep true |};
                     {| f_num := 3; f_ty := TScalar KSint64; f_shape := Singular |};
                     {| f_num := 4; f_ty := TMsg 1; f_shape := MapOf KInt32 |};
                     {| f_num := 5; f_ty := TMsg 1; f_shape := Rep false |};
                     {| f_num := 16; f_ty := TScalar KInt32; f_shape := Member 0 |};
                     {| f_num := 17; f_ty := TMsg 0; f_shape := Member 0 |} ];
       m_oneofs := 1; m_impl := Pulsar |};
    {| m_fields := [ {| f_num := 1; f_ty := TScalar KBytes; f_shape := Singular |};
                     {| f_num := 2; f_ty := TMsg 0; f_shape := Singular |} ]; m_oneofs := 0; m_impl := Pulsar |} ].
Definition ex_inner := VMsg [VBits 9223372036854775808; VNil; VInt 0; VNil; VNil; VSome (VInt 0); VNil] [].
Definition ex_value : val :=
  VMsg [ VBits 9223372036854775808;                       (* -0.0 *)
         VList [VBits 2143289345; VBits 2147483648];      (* a NaN with payload, -0.0f *)
         VInt (-9223372036854775808);
         VMap [ (VInt (-1), VNil); (VInt 7, VMsg [VBytes []; ex_inner] []) ];
         VList [ VNil; VMsg [VBytes [x00; xff]; VNil] [] ];
         VNil; VSome ex_inner ] [].
Definition ex_unknown : val :=
  VMsg [ VBits 0; VNil; VInt 0; VNil; VList [VMsg [VBytes [x01]; VNil] [xf8; x01; xff; xff; xff; xff; xff; xff; xff; xff; xff; x01]]; VNil; VNil ]
       [xdb; x3e; x08; x01; xe3; x3e; x12; x01; x61; xe4; x3e; xdc; x3e; x7d; x01; x02; x03; x04].
Example roundtrip_unknown_example :
  wt_msg ex_schema 0 ex_unknown = true /\ unknowns_okb ex_schema 0 ex_unknown = true /\ strip_unknown ex_unknown <> ex_unknown /\
  pulsar_unmarshal ex_schema false 0 VNil (emit ex_schema false 0 ex_unknown) = Ok (norm ex_schema 0 ex_unknown).
Proof. vm_compute. repeat split; try reflexivity. discriminate. Qed.
Example roundtrip_example :
  wf ex_schema = true /\ wt_msg ex_schema 0 ex_value = true /\ strip_unknown ex_value = ex_value /\
  pulsar_unmarshal ex_schema false 0 VNil (emit ex_schema false 0 ex_value) = Ok (norm ex_schema 0 ex_value) /\
  norm ex_schema 0 ex_value <> ex_value /\ canon (norm ex_schema 0 (norm ex_schema 0 ex_value)) = canon (norm ex_schema 0 ex_value).
Proof. vm_compute. repeat split; try reflexivity. discriminate. Qed.
