(* Properties/C04.v — Size equals encoded length; append-marshal leaves the prefix intact.
   Only statements, each closed by `exact <lemma>`; proofs are in Proofs/CodecSize.v and Proofs/SizeProgProofs.v.
   The models: Codec.msg_size (features/fastreflection/proto_size.go), Codec.emit (proto_marshal.go, the bytes the
   back-filled buffer receives), Codec.pulsar_marshal (make([]byte, size) filled from the back: a too-small
   buffer is a Panic, a too-large one leaves zero padding), Extra.pulsar_marshal_append. *)
From CP Require Import Extra CodecSize SizeProg.
From CP Require SizeProgProofs.
Local Open Scope N_scope.

(* For every well-formed schema, every message type, EVERY value (well-typed or not; nil and empty
   nested values included) and both marshal modes: the size template computes exactly the number
   of bytes the marshal template writes. (The bound says the encoding fits in memory; Go slices
   are shorter than 2^63.) *)
Theorem size_eq_len : forall sch det, wf sch = true -> forall v mid,
  N.of_nat (length (emit sch det mid v)) < two64 ->
  msg_size sch mid v = N.of_nat (length (emit sch det mid v)).
Proof. exact CodecSize.size_eq_len. Qed.

(* hence the back-filled buffer is filled exactly: Marshal neither panics (index out of range)
   nor returns leading padding *)
Theorem marshal_exact : forall sch det mid v, wf sch = true ->
  N.of_nat (length (emit sch det mid v)) < two64 ->
  pulsar_marshal sch det mid v = Ok (emit sch det mid v).
Proof. exact CodecSize.marshal_ok. Qed.

Theorem marshal_never_panics : forall sch det mid v, wf sch = true ->
  N.of_nat (length (emit sch det mid v)) < two64 -> pulsar_marshal sch det mid v <> Panic.
Proof. exact CodecSize.marshal_never_panics. Qed.

(* Size does not depend on the marshal mode (map order changes no length) *)
Theorem size_mode_independent : forall sch v mid,
  length (emit sch true mid v) = length (emit sch false mid v).
Proof. exact CodecSize.emit_len_mode. Qed.

(* appending to a caller buffer yields prefix ++ encoding: the prefix is intact *)
Theorem append_prefix : forall sch det mid pre v, wf sch = true ->
  N.of_nat (length (emit sch det mid v)) < two64 ->
  pulsar_marshal_append sch det mid pre v = Ok (pre ++ emit sch det mid v).
Proof. exact CodecSize.marshal_append_prefix. Qed.

(* the generation-time KeySize and every per-kind size agree with the bytes written *)
Theorem key_size_is_key_length : forall num wt, key_size num wt = N.of_nat (length (key_bytes num wt)).
Proof. exact CodecSize.key_size_length. Qed.
Theorem scalar_size_is_payload_length : forall k v, N.of_nat (length (as_bytes v)) < two64 ->
  scalar_size k v = N.of_nat (length (scalar_payload k v)).
Proof. exact CodecSize.scalar_size_length. Qed.

(* non-vacuity: a schema with a nested message, a map of messages holding a nil value, a oneof and a packed list *)
Definition ex_schema : schema :=
  [ {| m_fields := [ {| f_num := 1; f_ty := TScalar KSint32; f_shape := Singular |};
                     {| f_num := 2048; f_ty := TMsg 1; f_shape := MapOf KString |};
                     {| f_num := 3; f_ty := TScalar KInt32; f_shape := Rep true |};
                     {| f_num := 536870911; f_ty := TMsg 1; f_shape := Member 0 |} ];
       m_oneofs := 1; m_impl := Pulsar |};
    {| m_fields := [ {| f_num := 1; f_ty := TScalar KString; f_shape := Singular |} ]; m_oneofs := 0; m_impl := Pulsar |} ].
Definition ex_value : val :=
  VMsg [ VInt (-3); VMap [ (VBytes [x6b], VNil); (VBytes [x61], VMsg [VBytes [x68; x69]] [x08; x01]) ];
         VList [VInt 1; VInt (-1); VInt 300]; VSome VNil ] [xf8; x01; x07].
Example size_example :
  wf ex_schema = true /\ msg_size ex_schema 0 ex_value = 50 /\
  pulsar_marshal ex_schema true 0 ex_value = Ok (emit ex_schema true 0 ex_value) /\
  length (emit ex_schema true 0 ex_value) = 50%nat.
Proof. vm_compute. repeat split; reflexivity. Qed.

(* Translator tie (Model/SizeProg.v): the program the size template emits for a message type, [canon_size] (the Go
   runner translates the body of every generated size closure into this syntax and the driver compares it with
   canon_size syntactically), run by the SizeProg interpreter on any well-typed value of any well-formed schema,
   returns exactly Codec.msg_size. So the model msg_size is the meaning of the generated statements themselves. *)
Theorem size_prog_correct : SizeProg.size_prog_correct_stmt.
Proof. exact SizeProgProofs.size_prog_correct. Qed.

(* non-vacuity: a map of messages holding a nil value, a map with bytes values and negative int32 keys, two oneofs
   (one holding a wrapper with a nil message, one an enum of value -1; the int32 member of the first is not set),
   a packed and an unpacked list, unknown bytes *)
Definition sp_schema : schema :=
  [ {| m_fields := [ {| f_num := 1; f_ty := TScalar KSint32; f_shape := Singular |};
                     {| f_num := 2048; f_ty := TMsg 1; f_shape := MapOf KString |};
                     {| f_num := 3; f_ty := TScalar KInt32; f_shape := Rep true |};
                     {| f_num := 536870911; f_ty := TMsg 1; f_shape := Member 0 |};
                     {| f_num := 5; f_ty := TScalar KString; f_shape := Rep false |};
                     {| f_num := 6; f_ty := TScalar KInt32; f_shape := Member 0 |};
                     {| f_num := 7; f_ty := TScalar KBytes; f_shape := MapOf KInt32 |};
                     {| f_num := 8; f_ty := TScalar KEnum; f_shape := Member 1 |} ];
       m_oneofs := 2; m_impl := Pulsar |};
    {| m_fields := [ {| f_num := 1; f_ty := TScalar KString; f_shape := Singular |} ]; m_oneofs := 0; m_impl := Pulsar |} ].
Definition sp_value : val :=
  VMsg [ VInt (-3); VMap [ (VBytes [x6b], VNil); (VBytes [x61], VMsg [VBytes [x68; x69]] [x08; x01]) ];
         VList [VInt 1; VInt (-1); VInt 300]; VSome VNil; VList [VBytes [x61; x62]; VBytes []]; VNil;
         VMap [ (VInt (-7), VBytes [x01; x02; x03]) ]; VSome (VInt (-1)) ] [xf8; x01; x07].
Example size_prog_example :
  wf sp_schema = true /\ wt_msg sp_schema 0 sp_value = true /\
  run_size sp_schema 0 (canon_size sp_schema 0) sp_value = Some 85 /\ msg_size sp_schema 0 sp_value = 85.
Proof. vm_compute. repeat split; reflexivity. Qed.
