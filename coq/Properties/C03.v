(* Properties/C03.v — decoding any well-typed wire stream gives the reference result.
   Statements only; proofs in Proofs/RefDecodeEq.v.
   Decode.pulsar_unmarshal is the FAITHFUL model of the generated decode loop, quirks included
   (packed runs and map-entry subfields bounded by the whole buffer, map-entry subfields decoded
   without looking at their wire type, the 10th varint byte truncated, Skip not matching group
   numbers). RefDecode.ref_unmarshal is the reference decoder, written after protobuf-go's generic
   path (every record delimited by the protowire parser first) and checked against dynamicpb on every
   stream of every run, accepted and rejected ones. [strict = true] also rejects a known field
   number carrying a wire type other than its declared one or the packed/unpacked alternative:
   acceptance in strict mode is "well-typed protobuf encoding for the schema" in the sense of C03
   (any order and multiplicity of records, non-minimal varints, split packed runs, partial /
   duplicated / reordered map-entry subfields, unknown records of every wire type). *)
From CP Require Import Extra RefDecode RefDecodeEq UnmarshalProg UnmarshalProgProofs.
Local Open Scope N_scope.

(* For every schema, message type, existing target message (Unmarshal: VNil; Merge: any message),
   DiscardUnknown setting and byte string: if the stream is well-typed and the reference accepts it,
   the generated decoder accepts it and returns exactly the reference's value — last value wins for
   scalars, repeated fields concatenate, singular and oneof message fields merge, a later oneof member
   replaces an earlier one, map entries take defaults / last values, unknown fields are kept in order,
   at every nesting depth. None of the decoder's quirks can show on such a stream. *)
Theorem decode_eq_ref : forall sch discard, wf sch = true -> forall mid init bs r,
  (Z.of_nat (length bs) < Z.of_N two63)%Z ->
  ref_unmarshal sch discard true mid init bs = Ok r -> pulsar_unmarshal sch discard mid init bs = Ok r.
Proof. exact RefDecodeEq.decode_eq_ref. Qed.

(* strict acceptance is protobuf-go acceptance, with the same result *)
Theorem well_typed_is_reference_accepted : forall sch discard mid init bs r,
  ref_unmarshal sch discard true mid init bs = Ok r -> ref_unmarshal sch discard false mid init bs = Ok r.
Proof. exact RefDecodeEq.strict_implies_lax. Qed.

(* decoding a concatenation equals merging: decode a, then decode b into the result *)
Theorem concat_is_merge : forall sch discard strict mid init a b m,
  ref_unmarshal sch discard strict mid init a = Ok m ->
  ref_unmarshal sch discard strict mid init (a ++ b) = ref_unmarshal sch discard strict mid m b.
Proof. exact RefDecodeEq.ref_concat_is_merge. Qed.

(* hence the same law for the generated decoder on well-typed streams *)
Theorem pulsar_concat_is_merge : forall sch discard, wf sch = true -> forall mid init a b m r,
  (Z.of_nat (length (a ++ b)) < Z.of_N two63)%Z ->
  ref_unmarshal sch discard true mid init a = Ok m ->
  ref_unmarshal sch discard true mid m b = Ok r ->
  pulsar_unmarshal sch discard mid init (a ++ b) = Ok r.
Proof.
  intros sch discard Hwf mid init a b m r Hlen Ha Hb.
  apply RefDecodeEq.decode_eq_ref; [exact Hwf|exact Hlen|].
  rewrite (RefDecodeEq.ref_concat_is_merge _ _ _ _ _ _ b _ Ha). exact Hb.
Qed.

(* the reference parser and the runtime's Skip agree on every record the parser accepts *)
Theorem skip_agrees_with_reference_parser : forall bs num wt r r',
  pw_tag bs = Some (num, wt, r) -> pw_skip_value (S (length r)) num wt r = Some r' ->
  (Z.of_nat (length bs) < Z.of_N two63)%Z ->
  Skip bs = Ok (Z.of_nat (length bs - length r')) /\ r' = skipn (length bs - length r') bs /\ (length r' < length bs)%nat.
Proof. exact RefDecodeEq.pw_skip_value_Skip. Qed.

(* non-vacuity: split packed runs, an unpacked element between them, a duplicated singular message that must merge, a map entry
   with value before key and a duplicated key, a oneof member replaced, a non-minimal tag, an unknown group *)
Definition ex_schema : schema :=
  [ {| m_fields := [ {| f_num := 1; f_ty := TScalar KInt32; f_shape := Rep true |};
                     {| f_num := 2; f_ty := TMsg 1; f_shape := Singular |};
                     {| f_num := 3; f_ty := TScalar KString; f_shape := MapOf KInt32 |};
                     {| f_num := 4; f_ty := TScalar KBool; f_shape := Member 0 |};
                     {| f_num := 5; f_ty := TMsg 1; f_shape := Member 0 |} ];
       m_oneofs := 1; m_impl := Pulsar |};
    {| m_fields := [ {| f_num := 1; f_ty := TScalar KString; f_shape := Singular |};
                     {| f_num := 2; f_ty := TScalar KSint32; f_shape := Singular |} ]; m_oneofs := 0; m_impl := Pulsar |} ].
Definition ex_stream : list byte :=
  [ x0a; x02; x01; x02;  x08; x03;  x0a; x01; x04;          (* packed [1,2]; unpacked 3; packed [4] *)
    x12; x03; x0a; x01; x61;  x12; x02; x10; x03;            (* field 2 twice: {s:"a"} then {n:-2}: merged *)
    x1a; x07; x12; x01; x78; x08; x07; x08; x09;             (* entry: value "x", key 7, key 9 *)
    x20; x01;  x2a; x02; x10; x01;                           (* oneof: bool true, then message {n:-1} replaces it *)
    xa0; x80; x00; x00;                                      (* non-minimal tag of field 4 (bool), value false: replaces the member again *)
    xdb; x3e; x08; x01; xdc; x3e ].                          (* unknown group 1003 { 1: 1 } *)
Example decode_example :
  ref_unmarshal ex_schema false true 0 VNil ex_stream =
    Ok (VMsg [ VList [VInt 1; VInt 2; VInt 3; VInt 4]; VMsg [VBytes [x61]; VInt (-2)] [];
               VMap [(VInt 9, VBytes [x78])]; VSome (VBool false); VNil ] [xdb; x3e; x08; x01; xdc; x3e]) /\
  pulsar_unmarshal ex_schema false 0 VNil ex_stream = ref_unmarshal ex_schema false true 0 VNil ex_stream.
Proof. vm_compute. split; reflexivity. Qed.

(* The translator tie (DESIGN 12.7), decode side. Model/UnmarshalProg.v is the literal image of the statements the
   unmarshal template prints into every generated unmarshal closure; canon_unmarshal is the program it prints for a
   message type, computed from the schema alone (on every run the runner translates every generated closure and the driver
   compares it with canon_unmarshal syntactically). For every well-formed schema, DiscardUnknown setting, depth budget,
   message type, target (fresh, or any well-typed message to merge into) and input: the canonical program, run by the
   UnmarshalProg interpreter (Go int arithmetic wrapping to 64 bits, index / slice bounds panics, scoped locals), with the
   children decoded by the model's decoder one level down, computes exactly Decode.unmarshal_at at this level — value,
   error, panic and out-of-fuel alike. So the model decoder that the theorems above (and C06, C14) speak about is the
   meaning of the generated statements themselves. (Input length + 8 < 2^63: decodeFixed64's guard `(iNdEx + 8) > l`
   must not wrap; found by the proof.) *)
Theorem unmarshal_prog_correct : UnmarshalProg.unmarshal_prog_correct_stmt.
Proof. exact UnmarshalProgProofs.unmarshal_prog_correct. Qed.

(* non-vacuity, on ex_schema (packed list, nested message, map, oneof with a bool and a message member): a packed run, a
   nested message, a map entry, an unknown varint field, the same map key again (replaces the value), another entry, a
   oneof member replaced by the other one, an unknown group; the canonical program run at the top level returns the
   value below (unknown fields kept in order, or dropped under DiscardUnknown), which is pulsar_unmarshal's; two
   malformed inputs (a packed run longer than the input; the stream cut inside the second map entry) give an error *)
Definition up_stream : list byte :=
  [ x0a; x02; x01; x02;                      (* packed [1,2] *)
    x12; x03; x0a; x01; x61;                 (* field 2: {s:"a"} *)
    x1a; x05; x08; x07; x12; x01; x78;       (* entry 7 -> "x" *)
    x38; x05;                                (* unknown field 7, varint 5 *)
    x1a; x05; x08; x07; x12; x01; x79;       (* entry 7 -> "y": replaces "x" *)
    x1a; x05; x08; x08; x12; x01; x7a;       (* entry 8 -> "z" *)
    x20; x01;                                (* oneof: bool true *)
    x2a; x02; x10; x01;                      (* oneof: message {n:-1} replaces it *)
    xdb; x3e; x08; x01; xdc; x3e ].          (* unknown group 1003 { 1: 1 } *)
Definition up_slots : list val :=
  [ VList [VInt 1; VInt 2]; VMsg [VBytes [x61]; VInt 0] []; VMap [(VInt 7, VBytes [x79]); (VInt 8, VBytes [x7a])];
    VNil; VSome (VMsg [VBytes []; VInt (-1)] []) ].
Example unmarshal_prog_example :
  wf ex_schema = true /\
  UnmarshalProg.run_unmarshal_top ex_schema false 0 (UnmarshalProg.canon_unmarshal ex_schema 0) VNil up_stream
    = Some (Ok (VMsg up_slots [x38; x05; xdb; x3e; x08; x01; xdc; x3e])) /\
  UnmarshalProg.run_unmarshal_top ex_schema true 0 (UnmarshalProg.canon_unmarshal ex_schema 0) VNil up_stream
    = Some (Ok (VMsg up_slots [])) /\
  pulsar_unmarshal ex_schema false 0 VNil up_stream = Ok (VMsg up_slots [x38; x05; xdb; x3e; x08; x01; xdc; x3e]) /\
  UnmarshalProg.run_unmarshal_top ex_schema false 0 (UnmarshalProg.canon_unmarshal ex_schema 0) VNil [x0a; x05; x01] = Some Err /\
  UnmarshalProg.run_unmarshal_top ex_schema false 0 (UnmarshalProg.canon_unmarshal ex_schema 0) VNil (firstn 20 up_stream) = Some Err.
Proof. vm_compute. repeat split; reflexivity. Qed.
