(* Properties/C11.v — read-only operations of any number of threads, in any interleaving, give every
   thread its sequential results and leave the shared state as it was. Statements only; proofs in
   Proofs/ReadersProofs.v. The state is the heap of Go objects of Model/Reflect.v (generated structs,
   stand-alone slices and maps), nil distinct from empty everywhere.

   PARTIAL with respect to the property text: "without data races" is a statement about Go's memory
   model, which is not formalised here. What is proved is its logical core — no read operation writes
   the shared state, hence every schedule is equivalent to the sequential runs — and the run of
   engine `conc` under the race detector observes the rest. *)
From CP Require Import Readers ReadersProofs.
Local Open Scope N_scope.

(* every read operation (Has, Get, WhichOneof, Range, GetUnknown, IsValid, List.Len/Get,
   Map.Len/Has/Get/Range), on any heap and with any operands, returns the heap unchanged *)
Theorem reads_leave_heap_unchanged : forall sch h o, is_read o = true -> fst (step sch h o) = h.
Proof. exact ReadersProofs.read_frame. Qed.

(* threads = lists of read operations with closed operands; ANY interleaving (Model/Readers.v:
   a list of (thread id, operation) events whose projection on each id is that thread's list):
   the final heap is the initial heap and thread i saw exactly the outputs of running alone *)
Theorem readers_interleaving : forall sch (ts : list thread) (sched : list (nat * op)),
  interleaving ts sched ->
  Forall (Forall (fun o => is_read o = true)) ts ->
  forall h,
    fst (run_sched sch h sched) = h /\
    forall i t, nth_error ts i = Some t ->
                outputs_of i (snd (run_sched sch h sched)) = snd (run_thread sch h t).
Proof. exact ReadersProofs.interleaving_reads. Qed.

(* adaptive threads: each thread is a client (its next operation depends on what it has seen) all of
   whose calls are reads; a schedule is any list of thread ids (the thread named makes its next call;
   finished or absent threads are skipped). After ANY schedule the heap is the initial heap and thread
   i is exactly where its solo run on the initial heap stands after as many steps as the schedule
   gave it — in particular it has seen the same outputs and, once finished, returns the same answer *)
Theorem readers_interleaving_adaptive : forall sch R (cs : list (client op pval R)) (sched : list nat) h,
  Forall reads_only cs ->
  fst (run_sched_clients sch h cs sched) = h /\
  forall i c, nth_error cs i = Some c ->
              nth_error (snd (run_sched_clients sch h cs sched)) i =
              Some (snd (advance (step sch) (count_id i sched) c h)).
Proof. exact ReadersProofs.sched_clients_reads_top. Qed.

(* a client that only reads (proto.Equal, Clone-from, a reflective Size or Marshal, JSON marshal)
   leaves the heap unchanged *)
Theorem read_only_client_leaves_heap : forall sch R (c : client op pval R) h,
  reads_only c -> fst (run_client (step sch) c h) = h.
Proof. exact ReadersProofs.reads_only_frame. Qed.

(* non-vacuity: two threads on a heap built through the API, one interleaving of their five reads *)
Definition ex_schema : schema :=
  [ {| m_fields := [ {| f_num := 1; f_ty := TScalar KInt32; f_shape := Singular |};
                     {| f_num := 2; f_ty := TScalar KString; f_shape := Rep false |} ];
       m_oneofs := 0; m_impl := Pulsar |} ].
Definition root : pval := PMsg 0 (Some 0%nat).
Definition lst : pval := PList (TScalar KString) (RField 0 1).
Definition ex_heap : heap :=
  let h1 := fst (step ex_schema [] (ONew 0)) in
  let h2 := fst (step ex_schema h1 (OSet root 0 (PScalar (VInt 5)))) in
  let h3 := fst (step ex_schema h2 (OMutable root 1)) in
  fst (step ex_schema h3 (OLAppend lst (PScalar (VBytes [x61])))).
Definition t0 : thread := [OHas root 0; OGet root 0].
Definition t1 : thread := [OGet root 1; OLLen lst; OLGet lst 0].
Definition ex_sched : list (nat * op) :=
  [(0%nat, OHas root 0); (1%nat, OGet root 1); (1%nat, OLLen lst); (0%nat, OGet root 0); (1%nat, OLGet lst 0)].
Example interleaving_example :
  interleaving [t0; t1] ex_sched /\
  fst (run_sched ex_schema ex_heap ex_sched) = ex_heap /\
  outputs_of 0 (snd (run_sched ex_schema ex_heap ex_sched)) = [PBool true; PScalar (VInt 5)] /\
  outputs_of 1 (snd (run_sched ex_schema ex_heap ex_sched)) = [lst; PScalar (VInt 1); PScalar (VBytes [x61])] /\
  (* and a write is not a read: the same position with Set changes the heap *)
  fst (step ex_schema ex_heap (OSet root 0 (PScalar (VInt 6)))) <> ex_heap.
Proof.
  split.
  - repeat (eapply il_step; [reflexivity | simpl]). apply il_done. repeat constructor.
  - vm_compute. repeat split; try reflexivity. discriminate.
Qed.
