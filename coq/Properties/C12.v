(* Properties/C12.v — generator is total on proto3 schemas; output compiles and works.
   Statements only; proofs in Proofs/GenNamesProofs.v, Proofs/GenTemplatesProofs.v, Proofs/KeyBytes.v.
   The theorems are about hand-written models of the generator's OWN decisions (Model/GenNames.v: derived package-level
   identifiers and the renaming of fields; Model/GenTemplates.v: the brace skeleton of the size template), with protogen's
   GoNames as inputs. The driver runs these models against the identifiers, struct members and `{` counts found in the
   sources the working-tree plugin emits (GENID / GENFIELD / GENSIZEBR lines). That the emitted packages compile and
   behave is decided by running the Go toolchain on every request of the run, not by proof. *)
From CP Require Import Schema Extra KeyBytes GenNames GenTemplates GenTemplates2 GenNamesProofs GenTemplatesProofs GenTemplates2Proofs.
From CP Require Import GoFun GenProg GenProgProofs.
Local Open Scope N_scope.

(* md_X, fastReflection_X, fastReflection_X_messageType, _fastReflection_X_messageType, _X_<n>_list, _X_<n>_map and fd_X_f
   are pairwise distinct for every file whose Go names come from protogen (upper-case first letter, no '_' before a
   lower-case letter, distinct per package; field names and numbers distinct per message), PROVIDED no proto field name
   contains an underscore *)
Theorem derived_idents_distinct : forall ms, names_wf ms = true -> fd_safe ms = true -> NoDup (derived_idents ms).
Proof. exact GenNamesProofs.derived_idents_distinct. Qed.

(* without that proviso everything but the fd_ variables is still distinct ... *)
Theorem derived_idents_nofd_distinct : forall ms, names_wf ms = true -> NoDup (derived_idents_nofd ms).
Proof. exact GenNamesProofs.derived_idents_nofd_distinct. Qed.

(* ... but the fd_ variables are not: message A { string B_c = 1; message B { int32 c = 1; } } declares fd_A_B_c twice
   (finding D9, KNOWN_FINDINGS key gen/adv_fd_ident_collision) *)
Theorem fd_ident_collision_refuted : ~ (forall ms, names_wf ms = true -> NoDup (derived_idents ms)).
Proof. exact (fun H => proj2 GenNamesProofs.fd_ident_collision (H d9_schema (proj1 GenNamesProofs.fd_ident_collision))). Qed.

(* the derived identifiers cannot collide with protoc-gen-go's package-level declarations either: they start with
   md / fd / fa or with '_', protoc-gen-go's are exported or start with file_, is, xxx_ *)
Theorem derived_ident_prefix : forall k, In (first2 (ident_of k)) derived_prefixes \/ hd x00 (ident_of k) = us.
Proof. exact GenNamesProofs.derived_ident_prefix. Qed.

(* rewriteMessageField: no renamed FIELD shares its name with one of the 16 protoreflect.Message methods ... *)
Theorem no_field_method_clash : forall g, ~ In (rewrite_field g) reserved.
Proof. exact GenNamesProofs.no_field_method_clash_In. Qed.

(* ... nor does a (real) oneof, which is a struct member too and is renamed the same way (finding D8, fixed in /repo) ... *)
Theorem no_member_method_clash : forall fields oneofs m, In m (struct_members fields oneofs) -> ~ In m reserved.
Proof. exact GenNamesProofs.no_member_method_clash. Qed.

(* ... but renaming AFTER protogen made members and getters unique can re-introduce a clash: Has -> Has_ whose getter
   GetHas_ meets the member GetHas_ of field get_has_ (finding D15, keys gen/adv_rewrite_makes_...) *)
Theorem rewrite_breaks_getter_uniqueness_refuted :
  ~ (forall fields, getter_unique fields = true -> getter_unique (map rewrite_field fields) = true).
Proof. exact GenNamesProofs.rewrite_breaks_getter_uniqueness_refuted. Qed.

(* the size template's switch over (kind, cardinality, oneof membership) is defined and prints balanced braces on every
   combination protoc admits: 17 kinds x {singular, optional, packed, unpacked, map<12 key kinds>} x {plain, oneof member} *)
Theorem templates_total : forall fk s o, valid_combo fk s o = true ->
  exists toks, size_field fk s o = Some toks /\ balanced toks = true.
Proof. exact GenTemplatesProofs.templates_total. Qed.

(* the same for the other per-field templates (Model/GenTemplates2.v: has.go, clear.go, get.go, set.go, mutable.go,
   new_field.go, range.go, which_oneof.go, proto_marshal.go incl. map entries and nested messages, proto_unmarshal.go incl.
   packed/unpacked lists and map entries), on every combination of the supported subset (no groups, no proto3 optional):
   each is defined and its `{` / `}` lines are balanced. The driver compares, per generated method of every emitted message,
   the number of lines ending in `{` with the model's (GENBR lines). One theorem per template: *)
Theorem has_template_total : forall fk s o, valid_combo2 fk s o = true ->
  exists toks, field_toks THas fk s o = Some toks /\ balanced toks = true.
Proof. exact (GenTemplates2Proofs.templates_total2 THas). Qed.

Theorem clear_template_total : forall fk s o, valid_combo2 fk s o = true ->
  exists toks, field_toks TClear fk s o = Some toks /\ balanced toks = true.
Proof. exact (GenTemplates2Proofs.templates_total2 TClear). Qed.

Theorem get_template_total : forall fk s o, valid_combo2 fk s o = true ->
  exists toks, field_toks TGet fk s o = Some toks /\ balanced toks = true.
Proof. exact (GenTemplates2Proofs.templates_total2 TGet). Qed.

Theorem set_template_total : forall fk s o, valid_combo2 fk s o = true ->
  exists toks, field_toks TSet fk s o = Some toks /\ balanced toks = true.
Proof. exact (GenTemplates2Proofs.templates_total2 TSet). Qed.

Theorem mutable_template_total : forall fk s o, valid_combo2 fk s o = true ->
  exists toks, field_toks TMutable fk s o = Some toks /\ balanced toks = true.
Proof. exact (GenTemplates2Proofs.templates_total2 TMutable). Qed.

Theorem new_field_template_total : forall fk s o, valid_combo2 fk s o = true ->
  exists toks, field_toks TNewField fk s o = Some toks /\ balanced toks = true.
Proof. exact (GenTemplates2Proofs.templates_total2 TNewField). Qed.

Theorem range_template_total : forall fk s o, valid_combo2 fk s o = true ->
  exists toks, field_toks TRange fk s o = Some toks /\ balanced toks = true.
Proof. exact (GenTemplates2Proofs.templates_total2 TRange). Qed.

Theorem which_oneof_template_total : forall fk s o, valid_combo2 fk s o = true ->
  exists toks, field_toks TWhichOneof fk s o = Some toks /\ balanced toks = true.
Proof. exact (GenTemplates2Proofs.templates_total2 TWhichOneof). Qed.

Theorem marshal_template_total : forall fk s o, valid_combo2 fk s o = true ->
  exists toks, field_toks TMarshal fk s o = Some toks /\ balanced toks = true.
Proof. exact (GenTemplates2Proofs.templates_total2 TMarshal). Qed.

Theorem unmarshal_template_total : forall fk s o, valid_combo2 fk s o = true ->
  exists toks, field_toks TUnmarshal fk s o = Some toks /\ balanced toks = true.
Proof. exact (GenTemplates2Proofs.templates_total2 TUnmarshal). Qed.

(* and every template refuses groups (outside the supported subset) *)
Theorem templates_refuse_groups : forall t s o, field_toks t FGroup s o = None.
Proof. exact GenTemplates2Proofs.group_refused2. Qed.

(* the key bytes printed at generation time are the protobuf tag, for every field number (re-export of C02) *)
Theorem key_bytes_are_tag : forall num wt, 1 <= num -> num < 536870912 -> wt < 8 -> key_bytes num wt = tag num wt.
Proof. exact KeyBytes.key_bytes_tag. Qed.

Local Open Scope byte_scope.
Example idents_example :
  fd_ident ["A"] ["B"; "_"; "c"] = fd_ident ["A"; "_"; "B"] ["c"] /\
  list_ident ["A"; "_"; "1"] 2 = ["_"; "A"; "_"; "1"; "_"; "2"; "_"; "l"; "i"; "s"; "t"] /\
  rewrite_field ["T"; "y"; "p"; "e"] = ["T"; "y"; "p"; "e"; "_"] /\ rewrite_field ["T"; "y"; "p"; "e"; "_"] = ["T"; "y"; "p"; "e"; "_"] /\
  names_wf d9_schema = true /\ fd_safe d9_schema = false.
Proof. vm_compute. repeat split; reflexivity. Qed.

Example templates_example :
  field_toks TMarshal (FK KSint64) SSingular true = Some [] /\
  field_toks TMarshal (FK KSint64) SSingular false = Some [LB; RB] /\
  field_toks TUnmarshal (FK KBool) SPacked false <> None /\
  method_opens THas [(FK KInt32, SSingular, None); (FK KString, SSingular, Some 0); (FMsg, SSingular, Some 0)] = Some 10.
Proof. vm_compute. repeat split; try reflexivity. discriminate. Qed.

(* ---- translator tie (task T17, Model/GenProg.v) -------------------------------------------------------------------------------------
   /repo/cmd/protoc-gen-go-pulsar/main.go is re-translated on every run of this check (engine "genprog") and compared with the canonical
   program [canon_main_go]. The theorems below say that its renaming logic, INTERPRETED on protogen's object tree, is GenNames.v's. *)

(* the literal `reservedFieldNames` evaluates to a map whose keys are exactly GenNames.reserved (the 16 methods) *)
Theorem reserved_literal_is_reserved : GenProg.reserved_literal_stmt.
Proof. exact GenProgProofs.reserved_literal. Qed.

(* rewriteMessageField on the message at any place of the tree = gpp_rw_msg on that subtree (GenNames.rewrite_field on every field and
   every real oneof of every message visited; a message already in `processed` and a map entry are skipped with everything below them;
   nested messages are visited in order, threading `processed`); the rest of the tree, the other maps and the variables are untouched *)
Theorem rewrite_prog_correct : GenProg.rewrite_prog_stmt.
Proof. exact GenProgProofs.rewrite_prog. Qed.

(* what gpp_rw_msg does to a visited message, in the words of GenNames.v: its struct members (fields, then real oneofs) become
   GenNames.struct_members of the old ones; full names, synthetic oneofs, flags and the number of nested messages stay *)
Theorem rewritten_members : forall full fs os ms done, gpp_map_get full done = None ->
  let m' := fst (gpp_rw_msg (GpMsg full false fs os ms) done) in
  map pf_go (pm_fields m') ++ map po_go (filter po_real (pm_oneofs m')) = struct_members (map pf_go fs) (map po_go (filter po_real os))
  /\ map pf_full (pm_fields m') = map pf_full fs
  /\ map (fun o => (po_syn o, po_full o)) (pm_oneofs m') = map (fun o => (po_syn o, po_full o)) os
  /\ filter po_syn (pm_oneofs m') = filter po_syn os
  /\ pm_full m' = full /\ pm_mapentry m' = false /\ length (pm_msgs m') = length ms.
Proof. exact GenProgProofs.rw_msg_members. Qed.

(* hence no member of a visited message is called like a method of protoreflect.Message *)
Theorem rewritten_members_no_clash : forall full fs os ms done x, gpp_map_get full done = None ->
  let m' := fst (gpp_rw_msg (GpMsg full false fs os ms) done) in
  In x (map pf_go (pm_fields m') ++ map po_go (filter po_real (pm_oneofs m'))) -> ~ In x reserved.
Proof. exact GenProgProofs.rw_msg_no_clash. Qed.

(* a message already processed, and a map entry, are left alone *)
Theorem rewrite_skips : forall full me fs os ms done, gpp_map_get full done <> None \/ me = true ->
  gpp_rw_msg (GpMsg full me fs os ms) done = (GpMsg full me fs os ms, done).
Proof. exact GenProgProofs.rw_msg_skipped. Qed.

Local Open Scope byte_scope.
(* non-vacuity: the whole canonical plugin run on a file with a message M { Type; X; oneof Has; synthetic oneof Get; nested N { Get };
   map entry E { Get } }: Type, Has and N.Get get their underscore, the synthetic oneof and the map entry do not; one file is made *)
Example genprog_rewrite_example :
  let m := GpMsg ["M"] false [ {| pf_go := ["T"; "y"; "p"; "e"]; pf_full := ["a"] |}; {| pf_go := ["X"]; pf_full := ["b"] |} ]
                 [ {| po_go := ["H"; "a"; "s"]; po_syn := false; po_full := ["c"] |}; {| po_go := ["G"; "e"; "t"]; po_syn := true; po_full := ["d"] |} ]
                 [ GpMsg ["M"; "."; "N"] false [ {| pf_go := ["G"; "e"; "t"]; pf_full := ["e"] |} ] [] [];
                   GpMsg ["M"; "."; "E"] true [ {| pf_go := ["G"; "e"; "t"]; pf_full := ["f"] |} ] [] [] ] in
  let f := {| fi_generate := true; fi_proto3 := true; fi_prefix := ["p"]; fi_import := ["i"]; fi_pkg := ["k"]; fi_msgs := [m] |} in
  match gpp_run_main (@rev _) gpp_isort_rev gpp_default_feat_gen canon_genprog 5 gpp_default_registry [f] [] with
  | GpOk (e, fs, outs) _ =>
    e = None /\ gpp_emitted outs = [["p"; "."; "p"; "u"; "l"; "s"; "a"; "r"; "."; "g"; "o"]] /\
    map fi_msgs fs =
    [[ GpMsg ["M"] false [ {| pf_go := ["T"; "y"; "p"; "e"; "_"]; pf_full := ["a"] |}; {| pf_go := ["X"]; pf_full := ["b"] |} ]
             [ {| po_go := ["H"; "a"; "s"; "_"]; po_syn := false; po_full := ["c"] |}; {| po_go := ["G"; "e"; "t"]; po_syn := true; po_full := ["d"] |} ]
             [ GpMsg ["M"; "."; "N"] false [ {| pf_go := ["G"; "e"; "t"; "_"]; pf_full := ["e"] |} ] [] [];
               GpMsg ["M"; "."; "E"] true [ {| pf_go := ["G"; "e"; "t"]; pf_full := ["f"] |} ] [] [] ] ]]
  | _ => False
  end.
Proof. vm_compute. repeat split; reflexivity. Qed.
