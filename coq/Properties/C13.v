(* Properties/C13.v — code generation is deterministic and hermetic.
   Statements only; proofs in Proofs/GenOrderProofs.v. In a functional model "the response is a function of the request"
   is vacuous; what CAN be proved is that the two places where the generator ranges over a Go map do not let the
   iteration order through: findFeatures (map of required features, then sort.Slice by name) and
   generateReflectionType (scan of AllMessagesByPtr for the message's full name). Go map iteration = any permutation.
   The driver runs gen_outcome against the plugin's answer to 19 features= strings and msg_index against the index
   found in the emitted sources; the runner byte-compares repeated process runs, permutations and subsets. *)
From CP Require Import Bytes GenNames GenOrder GenOrderProofs GoFun GenProg GenProgProofs GenProg2 GenProg2Proofs.
From Coq Require Import Permutation.
Local Open Scope N_scope.

(* whatever order the map of required features is iterated in, the features run in the same order *)
Theorem features_order_invariant : forall fs1 fs2, Permutation fs1 fs2 -> sort fs1 = sort fs2.
Proof. exact GenOrderProofs.sort_perm. Qed.

(* and that order is the required set, ascending by name *)
Theorem features_sorted : forall fs, Permutation (sort fs) fs /\ sortedb (sort fs) = true.
Proof. exact (fun fs => conj (GenOrderProofs.sort_is_permutation fs) (GenOrderProofs.sort_sorted fs)). Qed.

(* the index found by scanning the pointer-keyed map does not depend on the iteration order, full names being unique *)
Theorem msg_index_unique : forall l l' t, NoDup (map fst l) -> Permutation l l' -> scan l t = scan l' t.
Proof. exact GenOrderProofs.msg_index_unique. Qed.

(* it is the position of the message in the file's message list *)
Theorem msg_index_is_position : forall l t, NoDup l -> scan (indexed l) t = index_of l t.
Proof. exact GenOrderProofs.scan_is_position. Qed.

Example order_example :
  gen_outcome (s_protoc ++ plus :: s_fastf) = Generated [s_fastf; s_protoc] /\
  gen_outcome (s_fastf ++ plus :: s_protoc) = Generated [s_fastf; s_protoc] /\
  gen_outcome s_all = Generated [s_fastf; s_protoc] /\
  gen_outcome s_protoc = Skipped /\
  gen_outcome (s_fastf ++ [plus]) = UnknownFeature.
Proof. exact GenOrderProofs.gen_outcome_examples. Qed.

(* ---- translator tie (task T17, Model/GenProg.v) -------------------------------------------------------------------------------------
   /repo/generator/features.go and /repo/cmd/protoc-gen-go-pulsar/main.go are re-translated on every run of this check (engine
   "genprog": go/parser, purely syntactic) into the statement language of Model/GenProg.v and compared with the canonical programs
   [canon_features_go], [canon_main_go] (the current source transcribed once). The theorems below say that the canonical programs,
   INTERPRETED, are the functions of Model/GenOrder.v — for EVERY order in which `range` visits a Go map (gpp_perm_ok: any permutation)
   and EVERY algorithm behind sort.Slice (gpp_sorter_ok: a permutation, sorted whenever the comparator is a strict total order). *)

(* findFeatures: the returned features are GenOrder.find_features, each name replaced by the value registered under it; an unknown
   name is returned as the error; one new map (`required`) is left behind and nothing else changes *)
Theorem find_features_prog_correct : GenProg.find_features_prog_stmt.
Proof. exact GenProgProofs.find_features_prog. Qed.

(* generateAllFiles: an unknown feature -> the error, no file; else one file <prefix>.pulsar.go per plugin file with Generate = true,
   in order, with the two header lines, skipped unless the file is proto3 and some feature reports "generated" (GenOrder.generated) *)
Theorem generate_all_files_prog_correct : GenProg.generate_all_files_prog_stmt.
Proof. exact GenProgProofs.generate_all_files_prog. Qed.

(* the whole plugin (main: flags, the loop over plugin.Files with rewriteMessageField, generateAllFiles), from the initialisation of the
   package-level variables and the registration of the features on: the response's error, the object tree and the files made are
   gpp_main_spec — a function of the request alone *)
Theorem main_prog_correct : GenProg.main_prog_stmt.
Proof. exact GenProgProofs.main_prog. Qed.

(* the files of the response: <prefix>.pulsar.go for exactly the proto3 files with Generate = true; none when no feature generated *)
Theorem emitted_files : forall fs files,
  gpp_emitted (gpp_outs_spec fs files) =
  if generated fs then map (fun f => fi_prefix f ++ s_pulsar_go) (filter (fun f => fi_generate f && fi_proto3 f) files) else [].
Proof. exact GenProgProofs.outs_spec_emitted. Qed.

(* non-vacuity: the canonical program run with the map iterated backwards and the unstable sort, and forwards with the stable one *)
Example genprog_order_example :
  let run p s names := match gpp_run_find_features p s gpp_default_feat_gen canon_genprog 3 gpp_default_registry names with
                       | GpOk vs _ => Some vs | _ => None end in
  run (@rev _) gpp_isort_rev [s_protoc; s_fastf] = Some [GpvSlice [GpvFeat s_fastf; GpvFeat s_protoc]; GpvErr None] /\
  run (fun m => m) gpp_isort [s_protoc; s_fastf] = Some [GpvSlice [GpvFeat s_fastf; GpvFeat s_protoc]; GpvErr None] /\
  run (@rev _) gpp_isort [s_all] = Some [GpvSlice [GpvFeat s_fastf; GpvFeat s_protoc]; GpvErr None] /\
  run (fun m => m) gpp_isort [s_fastf; s_md] = Some [GpvSlice []; GpvErr (Some (s_unknown_feature, [s_md]))].
Proof. vm_compute. repeat split; reflexivity. Qed.

(* ---- translator tie, third file (task T21, Model/GenProg2.v): generator/generator.go -------------------------------------------------
   NewGenerator and Generator.GenerateFile, which Model/GenProg.v gives the meaning of GenOrder.v (GpxNewGenerator / GpxGenerateFile),
   are themselves re-translated on every check (engine "genprog", GENPROG generator … lines) and compared with canon_generator_go.
   For EVERY findFeatures [ff], EVERY boolean result of the (opaque) feature bodies [feat_gen], every list of files and every list of
   files to generate: NewGenerator hands the error of findFeatures on, else GenerateFile on each file in turn returns false without
   calling any feature when the file is not proto3, else calls GenerateFile of every feature in the order findFeatures gave, returns
   "some feature said generated", and calls GenerateHelpers of a feature that said so once per (import path, feature index). *)
Theorem generator_go_prog_correct : GenProg2.generator_go_prog_stmt.
Proof. exact GenProg2Proofs.generator_go_prog_correct. Qed.

(* in GenOrder.v's words (findFeatures = GenOrder.find_features, tied to the translated findFeatures by find_features_prog_correct):
   a file is emitted iff it is proto3 and GenOrder.generated (find_features names); the features run on every proto3 file in the
   SORTED order of find_features, file by file; an unknown feature is the error *)
Theorem generator_go_genorder : GenProg2.generator_go_genorder_stmt.
Proof. exact GenProg2Proofs.generator_go_genorder. Qed.

(* non-vacuity: protoc+fast on (proto3, proto2, proto3 with the same import path): sorted order fast, protoc; the proto2 file skipped;
   the helpers of `fast` made once for the shared import path *)
Example generator_go_example :
  let f3 := {| fi_generate := true; fi_proto3 := true; fi_prefix := s_fastf; fi_import := s_all; fi_pkg := s_all; fi_msgs := [] |} in
  let f2 := {| fi_generate := true; fi_proto3 := false; fi_prefix := s_fastf; fi_import := s_all; fi_pkg := s_all; fi_msgs := [] |} in
  g2_run_all canon_generator_go [f3; f2; f3] find_features g2_default_feat_gen [s_protoc; s_fastf] [0; 1; 2]%nat
  = Some (Some ([true; false; true],
                [EvGenerateFile s_fastf 0; EvHelpers s_fastf; EvGenerateFile s_protoc 0; EvGenerateFile s_fastf 2; EvGenerateFile s_protoc 2]%nat))
  /\ g2_run_all canon_generator_go [f3] find_features g2_default_feat_gen [s_protoc; s_all ++ s_all] [0]%nat = Some None.
Proof. vm_compute. split; reflexivity. Qed.
