(* Properties/C13.v — code generation is deterministic and hermetic.
   Statements only; proofs in Proofs/GenOrderProofs.v. In a functional model "the response is a function of the request"
   is vacuous; what CAN be proved is that the two places where the generator ranges over a Go map do not let the
   iteration order through: findFeatures (map of required features, then sort.Slice by name) and
   generateReflectionType (scan of AllMessagesByPtr for the message's full name). Go map iteration = any permutation.
   The driver runs gen_outcome against the plugin's answer to 19 features= strings and msg_index against the index
   found in the emitted sources; the runner byte-compares repeated process runs, permutations and subsets. *)
From CP Require Import Bytes GenNames GenOrder GenOrderProofs.
From Coq Require Import Permutation.
Local Open Scope N_scope.

(* whatever order the map of required features is iterated in, the features run in the same order *)
Theorem features_order_invariant : forall fs1 fs2, Permutation fs1 fs2 -> sort fs1 = sort fs2.
Proof. exact GenOrderProofs.sort_perm. Qed.

(* and that order is the required set, ascending by name *)
Theorem features_sorted : forall fs, Permutation (sort fs) fs /\ sortedb (sort fs) = true.
Proof. exact (fun fs => conj (GenOrderProofs.sort_is_permutation fs) (GenOrderProofs.sort_sorted fs)). Qed.

(* the index found by scanning the pointer-keyed map does not depend on the iteration order, full names being unique *)
Theorem msg_index_unique : forall l l' t, NoDup (map fst l) -> Permutation l l' -> scan l t = scan l' t.
Proof. exact GenOrderProofs.msg_index_unique. Qed.

(* it is the position of the message in the file's message list *)
Theorem msg_index_is_position : forall l t, NoDup l -> scan (indexed l) t = index_of l t.
Proof. exact GenOrderProofs.scan_is_position. Qed.

Example order_example :
  gen_outcome (s_protoc ++ plus :: s_fastf) = Generated [s_fastf; s_protoc] /\
  gen_outcome (s_fastf ++ plus :: s_protoc) = Generated [s_fastf; s_protoc] /\
  gen_outcome s_all = Generated [s_fastf; s_protoc] /\
  gen_outcome s_protoc = Skipped /\
  gen_outcome (s_fastf ++ [plus]) = UnknownFeature.
Proof. exact GenOrderProofs.gen_outcome_examples. Qed.
