(* Properties/C07.v — codec calls do not alias or disturb caller state: frame and freshness theorems
   on the heap model. Statements only; proofs in Proofs/CodecOpsProofs.v.

   WHAT IS MODELLED. The caller's state is a heap of Go objects (Model/Reflect.v: generated structs
   with their cells, oneof interface slots and unknownFields, stand-alone slices and maps; nil pointers,
   nil slices and nil maps are distinct from empty ones). [render] reads an object graph as a message
   value, [load] allocates the object graph of a value. The codec calls are operations on that heap
   (Model/CodecOps.v): size_op / marshal_op read the receiver and run the value-level codec model
   (Model/Codec.v); unmarshal_op runs the value-level decoder (Model/Decode.v) on a byte string and
   allocates its result. The theorems below hold for ALL heaps, schemas, values and byte strings:
     - Size and Marshal return the heap they were given: every field of every struct, nil-versus-empty
       included, is as before, and every message reads the same (size_frame, marshal_frame,
       readonly_calls_preserve_messages);
     - Unmarshal only appends entries: no entry the caller holds is modified, and in a heap without dangling
       references every message reads the same afterwards (load_extends, unmarshal_frame,
       unmarshal_preserves_existing_messages);
     - the object graph Unmarshal returns is fresh: its root and every object id stored anywhere in it are
       new ids, so it shares no object, slice or map with anything that existed before (load_fresh,
       unmarshal_result_fresh);
     - the heap representation loses nothing: loading a well-typed value and reading it back gives the same
       value (render_load), so the new object graph reads as exactly the message the decoder theorems of
       C03 / C06 speak about (unmarshal_renders_decoded);
     - the result of Unmarshal is a function of (schema, options, type, bytes, size of the heap) and of
       nothing else (unmarshal_is_function_of_bytes): the input byte string is an argument of the call and is
       stored in no heap entry, so nothing done to the caller's buffer afterwards can change the message;
     - Marshal's bytes are a function of the message value read from the receiver; the call adds no heap
       entry, so no later Reflect.step can reach them (marshal_result_independent, size_result_independent).

   WHAT IS NOT MODELLED. Go's memory at byte-buffer level (slices aliasing backing arrays) is not modelled:
   byte strings in this model are immutable values, so "every byte string the decoder stores is a copy of
   the input" and "Marshal's output shares no backing array with a bytes field" are true here BY
   CONSTRUCTION, not proved about the templates. That reading is tied to the generated code by the runner's
   scribble tests on every case of every run (decode, overwrite the whole input, re-read the struct through
   package reflect; marshal, overwrite the output, marshal again; struct snapshots, nil-vs-empty included,
   around Size / Marshal), not by these theorems. Unmarshal with Merge into an existing object (which
   updates the target and its children in place) is not modelled at heap level; see Model/CodecOps.v. *)
From CP Require Import CodecOps CodecOpsProofs.
From Coq Require Import List.
Import ListNotations.
Local Open Scope nat_scope.

(* ---- (a) read-only calls ------------------------------------------------------------------------- *)
Theorem size_frame : forall sch fuel h mid p, fst (size_op sch fuel h mid p) = h.
Proof. exact CodecOpsProofs.size_frame. Qed.

Theorem marshal_frame : forall sch det fuel h mid p, fst (marshal_op sch det fuel h mid p) = h.
Proof. exact CodecOpsProofs.marshal_frame. Qed.

(* every message (any pointer q, any reading depth) reads the same after Size / Marshal *)
Theorem readonly_calls_preserve_messages : forall sch det fuel h mid p rfuel q,
  render sch rfuel (fst (size_op sch fuel h mid p)) q = render sch rfuel h q /\
  render sch rfuel (fst (marshal_op sch det fuel h mid p)) q = render sch rfuel h q.
Proof. exact CodecOpsProofs.readonly_calls_preserve_messages. Qed.

(* ---- (b) Unmarshal only appends -------------------------------------------------------------------- *)
Theorem load_extends : forall sch fuel h mid v,
  length h <= length (fst (load sch fuel h mid v)) /\
  forall id, id < length h -> nth_error (fst (load sch fuel h mid v)) id = nth_error h id.
Proof. exact CodecOpsProofs.load_extends. Qed.

Theorem unmarshal_frame : forall sch discard fuel h mid bs,
  length h <= length (fst (unmarshal_op sch discard fuel h mid bs)) /\
  forall id, id < length h -> nth_error (fst (unmarshal_op sch discard fuel h mid bs)) id = nth_error h id.
Proof. exact CodecOpsProofs.unmarshal_frame. Qed.

(* in a heap whose entries only refer to existing entries, every message reads the same after Unmarshal *)
Theorem unmarshal_preserves_existing_messages : forall sch discard fuel h mid bs, heap_closed h ->
  forall rfuel q, q < length h ->
    render sch rfuel (fst (unmarshal_op sch discard fuel h mid bs)) (Some q) = render sch rfuel h (Some q).
Proof. exact CodecOpsProofs.unmarshal_preserves_existing_messages. Qed.

(* ---- (c) the decoded object graph is fresh ------------------------------------------------------------
   region_closed lo hi h': every object id stored in an entry of h' at index >= lo (struct cells, list
   elements, map values, oneof payloads: ptrs_of_entry) lies in [lo, hi). With lo = length h: the new
   entries refer to new entries only. *)
Theorem load_fresh : forall sch fuel h mid v,
  (forall q, snd (load sch fuel h mid v) = Some q -> length h <= q < length (fst (load sch fuel h mid v))) /\
  region_closed (length h) (length (fst (load sch fuel h mid v))) (fst (load sch fuel h mid v)).
Proof. exact CodecOpsProofs.load_fresh. Qed.

Theorem unmarshal_result_fresh : forall sch discard fuel h mid bs,
  (forall q, snd (unmarshal_op sch discard fuel h mid bs) = Ok (Some q) ->
             length h <= q < length (fst (unmarshal_op sch discard fuel h mid bs))) /\
  region_closed (length h) (length (fst (unmarshal_op sch discard fuel h mid bs))) (fst (unmarshal_op sch discard fuel h mid bs)).
Proof. exact CodecOpsProofs.unmarshal_result_fresh. Qed.

(* ---- (d) the heap representation loses nothing ---------------------------------------------------------
   Plain equality: nil-vs-empty slices / maps / bytes, nil message pointers, oneof wrappers holding nil and
   unknown bytes all survive. [wf sch] is needed only for "every oneof index of a member field is declared"
   (without it load drops the member: schema [{fields := [bool, Member 3]; oneofs := 0}], value
   VMsg [VSome (VBool true)] [] reads back as VMsg [VNil] []). *)
Theorem render_load : forall sch, wf sch = true -> forall fuel h mid v,
  wt_msg sch mid v = true -> val_depth v <= fuel ->
  render sch fuel (fst (load sch fuel h mid v)) (snd (load sch fuel h mid v)) = v.
Proof. exact CodecOpsProofs.render_load. Qed.

(* hence the object graph allocated by Unmarshal reads as the value the decoder model returns *)
Theorem unmarshal_renders_decoded : forall sch, wf sch = true -> forall discard fuel h mid bs v,
  pulsar_unmarshal sch discard mid VNil bs = Ok v -> val_depth v <= fuel ->
  exists r, snd (unmarshal_op sch discard fuel h mid bs) = Ok r /\
            render sch fuel (fst (unmarshal_op sch discard fuel h mid bs)) r = v.
Proof. exact CodecOpsProofs.unmarshal_renders_decoded. Qed.

(* ---- (e) the result of Unmarshal depends on the bytes (and the size of the heap) only -------------------
   same outcome and root id, identical new entries, and every new object reads the same, whatever the two
   heaps contain *)
Theorem unmarshal_is_function_of_bytes : forall sch discard fuel h1 h2 mid bs, length h1 = length h2 ->
  snd (unmarshal_op sch discard fuel h1 mid bs) = snd (unmarshal_op sch discard fuel h2 mid bs) /\
  skipn (length h1) (fst (unmarshal_op sch discard fuel h1 mid bs)) =
  skipn (length h2) (fst (unmarshal_op sch discard fuel h2 mid bs)) /\
  forall rfuel q, length h1 <= q ->
    render sch rfuel (fst (unmarshal_op sch discard fuel h1 mid bs)) (Some q) =
    render sch rfuel (fst (unmarshal_op sch discard fuel h2 mid bs)) (Some q).
Proof. exact CodecOpsProofs.unmarshal_is_function_of_bytes. Qed.

(* ---- (f) Marshal's result is not part of the heap ------------------------------------------------------
   the bytes are a function of the value read from the receiver; the heap after the call has no entry that
   was not there before (no [hent] holds the result), and any later step runs on exactly the caller's heap.
   Trivial in a functional model; stated so that it is checked, not assumed. *)
Theorem marshal_result_independent : forall sch det fuel h mid p,
  (forall h' p', render sch fuel h' p' = render sch fuel h p ->
                 snd (marshal_op sch det fuel h' mid p') = snd (marshal_op sch det fuel h mid p)) /\
  (forall e, In e (fst (marshal_op sch det fuel h mid p)) -> In e h) /\
  (forall o, step sch (fst (marshal_op sch det fuel h mid p)) o = step sch h o).
Proof. exact CodecOpsProofs.marshal_result_independent. Qed.

Theorem size_result_independent : forall sch fuel h mid p h' p',
  render sch fuel h' p' = render sch fuel h p -> snd (size_op sch fuel h' mid p') = snd (size_op sch fuel h mid p).
Proof. exact CodecOpsProofs.size_result_independent. Qed.

(* ---- non-vacuity: decode a stream (bytes, repeated string, nested message, map<string,bytes>, oneof bytes,
   one unknown record) into a heap that already holds two messages and a stand-alone list: the three old
   entries are unchanged, the result is object 3, it reads as the decoded value, the old message still reads
   the same, and Marshal / Size of the new object return the heap unchanged and the original 25 bytes *)
Local Open Scope N_scope.
Definition ex_schema : schema :=
  [ {| m_fields := [ {| f_num := 1; f_ty := TScalar KBytes; f_shape := Singular |};
                     {| f_num := 2; f_ty := TScalar KString; f_shape := Rep false |};
                     {| f_num := 3; f_ty := TMsg 1; f_shape := Singular |};
                     {| f_num := 4; f_ty := TScalar KBytes; f_shape := MapOf KString |};
                     {| f_num := 5; f_ty := TScalar KBytes; f_shape := Member 0 |} ];
       m_oneofs := 1; m_impl := Pulsar |};
    {| m_fields := [ {| f_num := 1; f_ty := TScalar KBytes; f_shape := Singular |} ]; m_oneofs := 0; m_impl := Pulsar |} ].
Definition ex_heap : heap :=
  [ HObj (mkObj 1 [CScalar (VBytes [x01])] [] None);
    HObj (mkObj 0 [CScalar VNil; CList (Some []); CMsg (Some 0%nat); CMap None; CMember] [None] (Some [x78; x02]));
    HListVar (Some [EScalar (VBytes [x02])]) ].
Definition ex_stream : list byte :=
  [x0a; x02; x61; x62;  x12; x01; x63;  x1a; x03; x0a; x01; x64;  x22; x06; x0a; x01; x6b; x12; x01; x76;
   x2a; x01; x65;  x78; x01].
Definition ex_decoded : val :=
  VMsg [VBytes [x61; x62]; VList [VBytes [x63]]; VMsg [VBytes [x64]] []; VMap [(VBytes [x6b], VBytes [x76])];
        VSome (VBytes [x65])] [x78; x01].

Example unmarshal_into_a_populated_heap :
  let u := unmarshal_op ex_schema false 4 ex_heap 0 ex_stream in
  pulsar_unmarshal ex_schema false 0 VNil ex_stream = Ok ex_decoded /\
  firstn (length ex_heap) (fst u) = ex_heap /\
  snd u = Ok (Some 3%nat) /\
  render ex_schema 4 (fst u) (Some 3%nat) = ex_decoded /\
  render ex_schema 4 (fst u) (Some 1%nat) = render ex_schema 4 ex_heap (Some 1%nat) /\
  marshal_op ex_schema true 4 (fst u) 0 (Some 3%nat) = (fst u, Ok ex_stream) /\
  size_op ex_schema 4 (fst u) 0 (Some 3%nat) = (fst u, 25).
Proof. vm_compute. repeat split. Qed.
