(* Properties/C10.v — library algorithms are clients of the reflection API and cannot distinguish
   states that the API does not distinguish. Statements only; proofs in Proofs/ReadersProofs.v.

   A [client A B R] (Model/Readers.v) is an adaptive program over an API with operations A and
   outputs B: a final answer, or a call whose continuation receives the output. proto.Equal, Clone,
   Merge, Reset, CheckInitialized, protojson and prototext marshal/unmarshal are such programs over
   protoreflect.Message (assumption stated in DESIGN §6 C10, §8: they reach a message only through
   that interface; the generated ProtoMethods leave Merge and CheckInitialized nil). JSON and text are
   not modelled: the theorems hold for EVERY client. *)
From CP Require Import Readers ReadersProofs LibSpec LibSpecProofs.
From Coq Require Import Permutation.
Local Open Scope N_scope.

(* the simulation lemma, for any two transition systems with the same operations and outputs: a
   relation preserved by every step under which every operation gives the same output makes every
   client compute the same result, and still relates the final states *)
Theorem simulation_gives_equal_results :
  forall (S1 S2 A B : Type) (step1 : S1 -> A -> S1 * B) (step2 : S2 -> A -> S2 * B) (Rel : S1 -> S2 -> Prop),
    (forall s1 s2 a, Rel s1 s2 ->
       snd (step1 s1 a) = snd (step2 s2 a) /\ Rel (fst (step1 s1 a)) (fst (step2 s2 a))) ->
    forall R (c : client A B R) s1 s2, Rel s1 s2 ->
      snd (run_client step1 c s1) = snd (run_client step2 c s2) /\
      Rel (fst (run_client step1 c s1)) (fst (run_client step2 c s2)).
Proof. exact (@ReadersProofs.sim_client). Qed.

(* two states (of possibly different implementations) that answer every closed operation sequence
   alike give every adaptive client the same result *)
Theorem client_result_determined_by_outputs :
  forall (S1 S2 A B : Type) (step1 : S1 -> A -> S1 * B) (step2 : S2 -> A -> S2 * B) (s1 : S1) (s2 : S2),
    (forall ops, outs step1 s1 ops = outs step2 s2 ops) ->
    forall R (c : client A B R), snd (run_client step1 c s1) = snd (run_client step2 c s2).
Proof. exact ReadersProofs.client_result_determined_by_outputs. Qed.

(* ... in particular two heaps of the generated-code model (Model/Reflect.v) *)
Theorem clients_cannot_distinguish : forall sch1 sch2 (h1 h2 : heap),
  (forall ops, outs (step sch1) h1 ops = outs (step sch2) h2 ops) ->
  forall R (c : client op pval R),
    snd (run_client (step sch1) c h1) = snd (run_client (step sch2) c h2).
Proof. exact ReadersProofs.reflect_clients_cannot_distinguish. Qed.

(* the same for a client given as a function from the outputs seen so far to the next operation or
   the final answer, run with any fuel (None = out of fuel, also the same on both sides) *)
Theorem function_clients_cannot_distinguish : forall sch1 sch2 (h1 h2 : heap),
  (forall ops, outs (step sch1) h1 ops = outs (step sch2) h2 ops) ->
  forall R fuel (f : list pval -> op + R),
    snd (run_fclient (step sch1) fuel f [] h1) = snd (run_fclient (step sch2) fuel f [] h2).
Proof. exact ReadersProofs.reflect_fclients_cannot_distinguish. Qed.

(* non-vacuity: an adaptive client (Range, then Get of the first populated field, then the length of
   the list it finds) run on a concrete heap built through the API; the tree form and the function
   form give the same answer, and the client tells this heap from the empty message *)
Definition ex_schema : schema :=
  [ {| m_fields := [ {| f_num := 1; f_ty := TScalar KInt32; f_shape := Singular |};
                     {| f_num := 2; f_ty := TScalar KString; f_shape := Rep false |} ];
       m_oneofs := 0; m_impl := Pulsar |} ].
Definition root : pval := PMsg 0 (Some 0%nat).
Definition ex_heap : heap :=
  let h1 := fst (step ex_schema [] (ONew 0)) in
  let (h2, l) := step ex_schema h1 (OMutable root 1) in
  let h3 := fst (step ex_schema h2 (OLAppend l (PScalar (VBytes [x61])))) in
  fst (step ex_schema h3 (OLAppend l (PScalar (VBytes [])))).
Definition ex_client : client op pval (option nat) :=
  Call (ORange root) (fun out =>
    match out with
    | PRange ((f, _) :: _) =>
      Call (OGet root f) (fun v =>
        Call (OLLen v) (fun n => match n with PScalar (VInt z) => Ret (Some (Z.to_nat z)) | _ => Ret None end))
    | _ => Ret None
    end).
Definition ex_fclient (seen : list pval) : op + option nat :=
  match seen with
  | [] => inl (ORange root)
  | [PRange ((f, _) :: _)] => inl (OGet root f)
  | [PRange _; v] => inl (OLLen v)
  | [_; _; PScalar (VInt z)] => inr (Some (Z.to_nat z))
  | _ => inr None
  end.
Example client_example :
  snd (run_client (step ex_schema) ex_client ex_heap) = Some 2%nat /\
  snd (run_fclient (step ex_schema) 10 ex_fclient [] ex_heap) = Some (Some 2%nat) /\
  snd (run_client (step ex_schema) ex_client (fst (step ex_schema [] (ONew 0)))) = None.
Proof. vm_compute. repeat split; reflexivity. Qed.

(* ---- proto.Equal's decision procedure on values (Model/LibSpec.v [equal_msg], the function run against
   proto.Equal on generated messages by engine `lib`, case lines LIBEQ) is an equivalence relation on
   the well-typed values of a well-formed schema, at every depth, and is implied by equality of the
   denotation [canon ∘ norm] of RefSpec.

   Side conditions, stated as they are. NaN needs none: protobuf-go v1.34 (equalFloat) treats every
   NaN as equal to every NaN, itself included, and so does the model; reflexivity holds for values
   holding NaNs. [wt_msg] (Model/WF.v: what a Go struct can hold) is needed because raw value syntax
   can list a map key twice or give a message a wrong number of slots; [wf] because a map key must be
   of a legal key kind (val_key_eqb is not reflexive on float bit patterns). Without them symmetry and
   transitivity fail: see [equal_msg_laws_need_well_typedness] below. ---- *)
Theorem equal_msg_refl : forall sch, wf sch = true -> forall mid v,
  wt_msg sch mid v = true -> equal_msg sch mid v v = true.
Proof. exact LibSpecProofs.equal_msg_refl_lemma. Qed.

Theorem equal_msg_sym : forall sch, wf sch = true -> forall mid v1 v2,
  wt_msg sch mid v1 = true -> wt_msg sch mid v2 = true ->
  equal_msg sch mid v1 v2 = equal_msg sch mid v2 v1.
Proof. exact LibSpecProofs.equal_msg_sym_bool. Qed.

Theorem equal_msg_trans : forall sch, wf sch = true -> forall mid v1 v2 v3,
  wt_msg sch mid v1 = true -> wt_msg sch mid v2 = true -> wt_msg sch mid v3 = true ->
  equal_msg sch mid v1 v2 = true -> equal_msg sch mid v2 v3 = true -> equal_msg sch mid v1 v3 = true.
Proof. exact LibSpecProofs.equal_msg_trans_lemma. Qed.

(* messages with the same denotation are Equal (the converse is false: see the example) *)
Theorem canon_norm_implies_equal : forall sch, wf sch = true -> forall mid v1 v2,
  wt_msg sch mid v1 = true -> wt_msg sch mid v2 = true ->
  canon (norm sch mid v1) = canon (norm sch mid v2) -> equal_msg sch mid v1 v2 = true.
Proof. exact LibSpecProofs.canon_norm_implies_equal_lemma. Qed.

(* corollaries for one slot of the message (maps and containers nested deeper are covered by
   canon_norm_implies_equal, whose hypothesis is about every depth): the order in which a map lists its
   entries (Go's iteration order, the insertion history) is irrelevant ... *)
Theorem equal_msg_ignores_map_order : forall sch, wf sch = true -> forall mid slots unk i kvs1 kvs2,
  wt_msg sch mid (VMsg slots unk) = true -> wt_msg sch mid (VMsg (set_nth slots i (VMap kvs2)) unk) = true ->
  nth_error slots i = Some (VMap kvs1) -> Permutation kvs1 kvs2 ->
  equal_msg sch mid (VMsg slots unk) (VMsg (set_nth slots i (VMap kvs2)) unk) = true.
Proof. exact LibSpecProofs.map_order_lemma. Qed.

(* ... and so is nil versus empty, for slices, maps and bytes (whichever of the four the field's type admits) *)
Theorem equal_msg_nil_empty : forall sch, wf sch = true -> forall mid slots unk i a b,
  wt_msg sch mid (VMsg slots unk) = true -> wt_msg sch mid (VMsg (set_nth slots i b) unk) = true ->
  nth_error slots i = Some a ->
  In a [VNil; VList []; VMap []; VBytes []] -> In b [VNil; VList []; VMap []; VBytes []] ->
  equal_msg sch mid (VMsg slots unk) (VMsg (set_nth slots i b) unk) = true.
Proof. exact LibSpecProofs.nil_empty_lemma. Qed.

(* non-vacuity and sharpness *)
Definition eq_schema : schema :=
  [ {| m_fields := [ {| f_num := 1; f_ty := TScalar KInt32; f_shape := MapOf KInt32 |};
                     {| f_num := 2; f_ty := TMsg 0; f_shape := Rep false |};
                     {| f_num := 3; f_ty := TScalar KDouble; f_shape := Rep true |};
                     {| f_num := 4; f_ty := TScalar KFloat; f_shape := Singular |} ]; m_oneofs := 0; m_impl := Pulsar |} ].
(* NaNs of different payloads and signs, +0 / -0 as list elements, a float NaN in a singular field *)
Definition nanA := VMsg [VNil; VNil; VList [VBits 9221120237041090561; VBits 0]; VBits 2143289344] [].
Definition nanB := VMsg [VMap []; VList []; VList [VBits 18444492273895866368; VBits 9223372036854775808]; VBits 4290772993] [].
Example equal_msg_nan_zero_example :
  wf eq_schema = true /\ wt_msg eq_schema 0 nanA = true /\ wt_msg eq_schema 0 nanB = true /\
  equal_msg eq_schema 0 nanA nanA = true /\                       (* a message holding NaNs equals itself *)
  equal_msg eq_schema 0 nanA nanB = true /\                       (* any NaN = any NaN, +0 = -0 in a list *)
  canon (norm eq_schema 0 nanA) <> canon (norm eq_schema 0 nanB). (* so canon ∘ norm is strictly finer *)
Proof. vm_compute. repeat split; try reflexivity. discriminate. Qed.

(* ill-typed values (a key listed twice; a list element with no slots): symmetry and transitivity fail *)
Definition dupA := VMsg [VMap [(VInt 1, VInt 5); (VInt 1, VInt 5)]; VNil; VNil; VBits 0] [].
Definition dupB := VMsg [VMap [(VInt 1, VInt 5); (VInt 2, VInt 6)]; VNil; VNil; VBits 0] [].
Definition tA := VMsg [VNil; VList [VMsg [] []]; VNil; VBits 0] [].
Definition tB := VMsg [VNil; VList [VNil]; VNil; VBits 0] [].
Definition tC := VMsg [VNil; VList [VMsg [VNil; VNil; VNil; VBits 0] []]; VNil; VBits 0] [].
Example equal_msg_laws_need_well_typedness :
  (wt_msg eq_schema 0 dupA = false /\ equal_msg eq_schema 0 dupA dupB = true /\ equal_msg eq_schema 0 dupB dupA = false) /\
  (wt_msg eq_schema 0 tA = false /\ equal_msg eq_schema 0 tA tB = true /\ equal_msg eq_schema 0 tB tC = true /\
   equal_msg eq_schema 0 tA tC = false).
Proof. vm_compute. repeat split; reflexivity. Qed.
