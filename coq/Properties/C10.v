(* Properties/C10.v — library algorithms are clients of the reflection API and cannot distinguish
   states that the API does not distinguish. Statements only; proofs in Proofs/ReadersProofs.v.

   A [client A B R] (Model/Readers.v) is an adaptive program over an API with operations A and
   outputs B: a final answer, or a call whose continuation receives the output. proto.Equal, Clone,
   Merge, Reset, CheckInitialized, protojson and prototext marshal/unmarshal are such programs over
   protoreflect.Message (assumption stated in DESIGN §6 C10, §8: they reach a message only through
   that interface; the generated ProtoMethods leave Merge and CheckInitialized nil). JSON and text are
   not modelled: the theorems hold for EVERY client. *)
From CP Require Import Readers ReadersProofs.
Local Open Scope N_scope.

(* the simulation lemma, for any two transition systems with the same operations and outputs: a
   relation preserved by every step under which every operation gives the same output makes every
   client compute the same result, and still relates the final states *)
Theorem simulation_gives_equal_results :
  forall (S1 S2 A B : Type) (step1 : S1 -> A -> S1 * B) (step2 : S2 -> A -> S2 * B) (Rel : S1 -> S2 -> Prop),
    (forall s1 s2 a, Rel s1 s2 ->
       snd (step1 s1 a) = snd (step2 s2 a) /\ Rel (fst (step1 s1 a)) (fst (step2 s2 a))) ->
    forall R (c : client A B R) s1 s2, Rel s1 s2 ->
      snd (run_client step1 c s1) = snd (run_client step2 c s2) /\
      Rel (fst (run_client step1 c s1)) (fst (run_client step2 c s2)).
Proof. exact (@ReadersProofs.sim_client). Qed.

(* two states (of possibly different implementations) that answer every closed operation sequence
   alike give every adaptive client the same result *)
Theorem client_result_determined_by_outputs :
  forall (S1 S2 A B : Type) (step1 : S1 -> A -> S1 * B) (step2 : S2 -> A -> S2 * B) (s1 : S1) (s2 : S2),
    (forall ops, outs step1 s1 ops = outs step2 s2 ops) ->
    forall R (c : client A B R), snd (run_client step1 c s1) = snd (run_client step2 c s2).
Proof. exact ReadersProofs.client_result_determined_by_outputs. Qed.

(* ... in particular two heaps of the generated-code model (Model/Reflect.v) *)
Theorem clients_cannot_distinguish : forall sch1 sch2 (h1 h2 : heap),
  (forall ops, outs (step sch1) h1 ops = outs (step sch2) h2 ops) ->
  forall R (c : client op pval R),
    snd (run_client (step sch1) c h1) = snd (run_client (step sch2) c h2).
Proof. exact ReadersProofs.reflect_clients_cannot_distinguish. Qed.

(* the same for a client given as a function from the outputs seen so far to the next operation or
   the final answer, run with any fuel (None = out of fuel, also the same on both sides) *)
Theorem function_clients_cannot_distinguish : forall sch1 sch2 (h1 h2 : heap),
  (forall ops, outs (step sch1) h1 ops = outs (step sch2) h2 ops) ->
  forall R fuel (f : list pval -> op + R),
    snd (run_fclient (step sch1) fuel f [] h1) = snd (run_fclient (step sch2) fuel f [] h2).
Proof. exact ReadersProofs.reflect_fclients_cannot_distinguish. Qed.

(* non-vacuity: an adaptive client (Range, then Get of the first populated field, then the length of
   the list it finds) run on a concrete heap built through the API; the tree form and the function
   form give the same answer, and the client tells this heap from the empty message *)
Definition ex_schema : schema :=
  [ {| m_fields := [ {| f_num := 1; f_ty := TScalar KInt32; f_shape := Singular |};
                     {| f_num := 2; f_ty := TScalar KString; f_shape := Rep false |} ];
       m_oneofs := 0; m_impl := Pulsar |} ].
Definition root : pval := PMsg 0 (Some 0%nat).
Definition ex_heap : heap :=
  let h1 := fst (step ex_schema [] (ONew 0)) in
  let (h2, l) := step ex_schema h1 (OMutable root 1) in
  let h3 := fst (step ex_schema h2 (OLAppend l (PScalar (VBytes [x61])))) in
  fst (step ex_schema h3 (OLAppend l (PScalar (VBytes [])))).
Definition ex_client : client op pval (option nat) :=
  Call (ORange root) (fun out =>
    match out with
    | PRange ((f, _) :: _) =>
      Call (OGet root f) (fun v =>
        Call (OLLen v) (fun n => match n with PScalar (VInt z) => Ret (Some (Z.to_nat z)) | _ => Ret None end))
    | _ => Ret None
    end).
Definition ex_fclient (seen : list pval) : op + option nat :=
  match seen with
  | [] => inl (ORange root)
  | [PRange ((f, _) :: _)] => inl (OGet root f)
  | [PRange _; v] => inl (OLLen v)
  | [_; _; PScalar (VInt z)] => inr (Some (Z.to_nat z))
  | _ => inr None
  end.
Example client_example :
  snd (run_client (step ex_schema) ex_client ex_heap) = Some 2%nat /\
  snd (run_fclient (step ex_schema) 10 ex_fclient [] ex_heap) = Some (Some 2%nat) /\
  snd (run_client (step ex_schema) ex_client (fst (step ex_schema [] (ONew 0)))) = None.
Proof. vm_compute. repeat split; reflexivity. Qed.
