(* Extraction of the executable models to OCaml (ExtrOcamlBasic only: bool, option, unit, list,
   prod, sumbool...; N, Z, positive, nat and byte stay Coq datatypes). Run with coqc inside the
   target directory; not part of the proof build. *)
From Coq Require Extraction.
From Coq Require Import ExtrOcamlBasic.
From CP Require Import Bytes Runtime TimePb Schema Codec Decode WF RefSpec.
From CP Require Import GenNames GenOrder GenTemplates.
Extraction Language OCaml.
Extraction "model.ml"
  Bytes.enc_varint Bytes.dec_varint Bytes.n2b Bytes.b2n
  Runtime.Sov Runtime.Soz Runtime.protowire_size Runtime.EncodeVarint Runtime.Skip
  TimePb.TsAdd TimePb.TsAddStd TimePb.TsCompare
  Codec.pulsar_marshal Codec.msg_size Codec.emit Codec.key_ltb Decode.pulsar_unmarshal Decode.empty_msg
  WF.wf WF.wt_msg RefSpec.ref_marshal RefSpec.canon RefSpec.strip_unknown RefSpec.norm
  GenNames.md_ident GenNames.fd_ident GenNames.fast_ident GenNames.msgtype_ident GenNames.msgtype_var GenNames.list_ident GenNames.map_ident
  GenNames.rewrite_field GenNames.is_reserved GenNames.go_ok GenNames.dec GenNames.undec GenNames.names_wf GenNames.fd_safe GenNames.derived_idents
  GenNames.nodupb GenNames.getter_unique GenNames.struct_members
  GenOrder.gen_outcome GenOrder.msg_index GenOrder.scan GenOrder.indexed GenOrder.flatten_gen GenOrder.flatten_spec GenOrder.nodup_paths GenOrder.index_of
  GenOrder.lookup_path GenOrder.mt_name
  GenTemplates.size_method_opens GenTemplates.size_field GenTemplates.balanced GenTemplates.valid_combo.
