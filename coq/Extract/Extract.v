(* Extraction of the executable models to OCaml (ExtrOcamlBasic only: bool, option, unit, list,
   prod, sumbool...; N, Z, positive, nat and byte stay Coq datatypes). Run with coqc inside the
   target directory; not part of the proof build. *)
From Coq Require Extraction.
From Coq Require Import ExtrOcamlBasic.
From CP Require Import Bytes Runtime TimePb Schema Codec Decode WF RefSpec.
From CP Require Import RapidGen.
Extraction Language OCaml.
Extraction "model.ml"
  Bytes.enc_varint Bytes.dec_varint Bytes.n2b Bytes.b2n
  Runtime.Sov Runtime.Soz Runtime.protowire_size Runtime.EncodeVarint Runtime.Skip
  TimePb.TsAdd TimePb.TsAddStd TimePb.TsCompare
  Codec.pulsar_marshal Codec.msg_size Codec.emit Codec.key_ltb Decode.pulsar_unmarshal Decode.empty_msg
  WF.wf WF.wt_msg RefSpec.ref_marshal RefSpec.canon RefSpec.strip_unknown RefSpec.norm
  RapidGen.rapid_in_range RapidGen.rapid_in_range_at RapidGen.deep RapidGen.range_preds RapidGen.ann_ok RapidGen.code_variant
  RapidGen.current RapidGen.repaired RapidGen.fmap_of_id RapidGen.gen RapidGen.utf8_preds RapidGen.timestamp_preds
  RapidGen.duration_preds RapidGen.any_preds RapidGen.fieldmask_preds RapidGen.enum_preds RapidGen.no_empty_preds
  RapidGen.disallow_nil_preds RapidGen.no_nil_elem_preds RapidGen.mapper_preds RapidGen.top_fuel.
