(* Proofs/GenDepsProofs.v — lemmas about Model/GenDeps.v *)
From CP Require Import Bytes GenNames GenNamesProofs GenDeps.
From Coq Require Import Lia.
Local Open Scope N_scope.

(* ---- positions ---------------------------------------------------------------------------------------- *)
Lemma pos_from_shift : forall g n i, pos_from i g n = i + pos_from 0 g n.
Proof.
  induction g as [|x t IH]; intros n i; simpl. lia.
  destruct (name_eqb x n). lia. rewrite (IH n (i + 1)). rewrite (IH n 1). lia.
Qed.

Lemma pos_app : forall g t n, In n g -> pos (g ++ t) n = pos g n.
Proof.
  unfold pos. induction g as [|x r IH]; intros t n H. contradiction.
  simpl. destruct (name_eqb x n) eqn:E. reflexivity.
  destruct H as [H|H]. subst. rewrite name_eqb_refl in E. discriminate.
  rewrite (pos_from_shift (r ++ t)), (pos_from_shift r). rewrite IH by exact H. reflexivity.
Qed.

Lemma pos_nth : forall g n, In n g -> nth_error g (N.to_nat (pos g n)) = Some n.
Proof.
  unfold pos. induction g as [|x r IH]; intros n H. contradiction.
  simpl. destruct (name_eqb x n) eqn:E.
  - apply name_eqb_eq in E. subst. reflexivity.
  - destruct H as [H|H]. subst. rewrite name_eqb_refl in E. discriminate.
    rewrite pos_from_shift. specialize (IH n H). remember (pos_from 0 r n) as p.
    replace (N.to_nat (1 + p)) with (S (N.to_nat p)) by lia.
    cbn [nth_error]. exact IH.
Qed.

Lemma mem_In : forall n g, mem n g = true <-> In n g.
Proof. intros. unfold mem. apply existsb_name_In. Qed.

(* ---- declare ------------------------------------------------------------------------------------------ *)
Definition prefix (g g' : list name) : Prop := exists t, g' = g ++ t.
Lemma prefix_refl : forall g, prefix g g.
Proof. intros g. exists []. rewrite app_nil_r. reflexivity. Qed.
Lemma prefix_trans : forall a b c, prefix a b -> prefix b c -> prefix a c.
Proof. intros a b c [t1 H1] [t2 H2]. subst. exists (t1 ++ t2). rewrite app_assoc. reflexivity. Qed.
Lemma prefix_in : forall g g' n, prefix g g' -> In n g -> In n g'.
Proof. intros g g' n [t H] Hin. subst. apply in_or_app. auto. Qed.
Lemma prefix_pos : forall g g' n, prefix g g' -> In n g -> pos g' n = pos g n.
Proof. intros g g' n [t H] Hin. subst. apply pos_app. exact Hin. Qed.

Lemma declare_prefix : forall g n, prefix g (declare g n).
Proof. intros g n. unfold declare. destruct (mem n g). apply prefix_refl. exists [n]. reflexivity. Qed.
Lemma declare_in : forall g n, In n (declare g n).
Proof.
  intros g n. unfold declare. destruct (mem n g) eqn:E. apply mem_In. exact E. apply in_or_app. simpl. auto.
Qed.
Lemma declare_sub : forall g n x, In x (declare g n) -> In x g \/ x = n.
Proof.
  intros g n x H. unfold declare in H. destruct (mem n g). auto. apply in_app_or in H. simpl in H. intuition.
Qed.
Lemma declare_nodup : forall g n, NoDup g -> NoDup (declare g n).
Proof.
  intros g n H. unfold declare. destruct (mem n g) eqn:E. exact H.
  apply nodup_app; auto. repeat constructor; simpl; auto.
  intros x Hx [Hn|[]]. subst. apply mem_In in Hx. congruence.
Qed.

Lemma fold_declare_prefix : forall l g, prefix g (fold_left declare l g).
Proof.
  induction l as [|n r IH]; intros g; simpl. apply prefix_refl.
  eapply prefix_trans. apply declare_prefix. apply IH.
Qed.
Lemma fold_declare_in : forall l g n, In n l -> In n (fold_left declare l g).
Proof.
  induction l as [|x r IH]; intros g n H. contradiction. simpl. destruct H as [H|H].
  - subst. eapply prefix_in. apply fold_declare_prefix. apply declare_in.
  - apply IH. exact H.
Qed.
Lemma fold_declare_sub : forall l g x, In x (fold_left declare l g) -> In x g \/ In x l.
Proof.
  induction l as [|n r IH]; intros g x H; simpl in *. auto.
  destruct (IH _ _ H) as [H1|H1]; auto. destruct (declare_sub _ _ _ H1); auto.
Qed.
Lemma fold_declare_nodup : forall l g, NoDup g -> NoDup (fold_left declare l g).
Proof. induction l; intros g H; simpl; auto. apply IHl. apply declare_nodup. exact H. Qed.
Lemma fold_declare_fresh : forall l g, NoDup l -> (forall x, In x l -> ~ In x g) -> fold_left declare l g = g ++ l.
Proof.
  induction l as [|n r IH]; intros g Hnd Hd; simpl. rewrite app_nil_r. reflexivity.
  inversion Hnd as [|? ? Hnot Hnd']; subst.
  assert (E : declare g n = g ++ [n]).
  { unfold declare. destruct (mem n g) eqn:M; auto. apply mem_In in M. exfalso. apply (Hd n); simpl; auto. }
  rewrite E. rewrite IH; auto. rewrite <- app_assoc. reflexivity.
  intros x Hx Hin. apply in_app_or in Hin. destruct Hin as [Hin|[Hin|[]]].
  - apply (Hd x); simpl; auto.
  - subst. contradiction.
Qed.

(* ---- dep: closed form ----------------------------------------------------------------------------------- *)
Lemma fold_dep : forall R g d,
  fst (fold_left dep R (g, d)) = fold_left declare R g /\
  forall G, prefix (fold_left declare R g) G -> snd (fold_left dep R (g, d)) = d ++ map (pos G) R.
Proof.
  induction R as [|n r IH]; intros g d.
  - simpl. split; auto. intros. rewrite app_nil_r. reflexivity.
  - cbn [fold_left map]. change (dep (g, d) n) with (declare g n, d ++ [pos (declare g n) n]).
    destruct (IH (declare g n) (d ++ [pos (declare g n) n])) as [H1 H2].
    split. exact H1.
    intros G HG. rewrite (H2 G HG). rewrite <- app_assoc. simpl. f_equal. f_equal.
    symmetry. apply prefix_pos. eapply prefix_trans. apply fold_declare_prefix. exact HG. apply declare_in.
Qed.

Lemma len_app : forall (A : Type) (a b : list A), len (a ++ b) = len a + len b.
Proof. intros. unfold len. rewrite app_length. lia. Qed.
Lemma len_map : forall (A B : Type) (f : A -> B) l, len (map f l) = len l.
Proof. intros. unfold len. rewrite map_length. reflexivity. Qed.

(* the tables in closed form: every entry is the FINAL position of the named type, then the offsets in reverse *)
Lemma tables_closed_form : forall f, let T := gen_tables f in
  goTypes T = fold_left declare (all_names f) [] /\
  depIdxs T = map (pos (goTypes T)) (concat (sublists f)) ++ rev (offsets f).
Proof.
  intros f. unfold gen_tables. simpl.
  set (g0 := fold_left declare (map dm_full (all_messages f)) (fold_left declare (all_enums f) [])).
  destruct (fold_dep (refs_fields f) g0 []) as [A1 B1].
  set (s1 := fold_left dep (refs_fields f) (g0, [])) in *.
  destruct (fold_dep (refs_extendee f) (fst s1) (snd s1)) as [A2 B2]. rewrite <- surjective_pairing in A2, B2.
  set (s2 := fold_left dep (refs_extendee f) s1) in *.
  destruct (fold_dep (refs_exttype f) (fst s2) (snd s2)) as [A3 B3]. rewrite <- surjective_pairing in A3, B3.
  set (s3 := fold_left dep (refs_exttype f) s2) in *.
  destruct (fold_dep (refs_input f) (fst s3) (snd s3)) as [A4 B4]. rewrite <- surjective_pairing in A4, B4.
  set (s4 := fold_left dep (refs_input f) s3) in *.
  destruct (fold_dep (refs_output f) (fst s4) (snd s4)) as [A5 B5]. rewrite <- surjective_pairing in A5, B5.
  set (s5 := fold_left dep (refs_output f) s4) in *.
  assert (P5 : prefix (fst s5) (fst s5)) by apply prefix_refl.
  assert (P4 : prefix (fst s4) (fst s5)) by (rewrite A5; apply fold_declare_prefix).
  assert (P3 : prefix (fst s3) (fst s5)) by (eapply prefix_trans; [|exact P4]; rewrite A4; apply fold_declare_prefix).
  assert (P2 : prefix (fst s2) (fst s5)) by (eapply prefix_trans; [|exact P3]; rewrite A3; apply fold_declare_prefix).
  assert (P1 : prefix (fst s1) (fst s5)) by (eapply prefix_trans; [|exact P2]; rewrite A2; apply fold_declare_prefix).
  split.
  - rewrite A5, A4, A3, A2, A1. unfold all_names, sublists. simpl. rewrite app_nil_r.
    rewrite !fold_left_app. reflexivity.
  - rewrite <- A5 in B5. rewrite <- A4 in B4. rewrite <- A3 in B3. rewrite <- A2 in B2. rewrite <- A1 in B1.
    rewrite (B5 _ P5). rewrite (B4 _ P4). rewrite (B3 _ P3). rewrite (B2 _ P2). rewrite (B1 _ P1).
    unfold offsets, sublists. simpl. rewrite app_nil_r. rewrite !map_app. rewrite <- !app_assoc. simpl.
    repeat f_equal; rewrite ?(B4 _ P4), ?(B3 _ P3), ?(B2 _ P2), ?(B1 _ P1); rewrite ?len_app, ?len_map; unfold len; simpl; lia.
Qed.

(* ---- the statements about sub-lists ---------------------------------------------------------------------- *)
Lemma concat_nth : forall ls k R o start i n,
  nth_error ls k = Some R -> nth_error (offsets_from start ls) k = Some o -> nth_error R i = Some n ->
  start <= o /\ nth_error (concat ls) (N.to_nat (o - start) + i) = Some n.
Proof.
  induction ls as [|l r IH]; intros k R o start i n HR Ho Hn.
  - destruct k; discriminate.
  - destruct k as [|k]; simpl in HR, Ho.
    + inversion HR; inversion Ho; subst. split. lia. simpl. replace (N.to_nat (o - o) + i)%nat with i by lia.
      rewrite nth_error_app1. exact Hn. apply nth_error_Some. congruence.
    + destruct (IH k R o (start + len l) i n HR Ho Hn) as [Hle Hnth]. unfold len in *. split. lia.
      simpl. rewrite nth_error_app2 by lia.
      replace (N.to_nat (o - start) + i - length l)%nat with (N.to_nat (o - (start + N.of_nat (length l))) + i)%nat by lia.
      exact Hnth.
Qed.

Lemma in_concat_sublists : forall f n, In n (concat (sublists f)) -> In n (all_names f).
Proof. intros f n H. unfold all_names. apply in_or_app. right. apply in_or_app. right. exact H. Qed.

Lemma dep_indexes_resolve : forall f k R o i n,
  nth_error (sublists f) k = Some R -> nth_error (offsets f) k = Some o -> nth_error R i = Some n ->
  nth_error (depIdxs (gen_tables f)) (N.to_nat o + i) = Some (pos (goTypes (gen_tables f)) n) /\
  nth_error (goTypes (gen_tables f)) (N.to_nat (pos (goTypes (gen_tables f)) n)) = Some n.
Proof.
  intros f k R o i n HR Ho Hn. destruct (tables_closed_form f) as [HG HD].
  destruct (concat_nth _ _ _ _ 0 _ _ HR Ho Hn) as [_ Hc]. rewrite N.sub_0_r in Hc. split.
  - rewrite HD. rewrite nth_error_app1.
    + rewrite nth_error_map. rewrite Hc. reflexivity.
    + rewrite map_length. apply nth_error_Some. congruence.
  - apply pos_nth. rewrite HG. apply fold_declare_in. apply in_concat_sublists. eapply nth_error_In. exact Hc.
Qed.

Lemma go_types_layout : forall f, NoDup (all_enums f ++ map dm_full (all_messages f)) ->
  (exists deps, goTypes (gen_tables f) = all_enums f ++ map dm_full (all_messages f) ++ deps) /\
  NoDup (goTypes (gen_tables f)) /\ (forall n, In n (goTypes (gen_tables f)) <-> In n (all_names f)).
Proof.
  intros f Hnd. destruct (tables_closed_form f) as [HG _]. rewrite HG. split; [|split].
  - unfold all_names. rewrite app_assoc. rewrite fold_left_app.
    rewrite (fold_declare_fresh _ [] Hnd) by (intros x _ []). rewrite app_nil_l.
    destruct (fold_declare_prefix (concat (sublists f)) (all_enums f ++ map dm_full (all_messages f))) as [t Ht].
    exists t. rewrite Ht. rewrite <- app_assoc. reflexivity.
  - apply fold_declare_nodup. constructor.
  - intros n. split; intros H.
    + destruct (fold_declare_sub _ _ _ H) as [[]|H']. exact H'.
    + apply fold_declare_in. exact H.
Qed.

Lemma offsets_example_shape : forall f, length (offsets f) = 5%nat.
Proof. reflexivity. Qed.
