(* Proofs/GenTemplatesProofs.v — the size template's dispatch is total and brace-balanced on every admissible
   (kind, shape, oneof) combination: a finite sweep lifted to a universal statement. *)
From CP Require Import Bytes Schema GenTemplates.
Local Open Scope N_scope.

Definition combo_ok (fk : fkind) (s : fshape) (o : bool) : bool :=
  if valid_combo fk s o then match size_field fk s o with Some t => balanced t | None => false end else true.

Lemma sweep : forallb (fun fk => forallb (fun s => combo_ok fk s true && combo_ok fk s false) all_shapes) all_fkinds = true.
Proof. vm_compute. reflexivity. Qed.

Lemma all_kinds_complete : forall k, In k all_kinds.
Proof. destruct k; simpl; auto 20. Qed.

Lemma all_fkinds_complete : forall fk, In fk all_fkinds.
Proof.
  intros fk. unfold all_fkinds. apply in_or_app. destruct fk as [k| |].
  - left. apply in_map. apply all_kinds_complete.
  - right. simpl. auto.
  - right. simpl. auto.
Qed.

Lemma all_shapes_complete : forall s, In s all_shapes.
Proof.
  intros s. unfold all_shapes. apply in_or_app. destruct s; try (left; simpl; auto 6; fail).
  right. apply in_map. apply all_kinds_complete.
Qed.

Lemma templates_total : forall fk s o, valid_combo fk s o = true ->
  exists toks, size_field fk s o = Some toks /\ balanced toks = true.
Proof.
  intros fk s o V. pose proof sweep as H. rewrite forallb_forall in H.
  specialize (H fk (all_fkinds_complete fk)). rewrite forallb_forall in H.
  specialize (H s (all_shapes_complete s)). apply andb_true_iff in H. destruct H as [Ht Hf].
  assert (C : combo_ok fk s o = true) by (destruct o; assumption).
  unfold combo_ok in C. rewrite V in C. destruct (size_field fk s o) as [t|]; try discriminate. eauto.
Qed.

(* groups are refused by the template (panic): they are outside the supported subset *)
Lemma group_refused : forall o, size_field FGroup SSingular o = None /\ size_field FGroup SUnpacked o = None.
Proof. intros o. destruct o; split; reflexivity. Qed.
