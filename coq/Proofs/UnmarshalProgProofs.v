(* Proofs/UnmarshalProgProofs.v — the canonical unmarshal program (Model/UnmarshalProg.v: canon_unmarshal, run by the
   interpreter run_unmarshal) computes Decode.v's hand-written decoder unmarshal_at. *)
From CP Require Import UnmarshalProg Extra BytesLemmas RuntimeProofs DecodeTotal.
From Coq Require Import Lia ZifyN ZifyNat ZifyBool.
Local Open Scope Z_scope.

(* ---------------------------------------------------------------- the interpreter, unfolded *)
Section Unfold.
  Variable sch : schema.
  Variable discard : bool.
  Variable child : child_t.
  Variable depth : Z.
  Variable fs : list field.
  Variable data : list byte.
  Variable dlen : Z.
  Variable lfuel : nat.

  Notation exec' := (exec sch discard child depth fs data dlen lfuel).
  Notation run' := (run_block sch discard child depth fs data dlen lfuel).
  Notation cond' := (cond sch discard depth fs data dlen).
  Notation eval' := (eval sch fs data dlen).

  Definition block (b : list ustmt) (en : env) (st : ustate) : xres := leave en (run' b en st).

  Fixpoint for_loop (fuel : nat) (c : ucond) (body : list ustmt) (en : env) (st : ustate) : xres :=
    match fuel with
    | O => XDone OutOfFuel
    | S f =>
      xlift (cond' c en st) (fun t =>
        if t then match block body en st with XNext en' st' => for_loop f c body en' st' | r => r end
        else XNext en st)
    end.

  Fixpoint switch_find (z : Z) (cs : list (Z * list ustmt)) (dflt : list ustmt) (en : env) (st : ustate) : xres :=
    match cs with
    | [] => block dflt en st
    | (k, body) :: cs' => if z =? k then block body en st else switch_find z cs' dflt en st
    end.

  Lemma blk_eq b : forall en st,
    (fix blk (b : list ustmt) (en : env) (st : ustate) {struct b} : xres :=
       match b with
       | [] => XNext en st
       | s' :: b' => match exec' s' en st with XNext en' st' => blk b' en' st' | r => r end
       end) b en st = run' b en st.
  Proof. induction b as [|s b IH]; intros en st; [reflexivity|]. cbn [run_block]. destruct (exec' s en st); auto. Qed.

  Lemma exec_if c body en st :
    exec' (UsIf c body) en st = xlift (cond' c en st) (fun b => if b then block body en st else XNext en st).
  Proof. cbn [exec]. unfold block. destruct (cond' c en st) as [[|]| |]; cbn [xlift]; try reflexivity; apply f_equal; apply blk_eq. Qed.

  Lemma exec_ifelse c a b en st :
    exec' (UsIfElse c a b) en st = xlift (cond' c en st) (fun t => if t then block a en st else block b en st).
  Proof. cbn [exec]. unfold block. destruct (cond' c en st) as [[|]| |]; cbn [xlift]; try reflexivity; apply f_equal; apply blk_eq. Qed.

  Lemma exec_for c body en st : exec' (UsFor c body) en st = for_loop lfuel c body en st.
  Proof.
    cbn [exec].
    assert (H : forall fuel en st, (fix loop (fuel : nat) (en : env) (st : ustate) {struct fuel} : xres :=
         match fuel with
         | O => XDone OutOfFuel
         | S f =>
           xlift (cond' c en st) (fun t =>
             if t then match leave en ((fix blk (b : list ustmt) (en : env) (st : ustate) {struct b} : xres :=
        match b with
        | [] => XNext en st
        | s' :: b' => match exec' s' en st with XNext en' st' => blk b' en' st' | r => r end
        end) body en st) with XNext en' st' => loop f en' st' | r => r end
             else XNext en st)
         end) fuel en st = for_loop fuel c body en st).
    { clear en st. induction fuel as [|f IH]; intros en st; [reflexivity|].
      cbn [for_loop]. destruct (cond' c en st) as [[|]| |]; cbn [xlift]; try reflexivity.
      unfold block. rewrite (blk_eq body en st). destruct (leave en (run' body en st)); try reflexivity. apply IH. }
    apply H.
  Qed.

  Lemma exec_switch x cases dflt en st :
    exec' (UsSwitch x cases dflt) en st = xlift (var_int x en) (fun z => switch_find z cases dflt en st).
  Proof.
    cbn [exec]. destruct (var_int x en) as [z| |]; cbn [xlift]; try reflexivity.
    induction cases as [|[k body] cs IH]; cbn [switch_find]; unfold block; [apply f_equal; apply blk_eq|].
    destruct (z =? k); [apply f_equal; apply blk_eq|]. exact IH.
  Qed.

  Lemma run_app a : forall b en st,
    run' (a ++ b) en st = match run' a en st with XNext en' st' => run' b en' st' | r => r end.
  Proof.
    induction a as [|s a IH]; intros b en st; [reflexivity|]. cbn [app run_block].
    destruct (exec' s en st); try reflexivity. apply IH.
  Qed.
End Unfold.

(* ---------------------------------------------------------------- machine integers *)
Lemma pow2_64 : pow2 64 = two64. Proof. reflexivity. Qed.
Lemma pow2_32 : pow2 32 = two32. Proof. reflexivity. Qed.
Lemma pow2_63 : pow2 63 = two63. Proof. reflexivity. Qed.
Lemma pow2_31 : pow2 31 = two31. Proof. reflexivity. Qed.

Lemma of_pat_64u p : of_pat 64 false p = Z.of_N (u64 p).
Proof. reflexivity. Qed.
Lemma of_pat_32u p : of_pat 32 false p = Z.of_N (u32 p).
Proof. reflexivity. Qed.
Lemma of_pat_64s p : of_pat 64 true p = s64 p.
Proof.
  unfold of_pat, s64. change (pow2 64) with two64. change (pow2 (64 - 1)) with two63. cbn [andb].
  destruct (N.leb_spec two63 (p mod two64)); destruct (N.ltb_spec (p mod two64) two63); try reflexivity; lia.
Qed.
Lemma of_pat_32s p : of_pat 32 true p = s32 p.
Proof.
  unfold of_pat, s32. change (pow2 32) with two32. change (pow2 (32 - 1)) with two31. cbn [andb].
  destruct (N.leb_spec two31 (p mod two32)); destruct (N.ltb_spec (p mod two32) two31); try reflexivity; lia.
Qed.

Lemma lor_mod_pow2 a b n : (N.lor a b mod 2 ^ n = N.lor (a mod 2 ^ n) (b mod 2 ^ n))%N.
Proof.
  apply N.bits_inj. intro i. destruct (N.ltb_spec i n) as [Hi|Hi].
  - rewrite N.mod_pow2_bits_low by exact Hi. rewrite !N.lor_spec. rewrite !N.mod_pow2_bits_low by exact Hi. reflexivity.
  - rewrite N.mod_pow2_bits_high by exact Hi. rewrite N.lor_spec. rewrite !N.mod_pow2_bits_high by exact Hi. reflexivity.
Qed.

Lemma pow2_pow w : w = 64%N \/ w = 32%N -> pow2 w = (2 ^ w)%N.
Proof. intros [->| ->]; vm_compute; reflexivity. Qed.

Lemma of_pat_mod w sg p : w = 64%N \/ w = 32%N -> of_pat w sg (p mod pow2 w) = of_pat w sg p.
Proof. intro Hw. unfold of_pat. rewrite N.mod_mod; [reflexivity|]. destruct Hw as [->| ->]; discriminate. Qed.

Lemma to_pat_of_pat w sg p : w = 64%N \/ w = 32%N -> to_pat w (of_pat w sg p) = (p mod pow2 w)%N.
Proof.
  intro Hw. unfold to_pat, of_pat.
  assert (HP : (0 < pow2 w)%N) by (destruct Hw as [->| ->]; reflexivity).
  pose proof (N.mod_upper_bound p (pow2 w) ltac:(lia)) as Hq.
  set (q := (p mod pow2 w)%N) in *.
  destruct (sg && (pow2 (w - 1) <=? q)%N)%bool.
  - replace (Z.of_N q - Z.of_N (pow2 w)) with (Z.of_N q + (-1) * Z.of_N (pow2 w)) by lia.
    rewrite Z_mod_plus_full. rewrite Z.mod_small by lia. lia.
  - rewrite Z.mod_small by lia. lia.
Qed.

Lemma varint_loop_S f w sg dlen shift cur idx rest :
  varint_loop (S f) w sg dlen shift cur idx rest =
    if (64 <=? shift)%N then VrErr
    else if dlen <=? idx then VrErr
    else if idx <? 0 then VrPanic
    else match rest with
         | [] => VrPanic
         | b :: rest' =>
           let cur' := varint_or w sg cur (b2n b) shift in
           if (b2n b <? 128)%N then VrOk cur' (wrap64 (idx + 1)) rest'
           else varint_loop f w sg dlen (shift + 7)%N cur' (wrap64 (idx + 1)) rest'
         end.
Proof. reflexivity. Qed.

Lemma varint_loop_spec w sg dlen : w = 64%N \/ w = 32%N -> dlen < Z.of_N two63 ->
  forall f shift acc cnt rest cur idx,
   (f <= 10)%nat -> shift = (7 * (10 - N.of_nat f))%N ->
   to_pat w cur = (acc mod pow2 w)%N ->
   0 <= idx -> idx + Z.of_nat (length rest) = dlen ->
   varint_loop (S f) w sg dlen shift cur idx rest =
   match dec_varint_aux f shift acc cnt rest with
   | None => VrErr
   | Some (raw, cnt', rest') => VrOk (of_pat w sg raw) (idx + Z.of_nat (cnt' - cnt)) rest'
   end.
Proof.
  intros Hw Hd. induction f as [|f IH]; intros shift acc cnt rest cur idx Hf Hs Hc Hi Hl; rewrite varint_loop_S.
  - subst shift. reflexivity.
  - destruct (N.leb_spec 64 shift) as [H64|_]; [lia|].
    cbn [dec_varint_aux]. destruct rest as [|b rest'].
    + cbn [length] in Hl. destruct (Z.leb_spec dlen idx); [reflexivity|lia].
    + cbn [length] in Hl. destruct (Z.leb_spec dlen idx); [lia|]. destruct (Z.ltb_spec idx 0); [lia|].
      cbv zeta.
      assert (Hcur : forall x, of_pat w sg (N.lor (to_pat w cur) (x mod pow2 w)) = of_pat w sg (N.lor acc x)).
      { intro x. rewrite Hc. rewrite <- (of_pat_mod w sg (N.lor acc x)) by exact Hw.
        rewrite <- (of_pat_mod w sg (N.lor _ _)) by exact Hw.
        rewrite (pow2_pow w Hw). rewrite <- lor_mod_pow2. rewrite N.mod_mod by (apply N.pow_nonzero; discriminate). reflexivity. }
      unfold varint_or. rewrite Hcur.
      rewrite wrap64_small by (unfold two63 in *; lia).
      destruct (b2n b <? 128)%N.
      * f_equal. lia.
      * rewrite (IH (shift + 7)%N (N.lor acc (N.shiftl (N.land (b2n b) 127) shift)) (S cnt) rest'); try lia.
        -- destruct (dec_varint_aux f _ _ (S cnt) rest') as [[[raw c'] r']|] eqn:E; [|reflexivity].
           apply dec_varint_aux_consumes in E. destruct E as (pre & _ & -> & _). f_equal. lia.
        -- apply to_pat_of_pat. exact Hw.
Qed.

(* ---------------------------------------------------------------- suffixes of the input by index *)
Lemma zskipn_nat {A} (k : Z) (l : list A) : 0 <= k <= Z.of_nat (length l) -> zskipn k l = skipn (Z.to_nat k) l.
Proof.
  intro H. unfold zskipn. destruct (Z.leb_spec k 0).
  - replace k with 0 by lia. reflexivity.
  - destruct (Z.leb_spec (Z.of_nat (length l)) k); [|reflexivity].
    rewrite skipn_all2 by lia. reflexivity.
Qed.
Lemma zfirstn_nat {A} (k : Z) (l : list A) : 0 <= k <= Z.of_nat (length l) -> zfirstn k l = firstn (Z.to_nat k) l.
Proof.
  intro H. unfold zfirstn. destruct (Z.leb_spec k 0).
  - replace k with 0 by lia. reflexivity.
  - destruct (Z.leb_spec (Z.of_nat (length l)) k); [|reflexivity].
    rewrite firstn_all2 by lia. reflexivity.
Qed.

Section Sfx.
  Variable data : list byte.
  Let dlen := Z.of_nat (length data).
  Definition sfx (z : Z) : list byte := skipn (Z.to_nat z) data.

  Lemma sfx_len z : 0 <= z <= dlen -> Z.of_nat (length (sfx z)) = dlen - z.
  Proof. intro H. unfold sfx. rewrite skipn_length. subst dlen. lia. Qed.
  Lemma sfx_0 : sfx 0 = data. Proof. reflexivity. Qed.
  Lemma sfx_skipn z k : 0 <= z -> 0 <= k -> skipn (Z.to_nat k) (sfx z) = sfx (z + k).
  Proof. intros Hz Hk. unfold sfx. rewrite skipn_skipn'. f_equal. lia. Qed.
  Lemma sfx_skipn_nat z k : 0 <= z -> skipn k (sfx z) = sfx (z + Z.of_nat k).
  Proof. intros Hz. rewrite <- sfx_skipn by lia. rewrite Nat2Z.id. reflexivity. Qed.
  Lemma sfx_zskipn z k : 0 <= z <= dlen -> 0 <= k <= dlen - z -> zskipn k (sfx z) = sfx (z + k).
  Proof. intros Hz Hk. rewrite zskipn_nat by (rewrite sfx_len; lia). apply sfx_skipn; lia. Qed.
  Lemma zskipn_data z : 0 <= z <= dlen -> zskipn z data = sfx z.
  Proof. intro H. rewrite zskipn_nat by (subst dlen; lia). reflexivity. Qed.
  Lemma sfx_nil z : 0 <= z <= dlen -> (sfx z = [] <-> z = dlen).
  Proof.
    intro H. pose proof (sfx_len z H) as Hl. split; intro E.
    - rewrite E in Hl. cbn in Hl. lia.
    - destruct (sfx z); [reflexivity|]. cbn [length] in Hl. lia.
  Qed.

  Lemma dec_varint_sfx z raw m r : 0 <= z <= dlen -> dec_varint (sfx z) = Some (raw, m, r) ->
    r = sfx (z + Z.of_nat m) /\ (1 <= m)%nat /\ z + Z.of_nat m <= dlen.
  Proof.
    intros Hz E. apply dec_varint_consumes in E. destruct E as (pre & Hp & -> & Hl1 & Hl2).
    assert (r = skipn (length pre) (sfx z)) as Hr.
    { rewrite Hp. rewrite skipn_app, skipn_all, Nat.sub_diag. reflexivity. }
    rewrite sfx_skipn_nat in Hr by lia. split; [exact Hr|]. split; [lia|].
    pose proof (sfx_len z Hz) as Hlen. rewrite Hp, app_length in Hlen. lia.
  Qed.
End Sfx.

(* ---------------------------------------------------------------- environments *)
Lemma env_restore_refl en : env_restore en en = en.
Proof. unfold env_restore. rewrite Nat.sub_diag. reflexivity. Qed.
Lemma env_restore_cons en x en' : (length en <= length en')%nat -> env_restore en (x :: en') = env_restore en en'.
Proof. intro H. unfold env_restore. cbn [length]. replace (S (length en') - length en)%nat with (S (length en' - length en)) by lia. reflexivity. Qed.

(* ---------------------------------------------------------------- slot lists *)
Lemma set_nth_length {A} (l : list A) : forall i x, length (set_nth l i x) = length l.
Proof. induction l as [|h t IH]; intros [|i] x; cbn; auto. Qed.
Lemma nth_error_set_nth {A} (l : list A) : forall i x, (i < length l)%nat -> nth_error (set_nth l i x) i = Some x.
Proof. induction l as [|h t IH]; intros [|i] x H; cbn in *; try lia; auto. apply IH. lia. Qed.
Lemma set_nth_set_nth {A} (l : list A) : forall i x y, set_nth (set_nth l i x) i y = set_nth l i y.
Proof. induction l as [|h t IH]; intros [|i] x y; cbn; auto. rewrite IH. reflexivity. Qed.
Lemma set_nth_same {A} (l : list A) : forall i x, nth_error l i = Some x -> set_nth l i x = l.
Proof. induction l as [|h t IH]; intros [|i] x H; cbn in *; try discriminate; [injection H as ->; reflexivity|]. rewrite IH by exact H. reflexivity. Qed.
Lemma nth_error_nth' {A} (l : list A) i x d : nth_error l i = Some x -> nth i l d = x.
Proof. revert i. induction l as [|h t IH]; intros [|i] H; cbn in *; try discriminate; [injection H as ->; reflexivity|]. apply IH. exact H. Qed.

Section Exec1.
  Variable sch : schema.
  Variable discard : bool.
  Variable child : child_t.
  Variable depth : Z.
  Variable fs : list field.
  Variable data : list byte.
  Variable lfuel : nat.
  Notation dlen := (Z.of_nat (length data)).
  Hypothesis Hlen : dlen < Z.of_N two63.

  Notation exec' := (exec sch discard child depth fs data dlen lfuel).
  Notation run' := (run_block sch discard child depth fs data dlen lfuel).
  Notation cond' := (cond sch discard depth fs data dlen).
  Notation eval' := (eval sch fs data dlen).
  Notation eval_int' := (eval_int sch fs data dlen).
  Notation atom' := (exec_atom sch child fs data dlen).
  Notation block' := (block sch discard child depth fs data dlen lfuel).
  Notation sfx' := (sfx data).
  Notation at_ z ss u := {| us_idx := z; us_rest := sfx data z; us_slots := ss; us_unk := u |}.

  Definition is_atom (s : ustmt) : bool :=
    match s with UsIf _ _ | UsIfElse _ _ _ | UsFor _ _ | UsSwitch _ _ _ => false | _ => true end.

  Lemma run_atom s b en st : is_atom s = true ->
    run' (s :: b) en st = match atom' s en st with XNext en' st' => run' b en' st' | r => r end.
  Proof. intro H. cbn [run_block]. destruct s; try discriminate H; reflexivity. Qed.

  Lemma run_if c body b en st :
    run' (UsIf c body :: b) en st =
    xlift (cond' c en st) (fun t => if t then match block' body en st with XNext en' st' => run' b en' st' | r => r end
                                    else run' b en st).
  Proof. cbn [run_block]. rewrite exec_if. destruct (cond' c en st) as [[|]| |]; reflexivity. Qed.

  Lemma run_ifelse c a a' b en st :
    run' (UsIfElse c a a' :: b) en st =
    xlift (cond' c en st) (fun t => match (if t then block' a en st else block' a' en st) with
                                    | XNext en' st' => run' b en' st' | r => r end).
  Proof. cbn [run_block]. rewrite exec_ifelse. destruct (cond' c en st) as [[|]| |]; reflexivity. Qed.

  Lemma run_for c body b en st :
    run' (UsFor c body :: b) en st =
    match for_loop sch discard child depth fs data dlen lfuel lfuel c body en st with
    | XNext en' st' => run' b en' st' | r => r end.
  Proof. cbn [run_block]. rewrite exec_for. reflexivity. Qed.

  (* `if c { return …, err }` *)
  Lemma run_if_ret c e b en st : e <> ErNil ->
    run' (UsIf c (u_ret e) :: b) en st = xlift (cond' c en st) (fun t => if t then XDone Err else run' b en st).
  Proof.
    intro He. rewrite run_if. destruct (cond' c en st) as [[|]| |]; cbn [xlift]; try reflexivity.
    unfold block, u_ret. cbn [run_block exec exec_atom leave]. destruct e; try reflexivity. congruence.
  Qed.

  (* ---- the state at an index *)
  Lemma set_idx_at z ss u z' : 0 <= z <= dlen -> 0 <= z' <= dlen ->
    set_idx data (at_ z ss u) z' = at_ z' ss u.
  Proof.
    intros Hz Hz'. unfold set_idx. cbn [us_idx us_rest us_slots us_unk]. f_equal.
    destruct (Z.leb_spec 0 z); [|lia]. cbn [andb]. destruct (Z.leb_spec z z').
    - rewrite sfx_zskipn by lia. f_equal. lia.
    - apply zskipn_data. lia.
  Qed.

  Lemma suffix_at_at z ss u : suffix_at data (at_ z ss u) z = sfx' z.
  Proof. unfold suffix_at. cbn [us_idx us_rest]. rewrite Z.eqb_refl. reflexivity. Qed.

  Lemma slice_at z ss u hi : 0 <= z -> z <= hi <= dlen ->
    slice data dlen (at_ z ss u) z hi = EOk (firstn (Z.to_nat (hi - z)) (sfx' z)).
  Proof.
    intros Hz Hh. unfold slice. rewrite suffix_at_at.
    destruct (Z.leb_spec 0 z); [|lia]. destruct (Z.leb_spec z hi); [|lia]. destruct (Z.leb_spec hi dlen); [|lia].
    cbn [andb]. rewrite zfirstn_nat by (rewrite sfx_len; lia). reflexivity.
  Qed.

  Lemma slice_from_at z ss u : 0 <= z <= dlen -> slice_from data dlen (at_ z ss u) z = EOk (sfx' z).
  Proof.
    intros Hz. unfold slice_from. rewrite suffix_at_at.
    destruct (Z.leb_spec 0 z); [|lia]. destruct (Z.leb_spec z dlen); [|lia]. reflexivity.
  Qed.
End Exec1.
