(* Proofs/UnmarshalProgProofs.v — the canonical unmarshal program (Model/UnmarshalProg.v: canon_unmarshal, run by the
   interpreter run_unmarshal) computes Decode.v's hand-written decoder unmarshal_at. *)
From CP Require Import UnmarshalProg Extra BytesLemmas RuntimeProofs DecodeTotal.
From Coq Require Import Lia ZifyN ZifyNat ZifyBool.
Local Open Scope Z_scope.

(* ---------------------------------------------------------------- the interpreter, unfolded *)
Section Unfold.
  Variable sch : schema.
  Variable discard : bool.
  Variable child : child_t.
  Variable depth : Z.
  Variable fs : list field.
  Variable data : list byte.
  Variable dlen : Z.
  Variable lfuel : nat.

  Notation exec' := (exec sch discard child depth fs data dlen lfuel).
  Notation run' := (run_block sch discard child depth fs data dlen lfuel).
  Notation cond' := (cond sch discard depth fs data dlen).
  Notation eval' := (eval sch fs data dlen).

  Definition block (b : list ustmt) (en : env) (st : ustate) : xres := leave en (run' b en st).

  Fixpoint for_loop (fuel : nat) (c : ucond) (body : list ustmt) (en : env) (st : ustate) : xres :=
    match fuel with
    | O => XDone OutOfFuel
    | S f =>
      xlift (cond' c en st) (fun t =>
        if t then match block body en st with XNext en' st' => for_loop f c body en' st' | r => r end
        else XNext en st)
    end.

  Fixpoint switch_find (z : Z) (cs : list (Z * list ustmt)) (dflt : list ustmt) (en : env) (st : ustate) : xres :=
    match cs with
    | [] => block dflt en st
    | (k, body) :: cs' => if z =? k then block body en st else switch_find z cs' dflt en st
    end.

  Lemma blk_eq b : forall en st,
    (fix blk (b : list ustmt) (en : env) (st : ustate) {struct b} : xres :=
       match b with
       | [] => XNext en st
       | s' :: b' => match exec' s' en st with XNext en' st' => blk b' en' st' | r => r end
       end) b en st = run' b en st.
  Proof. induction b as [|s b IH]; intros en st; [reflexivity|]. cbn [run_block]. destruct (exec' s en st); auto. Qed.

  Lemma exec_if c body en st :
    exec' (UsIf c body) en st = xlift (cond' c en st) (fun b => if b then block body en st else XNext en st).
  Proof. cbn [exec]. unfold block. destruct (cond' c en st) as [[|]| |]; cbn [xlift]; try reflexivity; apply f_equal; apply blk_eq. Qed.

  Lemma exec_ifelse c a b en st :
    exec' (UsIfElse c a b) en st = xlift (cond' c en st) (fun t => if t then block a en st else block b en st).
  Proof. cbn [exec]. unfold block. destruct (cond' c en st) as [[|]| |]; cbn [xlift]; try reflexivity; apply f_equal; apply blk_eq. Qed.

  Lemma exec_for c body en st : exec' (UsFor c body) en st = for_loop lfuel c body en st.
  Proof.
    cbn [exec].
    assert (H : forall fuel en st, (fix loop (fuel : nat) (en : env) (st : ustate) {struct fuel} : xres :=
         match fuel with
         | O => XDone OutOfFuel
         | S f =>
           xlift (cond' c en st) (fun t =>
             if t then match leave en ((fix blk (b : list ustmt) (en : env) (st : ustate) {struct b} : xres :=
        match b with
        | [] => XNext en st
        | s' :: b' => match exec' s' en st with XNext en' st' => blk b' en' st' | r => r end
        end) body en st) with XNext en' st' => loop f en' st' | r => r end
             else XNext en st)
         end) fuel en st = for_loop fuel c body en st).
    { clear en st. induction fuel as [|f IH]; intros en st; [reflexivity|].
      cbn [for_loop]. destruct (cond' c en st) as [[|]| |]; cbn [xlift]; try reflexivity.
      unfold block. rewrite (blk_eq body en st). destruct (leave en (run' body en st)); try reflexivity. apply IH. }
    apply H.
  Qed.

  Lemma exec_switch x cases dflt en st :
    exec' (UsSwitch x cases dflt) en st = xlift (var_int x en) (fun z => switch_find z cases dflt en st).
  Proof.
    cbn [exec]. destruct (var_int x en) as [z| |]; cbn [xlift]; try reflexivity.
    induction cases as [|[k body] cs IH]; cbn [switch_find]; unfold block; [apply f_equal; apply blk_eq|].
    destruct (z =? k); [apply f_equal; apply blk_eq|]. exact IH.
  Qed.

  Lemma run_app a : forall b en st,
    run' (a ++ b) en st = match run' a en st with XNext en' st' => run' b en' st' | r => r end.
  Proof.
    induction a as [|s a IH]; intros b en st; [reflexivity|]. cbn [app run_block].
    destruct (exec' s en st); try reflexivity. apply IH.
  Qed.
End Unfold.

(* ---------------------------------------------------------------- machine integers *)
Lemma pow2_64 : pow2 64 = two64. Proof. reflexivity. Qed.
Lemma pow2_32 : pow2 32 = two32. Proof. reflexivity. Qed.
Lemma pow2_63 : pow2 63 = two63. Proof. reflexivity. Qed.
Lemma pow2_31 : pow2 31 = two31. Proof. reflexivity. Qed.

Lemma of_pat_64u p : of_pat 64 false p = Z.of_N (u64 p).
Proof. reflexivity. Qed.
Lemma of_pat_32u p : of_pat 32 false p = Z.of_N (u32 p).
Proof. reflexivity. Qed.
Lemma of_pat_64s p : of_pat 64 true p = s64 p.
Proof.
  unfold of_pat, s64. change (pow2 64) with two64. change (pow2 (64 - 1)) with two63. cbn [andb].
  destruct (N.leb_spec two63 (p mod two64)); destruct (N.ltb_spec (p mod two64) two63); try reflexivity; lia.
Qed.
Lemma of_pat_32s p : of_pat 32 true p = s32 p.
Proof.
  unfold of_pat, s32. change (pow2 32) with two32. change (pow2 (32 - 1)) with two31. cbn [andb].
  destruct (N.leb_spec two31 (p mod two32)); destruct (N.ltb_spec (p mod two32) two31); try reflexivity; lia.
Qed.

Lemma lor_mod_pow2 a b n : (N.lor a b mod 2 ^ n = N.lor (a mod 2 ^ n) (b mod 2 ^ n))%N.
Proof.
  apply N.bits_inj. intro i. destruct (N.ltb_spec i n) as [Hi|Hi].
  - rewrite N.mod_pow2_bits_low by exact Hi. rewrite !N.lor_spec. rewrite !N.mod_pow2_bits_low by exact Hi. reflexivity.
  - rewrite N.mod_pow2_bits_high by exact Hi. rewrite N.lor_spec. rewrite !N.mod_pow2_bits_high by exact Hi. reflexivity.
Qed.

Lemma pow2_pow w : w = 64%N \/ w = 32%N -> pow2 w = (2 ^ w)%N.
Proof. intros [->| ->]; vm_compute; reflexivity. Qed.

Lemma of_pat_mod w sg p : w = 64%N \/ w = 32%N -> of_pat w sg (p mod pow2 w) = of_pat w sg p.
Proof. intro Hw. unfold of_pat. rewrite N.mod_mod; [reflexivity|]. destruct Hw as [->| ->]; discriminate. Qed.

Lemma to_pat_of_pat w sg p : w = 64%N \/ w = 32%N -> to_pat w (of_pat w sg p) = (p mod pow2 w)%N.
Proof.
  intro Hw. unfold to_pat, of_pat.
  assert (HP : (0 < pow2 w)%N) by (destruct Hw as [->| ->]; reflexivity).
  pose proof (N.mod_upper_bound p (pow2 w) ltac:(lia)) as Hq.
  set (q := (p mod pow2 w)%N) in *.
  destruct (sg && (pow2 (w - 1) <=? q)%N)%bool.
  - replace (Z.of_N q - Z.of_N (pow2 w)) with (Z.of_N q + (-1) * Z.of_N (pow2 w)) by lia.
    rewrite Z_mod_plus_full. rewrite Z.mod_small by lia. lia.
  - rewrite Z.mod_small by lia. lia.
Qed.

Lemma varint_loop_S f w sg dlen shift cur idx rest :
  varint_loop (S f) w sg dlen shift cur idx rest =
    if (64 <=? shift)%N then VrErr
    else if dlen <=? idx then VrErr
    else if idx <? 0 then VrPanic
    else match rest with
         | [] => VrPanic
         | b :: rest' =>
           let cur' := varint_or w sg cur (b2n b) shift in
           if (b2n b <? 128)%N then VrOk cur' (wrap64 (idx + 1)) rest'
           else varint_loop f w sg dlen (shift + 7)%N cur' (wrap64 (idx + 1)) rest'
         end.
Proof. reflexivity. Qed.

Lemma varint_loop_spec w sg dlen : w = 64%N \/ w = 32%N -> dlen < Z.of_N two63 ->
  forall f shift acc cnt rest cur idx,
   (f <= 10)%nat -> shift = (7 * (10 - N.of_nat f))%N ->
   to_pat w cur = (acc mod pow2 w)%N ->
   0 <= idx -> idx + Z.of_nat (length rest) = dlen ->
   varint_loop (S f) w sg dlen shift cur idx rest =
   match dec_varint_aux f shift acc cnt rest with
   | None => VrErr
   | Some (raw, cnt', rest') => VrOk (of_pat w sg raw) (idx + Z.of_nat (cnt' - cnt)) rest'
   end.
Proof.
  intros Hw Hd. induction f as [|f IH]; intros shift acc cnt rest cur idx Hf Hs Hc Hi Hl; rewrite varint_loop_S.
  - subst shift. reflexivity.
  - destruct (N.leb_spec 64 shift) as [H64|_]; [lia|].
    cbn [dec_varint_aux]. destruct rest as [|b rest'].
    + cbn [length] in Hl. destruct (Z.leb_spec dlen idx); [reflexivity|lia].
    + cbn [length] in Hl. destruct (Z.leb_spec dlen idx); [lia|]. destruct (Z.ltb_spec idx 0); [lia|].
      cbv zeta.
      assert (Hcur : forall x, of_pat w sg (N.lor (to_pat w cur) (x mod pow2 w)) = of_pat w sg (N.lor acc x)).
      { intro x. rewrite Hc. rewrite <- (of_pat_mod w sg (N.lor acc x)) by exact Hw.
        rewrite <- (of_pat_mod w sg (N.lor _ _)) by exact Hw.
        rewrite (pow2_pow w Hw). rewrite <- lor_mod_pow2. rewrite N.mod_mod by (apply N.pow_nonzero; discriminate). reflexivity. }
      unfold varint_or. rewrite Hcur.
      rewrite wrap64_small by (unfold two63 in *; lia).
      destruct (b2n b <? 128)%N.
      * f_equal. lia.
      * rewrite (IH (shift + 7)%N (N.lor acc (N.shiftl (N.land (b2n b) 127) shift)) (S cnt) rest'); try lia.
        -- destruct (dec_varint_aux f _ _ (S cnt) rest') as [[[raw c'] r']|] eqn:E; [|reflexivity].
           apply dec_varint_aux_consumes in E. destruct E as (pre & _ & -> & _). f_equal. lia.
        -- apply to_pat_of_pat. exact Hw.
Qed.

(* ---------------------------------------------------------------- suffixes of the input by index *)
Lemma zskipn_nat {A} (k : Z) (l : list A) : 0 <= k <= Z.of_nat (length l) -> zskipn k l = skipn (Z.to_nat k) l.
Proof.
  intro H. unfold zskipn. destruct (Z.leb_spec k 0).
  - replace k with 0 by lia. reflexivity.
  - destruct (Z.leb_spec (Z.of_nat (length l)) k); [|reflexivity].
    rewrite skipn_all2 by lia. reflexivity.
Qed.
Lemma zfirstn_nat {A} (k : Z) (l : list A) : 0 <= k <= Z.of_nat (length l) -> zfirstn k l = firstn (Z.to_nat k) l.
Proof.
  intro H. unfold zfirstn. destruct (Z.leb_spec k 0).
  - replace k with 0 by lia. reflexivity.
  - destruct (Z.leb_spec (Z.of_nat (length l)) k); [|reflexivity].
    rewrite firstn_all2 by lia. reflexivity.
Qed.

Section Sfx.
  Variable data : list byte.
  Let dlen := Z.of_nat (length data).
  Definition sfx (z : Z) : list byte := skipn (Z.to_nat z) data.

  Lemma sfx_len z : 0 <= z <= dlen -> Z.of_nat (length (sfx z)) = dlen - z.
  Proof. intro H. unfold sfx. rewrite skipn_length. subst dlen. lia. Qed.
  Lemma sfx_0 : sfx 0 = data. Proof. reflexivity. Qed.
  Lemma sfx_skipn z k : 0 <= z -> 0 <= k -> skipn (Z.to_nat k) (sfx z) = sfx (z + k).
  Proof. intros Hz Hk. unfold sfx. rewrite skipn_skipn'. f_equal. lia. Qed.
  Lemma sfx_skipn_nat z k : 0 <= z -> skipn k (sfx z) = sfx (z + Z.of_nat k).
  Proof. intros Hz. rewrite <- sfx_skipn by lia. rewrite Nat2Z.id. reflexivity. Qed.
  Lemma sfx_zskipn z k : 0 <= z <= dlen -> 0 <= k <= dlen - z -> zskipn k (sfx z) = sfx (z + k).
  Proof. intros Hz Hk. rewrite zskipn_nat by (rewrite sfx_len; lia). apply sfx_skipn; lia. Qed.
  Lemma zskipn_data z : 0 <= z <= dlen -> zskipn z data = sfx z.
  Proof. intro H. rewrite zskipn_nat by (subst dlen; lia). reflexivity. Qed.
  Lemma sfx_nil z : 0 <= z <= dlen -> (sfx z = [] <-> z = dlen).
  Proof.
    intro H. pose proof (sfx_len z H) as Hl. split; intro E.
    - rewrite E in Hl. cbn in Hl. lia.
    - destruct (sfx z); [reflexivity|]. cbn [length] in Hl. lia.
  Qed.

  Lemma dec_varint_sfx z raw m r : 0 <= z <= dlen -> dec_varint (sfx z) = Some (raw, m, r) ->
    r = sfx (z + Z.of_nat m) /\ (1 <= m)%nat /\ z + Z.of_nat m <= dlen.
  Proof.
    intros Hz E. apply dec_varint_consumes in E. destruct E as (pre & Hp & -> & Hl1 & Hl2).
    assert (r = skipn (length pre) (sfx z)) as Hr.
    { rewrite Hp. rewrite skipn_app, skipn_all, Nat.sub_diag. reflexivity. }
    rewrite sfx_skipn_nat in Hr by lia. split; [exact Hr|]. split; [lia|].
    pose proof (sfx_len z Hz) as Hlen. rewrite Hp, app_length in Hlen. lia.
  Qed.
End Sfx.

(* ---------------------------------------------------------------- environments *)
Lemma env_restore_refl en : env_restore en en = en.
Proof. unfold env_restore. rewrite Nat.sub_diag. reflexivity. Qed.
Lemma env_restore_cons en x en' : (length en <= length en')%nat -> env_restore en (x :: en') = env_restore en en'.
Proof. intro H. unfold env_restore. cbn [length]. replace (S (length en') - length en)%nat with (S (length en' - length en)) by lia. reflexivity. Qed.

(* ---------------------------------------------------------------- slot lists *)
Lemma set_nth_length {A} (l : list A) : forall i x, length (set_nth l i x) = length l.
Proof. induction l as [|h t IH]; intros [|i] x; cbn; auto. Qed.
Lemma nth_error_set_nth {A} (l : list A) : forall i x, (i < length l)%nat -> nth_error (set_nth l i x) i = Some x.
Proof. induction l as [|h t IH]; intros [|i] x H; cbn in *; try lia; auto. apply IH. lia. Qed.
Lemma set_nth_set_nth {A} (l : list A) : forall i x y, set_nth (set_nth l i x) i y = set_nth l i y.
Proof. induction l as [|h t IH]; intros [|i] x y; cbn; auto. rewrite IH. reflexivity. Qed.
Lemma set_nth_same {A} (l : list A) : forall i x, nth_error l i = Some x -> set_nth l i x = l.
Proof. induction l as [|h t IH]; intros [|i] x H; cbn in *; try discriminate; [injection H as ->; reflexivity|]. rewrite IH by exact H. reflexivity. Qed.
Lemma nth_error_nth' {A} (l : list A) i x d : nth_error l i = Some x -> nth i l d = x.
Proof. revert i. induction l as [|h t IH]; intros [|i] H; cbn in *; try discriminate; [injection H as ->; reflexivity|]. apply IH. exact H. Qed.

Section Exec1.
  Variable sch : schema.
  Variable discard : bool.
  Variable child : child_t.
  Variable depth : Z.
  Variable fs : list field.
  Variable data : list byte.
  Variable lfuel : nat.
  Notation dlen := (Z.of_nat (length data)).
  Hypothesis Hlen : dlen < Z.of_N two63.

  Notation exec' := (exec sch discard child depth fs data dlen lfuel).
  Notation run' := (run_block sch discard child depth fs data dlen lfuel).
  Notation cond' := (cond sch discard depth fs data dlen).
  Notation eval' := (eval sch fs data dlen).
  Notation eval_int' := (eval_int sch fs data dlen).
  Notation atom' := (exec_atom sch child fs data dlen).
  Notation block' := (block sch discard child depth fs data dlen lfuel).
  Notation sfx' := (sfx data).
  Notation at_ z ss u := {| us_idx := z; us_rest := sfx data z; us_slots := ss; us_unk := u |}.

  Definition is_atom (s : ustmt) : bool :=
    match s with UsIf _ _ | UsIfElse _ _ _ | UsFor _ _ | UsSwitch _ _ _ => false | _ => true end.

  Lemma run_atom s b en st : is_atom s = true ->
    run' (s :: b) en st = match atom' s en st with XNext en' st' => run' b en' st' | r => r end.
  Proof. intro H. cbn [run_block]. destruct s; try discriminate H; reflexivity. Qed.

  Lemma run_if c body b en st :
    run' (UsIf c body :: b) en st =
    xlift (cond' c en st) (fun t => if t then match block' body en st with XNext en' st' => run' b en' st' | r => r end
                                    else run' b en st).
  Proof. cbn [run_block]. rewrite exec_if. destruct (cond' c en st) as [[|]| |]; reflexivity. Qed.

  Lemma run_ifelse c a a' b en st :
    run' (UsIfElse c a a' :: b) en st =
    xlift (cond' c en st) (fun t => match (if t then block' a en st else block' a' en st) with
                                    | XNext en' st' => run' b en' st' | r => r end).
  Proof. cbn [run_block]. rewrite exec_ifelse. destruct (cond' c en st) as [[|]| |]; reflexivity. Qed.

  Lemma run_for c body b en st :
    run' (UsFor c body :: b) en st =
    match for_loop sch discard child depth fs data dlen lfuel lfuel c body en st with
    | XNext en' st' => run' b en' st' | r => r end.
  Proof. cbn [run_block]. rewrite exec_for. reflexivity. Qed.

  (* `if c { return …, err }` *)
  Lemma run_if_ret c e b en st : e <> ErNil ->
    run' (UsIf c (u_ret e) :: b) en st = xlift (cond' c en st) (fun t => if t then XDone Err else run' b en st).
  Proof.
    intro He. rewrite run_if. destruct (cond' c en st) as [[|]| |]; cbn [xlift]; try reflexivity.
    unfold block, u_ret. cbn [run_block exec exec_atom leave]. destruct e; try reflexivity. congruence.
  Qed.

  (* ---- the state at an index *)
  Lemma set_idx_at z ss u z' : 0 <= z <= dlen -> 0 <= z' <= dlen ->
    set_idx data (at_ z ss u) z' = at_ z' ss u.
  Proof.
    intros Hz Hz'. unfold set_idx. cbn [us_idx us_rest us_slots us_unk]. f_equal.
    destruct (Z.leb_spec 0 z); [|lia]. cbn [andb]. destruct (Z.leb_spec z z').
    - rewrite sfx_zskipn by lia. f_equal. lia.
    - apply zskipn_data. lia.
  Qed.

  Lemma suffix_at_at z ss u : suffix_at data (at_ z ss u) z = sfx' z.
  Proof. unfold suffix_at. cbn [us_idx us_rest]. rewrite Z.eqb_refl. reflexivity. Qed.

  Lemma slice_at z ss u hi : 0 <= z -> z <= hi <= dlen ->
    slice data dlen (at_ z ss u) z hi = EOk (firstn (Z.to_nat (hi - z)) (sfx' z)).
  Proof.
    intros Hz Hh. unfold slice. rewrite suffix_at_at.
    destruct (Z.leb_spec 0 z); [|lia]. destruct (Z.leb_spec z hi); [|lia]. destruct (Z.leb_spec hi dlen); [|lia].
    cbn [andb]. rewrite zfirstn_nat by (rewrite sfx_len; lia). reflexivity.
  Qed.

  Lemma slice_from_at z ss u : 0 <= z <= dlen -> slice_from data dlen (at_ z ss u) z = EOk (sfx' z).
  Proof.
    intros Hz. unfold slice_from. rewrite suffix_at_at.
    destruct (Z.leb_spec 0 z); [|lia]. destruct (Z.leb_spec z dlen); [|lia]. reflexivity.
  Qed.
End Exec1.

(* ---------------------------------------------------------------- typed values of a varint / fixed read *)
Definition is_int (t : gty) : bool := match gty_int t with Some _ => true | None => false end.
Definition vint (t : gty) (raw : N) : Z := match gty_int t with Some (w, sg) => of_pat w sg raw | None => 0 end.
Lemma vint_U64 raw : vint GU64 raw = Z.of_N (u64 raw). Proof. reflexivity. Qed.
Lemma vint_U32 raw : vint GU32 raw = Z.of_N (u32 raw). Proof. reflexivity. Qed.
Lemma vint_I64 raw : vint GI64 raw = s64 raw. Proof. apply of_pat_64s. Qed.
Lemma vint_Int raw : vint GInt raw = s64 raw. Proof. apply of_pat_64s. Qed.
Lemma vint_I32 raw : vint GI32 raw = s32 raw. Proof. apply of_pat_32s. Qed.
Lemma vint_Enum raw : vint GEnum raw = s32 raw. Proof. apply of_pat_32s. Qed.

Lemma gty_int_w t w sg : gty_int t = Some (w, sg) -> w = 64%N \/ w = 32%N.
Proof. destruct t; cbn; intro H; inversion H; auto. Qed.

Lemma to_pat_ofN w x : to_pat w (Z.of_N x) = (x mod pow2 w)%N.
Proof. unfold to_pat. rewrite <- N2Z.inj_mod. apply N2Z.id. Qed.
Lemma gconv_ofN w sg x : w = 64%N \/ w = 32%N -> gconv w sg (Z.of_N x) = of_pat w sg x.
Proof. intro Hw. unfold gconv. rewrite to_pat_ofN. apply of_pat_mod. exact Hw. Qed.
Lemma gconv_vint t w sg x : gty_int t = Some (w, sg) -> gconv w sg (Z.of_N x) = vint t x.
Proof. intro H. unfold vint. rewrite H. apply gconv_ofN. eapply gty_int_w. exact H. Qed.

Lemma s64_u64 x : s64 (u64 x) = s64 x.
Proof. unfold s64, u64. rewrite N.mod_mod by discriminate. reflexivity. Qed.
Lemma s32_u32 x : s32 (u32 x) = s32 x.
Proof. unfold s32, u32. rewrite N.mod_mod by discriminate. reflexivity. Qed.
Lemma u64_u64 x : u64 (u64 x) = u64 x.
Proof. unfold u64. rewrite N.mod_mod by discriminate. reflexivity. Qed.
Lemma u64_lt x : (u64 x < two64)%N.
Proof. unfold u64. apply N.mod_upper_bound. discriminate. Qed.
Lemma u64_small x : (x < two64)%N -> u64 x = x.
Proof. intro H. unfold u64. apply N.mod_small. exact H. Qed.
Lemma u32_small x : (x < two32)%N -> u32 x = x.
Proof. intro H. unfold u32. apply N.mod_small. exact H. Qed.

Lemma s64_eq0 x : (s64 x =? 0) = (u64 x =? 0)%N.
Proof.
  unfold s64, u64. pose proof (N.mod_upper_bound x two64 ltac:(discriminate)) as H. set (y := (x mod two64)%N) in *.
  destruct (N.ltb_spec y two63); destruct (N.eqb_spec y 0); destruct (Z.eqb_spec (Z.of_N y) 0);
    destruct (Z.eqb_spec (Z.of_N y - Z.of_N two64) 0); try reflexivity; unfold two63, two64 in *; lia.
Qed.

Lemma z2u32_s32 x : z2u32 (s32 x) = u32 x.
Proof. rewrite <- of_pat_32s. change (z2u32 (of_pat 32 true x)) with (to_pat 32 (of_pat 32 true x)). rewrite to_pat_of_pat by auto. reflexivity. Qed.
Lemma z2u64_ofN x : z2u64 (Z.of_N x) = u64 x.
Proof. change (z2u64 (Z.of_N x)) with (to_pat 64 (Z.of_N x)). rewrite to_pat_ofN. reflexivity. Qed.

Lemma fieldnum_val a : gconv 32 true (Z.shiftr (Z.of_N a) (Z.of_N 3)) = s32 (a / 8).
Proof.
  rewrite Z.shiftr_div_pow2 by lia. change (2 ^ Z.of_N 3) with (Z.of_N 8). rewrite <- N2Z.inj_div.
  rewrite gconv_ofN by auto. apply of_pat_32s.
Qed.
Lemma wiretype_val a : gconv 64 true (Z.land (Z.of_N a) 7) = Z.of_N (a mod 8).
Proof.
  change 7 with (Z.ones 3). rewrite Z.land_ones by lia. change (2 ^ 3) with (Z.of_N 8). rewrite <- N2Z.inj_mod.
  rewrite gconv_ofN by auto. rewrite of_pat_64s. apply s64_small.
  pose proof (N.mod_upper_bound a 8 ltac:(discriminate)). unfold two63. lia.
Qed.
Lemma gconv_wrap64 z : gconv 64 true z = wrap64 z.
Proof. unfold gconv, wrap64. rewrite of_pat_64s. reflexivity. Qed.

Lemma zero_of_kind k : zero_of (kind_gty k) = zero_scalar k.
Proof. destruct k; reflexivity. Qed.

Section Exec2.
  Variable sch : schema.
  Variable discard : bool.
  Variable child : child_t.
  Variable depth : Z.
  Variable fs : list field.
  Variable data : list byte.
  Variable lfuel : nat.
  Notation dlen := (Z.of_nat (length data)).
  Hypothesis Hlen : dlen < Z.of_N two63.

  Notation exec' := (exec sch discard child depth fs data dlen lfuel).
  Notation run' := (run_block sch discard child depth fs data dlen lfuel).
  Notation cond' := (cond sch discard depth fs data dlen).
  Notation eval' := (eval sch fs data dlen).
  Notation eval_int' := (eval_int sch fs data dlen).
  Notation atom' := (exec_atom sch child fs data dlen).
  Notation block' := (block sch discard child depth fs data dlen lfuel).
  Notation for_loop' := (for_loop sch discard child depth fs data dlen lfuel).
  Notation sfx' := (sfx data).
  Notation at_ z ss u := {| us_idx := z; us_rest := sfx data z; us_slots := ss; us_unk := u |}.

  Lemma run_nil en st : run' [] en st = XNext en st.
  Proof. reflexivity. Qed.

  Lemma run_varint_var x t b en z ss u :
    var_int x en = EOk 0 -> is_int t = true -> 0 <= z <= dlen ->
    run' (UsVarint (TgVar x) t :: b) en (at_ z ss u) =
    match dec_varint (sfx' z) with
    | None => XDone Err
    | Some (raw, m, _) =>
      match env_set x (LV (VInt (vint t raw))) en with
      | Some en' => run' b en' (at_ (z + Z.of_nat m) ss u)
      | None => XStuck
      end
    end.
  Proof.
    intros Hx Ht Hz. rewrite run_atom by reflexivity. cbn [exec_atom]. unfold is_int, vint in *.
    destruct (gty_int t) as [[w sg]|] eqn:Eg; [|discriminate]. pose proof (gty_int_w _ _ _ Eg) as Hw.
    rewrite Hx. cbn [xlift us_idx us_rest us_slots us_unk].
    rewrite (varint_loop_spec w sg dlen Hw Hlen 10 0%N 0%N 0%nat (sfx' z) 0 z); try lia.
    - fold (dec_varint (sfx' z)). destruct (dec_varint (sfx' z)) as [[[raw m] r]|] eqn:Ed; [|reflexivity].
      destruct (dec_varint_sfx data z raw m r Hz Ed) as (-> & _ & _). rewrite Nat.sub_0_r.
      destruct (env_set x _ en); reflexivity.
    - destruct Hw as [-> | ->]; reflexivity.
    - rewrite sfx_len by lia. lia.
  Qed.

  Lemma run_varint_field i t b en z ss u f :
    plain_field fs i = Some f -> nth_error ss i = Some (VInt 0) -> is_int t = true -> 0 <= z <= dlen ->
    run' (UsVarint (TgField i) t :: b) en (at_ z ss u) =
    match dec_varint (sfx' z) with
    | None => XDone Err
    | Some (raw, m, _) => run' b en (at_ (z + Z.of_nat m) (set_nth ss i (VInt (vint t raw))) u)
    end.
  Proof.
    intros Hf Hs Ht Hz. rewrite run_atom by reflexivity. cbn [exec_atom]. unfold is_int, vint in *.
    destruct (gty_int t) as [[w sg]|] eqn:Eg; [|discriminate]. pose proof (gty_int_w _ _ _ Eg) as Hw.
    rewrite Hf. unfold slot. cbn [us_idx us_rest us_slots us_unk]. rewrite Hs.
    rewrite (varint_loop_spec w sg dlen Hw Hlen 10 0%N 0%N 0%nat (sfx' z) 0 z); try lia.
    - fold (dec_varint (sfx' z)). destruct (dec_varint (sfx' z)) as [[[raw m] r]|] eqn:Ed; [|reflexivity].
      destruct (dec_varint_sfx data z raw m r Hz Ed) as (-> & _ & _). rewrite Nat.sub_0_r. reflexivity.
    - destruct Hw as [-> | ->]; reflexivity.
    - rewrite sfx_len by lia. lia.
  Qed.

  Lemma run_idxset e b en z ss u z' :
    eval_int' e en (at_ z ss u) = EOk z' -> 0 <= z <= dlen -> 0 <= z' <= dlen ->
    run' (UsIdxSet e :: b) en (at_ z ss u) = run' b en (at_ z' ss u).
  Proof.
    intros He Hz Hz'. rewrite run_atom by reflexivity. cbn [exec_atom]. rewrite He. cbn [xlift].
    rewrite set_idx_at by assumption. reflexivity.
  Qed.

  Lemma run_idxadd e b en z ss u k :
    eval_int' e en (at_ z ss u) = EOk k -> 0 <= z <= dlen -> 0 <= z + k <= dlen ->
    run' (UsIdxAdd e :: b) en (at_ z ss u) = run' b en (at_ (z + k) ss u).
  Proof.
    intros He Hz Hz'. rewrite run_atom by reflexivity. cbn [exec_atom]. rewrite He. cbn [xlift us_idx].
    rewrite wrap64_small by lia. rewrite set_idx_at by assumption. reflexivity.
  Qed.

  (* if len < 0 {…}; post := iNdEx + len; if post < 0 {…}; if post > limit {…} *)
  Lemma uvar_eqb_refl x : uvar_eqb x x = true.
  Proof. unfold uvar_eqb. apply Nat.eqb_refl. Qed.

  Lemma run_lencheck len post limit b en z ss u L lim :
    eval_int' len en (at_ z ss u) = EOk L ->
    (forall v, eval_int' limit ((post, v) :: en) (at_ z ss u) = EOk lim) ->
    - Z.of_N two63 <= L < Z.of_N two63 -> 0 <= z <= dlen -> lim <= dlen ->
    run' (u_lencheck len post limit ++ b) en (at_ z ss u) =
    if L <? 0 then XDone Err
    else if lim - z <? L then XDone Err
    else run' b ((post, LV (VInt (z + L))) :: en) (at_ z ss u).
  Proof.
    intros He Hlim HL Hz Hl. unfold u_lencheck. cbn [app].
    rewrite run_if_ret by discriminate. cbn [cond]. rewrite He. unfold eval_int at 1. cbn [ebind eval as_int cmp_z xlift].
    destruct (Z.ltb_spec L 0); [reflexivity|].
    rewrite run_atom by reflexivity. cbn [exec_atom eval]. change (as_int (eval' len en (at_ z ss u))) with (eval_int' len en (at_ z ss u)).
    rewrite He. cbn [ebind eval as_int xlift us_idx].
    assert (Hp : forall v, eval_int' (u_v post) ((post, LV (VInt v)) :: en) (at_ z ss u) = EOk v).
    { intro v. unfold eval_int, u_v. cbn [eval env_get]. rewrite uvar_eqb_refl. reflexivity. }
    rewrite run_if_ret by discriminate. cbn [cond]. rewrite Hp. unfold eval_int at 1. cbn [ebind eval as_int cmp_z xlift].
    destruct (Z.ltb_spec (z + L) (Z.of_N two63)) as [Hs|Hs].
    - rewrite wrap64_small by lia. destruct (Z.ltb_spec (z + L) 0); [lia|].
      rewrite run_if_ret by discriminate. cbn [cond]. rewrite Hp, Hlim.
      cbn [ebind cmp_z xlift]. destruct (Z.ltb_spec lim (z + L)); destruct (Z.ltb_spec (lim - z) L); try lia; reflexivity.
    - pose proof (wrap64_big_neg (z + L) ltac:(unfold two63, two64 in *; lia)) as Hneg.
      destruct (Z.ltb_spec (wrap64 (z + L)) 0); [|lia].
      destruct (Z.ltb_spec (lim - z) L); [reflexivity|lia].
  Qed.
End Exec2.

#[export] Hint Rewrite vint_U64 vint_U32 vint_I64 vint_Int vint_I32 vint_Enum s64_u64 s32_u32 u64_u64 fieldnum_val wiretype_val
  z2u32_s32 z2u64_ofN s64_eq0 : vals.
#[export] Hint Rewrite gconv_ofN using (auto; fail) : vals.
#[export] Hint Rewrite of_pat_64s of_pat_32s of_pat_64u of_pat_32u : vals.

Definition putm (fs : list field) (md : imode) (oi i : nat) (v : val) (ss : list val) : list val :=
  match md with
  | ISing => set_nth ss i v
  | IRep => set_nth ss i (list_append (nth i ss VNil) v)
  | IOneof => set_nth (clear_oneof fs ss oi) i (VSome v)
  end.
Definition mode_ok (md : imode) (k : kind) (f : field) (s : val) (oi : nat) : Prop :=
  match md with
  | ISing => f_shape f = Singular /\ (k = KBytes -> s = VNil \/ exists b, s = VBytes b)
  | IRep => (exists p, f_shape f = Rep p) /\ (s = VNil \/ exists l, s = VList l)
  | IOneof => f_shape f = Member oi
  end.

Lemma at_eq data en A B S1 S2 u : A = B -> S1 = S2 ->
  XNext en {| us_idx := A; us_rest := sfx data A; us_slots := S1; us_unk := u |} =
  XNext en {| us_idx := B; us_rest := sfx data B; us_slots := S2; us_unk := u |}.
Proof. intros -> ->. reflexivity. Qed.

Ltac ev1 :=
  cbn [eval as_int ebind var_int env_get env_set uvar_eqb uvar_code b2nat Nat.eqb Nat.add cond cmp_z zero_of
       gty_int kind_gty lval_val u_v xlift us_idx us_rest us_slots us_unk slot set_slots set_unk u_put u_assign is_nil_val
       of_outcome leave].
Ltac ev := ev1; unfold slot, eval_int, set_slots, set_unk; ev1.

Lemma s64_rng x : - Z.of_N two63 <= s64 x < Z.of_N two63.
Proof. pose proof (s64_range x). unfold two63. lia. Qed.

Ltac zl := unfold two63, two64 in *; lia.

Ltac hyps :=
  repeat match goal with
         | H : plain_field ?fs ?i = _ |- context [plain_field ?fs ?i] => rewrite H
         | H : nth_error ?ss ?i = _ |- context [nth_error ?ss ?i] => rewrite H
         | H : f_shape ?f = _ |- context [f_shape ?f] => rewrite H
         | H : f_ty ?f = _ |- context [f_ty ?f] => rewrite H
         | |- context [nth_error (set_nth ?ss ?i ?v) ?i] => rewrite (nth_error_set_nth ss i v) by lia
         end.

Ltac atom :=
  lazymatch goal with
  | |- context [run_block ?a1 ?a2 ?a3 ?a4 ?a5 ?a6 ?a7 ?a8 (?s :: ?b) ?en ?st] =>
    rewrite (run_atom a1 a2 a3 a4 a5 a6 a8 s b en st) by reflexivity; unfold exec_atom; cbv beta iota; ev; hyps; ev
  end.

Ltac ifret :=
  lazymatch goal with
  | |- context [run_block ?a1 ?a2 ?a3 ?a4 ?a5 ?a6 ?a7 ?a8 (UsIf ?c (u_ret ?e) :: ?b) ?en ?st] =>
    rewrite (run_if_ret a1 a2 a3 a4 a5 a6 a8 c e b en st) by discriminate; ev
  end.

Ltac side := first [eassumption | reflexivity | (intro; reflexivity) | apply s64_rng | lia | zl | (apply nth_error_set_nth; lia)].
Ltac idxset := erewrite run_idxset; [|side ..].
Ltac idxadd := erewrite run_idxadd; [|side ..].
Ltac lencheck := erewrite run_lencheck; [|side ..].
Ltac feq := repeat lazymatch goal with
  | |- @eq Z _ _ => fail
  | |- @eq nat _ _ => fail
  | |- @eq N _ _ => fail
  | |- _ => progress f_equal end.
Ltac modes md Hm Hf fs i f :=
  let Hsh := fresh "Hsh" in let Hx := fresh "Hx" in let Hpf := fresh "Hpf" in let p := fresh "p" in let l := fresh "l" in
  destruct md; cbn [mode_ok] in Hm;
  [ rename Hm into Hsh | destruct Hm as [[p Hsh] [-> | [l ->]]] | destruct Hm as [Hsh Hx] ];
  try (assert (Hpf : plain_field fs i = Some f) by (unfold plain_field; rewrite Hf, Hsh; reflexivity)).
Ltac done_env :=
  cbn [run_block leave]; repeat (rewrite env_restore_cons by (cbn [length]; lia)); rewrite ?env_restore_refl.

Ltac fin Hs :=
  done_env; cbn [putm varint_val fixed_val]; rewrite ?sfx_skipn, ?sfx_len by lia; autorewrite with vals;
  try rewrite (nth_error_nth' _ _ _ VNil Hs); rewrite ?set_nth_set_nth; apply at_eq; [lia|feq; try lia].

Section Exec3.
  Variable sch : schema.
  Variable discard : bool.
  Variable child : child_t.
  Variable depth : Z.
  Variable fs : list field.
  Variable data : list byte.
  Variable lfuel : nat.
  Notation dlen := (Z.of_nat (length data)).
  Hypothesis Hlen : dlen < Z.of_N two63.
  Hypothesis Hlen8 : dlen + 8 < Z.of_N two63.

  Notation exec' := (exec sch discard child depth fs data dlen lfuel).
  Notation run' := (run_block sch discard child depth fs data dlen lfuel).
  Notation cond' := (cond sch discard depth fs data dlen).
  Notation eval' := (eval sch fs data dlen).
  Notation eval_int' := (eval_int sch fs data dlen).
  Notation atom' := (exec_atom sch child fs data dlen).
  Notation block' := (block sch discard child depth fs data dlen lfuel).
  Notation for_loop' := (for_loop sch discard child depth fs data dlen lfuel).
  Notation sfx' := (sfx data).
  Notation at_ z ss u := {| us_idx := z; us_rest := sfx data z; us_slots := ss; us_unk := u |}.

  Lemma take_fixed_sfx k z : 0 <= z <= dlen ->
    take_fixed k (sfx' z) = if dlen <? z + Z.of_nat k then None else Some (dec_le (firstn k (sfx' z)), sfx' (z + Z.of_nat k)).
  Proof.
    intro Hz. unfold take_fixed. pose proof (sfx_len data z Hz) as Hl.
    destruct (Nat.ltb_spec (length (sfx' z)) k); destruct (Z.ltb_spec dlen (z + Z.of_nat k)); try lia; [reflexivity|].
    rewrite sfx_skipn_nat by lia. reflexivity.
  Qed.

  Lemma run_fixed_var (w8 : bool) x t b en z ss u v0 :
    is_int t = true -> env_get x en = Some v0 -> 0 <= z <= dlen ->
    run' ((if w8 then u_fixed64 (TgVar x) t else u_fixed32 (TgVar x) t) ++ b) en (at_ z ss u) =
    match take_fixed (if w8 then 8 else 4) (sfx' z) with
    | None => XDone Err
    | Some (n, _) =>
      match env_set x (LV (VInt (vint t n))) en with
      | Some en' => run' b en' (at_ (z + (if w8 then 8 else 4)) ss u)
      | None => XStuck
      end
    end.
  Proof.
    intros Ht Hx Hz. unfold is_int in Ht. destruct (gty_int t) as [[w sg]|] eqn:Eg; [|discriminate].
    pose proof (sfx_len data z Hz) as Hl.
    destruct w8; unfold u_fixed64, u_fixed32; cbn [app]; rewrite take_fixed_sfx by lia;
      ifret; rewrite wrap64_small by lia; cbn [Z.of_nat Pos.of_succ_nat Pos.succ].
    - destruct (Z.ltb_spec dlen (z + 8)); [reflexivity|].
      atom. rewrite Eg. ev. rewrite slice_from_at by lia. ev.
      destruct (Nat.ltb_spec (length (sfx' z)) 8); [lia|]. ev. rewrite (gconv_vint t) by exact Eg.
      destruct (env_set x _ en) as [en'|]; [|reflexivity].
      idxadd; reflexivity.
    - destruct (Z.ltb_spec dlen (z + 4)); [reflexivity|].
      atom. rewrite Eg. ev. rewrite slice_from_at by lia. ev.
      destruct (Nat.ltb_spec (length (sfx' z)) 4); [lia|]. ev. rewrite (gconv_vint t) by exact Eg.
      destruct (env_set x _ en) as [en'|]; [|reflexivity].
      idxadd; reflexivity.
  Qed.

  Lemma run_fixed_field (w8 : bool) i f s t b en z ss u :
    is_int t = true -> plain_field fs i = Some f -> nth_error ss i = Some s -> 0 <= z <= dlen ->
    run' ((if w8 then u_fixed64 (TgField i) t else u_fixed32 (TgField i) t) ++ b) en (at_ z ss u) =
    match take_fixed (if w8 then 8 else 4) (sfx' z) with
    | None => XDone Err
    | Some (n, _) => run' b en (at_ (z + (if w8 then 8 else 4)) (set_nth ss i (VInt (vint t n))) u)
    end.
  Proof.
    intros Ht Hpf Hs Hz. unfold is_int in Ht. destruct (gty_int t) as [[w sg]|] eqn:Eg; [|discriminate].
    pose proof (sfx_len data z Hz) as Hl.
    destruct w8; unfold u_fixed64, u_fixed32; cbn [app]; rewrite take_fixed_sfx by lia;
      ifret; rewrite wrap64_small by lia; cbn [Z.of_nat Pos.of_succ_nat Pos.succ].
    - destruct (Z.ltb_spec dlen (z + 8)); [reflexivity|].
      atom. rewrite Eg. ev. rewrite slice_from_at by lia. ev.
      destruct (Nat.ltb_spec (length (sfx' z)) 8); [lia|]. ev. rewrite (gconv_vint t) by exact Eg.
      idxadd; reflexivity.
    - destruct (Z.ltb_spec dlen (z + 4)); [reflexivity|].
      atom. rewrite Eg. ev. rewrite slice_from_at by lia. ev.
      destruct (Nat.ltb_spec (length (sfx' z)) 4); [lia|]. ev. rewrite (gconv_vint t) by exact Eg.
      idxadd; reflexivity.
  Qed.

  Definition run_fixed64_var := run_fixed_var true.
  Definition run_fixed32_var := run_fixed_var false.
  Definition run_fixed64_field := run_fixed_field true.
  Definition run_fixed32_field := run_fixed_field false.

  Lemma take_fixed_inv k z n r : 0 <= z <= dlen -> take_fixed k (sfx' z) = Some (n, r) ->
    r = sfx' (z + Z.of_nat k) /\ z + Z.of_nat k <= dlen /\ (n < 256 ^ N.of_nat k)%N.
  Proof.
    intros Hz E. pose proof (take_fixed_val _ _ _ _ E) as Hb. rewrite take_fixed_sfx in E by lia.
    destruct (Z.ltb_spec dlen (z + Z.of_nat k)); [discriminate|]. injection E as _ <-. auto.
  Qed.

  Definition item_scalar_stmt (md : imode) (k : kind) : Prop :=
    forall i f s oi en z ss u,
    0 <= z <= dlen -> nth_error fs i = Some f -> nth_error ss i = Some s -> mode_ok md k f s oi ->
    block' (u_item_scalar md i k) en (at_ z ss u) =
    match dec_scalar k (sfx' z) with
    | None => XDone Err
    | Some (v, r) => XNext en (at_ (dlen - Z.of_nat (length r)) (putm fs md oi i v ss) u)
    end.

  Lemma item_KString md : item_scalar_stmt md KString.
  Proof.
    intros i f s oi en z ss u Hz Hf Hs Hm.
    assert (Hi : (i < length ss)%nat) by (apply nth_error_Some; congruence).
    unfold block, u_item_scalar. cbn [app].
    atom. rewrite run_varint_var by side.
    cbn [dec_scalar]. unfold take_len.
    destruct (dec_varint (sfx' z)) as [[[raw m] r1]|] eqn:Ed; [|reflexivity].
    destruct (dec_varint_sfx data z raw m r1 Hz Ed) as (-> & Hm1 & Hm2).
    ev. atom. autorewrite with vals. lencheck.
    rewrite sfx_len by lia.
    destruct (s64 raw <? 0) eqn:E1; [reflexivity|].
    destruct (dlen - (z + Z.of_nat m) <? s64 raw) eqn:E2; [reflexivity|].
    destruct md; cbn [mode_ok] in Hm.
    - rename Hm into Hsh.
      atom. rewrite slice_at by lia. ev. idxset.
      done_env. cbn [putm]. rewrite sfx_skipn, sfx_len by lia. apply at_eq; [lia|feq; lia].
    - destruct Hm as [[p Hsh] Hx].
      assert (Hpf : plain_field fs i = Some f) by (unfold plain_field; rewrite Hf, Hsh; reflexivity).
      destruct Hx as [-> | [l ->]]; atom; rewrite slice_at by lia; ev; idxset;
      done_env; cbn [putm]; rewrite sfx_skipn, sfx_len by lia; rewrite (nth_error_nth' ss i _ VNil Hs);
      (apply at_eq; [lia|feq; lia]).
    - destruct Hm as [Hsh Hx].
      assert (Hpf : plain_field fs i = Some f) by (unfold plain_field; rewrite Hf, Hsh; reflexivity).
      atom. rewrite slice_at by lia. ev. idxset.
      done_env. cbn [putm]. rewrite sfx_skipn, sfx_len by lia. apply at_eq; [lia|feq; lia].
  Qed.

  Lemma item_varint md k : match k with KInt64 | KUint64 | KInt32 | KUint32 | KEnum => True | _ => False end ->
    item_scalar_stmt md k.
  Proof.
    intros Hk i f s oi en z ss u Hz Hf Hs Hm.
    assert (Hi : (i < length ss)%nat) by (apply nth_error_Some; congruence).
    unfold block.
    destruct k; try contradiction; unfold u_item_scalar; cbn [dec_scalar kind_gty];
    (modes md Hm Hf fs i f;
     [ atom; rewrite run_varint_var by side
     | atom; rewrite run_varint_var by side
     | atom; rewrite run_varint_var by side
     | atom; erewrite run_varint_field; [|side ..] ];
     (destruct (dec_varint (sfx' z)) as [[[raw m] r1]|] eqn:Ed; [|reflexivity]);
     destruct (dec_varint_sfx data z raw m r1 Hz Ed) as (-> & Hm1 & Hm2);
     ev; try atom; fin Hs).
  Qed.

  Lemma item_varint2 md k : match k with KBool | KSint32 | KSint64 => True | _ => False end ->
    item_scalar_stmt md k.
  Proof.
    intros Hk i f s oi en z ss u Hz Hf Hs Hm.
    assert (Hi : (i < length ss)%nat) by (apply nth_error_Some; congruence).
    unfold block.
    destruct k; try contradiction; unfold u_item_scalar; cbn [dec_scalar kind_gty app];
    (modes md Hm Hf fs i f; atom; rewrite run_varint_var by side;
     (destruct (dec_varint (sfx' z)) as [[[raw m] r1]|] eqn:Ed; [|reflexivity]);
     destruct (dec_varint_sfx data z raw m r1 Hz Ed) as (-> & Hm1 & Hm2);
     ev; repeat atom; fin Hs).
  Qed.

  Lemma to_pat64_small n : (n < two64)%N -> to_pat 64 (Z.of_N n) = n.
  Proof. intro H. rewrite to_pat_ofN. change (pow2 64) with two64. apply N.mod_small. exact H. Qed.
  Lemma to_pat32_small n : (n < two32)%N -> to_pat 32 (Z.of_N n) = n.
  Proof. intro H. rewrite to_pat_ofN. change (pow2 32) with two32. apply N.mod_small. exact H. Qed.

  Lemma item_fixed md k : match k with KFixed64 | KSfixed64 | KFixed32 | KSfixed32 | KDouble | KFloat => True | _ => False end ->
    item_scalar_stmt md k.
  Proof.
    intros Hk i f s oi en z ss u Hz Hf Hs Hm.
    assert (Hi : (i < length ss)%nat) by (apply nth_error_Some; congruence).
    unfold block.
    destruct k; try contradiction; unfold u_item_scalar; cbn [dec_scalar kind_gty app];
    (modes md Hm Hf fs i f; atom;
     try (rewrite <- (app_nil_r (u_fixed64 (TgField _) _))); try (rewrite <- (app_nil_r (u_fixed32 (TgField _) _)));
     first [ erewrite run_fixed64_var; [|side ..] | erewrite run_fixed32_var; [|side ..]
           | erewrite run_fixed64_field; [|side ..] | erewrite run_fixed32_field; [|side ..] ];
     match goal with |- context [take_fixed ?k (sfx' z)] =>
       destruct (take_fixed k (sfx' z)) as [[n r]|] eqn:Et; [|reflexivity];
       destruct (take_fixed_inv k z n r Hz Et) as (-> & Hz8 & Hb) end;
     try rewrite pow256_8 in Hb; try rewrite pow256_4 in Hb;
     ev; repeat atom; fin Hs;
     try (rewrite u64_small by assumption); try (rewrite u32_small by assumption);
     try (rewrite to_pat64_small by assumption); try (rewrite to_pat32_small by assumption); try reflexivity).
  Qed.

  Lemma go_copy_fresh n bs : length bs = n -> go_copy (repeat x00 n) bs = bs.
  Proof.
    intro H. unfold go_copy. rewrite repeat_length, H, Nat.min_id. rewrite <- H at 1. rewrite firstn_all.
    rewrite skipn_all2 by (rewrite repeat_length; lia). apply app_nil_r.
  Qed.
  Lemma set_last_snoc l x y : set_last (l ++ [x]) y = l ++ [y].
  Proof. induction l as [|h t IH]; [reflexivity|]. cbn [app set_last]. rewrite IH. destruct (t ++ [x]) eqn:E; [destruct t; discriminate|reflexivity]. Qed.
  Lemma firstn_sfx_len z L : 0 <= z <= dlen -> 0 <= L <= dlen - z -> length (firstn (Z.to_nat L) (sfx' z)) = Z.to_nat L.
  Proof. intros Hz HL. rewrite firstn_length. pose proof (sfx_len data z Hz). lia. Qed.

  Lemma item_KBytes md : item_scalar_stmt md KBytes.
  Proof.
    intros i f s oi en z ss u Hz Hf Hs Hm.
    assert (Hi : (i < length ss)%nat) by (apply nth_error_Some; congruence).
    unfold block, u_item_scalar. cbn [app].
    atom. rewrite run_varint_var by side.
    cbn [dec_scalar]. unfold take_len.
    destruct (dec_varint (sfx' z)) as [[[raw m] r1]|] eqn:Ed; [|reflexivity].
    destruct (dec_varint_sfx data z raw m r1 Hz Ed) as (-> & Hm1 & Hm2).
    ev. autorewrite with vals. lencheck.
    rewrite sfx_len by lia.
    destruct (Z.ltb_spec (s64 raw) 0) as [|E1]; [reflexivity|].
    destruct (Z.ltb_spec (dlen - (z + Z.of_nat m)) (s64 raw)) as [|E2]; [reflexivity|].
    remember (z + Z.of_nat m) as z1 eqn:Ez1. remember (s64 raw) as L eqn:EL.
    assert (HL : length (firstn (Z.to_nat L) (sfx' z1)) = Z.to_nat L) by (apply firstn_sfx_len; lia).
    modes md Hm Hf fs i f; cbn [app].
    - atom. rewrite wrap64_small by lia. destruct (Z.ltb_spec (z1 + L - z1) 0); [lia|]. ev.
      atom. rewrite slice_at by lia. ev. replace (z1 + L - z1) with L by lia. rewrite go_copy_fresh by exact HL.
      atom. idxset. fin Hs.
    - atom. rewrite wrap64_small by lia. destruct (Z.ltb_spec (z1 + L - z1) 0); [lia|]. ev.
      atom. rewrite slice_at by lia. ev. replace (z1 + L - z1) with L by lia. cbn [list_append last]. rewrite go_copy_fresh by exact HL.
      cbn [set_last]. idxset. fin Hs.
    - atom. rewrite wrap64_small by lia. destruct (Z.ltb_spec (z1 + L - z1) 0); [lia|]. ev.
      atom. rewrite slice_at by lia. ev. replace (z1 + L - z1) with L by lia. cbn [list_append]. rewrite last_last. rewrite go_copy_fresh by exact HL.
      rewrite set_last_snoc. idxset. fin Hs.
    - atom. rewrite slice_at by lia. ev. replace (z1 + L - z1) with L by lia.
      remember (firstn (Z.to_nat L) (sfx' z1)) as bs eqn:Ebs.
      destruct (Hx eq_refl) as [-> | [b0 ->]].
      + destruct bs as [|b1 bs'].
        * rewrite run_if. ev. hyps. ev. unfold block. atom. rewrite run_nil. ev. rewrite env_restore_refl.
          idxset. fin Hs.
        * rewrite run_if. ev. hyps. ev. idxset. fin Hs.
      + rewrite run_if. ev. hyps. ev. idxset. fin Hs.
  Qed.

  Lemma item_scalar md k : item_scalar_stmt md k.
  Proof.
    destruct k; first [apply item_KString | apply item_KBytes | apply item_varint; exact I | apply item_varint2; exact I
                      | apply item_fixed; exact I].
  Qed.

  (* ---- message items *)
  Hypothesis Hchild_nil : forall m mdm bs, get_msg sch m = Some mdm -> child m VNil bs = child m (empty_msg mdm) bs.

  Definition target_of (md : imode) (s : val) : val :=
    match md with ISing => s | IRep => VNil | IOneof => match s with VSome p => p | _ => VNil end end.
  Definition mode_ok_msg (md : imode) (f : field) (s : val) (oi : nat) : Prop :=
    match md with
    | ISing => f_shape f = Singular /\ (s = VNil \/ exists ss' u', s = VMsg ss' u')
    | IRep => (exists p, f_shape f = Rep p) /\ (s = VNil \/ exists l, s = VList l)
    | IOneof => f_shape f = Member oi /\ (s = VNil \/ s = VSome VNil \/ exists ss' u', s = VSome (VMsg ss' u'))
    end.

  Lemma run_msg_header b en z ss u :
    0 <= z <= dlen ->
    run' (u_msg_header ++ b) en (at_ z ss u) =
    match dec_varint (sfx' z) with
    | None => XDone Err
    | Some (raw, m, _) =>
      if s64 raw <? 0 then XDone Err
      else if dlen - (z + Z.of_nat m) <? s64 raw then XDone Err
      else run' b ((UvPostIndex, LV (VInt (z + Z.of_nat m + s64 raw))) :: (UvMsglen, LV (VInt (s64 raw))) :: en)
                (at_ (z + Z.of_nat m) ss u)
    end.
  Proof.
    intro Hz. unfold u_msg_header. rewrite <- app_assoc. cbn [app].
    atom. rewrite run_varint_var by side.
    destruct (dec_varint (sfx' z)) as [[[raw m] r1]|] eqn:Ed; [|reflexivity].
    destruct (dec_varint_sfx data z raw m r1 Hz Ed) as (-> & Hm1 & Hm2).
    ev. autorewrite with vals. lencheck. reflexivity.
  Qed.

  Lemma item_msg md i m mdm f s oi en z ss u :
    0 <= z <= dlen -> nth_error fs i = Some f -> f_ty f = TMsg m -> get_msg sch m = Some mdm ->
    nth_error ss i = Some s -> mode_ok_msg md f s oi ->
    block' (u_item_msg md i m) en (at_ z ss u) =
    match dec_item child (TMsg m) (target_of md s) (sfx' z) with
    | Ok (v, r) => XNext en (at_ (dlen - Z.of_nat (length r)) (putm fs md oi i v ss) u)
    | Err => XDone Err | Panic => XDone Panic | OutOfFuel => XDone OutOfFuel
    end.
  Proof.
    intros Hz Hf Hty Hg Hs Hm.
    assert (Hi : (i < length ss)%nat) by (apply nth_error_Some; congruence).
    unfold block, u_item_msg. rewrite run_msg_header by lia.
    cbn [dec_item]. unfold take_len.
    destruct (dec_varint (sfx' z)) as [[[raw m0] r1]|] eqn:Ed; [|reflexivity].
    destruct (dec_varint_sfx data z raw m0 r1 Hz Ed) as (-> & Hm1 & Hm2).
    rewrite sfx_len by lia.
    destruct (Z.ltb_spec (s64 raw) 0) as [|E1]; [reflexivity|].
    destruct (Z.ltb_spec (dlen - (z + Z.of_nat m0)) (s64 raw)) as [|E2]; [reflexivity|].
    remember (z + Z.of_nat m0) as z1 eqn:Ez1. remember (s64 raw) as L eqn:EL.
    destruct md; cbn [mode_ok_msg target_of app] in *.
    - (* oneof *) destruct Hm as [Hsh Hx].
      atom. rewrite Hg. ev. atom.
      destruct Hx as [-> | [-> | (ss' & u' & ->)]]; ev.
      + atom. rewrite slice_at by lia. ev. unfold empty_msg at 1. ev. fold (empty_msg mdm).
        replace (z1 + L - z1) with L by lia. rewrite (Hchild_nil m mdm) by exact Hg.
        destruct (child m (empty_msg mdm) _) as [v| | |]; ev; try reflexivity.
        atom. idxset. fin Hs.
      + atom. rewrite slice_at by lia. ev. unfold empty_msg at 1. ev. fold (empty_msg mdm).
        replace (z1 + L - z1) with L by lia. rewrite (Hchild_nil m mdm) by exact Hg.
        destruct (child m (empty_msg mdm) _) as [v| | |]; ev; try reflexivity.
        atom. idxset. fin Hs.
      + atom. rewrite slice_at by lia. ev.
        replace (z1 + L - z1) with L by lia.
        destruct (child m (VMsg ss' u') _) as [v| | |]; ev; try reflexivity.
        atom. idxset. fin Hs.
    - (* repeated *) destruct Hm as [[p Hsh] Hx].
      assert (Hpf : plain_field fs i = Some f) by (unfold plain_field; rewrite Hf, Hsh; reflexivity).
      rewrite (Hchild_nil m mdm) by exact Hg.
      destruct Hx as [-> | [l ->]].
      + atom. rewrite Hg. ev. atom. rewrite slice_at by lia. ev. cbn [list_append last]. unfold empty_msg at 1. ev. fold (empty_msg mdm).
        replace (z1 + L - z1) with L by lia.
        destruct (child m (empty_msg mdm) _) as [v| | |]; ev; try reflexivity.
        cbn [set_last]. idxset. fin Hs.
      + atom. rewrite Hg. ev. atom. rewrite slice_at by lia. ev. cbn [list_append]. rewrite last_last. unfold empty_msg at 1. ev. fold (empty_msg mdm).
        replace (z1 + L - z1) with L by lia.
        destruct (child m (empty_msg mdm) _) as [v| | |]; ev; try reflexivity.
        rewrite set_last_snoc. idxset. fin Hs.
    - (* singular *) destruct Hm as [Hsh Hx].
      assert (Hpf : plain_field fs i = Some f) by (unfold plain_field; rewrite Hf, Hsh; reflexivity).
      rewrite run_if. ev. hyps. ev.
      destruct Hx as [-> | (ss' & u' & ->)]; ev.
      + unfold block. atom. rewrite Hg. ev. rewrite run_nil. ev. rewrite env_restore_refl.
        atom. rewrite slice_at by lia. ev. unfold empty_msg at 1. ev. fold (empty_msg mdm).
        replace (z1 + L - z1) with L by lia. rewrite (Hchild_nil m mdm) by exact Hg.
        destruct (child m (empty_msg mdm) _) as [v| | |]; ev; try reflexivity.
        idxset. fin Hs.
      + atom. rewrite slice_at by lia. ev.
        replace (z1 + L - z1) with L by lia.
        destruct (child m (VMsg ss' u') _) as [v| | |]; ev; try reflexivity.
        idxset. fin Hs.
  Qed.
End Exec3.

(* ---------------------------------------------------------------- Skip: upper bound of the result *)
Lemma skip_step_upper rest idx depth r i d :
  skip_step rest idx depth = SNext r i d -> 0 <= idx ->
  i < Z.of_N two63 \/ i <= idx + Z.of_nat (length rest) + 8.
Proof.
  unfold skip_step.
  destruct (dec_varint rest) as [[[wire n] rest1]|] eqn:Ed; [|discriminate].
  apply dec_varint_consumes in Ed. destruct Ed as (pre & Hpre & Hn & Hlen).
  assert (Hl1 : length rest = (length pre + length rest1)%nat) by (rewrite Hpre, app_length; reflexivity).
  cbv zeta.
  destruct (N.land (u64 wire) 7 =? 0)%N.
  { destruct (skip_varint rest1) as [[n2 rest2]|] eqn:Es; [|discriminate].
    apply skip_varint_aux_consumes in Es. destruct Es as (pre2 & Hp2 & Hn2 & Hl2).
    assert (length rest1 = (length pre2 + length rest2)%nat) by (rewrite Hp2, app_length; reflexivity).
    intro E. injection E as <- <- <-. intros _. right. lia. }
  destruct (N.land (u64 wire) 7 =? 1)%N.
  { intro E. injection E as <- <- <-. intros _. right. lia. }
  destruct (N.land (u64 wire) 7 =? 2)%N.
  { destruct (dec_varint rest1) as [[[raw n2] rest2]|] eqn:Ed2; [|discriminate].
    destruct (Z.ltb_spec (s64 raw) 0) as [|Hlen0]; [discriminate|].
    intro E. injection E as <- <- <-. intros _. left.
    unfold wrap64. apply s64_lt. }
  destruct (N.land (u64 wire) 7 =? 3)%N.
  { intro E. injection E as <- <- <-. intros _. right. lia. }
  destruct (N.land (u64 wire) 7 =? 4)%N.
  { destruct (depth =? 0)%N; [discriminate|].
    intro E. injection E as <- <- <-. intros _. right. lia. }
  destruct (N.land (u64 wire) 7 =? 5)%N; [|discriminate].
  intro E. injection E as <- <- <-. intros _. right. lia.
Qed.

Lemma skip_loop_upper fuel : forall rest idx depth n,
  0 <= idx -> (rest <> [] -> idx + Z.of_nat (length rest) < Z.of_N two63) ->
  skip_loop fuel rest idx depth = Ok n -> n < Z.of_N two63 + 8.
Proof.
  induction fuel as [|f IH]; intros rest idx depth n Hidx Hinv; cbn [skip_loop]; [discriminate|].
  destruct rest as [|b t] eqn:Er; [discriminate|]. rewrite <- Er in *.
  assert (Hne : rest <> []) by (rewrite Er; discriminate). specialize (Hinv Hne).
  destruct (skip_step rest idx depth) as [|r i d] eqn:Es; [discriminate|].
  pose proof (skip_step_upper _ _ _ _ _ _ Es Hidx) as Hup.
  apply skip_step_next in Es. destruct Es as [Hl Hmove]. specialize (Hmove Hidx Hinv).
  destruct (Z.ltb_spec i 0) as [|Hi]; [discriminate|].
  destruct Hmove as [?|[Hlt Hsuf]]; [lia|].
  destruct (d =? 0)%N.
  - intro E. injection E as <-. lia.
  - intro E. apply IH in E; [lia|lia|]. intro Hr. specialize (Hsuf Hr). lia.
Qed.

Lemma Skip_upper bs n : Z.of_nat (length bs) < Z.of_N two63 -> Skip bs = Ok n -> 1 <= n < Z.of_N two63 + 8.
Proof.
  intros Hl H. split; [eapply Skip_progress; eassumption|].
  unfold Skip in H. eapply skip_loop_upper in H; [exact H|lia|]. intros _. lia.
Qed.

Lemma Skip_ok_or_err bs : (exists n, Skip bs = Ok n) \/ Skip bs = Err.
Proof.
  unfold Skip. destruct (skip_loop (S (length bs)) bs 0 0) as [n| | |] eqn:E; [left; eexists; reflexivity|right; reflexivity| |].
  - exfalso. eapply skip_loop_not_panic. exact E.
  - exfalso. eapply skip_loop_enough_fuel; [|exact E]. lia.
Qed.

Section Exec4.
  Variable sch : schema.
  Variable discard : bool.
  Variable child : child_t.
  Variable depth : Z.
  Variable fs : list field.
  Variable data : list byte.
  Variable lfuel : nat.
  Notation dlen := (Z.of_nat (length data)).
  Hypothesis Hlen : dlen < Z.of_N two63.
  Hypothesis Hlen8 : dlen + 8 < Z.of_N two63.

  Notation exec' := (exec sch discard child depth fs data dlen lfuel).
  Notation run' := (run_block sch discard child depth fs data dlen lfuel).
  Notation cond' := (cond sch discard depth fs data dlen).
  Notation eval' := (eval sch fs data dlen).
  Notation eval_int' := (eval_int sch fs data dlen).
  Notation atom' := (exec_atom sch child fs data dlen).
  Notation block' := (block sch discard child depth fs data dlen lfuel).
  Notation for_loop' := (for_loop sch discard child depth fs data dlen lfuel).
  Notation sfx' := (sfx data).
  Notation at_ z ss u := {| us_idx := z; us_rest := sfx data z; us_slots := ss; us_unk := u |}.

  (* iNdEx = back; skippy, err := runtime.Skip(dAtA[iNdEx:]); the two bounds checks *)
  Lemma run_skip back limit b en z0 z ss u lim :
    env_get back en = Some (LV (VInt z0)) ->
    (forall v, eval_int' limit ((UvSkippy, v) :: en) (at_ z0 ss u) = EOk lim) ->
    0 <= z0 <= dlen -> 0 <= z <= dlen -> lim <= dlen ->
    run' (u_skip back limit ++ b) en (at_ z ss u) =
    match Skip (sfx' z0) with
    | Ok skippy => if lim - z0 <? skippy then XDone Err
                   else run' b ((UvSkippy, LV (VInt skippy)) :: en) (at_ z0 ss u)
    | _ => XDone Err
    end.
  Proof.
    intros Hb Hlim Hz0 Hz Hl. unfold u_skip. cbn [app].
    erewrite run_idxset; [| |exact Hz|exact Hz0]. 2:{ unfold eval_int, u_v. cbn [eval]. rewrite Hb. reflexivity. }
    atom. rewrite slice_from_at by lia. ev.
    destruct (Skip_ok_or_err (sfx' z0)) as [[n Hn]|Hn]; rewrite Hn; ev; [|reflexivity].
    pose proof (Skip_upper (sfx' z0) n) as Hup. rewrite sfx_len in Hup by lia. specialize (Hup ltac:(lia) Hn).
    rewrite run_if_ret by discriminate. ev.
    destruct (Z.ltb_spec n 0); [lia|]. ev.
    destruct (Z.ltb_spec (z0 + n) (Z.of_N two63)) as [Hs|Hs].
    - rewrite wrap64_small by lia. destruct (Z.ltb_spec (z0 + n) 0); [lia|]. ev.
      rewrite run_if_ret by discriminate. cbn [cond]. rewrite Hlim. ev. rewrite wrap64_small by lia. ev. destruct (Z.ltb_spec lim (z0 + n)); destruct (Z.ltb_spec (lim - z0) n); try lia; reflexivity.
    - pose proof (wrap64_big_neg (z0 + n) ltac:(zl)) as Hneg.
      destruct (Z.ltb_spec (wrap64 (z0 + n)) 0); [|lia]. ev.
      destruct (Z.ltb_spec (lim - z0) n); [reflexivity|lia].
  Qed.

  Lemma take_len_sfx z p r : 0 <= z <= dlen -> take_len (sfx' z) = Some (p, r) ->
    exists z1 L, z < z1 /\ 0 <= L /\ z1 + L <= dlen /\ p = firstn (Z.to_nat L) (sfx' z1) /\ r = sfx' (z1 + L).
  Proof.
    intros Hz. unfold take_len.
    destruct (dec_varint (sfx' z)) as [[[raw m] r1]|] eqn:Ed; [|discriminate].
    destruct (dec_varint_sfx data z raw m r1 Hz Ed) as (-> & Hm1 & Hm2).
    rewrite sfx_len by lia.
    destruct (Z.ltb_spec (s64 raw) 0); [discriminate|].
    destruct (Z.ltb_spec (dlen - (z + Z.of_nat m)) (s64 raw)); [discriminate|].
    intro E. injection E as <- <-. exists (z + Z.of_nat m), (s64 raw). rewrite sfx_skipn by lia. repeat split; lia.
  Qed.

  Lemma dec_scalar_sfx k z v r : 0 <= z <= dlen -> dec_scalar k (sfx' z) = Some (v, r) ->
    exists z', r = sfx' z' /\ z < z' <= dlen.
  Proof.
    intros Hz. unfold dec_scalar.
    destruct k;
      try (destruct (take_fixed 8 (sfx' z)) as [[n r0]|] eqn:E; [|discriminate]; intro H; injection H as _ <-;
           destruct (take_fixed_inv data _ z n r0 Hz E) as (-> & ? & _); eexists; split; [reflexivity|lia]);
      try (destruct (take_fixed 4 (sfx' z)) as [[n r0]|] eqn:E; [|discriminate]; intro H; injection H as _ <-;
           destruct (take_fixed_inv data _ z n r0 Hz E) as (-> & ? & _); eexists; split; [reflexivity|lia]);
      try (destruct (dec_varint (sfx' z)) as [[[raw n0] r0]|] eqn:E; [|discriminate]; intro H; injection H as _ <-;
           destruct (dec_varint_sfx data z raw n0 r0 Hz E) as (-> & ? & ?); eexists; split; [reflexivity|lia]);
      try (destruct (take_len (sfx' z)) as [[p0 r0]|] eqn:E; [|discriminate]; intro H; injection H as _ <-;
           destruct (take_len_sfx z p0 r0 Hz E) as (z1 & L & ? & ? & ? & _ & ->); eexists; split; [reflexivity|lia]).
  Qed.

  Lemma N2Z_eqb a b : (Z.of_N a =? Z.of_N b) = (a =? b)%N.
  Proof. destruct (Z.eqb_spec (Z.of_N a) (Z.of_N b)); destruct (N.eqb_spec a b); try reflexivity; lia. Qed.

  (* ---- the packed run *)
  Lemma packed_for k i f p : nth_error fs i = Some f -> f_ty f = TScalar k -> f_shape f = Rep p ->
    forall fuel1 fuel2 en z post ss u s acc,
    env_get UvPostIndex en = Some (LV (VInt post)) ->
    0 <= z <= dlen -> nth_error ss i = Some s -> (s = VNil \/ exists l, s = VList l) ->
    (forall v, list_append s v = list_append acc v) -> (post <= z -> s = acc) ->
    (length (sfx' z) < fuel1)%nat -> (length (sfx' z) < fuel2)%nat ->
    for_loop' fuel1 (CCmp OLt EIdx (u_v UvPostIndex)) (u_item IRep i f) en (at_ z ss u) =
    match packed_loop fuel2 k (post - z) acc (sfx' z) with
    | Ok (s', r) => XNext en (at_ (dlen - Z.of_nat (length r)) (set_nth ss i s') u)
    | Err => XDone Err | Panic => XDone Panic | OutOfFuel => XDone OutOfFuel
    end.
  Proof.
    intros Hf Hty Hsh. assert (Hit : u_item IRep i f = u_item_scalar IRep i k) by (unfold u_item; rewrite Hsh, Hty; reflexivity).
    rewrite Hit.
    induction fuel1 as [|fuel1 IH]; intros fuel2 en z post ss u s acc Hpost Hz Hs Hsv Happ Hex Hf1 Hf2; [lia|].
    destruct fuel2 as [|fuel2]; [lia|].
    cbn [for_loop packed_loop]. ev. rewrite Hpost. ev.
    destruct (Z.ltb_spec z post) as [Hlt|Hge]; destruct (Z.leb_spec (post - z) 0) as [Hk|Hk]; try lia.
    - rewrite (item_scalar sch discard child depth fs data lfuel Hlen Hlen8 IRep k i f s 0%nat en z ss u Hz Hf Hs).
      2:{ cbn [mode_ok]. split; [eauto|exact Hsv]. }
      destruct (dec_scalar k (sfx' z)) as [[v r]|] eqn:Ed; [|reflexivity].
      destruct (dec_scalar_sfx k z v r Hz Ed) as (z' & -> & Hz').
      rewrite !sfx_len by lia. replace (dlen - (dlen - z')) with z' by lia.
      cbn [putm]. rewrite (nth_error_nth' ss i s VNil Hs).
      assert (Hi : (i < length ss)%nat) by (apply nth_error_Some; congruence).
      rewrite (IH fuel2 en z' post (set_nth ss i (list_append s v)) u (list_append s v) (list_append acc v)); try lia.
      + replace (post - z - (dlen - z - (dlen - z'))) with (post - z') by lia.
        destruct (packed_loop fuel2 k (post - z') (list_append acc v) (sfx' z')) as [[s' r']| | |]; try reflexivity.
        rewrite set_nth_set_nth. reflexivity.
      + exact Hpost.
      + apply nth_error_set_nth. exact Hi.
      + right. unfold list_append. destruct s; eauto.
      + intro v0. rewrite Happ. reflexivity.
      + intros _. apply Happ.
      + pose proof (sfx_len data z' ltac:(lia)). pose proof (sfx_len data z Hz). lia.
      + pose proof (sfx_len data z' ltac:(lia)). pose proof (sfx_len data z Hz). lia.
    - rewrite sfx_len by lia. replace (dlen - (dlen - z)) with z by lia.
      rewrite <- (Hex ltac:(lia)). rewrite set_nth_same by exact Hs. reflexivity.
  Qed.

  Lemma env_restore_idem en x : env_restore en (env_restore en x) = env_restore en x.
  Proof.
    unfold env_restore. rewrite skipn_length.
    replace (length x - (length x - length en) - length en)%nat with 0%nat by lia. reflexivity.
  Qed.
  Lemma leave_block a en st : leave en (block' a en st) = block' a en st.
  Proof. unfold block. destruct (run' a en st); cbn [leave]; try reflexivity. rewrite env_restore_idem. reflexivity. Qed.
  Lemma block_ifelse c a a' en st :
    block' [UsIfElse c a a'] en st = xlift (cond' c en st) (fun t => if t then block' a en st else block' a' en st).
  Proof.
    unfold block at 1. rewrite run_ifelse. destruct (cond' c en st) as [[|]| |]; cbn [xlift leave]; try reflexivity.
    - rewrite <- (leave_block a en st) at 2. destruct (block' a en st); reflexivity.
    - rewrite <- (leave_block a' en st) at 2. destruct (block' a' en st); reflexivity.
  Qed.
  Lemma block_ret e en st : e <> ErNil -> block' (u_ret e) en st = XDone Err.
  Proof. intro He. unfold block, u_ret. cbn [run_block exec exec_atom leave]. destruct e; try reflexivity. congruence. Qed.
  Lemma block_if_ret_cons c e b en st : e <> ErNil ->
    block' (UsIf c (u_ret e) :: b) en st = xlift (cond' c en st) (fun t => if t then XDone Err else block' b en st).
  Proof. intro He. unfold block. rewrite run_if_ret by exact He. destruct (cond' c en st) as [[|]| |]; reflexivity. Qed.

  Lemma count_lt128_bounds bs : 0 <= count_lt128 bs <= Z.of_nat (length bs).
  Proof. induction bs as [|b t IH]; cbn [count_lt128 length]; [lia|]. destruct (b2n b <? 128)%N; lia. Qed.

  Lemma run_element_count k b en z L ss u : 0 <= z <= dlen -> 0 <= L -> z + L <= dlen ->
    exists pre ec, (pre = [] \/ exists c, pre = [(UvCount, c)]) /\ 0 <= ec /\ (L = 0 -> ec = 0) /\
    run' (u_element_count k ++ b)
         ((UvElementCount, LV (VInt 0)) :: (UvPostIndex, LV (VInt (z + L))) :: (UvPackedLen, LV (VInt L)) :: en) (at_ z ss u) =
    run' b (pre ++ (UvElementCount, LV (VInt ec)) :: (UvPostIndex, LV (VInt (z + L))) :: (UvPackedLen, LV (VInt L)) :: en) (at_ z ss u).
  Proof.
    intros Hz HL Hzl.
    assert (Hq : forall n, 0 < n -> 0 <= Z.quot L n /\ (L = 0 -> Z.quot L n = 0)).
    { intros n Hn. split; [apply Z.quot_pos; lia|]. intros ->. apply Z.quot_0_l. lia. }
    destruct k; unfold u_element_count; cbn [app];
      try (exists [], 0; split; [left; reflexivity|]; split; [lia|]; split; [reflexivity|]; reflexivity);
      try (exists [], (Z.quot L 8); split; [left; reflexivity|]; split; [apply Hq; lia|]; split; [apply Hq; lia|]; atom; reflexivity);
      try (exists [], (Z.quot L 4); split; [left; reflexivity|]; split; [apply Hq; lia|]; split; [apply Hq; lia|]; atom; reflexivity);
      try (exists [], L; split; [left; reflexivity|]; split; [lia|]; split; [auto|]; atom; reflexivity);
      try (pose proof (count_lt128_bounds (firstn (Z.to_nat (z + L - z)) (sfx' z))) as Hc;
           rewrite firstn_length in Hc; pose proof (sfx_len data z Hz) as Hsl;
           exists [(UvCount, LV (VInt (count_lt128 (firstn (Z.to_nat (z + L - z)) (sfx' z)))))], (count_lt128 (firstn (Z.to_nat (z + L - z)) (sfx' z)));
           split; [right; eexists; reflexivity|]; split; [lia|]; split;
           [intros ->; replace (z + 0 - z) with 0 by lia; reflexivity|];
           atom; atom; rewrite slice_at by lia; ev; rewrite wrap64_small by lia; cbn [Z.add]; atom; reflexivity).
  Qed.

  Definition res_of (en : env) (o : outcome (val * list byte)) : xres :=
    match o with
    | Ok (msg', r) => XNext en (at_ (dlen - Z.of_nat (length r)) (slots_of msg') (unk_of msg'))
    | Err => XDone Err | Panic => XDone Panic | OutOfFuel => XDone OutOfFuel
    end.

  Variable md : msgdesc.
  Hypothesis Hmd : m_fields md = fs.
  Hypothesis Hfuel : (length data < lfuel)%nat.

  Lemma case_rep_scalar i f k p wtN en z ss u s :
    nth_error fs i = Some f -> f_ty f = TScalar k -> f_shape f = Rep p ->
    env_get UvWireType en = Some (LV (VInt (Z.of_N wtN))) -> 0 <= z <= dlen ->
    nth_error ss i = Some s -> (s = VNil \/ exists l, s = VList l) ->
    block' (u_case i f) en (at_ z ss u) = res_of en (field_item sch child md i f wtN (VMsg ss u) (sfx' z)).
  Proof.
    intros Hf Hty Hsh Hwt Hz Hs Hsv.
    assert (Hi : (i < length ss)%nat) by (apply nth_error_Some; congruence).
    assert (Hpf : plain_field fs i = Some f) by (unfold plain_field; rewrite Hf, Hsh; reflexivity).
    assert (Hit : u_item IRep i f = u_item_scalar IRep i k) by (unfold u_item; rewrite Hsh, Hty; reflexivity).
    assert (Hnth : nth i ss VNil = s) by (apply nth_error_nth'; exact Hs).
    unfold u_case, field_item. rewrite Hsh, Hty. cbn [slots_of unk_of]. rewrite Hnth.
    destruct (negb (kind_wt k =? WT_BYTES)%N) eqn:Ewb.
    - rewrite block_ifelse. ev. rewrite Hwt. ev. rewrite N2Z_eqb.
      destruct (wtN =? kind_wt k)%N.
      + rewrite Hit. rewrite (item_scalar sch discard child depth fs data lfuel Hlen Hlen8 IRep k i f s 0%nat en z ss u Hz Hf Hs).
        2:{ cbn [mode_ok]. split; [eauto|exact Hsv]. }
        destruct (dec_scalar k (sfx' z)) as [[v r]|]; [|reflexivity]. cbn [res_of slots_of unk_of putm]. rewrite Hnth. reflexivity.
      + rewrite block_ifelse. ev. rewrite Hwt. ev. change 2 with (Z.of_N 2). rewrite N2Z_eqb.
        change (wtN =? WT_BYTES)%N with (wtN =? 2)%N.
        destruct (wtN =? 2)%N eqn:E2; [|apply block_ret; discriminate].
        unfold block. cbn [app]. atom. rewrite run_varint_var by side.
        destruct (dec_varint (sfx' z)) as [[[raw m] r1]|] eqn:Ed; [|reflexivity].
        destruct (dec_varint_sfx data z raw m r1 Hz Ed) as (-> & Hm1 & Hm2).
        ev. autorewrite with vals. lencheck. rewrite sfx_len by lia.
        destruct (Z.ltb_spec (s64 raw) 0) as [|E1]; [reflexivity|].
        destruct (Z.ltb_spec (dlen - (z + Z.of_nat m)) (s64 raw)) as [|E3]; [reflexivity|].
        remember (z + Z.of_nat m) as z1 eqn:Ez1. remember (s64 raw) as L eqn:EL.
        atom.
        destruct (run_element_count k
                   [UsIf (CAnd (CCmp ONe (u_v UvElementCount) (ENum 0)) (CCmp OEq (ELenF i) (ENum 0)))
                         [UsFieldSet i (EMakeList (u_v UvElementCount))];
                    UsFor (CCmp OLt EIdx (u_v UvPostIndex)) (u_item IRep i f)] en z1 L ss u ltac:(lia) ltac:(lia) ltac:(lia))
          as (pre & ec & Hpre & Hec0 & HecL & ->).
        assert (Hfin : forall en' ss', env_get UvPostIndex en' = Some (LV (VInt (z1 + L))) -> env_restore en en' = en ->
                  nth_error ss' i = Some (if (negb (ec =? 0) && match s with VNil => true | _ => false end)%bool then VList [] else s) ->
                  (forall x, set_nth ss' i x = set_nth ss i x) ->
                  leave en (run' [UsFor (CCmp OLt EIdx (u_v UvPostIndex)) (u_item IRep i f)] en' (at_ z1 ss' u)) =
                  res_of en match packed_loop (S (length (sfx' z1))) k L s (sfx' z1) with
                            | Ok (s', r) => Ok (VMsg (set_nth ss i s') u, r)
                            | Err => Err | Panic => Panic | OutOfFuel => OutOfFuel end).
        { intros en' ss' Hp Hr Hs' Hset. rewrite run_for.
          rewrite (packed_for k i f p Hf Hty Hsh lfuel (S (length (sfx' z1))) en' z1 (z1 + L) ss' u _ s Hp ltac:(lia) Hs').
          - replace (z1 + L - z1) with L by lia.
            destruct (packed_loop (S (length (sfx' z1))) k L s (sfx' z1)) as [[s' r']| | |]; try reflexivity.
            rewrite run_nil. cbn [leave res_of slots_of unk_of]. rewrite Hr, Hset. reflexivity.
          - destruct (negb (ec =? 0) && match s with VNil => true | _ => false end)%bool; [right; exists []; reflexivity|exact Hsv].
          - intro v. destruct (negb (ec =? 0) && match s with VNil => true | _ => false end)%bool eqn:E; [|reflexivity].
            destruct s; try (rewrite andb_false_r in E; discriminate). reflexivity.
          - intro Hle. destruct (Z.eqb_spec ec 0) as [->|Hne]; [reflexivity|]. assert (L <> 0) by (intro; apply Hne; auto). lia.
          - pose proof (sfx_len data z1 ltac:(lia)). lia.
          - lia. }
        assert (Hlf : forall en', eval' (ELenF i) en' (at_ z1 ss u) =
                   match s with VNil => EOk (LV (VInt 0)) | VList l => EOk (LV (VInt (Z.of_nat (length l)))) | _ => EStuck end).
        { intros en'. cbn [eval]. rewrite Hpf. unfold slot. cbn [us_slots]. rewrite Hs. destruct Hsv as [-> | [l ->]]; reflexivity. }
        assert (Hbody : forall en', env_get UvElementCount en' = Some (LV (VInt ec)) ->
                  env_get UvPostIndex en' = Some (LV (VInt (z1 + L))) -> env_restore en en' = en ->
                  leave en (run' [UsIf (CAnd (CCmp ONe (u_v UvElementCount) (ENum 0)) (CCmp OEq (ELenF i) (ENum 0)))
                                       [UsFieldSet i (EMakeList (u_v UvElementCount))];
                                  UsFor (CCmp OLt EIdx (u_v UvPostIndex)) (u_item IRep i f)] en' (at_ z1 ss u)) =
                  res_of en match packed_loop (S (length (sfx' z1))) k L s (sfx' z1) with
                            | Ok (s', r) => Ok (VMsg (set_nth ss i s') u, r)
                            | Err => Err | Panic => Panic | OutOfFuel => OutOfFuel end).
        { intros en' Hec Hp Hr. rewrite run_if. cbn [cond]. unfold eval_int. rewrite Hlf. ev. rewrite Hec. ev.
          destruct (Z.eqb_spec ec 0) as [->|Hne]; ev.
          - apply Hfin; [exact Hp|exact Hr|exact Hs|reflexivity].
          - destruct Hsv as [-> | [l ->]]; ev.
            + unfold block. atom. rewrite Hec. ev. destruct (Z.ltb_spec ec 0); [lia|]. ev. rewrite run_nil. ev. rewrite env_restore_refl.
              apply Hfin; [exact Hp|exact Hr| |].
              * cbn [negb andb]. apply nth_error_set_nth. exact Hi.
              * intro x0. apply set_nth_set_nth.
            + destruct l as [|x l]; cbn [length]; ev.
              * unfold block. atom. rewrite Hec. ev. destruct (Z.ltb_spec ec 0); [lia|]. ev. rewrite run_nil. ev. rewrite env_restore_refl.
                apply Hfin; [exact Hp|exact Hr| |].
                -- cbn [negb andb]. apply nth_error_set_nth. exact Hi.
                -- intro x0. apply set_nth_set_nth.
              * destruct (Z.eqb_spec (Z.pos (Pos.of_succ_nat (length l))) 0); [lia|]. ev.
                apply Hfin; [exact Hp|exact Hr|rewrite andb_false_r; exact Hs|reflexivity]. }
        destruct Hpre as [-> | [c ->]]; cbn [app]; apply Hbody; try reflexivity;
          repeat (rewrite env_restore_cons by (cbn [length]; lia)); apply env_restore_refl.
    - rewrite block_if_ret_cons by discriminate. ev. rewrite Hwt. ev. change 2 with (Z.of_N 2). rewrite N2Z_eqb.
      change (wtN =? WT_BYTES)%N with (wtN =? 2)%N.
      destruct (wtN =? 2)%N; [|reflexivity]. cbn [negb].
      rewrite Hit. rewrite (item_scalar sch discard child depth fs data lfuel Hlen Hlen8 IRep k i f s 0%nat en z ss u Hz Hf Hs).
      2:{ cbn [mode_ok]. split; [eauto|exact Hsv]. }
      destruct (dec_scalar k (sfx' z)) as [[v r]|]; [|reflexivity]. cbn [res_of slots_of unk_of putm]. rewrite Hnth. reflexivity.
  Qed.
End Exec4.

(* ---------------------------------------------------------------- map entries *)
Lemma env_restore_len en en' : length en' = length en -> env_restore en en' = en'.
Proof. intro H. unfold env_restore. rewrite H, Nat.sub_diag. reflexivity. Qed.
Lemma Z_sub_sub a b : a - (a - b) = b.
Proof. lia. Qed.

Lemma gconv_s32 x : gconv 32 true (s32 x) = s32 x.
Proof. rewrite <- of_pat_32s. unfold gconv. rewrite to_pat_of_pat by auto. apply of_pat_mod. auto. Qed.
Lemma gconv_s64 x : gconv 64 true (s64 x) = s64 x.
Proof. rewrite <- of_pat_64s. unfold gconv. rewrite to_pat_of_pat by auto. apply of_pat_mod. auto. Qed.
#[export] Hint Rewrite gconv_s32 gconv_s64 : vals.

Lemma s64_nonneg_u64 x : 0 <= s64 x -> Z.of_N (u64 x) = s64 x.
Proof.
  unfold s64, u64. pose proof (N.mod_upper_bound x two64 ltac:(discriminate)) as H.
  destruct (N.ltb_spec (x mod two64) two63); [reflexivity|]. unfold two63, two64 in *. lia.
Qed.

Ltac done_env' :=
  rewrite run_nil; cbn [leave]; repeat (rewrite env_restore_cons by (cbn [length]; lia)); rewrite env_restore_len by reflexivity.

Section Exec5.
  Variable sch : schema.
  Variable discard : bool.
  Variable child : child_t.
  Variable depth : Z.
  Variable fs : list field.
  Variable data : list byte.
  Variable lfuel : nat.
  Notation dlen := (Z.of_nat (length data)).
  Hypothesis Hlen : dlen < Z.of_N two63.
  Hypothesis Hlen8 : dlen + 8 < Z.of_N two63.

  Notation exec' := (exec sch discard child depth fs data dlen lfuel).
  Notation run' := (run_block sch discard child depth fs data dlen lfuel).
  Notation cond' := (cond sch discard depth fs data dlen).
  Notation eval' := (eval sch fs data dlen).
  Notation eval_int' := (eval_int sch fs data dlen).
  Notation atom' := (exec_atom sch child fs data dlen).
  Notation block' := (block sch discard child depth fs data dlen lfuel).
  Notation for_loop' := (for_loop sch discard child depth fs data dlen lfuel).
  Notation sfx' := (sfx data).
  Notation at_ z ss u := {| us_idx := z; us_rest := sfx data z; us_slots := ss; us_unk := u |}.

  Notation enE fn wire epre mv mk post L en0 :=
    ((UvFieldNum, fn) :: (UvWire, wire) :: (UvEntryPreIndex, epre) :: (UvMap false, mv) :: (UvMap true, mk)
     :: (UvPostIndex, LV (VInt post)) :: (UvMsglen, L) :: en0).

  Definition then_check (r : xres) : xres :=
    match r with
    | XNext en' st' => run' [UsIf (CCmp OGt EIdx (u_v UvPostIndex)) (u_ret ErEOF)] en' st'
    | r => r
    end.

  Lemma then_check_next en' z ss u post : env_get UvPostIndex en' = Some (LV (VInt post)) ->
    then_check (XNext en' (at_ z ss u)) = if post <? z then XDone Err else XNext en' (at_ z ss u).
  Proof. intro H. cbn [then_check]. rewrite run_if_ret by discriminate. ev. rewrite H. ev. rewrite run_nil. reflexivity. Qed.

  Definition set_mapvar (key : bool) (x : lval) (mv mk : lval) : lval * lval := if key then (mv, x) else (x, mk).

  Lemma mapfield_scalar key k fn wire epre mv mk post L en0 z ss u :
    0 <= z <= dlen -> post <= dlen ->
    then_check (block' (u_mapfield key (TScalar k)) (enE fn wire epre mv mk post L en0) (at_ z ss u)) =
    match dec_scalar k (sfx' z) with
    | None => XDone Err
    | Some (v, r) =>
      let z' := dlen - Z.of_nat (length r) in
      if post <? z' then XDone Err
      else XNext (enE fn wire epre (fst (set_mapvar key (LV v) mv mk)) (snd (set_mapvar key (LV v) mv mk)) post L en0) (at_ z' ss u)
    end.
  Proof.
    intros Hz Hpost. unfold block.
    destruct k; destruct key; unfold u_mapfield; cbn [dec_scalar kind_gty app set_mapvar fst snd].
    all: try (atom; rewrite run_varint_var by side;
         (destruct (dec_varint (sfx' z)) as [[[raw m] r1]|] eqn:Ed; [|reflexivity]);
         destruct (dec_varint_sfx data z raw m r1 Hz Ed) as (-> & Hm1 & Hm2);
         ev; repeat atom; done_env'; rewrite (then_check_next _ _ _ _ post) by reflexivity;
         cbv zeta; rewrite sfx_len by lia; rewrite Z_sub_sub; cbn [varint_val]; autorewrite with vals; reflexivity).
    all: try (try atom;
         try (match goal with |- context [run_block _ _ _ _ _ _ _ _ (u_fixed64 ?a ?b) _ _] => rewrite <- (app_nil_r (u_fixed64 a b)) end);
         try (match goal with |- context [run_block _ _ _ _ _ _ _ _ (u_fixed32 ?a ?b) _ _] => rewrite <- (app_nil_r (u_fixed32 a b)) end);
         first [ erewrite run_fixed64_var; [|side ..] | erewrite run_fixed32_var; [|side ..] ];
         match goal with Hz0 : 0 <= ?zz <= _ |- context [take_fixed ?k (sfx _ ?zz)] =>
           destruct (take_fixed k (sfx data zz)) as [[n r]|] eqn:Et; [|reflexivity];
           destruct (take_fixed_inv data k zz n r Hz0 Et) as (-> & Hz8 & Hb) end;
         try rewrite pow256_8 in Hb; try rewrite pow256_4 in Hb;
         ev; repeat atom; done_env'; rewrite (then_check_next _ _ _ _ post) by reflexivity;
         cbv zeta; rewrite sfx_len by lia; rewrite Z_sub_sub; cbn [fixed_val Z.of_nat Pos.of_succ_nat Pos.succ]; autorewrite with vals;
         try (rewrite u64_small by assumption); try (rewrite u32_small by assumption);
         try (rewrite to_pat64_small by assumption); try (rewrite to_pat32_small by assumption); reflexivity).
    all: atom; rewrite run_varint_var by side; unfold take_len;
         (destruct (dec_varint (sfx' z)) as [[[raw m] r1]|] eqn:Ed; [|reflexivity]);
         destruct (dec_varint_sfx data z raw m r1 Hz Ed) as (-> & Hm1 & Hm2);
         ev; atom; autorewrite with vals; lencheck; rewrite sfx_len by lia;
         (destruct (Z.ltb_spec (s64 raw) 0) as [|E1]; [reflexivity|]);
         remember (z + Z.of_nat m) as z1 eqn:Ez1; remember (s64 raw) as Ln eqn:EL;
         (destruct (Z.ltb_spec (post - z1) Ln) as [E2|E2];
          [ destruct (Z.ltb_spec (dlen - z1) Ln); [reflexivity|]; cbv zeta; rewrite sfx_skipn, sfx_len by lia; rewrite Z_sub_sub;
            destruct (Z.ltb_spec post (z1 + Ln)); [reflexivity|lia] |]);
         (destruct (Z.ltb_spec (dlen - z1) Ln); [lia|]); cbv zeta; rewrite sfx_skipn, sfx_len by lia; rewrite Z_sub_sub;
         (destruct (Z.ltb_spec post (z1 + Ln)); [lia|]).
    - atom. rewrite slice_at by lia. ev. idxset. done_env'. rewrite (then_check_next _ _ _ _ post) by reflexivity.
      destruct (Z.ltb_spec post (z1 + Ln)); [lia|]. replace (z1 + Ln - z1) with Ln by lia. reflexivity.
    - atom. rewrite slice_at by lia. ev. idxset. done_env'. rewrite (then_check_next _ _ _ _ post) by reflexivity.
      destruct (Z.ltb_spec post (z1 + Ln)); [lia|]. replace (z1 + Ln - z1) with Ln by lia. reflexivity.
    - atom. rewrite (s64_nonneg_u64 raw) by lia. rewrite <- EL. destruct (Z.ltb_spec Ln 0); [lia|]. ev.
      atom. rewrite slice_at by lia. ev. replace (z1 + Ln - z1) with Ln by lia.
      rewrite (go_copy_fresh data) by (apply firstn_sfx_len; lia).
      idxset. done_env'. rewrite (then_check_next _ _ _ _ post) by reflexivity.
      destruct (Z.ltb_spec post (z1 + Ln)); [lia|]. reflexivity.
    - atom. rewrite (s64_nonneg_u64 raw) by lia. rewrite <- EL. destruct (Z.ltb_spec Ln 0); [lia|]. ev.
      atom. rewrite slice_at by lia. ev. replace (z1 + Ln - z1) with Ln by lia.
      rewrite (go_copy_fresh data) by (apply firstn_sfx_len; lia).
      idxset. done_env'. rewrite (then_check_next _ _ _ _ post) by reflexivity.
      destruct (Z.ltb_spec post (z1 + Ln)); [lia|]. reflexivity.
  Qed.

  Lemma mapfield_msg m vs vu fn wire epre mk post L en0 z ss u :
    0 <= z <= dlen -> post <= dlen ->
    then_check (block' (u_mapfield false (TMsg m)) (enE fn wire epre (LM m (VMsg vs vu)) mk post L en0) (at_ z ss u)) =
    match take_len (sfx' z) with
    | None => XDone Err
    | Some (payload, r) =>
      let z' := dlen - Z.of_nat (length r) in
      if post <? z' then XDone Err
      else match child m (VMsg vs vu) payload with
           | Ok v => XNext (enE fn wire epre (LM m v) mk post L en0) (at_ z' ss u)
           | Err => XDone Err | Panic => XDone Panic | OutOfFuel => XDone OutOfFuel
           end
    end.
  Proof.
    intros Hz Hpost. unfold block, u_mapfield. cbn [app].
    atom. rewrite run_varint_var by side. unfold take_len.
    destruct (dec_varint (sfx' z)) as [[[raw m0] r1]|] eqn:Ed; [|reflexivity].
    destruct (dec_varint_sfx data z raw m0 r1 Hz Ed) as (-> & Hm1 & Hm2).
    ev. autorewrite with vals. lencheck. rewrite sfx_len by lia.
    destruct (Z.ltb_spec (s64 raw) 0) as [|E1]; [reflexivity|].
    remember (z + Z.of_nat m0) as z1 eqn:Ez1. remember (s64 raw) as Ln eqn:EL.
    destruct (Z.ltb_spec (post - z1) Ln) as [E2|E2].
    { destruct (Z.ltb_spec (dlen - z1) Ln); [reflexivity|]. cbv zeta. rewrite sfx_skipn, sfx_len by lia. rewrite Z_sub_sub.
      destruct (Z.ltb_spec post (z1 + Ln)); [reflexivity|lia]. }
    destruct (Z.ltb_spec (dlen - z1) Ln); [lia|]. cbv zeta. rewrite sfx_skipn, sfx_len by lia. rewrite Z_sub_sub.
    destruct (Z.ltb_spec post (z1 + Ln)); [lia|].
    atom. rewrite slice_at by lia. ev. replace (z1 + Ln - z1) with Ln by lia.
    destruct (child m (VMsg vs vu) _) as [v| | |]; ev; try reflexivity.
    idxset. done_env'. rewrite (then_check_next _ _ _ _ post) by reflexivity.
    destruct (Z.ltb_spec post (z1 + Ln)); [lia|]. reflexivity.
  Qed.

  Lemma mapskip fn wire mv mk post L en0 z0 z ss u :
    0 <= z0 <= dlen -> 0 <= z <= dlen -> post <= dlen ->
    then_check (block' (u_skip UvEntryPreIndex (u_v UvPostIndex) ++ [UsIdxAdd (u_v UvSkippy)])
                       (enE fn wire (LV (VInt z0)) mv mk post L en0) (at_ z ss u)) =
    match Skip (sfx' z0) with
    | Ok skippy => if post - z0 <? skippy then XDone Err
                   else XNext (enE fn wire (LV (VInt z0)) mv mk post L en0) (at_ (z0 + skippy) ss u)
    | _ => XDone Err
    end.
  Proof.
    intros Hz0 Hz Hpost. unfold block.
    erewrite run_skip; [|side ..].
    destruct (Skip_ok_or_err (sfx' z0)) as [[n Hn]|Hn]; rewrite Hn; [|reflexivity].
    pose proof (Skip_upper (sfx' z0) n) as Hup. rewrite sfx_len in Hup by lia. specialize (Hup ltac:(lia) Hn).
    destruct (Z.ltb_spec (post - z0) n); [reflexivity|].
    idxadd. done_env'. rewrite (then_check_next _ _ _ _ post) by reflexivity.
    destruct (Z.ltb_spec post (z0 + n)); [lia|]. reflexivity.
  Qed.

  Hypothesis Hchild_wt : child_wt sch child.

  Notation enM mv mk post L en0 :=
    ((UvMap false, mv) :: (UvMap true, mk) :: (UvPostIndex, LV (VInt post)) :: (UvMsglen, L) :: en0).

  Definition mval (t : ftype) (v : val) : lval := match t with TScalar _ => LV v | TMsg m => LM m v end.
  Definition value_ok (t : ftype) (v : val) : Prop := match t with TScalar _ => True | TMsg m => wt_msg sch m v = true end.

  Definition entry_body (kk : kind) (t : ftype) : list ustmt :=
    [UsDecl UvEntryPreIndex EIdx;
     UsVar UvWire GU64; UsVarint (TgVar UvWire) GU64;
     UsDecl UvFieldNum (EConv GI32 (EShr (u_v UvWire) 3));
     UsIfElse (CCmp OEq (u_v UvFieldNum) (ENum 1)) (u_mapfield true (TScalar kk))
       [UsIfElse (CCmp OEq (u_v UvFieldNum) (ENum 2)) (u_mapfield false t)
          (u_skip UvEntryPreIndex (u_v UvPostIndex) ++ [UsIdxAdd (u_v UvSkippy)])];
     UsIf (CCmp OGt EIdx (u_v UvPostIndex)) (u_ret ErEOF)].

  Lemma then_check_fold R :
    match R with
    | XNext en' st' => run' [UsIf (CCmp OGt EIdx (u_v UvPostIndex)) (u_ret ErEOF)] en' st'
    | XDone o => XDone o
    | XStuck => XStuck
    end = then_check R.
  Proof. destruct R; reflexivity. Qed.

  Lemma wt_msg_VMsg m v : wt_msg sch m v = true -> exists vs vu, v = VMsg vs vu.
  Proof. destruct v; try discriminate. eauto. Qed.

  Lemma entry_for kk t post L en0 ss u : post <= dlen ->
    forall fuel1 fuel2 z key value,
    0 <= z <= post -> value_ok t value ->
    (length (sfx' z) < fuel1)%nat -> (length (sfx' z) < fuel2)%nat ->
    for_loop' fuel1 (CCmp OLt EIdx (u_v UvPostIndex)) (entry_body kk t)
              (enM (mval t value) (LV key) post L en0) (at_ z ss u) =
    match entry_loop child fuel2 kk t (post - z) key value (sfx' z) with
    | Ok (k', v') => XNext (enM (mval t v') (LV k') post L en0) (at_ post ss u)
    | Err => XDone Err | Panic => XDone Panic | OutOfFuel => XDone OutOfFuel
    end.
  Proof.
    intro Hpost.
    induction fuel1 as [|fuel1 IH]; intros fuel2 z key value Hz Hv Hf1 Hf2; [lia|].
    destruct fuel2 as [|fuel2]; [lia|].
    cbn [for_loop entry_loop]. cbv zeta. ev.
    destruct (Z.ltb_spec z post) as [Hlt|Hge]; destruct (Z.leb_spec (post - z) 0) as [Hk|Hk]; try lia.
    2:{ replace z with post by lia. reflexivity. }
    unfold block, entry_body. atom. atom. rewrite run_varint_var by side.
    destruct (dec_varint (sfx' z)) as [[[raw m] r1]|] eqn:Ed; [|reflexivity].
    destruct (dec_varint_sfx data z raw m r1 ltac:(lia) Ed) as (-> & Hm1 & Hm2).
    ev. atom. autorewrite with vals.
    remember (z + Z.of_nat m) as z1 eqn:Ez1.
    rewrite run_ifelse. ev. rewrite then_check_fold.
    assert (Hcont : forall z' key' value', z < z' -> z' <= post -> value_ok t value' ->
              match leave (enM (mval t value) (LV key) post L en0)
                      (XNext (enE (LV (VInt (s32 (u64 raw / 8)))) (LV (VInt (Z.of_N (u64 raw)))) (LV (VInt z))
                                  (mval t value') (LV key') post L en0) (at_ z' ss u)) with
              | XNext en' st' => for_loop' fuel1 (CCmp OLt EIdx (u_v UvPostIndex)) (entry_body kk t) en' st'
              | r => r end =
              match entry_loop child fuel2 kk t (post - z') key' value' (sfx' z') with
              | Ok (k', v') => XNext (enM (mval t v') (LV k') post L en0) (at_ post ss u)
              | Err => XDone Err | Panic => XDone Panic | OutOfFuel => XDone OutOfFuel
              end).
    { intros z' key' value' Hz1 Hz' Hv'. cbn [leave].
      repeat (rewrite env_restore_cons by (cbn [length]; lia)). rewrite env_restore_len by reflexivity.
      apply IH; try lia; try exact Hv'.
      - pose proof (sfx_len data z' ltac:(lia)). pose proof (sfx_len data z ltac:(lia)). lia.
      - pose proof (sfx_len data z' ltac:(lia)). pose proof (sfx_len data z ltac:(lia)). lia. }
    assert (Hused : forall z', 0 <= z' <= dlen ->
              post - z - (Z.of_nat (length (sfx' z)) - Z.of_nat (length (sfx' z'))) = post - z').
    { intros z' Hz'. rewrite !sfx_len by lia. lia. }
    destruct (Z.eqb_spec (s32 (u64 raw / 8)) 1) as [E1|E1].
    - (* key *)
      rewrite mapfield_scalar by lia.
      destruct (dec_scalar kk (sfx' z1)) as [[v r]|] eqn:Eds; [|reflexivity].
      destruct (dec_scalar_sfx data kk z1 v r ltac:(lia) Eds) as (z' & -> & Hz').
      cbv zeta. rewrite Hused by lia. rewrite (sfx_len data z') by lia. rewrite Z_sub_sub.
      destruct (Z.ltb_spec post z'); destruct (Z.ltb_spec (post - z') 0); try lia; [reflexivity|].
      cbn [set_mapvar fst snd]. apply Hcont; [lia|lia|exact Hv].
    - rewrite block_ifelse. ev.
      destruct (Z.eqb_spec (s32 (u64 raw / 8)) 2) as [E2|E2].
      + (* value *)
        destruct t as [kd|m0]; cbn [mval value_ok] in *.
        * rewrite mapfield_scalar by lia.
          destruct (dec_scalar kd (sfx' z1)) as [[v r]|] eqn:Eds; [|reflexivity].
          destruct (dec_scalar_sfx data kd z1 v r ltac:(lia) Eds) as (z' & -> & Hz').
          cbv zeta. rewrite Hused by lia. rewrite (sfx_len data z') by lia. rewrite Z_sub_sub.
          destruct (Z.ltb_spec post z'); destruct (Z.ltb_spec (post - z') 0); try lia; [reflexivity|].
          cbn [set_mapvar fst snd]. apply (Hcont z' key v); [lia|lia|exact I].
        * destruct (wt_msg_VMsg m0 value Hv) as (vs & vu & ->).
          rewrite mapfield_msg by lia.
          destruct (take_len (sfx' z1)) as [[payload r]|] eqn:Etl; [|reflexivity].
          destruct (take_len_sfx data z1 payload r ltac:(lia) Etl) as (z2 & Ln & Hz2 & HLn & Hz2' & -> & ->).
          cbv zeta. rewrite Hused by lia. rewrite (sfx_len data (z2 + Ln)) by lia. rewrite Z_sub_sub.
          destruct (Z.ltb_spec post (z2 + Ln)); destruct (Z.ltb_spec (post - (z2 + Ln)) 0); try lia; [reflexivity|].
          destruct (child m0 (VMsg vs vu) _) as [v| | |] eqn:Ec; try reflexivity.
          apply (Hcont (z2 + Ln) key v); [lia|lia|]. eapply Hchild_wt; [|exact Ec]. exact Hv.
      + (* skip *)
        rewrite mapskip by lia.
        destruct (Skip_ok_or_err (sfx' z)) as [[n Hn]|Hn]; rewrite Hn; [|reflexivity].
        pose proof (Skip_upper (sfx' z) n) as Hup. rewrite sfx_len in Hup by lia. specialize (Hup ltac:(lia) Hn).
        destruct (Z.ltb_spec (post - z) n); [reflexivity|].
        rewrite sfx_zskipn by lia. replace (post - z - n) with (post - (z + n)) by lia.
        apply (Hcont (z + n) key value); [lia|lia|exact Hv].
  Qed.
End Exec5.

Section Exec6.
  Variable sch : schema.
  Variable discard : bool.
  Variable child : child_t.
  Variable depth : Z.
  Variable fs : list field.
  Variable data : list byte.
  Variable lfuel : nat.
  Notation dlen := (Z.of_nat (length data)).
  Hypothesis Hlen : dlen < Z.of_N two63.
  Hypothesis Hlen8 : dlen + 8 < Z.of_N two63.

  Notation exec' := (exec sch discard child depth fs data dlen lfuel).
  Notation run' := (run_block sch discard child depth fs data dlen lfuel).
  Notation cond' := (cond sch discard depth fs data dlen).
  Notation eval' := (eval sch fs data dlen).
  Notation eval_int' := (eval_int sch fs data dlen).
  Notation atom' := (exec_atom sch child fs data dlen).
  Notation block' := (block sch discard child depth fs data dlen lfuel).
  Notation for_loop' := (for_loop sch discard child depth fs data dlen lfuel).
  Notation sfx' := (sfx data).
  Notation at_ z ss u := {| us_idx := z; us_rest := sfx data z; us_slots := ss; us_unk := u |}.
  Variable md : msgdesc.
  Hypothesis Hmd : m_fields md = fs.
  Hypothesis Hfuel : (length data < lfuel)%nat.
  Hypothesis Hchild_nil : forall m mdm bs, get_msg sch m = Some mdm -> child m VNil bs = child m (empty_msg mdm) bs.
  Hypothesis Hchild_wt : child_wt sch child.

  Notation res_of' := (res_of data).

  Lemma lval_val_mval t v : lval_val (mval t v) = v.
  Proof. destruct t; reflexivity. Qed.

  Lemma item_map i kk t f s en z ss u :
    0 <= z <= dlen -> nth_error fs i = Some f -> f_shape f = MapOf kk -> f_ty f = t -> nth_error ss i = Some s ->
    (s = VNil \/ exists kvs, s = VMap kvs) ->
    match t with TMsg m => exists mdm, get_msg sch m = Some mdm | TScalar _ => True end ->
    block' (u_item_map i kk t) en (at_ z ss u) = res_of' en (field_item sch child md i f WT_BYTES (VMsg ss u) (sfx' z)).
  Proof.
    intros Hz Hf Hsh Hty Hs Hsv Hg.
    assert (Hi : (i < length ss)%nat) by (apply nth_error_Some; congruence).
    assert (Hpf : plain_field fs i = Some f) by (unfold plain_field; rewrite Hf, Hsh; reflexivity).
    assert (Hnth : nth i ss VNil = s) by (apply nth_error_nth'; exact Hs).
    unfold field_item. rewrite Hsh, Hty. cbn [slots_of unk_of N.eqb WT_BYTES Pos.eqb]. rewrite Hnth.
    unfold block, u_item_map. rewrite run_msg_header by side.
    destruct (dec_varint (sfx' z)) as [[[raw m0] r1]|] eqn:Ed; [|reflexivity].
    destruct (dec_varint_sfx data z raw m0 r1 Hz Ed) as (-> & Hm1 & Hm2).
    rewrite sfx_len by lia. cbv zeta.
    destruct (Z.ltb_spec (s64 raw) 0) as [|E1]; [reflexivity|].
    destruct (Z.ltb_spec (dlen - (z + Z.of_nat m0)) (s64 raw)) as [|E2]; [reflexivity|].
    remember (z + Z.of_nat m0) as z1 eqn:Ez1. remember (s64 raw) as Ln eqn:EL.
    assert (Hrest : forall ss' kvs, nth_error ss' i = Some (VMap kvs) -> (forall x, set_nth ss' i x = set_nth ss i x) ->
              kvs = match s with VMap kvs => kvs | _ => [] end ->
              leave en (run' [UsVar (UvMap true) (kind_gty kk);
                              match t with TMsg m => UsDecl (UvMap false) (ENewMsg m) | TScalar k => UsVar (UvMap false) (kind_gty k) end;
                              UsFor (CCmp OLt EIdx (u_v UvPostIndex)) (entry_body kk t);
                              UsMapStore i (UvMap true) (UvMap false); UsIdxSet (u_v UvPostIndex)]
                        ((UvPostIndex, LV (VInt (z1 + Ln))) :: (UvMsglen, LV (VInt Ln)) :: en) (at_ z1 ss' u)) =
              res_of' en
                match entry_loop child (S (length (sfx' z1))) kk t Ln (zero_scalar kk) (map_value_init (get_msg sch) t) (sfx' z1) with
                | Ok (k, v) => Ok (VMsg (set_nth ss i (VMap (map_set match s with VMap kvs => kvs | _ => [] end k v))) u, zskipn Ln (sfx' z1))
                | Err => Err | Panic => Panic | OutOfFuel => OutOfFuel
                end).
    { intros ss' kvs Hs' Hset Hkvs.
      atom. rewrite zero_of_kind.
      assert (Hv0 : exists en1, env_get UvPostIndex en1 = None /\ True).
      { exists []. auto. }
      clear Hv0.
      assert (Hdecl : run' [match t with TMsg m => UsDecl (UvMap false) (ENewMsg m) | TScalar k => UsVar (UvMap false) (kind_gty k) end;
                            UsFor (CCmp OLt EIdx (u_v UvPostIndex)) (entry_body kk t);
                            UsMapStore i (UvMap true) (UvMap false); UsIdxSet (u_v UvPostIndex)]
                        ((UvMap true, LV (zero_scalar kk)) :: (UvPostIndex, LV (VInt (z1 + Ln))) :: (UvMsglen, LV (VInt Ln)) :: en) (at_ z1 ss' u) =
                      run' [UsFor (CCmp OLt EIdx (u_v UvPostIndex)) (entry_body kk t);
                            UsMapStore i (UvMap true) (UvMap false); UsIdxSet (u_v UvPostIndex)]
                        ((UvMap false, mval t (map_value_init (get_msg sch) t)) :: (UvMap true, LV (zero_scalar kk)) :: (UvPostIndex, LV (VInt (z1 + Ln))) :: (UvMsglen, LV (VInt Ln)) :: en) (at_ z1 ss' u)).
      { destruct t as [k|m]; cbn [mval map_value_init].
        - atom. rewrite zero_of_kind. reflexivity.
        - destruct Hg as [mdm Hg]. atom. rewrite Hg. ev. reflexivity. }
      rewrite Hdecl. rewrite run_for.
      rewrite (entry_for sch discard child depth fs data lfuel Hlen Hlen8 Hchild_wt kk t (z1 + Ln) (LV (VInt Ln)) en ss' u ltac:(lia)
                 lfuel (S (length (sfx' z1))) z1 (zero_scalar kk) (map_value_init (get_msg sch) t)).
      - replace (z1 + Ln - z1) with Ln by lia.
        destruct (entry_loop child (S (length (sfx' z1))) kk t Ln (zero_scalar kk) (map_value_init (get_msg sch) t) (sfx' z1)) as [[k' v']| | |]; try reflexivity.
        atom. rewrite lval_val_mval.
        idxset. done_env. cbn [res_of slots_of unk_of]. rewrite sfx_zskipn by lia. rewrite sfx_len by lia. rewrite Z_sub_sub.
        rewrite Hset, Hkvs. reflexivity.
      - lia.
      - unfold value_ok. destruct t as [k|m]; [exact I|]. destruct Hg as [mdm Hg]. cbn [map_value_init]. rewrite Hg. apply empty_msg_wt. exact Hg.
      - pose proof (sfx_len data z1 ltac:(lia)). lia.
      - lia. }
    cbn [app]. rewrite run_if. ev. hyps. ev.
    destruct Hsv as [-> | [kvs ->]]; ev.
    - unfold block. atom. rewrite run_nil. ev. rewrite env_restore_refl.
      apply (Hrest _ []); [apply nth_error_set_nth; exact Hi|intro; apply set_nth_set_nth|reflexivity].
    - apply (Hrest _ kvs); [exact Hs|reflexivity|reflexivity].
  Qed.

  Lemma case_spec i f wtN en z ss u s :
    nth_error fs i = Some f -> field_wf (length sch) (m_oneofs md) f = true ->
    env_get UvWireType en = Some (LV (VInt (Z.of_N wtN))) -> 0 <= z <= dlen ->
    nth_error ss i = Some s -> wt_slot (wt_msg sch) f s = true ->
    block' (u_case i f) en (at_ z ss u) = res_of' en (field_item sch child md i f wtN (VMsg ss u) (sfx' z)).
  Proof.
    intros Hf Hwf Hwt Hz Hs Hwts.
    assert (Hg : match f_ty f with TMsg m => exists mdm, get_msg sch m = Some mdm | TScalar _ => True end).
    { unfold field_wf in Hwf. destruct (f_ty f) as [k|m]; [exact I|].
      apply andb_prop in Hwf. destruct Hwf as [Hwf _]. apply andb_prop in Hwf. destruct Hwf as [_ Hm].
      apply Nat.ltb_lt in Hm. unfold get_msg. destruct (nth_error sch m) as [mdm|] eqn:E; [eauto|].
      apply nth_error_None in E. lia. }
    assert (Hnth : nth i ss VNil = s) by (apply nth_error_nth'; exact Hs).
    unfold wt_slot in Hwts.
    destruct (f_shape f) as [|p|oi|kk] eqn:Hsh.
    - (* singular *)
      unfold u_case, field_item. rewrite Hsh. cbn [slots_of unk_of]. rewrite Hnth.
      assert (Hcase : forall t, f_ty f = t -> match Singular, t with Rep _, TScalar _ => False | _, _ => True end) by (intros; exact I).
      destruct (f_ty f) as [k|m] eqn:Hty; rewrite block_if_ret_cons by discriminate; ev; rewrite Hwt; ev; rewrite (N2Z_eqb data);
        cbn [ftype_wt]; (match goal with |- context [(wtN =? ?w)%N] => destruct (wtN =? w)%N end; [|reflexivity]); cbn [negb]; unfold u_item; rewrite Hsh, Hty.
      + rewrite (item_scalar sch discard child depth fs data lfuel Hlen Hlen8 ISing k i f s 0%nat en z ss u Hz Hf Hs).
        2:{ cbn [mode_ok]. split; [exact Hsh|]. intros ->. cbn [wt_elem wt_scalar] in Hwts. destruct s; try discriminate; eauto. }
        cbn [dec_item]. destruct (dec_scalar k (sfx' z)) as [[v r]|]; reflexivity.
      + destruct Hg as [mdm Hg].
        rewrite (item_msg sch discard child depth fs data lfuel Hlen Hchild_nil ISing i m mdm f s 0%nat en z ss u Hz Hf Hty Hg Hs).
        2:{ cbn [mode_ok_msg]. split; [exact Hsh|]. cbn [wt_elem] in Hwts. destruct s; try discriminate; eauto. }
        cbn [target_of]. destruct (dec_item child (TMsg m) s (sfx' z)) as [[v r]| | |]; reflexivity.
    - (* repeated *)
      destruct (f_ty f) as [k|m] eqn:Hty.
      + apply (case_rep_scalar sch discard child depth fs data lfuel Hlen Hlen8 md Hfuel i f k p wtN en z ss u s Hf Hty Hsh Hwt Hz Hs).
        destruct s; try discriminate; eauto.
      + unfold u_case, field_item. rewrite Hsh, Hty. cbn [slots_of unk_of]. rewrite Hnth.
        rewrite block_if_ret_cons by discriminate; ev; rewrite Hwt; ev; rewrite (N2Z_eqb data).
        cbn [ftype_wt]. (match goal with |- context [(wtN =? ?w)%N] => destruct (wtN =? w)%N end; [|reflexivity]); cbn [negb]; unfold u_item; rewrite Hsh, Hty.
        destruct Hg as [mdm Hg].
        rewrite (item_msg sch discard child depth fs data lfuel Hlen Hchild_nil IRep i m mdm f s 0%nat en z ss u Hz Hf Hty Hg Hs).
        2:{ cbn [mode_ok_msg]. split; [eauto|]. destruct s; try discriminate; eauto. }
        cbn [target_of]. destruct (dec_item child (TMsg m) VNil (sfx' z)) as [[v r]| | |]; try reflexivity.
        cbn [res_of slots_of unk_of putm]. rewrite Hnth. reflexivity.
    - (* oneof member *)
      unfold u_case, field_item. rewrite Hsh. cbn [slots_of unk_of]. rewrite Hnth, Hmd.
      destruct (f_ty f) as [k|m] eqn:Hty; rewrite block_if_ret_cons by discriminate; ev; rewrite Hwt; ev; rewrite (N2Z_eqb data);
        cbn [ftype_wt]; (match goal with |- context [(wtN =? ?w)%N] => destruct (wtN =? w)%N end; [|reflexivity]); cbn [negb]; unfold u_item; rewrite Hsh, Hty.
      + rewrite (item_scalar sch discard child depth fs data lfuel Hlen Hlen8 IOneof k i f s oi en z ss u Hz Hf Hs).
        2:{ exact Hsh. }
        cbn [dec_item]. destruct (dec_scalar k (sfx' z)) as [[v r]|]; reflexivity.
      + destruct Hg as [mdm Hg].
        rewrite (item_msg sch discard child depth fs data lfuel Hlen Hchild_nil IOneof i m mdm f s oi en z ss u Hz Hf Hty Hg Hs).
        2:{ cbn [mode_ok_msg]. split; [exact Hsh|]. destruct s as [| | | | |q| | |]; try discriminate; auto.
            cbn [wt_elem] in Hwts. destruct q; try discriminate; eauto. }
        cbn [target_of]. destruct (dec_item child (TMsg m) _ (sfx' z)) as [[v r]| | |]; reflexivity.
    - (* map *)
      assert (Hc : u_case i f = UsIf (CCmp ONe (u_v UvWireType) (ENum (Z.of_N WT_BYTES))) (u_ret (ErWrongWire i)) :: u_item_map i kk (f_ty f)).
      { unfold u_case, u_item. rewrite Hsh. reflexivity. }
      rewrite Hc. rewrite block_if_ret_cons by discriminate. ev. rewrite Hwt. ev. rewrite (N2Z_eqb data).
      destruct (N.eqb_spec wtN WT_BYTES) as [->|Hne]; cbn [negb].
      + apply (item_map i kk (f_ty f) f s); try assumption; try reflexivity. destruct s; try discriminate; eauto.
      + unfold field_item. rewrite Hsh. destruct (N.eqb_spec wtN WT_BYTES); [contradiction|]. reflexivity.
  Qed.
End Exec6.

Section Exec7.
  Variable sch : schema.
  Variable discard : bool.
  Variable child : child_t.
  Variable depth : Z.
  Variable fs : list field.
  Variable data : list byte.
  Variable lfuel : nat.
  Notation dlen := (Z.of_nat (length data)).
  Hypothesis Hlen : dlen < Z.of_N two63.
  Hypothesis Hlen8 : dlen + 8 < Z.of_N two63.

  Notation exec' := (exec sch discard child depth fs data dlen lfuel).
  Notation run' := (run_block sch discard child depth fs data dlen lfuel).
  Notation cond' := (cond sch discard depth fs data dlen).
  Notation eval' := (eval sch fs data dlen).
  Notation eval_int' := (eval_int sch fs data dlen).
  Notation atom' := (exec_atom sch child fs data dlen).
  Notation block' := (block sch discard child depth fs data dlen lfuel).
  Notation for_loop' := (for_loop sch discard child depth fs data dlen lfuel).
  Notation sfx' := (sfx data).
  Notation at_ z ss u := {| us_idx := z; us_rest := sfx data z; us_slots := ss; us_unk := u |}.
  Variable md : msgdesc.
  Hypothesis Hmd : m_fields md = fs.
  Hypothesis Hfuel : (length data < lfuel)%nat.
  Hypothesis Hchild_nil : forall m mdm bs, get_msg sch m = Some mdm -> child m VNil bs = child m (empty_msg mdm) bs.
  Hypothesis Hchild_wt : child_wt sch child.

  Notation res_of' := (res_of data).

  (* ---- results of field_item are suffixes of the input *)
  Lemma packed_loop_sfx kd : forall fuel k acc z s' r, 0 <= z <= dlen ->
    packed_loop fuel kd k acc (sfx' z) = Ok (s', r) -> exists z', r = sfx' z' /\ z <= z' <= dlen.
  Proof.
    induction fuel as [|fuel IH]; intros k acc z s' r Hz; cbn [packed_loop]; [discriminate|].
    destruct (k <=? 0).
    - intro E. injection E as _ <-. exists z. split; [reflexivity|lia].
    - destruct (dec_scalar kd (sfx' z)) as [[v r0]|] eqn:Ed; [|discriminate].
      destruct (dec_scalar_sfx data kd z v r0 Hz Ed) as (z1 & -> & Hz1).
      intro E. apply IH in E; [|lia]. destruct E as (z' & -> & Hz'). exists z'. split; [reflexivity|lia].
  Qed.

  Lemma dec_item_sfx t tg z v r : 0 <= z <= dlen ->
    dec_item child t tg (sfx' z) = Ok (v, r) -> exists z', r = sfx' z' /\ z <= z' <= dlen.
  Proof.
    intros Hz. unfold dec_item. destruct t as [k|m].
    - destruct (dec_scalar k (sfx' z)) as [[v0 r0]|] eqn:Ed; [|discriminate].
      destruct (dec_scalar_sfx data k z v0 r0 Hz Ed) as (z1 & -> & Hz1).
      intro E. injection E as _ <-. exists z1. split; [reflexivity|lia].
    - destruct (take_len (sfx' z)) as [[p r0]|] eqn:Et; [|discriminate].
      destruct (take_len_sfx data z p r0 Hz Et) as (z1 & Ln & ? & ? & ? & _ & ->).
      destruct (child m tg p); try discriminate. intro E. injection E as _ <-. eexists. split; [reflexivity|lia].
  Qed.

  Lemma field_item_sfx i f wt msg z msg' r : 0 <= z <= dlen ->
    field_item sch child md i f wt msg (sfx' z) = Ok (msg', r) -> exists z', r = sfx' z' /\ z <= z' <= dlen.
  Proof.
    intros Hz. unfold field_item.
    assert (Hpk : forall kd s0,
      match dec_varint (sfx' z) with
      | Some (raw, _, rest2) =>
        if s64 raw <? 0 then Err
        else if Z.of_nat (length rest2) <? s64 raw then Err
        else match packed_loop (S (length rest2)) kd (s64 raw) s0 rest2 with
             | Ok (s', r) => Ok (VMsg (set_nth (slots_of msg) i s') (unk_of msg), r)
             | Err => Err | Panic => Panic | OutOfFuel => OutOfFuel end
      | None => Err end = Ok (msg', r) -> exists z', r = sfx' z' /\ z <= z' <= dlen).
    { intros kd s0. destruct (dec_varint (sfx' z)) as [[[raw n] rest2]|] eqn:Ed; [|discriminate].
      destruct (dec_varint_sfx data z raw n rest2 Hz Ed) as (-> & ? & ?).
      destruct (s64 raw <? 0); [discriminate|]. destruct (_ <? s64 raw); [discriminate|].
      destruct (packed_loop _ kd (s64 raw) s0 _) as [[s' r0]| | |] eqn:Ep; try discriminate.
      apply packed_loop_sfx in Ep; [|lia]. destruct Ep as (z' & -> & ?).
      intro E. injection E as _ <-. exists z'. split; [reflexivity|lia]. }
    assert (Hsc : forall kd (g : val -> val),
      match dec_scalar kd (sfx' z) with Some (v, r) => Ok (g v, r) | None => Err end = Ok (msg', r) ->
      exists z', r = sfx' z' /\ z <= z' <= dlen).
    { intros kd g. destruct (dec_scalar kd (sfx' z)) as [[v r0]|] eqn:Ed; [|discriminate].
      destruct (dec_scalar_sfx data kd z v r0 Hz Ed) as (z1 & -> & Hz1).
      intro E. injection E as _ <-. exists z1. split; [reflexivity|lia]. }
    assert (Hit : forall t tg (g : val -> val),
      match dec_item child t tg (sfx' z) with Ok (v, r) => Ok (g v, r) | Err => Err | Panic => Panic | OutOfFuel => OutOfFuel end = Ok (msg', r) ->
      exists z', r = sfx' z' /\ z <= z' <= dlen).
    { intros t tg g. destruct (dec_item child t tg (sfx' z)) as [[v r0]| | |] eqn:Ed; try discriminate.
      apply dec_item_sfx in Ed; [|lia]. destruct Ed as (z1 & -> & ?).
      intro E. injection E as _ <-. exists z1. split; [reflexivity|lia]. }
    destruct (f_shape f) as [|p|oi|kk].
    - destruct (wt =? _)%N; [|discriminate]. apply Hit.
    - destruct (f_ty f) as [kd|m].
      + destruct (negb _).
        * destruct (wt =? kind_wt kd)%N; [apply (Hsc kd (fun v => VMsg (set_nth (slots_of msg) i (list_append (nth i (slots_of msg) VNil) v)) (unk_of msg)))|].
          destruct (wt =? WT_BYTES)%N; [|discriminate]. apply Hpk.
        * destruct (wt =? WT_BYTES)%N; [|discriminate].
          apply (Hsc kd (fun v => VMsg (set_nth (slots_of msg) i (list_append (nth i (slots_of msg) VNil) v)) (unk_of msg))).
      + destruct (wt =? WT_BYTES)%N; [|discriminate].
        apply (Hit (TMsg m) VNil (fun v => VMsg (set_nth (slots_of msg) i (list_append (nth i (slots_of msg) VNil) v)) (unk_of msg))).
    - destruct (wt =? _)%N; [|discriminate].
      apply (Hit (f_ty f) _ (fun v => VMsg (set_nth (clear_oneof (m_fields md) (slots_of msg) oi) i (VSome v)) (unk_of msg))).
    - destruct (wt =? WT_BYTES)%N; [|discriminate].
      destruct (dec_varint (sfx' z)) as [[[raw n] rest2]|] eqn:Ed; [|discriminate].
      destruct (dec_varint_sfx data z raw n rest2 Hz Ed) as (-> & ? & ?). cbv zeta.
      destruct (Z.ltb_spec (s64 raw) 0); [discriminate|]. rewrite sfx_len by lia.
      destruct (Z.ltb_spec (dlen - (z + Z.of_nat n)) (s64 raw)); [discriminate|].
      destruct (entry_loop _ _ _ _ _ _ _ _) as [[k0 v0]| | |]; try discriminate.
      intro E. injection E as _ <-. rewrite sfx_zskipn by lia. eexists. split; [reflexivity|lia].
  Qed.

  (* ---- the switch and the default clause *)
  Lemma run_switch x cases dflt b en st :
    run' (UsSwitch x cases dflt :: b) en st =
    xlift (var_int x en) (fun z => match switch_find sch discard child depth fs data dlen lfuel z cases dflt en st with
                                   | XNext en' st' => run' b en' st' | r => r end).
  Proof. cbn [run_block]. rewrite exec_switch. destruct (var_int x en); reflexivity. Qed.

  Lemma switch_spec fs' : forall i0 z en st,
    switch_find sch discard child depth fs data dlen lfuel z (u_cases i0 fs') u_default en st =
    match find_field fs' i0 z with
    | Some (i, f) => block' (u_case i f) en st
    | None => block' u_default en st
    end.
  Proof.
    induction fs' as [|f fs' IH]; intros i0 z en st; cbn [u_cases switch_find find_field]; [reflexivity|].
    rewrite (Z.eqb_sym z). destruct (Z.of_N (f_num f) =? z); [reflexivity|]. apply IH.
  Qed.

  Lemma default_spec en z0 z ss u :
    env_get UvPreIndex en = Some (LV (VInt z0)) -> 0 <= z0 <= dlen -> 0 <= z <= dlen ->
    block' u_default en (at_ z ss u) =
    match Skip (sfx' z0) with
    | Ok skippy =>
      if dlen - z0 <? skippy then XDone Err
      else XNext en (at_ (z0 + skippy) ss (if discard then u else u ++ firstn (Z.to_nat skippy) (sfx' z0)))
    | _ => XDone Err
    end.
  Proof.
    intros Hpre Hz0 Hz. unfold block, u_default.
    erewrite run_skip; [|side ..].
    destruct (Skip_ok_or_err (sfx' z0)) as [[n Hn]|Hn]; rewrite Hn; [|reflexivity].
    pose proof (Skip_upper (sfx' z0) n) as Hup. rewrite sfx_len in Hup by lia. specialize (Hup ltac:(lia) Hn).
    destruct (Z.ltb_spec (dlen - z0) n); [reflexivity|].
    rewrite run_if. ev. destruct discard; cbn [negb].
    - idxadd. done_env. reflexivity.
    - unfold block. atom. rewrite wrap64_small by lia. rewrite slice_at by lia. ev. rewrite run_nil. ev. rewrite env_restore_refl.
      idxadd. done_env. replace (z0 + n - z0) with n by lia. reflexivity.
  Qed.

  (* ---- the message loop *)
  Variable mid : nat.
  Hypothesis Hgm : get_msg sch mid = Some md.
  Hypothesis Hmwf : msg_wf (length sch) md = true.

  Definition main_body : list ustmt :=
    [UsDecl UvPreIndex EIdx;
     UsVar UvWire GU64; UsVarint (TgVar UvWire) GU64;
     UsDecl UvFieldNum (EConv GI32 (EShr (u_v UvWire) 3));
     UsDecl UvWireType (EConv GInt (EAnd (u_v UvWire) 7));
     UsIf (CCmp OEq (u_v UvWireType) (ENum 4)) (u_ret ErEndGroup);
     UsIf (CCmp OLe (u_v UvFieldNum) (ENum 0)) (u_ret ErIllegalTag);
     UsSwitch UvFieldNum (u_cases 0 fs) u_default].

  Lemma wt_slots_length fs' : forall ss, wt_slots sch fs' ss = true -> length ss = length fs'.
  Proof.
    induction fs' as [|f fs' IH]; intros [|s ss] H; cbn [wt_slots] in H; try discriminate; [reflexivity|].
    apply andb_prop in H. destruct H as [_ H]. cbn [length]. f_equal. apply IH. exact H.
  Qed.

  Lemma main_loop : forall fuel z ss u, 0 <= z <= dlen -> wt_msg sch mid (VMsg ss u) = true ->
    match for_loop' fuel (CCmp OLt EIdx EL) main_body [] (at_ z ss u) with
    | XNext en' st' => run' [UsIf (CCmp OGt EIdx EL) (u_ret ErEOF); UsRet ErNil] en' st'
    | r => r
    end = XDone (msg_loop sch discard child md fuel (VMsg ss u) (sfx' z)).
  Proof.
    induction fuel as [|fuel IH]; intros z ss u Hz Hwt; [reflexivity|].
    cbn [for_loop msg_loop]. ev.
    destruct (Z.ltb_spec z dlen) as [Hlt|Hge].
    2:{ assert (z = dlen) by lia. subst z. rewrite (proj2 (sfx_nil data dlen ltac:(lia)) eq_refl).
        ifret. destruct (Z.ltb_spec dlen dlen); [lia|]. atom. reflexivity. }
    destruct (sfx' z) as [|b0 t0] eqn:Esf; [apply (sfx_nil data z Hz) in Esf; lia|]. rewrite <- Esf. clear Esf b0 t0.
    unfold block, main_body. atom. atom. rewrite run_varint_var by side.
    destruct (dec_varint (sfx' z)) as [[[raw m] r1]|] eqn:Ed; [|reflexivity].
    destruct (dec_varint_sfx data z raw m r1 Hz Ed) as (-> & Hm1 & Hm2).
    ev. atom. atom. change (7 <? 0) with false. ev. autorewrite with vals. cbv zeta.
    ifret. change 4 with (Z.of_N 4). rewrite (N2Z_eqb data). destruct (u64 raw mod 8 =? 4)%N; [reflexivity|].
    ifret. destruct (s32 (u64 raw / 8) <=? 0); [reflexivity|].
    rewrite run_switch. ev. rewrite switch_spec. rewrite Hmd.
    remember (z + Z.of_nat m) as z1 eqn:Ez1.
    rewrite wt_msg_unfold, Hgm in Hwt. apply andb_prop in Hwt. destruct Hwt as [Hws Hoo].
    destruct (find_field fs 0 (s32 (u64 raw / 8))) as [[idx f]|] eqn:Eff.
    - apply find_field_in in Eff. destruct Eff as [_ Hf]. rewrite Nat.sub_0_r in Hf.
      assert (Hfw : field_wf (length sch) (m_oneofs md) f = true).
      { unfold msg_wf in Hmwf. apply andb_prop in Hmwf. destruct Hmwf as [Hall _].
        rewrite forallb_forall in Hall. apply Hall. rewrite Hmd. eapply nth_error_In. exact Hf. }
      rewrite Hmd in Hws.
      assert (Hidx : (idx < length ss)%nat).
      { rewrite (wt_slots_length _ _ Hws). apply nth_error_Some. congruence. }
      destruct (nth_error ss idx) as [s|] eqn:Hs; [|apply nth_error_None in Hs; lia].
      pose proof (wt_slots_nth _ _ _ _ _ Hws Hf) as Hsl. rewrite (nth_error_nth' ss idx s VNil Hs) in Hsl.
      match goal with |- context [block _ _ _ _ _ _ _ _ (u_case idx f) ?en _] =>
        rewrite (case_spec sch discard child depth fs data lfuel Hlen Hlen8 md Hmd Hfuel Hchild_nil Hchild_wt idx f (u64 raw mod 8) en z1 ss u s Hf Hfw eq_refl ltac:(lia) Hs Hsl) end.
      destruct (field_item sch child md idx f (u64 raw mod 8) (VMsg ss u) (sfx' z1)) as [[msg' r]| | |] eqn:Efi; try reflexivity.
      destruct (field_item_sfx idx f (u64 raw mod 8) (VMsg ss u) z1 msg' r ltac:(lia) Efi) as (z' & -> & Hz').
      assert (Hwt' : wt_msg sch mid msg' = true).
      { eapply field_item_wt; [exact Hchild_wt|exact Hgm|rewrite Hmd; exact Hf| |exact Efi].
        rewrite wt_msg_unfold, Hgm, Hmd, Hws, Hoo. reflexivity. }
      destruct msg' as [| | | | | |ss' u'| |]; try discriminate Hwt'.
      cbn [res_of slots_of unk_of]. rewrite sfx_len by lia. rewrite Z_sub_sub.
      rewrite run_nil. cbn [leave]. repeat (rewrite env_restore_cons by (cbn [length]; lia)). rewrite env_restore_refl.
      apply IH; [lia|exact Hwt'].
    - rewrite (default_spec _ z z1) by (try reflexivity; lia).
      destruct (Skip_ok_or_err (sfx' z)) as [[n Hn]|Hn]; rewrite Hn; [|reflexivity].
      pose proof (Skip_upper (sfx' z) n) as Hup. rewrite sfx_len in Hup by lia. specialize (Hup ltac:(lia) Hn).
      rewrite sfx_len by lia.
      destruct (Z.ltb_spec (dlen - z) n); [reflexivity|].
      rewrite run_nil. cbn [leave]. repeat (rewrite env_restore_cons by (cbn [length]; lia)). rewrite env_restore_refl.
      rewrite IH; [| lia |].
      + rewrite sfx_zskipn by lia. rewrite zfirstn_nat by (rewrite sfx_len; lia). cbn [slots_of unk_of].
        destruct discard; reflexivity.
      + rewrite wt_msg_unfold, Hgm, Hws, Hoo. reflexivity.
  Qed.
End Exec7.

(* ---------------------------------------------------------------- the theorem *)
Lemma unmarshal_at_nil sch discard f d m mdm bs : get_msg sch m = Some mdm ->
  unmarshal_at sch discard f d m VNil bs = unmarshal_at sch discard f d m (empty_msg mdm) bs.
Proof. intro Hg. destruct f as [|f]; [reflexivity|]. cbn [unmarshal_at]. rewrite Hg. reflexivity. Qed.

Lemma unmarshal_at_child_wt sch discard f d : child_wt sch (unmarshal_at sch discard f d).
Proof. intros m tg p v Htg H. eapply unmarshal_at_wt; eassumption. Qed.

Lemma unmarshal_prog_correct : forall sch discard f depth mid target bs,
  wf sch = true -> (mid < length sch)%nat ->
  (target = VNil \/ wt_msg sch mid target = true) ->
  Z.of_nat (length bs) + 8 < Z.of_N two63 ->
  run_unmarshal sch discard (unmarshal_at sch discard f (depth - 1)) depth mid (canon_unmarshal sch mid) target bs
  = Some (unmarshal_at sch discard (S f) depth mid target bs).
Proof.
  intros sch discard f depth mid target bs Hwf Hmid Htg Hlen8.
  assert (Hlen : Z.of_nat (length bs) < Z.of_N two63) by lia.
  unfold run_unmarshal, canon_unmarshal. cbn [unmarshal_at].
  destruct (get_msg sch mid) as [md|] eqn:Hgm.
  2:{ unfold get_msg in Hgm. apply nth_error_None in Hgm. lia. }
  assert (Hmwf : msg_wf (length sch) md = true).
  { unfold wf in Hwf. rewrite forallb_forall in Hwf. apply Hwf. eapply nth_error_In. exact Hgm. }
  set (child := unmarshal_at sch discard f (depth - 1)).
  set (init := match target with VMsg _ _ => target | _ => empty_msg md end).
  assert (Hinit : wt_msg sch mid init = true).
  { subst init. destruct Htg as [->|Ht]; [apply empty_msg_wt; exact Hgm|]. destruct target; try discriminate Ht. exact Ht. }
  destruct init as [| | | | | |ss u| |] eqn:Einit; try discriminate Hinit.
  cbn [slots_of unk_of].
  change {| us_idx := 0; us_rest := bs; us_slots := ss; us_unk := u |} with
         {| us_idx := 0; us_rest := sfx bs 0; us_slots := ss; us_unk := u |}.
  atom. ifret. destruct (depth <=? 0); [reflexivity|].
  atom. rewrite set_idx_at by lia.
  rewrite run_for.
  pose proof (main_loop sch discard child depth (m_fields md) bs (S (length bs)) Hlen Hlen8 md eq_refl ltac:(lia)
                (fun m mdm p Hg => unmarshal_at_nil sch discard f (depth - 1) m mdm p Hg)
                (unmarshal_at_child_wt sch discard f (depth - 1)) mid Hgm Hmwf (S (length bs)) 0 ss u ltac:(lia) Hinit) as Hmain.
  unfold main_body in Hmain. rewrite Hmain. reflexivity.
Qed.
