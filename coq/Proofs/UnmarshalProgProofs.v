(* Proofs/UnmarshalProgProofs.v — the canonical unmarshal program (Model/UnmarshalProg.v: canon_unmarshal, run by the
   interpreter run_unmarshal) computes Decode.v's hand-written decoder unmarshal_at. *)
From CP Require Import UnmarshalProg Extra BytesLemmas RuntimeProofs DecodeTotal.
From Coq Require Import Lia ZifyN ZifyNat ZifyBool.
Local Open Scope Z_scope.

(* ---------------------------------------------------------------- the interpreter, unfolded *)
Section Unfold.
  Variable sch : schema.
  Variable discard : bool.
  Variable child : child_t.
  Variable depth : Z.
  Variable fs : list field.
  Variable data : list byte.
  Variable dlen : Z.
  Variable lfuel : nat.

  Notation exec' := (exec sch discard child depth fs data dlen lfuel).
  Notation run' := (run_block sch discard child depth fs data dlen lfuel).
  Notation cond' := (cond sch discard depth fs data dlen).
  Notation eval' := (eval sch fs data dlen).

  Definition block (b : list ustmt) (en : env) (st : ustate) : xres := leave en (run' b en st).

  Fixpoint for_loop (fuel : nat) (c : ucond) (body : list ustmt) (en : env) (st : ustate) : xres :=
    match fuel with
    | O => XDone OutOfFuel
    | S f =>
      xlift (cond' c en st) (fun t =>
        if t then match block body en st with XNext en' st' => for_loop f c body en' st' | r => r end
        else XNext en st)
    end.

  Fixpoint switch_find (z : Z) (cs : list (Z * list ustmt)) (dflt : list ustmt) (en : env) (st : ustate) : xres :=
    match cs with
    | [] => block dflt en st
    | (k, body) :: cs' => if z =? k then block body en st else switch_find z cs' dflt en st
    end.

  Lemma blk_eq b : forall en st,
    (fix blk (b : list ustmt) (en : env) (st : ustate) {struct b} : xres :=
       match b with
       | [] => XNext en st
       | s' :: b' => match exec' s' en st with XNext en' st' => blk b' en' st' | r => r end
       end) b en st = run' b en st.
  Proof. induction b as [|s b IH]; intros en st; [reflexivity|]. cbn [run_block]. destruct (exec' s en st); auto. Qed.

  Lemma exec_if c body en st :
    exec' (UsIf c body) en st = xlift (cond' c en st) (fun b => if b then block body en st else XNext en st).
  Proof. cbn [exec]. unfold block. destruct (cond' c en st) as [[|]| |]; cbn [xlift]; try reflexivity; apply f_equal; apply blk_eq. Qed.

  Lemma exec_ifelse c a b en st :
    exec' (UsIfElse c a b) en st = xlift (cond' c en st) (fun t => if t then block a en st else block b en st).
  Proof. cbn [exec]. unfold block. destruct (cond' c en st) as [[|]| |]; cbn [xlift]; try reflexivity; apply f_equal; apply blk_eq. Qed.

  Lemma exec_for c body en st : exec' (UsFor c body) en st = for_loop lfuel c body en st.
  Proof.
    cbn [exec].
    assert (H : forall fuel en st, (fix loop (fuel : nat) (en : env) (st : ustate) {struct fuel} : xres :=
         match fuel with
         | O => XDone OutOfFuel
         | S f =>
           xlift (cond' c en st) (fun t =>
             if t then match leave en ((fix blk (b : list ustmt) (en : env) (st : ustate) {struct b} : xres :=
        match b with
        | [] => XNext en st
        | s' :: b' => match exec' s' en st with XNext en' st' => blk b' en' st' | r => r end
        end) body en st) with XNext en' st' => loop f en' st' | r => r end
             else XNext en st)
         end) fuel en st = for_loop fuel c body en st).
    { clear en st. induction fuel as [|f IH]; intros en st; [reflexivity|].
      cbn [for_loop]. destruct (cond' c en st) as [[|]| |]; cbn [xlift]; try reflexivity.
      unfold block. rewrite (blk_eq body en st). destruct (leave en (run' body en st)); try reflexivity. apply IH. }
    apply H.
  Qed.

  Lemma exec_switch x cases dflt en st :
    exec' (UsSwitch x cases dflt) en st = xlift (var_int x en) (fun z => switch_find z cases dflt en st).
  Proof.
    cbn [exec]. destruct (var_int x en) as [z| |]; cbn [xlift]; try reflexivity.
    induction cases as [|[k body] cs IH]; cbn [switch_find]; unfold block; [apply f_equal; apply blk_eq|].
    destruct (z =? k); [apply f_equal; apply blk_eq|]. exact IH.
  Qed.

  Lemma run_app a : forall b en st,
    run' (a ++ b) en st = match run' a en st with XNext en' st' => run' b en' st' | r => r end.
  Proof.
    induction a as [|s a IH]; intros b en st; [reflexivity|]. cbn [app run_block].
    destruct (exec' s en st); try reflexivity. apply IH.
  Qed.
End Unfold.
