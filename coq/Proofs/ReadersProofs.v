(* Proofs/ReadersProofs.v — lemmas for C10 (clients cannot distinguish simulated states) and C11
   (interleavings of read-only operations). The only fact about Model/Reflect.v used here is
   [read_frame]: a read operation returns the heap unchanged. *)
From CP Require Import Readers.
From Coq Require Import Lia.
Local Open Scope N_scope.

(* ================================================================================================
   C10: the simulation lemma, for two arbitrary transition systems over the same API
   ================================================================================================ *)
Section Simulation.
  Context {S1 S2 A B : Type}.
  Variable step1 : S1 -> A -> S1 * B.
  Variable step2 : S2 -> A -> S2 * B.
  Variable Rel : S1 -> S2 -> Prop.
  Hypothesis Rel_step : forall s1 s2 a, Rel s1 s2 ->
    snd (step1 s1 a) = snd (step2 s2 a) /\ Rel (fst (step1 s1 a)) (fst (step2 s2 a)).

  Lemma sim_client : forall R (c : client A B R) s1 s2, Rel s1 s2 ->
    snd (run_client step1 c s1) = snd (run_client step2 c s2) /\
    Rel (fst (run_client step1 c s1)) (fst (run_client step2 c s2)).
  Proof.
    induction c as [r | a k IH]; intros s1 s2 HR; simpl.
    - split; [reflexivity | exact HR].
    - destruct (Rel_step s1 s2 a HR) as [Ho Hs].
      destruct (step1 s1 a) as [s1' o1]. destruct (step2 s2 a) as [s2' o2]. simpl in *. subst o2.
      apply IH. exact Hs.
  Qed.

  Lemma sim_outs : forall ops s1 s2, Rel s1 s2 -> outs step1 s1 ops = outs step2 s2 ops.
  Proof.
    induction ops as [| a ops IH]; intros s1 s2 HR; simpl; [reflexivity |].
    destruct (Rel_step s1 s2 a HR) as [Ho Hs].
    destruct (step1 s1 a) as [s1' o1]. destruct (step2 s2 a) as [s2' o2]. simpl in *. subst o2.
    f_equal. apply IH. exact Hs.
  Qed.
End Simulation.

(* the function form of a client is the tree form *)
Lemma run_fclient_tree : forall {St A B R} (stp : St -> A -> St * B) fuel (f : list B -> A + R) seen s,
  run_fclient stp fuel f seen s = run_client stp (tree_of fuel f seen) s.
Proof.
  induction fuel as [| fu IH]; intros f seen s; simpl; [reflexivity |].
  destruct (f seen) as [a | r]; simpl; [| reflexivity].
  destruct (stp s a) as [s' out]. apply IH.
Qed.

(* observational equivalence (equal outputs for every closed operation sequence) is a simulation *)
Section ObsEquiv.
  Context {S1 S2 A B : Type}.
  Variable step1 : S1 -> A -> S1 * B.
  Variable step2 : S2 -> A -> S2 * B.
  Definition obs_equiv (s1 : S1) (s2 : S2) : Prop := forall ops, outs step1 s1 ops = outs step2 s2 ops.

  Lemma obs_equiv_step : forall s1 s2 a, obs_equiv s1 s2 ->
    snd (step1 s1 a) = snd (step2 s2 a) /\ obs_equiv (fst (step1 s1 a)) (fst (step2 s2 a)).
  Proof.
    intros s1 s2 a H. split.
    - specialize (H [a]). simpl in H.
      destruct (step1 s1 a) as [s1' o1]. destruct (step2 s2 a) as [s2' o2]. simpl. congruence.
    - intros ops. specialize (H (a :: ops)). simpl in H.
      destruct (step1 s1 a) as [s1' o1]. destruct (step2 s2 a) as [s2' o2]. simpl. congruence.
  Qed.

  Lemma obs_equiv_clients : forall s1 s2, obs_equiv s1 s2 ->
    forall R (c : client A B R), snd (run_client step1 c s1) = snd (run_client step2 c s2).
  Proof.
    intros s1 s2 H R c.
    exact (proj1 (sim_client step1 step2 obs_equiv obs_equiv_step R c s1 s2 H)).
  Qed.

  Lemma obs_equiv_fclients : forall s1 s2, obs_equiv s1 s2 ->
    forall R fuel (f : list B -> A + R),
      snd (run_fclient step1 fuel f [] s1) = snd (run_fclient step2 fuel f [] s2).
  Proof.
    intros s1 s2 H R fuel f. rewrite !run_fclient_tree. apply obs_equiv_clients. exact H.
  Qed.
End ObsEquiv.

(* ================================================================================================
   C11: read operations leave the heap unchanged
   ================================================================================================ *)
Lemma read_frame : forall sch h o, is_read o = true -> fst (step sch h o) = h.
Proof.
  intros sch h o Hr.
  destruct o; simpl in Hr; try discriminate; unfold step;
    repeat match goal with
           | |- fst (match ?x with _ => _ end) = _ => destruct x
           | |- fst (if ?x then _ else _) = _ => destruct x
           | |- fst (let (_, _) := ?x in _) = _ => destruct x
           end; reflexivity.
Qed.

Lemma read_step : forall sch h o, is_read o = true -> step sch h o = (h, snd (step sch h o)).
Proof.
  intros sch h o Hr. pose proof (read_frame sch h o Hr) as H.
  destruct (step sch h o) as [h' r]. simpl in *. subst. reflexivity.
Qed.

(* a client that only reads leaves the heap unchanged (Equal, Clone-from, Size-by-reflection ... ) *)
Lemma reads_only_frame : forall sch R (c : client op pval R) h,
  reads_only c -> fst (run_client (step sch) c h) = h.
Proof.
  intros sch R c h Hro. revert h.
  induction Hro as [r | o k Ho Hk IH]; intros h; simpl; [reflexivity |].
  rewrite (read_step sch h o Ho). apply IH.
Qed.

(* ---- set_nth ------------------------------------------------------------------------------------ *)
Lemma nth_error_set_nth_eq : forall {A} (l : list A) i x y, nth_error l i = Some y -> nth_error (set_nth l i x) i = Some x.
Proof.
  induction l as [| a l IH]; intros [| i] x y H; simpl in *; try discriminate; [reflexivity |].
  eapply IH; eauto.
Qed.
Lemma nth_error_set_nth_neq : forall {A} (l : list A) i j x, i <> j -> nth_error (set_nth l i x) j = nth_error l j.
Proof.
  induction l as [| a l IH]; intros [| i] [| j] x H; simpl; try reflexivity; try congruence.
  apply IH. congruence.
Qed.
Lemma Forall_set_nth : forall {A} (P : A -> Prop) (l : list A) i x, Forall P l -> P x -> Forall P (set_nth l i x).
Proof.
  induction l as [| a l IH]; intros [| i] x Hl Hx; simpl; auto; inversion Hl; subst; constructor; auto.
Qed.

(* ---- threads with closed operands ---------------------------------------------------------------- *)
Definition all_reads (ts : list thread) : Prop := Forall (Forall (fun o => is_read o = true)) ts.

Lemma run_thread_reads : forall sch h t, Forall (fun o => is_read o = true) t -> fst (run_thread sch h t) = h.
Proof.
  intros sch h t. revert h. induction t as [| o t IH]; intros h H; simpl; [reflexivity |].
  inversion H as [| ? ? Ho Ht]; subst.
  rewrite (read_step sch h o Ho). specialize (IH h Ht).
  destruct (run_thread sch h t) as [h'' rs]. simpl in *. exact IH.
Qed.

Lemma interleaving_reads : forall sch ts sched, interleaving ts sched -> all_reads ts ->
  forall h,
    fst (run_sched sch h sched) = h /\
    forall i t, nth_error ts i = Some t ->
                outputs_of i (snd (run_sched sch h sched)) = snd (run_thread sch h t).
Proof.
  intros sch ts sched Hil. induction Hil as [ts Hall | ts i o rest sched Hnth Hil IH]; intros Hreads h.
  - simpl. split; [reflexivity |]. intros i t Hi.
    rewrite Forall_forall in Hall. rewrite (Hall t (nth_error_In _ _ Hi)). reflexivity.
  - assert (Hi_reads : Forall (fun o => is_read o = true) (o :: rest)).
    { unfold all_reads in Hreads. rewrite Forall_forall in Hreads. apply Hreads. eapply nth_error_In; eauto. }
    inversion Hi_reads as [| ? ? Ho Hrest]; subst.
    assert (Hreads' : all_reads (set_nth ts i rest)) by (apply Forall_set_nth; assumption).
    destruct (IH Hreads' h) as [IHh IHo].
    simpl. rewrite (read_step sch h o Ho).
    destruct (run_sched sch h sched) as [h'' evs] eqn:Ers. simpl in *. split; [exact IHh |].
    intros j t Hj. unfold outputs_of. simpl.
    destruct (Nat.eqb i j) eqn:Eij.
    + apply Nat.eqb_eq in Eij. subst j. assert (Et : t = o :: rest) by (unfold thread in *; congruence). subst t. simpl.
      rewrite (read_step sch h o Ho).
      specialize (IHo i rest (nth_error_set_nth_eq ts i rest _ Hnth)). unfold outputs_of in IHo.
      destruct (run_thread sch h rest) as [h3 rs]. simpl in *. f_equal. exact IHo.
    + apply Nat.eqb_neq in Eij.
      apply IHo. rewrite nth_error_set_nth_neq by exact Eij. exact Hj.
Qed.

(* ---- adaptive threads (read-only clients) under any schedule ----------------------------------------- *)
Lemma advance_reads_only : forall sch R n (c : client op pval R) h, reads_only c ->
  fst (advance (step sch) n c h) = h /\ reads_only (snd (advance (step sch) n c h)).
Proof.
  intros sch R n. induction n as [| n IH]; intros c h Hro; simpl; [split; [reflexivity | exact Hro] |].
  destruct Hro as [r | o k Ho Hk]; simpl; [split; [reflexivity | constructor] |].
  rewrite (read_step sch h o Ho). apply IH. apply Hk.
Qed.

Lemma advance_S_call : forall sch R n (c : client op pval R) h o k, reads_only c ->
  snd (advance (step sch) n c h) = Call o k ->
  snd (advance (step sch) (S n) c h) = k (snd (step sch h o)).
Proof.
  intros sch R n. induction n as [| n IH]; intros c h o k Hro Hc.
  - simpl in Hc. subst c. simpl. inversion Hro; subst.
    rewrite (read_step sch h o) by assumption. reflexivity.
  - destruct Hro as [r | o' k' Ho' Hk'].
    + simpl in Hc. discriminate.
    + change (advance (step sch) (S (S n)) (Call o' k') h)
        with (let (s', out) := step sch h o' in advance (step sch) (S n) (k' out) s').
      change (advance (step sch) (S n) (Call o' k') h)
        with (let (s', out) := step sch h o' in advance (step sch) n (k' out) s') in Hc.
      rewrite (read_step sch h o' Ho') in *. apply IH; [apply Hk' | exact Hc].
Qed.

Lemma advance_S_ret : forall sch R n (c : client op pval R) h r, reads_only c ->
  snd (advance (step sch) n c h) = Ret r ->
  snd (advance (step sch) (S n) c h) = Ret r.
Proof.
  intros sch R n. induction n as [| n IH]; intros c h r Hro Hc.
  - simpl in Hc. subst c. reflexivity.
  - destruct Hro as [r' | o' k' Ho' Hk'].
    + simpl in *. exact Hc.
    + change (advance (step sch) (S (S n)) (Call o' k') h)
        with (let (s', out) := step sch h o' in advance (step sch) (S n) (k' out) s').
      change (advance (step sch) (S n) (Call o' k') h)
        with (let (s', out) := step sch h o' in advance (step sch) n (k' out) s') in Hc.
      rewrite (read_step sch h o' Ho') in *. apply IH; [apply Hk' | exact Hc].
Qed.

(* invariant of a schedule: thread i stands where its solo run stands after as many steps as the
   schedule has given it *)
Lemma sched_clients_reads : forall sch R (sched : list nat) (cs0 cs : list (client op pval R)) (done : list nat) h,
  Forall reads_only cs0 ->
  length cs = length cs0 ->
  (forall i c0, nth_error cs0 i = Some c0 ->
                nth_error cs i = Some (snd (advance (step sch) (count_id i done) c0 h))) ->
  fst (run_sched_clients sch h cs sched) = h /\
  forall i c0, nth_error cs0 i = Some c0 ->
               nth_error (snd (run_sched_clients sch h cs sched)) i =
               Some (snd (advance (step sch) (count_id i (done ++ sched)) c0 h)).
Proof.
  intros sch R sched. induction sched as [| j sched IH]; intros cs0 cs done h Hro Hlen Hinv.
  - simpl. split; [reflexivity |]. intros i c0 Hi. rewrite app_nil_r. apply Hinv. exact Hi.
  - assert (Hdone : forall i, count_id i (done ++ j :: sched) = count_id i ((done ++ [j]) ++ sched))
      by (intros; rewrite <- app_assoc; reflexivity).
    assert (Hcnt : forall i, count_id i (done ++ [j]) = if Nat.eqb i j then S (count_id i done) else count_id i done).
    { intros i. unfold count_id. rewrite filter_app, app_length. simpl.
      destruct (Nat.eqb i j); simpl; lia. }
    simpl.
    destruct (nth_error cs j) as [cj |] eqn:Ecj.
    + (* thread j exists *)
      assert (Hj0 : exists c0, nth_error cs0 j = Some c0).
      { destruct (nth_error cs0 j) eqn:E0; [eauto |].
        apply nth_error_None in E0. assert (nth_error cs j <> None) by congruence.
        apply nth_error_Some in H. lia. }
      destruct Hj0 as [c0j Hc0j].
      assert (Hroj : reads_only c0j).
      { rewrite Forall_forall in Hro. apply Hro. eapply nth_error_In; eauto. }
      assert (Hcj' : cj = snd (advance (step sch) (count_id j done) c0j h))
        by (pose proof (Hinv j c0j Hc0j) as Hcj; rewrite Ecj in Hcj; congruence).
      destruct cj as [r | o k].
      * (* finished: nothing happens; its solo run does not move either *)
        destruct (IH cs0 cs (done ++ [j]) h Hro Hlen) as [IHh IHo].
        { intros i c0 Hi. rewrite Hcnt. destruct (Nat.eqb i j) eqn:Eij.
          - apply Nat.eqb_eq in Eij. subst i. rewrite Hc0j in Hi. inversion Hi; subst c0.
            rewrite Ecj. f_equal. symmetry. apply advance_S_ret; [exact Hroj | symmetry; exact Hcj'].
          - apply Hinv. exact Hi. }
        split; [exact IHh |]. intros i c0 Hi. rewrite Hdone. apply IHo. exact Hi.
      * assert (Ho : is_read o = true).
        { destruct (advance_reads_only sch R (count_id j done) c0j h Hroj) as [_ Hr].
          rewrite <- Hcj' in Hr. inversion Hr; assumption. }
        rewrite (read_step sch h o Ho).
        destruct (IH cs0 (set_nth cs j (k (snd (step sch h o)))) (done ++ [j]) h Hro) as [IHh IHo].
        { rewrite <- Hlen. clear. revert j. induction cs as [| a cs IHc]; intros [| j]; simpl; auto. }
        { intros i c0 Hi. rewrite Hcnt. destruct (Nat.eqb i j) eqn:Eij.
          - apply Nat.eqb_eq in Eij. subst i. rewrite Hc0j in Hi. inversion Hi; subst c0.
            rewrite (nth_error_set_nth_eq cs j _ _ Ecj). f_equal. symmetry.
            apply advance_S_call; [exact Hroj | symmetry; exact Hcj'].
          - apply Nat.eqb_neq in Eij. rewrite nth_error_set_nth_neq by congruence. apply Hinv. exact Hi. }
        split; [exact IHh |]. intros i c0 Hi. rewrite Hdone. apply IHo. exact Hi.
    + (* no such thread *)
      destruct (IH cs0 cs (done ++ [j]) h Hro Hlen) as [IHh IHo].
      { intros i c0 Hi. rewrite Hcnt. destruct (Nat.eqb i j) eqn:Eij.
        - apply Nat.eqb_eq in Eij. subst i. rewrite (Hinv j c0 Hi) in Ecj. discriminate.
        - apply Hinv. exact Hi. }
      split; [exact IHh |]. intros i c0 Hi. rewrite Hdone. apply IHo. exact Hi.
Qed.

Lemma sched_clients_reads_top : forall sch R (cs : list (client op pval R)) (sched : list nat) h,
  Forall reads_only cs ->
  fst (run_sched_clients sch h cs sched) = h /\
  forall i c, nth_error cs i = Some c ->
              nth_error (snd (run_sched_clients sch h cs sched)) i =
              Some (snd (advance (step sch) (count_id i sched) c h)).
Proof.
  intros sch R cs sched h Hro.
  apply (sched_clients_reads sch R sched cs cs [] h Hro eq_refl).
  intros i c0 Hi. simpl. exact Hi.
Qed.

(* ---- the statements of Properties/C10.v on the reflection model ------------------------------------- *)
Lemma reflect_clients_cannot_distinguish : forall sch1 sch2 (h1 h2 : heap),
  (forall ops, outs (step sch1) h1 ops = outs (step sch2) h2 ops) ->
  forall R (c : client op pval R),
    snd (run_client (step sch1) c h1) = snd (run_client (step sch2) c h2).
Proof. intros sch1 sch2 h1 h2 H R c. exact (obs_equiv_clients (step sch1) (step sch2) h1 h2 H R c). Qed.

Lemma reflect_fclients_cannot_distinguish : forall sch1 sch2 (h1 h2 : heap),
  (forall ops, outs (step sch1) h1 ops = outs (step sch2) h2 ops) ->
  forall R fuel (f : list pval -> op + R),
    snd (run_fclient (step sch1) fuel f [] h1) = snd (run_fclient (step sch2) fuel f [] h2).
Proof. intros sch1 sch2 h1 h2 H R fuel f. exact (obs_equiv_fclients (step sch1) (step sch2) h1 h2 H R fuel f). Qed.

(* a client's answer is a function of what it observes: equal observations, equal answers, whatever
   the two systems are *)
Lemma client_result_determined_by_outputs : forall (S1 S2 A B : Type) (step1 : S1 -> A -> S1 * B) (step2 : S2 -> A -> S2 * B)
  (s1 : S1) (s2 : S2),
  (forall ops, outs step1 s1 ops = outs step2 s2 ops) ->
  forall R (c : client A B R), snd (run_client step1 c s1) = snd (run_client step2 c s2).
Proof. intros S1 S2 A B step1 step2 s1 s2 H R c. exact (obs_equiv_clients step1 step2 s1 s2 H R c). Qed.
