(* Proofs/LibSpecProofs.v — laws of Model/LibSpec.v [equal_msg] (proto.Equal's decision written on
   message values): it is an equivalence relation on well-typed values of a well-formed schema, and
   it is implied by equality of RefSpec's denotation [canon ∘ norm] (C10).

   Well-typedness is needed exactly where the Go representation guarantees something the raw value
   syntax does not: a Go map has no duplicate keys and its keys are of a legal key kind (kv_find takes
   the first entry; val_key_eqb is only reflexive on key-shaped values), and a message struct has one
   slot per declared field. NaN needs NO side condition: protobuf-go v1.34 equalFloat treats NaN as
   equal to NaN (any payloads), and so does eq_float. *)
From CP Require Import LibSpec ValInd CodecDet.
From Coq Require Import Lia Permutation.
Local Open Scope N_scope.

(* ================================================================================================
   scalars
   ================================================================================================ *)
Lemma bytes_eqb_true a b : bytes_eqb a b = true <-> a = b.
Proof. unfold bytes_eqb. destruct (list_eq_dec Byte.byte_eq_dec a b); split; congruence. Qed.
Lemma bytes_eqb_refl a : bytes_eqb a a = true.
Proof. apply bytes_eqb_true. reflexivity. Qed.
Lemma bytes_eqb_sym a b : bytes_eqb a b = bytes_eqb b a.
Proof. unfold bytes_eqb. destruct (list_eq_dec Byte.byte_eq_dec a b), (list_eq_dec Byte.byte_eq_dec b a); congruence. Qed.

Lemma eq_float_refl k x : eq_float k x x = true.
Proof. unfold eq_float. destruct (f_is_nan k x); simpl; [reflexivity|]. rewrite N.eqb_refl. reflexivity. Qed.
Lemma eq_float_sym k x y : eq_float k x y = eq_float k y x.
Proof.
  unfold eq_float. rewrite (N.eqb_sym x y).
  destruct (f_is_nan k x), (f_is_nan k y), (f_is_zero k x), (f_is_zero k y), (y =? x); reflexivity.
Qed.
Lemma eq_float_trans k x y z : eq_float k x y = true -> eq_float k y z = true -> eq_float k x z = true.
Proof.
  unfold eq_float.
  destruct (f_is_nan k x) eqn:Nx, (f_is_nan k y) eqn:Ny, (f_is_nan k z) eqn:Nz; simpl; try congruence.
  intros H1 H2. apply orb_true_iff in H1. apply orb_true_iff in H2. apply orb_true_iff.
  destruct H1 as [H1|H1], H2 as [H2|H2].
  - left. apply N.eqb_eq in H1. apply N.eqb_eq in H2. apply N.eqb_eq. congruence.
  - apply N.eqb_eq in H1. subst y. right. exact H2.
  - apply N.eqb_eq in H2. subst z. right. exact H1.
  - right. apply andb_true_iff in H1. apply andb_true_iff in H2. apply andb_true_iff. tauto.
Qed.

Lemma eq_scalar_refl k a : eq_scalar k a a = true.
Proof.
  destruct k; cbn [eq_scalar]; first [apply eq_float_refl | apply bytes_eqb_refl | apply Z.eqb_refl | idtac].
  destruct (as_bool a); reflexivity.
Qed.
Lemma eq_scalar_sym k a b : eq_scalar k a b = eq_scalar k b a.
Proof.
  destruct k; cbn [eq_scalar]; first [apply eq_float_sym | apply bytes_eqb_sym | apply Z.eqb_sym | idtac].
  destruct (as_bool a), (as_bool b); reflexivity.
Qed.
Lemma eq_scalar_trans k a b c : eq_scalar k a b = true -> eq_scalar k b c = true -> eq_scalar k a c = true.
Proof.
  destruct k; cbn [eq_scalar];
    first [ apply eq_float_trans
          | (intros H1 H2; apply bytes_eqb_true in H1; apply bytes_eqb_true in H2; apply bytes_eqb_true; congruence)
          | (intros H1 H2; apply Z.eqb_eq in H1; apply Z.eqb_eq in H2; apply Z.eqb_eq; congruence)
          | idtac ].
  destruct (as_bool a), (as_bool b), (as_bool c); simpl; congruence.
Qed.

(* ================================================================================================
   unknown fields
   ================================================================================================ *)
Lemma of_num_notin num rs : ~ In num (map fst rs) -> of_num num rs = [].
Proof.
  unfold of_num. induction rs as [|r rs IH]; intros Hn; simpl; [reflexivity|].
  destruct (N.eqb_spec (fst r) num) as [E|E].
  - exfalso. apply Hn. left. exact E.
  - simpl. apply IH. intro Hin. apply Hn. right. exact Hin.
Qed.

Lemma per_num_all rx ry :
  forallb (fun num => bytes_eqb (of_num num rx) (of_num num ry)) (map fst rx ++ map fst ry) = true <->
  (forall num, of_num num rx = of_num num ry).
Proof.
  split.
  - intros H num. rewrite forallb_forall in H.
    destruct (in_dec N.eq_dec num (map fst rx ++ map fst ry)) as [Hin|Hn].
    + apply bytes_eqb_true. apply H. exact Hin.
    + rewrite !of_num_notin; [reflexivity| |]; intro Hin; apply Hn; apply in_or_app; tauto.
  - intros H. apply forallb_forall. intros num _. apply bytes_eqb_true. apply H.
Qed.

Definition unk_rel (x y : list byte) : Prop :=
  x = y \/ exists rx ry, split_unknown (S (length x)) x = Some rx /\ split_unknown (S (length y)) y = Some ry /\
                         forall num, of_num num rx = of_num num ry.

Lemma equal_unknown_spec x y : equal_unknown x y = true <-> (length x = length y /\ unk_rel x y).
Proof.
  unfold equal_unknown, unk_rel. rewrite andb_true_iff, orb_true_iff, Nat.eqb_eq, bytes_eqb_true.
  split; intros [Hl H]; (split; [exact Hl|]).
  - destruct H as [H|H]; [left; exact H|]. right.
    destruct (split_unknown (S (length x)) x) as [rx|]; [|discriminate H].
    destruct (split_unknown (S (length y)) y) as [ry|]; [|discriminate H].
    exists rx, ry. repeat split. apply per_num_all. exact H.
  - destruct H as [H|[rx [ry [H1 [H2 H3]]]]]; [left; exact H|]. right.
    rewrite H1, H2. apply per_num_all. exact H3.
Qed.

Lemma equal_unknown_refl x : equal_unknown x x = true.
Proof. apply equal_unknown_spec. split; [reflexivity|left; reflexivity]. Qed.

Lemma equal_unknown_sym_imp x y : equal_unknown x y = true -> equal_unknown y x = true.
Proof.
  rewrite !equal_unknown_spec. intros [Hl H]. split; [congruence|].
  destruct H as [H|[rx [ry [H1 [H2 H3]]]]]; [left; congruence|].
  right. exists ry, rx. repeat split; try assumption. intros num. symmetry. apply H3.
Qed.
Lemma equal_unknown_sym x y : equal_unknown x y = equal_unknown y x.
Proof.
  destruct (equal_unknown x y) eqn:E1, (equal_unknown y x) eqn:E2; try reflexivity.
  - apply equal_unknown_sym_imp in E1. congruence.
  - apply equal_unknown_sym_imp in E2. congruence.
Qed.

Lemma equal_unknown_trans x y z : equal_unknown x y = true -> equal_unknown y z = true -> equal_unknown x z = true.
Proof.
  rewrite !equal_unknown_spec. intros [Hl1 H1] [Hl2 H2]. split; [congruence|].
  destruct H1 as [H1|[rx [ry [A1 [A2 A3]]]]]; [subst y; exact H2|].
  destruct H2 as [H2|[ry' [rz [B1 [B2 B3]]]]]; [subst z; right; exists rx, ry; auto|].
  right. exists rx, rz. repeat split; try assumption.
  intros num. rewrite A3. rewrite A2 in B1. inversion B1; subst ry'. apply B3.
Qed.

Lemma equal_unknown_nil_l y : equal_unknown [] y = true -> y = [].
Proof. unfold equal_unknown. destruct y; simpl; [reflexivity|discriminate]. Qed.

(* ================================================================================================
   map keys
   ================================================================================================ *)
Lemma val_key_eqb_true a b : val_key_eqb a b = true -> a = b.
Proof.
  destruct a, b; cbn [val_key_eqb]; try discriminate; intro H.
  - apply Z.eqb_eq in H. congruence.
  - destruct b, b0; simpl in H; congruence.
  - destruct (list_eq_dec Byte.byte_eq_dec l l0); congruence.
Qed.

Lemma kv_find_Some_in kvs k y : kv_find kvs k = Some y -> In (k, y) kvs.
Proof.
  induction kvs as [|[k' v] t IH]; simpl; [discriminate|].
  destruct (val_key_eqb k' k) eqn:E.
  - intro H. inversion H; subst. apply val_key_eqb_true in E. subst. left. reflexivity.
  - intro H. right. apply IH. exact H.
Qed.

Lemma kv_find_in kk kvs k x :
  Forall (fun kv => key_shape kk (fst kv)) kvs -> nodup_keys (map fst kvs) = true ->
  In (k, x) kvs -> kv_find kvs k = Some x.
Proof.
  induction kvs as [|[k' v] t IH]; intros Hs Hn Hin; [destruct Hin|].
  inversion Hs as [|? ? Hk Hst]; subst. cbn [map fst nodup_keys] in Hn.
  apply andb_true_iff in Hn. destruct Hn as [Hn1 Hn2]. apply negb_true_iff in Hn1.
  cbn [kv_find]. destruct Hin as [Hin|Hin].
  - inversion Hin; subst. cbn [fst] in Hk. rewrite (val_key_eqb_refl kk k Hk). reflexivity.
  - destruct (val_key_eqb k' k) eqn:E.
    + apply val_key_eqb_true in E. subst k'. exfalso.
      assert (existsb (val_key_eqb k) (map fst t) = true); [|congruence].
      apply existsb_exists. exists k. split.
      * apply in_map_iff. exists (k, x). split; [reflexivity|exact Hin].
      * cbn [fst] in Hk. apply (val_key_eqb_refl kk k Hk).
    + apply IH; assumption.
Qed.

Lemma kv_find_none_notin kvs k : kv_find kvs k = None -> forall kk, key_shape kk k -> ~ In k (map fst kvs).
Proof.
  induction kvs as [|[k' v] t IH]; simpl; intros H kk Hk Hin; [exact Hin|].
  destruct (val_key_eqb k' k) eqn:E; [discriminate|].
  destruct Hin as [Hin|Hin].
  - subst k'. rewrite (val_key_eqb_refl kk k Hk) in E. discriminate.
  - eapply IH; eauto.
Qed.

(* ================================================================================================
   unfolding
   ================================================================================================ *)
Section Laws.
  Variable sch : schema.
  Hypothesis Hwf : wf sch = true.

  Notation eqm := (equal_msg sch).
  Notation eqe := (eq_elem sch (equal_msg sch)).
  Notation eqs := (eq_slot sch (equal_msg sch)).
  Notation wte := (wt_elem (wt_msg sch)).
  Notation wts := (wt_slot (wt_msg sch)).

  Fixpoint eq_slots (fs : list field) (ss1 ss2 : list val) : bool :=
    match ss1, ss2, fs with
    | a :: ss1', b :: ss2', f :: fs' =>
      Bool.eqb (slot_has f a) (slot_has f b) && (if slot_has f a then eqs f a b else true) && eq_slots fs' ss1' ss2'
    | [], [], _ => true
    | _, _, _ => false
    end.

  Lemma equal_msg_unfold mid s1 u1 s2 u2 :
    eqm mid (VMsg s1 u1) (VMsg s2 u2) =
    match get_msg sch mid with
    | None => false
    | Some md => eq_slots (m_fields md) s1 s2 && equal_unknown u1 u2
    end.
  Proof.
    cbn [equal_msg]. destruct (get_msg sch mid) as [md|]; [|reflexivity]. f_equal.
    generalize (m_fields md). revert s2.
    induction s1 as [|a s1 IH]; intros [|b s2] [|f fs]; cbn [eq_slots]; try reflexivity.
    f_equal. apply IH.
  Qed.

  Fixpoint none_has (fs : list field) (ss : list val) : bool :=
    match ss, fs with
    | s :: ss', f :: fs' => negb (slot_has f s) && none_has fs' ss'
    | _, _ => true
    end.
  Lemma reads_empty_unfold mid s u :
    reads_empty sch mid (VMsg s u) =
    match get_msg sch mid with
    | Some md => none_has (m_fields md) s && match u with [] => true | _ => false end
    | None => false
    end.
  Proof.
    cbn [reads_empty]. destruct (get_msg sch mid) as [md|]; [|reflexivity]. f_equal.
    generalize (m_fields md). induction s as [|a s IH]; intros [|f fs]; cbn [none_has]; try reflexivity.
    f_equal. apply IH.
  Qed.

  Lemma norm_unfold mid slots unk :
    norm sch mid (VMsg slots unk) =
    match get_msg sch mid with
    | None => VMsg slots unk
    | Some md => VMsg (zipf (norm_slot sch (norm sch)) (m_fields md) slots) unk
    end.
  Proof.
    cbn [norm]. destruct (get_msg sch mid) as [md|]; [|reflexivity]. f_equal.
    generalize (m_fields md). induction slots as [|s ss IH]; intros [|f fs]; cbn [zipf]; try reflexivity.
    f_equal. apply IH.
  Qed.

  (* well-typed message-typed elements are nil or messages *)
  Lemma wt_msg_shape mid v : wt_msg sch mid v = true -> exists s u, v = VMsg s u.
  Proof. destruct v; try discriminate. eauto. Qed.

  Lemma eqe_msg_msg m s1 u1 s2 u2 : eqe (TMsg m) (VMsg s1 u1) (VMsg s2 u2) = eqm m (VMsg s1 u1) (VMsg s2 u2).
  Proof. reflexivity. Qed.

  (* messages that read as empty: equal to each other, and only to each other *)
  Lemma none_has_eq_slots fs : forall s1 s2,
    wt_slots sch fs s1 = true -> wt_slots sch fs s2 = true ->
    none_has fs s1 = true -> none_has fs s2 = true -> eq_slots fs s1 s2 = true.
  Proof.
    induction fs as [|f fs IH]; intros [|a s1] [|b s2] W1 W2 N1 N2; cbn in *; try discriminate; try reflexivity.
    apply andb_true_iff in W1. apply andb_true_iff in W2. apply andb_true_iff in N1. apply andb_true_iff in N2.
    destruct W1 as [_ W1], W2 as [_ W2], N1 as [Na N1], N2 as [Nb N2].
    apply negb_true_iff in Na. apply negb_true_iff in Nb. rewrite Na, Nb. simpl. apply IH; assumption.
  Qed.

  Lemma reads_empty_equal mid a b : wt_msg sch mid a = true -> wt_msg sch mid b = true ->
    reads_empty sch mid a = true -> reads_empty sch mid b = true -> eqm mid a b = true.
  Proof.
    intros Wa Wb Ea Eb.
    destruct (wt_msg_shape _ _ Wa) as [s1 [u1 ->]]. destruct (wt_msg_shape _ _ Wb) as [s2 [u2 ->]].
    rewrite wt_msg_unfold in Wa, Wb. rewrite reads_empty_unfold in Ea, Eb. rewrite equal_msg_unfold.
    destruct (get_msg sch mid) as [md|]; [|discriminate].
    apply andb_true_iff in Wa. apply andb_true_iff in Wb. apply andb_true_iff in Ea. apply andb_true_iff in Eb.
    destruct Wa as [Wa _], Wb as [Wb _], Ea as [Ea Ua], Eb as [Eb Ub].
    destruct u1; [|discriminate]. destruct u2; [|discriminate].
    rewrite none_has_eq_slots by assumption. reflexivity.
  Qed.

  Lemma eq_slots_none_has fs : forall s1 s2, eq_slots fs s1 s2 = true -> none_has fs s1 = none_has fs s2.
  Proof.
    induction fs as [|f fs IH]; intros [|a s1] [|b s2] H; cbn in *; try discriminate; try reflexivity.
    apply andb_true_iff in H. destruct H as [H H3]. apply andb_true_iff in H. destruct H as [H1 _].
    apply eqb_prop in H1. rewrite H1. f_equal. apply IH. exact H3.
  Qed.

  Lemma equal_reads_empty mid s1 u1 s2 u2 :
    eqm mid (VMsg s1 u1) (VMsg s2 u2) = true ->
    reads_empty sch mid (VMsg s1 u1) = reads_empty sch mid (VMsg s2 u2).
  Proof.
    rewrite equal_msg_unfold, !reads_empty_unfold. destruct (get_msg sch mid) as [md|]; [|discriminate].
    intro H. apply andb_true_iff in H. destruct H as [H1 H2].
    rewrite (eq_slots_none_has _ _ _ H1). f_equal.
    unfold equal_unknown in H2. apply andb_true_iff in H2. destruct H2 as [H2 _]. apply Nat.eqb_eq in H2.
    destruct u1, u2; simpl in H2; try reflexivity; discriminate.
  Qed.

  (* ================================================================================================
     reflexivity
     ================================================================================================ *)
  Lemma forall2b_refl {A} (p : A -> A -> bool) l : Forall (fun x => p x x = true) l -> forall2b p l l = true.
  Proof. induction 1 as [|x l Hx _ IH]; cbn [forall2b]; [reflexivity|]. rewrite Hx, IH. reflexivity. Qed.

  Lemma map_keys_shape kk t kvs : legal_key kk = true ->
    forallb (fun kv => wt_scalar kk (fst kv) && wte t (snd kv)) kvs = true ->
    Forall (fun kv => key_shape kk (fst kv)) kvs.
  Proof.
    intros Hl Hw. rewrite forallb_forall in Hw. apply Forall_forall. intros kv Hin.
    specialize (Hw kv Hin). apply andb_true_iff in Hw. apply key_shape_of_wt; tauto.
  Qed.

  Definition Rm (v : val) : Prop := forall mid, wt_msg sch mid v = true -> eqm mid v v = true.
  Definition Re (v : val) : Prop := forall t, wte t v = true -> eqe t v v = true.
  Definition Rs (v : val) : Prop :=
    forall f, field_legal f -> wts f v = true -> slot_has f v = true -> eqs f v v = true.

  Lemma Re_of_Rm v : Rm v -> Re v.
  Proof.
    intros Hm [k|m] Hw; cbn [eq_elem wt_elem] in *; [apply eq_scalar_refl|].
    destruct v; try reflexivity; apply Hm; exact Hw.
  Qed.

  Lemma Rs_leaf v : (forall mid, wt_msg sch mid v = false) -> (forall l, v <> VList l) -> (forall p, v <> VSome p) ->
    (forall kvs, v <> VMap kvs) -> Rs v.
  Proof.
    intros Hnm Hl Hs Hmp f _ Hw Hh. unfold wt_slot, eq_slot, slot_has in *.
    destruct (f_shape f).
    - destruct (f_ty f) as [k|m]; cbn [wt_elem] in Hw; [apply eq_scalar_refl|].
      destruct v; try discriminate Hh; rewrite Hnm in Hw; discriminate Hw.
    - destruct v; try discriminate Hw; try discriminate Hh. exfalso. eapply Hl. reflexivity.
    - destruct v; try discriminate Hw; try discriminate Hh. exfalso. eapply Hs. reflexivity.
    - destruct v; try discriminate Hw; try discriminate Hh. exfalso. eapply Hmp. reflexivity.
  Qed.

  Lemma eq_slots_refl fs : forall s, Forall field_legal fs -> Forall Rs s -> wt_slots sch fs s = true ->
    eq_slots fs s s = true.
  Proof.
    induction fs as [|f fs IH]; intros [|a s] Hfl HR Hw; cbn in *; try discriminate; try reflexivity.
    apply andb_true_iff in Hw. destruct Hw as [Hwa Hw].
    inversion Hfl; subst. inversion HR as [|? ? Ha HRs]; subst.
    rewrite eqb_reflx. simpl. rewrite IH by assumption.
    destruct (slot_has f a) eqn:Hh; [|reflexivity]. rewrite (Ha f) by assumption. reflexivity.
  Qed.

  Lemma refl_P : forall v, Rm v /\ Rs v.
  Proof.
    apply val_ind'.
    - intros z. split; [intros mid H; discriminate H|apply Rs_leaf; intros; try reflexivity; discriminate].
    - intros b. split; [intros mid H; discriminate H|apply Rs_leaf; intros; try reflexivity; discriminate].
    - intros n. split; [intros mid H; discriminate H|apply Rs_leaf; intros; try reflexivity; discriminate].
    - intros l. split; [intros mid H; discriminate H|apply Rs_leaf; intros; try reflexivity; discriminate].
    - split; [intros mid H; discriminate H|apply Rs_leaf; intros; try reflexivity; discriminate].
    - intros p [Hm _]. split; [intros mid H; discriminate H|].
      intros f _ Hw Hh. unfold wt_slot, eq_slot, slot_has in *.
      destruct (f_shape f); try discriminate Hh.
      + destruct (f_ty f) as [k|m]; [destruct k; discriminate Hw|discriminate Hw].
      + apply (Re_of_Rm p Hm). exact Hw.
    - intros slots unk IH.
      assert (Hm : Rm (VMsg slots unk)).
      { intros mid Hw. rewrite wt_msg_unfold in Hw. rewrite equal_msg_unfold.
        destruct (get_msg sch mid) as [md|] eqn:Hg; [|discriminate Hw].
        apply andb_true_iff in Hw. destruct Hw as [Hw _].
        rewrite equal_unknown_refl, eq_slots_refl; [reflexivity| | |exact Hw].
        - eapply wf_field_legal; eassumption.
        - eapply Forall_impl; [|exact IH]. intros a [_ Ha]. exact Ha. }
      split; [exact Hm|].
      intros f _ Hw Hh. unfold wt_slot, eq_slot, slot_has in *.
      destruct (f_shape f); try discriminate Hw.
      destruct (f_ty f) as [k|m]; cbn [wt_elem] in Hw; [destruct k; discriminate Hw|].
      apply Hm. exact Hw.
    - intros l IH. split; [intros mid H; discriminate H|].
      intros f _ Hw Hh. unfold wt_slot, eq_slot, slot_has in *.
      destruct (f_shape f); try discriminate Hw.
      + destruct (f_ty f) as [k|m]; cbn [wt_elem] in Hw; [destruct k; discriminate Hw|discriminate Hw].
      + apply forall2b_refl. rewrite forallb_forall in Hw. rewrite Forall_forall in IH. apply Forall_forall.
        intros x Hin. apply (Re_of_Rm x (proj1 (IH x Hin))). apply Hw. exact Hin.
    - intros kvs IH. split; [intros mid H; discriminate H|].
      intros f Hfl Hw Hh. unfold wt_slot, eq_slot, slot_has in *.
      destruct (f_shape f) as [| |oi|kk] eqn:Hsh; try discriminate Hw.
      + destruct (f_ty f) as [k|m]; cbn [wt_elem] in Hw; [destruct k; discriminate Hw|discriminate Hw].
      + apply andb_true_iff in Hw. destruct Hw as [Hw Hnd].
        rewrite Nat.eqb_refl. simpl. apply forallb_forall. intros [k x] Hin. cbn [fst snd].
        rewrite (kv_find_in kk kvs k x); [| |exact Hnd|exact Hin].
        * rewrite Forall_forall in IH. apply (Re_of_Rm x (proj1 (proj2 (IH _ Hin)))).
          rewrite forallb_forall in Hw. specialize (Hw _ Hin). apply andb_true_iff in Hw. apply Hw.
        * eapply map_keys_shape; [|exact Hw]. apply Hfl. exact Hsh.
  Qed.

  Lemma equal_msg_refl_lemma mid v : wt_msg sch mid v = true -> eqm mid v v = true.
  Proof. apply (proj1 (refl_P v)). Qed.

  (* ================================================================================================
     symmetry
     ================================================================================================ *)
  Definition Sm (v1 : val) : Prop := forall v2 mid, wt_msg sch mid v1 = true -> wt_msg sch mid v2 = true ->
    eqm mid v1 v2 = true -> eqm mid v2 v1 = true.
  Definition Se (v1 : val) : Prop := forall t v2, wte t v1 = true -> wte t v2 = true ->
    eqe t v1 v2 = true -> eqe t v2 v1 = true.
  Definition Ss (v1 : val) : Prop := forall f v2, field_legal f -> wts f v1 = true -> wts f v2 = true ->
    slot_has f v1 = true -> slot_has f v2 = true -> eqs f v1 v2 = true -> eqs f v2 v1 = true.

  Lemma Se_of_Sm v1 : Sm v1 -> Se v1.
  Proof.
    intros Hm [k|m] v2 W1 W2 H; cbn [eq_elem wt_elem] in *; [rewrite eq_scalar_sym; exact H|].
    destruct v1; try discriminate W1; destruct v2; try discriminate W2; cbn [reads_empty] in *;
      try exact H; try reflexivity.
    apply Hm; assumption.
  Qed.

  Lemma Ss_leaf v : (forall mid, wt_msg sch mid v = false) -> (forall l, v <> VList l) -> (forall p, v <> VSome p) ->
    (forall kvs, v <> VMap kvs) -> Ss v.
  Proof.
    intros Hnm Hl Hs Hmp f v2 _ Hw _ Hh _. unfold wt_slot, eq_slot, slot_has in *.
    destruct (f_shape f).
    - destruct (f_ty f) as [k|m]; cbn [wt_elem] in Hw; [intro H; rewrite eq_scalar_sym; exact H|].
      destruct v; try discriminate Hh; rewrite Hnm in Hw; discriminate Hw.
    - destruct v; try discriminate Hw; try discriminate Hh. exfalso. eapply Hl. reflexivity.
    - destruct v; try discriminate Hw; try discriminate Hh. exfalso. eapply Hs. reflexivity.
    - destruct v; try discriminate Hw; try discriminate Hh. exfalso. eapply Hmp. reflexivity.
  Qed.

  Lemma forall2b_sym t la : forall lb, Forall Se la -> forallb (wte t) la = true -> forallb (wte t) lb = true ->
    forall2b (eqe t) la lb = true -> forall2b (eqe t) lb la = true.
  Proof.
    induction la as [|a la IH]; intros [|b lb] HS Wa Wb H; cbn [forall2b forallb] in *; try discriminate; try reflexivity.
    inversion HS; subst.
    apply andb_true_iff in Wa. apply andb_true_iff in Wb. apply andb_true_iff in H.
    destruct Wa, Wb, H. apply andb_true_iff. split; [|apply IH; assumption].
    match goal with Ha : Se a |- _ => apply Ha; assumption end.
  Qed.

  Lemma shape_keys kk (kvs : list (val * val)) :
    Forall (fun kv => key_shape kk (fst kv)) kvs -> Forall (key_shape kk) (map fst kvs).
  Proof. intro H. apply Forall_forall. intros k Hin. apply in_map_iff in Hin. destruct Hin as [kv [<- Hin]].
         rewrite Forall_forall in H. apply H. exact Hin. Qed.

  Lemma map_entries_sym kk t ka kb :
    Forall (fun kv => key_shape kk (fst kv)) ka -> Forall (fun kv => key_shape kk (fst kv)) kb ->
    nodup_keys (map fst ka) = true -> nodup_keys (map fst kb) = true ->
    length ka = length kb ->
    (forall k x y, In (k, x) ka -> In (k, y) kb -> eqe t x y = true -> eqe t y x = true) ->
    forallb (fun kv => match kv_find kb (fst kv) with Some y => eqe t (snd kv) y | None => false end) ka = true ->
    forallb (fun kv => match kv_find ka (fst kv) with Some y => eqe t (snd kv) y | None => false end) kb = true.
  Proof.
    intros Sa Sb Na Nb Hlen Hsym H. rewrite forallb_forall in H. apply forallb_forall. intros [k y] Hin. cbn [fst snd].
    assert (Hincl : incl (map fst ka) (map fst kb)).
    { intros k' Hk'. apply in_map_iff in Hk'. destruct Hk' as [[k'' x] [<- Hx]]. cbn [fst].
      specialize (H _ Hx). cbn [fst snd] in H. destruct (kv_find kb k'') as [y'|] eqn:E; [|discriminate H].
      apply kv_find_Some_in in E. apply in_map_iff. exists (k'', y'). split; [reflexivity|exact E]. }
    assert (Hback : incl (map fst kb) (map fst ka)).
    { apply NoDup_length_incl; [| |exact Hincl].
      - eapply nodup_keys_NoDup; [apply shape_keys; exact Sa|exact Na].
      - rewrite !map_length. lia. }
    assert (Hk : In k (map fst ka)) by (apply Hback; apply in_map_iff; exists (k, y); split; [reflexivity|exact Hin]).
    apply in_map_iff in Hk. destruct Hk as [[k' x] [Hk' Hx]]. cbn [fst] in Hk'. subst k'.
    rewrite (kv_find_in kk ka k x Sa Na Hx).
    specialize (H _ Hx). cbn [fst snd] in H. destruct (kv_find kb k) as [y'|] eqn:E; [|discriminate H].
    rewrite (kv_find_in kk kb k y Sb Nb Hin) in E. inversion E; subst y'.
    eapply Hsym; eassumption.
  Qed.

  Lemma eq_slots_sym fs : forall s1 s2, Forall field_legal fs -> Forall Ss s1 ->
    wt_slots sch fs s1 = true -> wt_slots sch fs s2 = true ->
    eq_slots fs s1 s2 = true -> eq_slots fs s2 s1 = true.
  Proof.
    induction fs as [|f fs IH]; intros [|a s1] [|b s2] Hfl HS W1 W2 H; cbn in *; try discriminate; try reflexivity.
    apply andb_true_iff in W1. apply andb_true_iff in W2. destruct W1 as [Wa W1], W2 as [Wb W2].
    inversion Hfl as [|? ? Hf Hfs]; subst. inversion HS as [|? ? Ha HSs]; subst.
    apply andb_true_iff in H. destruct H as [H H3]. apply andb_true_iff in H. destruct H as [H1 H2].
    apply eqb_prop in H1. rewrite <- H1, eqb_reflx. simpl. rewrite (IH s1 s2) by assumption.
    destruct (slot_has f a) eqn:Hh; [|reflexivity]. rewrite (Ha f b) by (try assumption; congruence). reflexivity.
  Qed.

  Lemma sym_P : forall v, Sm v /\ Ss v.
  Proof.
    apply val_ind'.
    - intros z. split; [intros v2 mid H; discriminate H|apply Ss_leaf; intros; try reflexivity; discriminate].
    - intros b. split; [intros v2 mid H; discriminate H|apply Ss_leaf; intros; try reflexivity; discriminate].
    - intros n. split; [intros v2 mid H; discriminate H|apply Ss_leaf; intros; try reflexivity; discriminate].
    - intros l. split; [intros v2 mid H; discriminate H|apply Ss_leaf; intros; try reflexivity; discriminate].
    - split; [intros v2 mid H; discriminate H|apply Ss_leaf; intros; try reflexivity; discriminate].
    - intros p [Hm _]. split; [intros v2 mid H; discriminate H|].
      intros f v2 _ W1 W2 H1 H2. unfold wt_slot, eq_slot, slot_has in *.
      destruct (f_shape f); try discriminate H1.
      + destruct (f_ty f) as [k|m]; [destruct k; discriminate W1|discriminate W1].
      + destruct v2; try discriminate H2. apply (Se_of_Sm p Hm); assumption.
    - intros slots unk IH.
      assert (Hm : Sm (VMsg slots unk)).
      { intros v2 mid W1 W2. destruct (wt_msg_shape _ _ W2) as [s2 [u2 ->]].
        rewrite wt_msg_unfold in W1, W2. rewrite !equal_msg_unfold.
        destruct (get_msg sch mid) as [md|] eqn:Hg; [|discriminate W1].
        apply andb_true_iff in W1. apply andb_true_iff in W2. destruct W1 as [W1 _], W2 as [W2 _].
        intro H. apply andb_true_iff in H. destruct H as [H1 H2].
        rewrite equal_unknown_sym, H2, (eq_slots_sym (m_fields md) slots s2); try assumption; try reflexivity.
        - eapply wf_field_legal; eassumption.
        - eapply Forall_impl; [|exact IH]. intros a [_ Ha]. exact Ha. }
      split; [exact Hm|].
      intros f v2 _ W1 W2 H1 H2. unfold wt_slot, eq_slot, slot_has in *.
      destruct (f_shape f); try discriminate W1.
      destruct (f_ty f) as [k|m]; cbn [wt_elem] in W1, W2; [destruct k; discriminate W1|].
      destruct v2; try discriminate H2; try discriminate W2. apply Hm; assumption.
    - intros l IH. split; [intros v2 mid H; discriminate H|].
      intros f v2 _ W1 W2 H1 H2. unfold wt_slot, eq_slot, slot_has in *.
      destruct (f_shape f); try discriminate W1.
      + destruct (f_ty f) as [k|m]; cbn [wt_elem] in W1; [destruct k; discriminate W1|discriminate W1].
      + destruct v2; try discriminate H2. apply forall2b_sym; try assumption.
        eapply Forall_impl; [|exact IH]. intros a [Ha _]. apply Se_of_Sm. exact Ha.
    - intros kvs IH. split; [intros v2 mid H; discriminate H|].
      intros f v2 Hfl W1 W2 H1 H2. unfold wt_slot, eq_slot, slot_has in *.
      destruct (f_shape f) as [| |oi|kk] eqn:Hsh; try discriminate W1.
      + destruct (f_ty f) as [k|m]; cbn [wt_elem] in W1; [destruct k; discriminate W1|discriminate W1].
      + destruct v2 as [| | | | | | | |kb]; try discriminate H2.
        apply andb_true_iff in W1. apply andb_true_iff in W2. destruct W1 as [W1 N1], W2 as [W2 N2].
        intro H. apply andb_true_iff in H. destruct H as [Hlen H]. apply Nat.eqb_eq in Hlen.
        apply andb_true_iff. split; [apply Nat.eqb_eq; congruence|].
        assert (Hlk : legal_key kk = true) by (apply Hfl; exact Hsh).
        eapply (map_entries_sym kk); try eassumption; try (eapply map_keys_shape; eassumption).
        intros k x y Hx Hy Hxy. rewrite Forall_forall in IH.
        apply (Se_of_Sm x (proj1 (proj2 (IH _ Hx)))); [| |exact Hxy].
        * rewrite forallb_forall in W1. specialize (W1 _ Hx). apply andb_true_iff in W1. apply W1.
        * rewrite forallb_forall in W2. specialize (W2 _ Hy). apply andb_true_iff in W2. apply W2.
  Qed.

  Lemma equal_msg_sym_imp mid v1 v2 : wt_msg sch mid v1 = true -> wt_msg sch mid v2 = true ->
    eqm mid v1 v2 = true -> eqm mid v2 v1 = true.
  Proof. intros. apply (proj1 (sym_P v1)); assumption. Qed.

  Lemma equal_msg_sym_lemma mid v1 v2 : wt_msg sch mid v1 = true -> wt_msg sch mid v2 = true ->
    eqm mid v1 v2 = eqm mid v2 v1.
  Proof.
    intros W1 W2. destruct (eqm mid v1 v2) eqn:E1, (eqm mid v2 v1) eqn:E2; try reflexivity.
    - rewrite (equal_msg_sym_imp mid v1 v2 W1 W2 E1) in E2. discriminate.
    - rewrite (equal_msg_sym_imp mid v2 v1 W2 W1 E2) in E1. discriminate.
  Qed.

  (* ================================================================================================
     transitivity
     ================================================================================================ *)
  Definition Tm (v1 : val) : Prop := forall v2 v3 mid,
    wt_msg sch mid v1 = true -> wt_msg sch mid v2 = true -> wt_msg sch mid v3 = true ->
    eqm mid v1 v2 = true -> eqm mid v2 v3 = true -> eqm mid v1 v3 = true.
  Definition Te (v1 : val) : Prop := forall t v2 v3, wte t v1 = true -> wte t v2 = true -> wte t v3 = true ->
    eqe t v1 v2 = true -> eqe t v2 v3 = true -> eqe t v1 v3 = true.
  Definition Ts (v1 : val) : Prop := forall f v2 v3, field_legal f ->
    wts f v1 = true -> wts f v2 = true -> wts f v3 = true ->
    slot_has f v1 = true -> slot_has f v2 = true -> slot_has f v3 = true ->
    eqs f v1 v2 = true -> eqs f v2 v3 = true -> eqs f v1 v3 = true.

  Lemma Te_of_Tm v1 : Tm v1 -> Te v1.
  Proof.
    intros Hm [k|m] v2 v3 W1 W2 W3 H1 H2; cbn [eq_elem wt_elem] in *; [eapply eq_scalar_trans; eassumption|].
    destruct v1 as [| | | | | |s1 u1| |]; try discriminate W1;
      destruct v2 as [| | | | | |s2 u2| |]; try discriminate W2;
      destruct v3 as [| | | | | |s3 u3| |]; try discriminate W3; cbv beta iota in *;
      try exact H1; try exact H2; try reflexivity.
    - (* nil, msg, msg *) rewrite <- (equal_reads_empty _ _ _ _ _ H2). exact H1.
    - (* msg, nil, msg *) apply reads_empty_equal; assumption.
    - (* msg, msg, nil *) rewrite (equal_reads_empty _ _ _ _ _ H1). exact H2.
    - (* msg, msg, msg *) exact (Hm _ _ _ W1 W2 W3 H1 H2).
  Qed.

  Lemma Ts_leaf v : (forall mid, wt_msg sch mid v = false) -> (forall l, v <> VList l) -> (forall p, v <> VSome p) ->
    (forall kvs, v <> VMap kvs) -> Ts v.
  Proof.
    intros Hnm Hl Hs Hmp f v2 v3 _ Hw _ _ Hh _ _. unfold wt_slot, eq_slot, slot_has in *.
    destruct (f_shape f).
    - destruct (f_ty f) as [k|m]; cbn [wt_elem] in Hw; [apply eq_scalar_trans|].
      destruct v; try discriminate Hh; rewrite Hnm in Hw; discriminate Hw.
    - destruct v; try discriminate Hw; try discriminate Hh. exfalso. eapply Hl. reflexivity.
    - destruct v; try discriminate Hw; try discriminate Hh. exfalso. eapply Hs. reflexivity.
    - destruct v; try discriminate Hw; try discriminate Hh. exfalso. eapply Hmp. reflexivity.
  Qed.

  Lemma forall2b_trans t la : forall lb lc, Forall Te la ->
    forallb (wte t) la = true -> forallb (wte t) lb = true -> forallb (wte t) lc = true ->
    forall2b (eqe t) la lb = true -> forall2b (eqe t) lb lc = true -> forall2b (eqe t) la lc = true.
  Proof.
    induction la as [|a la IH]; intros [|b lb] [|c lc] HT Wa Wb Wc H1 H2; cbn [forall2b forallb] in *;
      try discriminate; try reflexivity.
    inversion HT as [|? ? Ha HTs]; subst.
    apply andb_true_iff in Wa. apply andb_true_iff in Wb. apply andb_true_iff in Wc.
    apply andb_true_iff in H1. apply andb_true_iff in H2.
    destruct Wa as [Wa1 Wa2], Wb as [Wb1 Wb2], Wc as [Wc1 Wc2], H1 as [H11 H12], H2 as [H21 H22].
    apply andb_true_iff. split; [exact (Ha t b c Wa1 Wb1 Wc1 H11 H21)|exact (IH lb lc HTs Wa2 Wb2 Wc2 H12 H22)].
  Qed.

  Lemma eq_slots_trans fs : forall s1 s2 s3, Forall field_legal fs -> Forall Ts s1 ->
    wt_slots sch fs s1 = true -> wt_slots sch fs s2 = true -> wt_slots sch fs s3 = true ->
    eq_slots fs s1 s2 = true -> eq_slots fs s2 s3 = true -> eq_slots fs s1 s3 = true.
  Proof.
    induction fs as [|f fs IH]; intros [|a s1] [|b s2] [|c s3] Hfl HT W1 W2 W3 E1 E2; cbn in *;
      try discriminate; try reflexivity.
    apply andb_true_iff in W1. apply andb_true_iff in W2. apply andb_true_iff in W3.
    destruct W1 as [Wa W1], W2 as [Wb W2], W3 as [Wc W3].
    inversion Hfl as [|? ? Hf Hfs]; subst. inversion HT as [|? ? Ha HTs]; subst.
    apply andb_true_iff in E1. destruct E1 as [E1 E13]. apply andb_true_iff in E1. destruct E1 as [E11 E12].
    apply andb_true_iff in E2. destruct E2 as [E2 E23]. apply andb_true_iff in E2. destruct E2 as [E21 E22].
    apply eqb_prop in E11. apply eqb_prop in E21.
    rewrite (IH s1 s2 s3) by assumption. rewrite E11, E21, eqb_reflx. simpl.
    destruct (slot_has f c) eqn:Hc; [|reflexivity].
    rewrite E11, E21 in E12. rewrite E21 in E22.
    rewrite (Ha f b c) by (try assumption; congruence). reflexivity.
  Qed.

  Lemma trans_P : forall v, Tm v /\ Ts v.
  Proof.
    apply val_ind'.
    - intros z. split; [intros v2 v3 mid H; discriminate H|apply Ts_leaf; intros; try reflexivity; discriminate].
    - intros b. split; [intros v2 v3 mid H; discriminate H|apply Ts_leaf; intros; try reflexivity; discriminate].
    - intros n. split; [intros v2 v3 mid H; discriminate H|apply Ts_leaf; intros; try reflexivity; discriminate].
    - intros l. split; [intros v2 v3 mid H; discriminate H|apply Ts_leaf; intros; try reflexivity; discriminate].
    - split; [intros v2 v3 mid H; discriminate H|apply Ts_leaf; intros; try reflexivity; discriminate].
    - intros p [Hm _]. split; [intros v2 v3 mid H; discriminate H|].
      intros f v2 v3 _ W1 W2 W3 H1 H2 H3. unfold wt_slot, eq_slot, slot_has in *.
      destruct (f_shape f); try discriminate H1.
      + destruct (f_ty f) as [k|m]; [destruct k; discriminate W1|discriminate W1].
      + destruct v2; try discriminate H2. destruct v3; try discriminate H3.
        exact (Te_of_Tm p Hm _ _ _ W1 W2 W3).
    - intros slots unk IH.
      assert (Hm : Tm (VMsg slots unk)).
      { intros v2 v3 mid W1 W2 W3.
        destruct (wt_msg_shape _ _ W2) as [s2 [u2 ->]]. destruct (wt_msg_shape _ _ W3) as [s3 [u3 ->]].
        rewrite wt_msg_unfold in W1, W2, W3. rewrite !equal_msg_unfold.
        destruct (get_msg sch mid) as [md|] eqn:Hg; [|discriminate W1].
        apply andb_true_iff in W1. apply andb_true_iff in W2. apply andb_true_iff in W3.
        destruct W1 as [W1 _], W2 as [W2 _], W3 as [W3 _].
        intros E1 E2. apply andb_true_iff in E1. apply andb_true_iff in E2.
        destruct E1 as [E11 E12], E2 as [E21 E22].
        rewrite (equal_unknown_trans _ _ _ E12 E22), (eq_slots_trans (m_fields md) slots s2 s3); try assumption; try reflexivity.
        - eapply wf_field_legal; eassumption.
        - eapply Forall_impl; [|exact IH]. intros a [_ Ha]. exact Ha. }
      split; [exact Hm|].
      intros f v2 v3 _ W1 W2 W3 H1 H2 H3. unfold wt_slot, eq_slot, slot_has in *.
      destruct (f_shape f); try discriminate W1.
      destruct (f_ty f) as [k|m]; cbn [wt_elem] in W1, W2, W3; [destruct k; discriminate W1|].
      destruct v2; try discriminate H2; try discriminate W2.
      destruct v3; try discriminate H3; try discriminate W3. apply Hm; assumption.
    - intros l IH. split; [intros v2 v3 mid H; discriminate H|].
      intros f v2 v3 _ W1 W2 W3 H1 H2 H3. unfold wt_slot, eq_slot, slot_has in *.
      destruct (f_shape f); try discriminate W1.
      + destruct (f_ty f) as [k|m]; cbn [wt_elem] in W1; [destruct k; discriminate W1|discriminate W1].
      + destruct v2; try discriminate H2. destruct v3; try discriminate H3.
        apply forall2b_trans; try assumption.
        eapply Forall_impl; [|exact IH]. intros a [Ha _]. apply Te_of_Tm. exact Ha.
    - intros kvs IH. split; [intros v2 v3 mid H; discriminate H|].
      intros f v2 v3 Hfl W1 W2 W3 H1 H2 H3. unfold wt_slot, eq_slot, slot_has in *.
      destruct (f_shape f) as [| |oi|kk] eqn:Hsh; try discriminate W1.
      + destruct (f_ty f) as [k|m]; cbn [wt_elem] in W1; [destruct k; discriminate W1|discriminate W1].
      + destruct v2 as [| | | | | | | |kb]; try discriminate H2.
        destruct v3 as [| | | | | | | |kc]; try discriminate H3.
        apply andb_true_iff in W1. apply andb_true_iff in W2. apply andb_true_iff in W3.
        destruct W1 as [W1 N1], W2 as [W2 N2], W3 as [W3 N3].
        intros E1 E2. apply andb_true_iff in E1. apply andb_true_iff in E2.
        destruct E1 as [L1 E1], E2 as [L2 E2]. apply Nat.eqb_eq in L1. apply Nat.eqb_eq in L2.
        apply andb_true_iff. split; [apply Nat.eqb_eq; congruence|].
        rewrite forallb_forall in E1, E2, W1, W2, W3. apply forallb_forall. intros [k x] Hx. cbn [fst snd].
        specialize (E1 _ Hx). cbn [fst snd] in E1.
        destruct (kv_find kb k) as [y|] eqn:Fy; [|discriminate E1].
        apply kv_find_Some_in in Fy. specialize (E2 _ Fy). cbn [fst snd] in E2.
        destruct (kv_find kc k) as [z|] eqn:Fz; [|discriminate E2].
        apply kv_find_Some_in in Fz.
        specialize (W1 _ Hx). specialize (W2 _ Fy). specialize (W3 _ Fz).
        apply andb_true_iff in W1. apply andb_true_iff in W2. apply andb_true_iff in W3. cbn [snd] in *.
        rewrite Forall_forall in IH.
        apply (Te_of_Tm x (proj1 (proj2 (IH _ Hx))) (f_ty f) y z); tauto.
  Qed.

  Lemma equal_msg_trans_lemma mid v1 v2 v3 :
    wt_msg sch mid v1 = true -> wt_msg sch mid v2 = true -> wt_msg sch mid v3 = true ->
    eqm mid v1 v2 = true -> eqm mid v2 v3 = true -> eqm mid v1 v3 = true.
  Proof. intros W1 W2 W3 E1 E2. exact (proj1 (trans_P v1) v2 v3 mid W1 W2 W3 E1 E2). Qed.

  (* ================================================================================================
     equal denotation (canon ∘ norm) implies equal
     ================================================================================================ *)
  Notation ns := (norm_slot sch (norm sch)).
  Notation ne := (norm_elem sch (norm sch)).

  Lemma cn_msg mid s u md : get_msg sch mid = Some md ->
    canon (norm sch mid (VMsg s u)) = VMsg (map canon (zipf ns (m_fields md) s)) u.
  Proof. intro Hg. rewrite norm_unfold, Hg. reflexivity. Qed.

  Lemma wt_msg_get mid v : wt_msg sch mid v = true -> exists md, get_msg sch mid = Some md.
  Proof. destruct v; try discriminate. cbn [wt_msg]. destruct (get_msg sch mid); [eauto|discriminate]. Qed.

  Lemma wt_norm_scalar k v : wt_scalar k v = true -> wt_scalar k (norm_scalar k v) = true.
  Proof. destruct k, v; intro H; try discriminate H; try exact H; reflexivity. Qed.

  Lemma scalar_elem_case k a b : wt_scalar k a = true -> wt_scalar k b = true ->
    canon (norm_scalar k a) = canon (norm_scalar k b) -> eq_scalar k a b = true.
  Proof.
    intros Wa Wb H.
    rewrite (canon_scalar k _ (wt_norm_scalar k a Wa)), (canon_scalar k _ (wt_norm_scalar k b Wb)) in H.
    destruct k; cbn [norm_scalar] in H; try (subst b; apply eq_scalar_refl).
    destruct a; try discriminate Wa; destruct b; try discriminate Wb; cbn [eq_scalar as_bytes];
      inversion H; subst; apply bytes_eqb_refl.
  Qed.

  (* the singular scalar slot: presence and value *)
  Lemma scalar_slot_case f k a b : f_shape f = Singular -> f_ty f = TScalar k ->
    wt_scalar k a = true -> wt_scalar k b = true -> canon (ns f a) = canon (ns f b) ->
    present k a = present k b /\ (present k a = true -> eq_scalar k a b = true).
  Proof.
    intros Hsh Hty Wa Wb. unfold norm_slot. rewrite Hsh, Hty.
    destruct k; try (rewrite (canon_scalar _ a Wa), (canon_scalar _ b Wb); intros <-; split;
                     [reflexivity|intros _; apply eq_scalar_refl]).
    destruct a as [| | |la| | | | |]; try discriminate Wa; destruct b as [| | |lb| | | | |]; try discriminate Wb;
      try destruct la; try destruct lb; cbn; intro H; try discriminate H; split; try reflexivity; try discriminate;
      intros _; inversion H; subst; apply bytes_eqb_refl.
  Qed.

  (* a slot whose denotation is the default slot's is not populated *)
  Lemma slot_default_not_has f s : wts f s = true -> canon (ns f s) = canon (default_slot f) -> slot_has f s = false.
  Proof.
    unfold wt_slot, norm_slot, default_slot, slot_has. intros Hw.
    destruct (f_shape f).
    - destruct (f_ty f) as [k|m]; cbn [wt_elem] in Hw; cbv beta iota.
      + destruct k; cbv beta iota; try (rewrite (canon_scalar _ s Hw); intros ->; reflexivity).
        destruct s as [| | |l| | | | |]; try discriminate Hw; try destruct l; cbn; intro H; try reflexivity; discriminate H.
      + destruct s; try discriminate Hw; cbv beta iota; intro H; try reflexivity.
        destruct (wt_msg_get _ _ Hw) as [md Hg]. rewrite (cn_msg _ _ _ _ Hg) in H. discriminate H.
    - destruct s as [| | | | | | |l|]; try discriminate Hw; cbv beta iota; intro H; try reflexivity.
      destruct l; [reflexivity|discriminate H].
    - destruct s; try discriminate Hw; cbv beta iota; intro H; try reflexivity. discriminate H.
    - destruct s as [| | | | | | | |kvs]; try discriminate Hw; cbv beta iota; intro H; try reflexivity.
      destruct kvs; [reflexivity|discriminate H].
  Qed.

  Lemma default_none_has fs : forall s, wt_slots sch fs s = true ->
    map canon (zipf ns fs s) = map canon (map default_slot fs) -> none_has fs s = true.
  Proof.
    induction fs as [|f fs IH]; intros [|a s] Hw H; cbn in *; try discriminate; try reflexivity.
    apply andb_true_iff in Hw. destruct Hw as [Wa Hw]. inversion H as [[H1 H2]].
    rewrite (slot_default_not_has f a Wa H1). simpl. apply IH; assumption.
  Qed.

  Lemma canon_norm_empty m s u md : wt_msg sch m (VMsg s u) = true -> get_msg sch m = Some md ->
    canon (norm sch m (VMsg s u)) = canon (empty_msg md) -> reads_empty sch m (VMsg s u) = true.
  Proof.
    intros Hw Hg. rewrite (cn_msg _ _ _ _ Hg). unfold empty_msg. rewrite canon_VMsg. intro H. inversion H as [[H1 H2]].
    rewrite reads_empty_unfold, Hg. rewrite wt_msg_unfold, Hg in Hw. apply andb_true_iff in Hw.
    rewrite (default_none_has _ _ (proj1 Hw) H1). reflexivity.
  Qed.

  Definition Cm (v1 : val) : Prop := forall v2 mid, wt_msg sch mid v1 = true -> wt_msg sch mid v2 = true ->
    canon (norm sch mid v1) = canon (norm sch mid v2) -> eqm mid v1 v2 = true.
  Definition Ce (v1 : val) : Prop := forall t v2, wte t v1 = true -> wte t v2 = true ->
    canon (ne t v1) = canon (ne t v2) -> eqe t v1 v2 = true.
  Definition Cs (v1 : val) : Prop := forall f v2, field_legal f -> wts f v1 = true -> wts f v2 = true ->
    canon (ns f v1) = canon (ns f v2) ->
    slot_has f v1 = slot_has f v2 /\ (slot_has f v1 = true -> eqs f v1 v2 = true).

  Lemma Ce_of_Cm v1 : Cm v1 -> Ce v1.
  Proof.
    intros Hm [k|m] v2 W1 W2 H; cbn [eq_elem wt_elem norm_elem] in *; [apply scalar_elem_case; assumption|].
    destruct v1 as [| | | | | |s1 u1| |]; try discriminate W1;
      destruct v2 as [| | | | | |s2 u2| |]; try discriminate W2; cbv beta iota in *.
    - reflexivity.
    - destruct (wt_msg_get _ _ W2) as [md Hg]. rewrite Hg in H. eapply canon_norm_empty; eauto.
    - destruct (wt_msg_get _ _ W1) as [md Hg]. rewrite Hg in H. eapply canon_norm_empty; eauto.
    - apply Hm; assumption.
  Qed.

  Lemma Cs_leaf v : (forall mid, wt_msg sch mid v = false) -> (forall l, v <> VList l) -> (forall p, v <> VSome p) ->
    (forall kvs, v <> VMap kvs) -> (forall s u, v <> VMsg s u) -> Cs v.
  Proof.
    intros Hnm Hl Hs Hmp Hmsg f v2 _ W1 W2 H.
    destruct (f_shape f) as [|pk|oi|kk] eqn:Hsh.
    - destruct (f_ty f) as [k|m] eqn:Hty.
      + unfold wt_slot in W1, W2. rewrite Hsh, Hty in W1, W2. cbn [wt_elem] in W1, W2.
        unfold slot_has, eq_slot. rewrite Hsh, Hty. eapply scalar_slot_case; eassumption.
      + (* singular message slot holding a leaf: only VNil is well typed *)
        unfold wt_slot in W1, W2. rewrite Hsh, Hty in W1, W2. cbn [wt_elem] in W1, W2.
        unfold norm_slot in H. rewrite Hsh, Hty in H. unfold slot_has, eq_slot. rewrite Hsh, Hty.
        destruct v; try (rewrite Hnm in W1; discriminate W1); try (exfalso; eapply Hmsg; reflexivity).
        destruct v2; try discriminate W2; [split; [reflexivity|discriminate]|].
        destruct (wt_msg_get _ _ W2) as [md Hg]. rewrite (cn_msg _ _ _ _ Hg) in H. discriminate H.
    - unfold wt_slot in W1, W2. unfold norm_slot in H. unfold slot_has, eq_slot. rewrite Hsh in *.
      destruct v; try discriminate W1; try (exfalso; eapply Hl; reflexivity).
      destruct v2 as [| | | | | | |l2|]; try discriminate W2; [split; [reflexivity|discriminate]|].
      destruct l2; [split; [reflexivity|discriminate]|discriminate H].
    - unfold wt_slot in W1, W2. unfold norm_slot in H. unfold slot_has, eq_slot. rewrite Hsh in *.
      destruct v; try discriminate W1; try (exfalso; eapply Hs; reflexivity).
      destruct v2; try discriminate W2; [split; [reflexivity|discriminate]|discriminate H].
    - unfold wt_slot in W1, W2. unfold norm_slot in H. unfold slot_has, eq_slot. rewrite Hsh in *.
      destruct v; try discriminate W1; try (exfalso; eapply Hmp; reflexivity).
      destruct v2 as [| | | | | | | |k2]; try discriminate W2; [split; [reflexivity|discriminate]|].
      destruct k2; [split; [reflexivity|discriminate]|discriminate H].
  Qed.

  Lemma list_case t la : forall lb, Forall Ce la -> forallb (wte t) la = true -> forallb (wte t) lb = true ->
    map canon (map (ne t) la) = map canon (map (ne t) lb) -> forall2b (eqe t) la lb = true.
  Proof.
    induction la as [|a la IH]; intros [|b lb] HC Wa Wb H; cbn [map forall2b forallb] in *; try discriminate; try reflexivity.
    inversion HC as [|? ? Ha HCs]; subst. inversion H as [[H1 H2]].
    apply andb_true_iff in Wa. apply andb_true_iff in Wb. destruct Wa as [Wa1 Wa2], Wb as [Wb1 Wb2].
    rewrite (Ha t b Wa1 Wb1 H1), (IH lb HCs Wa2 Wb2 H2). reflexivity.
  Qed.

  Lemma eq_slots_case fs : forall s1 s2, Forall field_legal fs -> Forall Cs s1 ->
    wt_slots sch fs s1 = true -> wt_slots sch fs s2 = true ->
    map canon (zipf ns fs s1) = map canon (zipf ns fs s2) -> eq_slots fs s1 s2 = true.
  Proof.
    induction fs as [|f fs IH]; intros [|a s1] [|b s2] Hfl HC W1 W2 H; cbn in *; try discriminate; try reflexivity.
    apply andb_true_iff in W1. apply andb_true_iff in W2. destruct W1 as [Wa W1], W2 as [Wb W2].
    inversion Hfl as [|? ? Hf Hfs]; subst. inversion HC as [|? ? Ha HCs]; subst. inversion H as [[H1 H2]].
    destruct (Ha f b Hf Wa Wb H1) as [Hh He].
    rewrite <- Hh, eqb_reflx, (IH s1 s2) by assumption. simpl.
    destruct (slot_has f a); [rewrite He by reflexivity|]; reflexivity.
  Qed.

  Definition nv (t : ftype) (kv : val * val) : val * val := (fst kv, ne t (snd kv)).

  Lemma map_case kk t ka kb :
    Forall (fun kv => key_shape kk (fst kv)) kb -> nodup_keys (map fst kb) = true ->
    (forall k x y, In (k, x) ka -> In (k, y) kb -> canon (ne t x) = canon (ne t y) -> eqe t x y = true) ->
    isort (fun a b => gen_key_ltb (fst a) (fst b)) (map cv (map (nv t) ka)) =
    isort (fun a b => gen_key_ltb (fst a) (fst b)) (map cv (map (nv t) kb)) ->
    Nat.eqb (length ka) (length kb) &&
    forallb (fun kv => match kv_find kb (fst kv) with Some y => eqe t (snd kv) y | None => false end) ka = true.
  Proof.
    intros Sb Nb Hc H.
    assert (Hp : Permutation (map cv (map (nv t) ka)) (map cv (map (nv t) kb))).
    { eapply Permutation_trans; [apply isort_perm|]. rewrite H. apply Permutation_sym, isort_perm. }
    apply andb_true_iff. split.
    - apply Nat.eqb_eq. apply Permutation_length in Hp. rewrite !map_length in Hp. exact Hp.
    - apply forallb_forall. intros [k x] Hx. cbn [fst snd].
      assert (Hin : In (k, canon (ne t x)) (map cv (map (nv t) kb))).
      { eapply Permutation_in; [exact Hp|]. apply in_map_iff. exists (k, ne t x). split; [reflexivity|].
        apply in_map_iff. exists (k, x). split; [reflexivity|exact Hx]. }
      apply in_map_iff in Hin. destruct Hin as [[k1 y1] [E1 Hin]]. apply in_map_iff in Hin.
      destruct Hin as [[k2 y] [E2 Hy]]. unfold nv in E2. unfold cv in E1. cbn [fst snd] in *.
      inversion E2; subst k1 y1. inversion E1; subst k2.
      rewrite (kv_find_in kk kb k y Sb Nb Hy). eapply Hc; eauto.
  Qed.

  Lemma canon_P2 : forall v, Cm v /\ Cs v.
  Proof.
    apply val_ind'.
    - intros z. split; [intros v2 mid H; discriminate H|apply Cs_leaf; intros; try reflexivity; discriminate].
    - intros b. split; [intros v2 mid H; discriminate H|apply Cs_leaf; intros; try reflexivity; discriminate].
    - intros n. split; [intros v2 mid H; discriminate H|apply Cs_leaf; intros; try reflexivity; discriminate].
    - intros l. split; [intros v2 mid H; discriminate H|apply Cs_leaf; intros; try reflexivity; discriminate].
    - split; [intros v2 mid H; discriminate H|apply Cs_leaf; intros; try reflexivity; discriminate].
    - (* VSome *) intros p [Hm _]. split; [intros v2 mid H; discriminate H|].
      intros f v2 _ W1 W2 H. unfold wt_slot in W1, W2. unfold norm_slot in H. unfold slot_has, eq_slot.
      destruct (f_shape f).
      + destruct (f_ty f) as [k|m]; [destruct k; discriminate W1|discriminate W1].
      + discriminate W1.
      + destruct v2; try discriminate W2; [discriminate H|].
        rewrite !canon_VSome in H. inversion H as [H1]. split; [reflexivity|intros _].
        apply (Ce_of_Cm p Hm); assumption.
      + discriminate W1.
    - (* VMsg *) intros slots unk IH.
      assert (Hm : Cm (VMsg slots unk)).
      { intros v2 mid W1 W2. destruct (wt_msg_shape _ _ W2) as [s2 [u2 ->]].
        destruct (wt_msg_get _ _ W1) as [md Hg]. rewrite !(cn_msg _ _ _ _ Hg). intro H. inversion H as [[H1 H2]].
        rewrite wt_msg_unfold, Hg in W1, W2. rewrite equal_msg_unfold, Hg.
        apply andb_true_iff in W1. apply andb_true_iff in W2. destruct W1 as [W1 _], W2 as [W2 _].
        rewrite equal_unknown_refl, (eq_slots_case (m_fields md) slots s2); try assumption; try reflexivity.
        - eapply wf_field_legal; eassumption.
        - eapply Forall_impl; [|exact IH]. intros a [_ Ha]. exact Ha. }
      split; [exact Hm|].
      intros f v2 _ W1 W2 H. unfold wt_slot in W1, W2. unfold norm_slot in H. unfold slot_has, eq_slot.
      destruct (f_shape f); try discriminate W1.
      destruct (f_ty f) as [k|m]; cbn [wt_elem] in W1, W2; [destruct k; discriminate W1|].
      destruct v2; try discriminate W2.
      + destruct (wt_msg_get _ _ W1) as [md Hg]. rewrite (cn_msg _ _ _ _ Hg) in H. discriminate H.
      + split; [reflexivity|intros _]. apply Hm; assumption.
    - (* VList *) intros l IH. split; [intros v2 mid H; discriminate H|].
      intros f v2 _ W1 W2 H. unfold wt_slot in W1, W2. unfold norm_slot in H. unfold slot_has, eq_slot.
      destruct (f_shape f); try discriminate W1.
      + destruct (f_ty f) as [k|m]; cbn [wt_elem] in W1; [destruct k; discriminate W1|discriminate W1].
      + assert (HC : Forall Ce l) by (eapply Forall_impl; [|exact IH]; intros a [Ha _]; apply Ce_of_Cm; exact Ha).
        destruct v2 as [| | | | | | |l2|]; try discriminate W2.
        * destruct l; [split; [reflexivity|discriminate]|discriminate H].
        * destruct l as [|a l], l2 as [|b l2]; try (split; [reflexivity|discriminate]); try discriminate H.
          cbv beta iota in H. cbn [map] in H. rewrite !canon_VList_cons in H. cbn [map] in H.
          inversion H as [[H1 H2]]. split; [reflexivity|intros _].
          apply list_case; try assumption. cbn [map]. congruence.
    - (* VMap *) intros kvs IH. split; [intros v2 mid H; discriminate H|].
      intros f v2 Hfl W1 W2 H. unfold wt_slot in W1, W2. unfold norm_slot in H. unfold slot_has, eq_slot.
      destruct (f_shape f) as [| |oi|kk] eqn:Hsh; try discriminate W1.
      + destruct (f_ty f) as [k|m]; cbn [wt_elem] in W1; [destruct k; discriminate W1|discriminate W1].
      + destruct v2 as [| | | | | | | |kb]; try discriminate W2.
        * destruct kvs; [split; [reflexivity|discriminate]|discriminate H].
        * destruct kvs as [|e1 ka], kb as [|e2 kb]; try (split; [reflexivity|discriminate]); try discriminate H.
          split; [reflexivity|intros _].
          apply andb_true_iff in W1. apply andb_true_iff in W2. destruct W1 as [W1 N1], W2 as [W2 N2].
          assert (Hlk : legal_key kk = true) by (apply Hfl; exact Hsh).
          apply (map_case kk (f_ty f) (e1 :: ka) (e2 :: kb)).
          -- eapply map_keys_shape; eassumption.
          -- exact N2.
          -- intros k x y Hx Hy Hxy. rewrite Forall_forall in IH.
             apply (Ce_of_Cm x (proj1 (proj2 (IH _ Hx)))); [| |exact Hxy].
             ++ rewrite forallb_forall in W1. specialize (W1 _ Hx). apply andb_true_iff in W1. apply W1.
             ++ rewrite forallb_forall in W2. specialize (W2 _ Hy). apply andb_true_iff in W2. apply W2.
          -- change (map (fun kv => (fst kv, ne (f_ty f) (snd kv))) (e1 :: ka)) with (map (nv (f_ty f)) (e1 :: ka)) in H.
             change (map (fun kv => (fst kv, ne (f_ty f) (snd kv))) (e2 :: kb)) with (map (nv (f_ty f)) (e2 :: kb)) in H.
             cbn [map] in H. rewrite !canon_VMap_cons in H. inversion H as [H1]. exact H1.
  Qed.

  Lemma canon_norm_implies_equal_lemma mid v1 v2 : wt_msg sch mid v1 = true -> wt_msg sch mid v2 = true ->
    canon (norm sch mid v1) = canon (norm sch mid v2) -> eqm mid v1 v2 = true.
  Proof. intros W1 W2 H. exact (proj1 (canon_P2 v1) v2 mid W1 W2 H). Qed.

  (* ================================================================================================
     corollaries: one slot replaced by a slot of the same denotation
     ================================================================================================ *)
  Lemma wt_slots_nth fs : forall ss i a, wt_slots sch fs ss = true -> nth_error ss i = Some a ->
    exists f, nth_error fs i = Some f /\ wts f a = true.
  Proof.
    induction fs as [|f fs IH]; intros [|s ss] [|i] a Hw Hn; cbn in *; try discriminate.
    - apply andb_true_iff in Hw. inversion Hn; subst. exists f. split; [reflexivity|apply Hw].
    - apply andb_true_iff in Hw. eapply IH; [apply Hw|exact Hn].
  Qed.

  Lemma zipf_set_nth_canon fs : forall ss i a b f, nth_error fs i = Some f -> nth_error ss i = Some a ->
    canon (ns f a) = canon (ns f b) ->
    map canon (zipf ns fs (set_nth ss i b)) = map canon (zipf ns fs ss).
  Proof.
    induction fs as [|f0 fs IH]; intros [|s ss] [|i] a b f Hf Hs H; cbn in *; try discriminate; try reflexivity.
    - inversion Hf; inversion Hs; subst. rewrite H. reflexivity.
    - f_equal. eapply IH; eassumption.
  Qed.

  Lemma slot_replace mid slots unk i a b :
    wt_msg sch mid (VMsg slots unk) = true -> wt_msg sch mid (VMsg (set_nth slots i b) unk) = true ->
    nth_error slots i = Some a ->
    (forall f, wts f a = true -> wts f b = true -> field_legal f -> canon (ns f a) = canon (ns f b)) ->
    eqm mid (VMsg slots unk) (VMsg (set_nth slots i b) unk) = true.
  Proof.
    intros W1 W2 Hn Hc. apply canon_norm_implies_equal_lemma; try assumption.
    destruct (wt_msg_get _ _ W1) as [md Hg]. rewrite !(cn_msg _ _ _ _ Hg). f_equal. symmetry.
    rewrite wt_msg_unfold, Hg in W1, W2. apply andb_true_iff in W1. apply andb_true_iff in W2.
    destruct (wt_slots_nth _ _ _ _ (proj1 W1) Hn) as [f [Hf Wa]].
    assert (Hb : nth_error (set_nth slots i b) i = Some b).
    { clear -Hn. revert i Hn. induction slots as [|s ss IH]; intros [|i] Hn; cbn in *; try discriminate; [reflexivity|].
      apply IH. exact Hn. }
    destruct (wt_slots_nth _ _ _ _ (proj1 W2) Hb) as [f' [Hf' Wb]].
    rewrite Hf in Hf'. inversion Hf'; subst f'.
    eapply zipf_set_nth_canon; try eassumption. apply Hc; try assumption.
    pose proof (wf_field_legal sch Hwf mid md Hg) as Hfl. rewrite Forall_forall in Hfl. apply Hfl.
    eapply nth_error_In; eassumption.
  Qed.

  Lemma map_order_lemma mid slots unk i kvs1 kvs2 :
    wt_msg sch mid (VMsg slots unk) = true -> wt_msg sch mid (VMsg (set_nth slots i (VMap kvs2)) unk) = true ->
    nth_error slots i = Some (VMap kvs1) -> Permutation kvs1 kvs2 ->
    eqm mid (VMsg slots unk) (VMsg (set_nth slots i (VMap kvs2)) unk) = true.
  Proof.
    intros W1 W2 Hn Hp. eapply slot_replace; try eassumption.
    intros f Wa Wb Hfl. unfold wt_slot in Wa. unfold norm_slot.
    destruct (f_shape f) as [| |oi|kk] eqn:Hsh; try discriminate Wa.
    - destruct (f_ty f) as [k|m]; cbn [wt_elem] in Wa; [destruct k; discriminate Wa|discriminate Wa].
    - apply andb_true_iff in Wa. destruct Wa as [Wa Na].
      destruct kvs1 as [|e1 l1].
      + apply Permutation_nil in Hp. subst kvs2. reflexivity.
      + destruct kvs2 as [|e2 l2]; [apply Permutation_sym, Permutation_nil in Hp; discriminate Hp|].
        apply (canon_map_perm kk).
        * apply Hfl. exact Hsh.
        * apply Permutation_map. exact Hp.
        * rewrite map_map. cbn [fst]. exact Na.
        * rewrite forallb_forall in Wa. apply forallb_forall. intros kv Hin. apply in_map_iff in Hin.
          destruct Hin as [kv0 [<- Hin]]. cbn [fst]. specialize (Wa _ Hin). apply andb_true_iff in Wa. apply Wa.
  Qed.

  Lemma nil_empty_lemma mid slots unk i a b :
    wt_msg sch mid (VMsg slots unk) = true -> wt_msg sch mid (VMsg (set_nth slots i b) unk) = true ->
    nth_error slots i = Some a ->
    In a [VNil; VList []; VMap []; VBytes []] -> In b [VNil; VList []; VMap []; VBytes []] ->
    eqm mid (VMsg slots unk) (VMsg (set_nth slots i b) unk) = true.
  Proof.
    intros W1 W2 Hn Ha Hb. eapply slot_replace; try eassumption.
    intros f Wa Wb _. unfold wt_slot in Wa, Wb. unfold norm_slot.
    cbn [In] in Ha, Hb.
    destruct (f_shape f); [destruct (f_ty f) as [k|m]; [destruct k|]|..];
      repeat (destruct Ha as [<-|Ha]; [|]); try (exfalso; exact Ha);
      repeat (destruct Hb as [<-|Hb]; [|]); try (exfalso; exact Hb);
      try discriminate Wa; try discriminate Wb; reflexivity.
  Qed.
End Laws.

(* ---- the statements of Properties/C10.v (equal_msg laws) -------------------------------------------- *)
Lemma equal_msg_sym_bool sch : wf sch = true -> forall mid v1 v2,
  wt_msg sch mid v1 = true -> wt_msg sch mid v2 = true -> equal_msg sch mid v1 v2 = equal_msg sch mid v2 v1.
Proof. intros Hwf mid v1 v2. apply equal_msg_sym_lemma. exact Hwf. Qed.
