(* Proofs/ReflectLaws.v — laws of the fast-reflection model (Model/Reflect.v) for ALL heaps, objects,
   fields and values: frame of reads, nil receivers, Has/Get after Set/Clear, oneofs, Range, write-through
   of Mutable views, and the shape invariant of reachable heaps. *)
From CP Require Import Reflect.
From Coq Require Import Lia Sorted.
Local Open Scope nat_scope.

(* ---- lists -------------------------------------------------------------------------------------- *)
Lemma set_nth_length {A} (l : list A) i x : length (set_nth l i x) = length l.
Proof. revert i; induction l as [|a l IH]; intros [|i]; cbn [set_nth length]; auto. Qed.

Lemma nth_error_set_nth_eq {A} (l : list A) i x : i < length l -> nth_error (set_nth l i x) i = Some x.
Proof.
  revert i; induction l as [|a l IH]; intros [|i] H; cbn [set_nth nth_error length] in *; try lia; auto.
  apply IH; lia.
Qed.

Lemma nth_error_set_nth_neq {A} (l : list A) i j x : i <> j -> nth_error (set_nth l i x) j = nth_error l j.
Proof.
  revert i j; induction l as [|a l IH]; intros [|i] [|j] H; cbn [set_nth nth_error]; try congruence; auto.
Qed.

Lemma set_nth_same {A} (l : list A) i x : nth_error l i = Some x -> set_nth l i x = l.
Proof.
  revert i; induction l as [|a l IH]; intros [|i] H; cbn [set_nth nth_error] in *; try discriminate; auto.
  - congruence.
  - f_equal; auto.
Qed.

Lemma nth_set_nth_eq {A} (l : list A) i x d : i < length l -> nth i (set_nth l i x) d = x.
Proof.
  revert i; induction l as [|a l IH]; intros [|i] H; cbn [set_nth nth length] in *; try lia; auto.
  apply IH; lia.
Qed.

Lemma nth_set_nth_neq {A} (l : list A) i j x d : i <> j -> nth j (set_nth l i x) d = nth j l d.
Proof.
  revert i j; induction l as [|a l IH]; intros [|i] [|j] H; cbn [set_nth nth]; try congruence; auto.
Qed.

Lemma nth_Some_lt {A} (l : list (option A)) j x : nth j l None = Some x -> j < length l.
Proof.
  revert j; induction l as [|a l IH]; intros [|j] H; cbn [nth length] in *; try discriminate; try lia.
  apply IH in H; lia.
Qed.

Lemma nth_error_Some_lt {A} (l : list A) i x : nth_error l i = Some x -> i < length l.
Proof. intro H. apply nth_error_Some. congruence. Qed.

Lemma nth_repeat_None {A} n j : nth j (repeat (@None A) n) None = None.
Proof. revert j; induction n; intros [|j]; cbn; auto. Qed.

(* ---- heap access ---------------------------------------------------------------------------------- *)
Lemma get_obj_hset_eq h id o : id < length h -> get_obj (hset h id (HObj o)) id = Some o.
Proof. intro H. unfold get_obj, hget, hset. rewrite nth_error_set_nth_eq; auto. Qed.

Lemma get_obj_lt h id o : get_obj h id = Some o -> id < length h.
Proof.
  unfold get_obj, hget. destruct (nth_error h id) eqn:E; [|discriminate]. intros _.
  eapply nth_error_Some_lt; eauto.
Qed.

Lemma hset_same h id o : get_obj h id = Some o -> hset h id (HObj o) = h.
Proof.
  unfold get_obj, hget, hset. destruct (nth_error h id) as [[o'| |]|] eqn:E; try discriminate.
  intro H; inversion H; subst. apply set_nth_same; auto.
Qed.

Lemma get_obj_app_new h e : get_obj (h ++ [HObj e]) (length h) = Some e.
Proof. unfold get_obj, hget. rewrite nth_error_app2 by lia. rewrite Nat.sub_diag. reflexivity. Qed.

Section Laws.
  Variable sch : schema.

  Lemma new_obj_mid mid : o_mid (new_obj sch mid) = mid.
  Proof. unfold new_obj. destruct (get_msg sch mid); reflexivity. Qed.

  Lemma recv_obj_valid h mid id ob :
    get_obj h id = Some ob -> o_mid ob = mid -> recv_obj sch h mid (Some id) = Some ob.
  Proof. intros H1 H2. unfold recv_obj. rewrite H1, H2, Nat.eqb_refl. reflexivity. Qed.

  Lemma recv_obj_fresh h mid : recv_obj sch (h ++ [HObj (new_obj sch mid)]) mid (Some (length h)) = Some (new_obj sch mid).
  Proof. apply recv_obj_valid. apply get_obj_app_new. apply new_obj_mid. Qed.

  (* ================= 1. reads leave the heap unchanged ============================================ *)
  Definition is_read (o : op) : bool :=
    match o with
    | OHas _ _ | OGet _ _ | OWhichOneof _ _ | ORange _ | OGetUnknown _ | OIsValid _ | ONil _
    | OLLen _ | OLGet _ _ | OMLen _ | OMHas _ _ | OMGet _ _ | OMRange _ => true
    | _ => false
    end.

  Ltac break_match :=
    repeat match goal with
           | |- context [match ?x with _ => _ end] => destruct x
           | |- context [if ?x then _ else _] => destruct x
           end.

  Lemma reads_frame : forall h o, is_read o = true -> fst (step sch h o) = h.
  Proof.
    intros h o H. destruct o; cbn [is_read] in H; try discriminate; cbn [step]; break_match; reflexivity.
  Qed.

  (* ================= 2. nil receivers read as an empty message ===================================== *)
  Lemma present_zero k : present k (zero_scalar k) = false.
  Proof. destruct k; reflexivity. Qed.

  Lemma has_field_new mid f fd : field_of sch mid f = Some fd -> has_field (new_obj sch mid) f fd = false.
  Proof.
    unfold field_of, new_obj. destruct (get_msg sch mid) as [md|]; [|discriminate]. intro H.
    unfold has_field; cbn [o_oneofs o_cells]. rewrite nth_error_map, H. cbn [option_map]. unfold new_cell.
    destruct (f_shape fd) eqn:S; destruct (f_ty fd) as [k|m]; cbn; try reflexivity;
      try apply present_zero; rewrite nth_repeat_None; reflexivity.
  Qed.

  Lemma get_field_new_own mid f fd own1 own2 : field_of sch mid f = Some fd ->
    get_field (new_obj sch mid) own1 f fd = get_field (new_obj sch mid) own2 f fd.
  Proof.
    unfold field_of, new_obj. destruct (get_msg sch mid) as [md|]; [|discriminate]. intro H.
    unfold get_field; cbn [o_oneofs o_cells]. rewrite nth_error_map, H. cbn [option_map]. unfold new_cell.
    destruct (f_shape fd) eqn:S; destruct (f_ty fd) as [k|m]; cbn; reflexivity.
  Qed.

  Lemma range_from_none o own : forall fs i,
    (forall k fd, nth_error fs k = Some fd -> has_field o (i + k) fd = false) -> range_from o own i fs = [].
  Proof.
    induction fs as [|fd fs IH]; intros i H; cbn [range_from]; [reflexivity|].
    rewrite (IH (S i)).
    - specialize (H 0 fd eq_refl). rewrite Nat.add_0_r in H. rewrite H. reflexivity.
    - intros k fd' Hk. specialize (H (S k) fd' Hk). rewrite Nat.add_succ_r in H. exact H.
  Qed.

  Lemma range_from_new mid own : range_from (new_obj sch mid) own 0 (fields_of sch mid) = [].
  Proof.
    apply range_from_none. intros k fd Hk. cbn [Nat.add]. apply has_field_new.
    unfold field_of, fields_of in *. destruct (get_msg sch mid); [exact Hk|]. destruct k; discriminate.
  Qed.

  Lemma oneofs_new mid j : nth j (o_oneofs (new_obj sch mid)) None = None.
  Proof. unfold new_obj. destruct (get_msg sch mid); cbn [o_oneofs]; [apply nth_repeat_None|destruct j; reflexivity]. Qed.

  Lemma unk_new mid : o_unk (new_obj sch mid) = None.
  Proof. unfold new_obj. destruct (get_msg sch mid); reflexivity. Qed.

  (* every read of a nil message = the same read of a freshly allocated empty message of the type
     (Get of a container gives the invalid view in both cases, Get of a message the nil message) *)
  Theorem nil_reads_as_empty : forall h mid,
    let hE := h ++ [HObj (new_obj sch mid)] in
    let E := PMsg mid (Some (length h)) in
    let N := PMsg mid None in
    (forall f, snd (step sch h (OHas N f)) = snd (step sch hE (OHas E f))) /\
    (forall f, snd (step sch h (OGet N f)) = snd (step sch hE (OGet E f))) /\
    (forall j, snd (step sch h (OWhichOneof N j)) = snd (step sch hE (OWhichOneof E j))) /\
    snd (step sch h (ORange N)) = snd (step sch hE (ORange E)) /\
    snd (step sch h (OGetUnknown N)) = snd (step sch hE (OGetUnknown E)).
  Proof.
    intros h mid hE E N. subst hE E N. cbn [step]. rewrite recv_obj_fresh. cbn [recv_obj].
    repeat split.
    - intro f. destruct (field_of sch mid f); reflexivity.
    - intro f. destruct (field_of sch mid f) eqn:F; [|reflexivity]. cbn [snd]. apply get_field_new_own; exact F.
    - intro j. destruct (get_msg sch mid); [|reflexivity]. destruct (j <? m_oneofs m); reflexivity.
    - cbn [snd]. rewrite !range_from_new. reflexivity.
  Qed.

  (* ... and the values: nothing is populated *)
  Theorem nil_reads_values : forall h mid,
    let N := PMsg mid None in
    (forall f fd, field_of sch mid f = Some fd -> step sch h (OHas N f) = (h, PBool false)) /\
    (forall j md, get_msg sch mid = Some md -> j < m_oneofs md -> step sch h (OWhichOneof N j) = (h, PField None)) /\
    step sch h (ORange N) = (h, PRange []) /\
    step sch h (OGetUnknown N) = (h, PBytes []) /\
    step sch h (OIsValid N) = (h, PBool false).
  Proof.
    intros h mid N; subst N. cbn [step recv_obj]. repeat split.
    - intros f fd F. rewrite F, (has_field_new _ _ _ F). reflexivity.
    - intros j md M Hj. rewrite M. apply Nat.ltb_lt in Hj. rewrite Hj, oneofs_new. reflexivity.
    - rewrite range_from_new. reflexivity.
    - rewrite unk_new. reflexivity.
  Qed.

  Lemma get_field_no_panic o own f fd : get_field o own f fd <> PPanic.
  Proof. unfold get_field, elem_to_pval, zero_elem. break_match; discriminate. Qed.

  (* no read of a nil message panics (for a field / oneof of the type) *)
  Theorem nil_reads_never_panic : forall h mid,
    let N := PMsg mid None in
    (forall f fd, field_of sch mid f = Some fd -> snd (step sch h (OHas N f)) <> PPanic /\ snd (step sch h (OGet N f)) <> PPanic) /\
    (forall j md, get_msg sch mid = Some md -> j < m_oneofs md -> snd (step sch h (OWhichOneof N j)) <> PPanic) /\
    snd (step sch h (ORange N)) <> PPanic /\ snd (step sch h (OGetUnknown N)) <> PPanic /\ snd (step sch h (OIsValid N)) <> PPanic.
  Proof.
    intros h mid N; subst N. cbn [step recv_obj]. split; [|split; [|repeat split; discriminate]].
    - intros f fd F. rewrite F. split; [discriminate|]. cbn [snd]. apply get_field_no_panic.
    - intros j md M Hj. rewrite M. apply Nat.ltb_lt in Hj. rewrite Hj. discriminate.
  Qed.

  (* the invalid views that Get returns for empty containers: every read is defined and sees nothing *)
  Theorem nil_list_reads : forall h t,
    let L := PList t RNil in
    step sch h (OLLen L) = (h, PScalar (VInt 0)) /\ step sch h (OIsValid L) = (h, PBool false) /\
    snd (step sch h (OLNewElement L)) <> PPanic.
  Proof. intros h t L; subst L. cbn [step read_list]. repeat split. destruct t; [discriminate|]. unfold halloc. discriminate. Qed.

  Theorem nil_map_reads : forall h kk t k,
    let M := PMap kk t RNil in
    step sch h (OMLen M) = (h, PScalar (VInt 0)) /\ step sch h (OMHas M k) = (h, PBool false) /\
    step sch h (OMGet M k) = (h, PInvalid) /\ step sch h (OMRange M) = (h, PMapRange []) /\
    step sch h (OIsValid M) = (h, PBool false) /\ step sch h (OMClear M k) = (h, PUnit) /\
    snd (step sch h (OMNewValue M)) <> PPanic.
  Proof. intros h kk t k M; subst M. cbn [step read_map]. repeat split. destruct t; [discriminate|]. unfold halloc. discriminate. Qed.

  (* ================= 3. writes to nil receivers panic and change nothing ============================ *)
  Theorem nil_writes_panic : forall h mid f v u,
    let N := PMsg mid None in
    step sch h (OSet N f v) = (h, PPanic) /\ step sch h (OClear N f) = (h, PPanic) /\
    step sch h (OMutable N f) = (h, PPanic) /\ step sch h (OSetUnknown N u) = (h, PPanic).
  Proof. intros. subst N. cbn [step]. repeat split. Qed.

  Theorem nil_list_writes_panic : forall h t i n v,
    let L := PList t RNil in
    step sch h (OLSet L i v) = (h, PPanic) /\ step sch h (OLAppend L v) = (h, PPanic) /\
    step sch h (OLAppendMutable L) = (h, PPanic) /\ step sch h (OLTruncate L n) = (h, PPanic).
  Proof. intros. subst L. cbn [step read_list]. repeat split; destruct t; reflexivity. Qed.

  Theorem nil_map_writes_panic : forall h kk t k v,
    let M := PMap kk t RNil in
    step sch h (OMSet M k v) = (h, PPanic) /\ step sch h (OMMutable M k) = (h, PPanic).
  Proof. intros. subst M. cbn [step read_map]. repeat split; destruct t; reflexivity. Qed.

  (* ================= 4. Has / Get after Set and Clear, every shape ================================== *)
  Lemma elem_roundtrip t v e : pval_to_elem t v = Some e -> elem_to_pval t e = v.
  Proof.
    unfold pval_to_elem, elem_to_pval. destruct t as [k|m]; destruct v; try discriminate.
    - destruct (wt_scalar k v); [|discriminate]. intro H; inversion H; reflexivity.
    - destruct (Nat.eqb m mid) eqn:E; [|discriminate]. apply Nat.eqb_eq in E. subst. intro H; inversion H; reflexivity.
  Qed.

  Definition default_pval (fd : field) : pval :=
    match f_shape fd with
    | Rep _ => PList (f_ty fd) RNil
    | MapOf kk => PMap kk (f_ty fd) RNil
    | _ => zero_elem (f_ty fd)
    end.

  Section Obj.
    Variables (h : heap) (mid id : nat) (ob : obj).
    Hypothesis Hob : get_obj h id = Some ob.
    Hypothesis Hmid : o_mid ob = mid.
    Let recv := PMsg mid (Some id).

    Lemma recv_ok : recv_obj sch h mid (Some id) = Some ob.
    Proof. apply recv_obj_valid; assumption. Qed.

    Lemma id_lt : id < length h.
    Proof. eapply get_obj_lt; eauto. Qed.

    (* reads of the receiver after its object was replaced by ob' *)
    Lemma after_write ob' : o_mid ob' = mid ->
      let h' := hset h id (HObj ob') in
      (forall f fd, field_of sch mid f = Some fd ->
         step sch h' (OHas recv f) = (h', PBool (has_field ob' f fd)) /\
         step sch h' (OGet recv f) = (h', get_field ob' (Some id) f fd)) /\
      (forall j md, get_msg sch mid = Some md -> j < m_oneofs md ->
         step sch h' (OWhichOneof recv j) = (h', PField (match nth j (o_oneofs ob') None with Some (f, _) => Some f | None => None end))) /\
      step sch h' (ORange recv) = (h', PRange (range_from ob' (Some id) 0 (fields_of sch mid))).
    Proof.
      intros Hm h'. assert (R : recv_obj sch h' mid (Some id) = Some ob').
      { apply recv_obj_valid; [apply get_obj_hset_eq, id_lt|exact Hm]. }
      subst recv. cbn [step]. rewrite R. repeat split.
      - rewrite H; reflexivity.
      - rewrite H; reflexivity.
      - intros j md M Hj. rewrite M. apply Nat.ltb_lt in Hj. rewrite Hj. reflexivity.
    Qed.

    Lemma reads_now :
      (forall f fd, field_of sch mid f = Some fd ->
         step sch h (OHas recv f) = (h, PBool (has_field ob f fd)) /\
         step sch h (OGet recv f) = (h, get_field ob (Some id) f fd)) /\
      (forall j md, get_msg sch mid = Some md -> j < m_oneofs md ->
         step sch h (OWhichOneof recv j) = (h, PField (match nth j (o_oneofs ob) None with Some (f, _) => Some f | None => None end))) /\
      step sch h (ORange recv) = (h, PRange (range_from ob (Some id) 0 (fields_of sch mid))).
    Proof.
      pose proof (after_write ob Hmid) as A. cbv zeta in A. rewrite (hset_same _ _ _ Hob) in A. exact A.
    Qed.

    (* -- singular scalar: Has is proto3 presence of the stored value -- *)
    Theorem set_scalar : forall f fd k s,
      field_of sch mid f = Some fd -> f_shape fd = Singular -> f_ty fd = TScalar k ->
      wt_scalar k s = true -> f < length (o_cells ob) ->
      exists h', step sch h (OSet recv f (PScalar s)) = (h', PUnit) /\
                 step sch h' (OHas recv f) = (h', PBool (present k s)) /\
                 step sch h' (OGet recv f) = (h', PScalar s).
    Proof.
      intros f fd k s F S T W L. eexists. split.
      - subst recv. cbn [step]. rewrite F, recv_ok, S. unfold pval_to_elem. rewrite T, W. reflexivity.
      - destruct (after_write (set_cell ob f (CScalar s)) Hmid) as [A _]. destruct (A f fd F) as [A1 A2].
        rewrite A1, A2. unfold has_field, get_field. rewrite S. cbn [set_cell o_cells].
        rewrite nth_error_set_nth_eq by exact L. rewrite T. split; reflexivity.
    Qed.

    (* -- singular message: a valid message is stored, an invalid one is refused -- *)
    Theorem set_message : forall f fd m q,
      field_of sch mid f = Some fd -> f_shape fd = Singular -> f_ty fd = TMsg m -> f < length (o_cells ob) ->
      exists h', step sch h (OSet recv f (PMsg m (Some q))) = (h', PUnit) /\
                 step sch h' (OHas recv f) = (h', PBool true) /\
                 step sch h' (OGet recv f) = (h', PMsg m (Some q)).
    Proof.
      intros f fd m q F S T L. eexists. split.
      - subst recv. cbn [step]. rewrite F, recv_ok, S. unfold pval_to_elem. rewrite T, Nat.eqb_refl. reflexivity.
      - destruct (after_write (set_cell ob f (CMsg (Some q))) Hmid) as [A _]. destruct (A f fd F) as [A1 A2].
        rewrite A1, A2. unfold has_field, get_field. rewrite S. cbn [set_cell o_cells].
        rewrite nth_error_set_nth_eq by exact L. rewrite T. split; reflexivity.
    Qed.

    Theorem set_message_invalid_panics : forall f fd m,
      field_of sch mid f = Some fd -> f_shape fd = Singular -> f_ty fd = TMsg m ->
      step sch h (OSet recv f (PMsg m None)) = (h, PPanic).
    Proof.
      intros f fd m F S T. subst recv. cbn [step]. rewrite F, recv_ok, S. unfold pval_to_elem. rewrite T, Nat.eqb_refl. reflexivity.
    Qed.

    (* -- member of a oneof: populated whatever the value (zero values included); the other members of the
          oneof are not; WhichOneof names it -- *)
    Theorem set_member : forall f fd j v e,
      field_of sch mid f = Some fd -> f_shape fd = Member j -> pval_to_elem (f_ty fd) v = Some e ->
      j < length (o_oneofs ob) ->
      exists h', step sch h (OSet recv f v) = (h', PUnit) /\
                 step sch h' (OHas recv f) = (h', PBool true) /\
                 step sch h' (OGet recv f) = (h', v) /\
                 (forall md, get_msg sch mid = Some md -> j < m_oneofs md ->
                    step sch h' (OWhichOneof recv j) = (h', PField (Some f))) /\
                 (forall f2 fd2, field_of sch mid f2 = Some fd2 -> f_shape fd2 = Member j -> f2 <> f ->
                    step sch h' (OHas recv f2) = (h', PBool false) /\
                    step sch h' (OGet recv f2) = (h', zero_elem (f_ty fd2))).
    Proof.
      intros f fd j v e F S P L. eexists. split.
      - subst recv. cbn [step]. rewrite F, recv_ok, S, P. reflexivity.
      - destruct (after_write (set_oneof ob j (Some (f, e))) Hmid) as [A [B _]].
        destruct (A f fd F) as [A1 A2]. rewrite A1, A2. unfold has_field, get_field. rewrite S. cbn [set_oneof o_oneofs].
        rewrite nth_set_nth_eq by exact L. rewrite Nat.eqb_refl, (elem_roundtrip _ _ _ P).
        split; [reflexivity|]. split; [reflexivity|]. split.
        + intros md M Hj. rewrite (B j md M Hj). cbn [set_oneof o_oneofs]. rewrite nth_set_nth_eq by exact L. reflexivity.
        + intros f2 fd2 F2 S2 N. destruct (A f2 fd2 F2) as [C1 C2]. rewrite C1, C2. unfold has_field, get_field.
          rewrite S2. cbn [set_oneof o_oneofs]. rewrite nth_set_nth_eq by exact L.
          assert (E : Nat.eqb f f2 = false) by (apply Nat.eqb_neq; congruence). rewrite E. split; reflexivity.
    Qed.

    (* -- repeated and map fields: Set copies the slice / map out of the view -- *)
    Theorem set_list : forall f fd p t r l,
      field_of sch mid f = Some fd -> f_shape fd = Rep p -> read_list h r = Some l -> f < length (o_cells ob) ->
      exists h', step sch h (OSet recv f (PList t r)) = (h', PUnit) /\
                 step sch h' (OHas recv f) = (h', PBool (negb (Nat.eqb (olen l) 0))) /\
                 step sch h' (OGet recv f) = (h', PList (f_ty fd) (if Nat.eqb (olen l) 0 then RNil else RField id f)).
    Proof.
      intros f fd p t r l F S R L. eexists. split.
      - subst recv. cbn [step]. rewrite F, recv_ok, S, R. reflexivity.
      - destruct (after_write (set_cell ob f (CList l)) Hmid) as [A _]. destruct (A f fd F) as [A1 A2].
        rewrite A1, A2. unfold has_field, get_field. rewrite S. cbn [set_cell o_cells].
        rewrite nth_error_set_nth_eq by exact L. split; reflexivity.
    Qed.

    Theorem set_map : forall f fd kk kk' t r m,
      field_of sch mid f = Some fd -> f_shape fd = MapOf kk -> read_map h r = Some m -> f < length (o_cells ob) ->
      exists h', step sch h (OSet recv f (PMap kk' t r)) = (h', PUnit) /\
                 step sch h' (OHas recv f) = (h', PBool (negb (Nat.eqb (olen m) 0))) /\
                 step sch h' (OGet recv f) = (h', PMap kk (f_ty fd) (if Nat.eqb (olen m) 0 then RNil else RField id f)).
    Proof.
      intros f fd kk kk' t r m F S R L. eexists. split.
      - subst recv. cbn [step]. rewrite F, recv_ok, S, R. reflexivity.
      - destruct (after_write (set_cell ob f (CMap m)) Hmid) as [A _]. destruct (A f fd F) as [A1 A2].
        rewrite A1, A2. unfold has_field, get_field. rewrite S. cbn [set_cell o_cells].
        rewrite nth_error_set_nth_eq by exact L. split; reflexivity.
    Qed.

    (* -- Clear: afterwards Has is false and Get is the default (invalid views / nil message / zero) -- *)
    Theorem clear_then_unpopulated : forall f fd,
      field_of sch mid f = Some fd -> f < length (o_cells ob) ->
      exists h', step sch h (OClear recv f) = (h', PUnit) /\
                 step sch h' (OHas recv f) = (h', PBool false) /\
                 step sch h' (OGet recv f) = (h', default_pval fd).
    Proof.
      intros f fd F L. eexists. split.
      - subst recv. cbn [step]. rewrite F, recv_ok. reflexivity.
      - match goal with |- context [hset h id (HObj ?o)] => set (ob' := o) end.
        assert (Hm' : o_mid ob' = mid).
        { subst ob'. destruct (f_shape fd); destruct (f_ty fd); cbn; try exact Hmid;
            destruct (nth oneof (o_oneofs ob) None) as [[f' e]|]; try exact Hmid; destruct (Nat.eqb f' f); exact Hmid. }
        destruct (after_write ob' Hm') as [A _]. destruct (A f fd F) as [A1 A2]. rewrite A1, A2.
        subst ob'. unfold has_field, get_field, default_pval.
        destruct (f_shape fd) eqn:S; destruct (f_ty fd) as [k|m] eqn:T; cbn [set_cell o_cells o_oneofs];
          try (rewrite nth_error_set_nth_eq by exact L); try (split; reflexivity).
        + split; [|destruct k; reflexivity]. destruct k; reflexivity.
        + destruct (nth oneof (o_oneofs ob) None) as [[f' e]|] eqn:N.
          * destruct (Nat.eqb f' f) eqn:E.
            -- cbn [set_oneof o_oneofs]. rewrite nth_set_nth_eq by (eapply nth_Some_lt; eauto). split; reflexivity.
            -- rewrite N, E. split; reflexivity.
          * rewrite N. split; reflexivity.
        + destruct (nth oneof (o_oneofs ob) None) as [[f' e]|] eqn:N.
          * destruct (Nat.eqb f' f) eqn:E.
            -- cbn [set_oneof o_oneofs]. rewrite nth_set_nth_eq by (eapply nth_Some_lt; eauto). split; reflexivity.
            -- rewrite N, E. split; reflexivity.
          * rewrite N. split; reflexivity.
    Qed.

    (* -- Clear of a member that is not the one set (or of a member of an unset oneof) changes nothing -- *)
    Theorem clear_other_member_noop : forall f fd j,
      field_of sch mid f = Some fd -> f_shape fd = Member j ->
      (forall e, nth j (o_oneofs ob) None <> Some (f, e)) ->
      step sch h (OClear recv f) = (h, PUnit).
    Proof.
      intros f fd j F S N. subst recv. cbn [step]. rewrite F, recv_ok, S.
      destruct (nth j (o_oneofs ob) None) as [[f' e]|] eqn:E.
      - destruct (Nat.eqb f' f) eqn:Q.
        + apply Nat.eqb_eq in Q. subst f'. exfalso. apply (N e). reflexivity.
        + destruct (f_ty fd); rewrite (hset_same _ _ _ Hob); reflexivity.
      - destruct (f_ty fd); rewrite (hset_same _ _ _ Hob); reflexivity.
    Qed.

    (* -- a oneof holds at most one member; WhichOneof is the member for which Has holds -- *)
    Theorem oneof_at_most_one : forall f1 f2 fd1 fd2 j,
      f_shape fd1 = Member j -> f_shape fd2 = Member j ->
      has_field ob f1 fd1 = true -> has_field ob f2 fd2 = true -> f1 = f2.
    Proof.
      intros f1 f2 fd1 fd2 j S1 S2. unfold has_field. rewrite S1, S2.
      destruct (nth j (o_oneofs ob) None) as [[f' e]|]; [|discriminate].
      intros E1 E2. apply Nat.eqb_eq in E1, E2. congruence.
    Qed.

    Theorem which_oneof_consistent : forall j md, get_msg sch mid = Some md -> j < m_oneofs md ->
      exists w, step sch h (OWhichOneof recv j) = (h, PField w) /\
        forall f fd, field_of sch mid f = Some fd -> f_shape fd = Member j ->
          (step sch h (OHas recv f) = (h, PBool true) <-> w = Some f).
    Proof.
      intros j md M Hj. destruct reads_now as [A [B _]]. eexists. split; [apply (B j md M Hj)|].
      intros f fd F S. destruct (A f fd F) as [A1 _]. rewrite A1. unfold has_field. rewrite S.
      destruct (nth j (o_oneofs ob) None) as [[f' e]|].
      - destruct (Nat.eqb f' f) eqn:E.
        + apply Nat.eqb_eq in E. subst. split; reflexivity.
        + apply Nat.eqb_neq in E. split; intro X; [discriminate|]. inversion X. congruence.
      - split; discriminate.
    Qed.

    (* ================= 5. Range visits exactly the populated fields, once, in field order ========== *)
    Lemma range_from_spec o own : forall fs i0 i v,
      In (i, v) (range_from o own i0 fs) <->
      exists fd, i0 <= i /\ nth_error fs (i - i0) = Some fd /\ has_field o i fd = true /\ v = range_field o own i fd.
    Proof.
      induction fs as [|fd fs IH]; intros i0 i v; cbn [range_from].
      - split; [intros []|]. intros [fd [_ [H _]]]. destruct (i - i0); discriminate.
      - rewrite in_app_iff, IH. split.
        + intros [H|[fd' [H1 [H2 [H3 H4]]]]].
          * destruct (has_field o i0 fd) eqn:E; [|destruct H]. destruct H as [H|[]]. inversion H; subst.
            exists fd. rewrite Nat.sub_diag. auto.
          * exists fd'. split; [lia|]. replace (i - i0) with (S (i - S i0)) by lia. auto.
        + intros [fd' [H1 [H2 [H3 H4]]]]. destruct (Nat.eq_dec i i0) as [->|N].
          * left. rewrite Nat.sub_diag in H2. inversion H2; subst fd'. rewrite H3. left. congruence.
          * right. exists fd'. split; [lia|]. replace (i - i0) with (S (i - S i0)) in H2 by lia. auto.
    Qed.

    Lemma range_from_sorted o own : forall fs i0,
      Sorted.StronglySorted lt (map fst (range_from o own i0 fs)) /\
      Forall (fun i => i0 <= i) (map fst (range_from o own i0 fs)).
    Proof.
      induction fs as [|fd fs IH]; intros i0; cbn [range_from map]; [split; constructor|].
      destruct (IH (S i0)) as [S1 S2]. rewrite map_app. destruct (has_field o i0 fd); cbn [map fst app].
      - split.
        + constructor; [exact S1|]. eapply Forall_impl; [|exact S2]. cbn. intros; lia.
        + constructor; [lia|]. eapply Forall_impl; [|exact S2]. cbn. intros; lia.
      - split; [exact S1|]. eapply Forall_impl; [|exact S2]. cbn. intros; lia.
    Qed.

    (* for a populated field Range passes the value Get returns (containers attached) *)
    Lemma range_field_get f fd : has_field ob f fd = true -> range_field ob (Some id) f fd = get_field ob (Some id) f fd.
    Proof.
      unfold range_field, has_field, get_field. destruct (f_shape fd) eqn:S; try reflexivity;
        destruct (nth_error (o_cells ob) f) as [[v|p|l|m|]|]; try reflexivity; intro H;
        try (destruct (Nat.eqb (olen l) 0); [discriminate|reflexivity]);
        try (destruct (Nat.eqb (olen m) 0); [discriminate|reflexivity]).
    Qed.

    Theorem range_exactly_populated :
      exists l, step sch h (ORange recv) = (h, PRange l) /\
        (forall i v, In (i, v) l <->
           exists fd, field_of sch mid i = Some fd /\
                      step sch h (OHas recv i) = (h, PBool true) /\ step sch h (OGet recv i) = (h, v)) /\
        Sorted.StronglySorted lt (map fst l).
    Proof.
      destruct reads_now as [A [_ C]]. eexists. split; [exact C|]. split; [|apply range_from_sorted].
      intros i v. rewrite range_from_spec. rewrite Nat.sub_0_r. split.
      - intros [fd [_ [H2 [H3 H4]]]].
        assert (F : field_of sch mid i = Some fd).
        { unfold field_of, fields_of in *. destruct (get_msg sch mid); [exact H2|]. destruct i; discriminate. }
        exists fd. destruct (A i fd F) as [A1 A2]. rewrite A1, A2, H3, H4, (range_field_get _ _ H3). auto.
      - intros [fd [F [H1 H2]]]. destruct (A i fd F) as [A1 A2]. rewrite A1 in H1. rewrite A2 in H2.
        exists fd. split; [lia|]. split.
        + unfold field_of, fields_of in *. destruct (get_msg sch mid); [exact F|discriminate].
        + assert (Hh : has_field ob i fd = true) by (inversion H1; reflexivity).
          split; [exact Hh|]. rewrite (range_field_get _ _ Hh). inversion H2; reflexivity.
    Qed.

    (* ================= 6. views obtained through Mutable write through to the message ============== *)
    Theorem mutable_list_writes_through : forall f fd p l0 x e,
      field_of sch mid f = Some fd -> f_shape fd = Rep p -> nth_error (o_cells ob) f = Some (CList l0) ->
      pval_to_elem (f_ty fd) x = Some e ->
      let v := PList (f_ty fd) (RField id f) in
      exists h1 h2, step sch h (OMutable recv f) = (h1, v) /\
                    step sch h1 (OLAppend v x) = (h2, PUnit) /\
                    step sch h2 (OLLen v) = (h2, PScalar (VInt (Z.of_nat (S (olen l0))))) /\
                    step sch h2 (OLGet v (Z.of_nat (olen l0))) = (h2, x) /\
                    step sch h2 (OHas recv f) = (h2, PBool true) /\
                    step sch h2 (OGet recv f) = (h2, v).
    Proof.
      intros f fd p l0 x e F Sh C P v.
      assert (L : f < length (o_cells ob)) by (eapply nth_error_Some_lt; eauto).
      (* the object after Mutable: the nil slice became an empty one *)
      set (ob1 := set_cell ob f (CList (Some (olist l0)))).
      set (h1 := hset h id (HObj ob1)).
      assert (M : step sch h (OMutable recv f) = (h1, v)).
      { subst recv v h1 ob1. cbn [step]. rewrite F, recv_ok, Sh, C. destruct l0 as [l0|]; cbn [olist].
        - destruct (f_ty fd); rewrite <- (hset_same _ _ _ Hob) at 1; unfold set_cell;
            rewrite (set_nth_same _ _ _ C); destruct ob; reflexivity.
        - destruct (f_ty fd); reflexivity. }
      assert (G1 : get_obj h1 id = Some ob1) by (apply get_obj_hset_eq, id_lt).
      assert (C1 : nth_error (o_cells ob1) f = Some (CList (Some (olist l0)))).
      { subst ob1. cbn [set_cell o_cells]. apply nth_error_set_nth_eq; exact L. }
      set (ob2 := set_cell ob1 f (CList (Some (olist l0 ++ [e])))).
      set (h2 := hset h1 id (HObj ob2)).
      assert (R1 : read_list h1 (RField id f) = Some (Some (olist l0))).
      { cbn [read_list]. rewrite G1, C1. reflexivity. }
      assert (A : step sch h1 (OLAppend v x) = (h2, PUnit)).
      { subst v. cbn [step]. rewrite R1, P. cbn [write_list olist]. rewrite G1. reflexivity. }
      assert (I1 : id < length h1) by (subst h1; unfold hset; rewrite set_nth_length; apply id_lt).
      assert (G2 : get_obj h2 id = Some ob2) by (apply get_obj_hset_eq; exact I1).
      assert (L1 : f < length (o_cells ob1)) by (subst ob1; cbn [set_cell o_cells]; rewrite set_nth_length; exact L).
      assert (C2 : nth_error (o_cells ob2) f = Some (CList (Some (olist l0 ++ [e])))).
      { subst ob2. cbn [set_cell o_cells]. apply nth_error_set_nth_eq; exact L1. }
      assert (R2 : read_list h2 (RField id f) = Some (Some (olist l0 ++ [e]))).
      { cbn [read_list]. rewrite G2, C2. reflexivity. }
      assert (Len : olen (Some (olist l0 ++ [e])) = S (olen l0)).
      { cbn [olen]. rewrite app_length. cbn. destruct l0; cbn; lia. }
      assert (Hm2 : o_mid ob2 = mid) by (subst ob2 ob1; exact Hmid).
      exists h1, h2. split; [exact M|]. split; [exact A|]. split; [|split; [|split]].
      - subst v. cbn [step]. rewrite R2, Len. reflexivity.
      - subst v. cbn [step]. rewrite R2. unfold in_bounds. rewrite Len.
        assert (B : ((0 <=? Z.of_nat (olen l0)) && (Z.of_nat (olen l0) <? Z.of_nat (S (olen l0))))%Z = true).
        { apply andb_true_intro. split; [apply Z.leb_le|apply Z.ltb_lt]; lia. }
        rewrite B, Nat2Z.id. cbn [olist].
        replace (olen l0) with (length (olist l0)) by (destruct l0; reflexivity).
        rewrite app_nth2 by lia. rewrite Nat.sub_diag. cbn [nth]. rewrite (elem_roundtrip _ _ _ P). reflexivity.
      - subst recv. cbn [step]. rewrite F. rewrite (recv_obj_valid _ _ _ _ G2 Hm2).
        unfold has_field. rewrite Sh, C2, Len. reflexivity.
      - subst recv. cbn [step]. rewrite F. rewrite (recv_obj_valid _ _ _ _ G2 Hm2).
        unfold get_field. rewrite Sh, C2, Len. reflexivity.
    Qed.

    Lemma key_refl kk k : wt_scalar kk k = true -> legal_key kk = true -> val_key_eqb k k = true.
    Proof.
      destruct kk; cbn [legal_key]; try discriminate; destruct k; cbn [wt_scalar val_key_eqb]; try discriminate; intros _ _;
        try apply Z.eqb_refl; try (destruct b; reflexivity);
        destruct (list_eq_dec Byte.byte_eq_dec l l); congruence.
    Qed.

    Lemma massoc_mput m k e : val_key_eqb k k = true -> massoc (mput m k e) k = Some e.
    Proof.
      intro R. induction m as [|[k' e'] m IH]; cbn [mput massoc].
      - rewrite R. reflexivity.
      - destruct (val_key_eqb k' k) eqn:E; cbn [massoc]; [rewrite R; reflexivity|rewrite E; exact IH].
    Qed.

    Lemma mput_nonempty m k e : Nat.eqb (length (mput m k e)) 0 = false.
    Proof. destruct m as [|[k' e'] m]; cbn [mput]; [reflexivity|]. destruct (val_key_eqb k' k); reflexivity. Qed.

    Theorem mutable_map_writes_through : forall f fd kk m0 k x e,
      field_of sch mid f = Some fd -> f_shape fd = MapOf kk -> nth_error (o_cells ob) f = Some (CMap m0) ->
      wt_scalar kk k = true -> legal_key kk = true -> pval_to_elem (f_ty fd) x = Some e ->
      let v := PMap kk (f_ty fd) (RField id f) in
      exists h1 h2, step sch h (OMutable recv f) = (h1, v) /\
                    step sch h1 (OMSet v k x) = (h2, PUnit) /\
                    step sch h2 (OMHas v k) = (h2, PBool true) /\
                    step sch h2 (OMGet v k) = (h2, x) /\
                    step sch h2 (OHas recv f) = (h2, PBool true) /\
                    step sch h2 (OGet recv f) = (h2, v).
    Proof.
      intros f fd kk m0 k x e F Sh C W Lk P v.
      assert (L : f < length (o_cells ob)) by (eapply nth_error_Some_lt; eauto).
      set (ob1 := set_cell ob f (CMap (Some (olist m0)))).
      set (h1 := hset h id (HObj ob1)).
      assert (M : step sch h (OMutable recv f) = (h1, v)).
      { subst recv v h1 ob1. cbn [step]. rewrite F, recv_ok, Sh, C. destruct m0 as [m0|]; cbn [olist].
        - destruct (f_ty fd); rewrite <- (hset_same _ _ _ Hob) at 1; unfold set_cell;
            rewrite (set_nth_same _ _ _ C); destruct ob; reflexivity.
        - destruct (f_ty fd); reflexivity. }
      assert (G1 : get_obj h1 id = Some ob1) by (apply get_obj_hset_eq, id_lt).
      assert (C1 : nth_error (o_cells ob1) f = Some (CMap (Some (olist m0)))).
      { subst ob1. cbn [set_cell o_cells]. apply nth_error_set_nth_eq; exact L. }
      set (ob2 := set_cell ob1 f (CMap (Some (mput (olist m0) k e)))).
      set (h2 := hset h1 id (HObj ob2)).
      assert (R1 : read_map h1 (RField id f) = Some (Some (olist m0))).
      { cbn [read_map]. rewrite G1, C1. reflexivity. }
      assert (A : step sch h1 (OMSet v k x) = (h2, PUnit)).
      { subst v. cbn [step]. rewrite R1, P, W. cbn [write_map]. rewrite G1. reflexivity. }
      assert (I1 : id < length h1) by (subst h1; unfold hset; rewrite set_nth_length; apply id_lt).
      assert (G2 : get_obj h2 id = Some ob2) by (apply get_obj_hset_eq; exact I1).
      assert (L1 : f < length (o_cells ob1)) by (subst ob1; cbn [set_cell o_cells]; rewrite set_nth_length; exact L).
      assert (C2 : nth_error (o_cells ob2) f = Some (CMap (Some (mput (olist m0) k e)))).
      { subst ob2. cbn [set_cell o_cells]. apply nth_error_set_nth_eq; exact L1. }
      assert (R2 : read_map h2 (RField id f) = Some (Some (mput (olist m0) k e))).
      { cbn [read_map]. rewrite G2, C2. reflexivity. }
      assert (Hm2 : o_mid ob2 = mid) by (subst ob2 ob1; exact Hmid).
      pose proof (key_refl _ _ W Lk) as KR.
      exists h1, h2. split; [exact M|]. split; [exact A|]. split; [|split; [|split]].
      - subst v. cbn [step]. rewrite W, R2. cbn [olist]. rewrite (massoc_mput _ _ _ KR). reflexivity.
      - subst v. cbn [step]. rewrite W, R2. cbn [olist]. rewrite (massoc_mput _ _ _ KR), (elem_roundtrip _ _ _ P). reflexivity.
      - subst recv. cbn [step]. rewrite F. rewrite (recv_obj_valid _ _ _ _ G2 Hm2).
        unfold has_field. rewrite Sh, C2. cbn [olen]. rewrite mput_nonempty. reflexivity.
      - subst recv. cbn [step]. rewrite F. rewrite (recv_obj_valid _ _ _ _ G2 Hm2).
        unfold get_field. rewrite Sh, C2. cbn [olen]. rewrite mput_nonempty. reflexivity.
    Qed.

    (* Mutable of a singular message field: allocates when unset, then keeps returning the same message *)
    Theorem mutable_message_stable : forall f fd m c,
      field_of sch mid f = Some fd -> f_shape fd = Singular -> f_ty fd = TMsg m ->
      nth_error (o_cells ob) f = Some (CMsg c) ->
      exists h1 q, step sch h (OMutable recv f) = (h1, PMsg m (Some q)) /\
                   (forall q0, c = Some q0 -> q = q0 /\ h1 = h) /\
                   step sch h1 (OHas recv f) = (h1, PBool true) /\
                   step sch h1 (OGet recv f) = (h1, PMsg m (Some q)) /\
                   step sch h1 (OMutable recv f) = (h1, PMsg m (Some q)).
    Proof.
      intros f fd m c F Sh T C.
      assert (L : f < length (o_cells ob)) by (eapply nth_error_Some_lt; eauto).
      destruct c as [q0|].
      - exists h, q0.
        assert (M : step sch h (OMutable recv f) = (h, PMsg m (Some q0))).
        { subst recv. cbn [step]. rewrite F, recv_ok, Sh, T, C. reflexivity. }
        split; [exact M|]. split; [intros q1 E; inversion E; auto|]. split; [|split; [|exact M]].
        + subst recv. cbn [step]. rewrite F, recv_ok. unfold has_field. rewrite Sh, C. reflexivity.
        + subst recv. cbn [step]. rewrite F, recv_ok. unfold get_field. rewrite Sh, C, T. reflexivity.
      - set (q := length h).
        set (ob1 := set_cell ob f (CMsg (Some q))).
        set (h1 := hset (h ++ [HObj (new_obj sch m)]) id (HObj ob1)).
        assert (I : id < length (h ++ [HObj (new_obj sch m)])) by (rewrite app_length; pose proof id_lt; lia).
        assert (G1 : get_obj h1 id = Some ob1) by (apply get_obj_hset_eq; exact I).
        assert (C1 : nth_error (o_cells ob1) f = Some (CMsg (Some q))).
        { subst ob1. cbn [set_cell o_cells]. apply nth_error_set_nth_eq; exact L. }
        assert (Hm1 : o_mid ob1 = mid) by exact Hmid.
        exists h1, q. split; [|split; [intros q0 E; discriminate|split; [|split]]].
        + subst recv. cbn [step]. rewrite F, recv_ok, Sh, T, C. reflexivity.
        + subst recv. cbn [step]. rewrite F, (recv_obj_valid _ _ _ _ G1 Hm1). unfold has_field. rewrite Sh, C1. reflexivity.
        + subst recv. cbn [step]. rewrite F, (recv_obj_valid _ _ _ _ G1 Hm1). unfold get_field. rewrite Sh, C1, T. reflexivity.
        + subst recv. cbn [step]. rewrite F, (recv_obj_valid _ _ _ _ G1 Hm1), Sh, T, C1. reflexivity.
    Qed.
  End Obj.

  (* ================= 7. the shape invariant of heaps, preserved by every operation ================== *)
  Definition cell_fits (fd : field) (c : cell) : Prop :=
    match f_shape fd, f_ty fd, c with
    | Singular, TScalar _, CScalar _ => True
    | Singular, TMsg _, CMsg _ => True
    | Rep _, _, CList _ => True
    | MapOf _, _, CMap _ => True
    | Member _, _, CMember => True
    | _, _, _ => False
    end.
  Definition obj_ok (o : obj) : Prop :=
    match get_msg sch (o_mid o) with
    | Some md => Forall2 cell_fits (m_fields md) (o_cells o) /\ length (o_oneofs o) = m_oneofs md
    | None => True
    end.
  Definition heap_ok (h : heap) : Prop := forall id o, get_obj h id = Some o -> obj_ok o.

  Lemma Forall2_set_nth {A B} (R : A -> B -> Prop) l1 l2 i y :
    Forall2 R l1 l2 -> (forall x, nth_error l1 i = Some x -> R x y) -> Forall2 R l1 (set_nth l2 i y).
  Proof.
    intro H. revert i. induction H as [|a b l1 l2 Hab H IH]; intros i Hy; cbn [set_nth]; [constructor|].
    destruct i as [|i].
    - constructor; [apply Hy; reflexivity|exact H].
    - constructor; [exact Hab|]. apply IH. intros x Hx. apply Hy. exact Hx.
  Qed.

  Lemma Forall2_nth {A B} (R : A -> B -> Prop) l1 l2 i x y :
    Forall2 R l1 l2 -> nth_error l1 i = Some x -> nth_error l2 i = Some y -> R x y.
  Proof.
    intro H. revert i. induction H as [|a b l1 l2 Hab H IH]; intros [|i] H1 H2; cbn [nth_error] in *; try discriminate.
    - inversion H1; inversion H2; subst; exact Hab.
    - eapply IH; eauto.
  Qed.

  Lemma Forall2_nth_l {A B} (R : A -> B -> Prop) l1 l2 i y :
    Forall2 R l1 l2 -> nth_error l2 i = Some y -> exists x, nth_error l1 i = Some x /\ R x y.
  Proof.
    intro H. revert i. induction H as [|a b l1 l2 Hab H IH]; intros [|i] H2; cbn [nth_error] in *; try discriminate.
    - inversion H2; subst. eauto.
    - eapply IH; eauto.
  Qed.

  Lemma new_cell_fits fd : cell_fits fd (new_cell fd).
  Proof. unfold cell_fits, new_cell. destruct (f_shape fd); destruct (f_ty fd); exact I. Qed.

  Lemma new_obj_ok mid : obj_ok (new_obj sch mid).
  Proof.
    unfold obj_ok. rewrite new_obj_mid. unfold new_obj. destruct (get_msg sch mid) as [md|]; [|exact I].
    cbn [o_cells o_oneofs]. split; [|apply repeat_length].
    induction (m_fields md); cbn [map]; constructor; [apply new_cell_fits|assumption].
  Qed.

  Lemma obj_ok_set_cell o f fd c : obj_ok o -> field_of sch (o_mid o) f = Some fd -> cell_fits fd c -> obj_ok (set_cell o f c).
  Proof.
    unfold obj_ok, field_of. cbn [set_cell o_mid o_cells o_oneofs]. destruct (get_msg sch (o_mid o)) as [md|]; [|auto].
    intros [H1 H2] F C. split; [|exact H2]. apply Forall2_set_nth; [exact H1|]. intros x Hx. congruence.
  Qed.

  Lemma obj_ok_set_oneof o j x : obj_ok o -> obj_ok (set_oneof o j x).
  Proof.
    unfold obj_ok. cbn [set_oneof o_mid o_cells o_oneofs]. destruct (get_msg sch (o_mid o)); [|auto].
    intros [H1 H2]. split; [exact H1|]. rewrite set_nth_length. exact H2.
  Qed.

  Lemma obj_ok_set_unk o u : obj_ok o -> obj_ok (set_unk o u).
  Proof. unfold obj_ok. cbn [set_unk o_mid o_cells o_oneofs]. auto. Qed.

  Lemma nth_error_set_nth_cases {A} (l : list A) i j x y :
    nth_error (set_nth l i x) j = Some y -> y = x \/ nth_error l j = Some y.
  Proof.
    revert i j; induction l as [|a l IH]; intros [|i] [|j]; cbn [set_nth nth_error]; auto.
    - intro H; inversion H; auto.
    - apply IH.
  Qed.

  Lemma heap_ok_hset h id e : heap_ok h -> (forall o, e = HObj o -> obj_ok o) -> heap_ok (hset h id e).
  Proof.
    intros H He id' o. unfold get_obj, hget, hset. destruct (nth_error (set_nth h id e) id') as [x|] eqn:E; [|discriminate].
    apply nth_error_set_nth_cases in E. destruct E as [->|E].
    - destruct e; try discriminate. intro X; inversion X; subst. apply He; reflexivity.
    - intro X. apply (H id' o). unfold get_obj, hget. rewrite E. exact X.
  Qed.

  Lemma heap_ok_app h e : heap_ok h -> (forall o, e = HObj o -> obj_ok o) -> heap_ok (h ++ [e]).
  Proof.
    intros H He id o. unfold get_obj, hget. destruct (Nat.lt_ge_cases id (length h)) as [L|L].
    - rewrite nth_error_app1 by exact L. apply (H id o).
    - rewrite nth_error_app2 by exact L. destruct (id - length h) as [|n]; cbn [nth_error].
      + destruct e; try discriminate. intro X; inversion X; subst. apply He; reflexivity.
      + destruct n; discriminate.
  Qed.

  Lemma heap_ok_new h mid : heap_ok h -> heap_ok (h ++ [HObj (new_obj sch mid)]).
  Proof. intro H. apply heap_ok_app; [exact H|]. intros o E; inversion E; apply new_obj_ok. Qed.

  Lemma heap_ok_var h e : heap_ok h -> (forall o, e <> HObj o) -> heap_ok (h ++ [e]).
  Proof. intros H N. apply heap_ok_app; [exact H|]. intros o E. destruct (N o E). Qed.

  Lemma get_obj_app h x id o : get_obj h id = Some o -> get_obj (h ++ [x]) id = Some o.
  Proof.
    intro H. pose proof (get_obj_lt _ _ _ H) as L. unfold get_obj, hget in *. rewrite nth_error_app1 by exact L. exact H.
  Qed.

  Lemma recv_obj_inv h mid id ob : recv_obj sch h mid (Some id) = Some ob -> get_obj h id = Some ob /\ o_mid ob = mid.
  Proof.
    unfold recv_obj. destruct (get_obj h id) as [o|]; [|discriminate]. destruct (Nat.eqb (o_mid o) mid) eqn:E; [|discriminate].
    intro H; inversion H; subst. apply Nat.eqb_eq in E. auto.
  Qed.

  Lemma ok_set_cell h h0 mid id ob f fd c :
    heap_ok h -> heap_ok h0 -> recv_obj sch h0 mid (Some id) = Some ob -> field_of sch mid f = Some fd -> cell_fits fd c ->
    heap_ok (hset h id (HObj (set_cell ob f c))).
  Proof.
    intros H H0 R F C. apply recv_obj_inv in R. destruct R as [G M]. apply heap_ok_hset; [exact H|].
    intros o E; inversion E; subst. apply obj_ok_set_cell with fd; [apply (H0 _ _ G)|exact F|exact C].
  Qed.

  Lemma ok_set_oneof h h0 mid id ob j x :
    heap_ok h -> heap_ok h0 -> recv_obj sch h0 mid (Some id) = Some ob -> heap_ok (hset h id (HObj (set_oneof ob j x))).
  Proof.
    intros H H0 R. apply recv_obj_inv in R. destruct R as [G M]. apply heap_ok_hset; [exact H|].
    intros o E; inversion E; subst. apply obj_ok_set_oneof, (H0 _ _ G).
  Qed.

  Lemma ok_set_unk h mid id ob u :
    heap_ok h -> recv_obj sch h mid (Some id) = Some ob -> heap_ok (hset h id (HObj (set_unk ob u))).
  Proof.
    intros H R. apply recv_obj_inv in R. destruct R as [G M]. apply heap_ok_hset; [exact H|].
    intros o E; inversion E; subst. apply obj_ok_set_unk, (H _ _ G).
  Qed.

  Lemma ok_same h mid id ob : heap_ok h -> recv_obj sch h mid (Some id) = Some ob -> heap_ok (hset h id (HObj ob)).
  Proof.
    intros H R. apply recv_obj_inv in R. destruct R as [G M]. rewrite (hset_same _ _ _ G). exact H.
  Qed.

  Lemma read_list_field h o f l0 : read_list h (RField o f) = Some l0 ->
    exists ob, get_obj h o = Some ob /\ nth_error (o_cells ob) f = Some (CList l0).
  Proof.
    cbn [read_list]. destruct (get_obj h o) as [ob|]; [|discriminate].
    destruct (nth_error (o_cells ob) f) as [[| |l| |]|] eqn:E; try discriminate. intro H; inversion H; subst. eauto.
  Qed.
  Lemma read_map_field h o f m0 : read_map h (RField o f) = Some m0 ->
    exists ob, get_obj h o = Some ob /\ nth_error (o_cells ob) f = Some (CMap m0).
  Proof.
    cbn [read_map]. destruct (get_obj h o) as [ob|]; [|discriminate].
    destruct (nth_error (o_cells ob) f) as [[| | |m|]|] eqn:E; try discriminate. intro H; inversion H; subst. eauto.
  Qed.

  Lemma fits_list_any fd l l' : cell_fits fd (CList l) -> cell_fits fd (CList l').
  Proof. unfold cell_fits. destruct (f_shape fd); destruct (f_ty fd); auto. Qed.
  Lemma fits_map_any fd m m' : cell_fits fd (CMap m) -> cell_fits fd (CMap m').
  Proof. unfold cell_fits. destruct (f_shape fd); destruct (f_ty fd); auto. Qed.

  Lemma obj_ok_cell_update ob f c c' :
    obj_ok ob -> nth_error (o_cells ob) f = Some c -> (forall fd, cell_fits fd c -> cell_fits fd c') -> obj_ok (set_cell ob f c').
  Proof.
    unfold obj_ok. cbn [set_cell o_mid o_cells o_oneofs]. destruct (get_msg sch (o_mid ob)) as [md|]; [|auto].
    intros [H1 H2] C K. split; [|exact H2]. apply Forall2_set_nth; [exact H1|]. intros x Hx.
    apply K. eapply Forall2_nth; eauto.
  Qed.

  Lemma write_list_ok h r l0 l : heap_ok h -> read_list h r = Some l0 -> heap_ok (write_list h r l).
  Proof.
    intros H R. destruct r as [o f|v|]; cbn [write_list]; [| |exact H].
    - destruct (read_list_field _ _ _ _ R) as [ob [G C]]. rewrite G. apply heap_ok_hset; [exact H|].
      intros o' E; inversion E; subst. eapply obj_ok_cell_update; [apply (H _ _ G)|exact C|]. intros fd. apply fits_list_any.
    - apply heap_ok_hset; [exact H|]. intros o E; discriminate.
  Qed.
  Lemma write_map_ok h r m0 m : heap_ok h -> read_map h r = Some m0 -> heap_ok (write_map h r m).
  Proof.
    intros H R. destruct r as [o f|v|]; cbn [write_map]; [| |exact H].
    - destruct (read_map_field _ _ _ _ R) as [ob [G C]]. rewrite G. apply heap_ok_hset; [exact H|].
      intros o' E; inversion E; subst. eapply obj_ok_cell_update; [apply (H _ _ G)|exact C|]. intros fd. apply fits_map_any.
    - apply heap_ok_hset; [exact H|]. intros o E; discriminate.
  Qed.

  Lemma read_list_app h x r l0 : read_list h r = Some l0 -> read_list (h ++ [x]) r = Some l0.
  Proof.
    destruct r as [o f|v|]; cbn [read_list]; [| |auto].
    - destruct (get_obj h o) as [ob|] eqn:G; [|discriminate]. rewrite (get_obj_app _ x _ _ G). auto.
    - unfold hget. destruct (nth_error h v) eqn:E; [|discriminate]. rewrite nth_error_app1 by (eapply nth_error_Some_lt; eauto).
      rewrite E. auto.
  Qed.
  Lemma read_map_app h x r m0 : read_map h r = Some m0 -> read_map (h ++ [x]) r = Some m0.
  Proof.
    destruct r as [o f|v|]; cbn [read_map]; [| |auto].
    - destruct (get_obj h o) as [ob|] eqn:G; [|discriminate]. rewrite (get_obj_app _ x _ _ G). auto.
    - unfold hget. destruct (nth_error h v) eqn:E; [|discriminate]. rewrite nth_error_app1 by (eapply nth_error_Some_lt; eauto).
      rewrite E. auto.
  Qed.

  Lemma pte_scalar t v s : pval_to_elem t v = Some (EScalar s) -> exists k, t = TScalar k.
  Proof. unfold pval_to_elem. destruct t as [k|m]; [eauto|]. destruct v; try discriminate. destruct (Nat.eqb m mid); discriminate. Qed.
  Lemma pte_ptr t v p : pval_to_elem t v = Some (EPtr p) -> exists m, t = TMsg m.
  Proof. unfold pval_to_elem. destruct t as [k|m]; [|eauto]. destruct v; try discriminate. destruct (wt_scalar k v); discriminate. Qed.

  Ltac dm :=
    match goal with
    | |- context [match ?x with _ => _ end] => destruct x eqn:?
    | |- context [if ?x then _ else _] => destruct x eqn:?
    end.

  Ltac fits :=
    unfold cell_fits;
    repeat match goal with
           | H : pval_to_elem (f_ty _) _ = Some (EScalar _) |- _ => destruct (pte_scalar _ _ _ H) as [? ?]; clear H
           | H : pval_to_elem (f_ty _) _ = Some (EPtr _) |- _ => destruct (pte_ptr _ _ _ H) as [? ?]; clear H
           end;
    repeat match goal with
           | H : f_shape _ = _ |- _ => rewrite H
           | H : f_ty _ = _ |- _ => rewrite H
           end;
    try exact I.

  Ltac base H := first [exact H | apply heap_ok_new; exact H].

  Ltac leaf H :=
    cbn [fst];
    first
      [ exact H
      | apply heap_ok_new; exact H
      | apply heap_ok_var; [exact H | intros ? ?; discriminate]
      | eapply ok_same; [exact H | eassumption]
      | eapply ok_set_unk; [exact H | eassumption]
      | eapply ok_set_oneof; [base H | exact H | eassumption]
      | eapply ok_set_cell; [base H | exact H | eassumption | eassumption | fits]
      | eapply write_list_ok; [base H | first [eassumption | apply read_list_app; eassumption]]
      | eapply write_map_ok; [base H | first [eassumption | apply read_map_app; eassumption]] ].

  Theorem step_preserves_ok : forall h o, heap_ok h -> heap_ok (fst (step sch h o)).
  Proof.
    intros h o H. destruct o; cbn [step]; unfold halloc; repeat dm; leaf H.
  Qed.

  (* every heap reachable from the empty heap by any sequence of operations (operands are earlier results,
     chosen in any way) satisfies the invariant *)
  Lemma run_ok_gen : forall ops h outs, heap_ok h ->
    heap_ok (fst (fold_left (fun (st : heap * list pval) (mk : list pval -> op) =>
                               let (h, outs) := st in
                               let (h', r) := step sch h (mk outs) in (h', outs ++ [r])) ops (h, outs))).
  Proof.
    induction ops as [|mk ops IH]; intros h outs H; cbn [fold_left]; [exact H|].
    destruct (step sch h (mk outs)) as [h' r] eqn:E. apply IH.
    pose proof (step_preserves_ok h (mk outs) H) as P. rewrite E in P. exact P.
  Qed.

  Theorem reachable_ok : forall ops, heap_ok (fst (run sch ops)).
  Proof.
    intro ops. unfold run. apply run_ok_gen. intros id o. unfold get_obj, hget. destruct id; discriminate.
  Qed.

  (* what the invariant gives: a field of the type has its cell, of the constructor of its shape, and (in a
     well-formed schema) the oneof of a member has its slot *)
  Lemma Forall2_len {A B} (R : A -> B -> Prop) l1 l2 : Forall2 R l1 l2 -> length l1 = length l2.
  Proof. induction 1; cbn; congruence. Qed.

  Lemma ok_cell o f fd : obj_ok o -> field_of sch (o_mid o) f = Some fd ->
    exists c, nth_error (o_cells o) f = Some c /\ cell_fits fd c.
  Proof.
    unfold obj_ok, field_of. destruct (get_msg sch (o_mid o)) as [md|]; [|discriminate].
    intros [H1 _] F. assert (L : f < length (o_cells o)).
    { rewrite <- (Forall2_len _ _ _ H1). eapply nth_error_Some_lt; eauto. }
    destruct (nth_error (o_cells o) f) as [c|] eqn:E; [|apply nth_error_None in E; lia].
    exists c. split; [reflexivity|]. eapply Forall2_nth; eauto.
  Qed.

  Lemma ok_cell_lt o f fd : obj_ok o -> field_of sch (o_mid o) f = Some fd -> f < length (o_cells o).
  Proof. intros H F. destruct (ok_cell o f fd H F) as [c [E _]]. eapply nth_error_Some_lt; eauto. Qed.

  Lemma ok_cell_list o f fd p : obj_ok o -> field_of sch (o_mid o) f = Some fd -> f_shape fd = Rep p ->
    exists l, nth_error (o_cells o) f = Some (CList l).
  Proof.
    intros H F S. destruct (ok_cell o f fd H F) as [c [E C]]. unfold cell_fits in C. rewrite S in C.
    destruct (f_ty fd); destruct c; try destruct C; eauto.
  Qed.
  Lemma ok_cell_map o f fd kk : obj_ok o -> field_of sch (o_mid o) f = Some fd -> f_shape fd = MapOf kk ->
    exists m, nth_error (o_cells o) f = Some (CMap m).
  Proof.
    intros H F S. destruct (ok_cell o f fd H F) as [c [E C]]. unfold cell_fits in C. rewrite S in C.
    destruct (f_ty fd); destruct c; try destruct C; eauto.
  Qed.
  Lemma ok_cell_msg o f fd m : obj_ok o -> field_of sch (o_mid o) f = Some fd -> f_shape fd = Singular -> f_ty fd = TMsg m ->
    exists c, nth_error (o_cells o) f = Some (CMsg c).
  Proof.
    intros H F S T. destruct (ok_cell o f fd H F) as [c [E C]]. unfold cell_fits in C. rewrite S, T in C.
    destruct c; try destruct C; eauto.
  Qed.

  Lemma ok_oneof_lt o f fd j : wf sch = true -> obj_ok o -> field_of sch (o_mid o) f = Some fd -> f_shape fd = Member j ->
    j < length (o_oneofs o).
  Proof.
    unfold obj_ok, field_of, wf. intros W. destruct (get_msg sch (o_mid o)) as [md|] eqn:M; [|discriminate].
    intros [_ H2] F S. rewrite H2. unfold get_msg in M. apply nth_error_In in M.
    rewrite forallb_forall in W. specialize (W md M). unfold msg_wf in W. apply andb_prop in W. destruct W as [W _].
    rewrite forallb_forall in W. specialize (W fd (nth_error_In _ _ F)). unfold field_wf in W. rewrite S in W.
    apply andb_prop in W. destruct W as [_ W]. apply Nat.ltb_lt. exact W.
  Qed.
End Laws.

(* ================= 8. final forms: the laws on every heap satisfying the shape invariant, i.e. (reachable_ok)
   on every heap reachable from the empty one by any history ============================================== *)
Section Final.
  Variable sch : schema.
  Hypothesis Hwf : wf sch = true.
  Variables (h : heap) (id : nat) (ob : obj).
  Hypothesis Hinv : heap_ok sch h.
  Hypothesis Hob : get_obj h id = Some ob.
  Let mid := o_mid ob.
  Let recv := PMsg mid (Some id).

  Lemma obk : obj_ok sch ob.
  Proof. exact (Hinv _ _ Hob). Qed.

  Theorem has_get_after_set_scalar : forall f fd k s,
    field_of sch mid f = Some fd -> f_shape fd = Singular -> f_ty fd = TScalar k -> wt_scalar k s = true ->
    exists h', step sch h (OSet recv f (PScalar s)) = (h', PUnit) /\
               step sch h' (OHas recv f) = (h', PBool (present k s)) /\
               step sch h' (OGet recv f) = (h', PScalar s).
  Proof. intros. eapply set_scalar; eauto. eapply ok_cell_lt; eauto using obk. Qed.

  Theorem has_get_after_set_message : forall f fd m q,
    field_of sch mid f = Some fd -> f_shape fd = Singular -> f_ty fd = TMsg m ->
    exists h', step sch h (OSet recv f (PMsg m (Some q))) = (h', PUnit) /\
               step sch h' (OHas recv f) = (h', PBool true) /\
               step sch h' (OGet recv f) = (h', PMsg m (Some q)).
  Proof. intros. eapply set_message; eauto. eapply ok_cell_lt; eauto using obk. Qed.

  Theorem set_invalid_message_panics : forall f fd m,
    field_of sch mid f = Some fd -> f_shape fd = Singular -> f_ty fd = TMsg m ->
    step sch h (OSet recv f (PMsg m None)) = (h, PPanic).
  Proof. intros. eapply set_message_invalid_panics; eauto. Qed.

  Theorem has_get_after_set_member : forall f fd j v e md,
    field_of sch mid f = Some fd -> f_shape fd = Member j -> pval_to_elem (f_ty fd) v = Some e ->
    get_msg sch mid = Some md ->
    exists h', step sch h (OSet recv f v) = (h', PUnit) /\
               step sch h' (OHas recv f) = (h', PBool true) /\
               step sch h' (OGet recv f) = (h', v) /\
               step sch h' (OWhichOneof recv j) = (h', PField (Some f)) /\
               (forall f2 fd2, field_of sch mid f2 = Some fd2 -> f_shape fd2 = Member j -> f2 <> f ->
                  step sch h' (OHas recv f2) = (h', PBool false) /\
                  step sch h' (OGet recv f2) = (h', zero_elem (f_ty fd2))).
  Proof.
    intros f fd j v e md F S P M.
    assert (L : j < length (o_oneofs ob)) by (eapply ok_oneof_lt; eauto using obk).
    destruct (set_member sch h mid id ob Hob eq_refl f fd j v e F S P L) as [h' [A [B [C [D E]]]]].
    exists h'. split; [exact A|]. split; [exact B|]. split; [exact C|]. split; [|exact E].
    apply (D md M).
    pose proof obk as K. unfold obj_ok in K. fold mid in K. rewrite M in K. destruct K as [_ K]. lia.
  Qed.

  Theorem has_get_after_set_list : forall f fd p t r l,
    field_of sch mid f = Some fd -> f_shape fd = Rep p -> read_list h r = Some l ->
    exists h', step sch h (OSet recv f (PList t r)) = (h', PUnit) /\
               step sch h' (OHas recv f) = (h', PBool (negb (Nat.eqb (olen l) 0))) /\
               step sch h' (OGet recv f) = (h', PList (f_ty fd) (if Nat.eqb (olen l) 0 then RNil else RField id f)).
  Proof. intros. eapply set_list; eauto. eapply ok_cell_lt; eauto using obk. Qed.

  Theorem has_get_after_set_map : forall f fd kk kk' t r m,
    field_of sch mid f = Some fd -> f_shape fd = MapOf kk -> read_map h r = Some m ->
    exists h', step sch h (OSet recv f (PMap kk' t r)) = (h', PUnit) /\
               step sch h' (OHas recv f) = (h', PBool (negb (Nat.eqb (olen m) 0))) /\
               step sch h' (OGet recv f) = (h', PMap kk (f_ty fd) (if Nat.eqb (olen m) 0 then RNil else RField id f)).
  Proof. intros. eapply set_map; eauto. eapply ok_cell_lt; eauto using obk. Qed.

  Theorem has_get_after_clear : forall f fd,
    field_of sch mid f = Some fd ->
    exists h', step sch h (OClear recv f) = (h', PUnit) /\
               step sch h' (OHas recv f) = (h', PBool false) /\
               step sch h' (OGet recv f) = (h', default_pval fd).
  Proof. intros. eapply clear_then_unpopulated; eauto. eapply ok_cell_lt; eauto using obk. Qed.

  Theorem clear_other_member_is_noop : forall f fd j f',
    field_of sch mid f = Some fd -> f_shape fd = Member j ->
    step sch h (OWhichOneof recv j) = (h, PField f') -> f' <> Some f ->
    step sch h (OClear recv f) = (h, PUnit).
  Proof.
    intros f fd j f' F S W N. eapply clear_other_member_noop; eauto.
    intros e E. apply N. revert W. subst recv mid. cbn [step].
    rewrite (recv_obj_valid sch _ _ _ _ Hob eq_refl).
    destruct (get_msg sch (o_mid ob)) as [md|]; [|discriminate].
    destruct (j <? m_oneofs md); [|discriminate]. rewrite E. intro X; inversion X; reflexivity.
  Qed.

  Theorem oneof_has_at_most_one : forall f1 f2 fd1 fd2 j,
    field_of sch mid f1 = Some fd1 -> field_of sch mid f2 = Some fd2 ->
    f_shape fd1 = Member j -> f_shape fd2 = Member j ->
    step sch h (OHas recv f1) = (h, PBool true) -> step sch h (OHas recv f2) = (h, PBool true) -> f1 = f2.
  Proof.
    intros f1 f2 fd1 fd2 j F1 F2 S1 S2 H1 H2.
    destruct (reads_now sch h mid id ob Hob eq_refl) as [A _].
    destruct (A f1 fd1 F1) as [A1 _]. destruct (A f2 fd2 F2) as [A2 _].
    fold recv in A1, A2. rewrite A1 in H1. rewrite A2 in H2.
    inversion H1 as [X1]. inversion H2 as [X2]. exact (oneof_at_most_one ob f1 f2 fd1 fd2 j S1 S2 X1 X2).
  Qed.

  Theorem which_oneof_is_the_member_set : forall j md, get_msg sch mid = Some md -> j < m_oneofs md ->
    exists w, step sch h (OWhichOneof recv j) = (h, PField w) /\
      forall f fd, field_of sch mid f = Some fd -> f_shape fd = Member j ->
        (step sch h (OHas recv f) = (h, PBool true) <-> w = Some f).
  Proof. intros. eapply which_oneof_consistent; eauto. Qed.

  Theorem range_visits_exactly_the_populated_fields :
    exists l, step sch h (ORange recv) = (h, PRange l) /\
      (forall i v, In (i, v) l <->
         exists fd, field_of sch mid i = Some fd /\
                    step sch h (OHas recv i) = (h, PBool true) /\ step sch h (OGet recv i) = (h, v)) /\
      Sorted.StronglySorted lt (map fst l).
  Proof. eapply range_exactly_populated; eauto. Qed.

  Theorem mutable_list_view_writes_through : forall f fd p x e,
    field_of sch mid f = Some fd -> f_shape fd = Rep p -> pval_to_elem (f_ty fd) x = Some e ->
    let v := PList (f_ty fd) (RField id f) in
    exists h1 h2 n, step sch h (OMutable recv f) = (h1, v) /\
                    step sch h (OLLen v) = (h, PScalar (VInt (Z.of_nat n))) /\
                    step sch h1 (OLAppend v x) = (h2, PUnit) /\
                    step sch h2 (OLLen v) = (h2, PScalar (VInt (Z.of_nat (S n)))) /\
                    step sch h2 (OLGet v (Z.of_nat n)) = (h2, x) /\
                    step sch h2 (OHas recv f) = (h2, PBool true) /\
                    step sch h2 (OGet recv f) = (h2, v).
  Proof.
    intros f fd p x e F S P v.
    destruct (ok_cell_list sch ob f fd p obk F S) as [l0 C].
    destruct (mutable_list_writes_through sch h mid id ob Hob eq_refl f fd p l0 x e F S C P) as [h1 [h2 [A [B [D [E [G I]]]]]]].
    exists h1, h2, (olen l0). repeat split; auto.
    subst v. cbn [step read_list]. rewrite Hob, C. reflexivity.
  Qed.

  Theorem mutable_map_view_writes_through : forall f fd kk k x e,
    field_of sch mid f = Some fd -> f_shape fd = MapOf kk -> wt_scalar kk k = true ->
    pval_to_elem (f_ty fd) x = Some e ->
    let v := PMap kk (f_ty fd) (RField id f) in
    exists h1 h2, step sch h (OMutable recv f) = (h1, v) /\
                  step sch h1 (OMSet v k x) = (h2, PUnit) /\
                  step sch h2 (OMHas v k) = (h2, PBool true) /\
                  step sch h2 (OMGet v k) = (h2, x) /\
                  step sch h2 (OHas recv f) = (h2, PBool true) /\
                  step sch h2 (OGet recv f) = (h2, v).
  Proof.
    intros f fd kk k x e F S W P v.
    destruct (ok_cell_map sch ob f fd kk obk F S) as [m0 C].
    eapply mutable_map_writes_through; eauto.
    (* legal key kinds: from the well-formed schema *)
    unfold field_of in F. destruct (get_msg sch mid) as [md|] eqn:M; [|discriminate].
    unfold wf in Hwf. rewrite forallb_forall in Hwf. unfold get_msg in M. specialize (Hwf md (nth_error_In _ _ M)).
    unfold msg_wf in Hwf. apply andb_prop in Hwf. destruct Hwf as [W1 _]. rewrite forallb_forall in W1.
    specialize (W1 fd (nth_error_In _ _ F)). unfold field_wf in W1. rewrite S in W1.
    apply andb_prop in W1. destruct W1 as [_ W1]. exact W1.
  Qed.

  Theorem mutable_message_is_stable : forall f fd m,
    field_of sch mid f = Some fd -> f_shape fd = Singular -> f_ty fd = TMsg m ->
    exists h1 q, step sch h (OMutable recv f) = (h1, PMsg m (Some q)) /\
                 (step sch h (OHas recv f) = (h, PBool true) -> h1 = h /\ step sch h (OGet recv f) = (h, PMsg m (Some q))) /\
                 step sch h1 (OHas recv f) = (h1, PBool true) /\
                 step sch h1 (OGet recv f) = (h1, PMsg m (Some q)) /\
                 step sch h1 (OMutable recv f) = (h1, PMsg m (Some q)).
  Proof.
    intros f fd m F S T.
    destruct (ok_cell_msg sch ob f fd m obk F S T) as [c C].
    destruct (mutable_message_stable sch h mid id ob Hob eq_refl f fd m c F S T C) as [h1 [q [A [B [D [E G]]]]]].
    exists h1, q. repeat split; auto.
    - destruct c as [q0|].
      + destruct (B q0 eq_refl) as [_ X]. exact X.
      + revert H. subst recv mid. cbn [step]. rewrite F, (recv_obj_valid sch _ _ _ _ Hob eq_refl).
        unfold has_field. rewrite S, C. discriminate.
    - destruct c as [q0|].
      + destruct (B q0 eq_refl) as [X Y]. subst. exact E.
      + revert H. subst recv mid. cbn [step]. rewrite F, (recv_obj_valid sch _ _ _ _ Hob eq_refl).
        unfold has_field. rewrite S, C. discriminate.
  Qed.
End Final.

(* Get on a nil message gives nil / invalid values again: access chains of any length stay read-only empty *)
Theorem nil_get_is_default : forall sch h mid f fd, field_of sch mid f = Some fd ->
  step sch h (OGet (PMsg mid None) f) = (h, default_pval fd).
Proof.
  intros sch h mid f fd F. cbn [step recv_obj]. rewrite F. f_equal.
  unfold field_of, new_obj in *. destruct (get_msg sch mid) as [md|]; [|discriminate].
  unfold get_field, default_pval; cbn [o_oneofs o_cells]. rewrite nth_error_map, F. cbn [option_map]. unfold new_cell.
  destruct (f_shape fd) eqn:S; destruct (f_ty fd) as [k|m]; cbn; try reflexivity; rewrite nth_repeat_None; reflexivity.
Qed.

(* new(T): a fresh object in which nothing is populated; nothing else changes *)
Theorem new_message_is_empty : forall sch h mid,
  let h' := h ++ [HObj (new_obj sch mid)] in
  let E := PMsg mid (Some (length h)) in
  step sch h (ONew mid) = (h', E) /\
  (forall id o, get_obj h id = Some o -> get_obj h' id = Some o) /\
  (forall f fd, field_of sch mid f = Some fd -> step sch h' (OHas E f) = (h', PBool false)) /\
  step sch h' (ORange E) = (h', PRange []) /\
  step sch h' (OIsValid E) = (h', PBool true).
Proof.
  intros sch h mid h' E. subst h' E. split; [reflexivity|]. split; [intros id o G; apply get_obj_app; exact G|].
  cbn [step]. rewrite recv_obj_fresh. split; [|split; [|reflexivity]].
  - intros f fd F. rewrite F, (has_field_new _ _ _ _ F). reflexivity.
  - rewrite range_from_new. reflexivity.
Qed.

(* NewField / NewElement / NewValue allocate at the end of the heap: no existing object changes *)
Theorem new_values_are_fresh : forall sch h o,
  match o with ONewField _ _ | OLNewElement _ | OMNewValue _ => True | _ => False end ->
  forall id ob, get_obj h id = Some ob -> get_obj (fst (step sch h o)) id = Some ob.
Proof.
  intros sch h o Ho id ob G. destruct o; try destruct Ho; cbn [step]; unfold halloc;
    repeat match goal with
           | |- context [match ?x with _ => _ end] => destruct x
           end; cbn [fst]; try exact G; apply get_obj_app; exact G.
Qed.

(* ================= 9. Mutable of a oneof message member; list and map element laws ======================= *)
Section More.
  Variable sch : schema.
  Hypothesis Hwf : wf sch = true.
  Variables (h : heap) (id : nat) (ob : obj).
  Hypothesis Hinv : heap_ok sch h.
  Hypothesis Hob : get_obj h id = Some ob.
  Let mid := o_mid ob.
  Let recv := PMsg mid (Some id).

  Lemma member_fresh_after : forall f fd j m md,
    field_of sch mid f = Some fd -> f_shape fd = Member j -> f_ty fd = TMsg m -> get_msg sch mid = Some md ->
    let q := length h in
    let ob1 := set_oneof ob j (Some (f, EPtr (Some q))) in
    let h1 := hset (h ++ [HObj (new_obj sch m)]) id (HObj ob1) in
    step sch h1 (OHas recv f) = (h1, PBool true) /\
    step sch h1 (OGet recv f) = (h1, PMsg m (Some q)) /\
    step sch h1 (OWhichOneof recv j) = (h1, PField (Some f)) /\
    step sch h1 (OMutable recv f) = (h1, PMsg m (Some q)) /\
    (forall f2 fd2, field_of sch mid f2 = Some fd2 -> f_shape fd2 = Member j -> f2 <> f ->
       step sch h1 (OHas recv f2) = (h1, PBool false)).
  Proof.
    intros f fd j m md F S T M q ob1 h1.
    pose proof (Hinv _ _ Hob) as K.
    assert (L : j < length (o_oneofs ob)) by (eapply ok_oneof_lt; eauto).
    assert (Lm : j < m_oneofs md).
    { unfold obj_ok in K. fold mid in K. rewrite M in K. destruct K as [_ K]. lia. }
    assert (Hob' : get_obj (h ++ [HObj (new_obj sch m)]) id = Some ob) by (apply get_obj_app; exact Hob).
    assert (N1 : nth j (o_oneofs ob1) None = Some (f, EPtr (Some q))).
    { subst ob1. cbn [set_oneof o_oneofs]. apply nth_set_nth_eq; exact L. }
    destruct (after_write sch _ mid id ob Hob' ob1 eq_refl) as [A [B _]]. fold h1 in A, B. fold recv in A, B.
    destruct (A f fd F) as [A1 A2]. rewrite A1, A2, (B j md M Lm). unfold has_field, get_field. rewrite S, N1, Nat.eqb_refl, T.
    cbn [elem_to_pval]. repeat (split; [reflexivity|]). split.
    - assert (I : id < length (h ++ [HObj (new_obj sch m)])) by (eapply get_obj_lt; eauto).
      assert (G1 : get_obj h1 id = Some ob1) by (apply get_obj_hset_eq; exact I).
      assert (R1 : recv_obj sch h1 mid (Some id) = Some ob1) by (apply recv_obj_valid; [exact G1|reflexivity]).
      subst recv. cbn [step]. rewrite F, R1, S, T, N1, Nat.eqb_refl. reflexivity.
    - intros f2 fd2 F2 S2 Ne. destruct (A f2 fd2 F2) as [C1 _]. rewrite C1. unfold has_field. rewrite S2, N1.
      assert (E : Nat.eqb f f2 = false) by (apply Nat.eqb_neq; congruence). rewrite E. reflexivity.
  Qed.

  (* Mutable of a message member: returns the stored message when this member is the one set (and holds a message),
     otherwise stores a fresh one; afterwards this member is the one set, the others are not, and Mutable again
     returns the same message *)
  Theorem mutable_member_is_stable : forall f fd j m md,
    field_of sch mid f = Some fd -> f_shape fd = Member j -> f_ty fd = TMsg m -> get_msg sch mid = Some md ->
    exists h1 q, step sch h (OMutable recv f) = (h1, PMsg m (Some q)) /\
                 (forall q0, step sch h (OHas recv f) = (h, PBool true) -> step sch h (OGet recv f) = (h, PMsg m (Some q0)) ->
                             q = q0 /\ h1 = h) /\
                 step sch h1 (OHas recv f) = (h1, PBool true) /\
                 step sch h1 (OGet recv f) = (h1, PMsg m (Some q)) /\
                 step sch h1 (OWhichOneof recv j) = (h1, PField (Some f)) /\
                 step sch h1 (OMutable recv f) = (h1, PMsg m (Some q)) /\
                 (forall f2 fd2, field_of sch mid f2 = Some fd2 -> f_shape fd2 = Member j -> f2 <> f ->
                    step sch h1 (OHas recv f2) = (h1, PBool false)).
  Proof.
    intros f fd j m md F S T M.
    pose proof (Hinv _ _ Hob) as K.
    assert (L : j < length (o_oneofs ob)) by (eapply ok_oneof_lt; eauto).
    assert (Lm : j < m_oneofs md).
    { unfold obj_ok in K. fold mid in K. rewrite M in K. destruct K as [_ K]. lia. }
    assert (R : recv_obj sch h mid (Some id) = Some ob) by (apply recv_obj_valid; auto).
    destruct (reads_now sch h mid id ob Hob eq_refl) as [A [B _]]. fold recv in A, B.
    destruct (A f fd F) as [A1 A2].
    pose proof (member_fresh_after f fd j m md F S T M) as Fr. cbv zeta in Fr.
    (* when a fresh message is stored *)
    assert (Fresh : step sch h (OMutable recv f) =
                    (hset (h ++ [HObj (new_obj sch m)]) id (HObj (set_oneof ob j (Some (f, EPtr (Some (length h)))))), PMsg m (Some (length h))) ->
                    (forall q0, get_field ob (Some id) f fd <> PMsg m (Some q0) \/ has_field ob f fd = false) ->
                    exists h1 q, step sch h (OMutable recv f) = (h1, PMsg m (Some q)) /\
                 (forall q0, step sch h (OHas recv f) = (h, PBool true) -> step sch h (OGet recv f) = (h, PMsg m (Some q0)) ->
                             q = q0 /\ h1 = h) /\
                 step sch h1 (OHas recv f) = (h1, PBool true) /\
                 step sch h1 (OGet recv f) = (h1, PMsg m (Some q)) /\
                 step sch h1 (OWhichOneof recv j) = (h1, PField (Some f)) /\
                 step sch h1 (OMutable recv f) = (h1, PMsg m (Some q)) /\
                 (forall f2 fd2, field_of sch mid f2 = Some fd2 -> f_shape fd2 = Member j -> f2 <> f ->
                    step sch h1 (OHas recv f2) = (h1, PBool false))).
    { intros St No. eexists. eexists. split; [exact St|]. split; [|exact Fr].
      intros q0 H1 H2. rewrite A1 in H1. rewrite A2 in H2. exfalso. destruct (No q0) as [X|X].
      - apply X. inversion H2; reflexivity.
      - inversion H1. congruence. }
    destruct (nth j (o_oneofs ob) None) as [[f' e]|] eqn:N.
    2:{ apply Fresh.
        - subst recv. cbn [step]. rewrite F, R, S, T, N. reflexivity.
        - intros q0. right. unfold has_field. rewrite S, N. reflexivity. }
    destruct (Nat.eqb f' f) eqn:Ef.
    - apply Nat.eqb_eq in Ef. subst f'. destruct e as [v|[q0|]].
      + apply Fresh.
        * subst recv. cbn [step]. rewrite F, R, S, T, N. reflexivity.
        * intros q0. left. unfold get_field. rewrite S, N, Nat.eqb_refl, T. cbn [elem_to_pval]. discriminate.
      + (* the member is set and holds q0: returned as is *)
        exists h, q0.
        assert (St : step sch h (OMutable recv f) = (h, PMsg m (Some q0))).
        { subst recv. cbn [step]. rewrite F, R, S, T, N, Nat.eqb_refl. reflexivity. }
        split; [exact St|]. split.
        { intros q1 _ H2. rewrite A2 in H2. unfold get_field in H2. rewrite S, N, Nat.eqb_refl, T in H2. cbn [elem_to_pval] in H2.
          inversion H2. auto. }
        rewrite A1, A2, (B j md M Lm). unfold has_field, get_field. rewrite S, N, Nat.eqb_refl, T. cbn [elem_to_pval].
        repeat (split; [reflexivity|]). split; [exact St|].
        intros f2 fd2 F2 S2 Ne. destruct (A f2 fd2 F2) as [C1 _]. rewrite C1. unfold has_field. rewrite S2, N.
        assert (E : Nat.eqb f f2 = false) by (apply Nat.eqb_neq; congruence). rewrite E. reflexivity.
      + apply Fresh.
        * subst recv. cbn [step]. rewrite F, R, S, T, N, Nat.eqb_refl. reflexivity.
        * intros q0. left. unfold get_field. rewrite S, N, Nat.eqb_refl, T. cbn [elem_to_pval]. discriminate.
    - apply Fresh.
      + subst recv. cbn [step]. rewrite F, R, S, T, N, Ef. destruct e; reflexivity.
      + intros q0. right. unfold has_field. rewrite S, N, Ef. reflexivity.
  Qed.
End More.

(* ================= 10. list elements: Set and Truncate through any valid view =============================== *)
Section ListLaws.
  Variable sch : schema.

  Lemma read_write_list h r l l' : read_list h r = Some l -> read_list (write_list h r l') r = Some l'.
  Proof.
    destruct r as [o f|v|]; cbn [read_list write_list]; [| |discriminate].
    - destruct (get_obj h o) as [ob|] eqn:G; [|discriminate].
      destruct (nth_error (o_cells ob) f) as [c|] eqn:C; [|discriminate]. intros _.
      rewrite get_obj_hset_eq by (eapply get_obj_lt; eauto). cbn [set_cell o_cells].
      rewrite nth_error_set_nth_eq by (eapply nth_error_Some_lt; eauto). reflexivity.
    - unfold hget, hset. destruct (nth_error h v) as [x|] eqn:E; [|discriminate]. intros _.
      rewrite nth_error_set_nth_eq by (eapply nth_error_Some_lt; eauto). reflexivity.
  Qed.

  Lemma nth_set_nth_other {A} (l : list A) i j x d : i <> j -> nth j (set_nth l i x) d = nth j l d.
  Proof. apply nth_set_nth_neq. Qed.

  Lemma in_bounds_spec i n : in_bounds i n = true <-> (0 <= i < Z.of_nat n)%Z.
  Proof.
    unfold in_bounds. rewrite Bool.andb_true_iff, Z.leb_le, Z.ltb_lt. tauto.
  Qed.

  (* List.Set(i, x) in range: the length is unchanged, Get(i) returns x, every other element is unchanged;
     out of range: panic, nothing changes *)
  Theorem list_set_get : forall h t r l i x e,
    read_list h r = Some l -> pval_to_elem t x = Some e ->
    (in_bounds i (olen l) = true ->
     exists h', step sch h (OLSet (PList t r) i x) = (h', PUnit) /\
                step sch h' (OLLen (PList t r)) = (h', PScalar (VInt (Z.of_nat (olen l)))) /\
                step sch h' (OLGet (PList t r) i) = (h', x) /\
                (forall i', i' <> i -> snd (step sch h' (OLGet (PList t r) i')) = snd (step sch h (OLGet (PList t r) i')))) /\
    (in_bounds i (olen l) = false -> step sch h (OLSet (PList t r) i x) = (h, PPanic)).
  Proof.
    intros h t r l i x e R P. split; intro B.
    - pose proof (proj1 (in_bounds_spec _ _) B) as Bz.
      assert (Li : Z.to_nat i < length (olist l)).
      { replace (length (olist l)) with (olen l) by (destruct l; reflexivity). lia. }
      eexists. split; [cbn [step]; rewrite R, P, B; reflexivity|].
      pose proof (read_write_list h r l (Some (set_nth (olist l) (Z.to_nat i) e)) R) as R'.
      assert (Len : olen (Some (set_nth (olist l) (Z.to_nat i) e)) = olen l).
      { cbn [olen]. rewrite set_nth_length. destruct l; reflexivity. }
      cbn [step]. rewrite R', Len, B. cbn [olist]. rewrite nth_set_nth_eq by exact Li. rewrite (elem_roundtrip _ _ _ P).
      split; [reflexivity|]. split; [reflexivity|].
      intros i' Ne. rewrite R. destruct (in_bounds i' (olen l)) eqn:B'; [|reflexivity]. cbn [snd].
      pose proof (proj1 (in_bounds_spec _ _) B') as Bz'.
      rewrite nth_set_nth_neq by lia. reflexivity.
    - cbn [step]. rewrite R, P, B. reflexivity.
  Qed.

  (* List.Truncate(n), 0 <= n <= Len: the length becomes n and the first n elements are unchanged *)
  Theorem list_truncate : forall h t r l n,
    read_list h r = Some l -> (0 <= n <= Z.of_nat (olen l))%Z ->
    exists h', step sch h (OLTruncate (PList t r) n) = (h', PUnit) /\
               step sch h' (OLLen (PList t r)) = (h', PScalar (VInt n)) /\
               (forall i, (0 <= i < n)%Z -> snd (step sch h' (OLGet (PList t r) i)) = snd (step sch h (OLGet (PList t r) i))).
  Proof.
    intros h t r l n R B.
    assert (Bb : ((0 <=? n) && (n <=? Z.of_nat (olen l)))%Z = true).
    { apply andb_true_intro. split; [apply Z.leb_le|apply Z.leb_le]; lia. }
    eexists. split; [cbn [step]; rewrite R, Bb; reflexivity|].
    set (l' := match l with None => None | Some x => Some (firstn (Z.to_nat n) x) end).
    pose proof (read_write_list h r l l' R) as R'.
    assert (Len : olen l' = Z.to_nat n).
    { subst l'. destruct l as [x|]; cbn [olen] in *; [rewrite firstn_length; lia|lia]. }
    cbn [step]. rewrite R', Len. rewrite Z2Nat.id by lia. split; [reflexivity|].
    intros i Bi. rewrite R.
    assert (B1 : in_bounds i (Z.to_nat n) = true) by (apply in_bounds_spec; lia).
    assert (B2 : in_bounds i (olen l) = true) by (apply in_bounds_spec; lia).
    rewrite B1, B2. cbn [snd]. f_equal. subst l'. destruct l as [x|]; cbn [olist]; [|reflexivity].
    rewrite <- (firstn_skipn (Z.to_nat n) x) at 2. rewrite app_nth1; [reflexivity|].
    rewrite firstn_length. cbn [olen] in *. lia.
  Qed.
End ListLaws.
