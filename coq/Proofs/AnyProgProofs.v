(* Proofs/AnyProgProofs.v — the canonical programs of Model/AnyProg.v (the transcription of /repo/anyutil/any.go that the
   engine "anyprog" re-derives from the source on every run) compute exactly what the hand-written model Model/AnyUtil.v
   computes: symbolic execution of the three straight-line programs with a case analysis on the oracle answers; and the
   decidable equality the driver compares programs with is sound (what it accepts IS the canonical program). *)
From CP Require Import Bytes AnyUtil AnyUtilProofs GoFun AnyProg.

(* ---- strings.TrimPrefix(s, "/") is the model's trim_prefix_slash ------------------------------------------------------ *)
Lemma ap_trim_slash : forall u, ap_trim_prefix [x2f] u = trim_prefix_slash u.
Proof.
  intros [|c r]; [reflexivity|].
  unfold ap_trim_prefix, trim_prefix_slash, strip_prefix, is_slash, slash.
  destruct c; reflexivity.
Qed.

(* ---- MarshalFrom -------------------------------------------------------------------------------------------------------- *)
Theorem marshal_from_prog_correct : marshal_from_prog_stmt.
Proof.
  unfold marshal_from_prog_stmt; intros.
  destruct src as [m|]; destruct dst as [a0|]; vm_compute; try reflexivity; destruct (marshal o m); reflexivity.
Qed.

(* ---- New ---------------------------------------------------------------------------------------------------------------- *)
Theorem new_prog_correct : new_prog_stmt.
Proof.
  unfold new_prog_stmt; intros.
  destruct src as [m|]; vm_compute; try reflexivity; destruct (marshal default_opts m); reflexivity.
Qed.

(* ---- Unpack ------------------------------------------------------------------------------------------------------------- *)
Ltac ap_step := cbv -[find_message_by_url lookup unmarshal_to trim_prefix_slash ap_trim_prefix]; try rewrite ap_trim_slash.
Ltac ap_oracle :=
  match goal with
  | |- context [match find_message_by_url ?d ?r ?u with _ => _ end] => destruct (find_message_by_url d r u)
  | |- context [match lookup ?d ?r ?u with _ => _ end] => destruct (lookup d r u) as [[?| | |]|]
  | |- context [match unmarshal_to ?m ?d ?n ?un ?a ?dy ?x with _ => _ end] => destruct (unmarshal_to m d n un a dy x) as [[? ?]| | |]
  end.

Theorem unpack_prog_correct : unpack_prog_stmt.
Proof.
  unfold unpack_prog_stmt; intros.
  destruct a as [[u v]|]; [|destruct tr; vm_compute; reflexivity].
  destruct tr as [tr|]; destruct fr as [fr|]; ap_step; repeat ap_oracle; reflexivity.
Qed.

Theorem unpack_before_fix_prog_correct : unpack_before_fix_prog_stmt.
Proof.
  unfold unpack_before_fix_prog_stmt; intros.
  destruct a as [[u v]|]; [|destruct tr; vm_compute; reflexivity].
  destruct tr as [tr|]; destruct fr as [fr|]; ap_step; repeat ap_oracle; reflexivity.
Qed.

(* the returned message alone *)
Corollary unpack_prog_result : forall (msg desc opts : Type) (dname : desc -> str) (descr_of : msg -> desc)
    (marshal : opts -> msg -> outcome (list byte)) (unmarshal : bool -> desc -> list byte -> outcome msg) (default_opts : opts)
    (gt gf : registry desc) (d : nat) (a : option any) (fr tr : option (registry desc)),
  ap_unpack msg desc opts dname descr_of marshal unmarshal default_opts gt gf canon_anyprog (S d) a fr tr
  = Some (unpack msg desc dname unmarshal gt gf a fr tr).
Proof.
  intros. unfold ap_unpack. rewrite unpack_prog_correct. reflexivity.
Qed.

(* a run of the canonical MarshalFrom that does not return nil leaves the destination Any as it was; a run of the
   canonical Unpack never gets stuck, and never touches its argument *)
Corollary marshal_from_prog_fail_untouched : forall (msg desc opts : Type) (dname : desc -> str) (descr_of : msg -> desc)
    (marshal : opts -> msg -> outcome (list byte)) (unmarshal : bool -> desc -> list byte -> outcome msg) (default_opts : opts)
    (gt gf : registry desc) (d : nat) (dst : option any) (src : option msg) (o : opts) (r : outcome unit) (dst' : option any),
  ap_marshal_from msg desc opts dname descr_of marshal unmarshal default_opts gt gf canon_anyprog (S d) dst src o = Some (r, dst') ->
  r <> Ok tt -> dst' = dst.
Proof.
  intros msg desc opts dname descr_of marshal unmarshal default_opts gt gf d dst src o r dst' H Hr.
  rewrite marshal_from_prog_correct in H.
  pose proof (Pack_fail_untouched msg desc opts dname descr_of marshal dst src o) as HU.
  destruct (marshal_from msg desc opts dname descr_of marshal dst src o) as [r0 d0].
  simpl in HU. injection H as H1 H2. subst. apply HU. exact Hr.
Qed.

(* ---- the decidable equality of programs is sound ------------------------------------------------------------------------ *)
Lemma gf_bytes_eqb_eq : forall a b, gf_bytes_eqb a b = true -> a = b.
Proof.
  induction a as [|x a IH]; destruct b as [|y b]; simpl; intro H; try discriminate; [reflexivity|].
  apply andb_prop in H. destruct H as [H1 H2].
  apply Byte.byte_dec_bl in H1. apply IH in H2. congruence.
Qed.

Lemma str_eq_eq : forall a b : gname, str_eq a b = true -> a = b.
Proof.
  intros [a] [b] H. unfold str_eq in H. simpl in H. apply gf_bytes_eqb_eq in H. congruence.
Qed.

Lemma gnames_eqb_eq : forall a b, gnames_eqb a b = true -> a = b.
Proof.
  induction a as [|x a IH]; destruct b as [|y b]; simpl; intro H; try discriminate; [reflexivity|].
  apply andb_prop in H. destruct H as [H1 H2]. apply str_eq_eq in H1. apply IH in H2. congruence.
Qed.

Lemma apfield_eqb_eq : forall a b, apfield_eqb a b = true -> a = b.
Proof. intros [] []; simpl; intro H; try discriminate; reflexivity. Qed.

Lemma apparams_eqb_eq : forall a b, apparams_eqb a b = true -> a = b.
Proof.
  induction a as [|[x t] a IH]; destruct b as [|[y u] b]; simpl; intro H; try discriminate; [reflexivity|].
  apply andb_prop in H. destruct H as [H H3]. apply andb_prop in H. destruct H as [H1 H2].
  apply str_eq_eq in H1. apply str_eq_eq in H2. apply IH in H3. congruence.
Qed.

(* induction over expressions with the nested argument lists *)
Section ApexprInd.
  Variable P : apexpr -> Prop.
  Hypothesis HNil : P AxNil.
  Hypothesis HVar : forall x, P (AxVar x).
  Hypothesis HStr : forall s, P (AxStr s).
  Hypothesis HConcat : forall a b, P a -> P b -> P (AxConcat a b).
  Hypothesis HField : forall e f, P e -> P (AxField e f).
  Hypothesis HEq : forall a b, P a -> P b -> P (AxEq a b).
  Hypothesis HNe : forall a b, P a -> P b -> P (AxNe a b).
  Hypothesis HNot : forall e, P e -> P (AxNot e).
  Hypothesis HNewAny : P AxNewAny.
  Hypothesis HNoOpts : P AxNoOpts.
  Hypothesis HGT : P AxGlobalTypes.
  Hypothesis HGF : P AxGlobalFiles.
  Hypothesis HNF : P AxNotFound.
  Hypothesis HTrim : forall e p, P e -> P (AxTrimPrefix e p).
  Hypothesis HFullNameOf : forall e, P e -> P (AxFullNameOf e).
  Hypothesis HToFullName : forall e, P e -> P (AxToFullName e).
  Hypothesis HNewError : forall m, P (AxNewError m).
  Hypothesis HErrorf : forall f l, Forall P l -> P (AxErrorf f l).
  Hypothesis HMarshal : forall a b, P a -> P b -> P (AxMarshal a b).
  Hypothesis HCall : forall f l, Forall P l -> P (AxCall f l).
  Hypothesis HFindURL : forall a b, P a -> P b -> P (AxFindMessageByURL a b).
  Hypothesis HFindName : forall a b, P a -> P b -> P (AxFindDescriptorByName a b).
  Hypothesis HIsMD : forall e, P e -> P (AxIsMessageDesc e).
  Hypothesis HAssertMD : forall e, P e -> P (AxAssertMessageDesc e).
  Hypothesis HNewMT : forall e, P e -> P (AxNewMessageType e).
  Hypothesis HTypNew : forall e, P e -> P (AxTypNew e).
  Hypothesis HUnmarshalTo : forall a b, P a -> P b -> P (AxUnmarshalTo a b).

  Fixpoint apexpr_ind' (e : apexpr) : P e :=
    let all := fix all (l : list apexpr) : Forall P l :=
        match l with
        | [] => Forall_nil P
        | x :: t => Forall_cons x (apexpr_ind' x) (all t)
        end in
    match e with
    | AxNil => HNil
    | AxVar x => HVar x
    | AxStr s => HStr s
    | AxConcat a b => HConcat a b (apexpr_ind' a) (apexpr_ind' b)
    | AxField e f => HField e f (apexpr_ind' e)
    | AxEq a b => HEq a b (apexpr_ind' a) (apexpr_ind' b)
    | AxNe a b => HNe a b (apexpr_ind' a) (apexpr_ind' b)
    | AxNot e => HNot e (apexpr_ind' e)
    | AxNewAny => HNewAny
    | AxNoOpts => HNoOpts
    | AxGlobalTypes => HGT
    | AxGlobalFiles => HGF
    | AxNotFound => HNF
    | AxTrimPrefix e p => HTrim e p (apexpr_ind' e)
    | AxFullNameOf e => HFullNameOf e (apexpr_ind' e)
    | AxToFullName e => HToFullName e (apexpr_ind' e)
    | AxNewError m => HNewError m
    | AxErrorf f l => HErrorf f l (all l)
    | AxMarshal a b => HMarshal a b (apexpr_ind' a) (apexpr_ind' b)
    | AxCall f l => HCall f l (all l)
    | AxFindMessageByURL a b => HFindURL a b (apexpr_ind' a) (apexpr_ind' b)
    | AxFindDescriptorByName a b => HFindName a b (apexpr_ind' a) (apexpr_ind' b)
    | AxIsMessageDesc e => HIsMD e (apexpr_ind' e)
    | AxAssertMessageDesc e => HAssertMD e (apexpr_ind' e)
    | AxNewMessageType e => HNewMT e (apexpr_ind' e)
    | AxTypNew e => HTypNew e (apexpr_ind' e)
    | AxUnmarshalTo a b => HUnmarshalTo a b (apexpr_ind' a) (apexpr_ind' b)
    end.
End ApexprInd.

(* the comparison of argument lists inside apexpr_eqb is apexprs_eqb *)
Lemma apexpr_leq_eq : forall l l',
  (fix leq (l l' : list apexpr) {struct l} : bool :=
     match l, l' with
     | [], [] => true
     | x :: t, y :: t' => apexpr_eqb x y && leq t t'
     | _, _ => false
     end) l l' = apexprs_eqb l l'.
Proof.
  reflexivity.
Qed.

Lemma apexprs_eqb_eq_of : forall l, Forall (fun a => forall b, apexpr_eqb a b = true -> a = b) l ->
  forall l', apexprs_eqb l l' = true -> l = l'.
Proof.
  induction l as [|x t IH]; intros HF [|y t'] H; simpl in H; try discriminate; [reflexivity|].
  apply andb_prop in H. destruct H as [H1 H2]. inversion HF as [|? ? Hx Ht]; subst.
  apply Hx in H1. apply (IH Ht) in H2. congruence.
Qed.

Ltac ap_split H :=
  repeat match type of H with
         | (_ && _) = true => let H1 := fresh "H" in apply andb_prop in H; destruct H as [H1 H]
         end.

Lemma apexpr_eqb_eq : forall a b, apexpr_eqb a b = true -> a = b.
Proof.
  induction a using apexpr_ind'; intros b' HE; destruct b'; try discriminate HE; try reflexivity;
    cbn [apexpr_eqb] in HE; try rewrite apexpr_leq_eq in HE;
    repeat match goal with
           | H : (_ && _) = true |- _ => apply andb_prop in H; destruct H
           end;
    repeat match goal with
           | H : str_eq _ _ = true |- _ => apply str_eq_eq in H
           | H : apfield_eqb _ _ = true |- _ => apply apfield_eqb_eq in H
           | IH : forall b, apexpr_eqb ?a b = true -> ?a = b, H : apexpr_eqb ?a _ = true |- _ => apply IH in H
           | HF : Forall _ ?l, H : apexprs_eqb ?l _ = true |- _ => apply (apexprs_eqb_eq_of l HF) in H
           end;
    congruence.
Qed.

Lemma apexprs_eqb_eq : forall l l', apexprs_eqb l l' = true -> l = l'.
Proof.
  intros l. apply apexprs_eqb_eq_of. apply Forall_forall. intros a _. apply apexpr_eqb_eq.
Qed.

(* induction over statements with the nested blocks *)
Section ApstmtInd.
  Variable P : apstmt -> Prop.
  Hypothesis HDefine : forall xs e, P (AstDefine xs e).
  Hypothesis HAssign : forall xs e, P (AstAssign xs e).
  Hypothesis HSetField : forall x f e, P (AstSetField x f e).
  Hypothesis HIf : forall i c a b, Forall P i -> Forall P a -> Forall P b -> P (AstIf i c a b).
  Hypothesis HReturn : forall es, P (AstReturn es).

  Fixpoint apstmt_ind' (s : apstmt) : P s :=
    let all := fix all (l : list apstmt) : Forall P l :=
        match l with
        | [] => Forall_nil P
        | x :: t => Forall_cons x (apstmt_ind' x) (all t)
        end in
    match s with
    | AstDefine xs e => HDefine xs e
    | AstAssign xs e => HAssign xs e
    | AstSetField x f e => HSetField x f e
    | AstIf i c a b => HIf i c a b (all i) (all a) (all b)
    | AstReturn es => HReturn es
    end.
End ApstmtInd.

Lemma apstmt_leq_eq : forall l l',
  (fix leq (l l' : list apstmt) {struct l} : bool :=
     match l, l' with
     | [], [] => true
     | x :: t, y :: t' => apstmt_eqb x y && leq t t'
     | _, _ => false
     end) l l' = apstmts_eqb l l'.
Proof.
  reflexivity.
Qed.

Lemma apstmts_eqb_eq_of : forall l, Forall (fun a => forall b, apstmt_eqb a b = true -> a = b) l ->
  forall l', apstmts_eqb l l' = true -> l = l'.
Proof.
  induction l as [|x t IH]; intros HF [|y t'] H; simpl in H; try discriminate; [reflexivity|].
  apply andb_prop in H. destruct H as [H1 H2]. inversion HF as [|? ? Hx Ht]; subst.
  apply Hx in H1. apply (IH Ht) in H2. congruence.
Qed.

Lemma apstmt_eqb_if : forall i c a b i' c' a' b',
  apstmt_eqb (AstIf i c a b) (AstIf i' c' a' b') = apstmts_eqb i i' && apexpr_eqb c c' && apstmts_eqb a a' && apstmts_eqb b b'.
Proof. reflexivity. Qed.

Lemma apstmt_eqb_eq : forall a b, apstmt_eqb a b = true -> a = b.
Proof.
  induction a using apstmt_ind'; intros b' HE; destruct b'; try discriminate HE;
    first [rewrite apstmt_eqb_if in HE | simpl in HE];
    repeat match goal with
           | H : (_ && _) = true |- _ => apply andb_prop in H; destruct H
           end;
    repeat match goal with
           | H : str_eq _ _ = true |- _ => apply str_eq_eq in H
           | H : gnames_eqb _ _ = true |- _ => apply gnames_eqb_eq in H
           | H : apfield_eqb _ _ = true |- _ => apply apfield_eqb_eq in H
           | H : apexpr_eqb _ _ = true |- _ => apply apexpr_eqb_eq in H
           | H : apexprs_eqb _ _ = true |- _ => apply apexprs_eqb_eq in H
           | HF : Forall _ ?l, H : apstmts_eqb ?l _ = true |- _ => apply (apstmts_eqb_eq_of l HF) in H
           end;
    congruence.
Qed.

Lemma apstmts_eqb_eq : forall l l', apstmts_eqb l l' = true -> l = l'.
Proof.
  intros l. apply apstmts_eqb_eq_of. apply Forall_forall. intros a _. apply apstmt_eqb_eq.
Qed.

Theorem apfun_eqb_sound : apfun_eqb_sound_stmt.
Proof.
  intros [n1 p1 r1 b1] [n2 p2 r2 b2] H. unfold apfun_eqb in H. simpl in H.
  apply andb_prop in H. destruct H as [H H4]. apply andb_prop in H. destruct H as [H H3].
  apply andb_prop in H. destruct H as [H1 H2].
  apply str_eq_eq in H1. apply apparams_eqb_eq in H2. apply gnames_eqb_eq in H3. apply apstmts_eqb_eq in H4.
  congruence.
Qed.

(* and complete: a program equals itself *)
Lemma gf_bytes_eqb_refl : forall a, gf_bytes_eqb a a = true.
Proof.
  induction a as [|x a IH]; simpl; [reflexivity|]. rewrite IH, andb_true_r. apply Byte.byte_dec_lb. reflexivity.
Qed.
Lemma str_eq_refl : forall a, str_eq a a = true.
Proof. intros [a]. apply gf_bytes_eqb_refl. Qed.

Print Assumptions marshal_from_prog_correct.
Print Assumptions new_prog_correct.
Print Assumptions unpack_prog_correct.
Print Assumptions unpack_prog_result.
Print Assumptions unpack_before_fix_prog_correct.
Print Assumptions marshal_from_prog_fail_untouched.
Print Assumptions apfun_eqb_sound.
