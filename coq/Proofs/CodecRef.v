(* Proofs/CodecRef.v — the deterministic encoding produced by the generated code equals the
   reference encoder (records in LegacyFieldOrder, map entries sorted by key) (C02). *)
From CP Require Import Extra BytesLemmas RuntimeProofs ValInd KeyBytes.
From Coq Require Import Lia ZifyN ZifyNat ZifyBool Permutation.
Local Open Scope N_scope.

(* ------------------------------------------------------------------ generic sorting facts *)
Section SortFacts.
  Context {A : Type}.

  Lemma insert_sorted_Forall (Q : A -> Prop) (ltb : A -> A -> bool) x l :
    Q x -> Forall Q l -> Forall Q (insert_sorted ltb x l).
  Proof.
    intros Hx Hl. induction Hl as [|y t Hy Ht IH]; cbn [insert_sorted].
    - constructor; [exact Hx | constructor].
    - destruct (ltb y x).
      + constructor; [exact Hy | exact IH].
      + constructor; [exact Hx | constructor; [exact Hy | exact Ht]].
  Qed.

  Lemma isort_Forall (Q : A -> Prop) (ltb : A -> A -> bool) l : Forall Q l -> Forall Q (isort ltb l).
  Proof.
    intro Hl. induction Hl as [|y t Hy Ht IH]; cbn [isort fold_right].
    - constructor.
    - apply insert_sorted_Forall; [exact Hy | exact IH].
  Qed.

  (* two comparators agreeing on the elements *)
  Lemma insert_sorted_ext_in (l1 l2 : A -> A -> bool) x l :
    Forall (fun y => l1 y x = l2 y x) l -> insert_sorted l1 x l = insert_sorted l2 x l.
  Proof.
    intro H. induction H as [|y t Hy Ht IH]; cbn [insert_sorted]; [reflexivity|].
    rewrite Hy, IH. reflexivity.
  Qed.

  Lemma isort_ext_in (Q : A -> Prop) (l1 l2 : A -> A -> bool) l :
    (forall a b, Q a -> Q b -> l1 a b = l2 a b) -> Forall Q l -> isort l1 l = isort l2 l.
  Proof.
    intros Hag Hl. induction Hl as [|y t Hy Ht IH]; cbn [isort fold_right]; [reflexivity|].
    change (fold_right (insert_sorted l1) [] t) with (isort l1 t).
    change (fold_right (insert_sorted l2) [] t) with (isort l2 t).
    rewrite IH. apply insert_sorted_ext_in.
    assert (HQ : Forall Q (isort l2 t)) by (apply isort_Forall; exact Ht).
    revert HQ. apply Forall_impl. intros a Ha. apply Hag; assumption.
  Qed.

  Lemma insert_sorted_pass (ltb : A -> A -> bool) p X Y :
    Forall (fun x => ltb x p = true) X -> insert_sorted ltb p (X ++ Y) = X ++ insert_sorted ltb p Y.
  Proof.
    intro H. induction H as [|x t Hx Ht IH]; [reflexivity|].
    cbn [app insert_sorted]. rewrite Hx, IH. reflexivity.
  Qed.

  Lemma insert_sorted_head (ltb : A -> A -> bool) p Z :
    Forall (fun z => ltb z p = false) Z -> insert_sorted ltb p Z = p :: Z.
  Proof.
    intro H. destruct H as [|z t Hz Ht]; [reflexivity|].
    cbn [insert_sorted]. rewrite Hz. reflexivity.
  Qed.
End SortFacts.

(* sorting commutes with a map that preserves the comparison *)
Lemma insert_sorted_map {A B} (g : A -> B) (la : A -> A -> bool) (lb : B -> B -> bool) x l :
  (forall a b, lb (g a) (g b) = la a b) ->
  insert_sorted lb (g x) (map g l) = map g (insert_sorted la x l).
Proof.
  intro H. induction l as [|y t IH]; [reflexivity|].
  cbn [map insert_sorted]. rewrite H. destruct (la y x).
  - cbn [map]. rewrite IH. reflexivity.
  - reflexivity.
Qed.

Lemma isort_map {A B} (g : A -> B) (la : A -> A -> bool) (lb : B -> B -> bool) l :
  (forall a b, lb (g a) (g b) = la a b) ->
  isort lb (map g l) = map g (isort la l).
Proof.
  intro H. induction l as [|y t IH]; [reflexivity|].
  cbn [map isort fold_right].
  change (fold_right (insert_sorted lb) [] (map g t)) with (isort lb (map g t)).
  change (fold_right (insert_sorted la) [] t) with (isort la t).
  rewrite IH. apply insert_sorted_map. exact H.
Qed.

(* ------------------------------------------------------------------ LegacyFieldOrder vs assemble *)
Lemma legacy_pp a b : is_member a = false -> is_member b = false ->
  legacy_ltb a b = (f_num a <? f_num b).
Proof.
  unfold legacy_ltb, legacy_key, is_member.
  destruct (f_shape a); destruct (f_shape b); try discriminate; reflexivity.
Qed.

Lemma legacy_pm a b : is_member a = false -> is_member b = true -> legacy_ltb a b = true.
Proof.
  unfold legacy_ltb, legacy_key, is_member.
  destruct (f_shape a); destruct (f_shape b); try discriminate; reflexivity.
Qed.

Lemma legacy_mp a b : is_member a = true -> is_member b = false -> legacy_ltb a b = false.
Proof.
  unfold legacy_ltb, legacy_key, is_member.
  destruct (f_shape a); destruct (f_shape b); try discriminate; reflexivity.
Qed.

Lemma legacy_mm a b i j : f_shape a = Member i -> f_shape b = Member j ->
  legacy_ltb a b = (i <? j)%nat.
Proof.
  intros Ha Hb. unfold legacy_ltb, legacy_key. rewrite Ha, Hb.
  change (N.of_nat i <? N.of_nat j = (i <? j)%nat).
  destruct (N.ltb_spec (N.of_nat i) (N.of_nat j)); destruct (Nat.ltb_spec i j); try reflexivity; lia.
Qed.

Lemma shape_is_member f i : f_shape f = Member i -> is_member f = true.
Proof. unfold is_member. intros ->. reflexivity. Qed.

Section Legacy.
  Context {B : Type}.
  Definition leg (a b : field * B) : bool := legacy_ltb (fst a) (fst b).
  Definition numlt (a b : field * B) : bool := f_num (fst a) <? f_num (fst b).
  Definition plainb (p : field * B) : bool := negb (is_member (fst p)).
  Definition memb (i : nat) (p : field * B) : bool := member_of i (fst p).
  Definition asm_list (n : nat) (per : list (field * B)) : list (field * B) :=
    isort numlt (filter plainb per) ++ flat_map (fun i => filter (memb i) per) (seq 0 n).

  Lemma memb_shape i x : memb i x = true -> f_shape (fst x) = Member i.
  Proof.
    unfold memb, member_of. destruct (f_shape (fst x)); try discriminate.
    intro H. apply Nat.eqb_eq in H. subst. reflexivity.
  Qed.

  Lemma memb_plain i x : is_member (fst x) = false -> memb i x = false.
  Proof. unfold memb, member_of, is_member. destruct (f_shape (fst x)); try discriminate; reflexivity. Qed.

  Lemma memb_member i j x : f_shape (fst x) = Member j -> memb i x = Nat.eqb i j.
  Proof. unfold memb, member_of. intros ->. reflexivity. Qed.

  Lemma flat_map_nil {X Y} (l : list X) : flat_map (fun _ => @nil Y) l = [].
  Proof. induction l as [|x t IH]; [reflexivity | exact IH]. Qed.

  Lemma flat_map_ext_in {X Y} (f g : X -> list Y) l :
    (forall a, In a l -> f a = g a) -> flat_map f l = flat_map g l.
  Proof. intro H. rewrite !flat_map_concat_map. f_equal. apply map_ext_in. exact H. Qed.

  Lemma insert_plain p A Bs :
    is_member (fst p) = false ->
    Forall (fun a => is_member (fst a) = false) A ->
    Forall (fun b => is_member (fst b) = true) Bs ->
    insert_sorted leg p (A ++ Bs) = insert_sorted numlt p A ++ Bs.
  Proof.
    intros Hp HA HB. induction HA as [|y t Hy Ht IH].
    - cbn [app insert_sorted]. apply insert_sorted_head.
      revert HB. apply Forall_impl. intros b Hb. unfold leg. apply legacy_mp; assumption.
    - cbn [app insert_sorted]. unfold leg at 1. rewrite legacy_pp by assumption.
      unfold numlt at 1. destruct (f_num (fst y) <? f_num (fst p)).
      + cbn [app]. rewrite IH. reflexivity.
      + reflexivity.
  Qed.

  Lemma insert_member p j per : f_shape (fst p) = Member j ->
    forall k a, (a <= j < a + k)%nat ->
    insert_sorted leg p (flat_map (fun i => filter (memb i) per) (seq a k)) =
    flat_map (fun i => filter (memb i) (p :: per)) (seq a k).
  Proof.
    intro Hp. induction k as [|k IH]; intros a Ha; [lia|].
    cbn [seq flat_map filter]. rewrite (memb_member a j p Hp).
    destruct (Nat.eqb_spec a j) as [E|E].
    - subst a.
      rewrite (flat_map_ext_in (fun i => filter (memb i) (p :: per)) (fun i => filter (memb i) per)).
      + apply insert_sorted_head. apply Forall_app. split.
        * apply Forall_forall. intros x Hx. apply filter_In in Hx. destruct Hx as [_ Hx].
          apply memb_shape in Hx. unfold leg. rewrite (legacy_mm _ _ j j Hx Hp).
          apply Nat.ltb_irrefl.
        * apply Forall_forall. intros x Hx. apply in_flat_map in Hx.
          destruct Hx as [i [Hi Hx]]. apply in_seq in Hi.
          apply filter_In in Hx. destruct Hx as [_ Hx].
          apply memb_shape in Hx. unfold leg. rewrite (legacy_mm _ _ i j Hx Hp).
          apply Nat.ltb_ge. lia.
      + intros i Hi. apply in_seq in Hi. cbn [filter]. rewrite (memb_member i j p Hp).
        destruct (Nat.eqb_spec i j); [lia | reflexivity].
    - rewrite insert_sorted_pass.
      + rewrite IH by lia. reflexivity.
      + apply Forall_forall. intros x Hx. apply filter_In in Hx. destruct Hx as [_ Hx].
        apply memb_shape in Hx. unfold leg. rewrite (legacy_mm _ _ a j Hx Hp).
        apply Nat.ltb_lt. lia.
  Qed.

  Lemma isort_leg_asm n per :
    Forall (fun p => forall j, f_shape (fst p) = Member j -> (j < n)%nat) per ->
    isort leg per = asm_list n per.
  Proof.
    intro H. induction H as [|p per Hp Hper IH].
    - unfold asm_list. cbn [filter isort fold_right app]. rewrite flat_map_nil. reflexivity.
    - cbn [isort fold_right]. change (fold_right (insert_sorted leg) [] per) with (isort leg per).
      rewrite IH. unfold asm_list. cbn [filter].
      assert (HA : Forall (fun a : field * B => is_member (fst a) = false) (isort numlt (filter plainb per))).
      { apply isort_Forall. apply Forall_forall. intros x Hx. apply filter_In in Hx.
        destruct Hx as [_ Hx]. unfold plainb in Hx. apply negb_true_iff in Hx. exact Hx. }
      assert (HB : Forall (fun b : field * B => is_member (fst b) = true)
                          (flat_map (fun i => filter (memb i) per) (seq 0 n))).
      { apply Forall_forall. intros x Hx. apply in_flat_map in Hx. destruct Hx as [i [_ Hx]].
        apply filter_In in Hx. destruct Hx as [_ Hx]. apply memb_shape in Hx.
        eapply shape_is_member. exact Hx. }
      destruct (plainb p) eqn:Epl.
      + unfold plainb in Epl. apply negb_true_iff in Epl.
        cbn [isort fold_right].
        change (fold_right (insert_sorted numlt) [] (filter plainb per)) with (isort numlt (filter plainb per)).
        rewrite (flat_map_ext (fun i => if memb i p then p :: filter (memb i) per else filter (memb i) per)
                              (fun i => filter (memb i) per)).
        * apply insert_plain; assumption.
        * intro i. rewrite (memb_plain i p Epl). reflexivity.
      + unfold plainb in Epl. apply negb_false_iff in Epl.
        unfold is_member in Epl. destruct (f_shape (fst p)) as [| |j|] eqn:Esh; try discriminate.
        rewrite insert_sorted_pass.
        * f_equal. change (fun i : nat => if memb i p then p :: filter (memb i) per else filter (memb i) per)
            with (fun i : nat => filter (memb i) (p :: per)).
          apply (insert_member p j per Esh). specialize (Hp j eq_refl). lia.
        * revert HA. apply Forall_impl. intros a Ha. unfold leg. apply legacy_pm; [exact Ha|].
          eapply shape_is_member. exact Esh.
  Qed.
End Legacy.

Lemma concat_map_flat_map {X} (F : X -> list (field * list byte)) (l : list X) :
  concat (map (fun i => concat (map snd (F i))) l) = concat (map snd (flat_map F l)).
Proof.
  induction l as [|x t IH]; [reflexivity|].
  cbn [map concat flat_map]. rewrite map_app, concat_app, IH. reflexivity.
Qed.

Lemma assemble_asm md per : assemble md per = concat (map snd (asm_list (m_oneofs md) per)).
Proof.
  unfold assemble, asm_list. rewrite map_app, concat_app. f_equal.
  apply (concat_map_flat_map (fun i => filter (memb i) per)).
Qed.

Lemma assemble_legacy md per :
  Forall (fun p => forall j, f_shape (fst p) = Member j -> (j < m_oneofs md)%nat) per ->
  assemble md per = concat (map snd (isort leg per)).
Proof. intro H. rewrite assemble_asm, (isort_leg_asm (m_oneofs md)) by exact H. reflexivity. Qed.

(* ------------------------------------------------------------------ scalars and elements *)
Lemma kind_wt_lt8 k : kind_wt k < 8.
Proof. destruct k; reflexivity. Qed.

Lemma ftype_wt_lt8 t : ftype_wt t < 8.
Proof. destruct t as [k|m]; [apply kind_wt_lt8 | reflexivity]. Qed.

Definition numok (num : N) : Prop := 1 <= num /\ num < 536870912.

Lemma numok_1 : numok 1. Proof. unfold numok. lia. Qed.
Lemma numok_2 : numok 2. Proof. unfold numok. lia. Qed.

Lemma num_ok29_numok n : num_ok29 n = true -> numok n.
Proof. unfold num_ok29, numok. intro H. apply andb_true_iff in H. lia. Qed.

Lemma key_tag num wt : numok num -> wt < 8 -> key_bytes num wt = tag num wt.
Proof. intros [H1 H2] Hw. apply key_bytes_tag; assumption. Qed.

Lemma scalar_payload_rec num k v : scalar_payload k v = rec_payload (ref_scalar_rec num k v).
Proof. destruct k; cbn [scalar_payload ref_scalar_rec rec_payload]; try reflexivity.
  destruct (as_bool v); reflexivity. Qed.

Lemma scalar_key_rec num k v : numok num ->
  key_bytes num (kind_wt k) ++ scalar_payload k v = enc_wrec (ref_scalar_rec num k v).
Proof.
  intro Hn. rewrite (key_tag num (kind_wt k) Hn (kind_wt_lt8 k)).
  destruct k; cbn [scalar_payload ref_scalar_rec enc_wrec kind_wt]; try reflexivity.
  destruct (as_bool v); reflexivity.
Qed.

Section Agree.
  Variable sch : schema.
  Let em := emit sch true.
  Let rf := ref_marshal sch.

  Definition E (v : val) : Prop := forall mid, wt_msg sch mid v = true -> em mid v = rf mid v.

  Lemma E_use v m : E v -> wt_elem (wt_msg sch) (TMsg m) v = true -> em m v = rf m v.
  Proof.
    intros HE Hwt. destruct v; try reflexivity. apply HE. exact Hwt.
  Qed.

  Lemma elem_payload num t v : E v -> wt_elem (wt_msg sch) t v = true ->
    emit_elem em t v = rec_payload (ref_elem_rec rf num t v).
  Proof.
    intros HE Hwt. destruct t as [k|m]; cbn [emit_elem ref_elem_rec].
    - apply scalar_payload_rec.
    - rewrite (E_use v m HE Hwt). reflexivity.
  Qed.

  Lemma elem_key num t v : numok num -> E v -> wt_elem (wt_msg sch) t v = true ->
    key_bytes num (ftype_wt t) ++ emit_elem em t v = enc_wrec (ref_elem_rec rf num t v).
  Proof.
    intros Hn HE Hwt. destruct t as [k|m]; cbn [emit_elem ref_elem_rec ftype_wt].
    - apply scalar_key_rec. exact Hn.
    - rewrite (E_use v m HE Hwt). rewrite (key_tag num WT_BYTES Hn) by reflexivity. reflexivity.
  Qed.

  Lemma key_ltb_gen kk a b : legal_key kk = true -> wt_scalar kk a = true -> wt_scalar kk b = true ->
    key_ltb kk a b = gen_key_ltb a b.
  Proof.
    intros Hk Ha Hb.
    destruct kk; cbn [legal_key] in Hk; try discriminate Hk;
      destruct a; cbn [wt_scalar] in Ha; try discriminate Ha;
      destruct b; cbn [wt_scalar] in Hb; try discriminate Hb; reflexivity.
  Qed.

  Lemma map_ext_EW {Y} (g h : val -> Y) t L :
    Forall E L -> forallb (wt_elem (wt_msg sch) t) L = true ->
    (forall x, E x -> wt_elem (wt_msg sch) t x = true -> g x = h x) -> map g L = map h L.
  Proof.
    intros HE Hwt Hgh. induction HE as [|x L Hx HL IH]; [reflexivity|].
    cbn [forallb] in Hwt. apply andb_true_iff in Hwt. destruct Hwt as [Hw1 Hw2].
    cbn [map]. rewrite (Hgh x Hx Hw1), (IH Hw2). reflexivity.
  Qed.

  Lemma entry_agree num kk t kv : numok num -> E (snd kv) -> wt_elem (wt_msg sch) t (snd kv) = true ->
    emit_entry em num kk t kv =
    enc_wrec (WBytes num (enc_wrec (ref_scalar_rec 1 kk (fst kv)) ++ enc_wrec (ref_elem_rec rf 2 t (snd kv)))).
  Proof.
    intros Hn HE Hwt. unfold emit_entry.
    rewrite <- (scalar_key_rec 1 kk (fst kv) numok_1).
    rewrite <- (elem_key 2 t (snd kv) numok_2 HE Hwt).
    cbn [enc_wrec]. rewrite (key_tag num WT_BYTES Hn) by reflexivity.
    unfold lenpfx. rewrite <- !app_assoc. reflexivity.
  Qed.

  Definition sub_E (s : val) : Prop :=
    match s with
    | VList l => Forall E l
    | VSome p => E p
    | VMap kvs => Forall (fun kv => E (snd kv)) kvs
    | _ => E s
    end.

  Lemma field_agree nm no f s :
    field_wf nm no f = true -> wt_slot (wt_msg sch) f s = true -> sub_E s ->
    emit_field true em f s = flat_map enc_wrec (ref_field_recs rf f s).
  Proof.
    intros Hwf Hwt HE. unfold field_wf in Hwf.
    apply andb_true_iff in Hwf. destruct Hwf as [Hwf Hsh].
    apply andb_true_iff in Hwf. destruct Hwf as [Hn _].
    apply num_ok29_numok in Hn.
    destruct f as [num t sh]. cbn [f_num f_ty f_shape] in *.
    unfold emit_field, ref_field_recs, wt_slot in *. cbn [f_num f_ty f_shape] in *.
    destruct sh as [|packed|j|kk].
    - (* Singular *)
      destruct t as [k|m].
      + destruct (present k s); [|reflexivity].
        cbn [flat_map]. rewrite app_nil_r. apply scalar_key_rec. exact Hn.
      + assert (Heq : em m s = rf m s).
        { destruct s; try reflexivity. apply HE. exact Hwt. }
        destruct s; try reflexivity; rewrite Heq; cbn [flat_map enc_wrec];
          rewrite (key_tag num WT_BYTES Hn) by reflexivity; rewrite app_nil_r; reflexivity.
    - (* Rep *)
      destruct s; try reflexivity. destruct l as [|e l]; [reflexivity|].
      cbn [sub_E] in HE. destruct packed.
      + cbn [flat_map enc_wrec]. rewrite (key_tag num WT_BYTES Hn) by reflexivity.
        rewrite app_nil_r. unfold lenpfx.
        rewrite (map_ext_EW (emit_elem em t) (fun x => rec_payload (ref_elem_rec rf num t x)) t (e :: l) HE Hwt).
        * reflexivity.
        * intros x Hx Hw. apply elem_payload; assumption.
      + rewrite flat_map_concat_map, map_map. f_equal.
        apply (map_ext_EW _ _ t (e :: l) HE Hwt).
        intros x Hx Hw. apply elem_key; assumption.
    - (* Member *)
      destruct s; try reflexivity. cbn [sub_E] in HE.
      cbn [flat_map]. rewrite app_nil_r. apply elem_key; assumption.
    - (* MapOf *)
      destruct s; try reflexivity. cbn [sub_E] in HE.
      apply andb_true_iff in Hwt. destruct Hwt as [Hwt _].
      set (Q := fun kv : val * val => wt_scalar kk (fst kv) = true /\
                  wt_elem (wt_msg sch) t (snd kv) = true /\ E (snd kv)).
      assert (HQ : Forall Q kvs).
      { clear Hsh. induction HE as [|kv kvs Hkv Hkvs IH]; [constructor|].
        cbn [forallb] in Hwt. apply andb_true_iff in Hwt. destruct Hwt as [Hw1 Hw2].
        apply andb_true_iff in Hw1. destruct Hw1 as [Hw1 Hw1'].
        constructor; [|exact (IH Hw2)]. unfold Q. auto. }
      set (ltK0 := fun a b : val * val => key_ltb kk (fst a) (fst b)).
      set (ltG0 := fun a b : val * val => gen_key_ltb (fst a) (fst b)).
      rewrite (isort_map (fun kv : val * val => (fst kv, emit_entry em num kk t kv)) ltK0
                 (fun a b : val * list byte => key_ltb kk (fst a) (fst b)) kvs) by reflexivity.
      rewrite (isort_map (fun kv : val * val => (fst kv, WBytes num (enc_wrec (ref_scalar_rec 1 kk (fst kv)) ++
                                                            enc_wrec (ref_elem_rec rf 2 t (snd kv))))) ltG0
                 (fun a b : val * wrec => gen_key_ltb (fst a) (fst b)) kvs) by reflexivity.
      rewrite (isort_ext_in Q ltK0 ltG0 kvs).
      + assert (HQs : Forall Q (isort ltG0 kvs)) by (apply isort_Forall; exact HQ).
        rewrite flat_map_concat_map, !map_map. f_equal.
        apply map_ext_Forall. revert HQs. apply Forall_impl.
        intros kv [_ [Hw Hx]]. cbn [snd]. apply entry_agree; assumption.
      + intros a b [Ha _] [Hb _]. unfold ltK0, ltG0. apply key_ltb_gen; assumption.
      + exact HQ.
  Qed.

  (* ---------------------------------------------------------------- messages *)
  Fixpoint zipf {Y} (g : field -> val -> Y) (fs : list field) (ss : list val) : list Y :=
    match ss, fs with s :: ss', f :: fs' => g f s :: zipf g fs' ss' | _, _ => [] end.

  Fixpoint wt_slots (fs : list field) (ss : list val) : bool :=
    match ss, fs with
    | s :: ss', f :: fs' => wt_slot (wt_msg sch) f s && wt_slots fs' ss'
    | [], [] => true
    | _, _ => false
    end.

  Lemma emit_unfold mid slots unk :
    em mid (VMsg slots unk) =
    match get_msg sch mid with
    | None => []
    | Some md => assemble md (zipf (fun f s => (f, emit_field true em f s)) (m_fields md) slots) ++ unk
    end.
  Proof.
    unfold em. cbn [emit]. destruct (get_msg sch mid) as [md|]; [|reflexivity].
    f_equal. f_equal. generalize (m_fields md) as fs.
    induction slots as [|s ss IH]; intro fs; destruct fs as [|f fs]; cbn [zipf]; try reflexivity.
    rewrite IH. reflexivity.
  Qed.

  Lemma ref_unfold mid slots unk :
    rf mid (VMsg slots unk) =
    match get_msg sch mid with
    | None => []
    | Some md =>
      flat_map (fun p => flat_map enc_wrec (snd p))
               (isort leg (zipf (fun f s => (f, ref_field_recs rf f s)) (m_fields md) slots)) ++ unk
    end.
  Proof.
    unfold rf. cbn [ref_marshal]. destruct (get_msg sch mid) as [md|]; [|reflexivity].
    f_equal. f_equal. unfold leg. f_equal. generalize (m_fields md) as fs.
    induction slots as [|s ss IH]; intro fs; destruct fs as [|f fs]; cbn [zipf]; try reflexivity.
    rewrite IH. reflexivity.
  Qed.

  Lemma wt_unfold mid slots unk :
    wt_msg sch mid (VMsg slots unk) =
    match get_msg sch mid with
    | None => false
    | Some md => wt_slots (m_fields md) slots &&
                 forallb (fun oi => (oneof_count (m_fields md) slots oi <=? 1)%nat) (seq 0 (m_oneofs md))
    end.
  Proof.
    cbn [wt_msg]. destruct (get_msg sch mid) as [md|]; [|reflexivity].
    f_equal. generalize (m_fields md) as fs.
    induction slots as [|s ss IH]; intro fs; destruct fs as [|f fs]; cbn [wt_slots]; try reflexivity.
    rewrite IH. reflexivity.
  Qed.

  Lemma zipf_Forall_fst {Y} (Qf : field -> Prop) (g : field -> val -> Y) fs ss :
    Forall Qf fs -> Forall (fun p => Qf (fst p)) (zipf (fun f s => (f, g f s)) fs ss).
  Proof.
    intro H. revert ss. induction H as [|f fs Hf Hfs IH]; intro ss; destruct ss as [|s ss]; cbn [zipf];
      try constructor; [exact Hf | apply IH].
  Qed.

  Definition henc (p : field * list wrec) : field * list byte := (fst p, flat_map enc_wrec (snd p)).

  Lemma per_agree nm no fs : Forall (fun f => field_wf nm no f = true) fs ->
    forall ss, Forall sub_E ss -> wt_slots fs ss = true ->
    zipf (fun f s => (f, emit_field true em f s)) fs ss =
    map henc (zipf (fun f s => (f, ref_field_recs rf f s)) fs ss).
  Proof.
    intro Hfs. induction Hfs as [|f fs Hf Hfs IH]; intros ss HE Hwt;
      destruct ss as [|s ss]; cbn [zipf map]; try reflexivity.
    cbn [wt_slots] in Hwt. apply andb_true_iff in Hwt. destruct Hwt as [Hw1 Hw2].
    inversion HE as [|s' ss' Hs Hss]; subst.
    rewrite (IH ss Hss Hw2). unfold henc at 2. cbn [fst snd].
    rewrite (field_agree nm no f s Hf Hw1 Hs). reflexivity.
  Qed.

  Lemma field_wf_member nm no f j : field_wf nm no f = true -> f_shape f = Member j -> (j < no)%nat.
  Proof.
    unfold field_wf. intros H Hsh. rewrite Hsh in H.
    apply andb_true_iff in H. destruct H as [_ H]. apply Nat.ltb_lt. exact H.
  Qed.

  Hypothesis Hwf : wf sch = true.

  Lemma get_msg_wf mid md : get_msg sch mid = Some md -> msg_wf (length sch) md = true.
  Proof.
    intro Hg. unfold wf in Hwf. rewrite forallb_forall in Hwf. apply Hwf.
    unfold get_msg in Hg. eapply nth_error_In. exact Hg.
  Qed.

  Lemma msg_agree slots unk : Forall sub_E slots -> E (VMsg slots unk).
  Proof.
    intros HE mid Hwt. rewrite emit_unfold, ref_unfold. rewrite wt_unfold in Hwt.
    destruct (get_msg sch mid) as [md|] eqn:Eg; [|reflexivity].
    apply andb_true_iff in Hwt. destruct Hwt as [Hwt _].
    pose proof (get_msg_wf mid md Eg) as Hmd. unfold msg_wf in Hmd.
    apply andb_true_iff in Hmd. destruct Hmd as [Hmd _].
    assert (Hfs : Forall (fun f => field_wf (length sch) (m_oneofs md) f = true) (m_fields md)).
    { apply Forall_forall. rewrite forallb_forall in Hmd. exact Hmd. }
    f_equal.
    rewrite (per_agree (length sch) (m_oneofs md) (m_fields md) Hfs slots HE Hwt).
    rewrite assemble_legacy.
    - rewrite (isort_map henc leg leg) by reflexivity.
      rewrite flat_map_concat_map, map_map. reflexivity.
    - apply Forall_map.
      apply (zipf_Forall_fst (fun f => forall j, f_shape f = Member j -> (j < m_oneofs md)%nat)).
      revert Hfs. apply Forall_impl. intros f Hf j Hj.
      eapply field_wf_member; eassumption.
  Qed.

  Lemma det_eq_ref_P : forall v, E v /\ sub_E v.
  Proof.
    induction v using val_ind'; cbn [sub_E].
    - split; intros mid H; discriminate H.
    - split; intros mid H; discriminate H.
    - split; intros mid H; discriminate H.
    - split; intros mid H; discriminate H.
    - split; intros mid H; discriminate H.
    - split; [intros mid H; discriminate H | apply IHv].
    - assert (HE : E (VMsg slots unk)).
      { apply msg_agree. revert H. apply Forall_impl. intros a [_ Ha]. exact Ha. }
      split; exact HE.
    - split; [intros mid H'; discriminate H' |].
      revert H. apply Forall_impl. intros a [Ha _]. exact Ha.
    - split; [intros mid H'; discriminate H' |].
      revert H. apply Forall_impl. intros a [_ [Ha _]]. exact Ha.
  Qed.
End Agree.

Lemma det_eq_ref sch : wf sch = true -> forall v mid, wt_msg sch mid v = true -> emit sch true mid v = ref_marshal sch mid v.
Proof.
  intros Hwf v mid Hwt. exact (proj1 (det_eq_ref_P sch Hwf v) mid Hwt).
Qed.

