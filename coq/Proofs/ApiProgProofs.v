(* Proofs/ApiProgProofs.v — the plain Go API the generator prints for a message type (Model/ApiProg.v: canon_prog — struct
   declaration, getters, Reset) agrees with reflection (Model/Reflect.v): a getter returns what Get returns (up to api_rel), on
   every receiver, nil included; the oneof getter is WhichOneof; Reset leaves the freshly allocated object; and the struct
   declaration has one Go field per field / oneof, in declaration order, tagged with the field's number / the oneof's name
   (what the reflect-based name -> index maps of the runner and of the other translators rely on). Task T14. *)
From Coq Require Import List Arith NArith ZArith Bool Lia ZifyN ZifyNat ZifyBool.
From CP Require Import Reflect ReflectProg ReflectLaws ReflectProgProofs ApiProg.
Import ListNotations.
Local Open Scope nat_scope.

(* ------------------------------------------------------------------ small facts *)
Lemma name_eqb_refl (a : GenNames.name) : GenNames.name_eqb a a = true.
Proof. induction a as [|x a IH]; cbn; [reflexivity|]. rewrite IH, andb_true_r. destruct x; reflexivity. Qed.

Lemma name_eqb_eq (a b : GenNames.name) : GenNames.name_eqb a b = true -> a = b.
Proof.
  revert b; induction a as [|x a IH]; intros [|y b] H; cbn in H; try discriminate; [reflexivity|].
  apply andb_prop in H. destruct H as [H1 H2]. f_equal; [|apply IH; exact H2].
  apply Byte.byte_dec_bl in H1. exact H1.
Qed.

Lemma nth_error_indexed {A} (l : list A) : forall i k, nth_error (rp_indexed i l) k = option_map (fun x => (i + k, x)) (nth_error l k).
Proof.
  induction l as [|a l IH]; intros i [|k]; cbn [rp_indexed nth_error option_map]; try reflexivity.
  - rewrite Nat.add_0_r. reflexivity.
  - rewrite IH. destruct (nth_error l k); cbn [option_map]; [|reflexivity]. do 2 f_equal. lia.
Qed.

Lemma nth_error_combine {A B} (d : B) : forall (l : list A) (r : list B) k x, length r = length l -> nth_error l k = Some x ->
  nth_error (combine l r) k = Some (x, nth k r d).
Proof.
  induction l as [|a l IH]; intros [|b r] [|k] x L H; cbn in *; try discriminate; try lia.
  - inversion H; reflexivity.
  - apply IH; [lia|exact H].
Qed.

Lemma nth_error_map_seq {A} (g : nat -> A) n : forall s k, k < n -> nth_error (map g (seq s n)) k = Some (g (s + k)).
Proof.
  induction n as [|n IH]; intros s k H; [lia|]. destruct k as [|k]; cbn [seq map nth_error].
  - rewrite Nat.add_0_r. reflexivity.
  - rewrite IH by lia. f_equal. f_equal. lia.
Qed.

Lemma shapeb_parts sch mid nm : api_names_shapeb sch mid nm = true ->
  length (mn_fields nm) = length (rp_fields sch mid) /\ length (mn_oneofs nm) = rp_noneofs sch mid /\
  forall fd n, In (fd, n) (combine (rp_fields sch mid) (mn_fields nm)) -> api_first_zero fd n = true.
Proof.
  unfold api_names_shapeb. intro H. apply andb_prop in H. destruct H as [H H3]. apply andb_prop in H. destruct H as [H1 H2].
  apply Nat.eqb_eq in H1. apply Nat.eqb_eq in H2. repeat split; try assumption.
  intros fd n I. rewrite forallb_forall in H3. exact (H3 (fd, n) I).
Qed.

Lemma wf_field sch mid md f fd : wf sch = true -> get_msg sch mid = Some md -> nth_error (m_fields md) f = Some fd ->
  field_wf (length sch) (m_oneofs md) fd = true.
Proof.
  intros W G F. unfold wf in W. rewrite forallb_forall in W. unfold get_msg in G. specialize (W md (nth_error_In _ _ G)).
  unfold msg_wf in W. apply andb_prop in W. destruct W as [W _]. rewrite forallb_forall in W. exact (W fd (nth_error_In _ _ F)).
Qed.

(* the getter the generator prints for field f *)
Lemma canon_getter_nth sch mid nm f fd : api_names_shapeb sch mid nm = true -> nth_error (rp_fields sch mid) f = Some fd ->
  nth_error (ap_getters (canon_prog sch mid nm)) f = Some (canon_api_getter f fd (nth f (mn_fields nm) api_fnames0)) /\
  api_first_zero fd (nth f (mn_fields nm) api_fnames0) = true.
Proof.
  intros S F. destruct (shapeb_parts _ _ _ S) as [L [_ Z]].
  pose proof (nth_error_combine api_fnames0 _ _ _ _ L F) as C. split.
  - cbn [canon_prog ap_getters]. unfold canon_api_getters. rewrite nth_error_map, nth_error_indexed, C. reflexivity.
  - apply Z. eapply nth_error_In; exact C.
Qed.

Lemma elem_ty_fits_canon t n : api_elem_ty_fits t (canon_api_elem_ty t n) = true.
Proof. destruct t as [k|m]; cbn; [destruct k; reflexivity|apply Nat.eqb_refl]. Qed.
Lemma scalar_ty_fits_canon k n : api_scalar_ty_fits k (canon_api_scalar_ty k n) = true.
Proof. destruct k; reflexivity. Qed.
Lemma field_ty_fits_canon fd n : (forall o, f_shape fd <> Member o) -> api_field_ty_fits fd (canon_api_field_ty fd n) = true.
Proof.
  intro NM. unfold api_field_ty_fits, canon_api_field_ty. destruct (f_shape fd) as [|pk|o|kk].
  - apply elem_ty_fits_canon.
  - apply elem_ty_fits_canon.
  - exfalso. exact (NM o eq_refl).
  - rewrite scalar_ty_fits_canon, elem_ty_fits_canon. reflexivity.
Qed.

(* the default value printed after the last `return` is the zero value of the field's type *)
Lemma eval_zero_canon fd n : api_first_zero fd n = true ->
  api_eval_zero fd (match f_shape fd with Member _ => canon_api_elem_ty (f_ty fd) n | _ => canon_api_field_ty fd n end)
                (canon_api_zero fd n) = Some (api_zero_val fd).
Proof.
  intro Z. unfold api_eval_zero, canon_api_zero, api_zero_val, canon_api_field_ty, api_first_zero in *.
  destruct (f_shape fd) as [|pk|o|kk]; try reflexivity.
  - destruct (f_ty fd) as [k|m]; [|reflexivity]. destruct k; try reflexivity.
    apply Z.eqb_eq in Z. cbn [canon_api_elem_ty canon_api_scalar_ty]. destruct (fn_enum_local n); rewrite name_eqb_refl, Z; reflexivity.
  - destruct (f_ty fd) as [k|m]; [|reflexivity]. destruct k; try reflexivity.
    apply Z.eqb_eq in Z. cbn [canon_api_elem_ty canon_api_scalar_ty]. destruct (fn_enum_local n); rewrite name_eqb_refl, Z; reflexivity.
Qed.

Lemma new_obj_cell sch mid md f fd : get_msg sch mid = Some md -> nth_error (m_fields md) f = Some fd ->
  nth_error (o_cells (new_obj sch mid)) f = Some (new_cell fd).
Proof. intros G F. unfold new_obj. rewrite G. cbn [o_cells]. rewrite nth_error_map, F. reflexivity. Qed.
Lemma new_obj_slot sch mid o : nth o (o_oneofs (new_obj sch mid)) None = None.
Proof.
  unfold new_obj. destruct (get_msg sch mid) as [md|]; cbn [o_oneofs]; [|destruct o; reflexivity].
  generalize (m_oneofs md). intro n. revert o. induction n as [|n IH]; intros [|o]; cbn; auto.
Qed.

Lemma canon_ogetter_nth sch mid nm o : o < rp_noneofs sch mid ->
  nth_error (ap_ogetters (canon_prog sch mid nm)) o = Some (AGOneof o (on_iface (nth o (mn_oneofs nm) api_onames0))).
Proof. intro H. cbn [canon_prog ap_ogetters]. unfold canon_api_ogetters. rewrite nth_error_map_seq by exact H. reflexivity. Qed.

(* ================================================================== getters *)
(* the value of a field outside a oneof, read from a struct of the right shape *)
Lemma plain_get md h id ob f fd c : nth_error (m_fields md) f = Some fd -> (forall o, f_shape fd <> Member o) ->
  get_obj h id = Some ob -> nth_error (o_cells ob) f = Some c -> cell_fitsb fd c = true ->
  exists gv,
    match c, f_shape fd, f_ty fd with
    | CScalar v, Singular, TScalar _ => Some (AVScalar v)
    | CMsg p, Singular, TMsg m => Some (AVMsg m p)
    | CList l, Rep _, t => Some (AVList t l)
    | CMap m, MapOf kk, t => Some (AVMap kk t m)
    | _, _, _ => None
    end = Some gv /\ api_rel h gv (get_field ob (Some id) f fd).
Proof.
  intros F NM G C Fit. unfold get_field, cell_fitsb in *. rewrite C.
  destruct (f_shape fd) as [|pk|o|kk] eqn:S.
  - destruct (f_ty fd) as [k|m] eqn:T; destruct c as [v|q|l|mm|]; try discriminate; eexists; split; try reflexivity; cbn; auto.
  - destruct (f_ty fd) as [k|m] eqn:T; destruct c as [v|q|l|mm|]; try discriminate; eexists; (split; [reflexivity|]); cbn [api_rel];
      (split; [reflexivity|]); destruct (Nat.eqb (olen l) 0) eqn:E; try (apply Nat.eqb_eq in E; exact E);
      apply Nat.eqb_neq in E; (split; [exact E|]); unfold read_list; rewrite G, C; reflexivity.
  - exfalso. exact (NM o eq_refl).
  - destruct (f_ty fd) as [k|m] eqn:T; destruct c as [v|q|l|mm|]; try discriminate; eexists; (split; [reflexivity|]); cbn [api_rel];
      (split; [reflexivity|]); (split; [reflexivity|]); destruct (Nat.eqb (olen mm) 0) eqn:E; try (apply Nat.eqb_eq in E; exact E);
      apply Nat.eqb_neq in E; (split; [exact E|]); unfold read_map; rewrite G, C; reflexivity.
Qed.

Lemma zero_rel_new_obj sch mid md h f fd : get_msg sch mid = Some md -> nth_error (m_fields md) f = Some fd ->
  api_rel h (api_zero_val fd) (get_field (new_obj sch mid) None f fd).
Proof.
  intros G F. unfold get_field, api_zero_val. rewrite (new_obj_cell _ _ _ _ _ G F). unfold new_cell, zero_elem.
  destruct (f_shape fd) as [|pk|o|kk]; rewrite ?new_obj_slot; destruct (f_ty fd) as [k|m]; cbn; auto.
Qed.

Theorem getter_api_correct : getter_api_stmt.
Proof.
  intros sch mid nm h p f fd W Hok S F.
  destruct (canon_getter_nth _ _ _ _ _ S F) as [GN Z]. unfold run_getter. rewrite GN.
  unfold rp_fields in F. pose proof F as F0. unfold fields_of in F. destruct (get_msg sch mid) as [md|] eqn:G; [|destruct f; discriminate].
  pose proof (wf_field _ _ _ _ _ W G F) as WF.
  cbn [step]. unfold field_of. rewrite G, F.
  set (n := nth f (mn_fields nm) api_fnames0) in *.
  pose proof (eval_zero_canon fd n Z) as EZ.
  unfold canon_api_getter. destruct (f_shape fd) as [|pk|o|kk] eqn:Sh.
  - (* singular *)
    assert (NM : forall o, f_shape fd <> Member o) by (rewrite Sh; discriminate).
    cbn [api_eval_getter]. rewrite F0. cbv beta iota. rewrite (field_ty_fits_canon _ n NM), EZ, Sh.
    destruct p as [id|]; cbn [api_recv].
    + destruct (recv_obj sch h mid (Some id)) as [ob|] eqn:R; [|eexists; split; [reflexivity|exact I]].
      destruct (recv_obj_inv _ _ _ _ _ R) as [GO _].
      destruct (recv_cell _ _ _ _ (recv_ok_of _ _ _ _ _ _ Hok R G) F) as [c [C Fit]]. rewrite C.
      destruct (plain_get md h id ob f fd c F NM GO C Fit) as [gv [E Rel]]. rewrite Sh in E. exists gv. split; [exact E|exact Rel].
    + cbn [recv_obj snd]. eexists; split; [reflexivity|]. eapply zero_rel_new_obj; eauto.
  - (* repeated *)
    assert (NM : forall o, f_shape fd <> Member o) by (rewrite Sh; discriminate).
    cbn [api_eval_getter]. rewrite F0. cbv beta iota. rewrite (field_ty_fits_canon _ n NM), EZ, Sh.
    destruct p as [id|]; cbn [api_recv].
    + destruct (recv_obj sch h mid (Some id)) as [ob|] eqn:R; [|eexists; split; [reflexivity|exact I]].
      destruct (recv_obj_inv _ _ _ _ _ R) as [GO _].
      destruct (recv_cell _ _ _ _ (recv_ok_of _ _ _ _ _ _ Hok R G) F) as [c [C Fit]]. rewrite C.
      destruct (plain_get md h id ob f fd c F NM GO C Fit) as [gv [E Rel]]. rewrite Sh in E. exists gv. split; [exact E|exact Rel].
    + cbn [recv_obj snd]. eexists; split; [reflexivity|]. eapply zero_rel_new_obj; eauto.
  - (* member of oneof o *)
    assert (Ho : o < m_oneofs md).
    { unfold field_wf in WF. rewrite Sh in WF. apply andb_prop in WF. destruct WF as [_ WF]. apply Nat.ltb_lt in WF. exact WF. }
    assert (Hn : rp_noneofs sch mid = m_oneofs md) by (unfold rp_noneofs; rewrite G; reflexivity).
    cbn [api_eval_getter]. rewrite (member_in_self _ _ _ _ F0 Sh), canon_ogetter_nth by (rewrite Hn; exact Ho).
    rewrite elem_ty_fits_canon, EZ. cbn [api_eval_ogetter]. rewrite Hn. apply Nat.ltb_lt in Ho. rewrite Ho.
    destruct p as [id|]; cbn [api_recv].
    + destruct (recv_obj sch h mid (Some id)) as [ob|] eqn:R; [|eexists; split; [reflexivity|exact I]].
      cbn [snd]. unfold get_field, slot_at. rewrite Sh.
      destruct (nth o (o_oneofs ob) None) as [[f' e]|] eqn:Sl.
      * destruct (Nat.eqb f' f) eqn:E.
        -- apply Nat.eqb_eq in E. subst f'.
           destruct (recv_slot _ _ _ _ _ (recv_ok_of _ _ _ _ _ _ Hok R G) Sl) as [fd' [F' [_ Pay]]].
           rewrite F in F'. inversion F'; subst fd'. unfold api_elem_val, elem_to_pval.
           destruct (f_ty fd); destruct e; try discriminate; eexists; (split; [reflexivity|]); cbn; auto.
        -- eexists; split; [reflexivity|]. unfold api_zero_val, zero_elem. rewrite Sh. destruct (f_ty fd); cbn; auto.
      * eexists; split; [reflexivity|]. unfold api_zero_val, zero_elem. rewrite Sh. destruct (f_ty fd); cbn; auto.
    + cbn [recv_obj snd]. eexists; split; [reflexivity|]. eapply zero_rel_new_obj; eauto.
  - (* map *)
    assert (NM : forall o, f_shape fd <> Member o) by (rewrite Sh; discriminate).
    cbn [api_eval_getter]. rewrite F0. cbv beta iota. rewrite (field_ty_fits_canon _ n NM), EZ, Sh.
    destruct p as [id|]; cbn [api_recv].
    + destruct (recv_obj sch h mid (Some id)) as [ob|] eqn:R; [|eexists; split; [reflexivity|exact I]].
      destruct (recv_obj_inv _ _ _ _ _ R) as [GO _].
      destruct (recv_cell _ _ _ _ (recv_ok_of _ _ _ _ _ _ Hok R G) F) as [c [C Fit]]. rewrite C.
      destruct (plain_get md h id ob f fd c F NM GO C Fit) as [gv [E Rel]]. rewrite Sh in E. exists gv. split; [exact E|exact Rel].
    + cbn [recv_obj snd]. eexists; split; [reflexivity|]. eapply zero_rel_new_obj; eauto.
Qed.

Theorem getter_nil_api_correct : getter_nil_api_stmt.
Proof.
  intros sch mid nm h f fd W S F.
  destruct (canon_getter_nth _ _ _ _ _ S F) as [GN Z]. unfold run_getter. rewrite GN.
  unfold rp_fields in F. pose proof F as F0. unfold fields_of in F. destruct (get_msg sch mid) as [md|] eqn:G; [|destruct f; discriminate].
  pose proof (wf_field _ _ _ _ _ W G F) as WF.
  set (n := nth f (mn_fields nm) api_fnames0) in *.
  pose proof (eval_zero_canon fd n Z) as EZ.
  unfold canon_api_getter. destruct (f_shape fd) as [|pk|o|kk] eqn:Sh.
  1,2,4: assert (NM : forall o, f_shape fd <> Member o) by (rewrite Sh; discriminate);
         cbn [api_eval_getter api_recv]; rewrite F0; cbv beta iota; rewrite (field_ty_fits_canon _ n NM), EZ, Sh; reflexivity.
  assert (Ho : o < m_oneofs md).
  { unfold field_wf in WF. rewrite Sh in WF. apply andb_prop in WF. destruct WF as [_ WF]. apply Nat.ltb_lt in WF. exact WF. }
  assert (Hn : rp_noneofs sch mid = m_oneofs md) by (unfold rp_noneofs; rewrite G; reflexivity).
  cbn [api_eval_getter api_recv]. rewrite (member_in_self _ _ _ _ F0 Sh), canon_ogetter_nth by (rewrite Hn; exact Ho).
  rewrite elem_ty_fits_canon, EZ. cbn [api_eval_ogetter]. rewrite Hn. apply Nat.ltb_lt in Ho. rewrite Ho. reflexivity.
Qed.

(* ================================================================== the oneof getter *)
Theorem ogetter_api_correct : ogetter_api_stmt.
Proof.
  intros sch mid nm h p o W Hok S Ho. unfold run_ogetter. rewrite canon_ogetter_nth by exact Ho.
  cbn [api_eval_ogetter step]. pose proof Ho as Ho'. apply Nat.ltb_lt in Ho'. rewrite Ho'.
  unfold rp_noneofs in *. destruct (get_msg sch mid) as [md|] eqn:G; [|lia].
  destruct p as [id|]; cbn [api_recv].
  - destruct (recv_obj sch h mid (Some id)) as [ob|] eqn:R; [|eexists; split; [reflexivity|exact I]].
    rewrite Ho'. cbn [snd]. eexists; split; [reflexivity|]. cbn [api_rel]. unfold slot_at.
    destruct (nth o (o_oneofs ob) None) as [[f' e]|]; reflexivity.
  - cbn [recv_obj]. rewrite Ho'. cbn [snd]. eexists; split; [reflexivity|]. cbn [api_rel]. rewrite new_obj_slot. reflexivity.
Qed.

(* ================================================================== Reset *)
Theorem reset_api_correct : reset_api_stmt.
Proof.
  intros sch mid nm h id ob G M. cbn [canon_prog ap_reset canon_api_reset run_reset]. rewrite Nat.eqb_refl.
  unfold api_recv, recv_obj. rewrite G, M, Nat.eqb_refl. reflexivity.
Qed.

Theorem reset_nil_api_correct : reset_nil_api_stmt.
Proof. intros sch mid nm h. cbn [canon_prog ap_reset canon_api_reset run_reset]. rewrite Nat.eqb_refl. reflexivity. Qed.

Lemma forallb_set_nth {A} (P : A -> bool) : forall (l : list A) i x, forallb P l = true -> P x = true -> forallb P (set_nth l i x) = true.
Proof.
  induction l as [|a l IH]; intros [|i] x H Px; cbn [set_nth forallb] in *; try reflexivity.
  - apply andb_prop in H. destruct H as [_ H]. rewrite Px, H. reflexivity.
  - apply andb_prop in H. destruct H as [Ha H]. rewrite Ha, (IH i x H Px). reflexivity.
Qed.

Theorem reset_keeps_ok_api_correct : reset_keeps_ok_api_stmt.
Proof.
  intros sch mid nm h p h' r Hok. cbn [canon_prog ap_reset canon_api_reset run_reset]. rewrite Nat.eqb_refl.
  destruct (api_recv sch h mid p) as [|[id|] ob|]; intro E; inversion E; subst; try exact Hok.
  unfold rp_heap_okb, hset. apply forallb_set_nth; [exact Hok|apply new_obj_okb].
Qed.

Lemma get_obj_hset h id e ob : get_obj h id = Some ob -> hget (hset h id e) id = Some e.
Proof.
  unfold get_obj, hget, hset. intro G. apply nth_error_set_nth_eq. apply nth_error_Some. destruct (nth_error h id); [discriminate|discriminate].
Qed.

Theorem reset_empties_api_correct : reset_empties_api_stmt.
Proof.
  intros sch mid nm h id ob f fd W S GO M F h' E.
  rewrite (reset_api_correct sch mid nm h id ob GO M) in E. inversion E; subst h'. clear E.
  assert (R : recv_obj sch (hset h id (HObj (new_obj sch mid))) mid (Some id) = Some (new_obj sch mid)).
  { unfold recv_obj, get_obj. rewrite (get_obj_hset _ _ _ _ GO), new_obj_mid, Nat.eqb_refl. reflexivity. }
  split.
  - cbn [step]. rewrite R. unfold rp_fields in F. rewrite <- field_of_nth in F. rewrite F. cbn [snd]. rewrite (has_field_new _ _ _ _ F). reflexivity.
  - destruct (canon_getter_nth _ _ _ _ _ S F) as [GN Z]. unfold run_getter. rewrite GN.
    unfold rp_fields in F. pose proof F as F0. unfold fields_of in F. destruct (get_msg sch mid) as [md|] eqn:G; [|destruct f; discriminate].
    pose proof (wf_field _ _ _ _ _ W G F) as WF.
    set (n := nth f (mn_fields nm) api_fnames0) in *.
    pose proof (eval_zero_canon fd n Z) as EZ.
    unfold api_recv. rewrite R.
    unfold canon_api_getter. destruct (f_shape fd) as [|pk|o|kk] eqn:Sh.
    1,2,4: assert (NM : forall o, f_shape fd <> Member o) by (rewrite Sh; discriminate);
           cbn [api_eval_getter]; rewrite F0; cbv beta iota; rewrite (field_ty_fits_canon _ n NM), EZ, Sh, (new_obj_cell _ _ _ _ _ G F);
           unfold new_cell, api_zero_val; rewrite Sh; destruct (f_ty fd); reflexivity.
    assert (Ho : o < m_oneofs md).
    { unfold field_wf in WF. rewrite Sh in WF. apply andb_prop in WF. destruct WF as [_ WF]. apply Nat.ltb_lt in WF. exact WF. }
    assert (Hn : rp_noneofs sch mid = m_oneofs md) by (unfold rp_noneofs; rewrite G; reflexivity).
    cbn [api_eval_getter]. rewrite (member_in_self _ _ _ _ F0 Sh), canon_ogetter_nth by (rewrite Hn; exact Ho).
    rewrite elem_ty_fits_canon, EZ. cbn [api_eval_ogetter]. rewrite Hn. apply Nat.ltb_lt in Ho. rewrite Ho.
    unfold slot_at. rewrite new_obj_slot. reflexivity.
Qed.

(* ================================================================== struct layout *)
Lemma plain_tag_num fd n : api_tag_num (gf_tags (canon_api_plain_field fd n)) = Some (f_num fd).
Proof. unfold canon_api_plain_field, canon_api_ptag. destruct (f_shape fd); reflexivity. Qed.
Lemma plain_tag_oneof fd n : api_tag_oneof (gf_tags (canon_api_plain_field fd n)) = None.
Proof. unfold canon_api_plain_field. destruct (f_shape fd); reflexivity. Qed.
Lemma wrapper_tag_num fd n : api_tag_num (gf_tags (aw_field (canon_api_wrapper fd n))) = Some (f_num fd).
Proof. unfold canon_api_wrapper, canon_api_ptag. destruct (f_shape fd); reflexivity. Qed.

Lemma not_seen_cons o o' seen : o' <> o -> existsb (Nat.eqb o) seen = false -> existsb (Nat.eqb o) (o' :: seen) = false.
Proof. intros N H. cbn [existsb]. rewrite H, orb_false_r. apply Nat.eqb_neq. auto. Qed.

(* the Go field of a field outside a oneof *)
Lemma gofields_nth_plain os : forall fs ns seen f fd, length ns = length fs -> nth_error fs f = Some fd ->
  (forall o, f_shape fd <> Member o) ->
  nth_error (canon_api_gofields os seen fs ns) (api_gopos seen fs f) = Some (canon_api_plain_field fd (nth f ns api_fnames0)).
Proof.
  induction fs as [|a ft IH]; intros [|n nt] seen f fd L F NM; try (destruct f; discriminate); cbn [length] in L; try lia.
  destruct f as [|f]; cbn [nth_error] in F.
  - inversion F; subst a. cbn [api_gopos canon_api_gofields nth]. destruct (f_shape fd) as [| |o|] eqn:S; try reflexivity.
    exfalso. exact (NM o eq_refl).
  - cbn [api_gopos canon_api_gofields nth]. destruct (f_shape a) as [| |o|]; try (cbn [nth_error]; apply IH; [lia|exact F|exact NM]).
    destruct (existsb (Nat.eqb o) seen); [|cbn [nth_error]]; apply IH; (lia || assumption).
Qed.

(* every tagged Go field comes from a field outside a oneof, and stands at its position *)
Lemma gofields_num_in os : forall fs ns seen k gf num, length ns = length fs ->
  nth_error (canon_api_gofields os seen fs ns) k = Some gf -> api_tag_num (gf_tags gf) = Some num ->
  exists f fd, nth_error fs f = Some fd /\ f_num fd = num /\ k = api_gopos seen fs f /\ (forall o, f_shape fd <> Member o).
Proof.
  induction fs as [|a ft IH]; intros [|n nt] seen k gf num L K T; cbn [canon_api_gofields] in K; try (destruct k; discriminate);
    cbn [length] in L; try lia.
  assert (L' : length nt = length ft) by lia.
  destruct (f_shape a) as [| |o|] eqn:Sa.
  1,2,4: destruct k as [|k]; cbn [nth_error] in K;
         [inversion K; subst gf; rewrite plain_tag_num in T; inversion T; exists 0, a; cbn [nth_error api_gopos]; repeat split; rewrite Sa; discriminate
         |destruct (IH nt seen k gf num L' K T) as [f [fd [F [N [P NM]]]]]; exists (S f), fd; cbn [nth_error api_gopos]; rewrite Sa; repeat split; auto].
  destruct (existsb (Nat.eqb o) seen) eqn:Sn.
  - destruct (IH nt seen k gf num L' K T) as [f [fd [F [N [P NM]]]]]. exists (S f), fd. cbn [nth_error api_gopos]. rewrite Sa, Sn. repeat split; auto.
  - destruct k as [|k]; cbn [nth_error] in K.
    + inversion K; subst gf. cbn in T. discriminate.
    + destruct (IH nt (o :: seen) k gf num L' K T) as [f [fd [F [N [P NM]]]]]. exists (S f), fd. cbn [nth_error api_gopos]. rewrite Sa, Sn. repeat split; auto.
Qed.

Lemma nodupb_notin : forall l x, existsb (N.eqb x) l = false -> ~ In x l.
Proof.
  induction l as [|a l IH]; intros x H I; [exact I|]. cbn [existsb] in H. apply orb_false_elim in H. destruct H as [H1 H2].
  destruct I as [I|I]; [subst a; rewrite N.eqb_refl in H1; discriminate|exact (IH x H2 I)].
Qed.
Lemma nodupb_NoDup : forall l, nodupb l = true -> NoDup l.
Proof.
  induction l as [|a l IH]; intro H; [constructor|]. cbn [nodupb] in H. apply andb_prop in H. destruct H as [H1 H2].
  constructor; [apply nodupb_notin; apply negb_true_iff in H1; exact H1|exact (IH H2)].
Qed.
Lemma nums_inj (fs : list field) f1 f2 a b : nodupb (map f_num fs) = true -> nth_error fs f1 = Some a -> nth_error fs f2 = Some b ->
  f_num a = f_num b -> f1 = f2.
Proof.
  intros ND A B E. apply nodupb_NoDup in ND.
  assert (A' : nth_error (map f_num fs) f1 = Some (f_num a)) by (rewrite nth_error_map, A; reflexivity).
  assert (B' : nth_error (map f_num fs) f2 = Some (f_num b)) by (rewrite nth_error_map, B; reflexivity).
  rewrite <- E in B'. rewrite <- B' in A'.
  apply (proj1 (NoDup_nth_error _) ND); [|exact A']. apply nth_error_Some. rewrite nth_error_map, A. discriminate.
Qed.
Lemma wf_nums sch mid md : wf sch = true -> get_msg sch mid = Some md -> nodupb (map f_num (m_fields md)) = true.
Proof.
  intros W G. unfold wf in W. rewrite forallb_forall in W. unfold get_msg in G. specialize (W md (nth_error_In _ _ G)).
  unfold msg_wf in W. apply andb_prop in W. destruct W as [_ W]. exact W.
Qed.

Theorem struct_layout_field_correct : struct_layout_field_stmt.
Proof.
  intros sch mid nm f fd W S F NM st k.
  destruct (shapeb_parts _ _ _ S) as [L _].
  assert (E : as_fields st = canon_api_internal ++ canon_api_gofields (mn_oneofs nm) [] (rp_fields sch mid) (mn_fields nm)) by reflexivity.
  split; [|split].
  - rewrite E. unfold k. rewrite nth_error_app2 by (cbn; lia). replace (3 + _ - length canon_api_internal) with (api_gopos [] (rp_fields sch mid) f) by (cbn; lia).
    apply gofields_nth_plain; assumption.
  - apply plain_tag_num.
  - intros k' gf K T. rewrite E in K. destruct (Nat.ltb k' 3) eqn:Lt.
    + apply Nat.ltb_lt in Lt. destruct k' as [|[|[|k']]]; try lia; cbn in K; inversion K; subst gf; discriminate.
    + apply Nat.ltb_ge in Lt. rewrite nth_error_app2 in K by (cbn; lia). cbn [length canon_api_internal] in K.
      destruct (gofields_num_in _ _ _ _ _ _ _ L K T) as [f' [fd' [F' [N' [P _]]]]].
      assert (f' = f).
      { unfold rp_fields, fields_of in *. destruct (get_msg sch mid) as [md|] eqn:G; [|destruct f; discriminate].
        eapply nums_inj; eauto. eapply wf_nums; eauto. }
      subst f'. unfold k. lia.
Qed.

Theorem struct_layout_count_correct : struct_layout_count_stmt.
Proof.
  intros sch mid nm S. destruct (shapeb_parts _ _ _ S) as [L _]. cbn [canon_api_struct as_fields]. rewrite app_length. cbn [length canon_api_internal].
  do 3 f_equal. revert L. generalize (mn_oneofs nm) (rp_fields sch mid) (mn_fields nm) (@nil nat).
  intros os fs. induction fs as [|a ft IH]; intros [|n nt] seen L; cbn [length] in L; try lia; [reflexivity|].
  cbn [canon_api_gofields api_gopos length]. destruct (f_shape a) as [| |o|]; try (cbn [length]; f_equal; apply IH; lia).
  destruct (existsb (Nat.eqb o) seen); [|cbn [length]; f_equal]; apply IH; lia.
Qed.

Lemma gopos_mono : forall fs seen f1 f2, f1 <= f2 -> api_gopos seen fs f1 <= api_gopos seen fs f2.
Proof.
  induction fs as [|a ft IH]; intros seen [|f1] [|f2] H; cbn [api_gopos]; try lia.
  destruct (f_shape a) as [| |o|]; try (apply le_n_S; apply IH; lia).
  destruct (existsb (Nat.eqb o) seen); [|apply le_n_S]; apply IH; lia.
Qed.

Theorem struct_layout_order_correct : struct_layout_order_stmt.
Proof.
  intro fs. induction fs as [|a ft IH]; intros seen f1 f2 fd1 Lt Le F C; [destruct f1; discriminate|].
  destruct f2 as [|f2]; [lia|]. cbn [length] in Le. destruct f1 as [|f1]; cbn [nth_error] in F.
  - inversion F; subst a. cbn [api_gopos]. destruct (f_shape fd1) as [| |o|]; try lia.
    apply andb_prop in C. destruct C as [C _]. apply negb_true_iff in C. rewrite C. lia.
  - cbn [api_gopos].
    assert (X : forall seen', (match f_shape a with Member o' => seen' = seen \/ seen' = o' :: seen | _ => seen' = seen end) ->
                (match f_shape a with Member o' => existsb (Nat.eqb o') seen = false -> seen' = o' :: seen | _ => True end) ->
                api_gopos seen' ft f1 < api_gopos seen' ft f2).
    { intros seen' Hs Hs'. apply (IH seen' f1 f2 fd1); [lia|lia|exact F|].
      destruct (f_shape fd1) as [| |o|] eqn:S1; try reflexivity.
      apply andb_prop in C. destruct C as [C1 C2]. apply negb_true_iff in C1. apply negb_true_iff in C2.
      cbn [firstn existsb] in C2. apply orb_false_elim in C2. destruct C2 as [C2 C3]. rewrite C3.
      unfold rp_member_of in C2. destruct (f_shape a) as [| |o'|]; try (subst seen'; rewrite C1; reflexivity).
      destruct Hs as [Hs|Hs]; subst seen'; [rewrite C1; reflexivity|].
      rewrite not_seen_cons; [reflexivity| |exact C1]. apply Nat.eqb_neq in C2. exact C2. }
    destruct (f_shape a) as [| |o'|]; try (apply (proj1 (Nat.succ_lt_mono _ _)); apply X; auto).
    destruct (existsb (Nat.eqb o') seen) eqn:Sn; [apply X; [left; reflexivity|intro; discriminate]|apply (proj1 (Nat.succ_lt_mono _ _)); apply X; [right; reflexivity|auto]].
Qed.

(* ---- the interface field of a oneof *)
Lemma member_shape o fd : rp_member_of o fd = true -> f_shape fd = Member o.
Proof. unfold rp_member_of. destruct (f_shape fd) as [| |o'|]; try discriminate. intro H. apply Nat.eqb_eq in H. subst o'. reflexivity. Qed.

Lemma first_member_le o : forall fs f fd, nth_error fs f = Some fd -> rp_member_of o fd = true ->
  exists f0, api_first_member o fs = Some f0 /\ f0 <= f.
Proof.
  induction fs as [|a ft IH]; intros [|f] fd F M; try discriminate; cbn [nth_error api_first_member] in *.
  - inversion F; subst a. rewrite M. exists 0. split; [reflexivity|lia].
  - destruct (rp_member_of o a); [exists 0; split; [reflexivity|lia]|].
    destruct (IH f fd F M) as [f0 [E Le]]. rewrite E. exists (S f0). split; [reflexivity|lia].
Qed.

Lemma gofields_nth_oneof os o : forall fs ns seen f0, length ns = length fs -> existsb (Nat.eqb o) seen = false ->
  api_first_member o fs = Some f0 ->
  nth_error (canon_api_gofields os seen fs ns) (api_gopos seen fs f0) = Some (canon_api_oneof_field os o).
Proof.
  induction fs as [|a ft IH]; intros [|n nt] seen f0 L Sn FM; try discriminate; cbn [length] in L; try lia.
  assert (L' : length nt = length ft) by lia.
  cbn [api_first_member] in FM. destruct (rp_member_of o a) eqn:M.
  - inversion FM; subst f0. cbn [api_gopos canon_api_gofields]. rewrite (member_shape _ _ M), Sn. reflexivity.
  - destruct (api_first_member o ft) as [f0'|] eqn:FM'; [|discriminate]. cbn [option_map] in FM. inversion FM; subst f0.
    cbn [api_gopos canon_api_gofields]. unfold rp_member_of in M. destruct (f_shape a) as [| |o'|]; try (cbn [nth_error]; apply IH; auto).
    destruct (existsb (Nat.eqb o') seen); [apply IH; auto|]. cbn [nth_error]. apply IH; auto.
    apply not_seen_cons; [|exact Sn]. apply Nat.eqb_neq in M. exact M.
Qed.

Lemma gofields_oneof_in os : forall fs ns seen k gf nmo, length ns = length fs ->
  nth_error (canon_api_gofields os seen fs ns) k = Some gf -> api_tag_oneof (gf_tags gf) = Some nmo ->
  exists o f0, existsb (Nat.eqb o) seen = false /\ api_first_member o fs = Some f0 /\ k = api_gopos seen fs f0 /\
               gf = canon_api_oneof_field os o /\ (exists fd, nth_error fs f0 = Some fd /\ f_shape fd = Member o).
Proof.
  induction fs as [|a ft IH]; intros [|n nt] seen k gf nmo L K T; cbn [canon_api_gofields] in K; try (destruct k; discriminate);
    cbn [length] in L; try lia.
  assert (L' : length nt = length ft) by lia.
  destruct (f_shape a) as [| |o|] eqn:Sa.
  1,2,4: destruct k as [|k]; cbn [nth_error] in K;
         [inversion K; subst gf; rewrite plain_tag_oneof in T; discriminate
         |destruct (IH nt seen k gf nmo L' K T) as [o' [f0 [Sn [FM [P [E [fd [F Sh]]]]]]]]; exists o', (S f0);
          cbn [api_first_member api_gopos nth_error]; unfold rp_member_of; rewrite Sa, FM; repeat split; auto; exists fd; auto].
  destruct (existsb (Nat.eqb o) seen) eqn:Sn.
  - destruct (IH nt seen k gf nmo L' K T) as [o' [f0 [Sn' [FM [P [E [fd [F Sh]]]]]]]]. exists o', (S f0).
    cbn [api_first_member api_gopos nth_error]. unfold rp_member_of. rewrite Sa, Sn.
    destruct (Nat.eqb o o') eqn:Eo; [apply Nat.eqb_eq in Eo; subst o'; congruence|]. rewrite FM. repeat split; auto. exists fd; auto.
  - destruct k as [|k]; cbn [nth_error] in K.
    + inversion K; subst gf. exists o, 0. cbn [api_first_member api_gopos nth_error]. unfold rp_member_of. rewrite Sa, Nat.eqb_refl.
      repeat split; auto. exists a; auto.
    + destruct (IH nt (o :: seen) k gf nmo L' K T) as [o' [f0 [Sn' [FM [P [E [fd [F Sh]]]]]]]]. exists o', (S f0).
      cbn [api_first_member api_gopos nth_error]. unfold rp_member_of. rewrite Sa, Sn.
      cbn [existsb] in Sn'. apply orb_false_elim in Sn'. destruct Sn' as [Eo Sn']. rewrite Nat.eqb_sym in Eo. rewrite Eo, FM.
      repeat split; auto. exists fd; auto.
Qed.

Lemma nodup_names_notin : forall l x, existsb (GenNames.name_eqb x) l = false -> ~ In x l.
Proof.
  induction l as [|a l IH]; intros x H I; [exact I|]. cbn [existsb] in H. apply orb_false_elim in H. destruct H as [H1 H2].
  destruct I as [I|I]; [subst a; rewrite name_eqb_refl in H1; discriminate|exact (IH x H2 I)].
Qed.
Lemma nodup_names_NoDup : forall l, api_nodup_names l = true -> NoDup l.
Proof.
  induction l as [|a l IH]; intro H; [constructor|]. cbn [api_nodup_names] in H. apply andb_prop in H. destruct H as [H1 H2].
  constructor; [apply nodup_names_notin; apply negb_true_iff in H1; exact H1|exact (IH H2)].
Qed.

Lemma in_combine_nth {A B} (d : B) : forall (l : list A) (r : list B) x y, length r = length l -> In (x, y) (combine l r) ->
  exists k, nth_error l k = Some x /\ y = nth k r d.
Proof.
  induction l as [|a l IH]; intros [|b r] x y L I; cbn in *; try contradiction; try lia.
  destruct I as [I|I].
  - inversion I; subst. exists 0. split; reflexivity.
  - destruct (IH r x y ltac:(lia) I) as [k [K1 K2]]. exists (S k). split; assumption.
Qed.

Theorem struct_layout_oneof_correct : struct_layout_oneof_stmt.
Proof.
  intros sch mid nm f fd o W OK F Sh st.
  unfold api_names_okb in OK. apply andb_prop in OK. destruct OK as [OK ND3]. apply andb_prop in OK. destruct OK as [OK _].
  apply andb_prop in OK. destruct OK as [S _].
  destruct (shapeb_parts _ _ _ S) as [L [LO _]].
  assert (M : rp_member_of o fd = true) by (unfold rp_member_of; rewrite Sh; apply Nat.eqb_refl).
  destruct (first_member_le o _ _ _ F M) as [f0 [FM Le]]. exists f0. split; [exact FM|]. split; [exact Le|].
  assert (E : as_fields st = canon_api_internal ++ canon_api_gofields (mn_oneofs nm) [] (rp_fields sch mid) (mn_fields nm)) by reflexivity.
  assert (G : exists md, get_msg sch mid = Some md /\ rp_fields sch mid = m_fields md /\ rp_noneofs sch mid = m_oneofs md).
  { unfold rp_fields, rp_noneofs, fields_of in *. destruct (get_msg sch mid) as [md|]; [exists md; auto|destruct f; discriminate]. }
  destruct G as [md [G [Gf Gn]]].
  assert (Ho : forall f' fd' o', nth_error (rp_fields sch mid) f' = Some fd' -> f_shape fd' = Member o' -> o' < length (mn_oneofs nm)).
  { intros f' fd' o' F' S'. rewrite Gf in F'. pose proof (wf_field _ _ _ _ _ W G F') as WF. unfold field_wf in WF. rewrite S' in WF.
    apply andb_prop in WF. destruct WF as [_ WF]. apply Nat.ltb_lt in WF. rewrite LO, Gn. exact WF. }
  cbv zeta. split; [|split].
  - rewrite E, nth_error_app2 by (cbn; lia). replace (3 + _ - length canon_api_internal) with (api_gopos [] (rp_fields sch mid) f0) by (cbn; lia).
    apply gofields_nth_oneof; auto.
  - intros k' gf K T. rewrite E in K. destruct (Nat.ltb k' 3) eqn:Lt.
    + apply Nat.ltb_lt in Lt. destruct k' as [|[|[|k']]]; try lia; cbn in K; inversion K; subst gf; discriminate.
    + apply Nat.ltb_ge in Lt. rewrite nth_error_app2 in K by (cbn; lia). cbn [length canon_api_internal] in K.
      destruct (gofields_oneof_in _ _ _ _ _ _ _ L K T) as [o' [f0' [_ [FM' [P [Eg [fd' [F' Sh']]]]]]]].
      subst gf. cbn in T. inversion T as [T'].
      assert (o' = o).
      { apply nodup_names_NoDup in ND3.
        pose proof (Ho _ _ _ F' Sh') as Lo'. pose proof (Ho _ _ _ F Sh) as Lo.
        apply (proj1 (NoDup_nth_error _) ND3); [rewrite map_length; exact Lo'|].
        rewrite !nth_error_map. rewrite (nth_error_nth' _ api_onames0 Lo'), (nth_error_nth' _ api_onames0 Lo). cbn [option_map]. rewrite T'. reflexivity. }
      subst o'. rewrite FM in FM'. inversion FM'; subst f0'. lia.
  - assert (Lo : o < rp_noneofs sch mid) by (rewrite <- LO; exact (Ho _ _ _ F Sh)).
    eexists. split; [cbn [st canon_api_struct as_oneofs]; apply nth_error_map_seq; exact Lo|]. cbn [Nat.add].
    cbn [canon_api_oneofdecl ao_wrappers]. split.
    + apply in_map_iff. exists (fd, nth f (mn_fields nm) api_fnames0). split; [reflexivity|].
      unfold api_members. apply filter_In. split; [|exact M]. eapply nth_error_In. apply nth_error_combine; eauto.
    + intros o' od' w Ko Iw T. cbn [st canon_api_struct as_oneofs] in Ko.
      assert (Lo' : o' < rp_noneofs sch mid).
      { apply nth_error_Some_lt in Ko. rewrite map_length, seq_length in Ko. exact Ko. }
      rewrite (nth_error_map_seq _ _ 0 o' Lo') in Ko. inversion Ko; subst od'. cbn [Nat.add canon_api_oneofdecl ao_wrappers] in Iw.
      apply in_map_iff in Iw. destruct Iw as [[fd' n'] [Ew Im]]. cbn [fst snd] in Ew. subst w.
      unfold api_members in Im. apply filter_In in Im. destruct Im as [Ic M']. cbn [fst] in M'.
      rewrite wrapper_tag_num in T. inversion T as [T'].
      destruct (in_combine_nth api_fnames0 _ _ _ _ L Ic) as [f' [F' En]].
      assert (f' = f).
      { rewrite Gf in F', F. eapply nums_inj; eauto. eapply wf_nums; eauto. }
      subst f'. rewrite F in F'. inversion F'; subst fd' n'. split; [|reflexivity].
      apply member_shape in M'. rewrite Sh in M'. inversion M'. reflexivity.
Qed.

(* ================================================================== why api_names_shapeb asks for "first enum value = 0" *)
(* The getter's default is the enum's first value (fieldDefaultValue); Reflect.v's zero of an enum is 0 (proto3: protodesc rejects an
   enum whose first value is not 0). With a naming context that claims 1: the getter on the nil receiver returns 1, Get returns 0. *)
Example first_enum_value_needed :
  let sch : schema := [ {| m_fields := [ {| f_num := 1; f_ty := TScalar KEnum; f_shape := Singular |} ]; m_oneofs := 0; m_impl := Pulsar |} ] in
  let nm := mkMNames [] [ mkFNames [] [] [] [] [] [] true 1 ] [] [] [] [] in
  run_getter sch (canon_prog sch 0 nm) [] 0 None 0 = Some (AVScalar (VInt 1)) /\
  snd (step sch [] (OGet (PMsg 0 None) 0)) = PScalar (VInt 0).
Proof. vm_compute. split; reflexivity. Qed.
