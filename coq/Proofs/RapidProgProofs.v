(* Proofs/RapidProgProofs.v (third of three files) — setFields of the canonical program = RapidGen.set_fields, by induction on the
   model's fuel (three units of the interpreter's fuel per nesting level: setFields -> setFieldValue -> genAny -> setFields), and
   the statement of Model/RapidProg.v: MessageGenerator interpreted = RapidGen.gen. *)
From Coq Require Import Lia ZifyN ZifyNat ZifyBool.
From CP Require Import RapidGen RapidGenProofs RapidProg GoFun RapidProgBase RapidProgField.
From CP Require RoundTrip RapidGenSound.
Local Open Scope gname_scope.

Section Main.
  Variable o : gopts.
  Variable sch : schema.
  Variable ann : annots.
  Hypothesis Hwf : wf sch = true.
  Hypothesis Hann : ann_ok sch ann = true.
  Hypothesis Henum : rp_enums_ok sch ann.
  Hypothesis Hkeys : rp_keys_ok o.
  Notation R := (rp_run o sch ann canon_rapidproto).
  Notation EX := (rp_exec o sch ann canon_rapidproto).
  Notation shp := (shaped sch).
  Notation child_sim := (child_sim o sch ann).

  Definition lift_loop (EN : renv) (r : outcome (list val * tape)) : rres rsig :=
    match r with
    | Ok (slots', t) => ROk (SgNext EN) [VMsg slots' []] t
    | Err => RErr | Panic => RPanic | OutOfFuel => RFuel
    end.

  Section Fields.
    Variables (B : nat) (child : child_t) (depth F mid : nat) (md : msgdesc) (ma : mannot).
    Hypothesis Hc : child_sim B child (S depth).
    Hypothesis HF : (S (S B) <= F)%nat.          (* the calls of setFields run with fuel F *)
    Hypothesis Hm : get_msg sch mid = Some md.
    Hypothesis Ha : nth_error ann mid = Some ma.

    Lemma fields_len : length (m_fields md) = length (a_fields ma).
    Proof. destruct (get_ann sch ann Hann _ _ Hm) as (ma' & Ha' & _ & Hl). rewrite Ha in Ha'. injection Ha' as <-. exact Hl. Qed.

    (* for i := 0; i < n; i++ { f := fields.Get(i); if !draw {…continue}; opts.setFieldValue(t, msg, f, depth) } *)
    Lemma loop_fields (body : renv -> rstore -> tape -> rres rsig) EN :
      (forall j slots tp f fa, nth_error (m_fields md) j = Some f -> nth_error (a_fields ma) j = Some fa -> shp mid (VMsg slots []) = true ->
         noenv (body (rp_set "i" (RvInt (Z.of_nat j)) EN) [VMsg slots []] tp) =
           let (b, t1) := draw_bool tp in
           if negb b && msg_kind f && negb (o_disallow_nil o) then ROk (SgNext []) [VMsg slots []] t1
           else lift_loop [] (set_field_value code_variant o sch ann child depth md j f fa slots t1)) ->
      forall cnt j slots tp, (j + cnt = length (m_fields md))%nat -> shp mid (VMsg slots []) = true ->
        rp_for body "i" cnt j EN [VMsg slots []] tp =
          lift_loop EN (fields_loop code_variant o sch ann child depth md (skipn j (m_fields md)) (skipn j (a_fields ma)) j slots tp)
        /\ (forall slots' t, fields_loop code_variant o sch ann child depth md (skipn j (m_fields md)) (skipn j (a_fields ma)) j slots tp
                             = Ok (slots', t) -> shp mid (VMsg slots' []) = true).
    Proof.
      intros Hb. induction cnt as [|cnt IH]; intros j slots tp Hj Hs.
      - replace j with (length (m_fields md)) by lia. rewrite skipn_all'. cbn [rp_for fields_loop lift_loop].
        split; [reflexivity|intros s' t E; injection E as <- _; exact Hs].
      - assert (Hlt : (j < length (m_fields md))%nat) by lia.
        destruct (nth_error (m_fields md) j) as [f|] eqn:Ef; [|apply nth_error_None in Ef; lia].
        destruct (nth_error (a_fields ma) j) as [fa|] eqn:Efa; [|apply nth_error_None in Efa; rewrite <- fields_len in Efa; lia].
        rewrite for_step, (Hb j slots tp f fa Ef Efa Hs).
        rewrite (skipn_nth_error _ _ _ Ef), (skipn_nth_error _ _ _ Efa). cbn [fields_loop].
        destruct (draw_bool tp) as [b t1].
        destruct (negb b && msg_kind f && negb (o_disallow_nil o)); [apply IH; [lia|exact Hs]|].
        destruct (run_sfv o sch ann Hwf Hann Henum Hkeys B child depth (S B) mid md ma j f fa slots Hc (le_n _) Hm Ha Ef Efa Hs t1) as [_ Hsh].
        destruct (set_field_value code_variant o sch ann child depth md j f fa slots t1) as [[slots1 t2]| | |]; cbn [lift_loop];
          try (split; [reflexivity|discriminate]).
        apply IH; [lia|]. eapply Hsh. reflexivity.
    Qed.
  End Fields.

  (* ---- setFields ---------------------------------------------------------------------------------------------------------------- *)
  Lemma shaped_scalars mid md slots : get_msg sch mid = Some md -> length slots = length (m_fields md) ->
    Forall (fun f => exists k, f_ty f = TScalar k) (m_fields md) -> shp mid (VMsg slots []) = true.
  Proof.
    intros Hm Hl Hf. eapply shaped_intro; [exact Hm|]. revert slots Hl. induction Hf as [|f fs [k Hk] _ IH]; intros [|s ss] Hl; try discriminate; [reflexivity|].
    cbn [zip_all]. unfold sh_slot at 1. rewrite Hk. cbn [andb]. apply IH. cbn [length] in Hl. lia.
  Qed.

  Lemma run_setFields : forall fu F depth fdv ic mid cur tp,
    (fu * 3 <= F)%nat -> (1 <= fu)%nat -> (12 <= fu + depth)%nat -> ic_of ann fdv = Some ic -> shp mid cur = true ->
    R F "setFields" [RvOpts; RvT; fdv; RvH (rp_root0 (HkMsg mid)); RvInt (Z.of_nat depth)] [cur] tp
      = lift_sf cur (set_fields code_variant o sch ann fu depth ic mid cur tp)
    /\ (forall v t, set_fields code_variant o sch ann fu depth ic mid cur tp = Ok (Some v, t) -> shp mid v = true).
  Proof.
    induction fu as [|fu IH]; intros F depth fdv ic mid cur tp HF H1 H12 Hic Hs; [lia|].
    destruct F as [|F]; [lia|]. assert (HFB : (S (S (fu * 3)) <= F)%nat) by lia.
    cbn [set_fields].
    destruct (shaped_msg _ _ _ Hs) as [slots ->]. destruct (shaped_inv _ _ _ _ Hs) as (_ & md & Hm & Hz & Hlen).
    destruct (get_ann sch ann Hann _ _ Hm) as (ma & Ha & _ & Hfl). pose proof (layout_of sch ann Hann _ _ _ Hm Ha) as Hlay.
    rpL. st.
    replace (10 <? Z.of_nat depth)%Z with (depth_limit <? depth)%nat by (unfold depth_limit; lia).
    destruct (depth_limit <? depth)%nat eqn:Ed; rpL.
    { st. split; [reflexivity|discriminate]. }
    apply Nat.ltb_ge in Ed. unfold depth_limit in Ed.
    assert (Hc : child_sim (fu * 3) (set_fields code_variant o sch ann fu) (S depth)).
    { intros F' d fdv' ic' tm cur' tp' HB Hd' Hic' Hs'. apply IH; try assumption; lia. }
    rewrite Hm, Ha. rewrite ?blk_nil. rpL. st. st. st.
    destruct (a_wkt ma) eqn:Ew.
    - (* an ordinary message *)
      do 4 (rewrite cases_cons; rpL; rewrite Ha, Ew; rpL). rewrite cases_nil.
      st. st. rewrite Hm. rpL. st. rewrite Nat2Z.id.
      match goal with |- context [rp_for ?b "i" _ 0%nat ?en _ _] =>
        destruct (loop_fields (fu * 3) (set_fields code_variant o sch ann fu) depth F mid md ma Hc HFB Hm Ha b en)
          with (cnt := length (m_fields md)) (j := 0%nat) (slots := slots) (tp := tp) as [Hrun Hsh]; [|reflexivity|exact Hs|] end.
      { intros j sl tp0 f fa Ef Efa Hs0. pose proof (nth_error_lt _ _ _ Ef) as Hj.
        st. rewrite Hm. rpL.
        destruct (Z.leb_spec 0 (Z.of_nat j)) as [_|Hx]; [|lia]. destruct (Z.ltb_spec (Z.of_nat j) (Z.of_nat (length (m_fields md)))) as [_|Hx]; [|lia].
        rpL. rewrite Nat2Z.id. st. destruct (draw_bool tp0) as [b t1]. rpL.
        pose proof (run_sfv' o sch ann Hwf Hann Henum Hkeys (fu * 3) (set_fields code_variant o sch ann fu) depth F mid md ma j f fa sl t1 Hc
                    HFB Hm Ha Ef Efa Hs0) as Hsfv.
        assert (Hcall : forall en0, rp_get "opts" en0 = Some RvOpts -> True) by auto. clear Hcall.
        destruct b; cbn [negb andb]; rpL; rewrite ?blk_nil; rpL.
        - st. rewrite Hsfv.
          destruct (set_field_value code_variant o sch ann (set_fields code_variant o sch ann fu) depth md j f fa sl t1) as [[sl' t2]| | |];
            cbn [lift_slots lift_loop]; rpL; rewrite ?blk_nil; reflexivity.
        - st. cbn [rp_fd_kind]. unfold rp_field. rewrite Hm, Ef.
          assert (Hk : msg_kind f = false -> rkind_eqb (rp_kind_of_ty (f_ty f)) RkMessage = false).
          { unfold msg_kind. destruct (f_shape f); destruct (f_ty f); try discriminate; reflexivity. }
          destruct (msg_kind f); rpL; [|rewrite (Hk eq_refl); rpL; rewrite ?blk_nil; rpL].
          + destruct (o_disallow_nil o); rpL; rewrite ?blk_nil; rpL.
            * st. rewrite Hsfv.
              destruct (set_field_value code_variant o sch ann (set_fields code_variant o sch ann fu) depth md j f fa sl t1) as [[sl' t2]| | |];
                cbn [lift_slots lift_loop]; rpL; rewrite ?blk_nil; reflexivity.
            * st. reflexivity.
          + st. rewrite Hsfv.
            destruct (set_field_value code_variant o sch ann (set_fields code_variant o sch ann fu) depth md j f fa sl t1) as [[sl' t2]| | |];
              cbn [lift_slots lift_loop]; rpL; rewrite ?blk_nil; reflexivity. }
      cbn [skipn] in Hrun, Hsh. rewrite Hrun. clear Hrun.
      destruct (fields_loop code_variant o sch ann (set_fields code_variant o sch ann fu) depth md (m_fields md) (a_fields ma) 0 slots tp)
        as [[slots' t1]| | |]; cbn [lift_loop lift_sf]; rpL; try (split; [reflexivity|discriminate]).
      st. split; [reflexivity|intros v t E; injection E as <- _; eapply Hsh; reflexivity].
    - (* Timestamp *)
      rewrite Hlay in Hlen. destruct slots as [|a [|b [|c slots]]]; try discriminate.
      rewrite cases_cons; rpL; rewrite Ha, Ew; rpL. st.
      rewrite (run_ts o sch ann Hann F mid md ma a b tp) by (first [lia|assumption]).
      destruct (draw_z (-9999999999) 9999999999 tp) as [s t1]. destruct (draw_z 0 999999999 t1) as [n t2]. rpL. st.
      split; [reflexivity|intros v t E; injection E as <- _; apply (shaped_scalars mid md); [exact Hm|rewrite Hlay; reflexivity|]].
      rewrite Hlay. repeat constructor; eexists; reflexivity.
    - (* Duration *)
      rewrite Hlay in Hlen. destruct slots as [|a [|b [|c slots]]]; try discriminate.
      do 2 (rewrite cases_cons; rpL; rewrite Ha, Ew; rpL). st.
      rewrite (run_dur o sch ann Hann F mid md ma a b tp) by (first [lia|assumption]).
      destruct (draw_z 0 9223372035 tp) as [s t1]. destruct (draw_z 0 999999999 t1) as [n t2]. rpL. st.
      split; [reflexivity|intros v t E; injection E as <- _; apply (shaped_scalars mid md); [exact Hm|rewrite Hlay; reflexivity|]].
      rewrite Hlay. repeat constructor; eexists; reflexivity.
    - (* Any *)
      do 3 (rewrite cases_cons; rpL; rewrite Ha, Ew; rpL).
      assert (Hfd : fdv = RvNilV \/ exists m i, fdv = RvFd (FdField m i)).
      { destruct fdv; try discriminate; [left; reflexivity|]. destruct fd; try discriminate. right. eauto. }
      destruct (run_genAny o sch ann Hann (fu * 3) (set_fields code_variant o sch ann fu) depth F fdv ic mid md ma (VMsg slots []) tp
                  Hc ltac:(lia) Hic Hm Ha Ew Hs) as [Hrun Hsh].
      cbn [code_variant repaired v_any_container].
      destruct Hfd as [->|(m & i & ->)]; st; rewrite Hrun.
      all: destruct (gen_any code_variant o sch ann (set_fields code_variant o sch ann fu) depth ic tp) as [[[v|] t1]| | |];
        cbn [lift_sf]; rpL; try (split; [reflexivity|discriminate]).
      all: split; [reflexivity|intros v0 t E; injection E as <- _; eapply Hsh; reflexivity].
    - (* FieldMask *)
      rewrite Hlay in Hlen. destruct slots as [|a [|c slots]]; try discriminate.
      do 4 (rewrite cases_cons; rpL; rewrite Ha, Ew; rpL). st.
      rewrite (run_fm o sch ann Hann F mid md ma a tp) by (first [lia|assumption]).
      cbn [code_variant repaired v_fieldmask_stored].
      destruct (draw_n 1 5 tp) as [n t1]. destruct (draw_many draw_path (N.to_nat n) t1) as [paths t2]. rpL. st.
      split; [reflexivity|intros v t E; injection E as <- _].
      eapply shaped_intro; [exact Hm|]. rewrite Hlay. reflexivity.
  Qed.

  (* ---- MessageGenerator ------------------------------------------------------------------------------------------------------------ *)
  Lemma run_generate mid extra tape : (mid < length sch)%nat ->
    rp_generate o sch ann canon_rapidproto (rp_fuel + extra) mid tape = Some (gen code_variant o sch ann mid tape).
  Proof.
    intros Hmid. assert (Hm : exists md, get_msg sch mid = Some md).
    { unfold get_msg. destruct (nth_error sch mid) as [md|] eqn:E; [eexists; reflexivity|apply nth_error_None in E; lia]. }
    destruct Hm as [md Hm].
    assert (HG : (S (12 * 3) <= rp_fuel + extra)%nat) by (unfold rp_fuel, top_fuel; lia).
    generalize dependent (rp_fuel + extra)%nat. intros G HG.
    unfold rp_generate, gen. cbn [code_variant repaired v_root_draw].
    replace (R G "MessageGenerator" [RvMsgT mid; RvOpts] [] tape) with (R (S (pred G)) "MessageGenerator" [RvMsgT mid; RvOpts] [] tape)
      by (f_equal; lia).
    rpL. st. st. rpL. st. st.
    destruct (draw_bool tape) as [b t1]. cbn [snd]. rpL. st.
    change 0%Z with (Z.of_nat 0).
    destruct (run_setFields 12 G 0 RvNilV INoField mid (fresh sch mid) t1 ltac:(lia) ltac:(lia) ltac:(lia) eq_refl (shaped_fresh _ _ _ Hm)) as [Hrun _].
    rewrite Hrun. unfold top_fuel.
    destruct (set_fields code_variant o sch ann 12 0 INoField mid (fresh sch mid) t1) as [[[v|] t2]| | |]; cbn [lift_sf]; rpL; try reflexivity.
    all: st; reflexivity.
  Qed.
End Main.

Theorem rapidprog_correct : rapidprog_stmt.
Proof. intros o sch ann Hwf Hann Henum Hkeys mid extra tape Hmid. apply run_generate; assumption. Qed.


(* the two premises follow from the ones Properties/C18.v already uses for gen_in_range *)
Lemma val_key_refl_wt kk v : legal_key kk = true -> wt_scalar kk v = true -> val_key_eqb v v = true.
Proof.
  intros Hk Hw. destruct kk; try discriminate; destruct v; try discriminate; cbn [val_key_eqb];
    try apply Z.eqb_refl; try apply Bool.eqb_reflx.
  destruct (list_eq_dec Byte.byte_eq_dec l l); congruence.
Qed.
Lemma rp_keys_ok_of o : RapidGenSound.fmap_gen_sound o -> fmap_typed o -> rp_keys_ok o.
Proof.
  intros Hg Ht kk decl p g x Hk Hm. eapply val_key_refl_wt; [exact Hk|]. eapply Ht; [exact Hm|]. eapply Hg. exact Hm.
Qed.
Lemma rp_enums_ok_of sch ann : RapidGenSound.enums_ok sch ann -> rp_enums_ok sch ann.
Proof. intros H mid md ma i f fa Hm Ha Hf Hfa Ht. destruct (H mid md ma i f fa Hm Ha Hf Hfa Ht) as [Hne _]. exact Hne. Qed.

Theorem rapidprog_correct_std : forall o sch ann,
  wf sch = true -> ann_ok sch ann = true -> RapidGenSound.enums_ok sch ann -> RapidGenSound.fmap_gen_sound o -> fmap_typed o ->
  forall mid extra tape, (mid < length sch)%nat ->
    rp_generate o sch ann canon_rapidproto (rp_fuel + extra) mid tape = Some (gen code_variant o sch ann mid tape).
Proof.
  intros o sch ann Hwf Hann Henum Hg Ht. apply rapidprog_correct; try assumption; [apply rp_enums_ok_of|apply rp_keys_ok_of]; assumption.
Qed.

(* hence what the canonical program generates lies in the range of the generator model, and every validity statement of
   Properties/C18.v holds of it *)
Theorem rapidprog_in_range : forall o sch ann,
  wf sch = true -> ann_ok sch ann = true -> NoDup (map a_name ann) -> RapidGenSound.enums_ok sch ann ->
  RapidGenSound.fmap_gen_sound o -> fmap_typed o -> RapidGenSound.fmap_bytes_norm o ->
  forall mid extra tape v, (mid < length sch)%nat ->
    rp_generate o sch ann canon_rapidproto (rp_fuel + extra) mid tape = Some (Ok v) ->
    (N.of_nat (length (emit sch false mid v)) < two63)%N ->
    rapid_in_range code_variant o sch ann mid v = true.
Proof.
  intros o sch ann Hwf Hann Hnd Henum Hg Ht Hb mid extra tape v Hmid Hrun Hsz.
  rewrite (rapidprog_correct_std o sch ann Hwf Hann Henum Hg Ht mid extra tape Hmid) in Hrun. injection Hrun as Hgen.
  eapply RapidGenSound.gen_in_range; eauto.
Qed.

Print Assumptions rapidprog_correct.
Print Assumptions rapidprog_correct_std.
Print Assumptions rapidprog_in_range.
