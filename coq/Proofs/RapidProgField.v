(* Proofs/RapidProgField.v (second of three files) — setFieldValue of the canonical program = RapidGen.set_field_value, shape by
   shape: repeated scalars, repeated messages, maps, singular and oneof-member scalars and messages (Any included). The loops
   `for i := 0; i < n; i++` are proved by induction on the count with the loop body kept abstract ([set (body := …)]). *)
From Coq Require Import Lia ZifyN ZifyNat ZifyBool.
From CP Require Import RapidGen RapidGenProofs RapidProg GoFun RapidProgBase.
From CP Require RoundTrip DecodeTotal.
Local Open Scope gname_scope.

Ltac st := rewrite blk_cons; rpL; rewrite ?blk_nil; rpL.

(* a loop does not look at the environment its body leaves *)
Definition noenv (r : rres rsig) : rres rsig :=
  match r with
  | ROk (SgNext _) st tp | ROk (SgCont _) st tp => ROk (SgNext []) st tp
  | r => r
  end.
Lemma for_step body i k j en st tp :
  rp_for body i (S k) j en st tp =
    match noenv (body (rp_set i (RvInt (Z.of_nat j)) en) st tp) with
    | ROk (SgNext _) st1 tp1 => rp_for body i k (S j) en st1 tp1
    | r => r
    end.
Proof. cbn [rp_for]. destruct (body (rp_set i (RvInt (Z.of_nat j)) en) st tp) as [[e|vs|e] st1 tp1| | | |]; reflexivity. Qed.

Lemma clear_oneof_length fs : forall ss oi, length (clear_oneof fs ss oi) = length ss.
Proof. induction fs as [|f fs IH]; intros [|s ss] oi; cbn [clear_oneof length]; try reflexivity. rewrite IH. reflexivity. Qed.
Lemma clear_oneof_member_nil fs : forall ss oi idx f, nth_error fs idx = Some f -> f_shape f = Member oi ->
  set_nth (clear_oneof fs ss oi) idx VNil = clear_oneof fs ss oi.
Proof.
  induction fs as [|f0 fs IH]; intros [|s ss] oi [|idx] f Hf Hs; cbn [clear_oneof set_nth nth_error] in *; try discriminate; try reflexivity.
  - injection Hf as ->. rewrite Hs, Nat.eqb_refl. reflexivity.
  - f_equal. eapply IH; eauto.
Qed.

Lemma to_nat_of_N n : Z.to_nat (Z.of_N n) = N.to_nat n.
Proof. lia. Qed.

Section FieldSim.
  Variable o : gopts.
  Variable sch : schema.
  Variable ann : annots.
  Hypothesis Hwf : wf sch = true.
  Hypothesis Hann : ann_ok sch ann = true.
  Hypothesis Henum : rp_enums_ok sch ann.
  Hypothesis Hkeys : rp_keys_ok o.
  Notation R := (rp_run o sch ann canon_rapidproto).
  Notation EX := (rp_exec o sch ann canon_rapidproto).
  Notation shp := (shaped sch).
  Notation child_sim := (child_sim o sch ann).

  Definition lift_slots (r : outcome (list val * tape)) : rres (list rval) :=
    match r with
    | Ok (slots', t) => ROk [] [VMsg slots' []] t
    | Err => RErr | Panic => RPanic | OutOfFuel => RFuel
    end.

  Ltac fdcbn := cbn [rp_fd_kind rp_fd_scalar rp_fd_enum rp_kind_of_ty]; unfold rp_field, rp_fannot.

  Lemma scalar_loop_length k decl : forall n l tp, length (fst (scalar_loop code_variant o k decl n l tp)) = (length l + n)%nat.
  Proof.
    induction n as [|n IH]; intros l tp; cbn [scalar_loop fst]; [lia|].
    destruct (gen_scalar code_variant o k decl tp) as [v t1]. rewrite IH, app_length. cbn [length]. lia.
  Qed.

  Section Field.
    Variables (B : nat) (child : child_t) (depth F mid : nat) (md : msgdesc) (ma : mannot) (idx : nat) (f : field) (fa : fannot)
              (slots : list val).
    Hypothesis Hc : child_sim B child (S depth).
    Hypothesis HF : (S B <= F)%nat.          (* the calls of setFieldValue run with fuel F *)
    Hypothesis Hm : get_msg sch mid = Some md.
    Hypothesis Ha : nth_error ann mid = Some ma.
    Hypothesis Hf : nth_error (m_fields md) idx = Some f.
    Hypothesis Hfa : nth_error (a_fields ma) idx = Some fa.
    Hypothesis Hs : shp mid (VMsg slots []) = true.

    Lemma sfv_zip : zip_all (sh_slot shp) (m_fields md) slots = true.
    Proof. destruct (shaped_inv _ _ _ _ Hs) as (_ & md' & Hm' & Hz & _). rewrite Hm in Hm'. injection Hm' as <-. exact Hz. Qed.
    Lemma sfv_idx : (idx < length slots)%nat.
    Proof. rewrite (zip_all_length _ _ _ sfv_zip). eapply nth_error_lt; eauto. Qed.
    Lemma sfv_put x : sh_slot shp f x = true -> shp mid (VMsg (set_nth slots idx x) []) = true.
    Proof. intros Hx. eapply shaped_intro; [exact Hm|]. eapply zip_all_set; eauto. apply sfv_zip. Qed.

    Notation SFV tp := (R (S F) "setFieldValue" [RvOpts; RvT; RvH (rp_root0 (HkMsg mid)); RvFd (FdField mid idx); RvInt (Z.of_nat depth)] [VMsg slots []] tp).
    Notation MODEL tp := (set_field_value code_variant o sch ann child depth md idx f fa slots tp).

    (* ---- repeated scalars ---- *)
    Lemma loop_scalar (body : renv -> rstore -> tape -> rres rsig) EN k :
      (forall j l tp, exists en',
         body (rp_set "i" (RvInt (Z.of_nat j)) EN) [VMsg (set_nth slots idx (VList l)) []] tp =
           let (v, t) := gen_scalar code_variant o k (a_enum fa) tp in
           ROk (SgNext en') [VMsg (set_nth slots idx (VList (l ++ [v]))) []] t) ->
      forall cnt j l tp,
        rp_for body "i" cnt j EN [VMsg (set_nth slots idx (VList l)) []] tp =
          let (l', t) := scalar_loop code_variant o k (a_enum fa) cnt l tp in
          ROk (SgNext EN) [VMsg (set_nth slots idx (VList l')) []] t.
    Proof.
      intros Hb. induction cnt as [|cnt IH]; intros j l tp; cbn [rp_for scalar_loop]; [reflexivity|].
      destruct (Hb j l tp) as [en' ->]. destruct (gen_scalar code_variant o k (a_enum fa) tp) as [v t1]. apply IH.
    Qed.

    Lemma enum_decl k : f_ty f = TScalar k -> k = KEnum -> a_enum fa <> [].
    Proof. intros Ety ->. eapply Henum; eauto. Qed.
    Lemma fd_scalar_field k : f_ty f = TScalar k -> rp_fd_scalar sch ann (FdField mid idx) = Some (k, a_enum fa).
    Proof. intros Ety. cbn [rp_fd_scalar]. unfold rp_field, rp_fannot. rewrite Hm, Hf, Ha, Hfa, Ety. reflexivity. Qed.
    Lemma fd_kind_field_scalar k : f_ty f = TScalar k -> msg_kind f = false -> rp_fd_kind sch (FdField mid idx) = Some (RkScalar k).
    Proof. intros Ety Hk. cbn [rp_fd_kind]. unfold rp_field. rewrite Hm, Hf, Hk, Ety. reflexivity. Qed.
    Lemma HF1 : (1 <= F)%nat.
    Proof. lia. Qed.

    Lemma sfv_rep_scalar packed k tp : f_shape f = Rep packed -> f_ty f = TScalar k ->
      SFV tp = lift_slots (MODEL tp) /\ (forall slots' t, MODEL tp = Ok (slots', t) -> shp mid (VMsg slots' []) = true).
    Proof.
      intros Esh Ety. pose proof sfv_idx as Hidx.
      unfold set_field_value. rewrite Esh, Ety.
      rpL. st. st. fdcbn. rewrite Hm, Hf. unfold msg_kind. rewrite Esh, Ety. rpL.
      st. rewrite cases_cons. rpL. fdcbn. rewrite Hm, Hf, Esh. rpL.
      st. rewrite Hm, Hf, Esh. rpL.
      st. st. unfold min_n.
      destruct (o_no_empty o); [st|]; rewrite ?blk_nil; rpL.
      all: st; zc.
      1: change (draw_z 1 10 tp) with (draw_z (Z.of_N 1) (Z.of_N 10) tp).
      2: change (draw_z 0 10 tp) with (draw_z (Z.of_N 0) (Z.of_N 10) tp).
      all: rewrite draw_z_n by lia.
      1: destruct (draw_n 1 10 tp) as [n t1].
      2: destruct (draw_n 0 10 tp) as [n t1].
      all: rpL; st; rewrite to_nat_of_N.
      all: rewrite (loop_scalar _ _ k);
        [|intros j l tp0; st; st;
          rewrite (run_scalar o sch ann F _ k (a_enum fa)) by
            (first [exact HF1|apply fd_scalar_field; exact Ety|apply fd_kind_field_scalar; [exact Ety|unfold msg_kind; rewrite Esh, Ety; reflexivity]|apply enum_decl; exact Ety]);
          destruct (gen_scalar code_variant o k (a_enum fa) tp0) as [v t0]; rpL;
          repeat (progress (rpL; rewrite ?nth_error_set_nth_same by exact Hidx));
          rewrite RoundTrip.set_nth_twice; eexists; reflexivity].
      all: unfold rp_list_of;
        match goal with |- context [scalar_loop ?a ?b ?c ?d ?e ?g ?h] =>
          pose proof (scalar_loop_length c d e g h) as Hlen; destruct (scalar_loop a b c d e g h) as [l' t2] end;
        cbn [fst] in Hlen; rpL; st;
        (destruct (Z.ltb_spec 0 (Z.of_N n)) as [Hn|Hn]; rpL;
         [rewrite nth_error_set_nth_same by exact Hidx; rpL;
          destruct (Z.eqb_spec (Z.of_nat (length l')) 0) as [Hz|Hz]; [lia|]; rpL|]);
        rewrite ?blk_nil; rpL; cbn [lift_slots];
        (split; [reflexivity|intros s' t' Hv; injection Hv as <- _; apply sfv_put; unfold sh_slot; rewrite Ety; reflexivity]).
    Qed.

    (* ---- repeated messages ---- *)
    Definition all_shaped (tm : nat) (l : list val) : Prop := forallb (shp tm) l = true.
    Lemma all_shaped_app tm l e : all_shaped tm l -> shp tm e = true -> all_shaped tm (l ++ [e]).
    Proof. unfold all_shaped. intros H He. rewrite forallb_app, H. cbn. rewrite He. reflexivity. Qed.

    Lemma ic_field : ic_of ann (RvFd (FdField mid idx)) = Some (IField (a_iface fa)).
    Proof. cbn [ic_of]. unfold rp_fannot. rewrite Ha, Hfa. reflexivity. Qed.
    Lemma HFB : (B <= F)%nat.
    Proof. lia. Qed.

    Lemma loop_msg (body : renv -> rstore -> tape -> rres rsig) EN tm md' : get_msg sch tm = Some md' ->
      (forall j l tp, all_shaped tm l ->
         body (rp_set "i" (RvInt (Z.of_nat j)) EN) [VMsg (set_nth slots idx (VList l)) []] tp =
           match child (S depth) (IField (a_iface fa)) tm (fresh sch tm) tp with
           | Ok (r, t) =>
             ROk (SgNext (rp_set "i" (RvInt (Z.of_nat j)) EN))
                 [VMsg (set_nth slots idx (VList (match r with Some e => l ++ [e] | None => l end))) []] t
           | Err => RErr | Panic => RPanic | OutOfFuel => RFuel
           end) ->
      forall cnt j l tp, all_shaped tm l ->
        rp_for body "i" cnt j EN [VMsg (set_nth slots idx (VList l)) []] tp =
          match list_loop code_variant sch child depth fa tm cnt j l tp with
          | Ok (l', t) => ROk (SgNext EN) [VMsg (set_nth slots idx (VList l')) []] t
          | Err => RErr | Panic => RPanic | OutOfFuel => RFuel
          end
        /\ (forall l' t, list_loop code_variant sch child depth fa tm cnt j l tp = Ok (l', t) -> all_shaped tm l').
    Proof.
      intros Hmd' Hb. induction cnt as [|cnt IH]; intros j l tp Hl; cbn [rp_for list_loop].
      - split; [reflexivity|intros l' t Hv; injection Hv as <- _; exact Hl].
      - rewrite (Hb j l tp Hl).
        destruct (Hc F (S depth) _ _ tm (fresh sch tm) tp HFB (le_n _) ic_field (shaped_fresh _ _ _ Hmd')) as [_ Hsh].
        destruct (child (S depth) (IField (a_iface fa)) tm (fresh sch tm) tp) as [[[e|] t1]| | |];
          try (split; [reflexivity|discriminate]).
        + apply IH. apply all_shaped_app; [exact Hl|]. eapply Hsh. reflexivity.
        + cbn [code_variant repaired v_list_truncate]. apply IH. exact Hl.
    Qed.

    (* min := 0; if opts.NoEmptyLists { min = 1 }; n := rapid.IntRange(min, 10).Draw(…) *)
    Ltac min_if :=
      match goal with |- context [if o_no_empty o then rp_block ?ex [?s] ?en ?st0 ?tp0 else rp_block ?ex [] ?en ?st0 ?tp0] =>
        let Hif := fresh "Hif" in
        assert (Hif : (if o_no_empty o then rp_block ex [s] en st0 tp0 else rp_block ex [] en st0 tp0)
                      = ROk (SgNext (rp_set "min" (RvInt (Z.of_N (min_n o))) en)) st0 tp0)
          by (unfold min_n; destruct (o_no_empty o); [st; reflexivity|rewrite blk_nil; reflexivity]);
        rewrite Hif; clear Hif; rpL
      end.
    Lemma min_n_le : (min_n o <= 10)%N.
    Proof. unfold min_n. destruct (o_no_empty o); lia. Qed.
    Ltac draw_min tp :=
      let Hc10 := fresh "Hc10" in
      destruct (Z.ltb_spec 10 (Z.of_N (min_n o))) as [Hc10|_]; [exfalso; pose proof min_n_le; lia|];
      change (draw_z (Z.of_N (min_n o)) 10 tp) with (draw_z (Z.of_N (min_n o)) (Z.of_N 10) tp);
      rewrite draw_z_n by exact min_n_le.

    Ltac simp Hidx Esh Ety :=
      repeat (progress (rpL; cbn [rp_kind_of_ty]; rewrite ?nth_error_set_nth_same by exact Hidx; unfold rp_field, rp_fannot;
                        rewrite ?Hm, ?Hf, ?Ha, ?Hfa, ?Esh, ?Ety;
                        rewrite ?RoundTrip.set_nth_twice, ?nth_error_app_len, ?set_nth_app_len)).

    Lemma sfv_rep_msg packed tm tp : f_shape f = Rep packed -> f_ty f = TMsg tm ->
      SFV tp = lift_slots (MODEL tp) /\ (forall slots' t, MODEL tp = Ok (slots', t) -> shp mid (VMsg slots' []) = true).
    Proof.
      intros Esh Ety. pose proof sfv_idx as Hidx.
      destruct (field_tm_valid sch ann Hwf _ _ _ _ _ Hm Hf Ety) as [md' Hmd'].
      unfold set_field_value. rewrite Esh, Ety.
      rpL. st. st. fdcbn. rewrite Hm, Hf. unfold msg_kind. rewrite Esh, Ety. rpL.
      st. rewrite cases_cons. rpL. fdcbn. rewrite Hm, Hf, Esh. rpL.
      st. rewrite Hm, Hf, Esh. rpL.
      st. st. min_if. st. draw_min tp. destruct (draw_n (min_n o) 10 tp) as [n t1]. rpL. st. rewrite to_nat_of_N.
      assert (HL : all_shaped tm (rp_list_of (nth idx slots VNil))).
      { pose proof (zip_all_nth _ _ _ idx f (nth idx slots VNil) sfv_zip Hf) as Hz.
        unfold all_shaped, rp_list_of. destruct (nth_error slots idx) as [s0|] eqn:Es0; [|apply nth_error_None in Es0; lia].
        rewrite (nth_nth_error _ _ VNil _ Es0) in *. specialize (Hz eq_refl). unfold sh_slot in Hz. rewrite Ety, Esh in Hz.
        destruct s0; try reflexivity. exact Hz. }
      match goal with |- context [rp_for ?b "i" ?c 0%nat ?en ?st0 t1] =>
        destruct (loop_msg b en tm md' Hmd') with (cnt := c) (j := 0%nat) (l := rp_list_of (nth idx slots VNil)) (tp := t1) as [Hrun Hshl];
          [|exact HL|] end.
      { (* the body *)
        intros j l tp0 Hl. st. st. simp Hidx Esh Ety.
        replace (Z.of_nat depth + 1)%Z with (Z.of_nat (S depth)) by lia.
        destruct (Hc F (S depth) _ _ tm (fresh sch tm) tp0 HFB (le_n _) ic_field (shaped_fresh _ _ _ Hmd')) as [Hrun _].
        rewrite Hrun. destruct (child (S depth) (IField (a_iface fa)) tm (fresh sch tm) tp0) as [[[e|] t2]| | |]; cbn [lift_sf]; simp Hidx Esh Ety;
          try reflexivity.
        st. simp Hidx Esh Ety.
          replace (Z.of_nat (length (l ++ [fresh sch tm])) - 1)%Z with (Z.of_nat (length l)) by (rewrite app_length; cbn [length]; lia).
          destruct (Z.leb_spec 0 (Z.of_nat (length l))) as [_|Hx]; [|lia].
          destruct (Z.leb_spec (Z.of_nat (length l)) (Z.of_nat (length (l ++ [fresh sch tm])))) as [_|Hx]; [|rewrite app_length in Hx; lia].
          simp Hidx Esh Ety. rewrite Nat2Z.id, firstn_app_len. repeat (rewrite blk_nil; rpL). reflexivity. }
      rewrite Hrun. clear Hrun. unfold rp_list_of in *.
      destruct (list_loop code_variant sch child depth fa tm (N.to_nat n) 0 match nth idx slots VNil with VList l => l | _ => [] end t1)
        as [[l' t2]| | |] eqn:El; cbn [lift_slots]; rpL; try (split; [reflexivity|discriminate]).
      specialize (Hshl _ _ eq_refl).
      assert (Hput : forall x, sh_slot shp f x = true -> forall s' t', Ok (set_nth slots idx x, t2) = Ok (s', t') -> shp mid (VMsg s' []) = true).
      { intros x Hx s' t' Hv. injection Hv as <- _. apply sfv_put. exact Hx. }
      st. replace (0 <? Z.of_N n)%Z with (0 <? n)%N by lia. cbn [code_variant repaired v_list_clear andb].
      destruct (0 <? n)%N; simp Hidx Esh Ety.
      - destruct l' as [|e l']; cbn [length is_nilb].
        + simp Hidx Esh Ety. st. simp Hidx Esh Ety. unfold default_slot. rewrite Esh. simp Hidx Esh Ety.
          split; [reflexivity|apply Hput; apply sh_slot_nil].
        + destruct (Z.eqb_spec (Z.of_nat (S (length l'))) 0) as [Hz|_]; [lia|]. simp Hidx Esh Ety. rewrite ?blk_nil. rpL.
          split; [reflexivity|apply Hput; unfold sh_slot; rewrite Ety, Esh; exact Hshl].
      - rewrite ?blk_nil. rpL. split; [reflexivity|apply Hput; unfold sh_slot; rewrite Ety, Esh; exact Hshl].
    Qed.

    (* ---- maps ---- *)
    Lemma map_key_legal kk : f_shape f = MapOf kk -> legal_key kk = true.
    Proof.
      intros Esh. pose proof (RoundTrip.field_wf_shape _ _ _ (field_wf_of sch Hwf _ _ _ _ Hm Hf)) as H. rewrite Esh in H. exact H.
    Qed.
    Lemma key_refl kk tp : legal_key kk = true ->
      val_key_eqb (fst (gen_scalar code_variant o kk [] tp)) (fst (gen_scalar code_variant o kk [] tp)) = true.
    Proof.
      intros Hk.
      assert (Hd : forall t, val_key_eqb (fst (gen_scalar_default code_variant kk [] t)) (fst (gen_scalar_default code_variant kk [] t)) = true).
      { intros t. unfold gen_scalar_default.
        destruct kk; try discriminate;
          repeat match goal with |- context [let (_, _) := ?d in _] => destruct d end; cbn [fst val_key_eqb];
          try apply Z.eqb_refl; try (apply Bool.eqb_reflx).
        match goal with |- context [list_eq_dec ?a ?b ?c] => destruct (list_eq_dec a b c) end; congruence. }
      unfold gen_scalar. destruct (o_fmap o kk []) as [|p g|p g] eqn:Em.
      - apply Hd.
      - destruct (draw tp) as [x t]. cbn [fst]. eapply Hkeys; eauto.
      - destruct (draw_bool tp) as [b t]. destruct b; [|apply Hd]. destruct (draw t) as [x t']. cbn [fst]. eapply Hkeys; eauto.
    Qed.
    Lemma fd_scalar_key kk : f_shape f = MapOf kk -> rp_fd_scalar sch ann (FdKey mid idx) = Some (kk, []).
    Proof. intros Esh. cbn [rp_fd_scalar]. unfold rp_field. rewrite Hm, Hf, Esh. reflexivity. Qed.
    Lemma fd_kind_key kk : f_shape f = MapOf kk -> rp_fd_kind sch (FdKey mid idx) = Some (RkScalar kk).
    Proof. intros Esh. cbn [rp_fd_kind]. unfold rp_field. rewrite Hm, Hf, Esh. reflexivity. Qed.
    Lemma fd_scalar_value k : f_ty f = TScalar k -> rp_fd_scalar sch ann (FdValue mid idx) = Some (k, a_enum fa).
    Proof. intros Ety. cbn [rp_fd_scalar]. unfold rp_field, rp_fannot. rewrite Hm, Hf, Ha, Hfa, Ety. reflexivity. Qed.
    Lemma fd_kind_value k : f_ty f = TScalar k -> rp_fd_kind sch (FdValue mid idx) = Some (RkScalar k).
    Proof. intros Ety. cbn [rp_fd_kind]. unfold rp_field. rewrite Hm, Hf, Ety. reflexivity. Qed.
    Lemma key_not_enum kk : legal_key kk = true -> kk = KEnum -> @nil Z <> [].
    Proof. intros H ->. discriminate H. Qed.

    Lemma loop_map_scalar (body : renv -> rstore -> tape -> rres rsig) EN kk k :
      (forall j kvs tp,
         noenv (body (rp_set "i" (RvInt (Z.of_nat j)) EN) [VMsg (set_nth slots idx (VMap kvs)) []] tp) =
           let (key, t1) := gen_scalar code_variant o kk [] tp in
           let (v, t2) := gen_scalar code_variant o k (a_enum fa) t1 in
           ROk (SgNext []) [VMsg (set_nth slots idx (VMap (map_set kvs key v))) []] t2) ->
      forall cnt j kvs tp,
        rp_for body "i" cnt j EN [VMsg (set_nth slots idx (VMap kvs)) []] tp =
          match map_loop code_variant o sch child depth kk (TScalar k) fa cnt kvs tp with
          | Ok (kvs', t) => ROk (SgNext EN) [VMsg (set_nth slots idx (VMap kvs')) []] t
          | Err => RErr | Panic => RPanic | OutOfFuel => RFuel
          end.
    Proof.
      intros Hb. induction cnt as [|cnt IH]; intros j kvs tp; [reflexivity|]. rewrite for_step. cbn [map_loop].
      rewrite (Hb j kvs tp). destruct (gen_scalar code_variant o kk [] tp) as [key t1].
      destruct (gen_scalar code_variant o k (a_enum fa) t1) as [v t2]. apply IH.
    Qed.

    Lemma sfv_map_scalar kk k tp : f_shape f = MapOf kk -> f_ty f = TScalar k ->
      SFV tp = lift_slots (MODEL tp) /\ (forall slots' t, MODEL tp = Ok (slots', t) -> shp mid (VMsg slots' []) = true).
    Proof.
      intros Esh Ety. pose proof sfv_idx as Hidx. pose proof (map_key_legal _ Esh) as Hlk.
      unfold set_field_value. rewrite Esh, Ety.
      rpL. st. st. fdcbn. rewrite Hm, Hf. unfold msg_kind. rewrite Esh. rpL.
      st. rewrite cases_cons. simp Hidx Esh Ety. rewrite cases_cons. simp Hidx Esh Ety.
      st. simp Hidx Esh Ety. st. zc.
      change (draw_z 0 10 tp) with (draw_z (Z.of_N 0) (Z.of_N 10) tp). rewrite draw_z_n by lia.
      destruct (draw_n 0 10 tp) as [n t1]. rpL. st. rewrite to_nat_of_N.
      rewrite (loop_map_scalar _ _ kk k).
      2:{ intros j kvs tp0. st. simp Hidx Esh Ety. st. simp Hidx Esh Ety. st. fdcbn. simp Hidx Esh Ety. st.
          rewrite (run_scalar o sch ann F _ kk []) by
            (first [exact HF1|apply fd_scalar_key; exact Esh|apply fd_kind_key; exact Esh|apply key_not_enum; exact Hlk]).
          destruct (gen_scalar code_variant o kk [] tp0) as [key t0]. simp Hidx Esh Ety. st. st.
          rewrite (run_scalar o sch ann F _ k (a_enum fa)) by
            (first [exact HF1|apply fd_scalar_value; exact Ety|apply fd_kind_value; exact Ety|apply enum_decl; exact Ety]).
          destruct (gen_scalar code_variant o k (a_enum fa) t0) as [v t2]. rpL. st. simp Hidx Esh Ety.
          reflexivity. }
      unfold rp_map_of.
      destruct (map_loop code_variant o sch child depth kk (TScalar k) fa (N.to_nat n) match nth idx slots VNil with VMap kvs => kvs | _ => [] end t1)
        as [[kvs' t2]| | |]; cbn [lift_slots]; rpL; try (split; [reflexivity|discriminate]).
      rewrite ?blk_nil. rpL. split; [reflexivity|].
      intros s' t' Hv. injection Hv as <- _. apply sfv_put. unfold sh_slot. rewrite Ety. reflexivity.
    Qed.

    Definition vals_shaped (tm : nat) (kvs : list (val * val)) : Prop := forallb (fun kv => shp tm (snd kv)) kvs = true.
    Definition map_target (tm : nat) (kvs : list (val * val)) (key : val) : val :=
      match map_get kvs key with Some v => or_fresh sch tm v | None => fresh sch tm end.
    Lemma vals_shaped_get tm kvs : forall k x, vals_shaped tm kvs -> map_get kvs k = Some x -> shp tm x = true.
    Proof.
      unfold vals_shaped. induction kvs as [|[k' v'] t IH]; intros k x H; cbn [map_get forallb snd] in *; [discriminate|].
      apply andb_prop in H. destruct H as [H1 H2]. destruct (val_key_eqb k' k); intros E; [injection E as <-; exact H1|eapply IH; eauto].
    Qed.
    Lemma vals_shaped_remove tm kvs k : vals_shaped tm kvs -> vals_shaped tm (map_remove kvs k).
    Proof.
      unfold vals_shaped. induction kvs as [|[k' v'] t IH]; intros H; cbn [map_remove forallb snd] in *; [reflexivity|].
      apply andb_prop in H. destruct H as [H1 H2]. destruct (val_key_eqb k' k); [exact H2|]. cbn [forallb snd]. rewrite H1, IH by exact H2. reflexivity.
    Qed.
    Lemma map_target_shaped tm md' kvs key : get_msg sch tm = Some md' -> vals_shaped tm kvs -> shp tm (map_target tm kvs key) = true.
    Proof.
      intros Hmd' Hv. unfold map_target. destruct (map_get kvs key) as [v|] eqn:E; [|eapply shaped_fresh; eauto].
      eapply shaped_or_fresh; [exact Hmd'|]. intros a b _. eapply vals_shaped_get; eauto.
    Qed.

    Lemma loop_map_msg (body : renv -> rstore -> tape -> rres rsig) EN kk tm md' : get_msg sch tm = Some md' ->
      (forall j kvs tp, vals_shaped tm kvs ->
         noenv (body (rp_set "i" (RvInt (Z.of_nat j)) EN) [VMsg (set_nth slots idx (VMap kvs)) []] tp) =
           let (key, t1) := gen_scalar code_variant o kk [] tp in
           match child (S depth) (IField (a_iface fa)) tm (map_target tm kvs key) t1 with
           | Ok (r, t2) =>
             ROk (SgNext []) [VMsg (set_nth slots idx (VMap (match r with Some v => map_set kvs key v | None => map_remove kvs key end))) []] t2
           | Err => RErr | Panic => RPanic | OutOfFuel => RFuel
           end) ->
      forall cnt j kvs tp, vals_shaped tm kvs ->
        rp_for body "i" cnt j EN [VMsg (set_nth slots idx (VMap kvs)) []] tp =
          match map_loop code_variant o sch child depth kk (TMsg tm) fa cnt kvs tp with
          | Ok (kvs', t) => ROk (SgNext EN) [VMsg (set_nth slots idx (VMap kvs')) []] t
          | Err => RErr | Panic => RPanic | OutOfFuel => RFuel
          end
        /\ (forall kvs' t, map_loop code_variant o sch child depth kk (TMsg tm) fa cnt kvs tp = Ok (kvs', t) -> vals_shaped tm kvs').
    Proof.
      intros Hmd' Hb. induction cnt as [|cnt IH]; intros j kvs tp Hv.
      - split; [reflexivity|intros kvs' t E; injection E as <- _; exact Hv].
      - rewrite for_step. cbn [map_loop]. rewrite (Hb j kvs tp Hv). destruct (gen_scalar code_variant o kk [] tp) as [key t1].
        fold (map_target tm kvs key).
        destruct (Hc F (S depth) _ _ tm (map_target tm kvs key) t1 HFB (le_n _) ic_field (map_target_shaped _ _ _ _ Hmd' Hv)) as [_ Hsh].
        destruct (child (S depth) (IField (a_iface fa)) tm (map_target tm kvs key) t1) as [[[v|] t2]| | |];
          try (split; [reflexivity|discriminate]).
        + apply IH. apply DecodeTotal.map_set_forall; [exact Hv|]. cbn [snd]. eapply Hsh. reflexivity.
        + apply IH. apply vals_shaped_remove. exact Hv.
    Qed.

    Lemma sfv_map_msg kk tm tp : f_shape f = MapOf kk -> f_ty f = TMsg tm ->
      SFV tp = lift_slots (MODEL tp) /\ (forall slots' t, MODEL tp = Ok (slots', t) -> shp mid (VMsg slots' []) = true).
    Proof.
      intros Esh Ety. pose proof sfv_idx as Hidx. pose proof (map_key_legal _ Esh) as Hlk.
      destruct (field_tm_valid sch ann Hwf _ _ _ _ _ Hm Hf Ety) as [md' Hmd'].
      unfold set_field_value. rewrite Esh, Ety.
      rpL. st. st. fdcbn. rewrite Hm, Hf. unfold msg_kind. rewrite Esh. rpL.
      st. rewrite cases_cons. simp Hidx Esh Ety. rewrite cases_cons. simp Hidx Esh Ety.
      st. simp Hidx Esh Ety. st. zc.
      change (draw_z 0 10 tp) with (draw_z (Z.of_N 0) (Z.of_N 10) tp). rewrite draw_z_n by lia.
      destruct (draw_n 0 10 tp) as [n t1]. rpL. st. rewrite to_nat_of_N.
      assert (HV : vals_shaped tm (rp_map_of (nth idx slots VNil))).
      { pose proof (zip_all_nth _ _ _ idx f (nth idx slots VNil) sfv_zip Hf) as Hz.
        unfold vals_shaped, rp_map_of. destruct (nth_error slots idx) as [s0|] eqn:Es0; [|apply nth_error_None in Es0; lia].
        rewrite (nth_nth_error _ _ VNil _ Es0) in *. specialize (Hz eq_refl). unfold sh_slot in Hz. rewrite Ety, Esh in Hz.
        destruct s0; try reflexivity. exact Hz. }
      match goal with |- context [rp_for ?b "i" ?c 0%nat ?en ?st0 t1] =>
        destruct (loop_map_msg b en kk tm md' Hmd') with (cnt := c) (j := 0%nat) (kvs := rp_map_of (nth idx slots VNil)) (tp := t1) as [Hrun Hshl];
          [|exact HV|] end.
      { intros j kvs tp0 Hv. st. simp Hidx Esh Ety. st. simp Hidx Esh Ety. st. fdcbn. simp Hidx Esh Ety. st.
        rewrite (run_scalar o sch ann F _ kk []) by
          (first [exact HF1|apply fd_scalar_key; exact Esh|apply fd_kind_key; exact Esh|apply key_not_enum; exact Hlk]).
        pose proof (key_refl kk tp0 Hlk) as Hkr.
        destruct (gen_scalar code_variant o kk [] tp0) as [key t0]. cbn [fst] in Hkr. simp Hidx Esh Ety. st. st. simp Hidx Esh Ety.
        rewrite (map_get_set _ Hkr). simp Hidx Esh Ety.
        replace (Z.of_nat depth + 1)%Z with (Z.of_nat (S depth)) by lia. fold (map_target tm kvs key).
        destruct (Hc F (S depth) _ _ tm (map_target tm kvs key) t0 HFB (le_n _) ic_field (map_target_shaped _ _ _ _ Hmd' Hv)) as [Hrun _].
        rewrite Hrun. destruct (child (S depth) (IField (a_iface fa)) tm (map_target tm kvs key) t0) as [[[v|] t2]| | |]; cbn [lift_sf];
          simp Hidx Esh Ety; rewrite ?(map_get_set _ Hkr); simp Hidx Esh Ety; rewrite ?(map_set_set _ Hkr); try reflexivity.
        st. simp Hidx Esh Ety. rewrite (map_remove_set _ Hkr). reflexivity. }
      rewrite Hrun. clear Hrun. unfold rp_map_of in *.
      destruct (map_loop code_variant o sch child depth kk (TMsg tm) fa (N.to_nat n) match nth idx slots VNil with VMap kvs => kvs | _ => [] end t1)
        as [[kvs' t2]| | |] eqn:El; cbn [lift_slots]; rpL; try (split; [reflexivity|discriminate]).
      rewrite ?blk_nil. rpL. split; [reflexivity|].
      intros s' t' Hv. injection Hv as <- _. apply sfv_put. unfold sh_slot. rewrite Ety, Esh. exact (Hshl _ _ eq_refl).
    Qed.

    (* ---- singular fields and oneof members ---- *)
    Lemma sfv_put_cleared oi x : sh_slot shp f x = true -> shp mid (VMsg (set_nth (clear_oneof (m_fields md) slots oi) idx x) []) = true.
    Proof.
      intros Hx. eapply shaped_intro; [exact Hm|]. eapply zip_all_set; eauto. apply zip_all_clear; [apply sh_slot_nil|apply sfv_zip].
    Qed.
    Lemma not_map_kind : (forall kk, f_shape f <> MapOf kk) -> forall k, f_ty f = TScalar k -> msg_kind f = false.
    Proof. intros Hn k Ety. unfold msg_kind. rewrite Ety. destruct (f_shape f) eqn:E; try reflexivity. exfalso. eapply Hn. reflexivity. Qed.

    Ltac to_default Hidx Esh Ety :=
      rpL; st; st; fdcbn; rewrite Hm, Hf; unfold msg_kind; rewrite Esh, Ety; rpL;
      st; rewrite cases_cons; simp Hidx Esh Ety; rewrite cases_cons; simp Hidx Esh Ety.

    Lemma sfv_sing_scalar k tp : f_shape f = Singular -> f_ty f = TScalar k ->
      SFV tp = lift_slots (MODEL tp) /\ (forall slots' t, MODEL tp = Ok (slots', t) -> shp mid (VMsg slots' []) = true).
    Proof.
      intros Esh Ety. pose proof sfv_idx as Hidx.
      unfold set_field_value. rewrite Esh, Ety. to_default Hidx Esh Ety.
      rewrite cases_cons. simp Hidx Esh Ety. rewrite cases_cons. simp Hidx Esh Ety. rewrite cases_nil. st.
      rewrite (run_scalar o sch ann F _ k (a_enum fa)) by
        (first [exact HF1|apply fd_scalar_field; exact Ety|apply fd_kind_field_scalar; [exact Ety|unfold msg_kind; rewrite Esh, Ety; reflexivity]|apply enum_decl; exact Ety]).
      destruct (gen_scalar code_variant o k (a_enum fa) tp) as [v t1]. simp Hidx Esh Ety. rewrite ?blk_nil. rpL.
      split; [reflexivity|intros s' t' Hv; injection Hv as <- _; apply sfv_put; unfold sh_slot; rewrite Ety; reflexivity].
    Qed.

    Lemma sfv_mem_scalar oi k tp : f_shape f = Member oi -> f_ty f = TScalar k ->
      SFV tp = lift_slots (MODEL tp) /\ (forall slots' t, MODEL tp = Ok (slots', t) -> shp mid (VMsg slots' []) = true).
    Proof.
      intros Esh Ety. pose proof sfv_idx as Hidx.
      unfold set_field_value. rewrite Esh, Ety. to_default Hidx Esh Ety.
      rewrite cases_cons. simp Hidx Esh Ety. rewrite cases_cons. simp Hidx Esh Ety. rewrite cases_nil. st.
      rewrite (run_scalar o sch ann F _ k (a_enum fa)) by
        (first [exact HF1|apply fd_scalar_field; exact Ety|apply fd_kind_field_scalar; [exact Ety|unfold msg_kind; rewrite Esh, Ety; reflexivity]|apply enum_decl; exact Ety]).
      destruct (gen_scalar code_variant o k (a_enum fa) tp) as [v t1]. simp Hidx Esh Ety. rewrite ?blk_nil. rpL.
      split; [reflexivity|intros s' t' Hv; injection Hv as <- _; apply sfv_put_cleared; unfold sh_slot; rewrite Ety; reflexivity].
    Qed.

    Lemma child_sim_mono d0 d1 : (d0 <= d1)%nat -> child_sim B child d0 -> child_sim B child d1.
    Proof. intros Hd H F0 d fdv ic tm cur tp HB Hd1. apply H; [exact HB|lia]. Qed.

    Lemma sfv_sing_msg tm tp : f_shape f = Singular -> f_ty f = TMsg tm ->
      SFV tp = lift_slots (MODEL tp) /\ (forall slots' t, MODEL tp = Ok (slots', t) -> shp mid (VMsg slots' []) = true).
    Proof.
      intros Esh Ety. pose proof sfv_idx as Hidx.
      destruct (field_tm_valid sch ann Hwf _ _ _ _ _ Hm Hf Ety) as [md' Hmd'].
      destruct (get_ann sch ann Hann _ _ Hmd') as (ma' & Hma' & _ & _).
      set (s := nth idx slots VNil).
      assert (Hcur : shp tm (or_fresh sch tm s) = true).
      { eapply shaped_or_fresh; [exact Hmd'|]. intros a b Es.
        pose proof (zip_all_nth _ _ _ idx f s sfv_zip Hf) as Hz. subst s.
        destruct (nth_error slots idx) as [s0|] eqn:Es0; [|apply nth_error_None in Es0; lia].
        rewrite (nth_nth_error _ _ VNil _ Es0) in *. specialize (Hz eq_refl). unfold sh_slot in Hz. rewrite Ety, Esh, Es in Hz.
        rewrite Es. exact Hz. }
      assert (Hput : forall v (t1 : tape), shp tm v = true -> forall (s' : list val) (t' : tape), Ok (set_nth slots idx v, t1) = Ok (s', t') -> shp mid (VMsg s' []) = true).
      { intros v t1 Hv s' t' E. injection E as <- _. apply sfv_put. unfold sh_slot. rewrite Ety, Esh.
        destruct (shaped_msg _ _ _ Hv) as [sl ->]. exact Hv. }
      assert (Hnil : forall (t1 : tape) (s' : list val) (t' : tape), Ok (set_nth slots idx VNil, t1) = Ok (s', t') -> shp mid (VMsg s' []) = true).
      { intros t1 s' t' E. injection E as <- _. apply sfv_put. apply sh_slot_nil. }
      unfold set_field_value. rewrite Esh, Ety. fold s. to_default Hidx Esh Ety.
      rewrite cases_cons. simp Hidx Esh Ety. st. simp Hidx Esh Ety. fold s. st. rewrite Hma'. simp Hidx Esh Ety.
      unfold is_any, wkt_of. rewrite Hma'.
      replace (Z.of_nat depth + 1)%Z with (Z.of_nat (S depth)) by lia.
      destruct (a_wkt ma') eqn:Ew; simp Hidx Esh Ety; st; simp Hidx Esh Ety;
        replace (Z.of_nat depth + 1)%Z with (Z.of_nat (S depth)) by lia.
      4:{ (* Any *)
        destruct (run_genAny o sch ann Hann B child (S depth) F _ _ tm md' ma' _ tp
                    (child_sim_mono _ _ (le_S _ _ (le_n _)) Hc) HF ic_field Hmd' Hma' Ew Hcur) as [Hrun Hsh].
        rewrite Hrun. destruct (gen_any code_variant o sch ann child (S depth) (IField (a_iface fa)) tp) as [[[v|] t1]| | |];
          cbn [lift_sf lift_slots]; simp Hidx Esh Ety; try (split; [reflexivity|discriminate]).
        - rewrite ?blk_nil. rpL. split; [reflexivity|apply Hput; eapply Hsh; reflexivity].
        - st. simp Hidx Esh Ety. unfold default_slot. rewrite Esh, Ety. rewrite ?blk_nil. rpL. split; [reflexivity|apply Hnil]. }
      all: destruct (Hc F (S depth) _ _ tm (or_fresh sch tm s) tp HFB (le_n _) ic_field Hcur) as [Hrun Hsh];
        rewrite Hrun; destruct (child (S depth) (IField (a_iface fa)) tm (or_fresh sch tm s) tp) as [[[v|] t1]| | |];
          cbn [lift_sf lift_slots]; simp Hidx Esh Ety; try (split; [reflexivity|discriminate]);
        [ rewrite ?blk_nil; rpL; split; [reflexivity|apply Hput; eapply Hsh; reflexivity]
        | st; simp Hidx Esh Ety; unfold default_slot; rewrite Esh, Ety; rewrite ?blk_nil; rpL; split; [reflexivity|apply Hnil] ].
    Qed.

    Lemma sfv_mem_msg oi tm tp : f_shape f = Member oi -> f_ty f = TMsg tm ->
      SFV tp = lift_slots (MODEL tp) /\ (forall slots' t, MODEL tp = Ok (slots', t) -> shp mid (VMsg slots' []) = true).
    Proof.
      intros Esh Ety. pose proof sfv_idx as Hidx0.
      assert (Hidx : (idx < length (clear_oneof (m_fields md) slots oi))%nat) by (rewrite clear_oneof_length; exact Hidx0).
      destruct (field_tm_valid sch ann Hwf _ _ _ _ _ Hm Hf Ety) as [md' Hmd'].
      destruct (get_ann sch ann Hann _ _ Hmd') as (ma' & Hma' & _ & _).
      set (s := nth idx slots VNil).
      set (target := match s with VSome p => or_fresh sch tm p | _ => fresh sch tm end).
      assert (Hcur : shp tm target = true).
      { subst target. pose proof (zip_all_nth _ _ _ idx f s sfv_zip Hf) as Hz. subst s.
        destruct (nth_error slots idx) as [s0|] eqn:Es0; [|apply nth_error_None in Es0; lia].
        rewrite (nth_nth_error _ _ VNil _ Es0) in *. specialize (Hz eq_refl). unfold sh_slot in Hz. rewrite Ety, Esh in Hz.
        destruct s0; try (eapply shaped_fresh; exact Hmd'). eapply shaped_or_fresh; [exact Hmd'|]. intros a b ->. exact Hz. }
      assert (Hput : forall v (t1 : tape), shp tm v = true -> forall (s' : list val) (t' : tape),
                 Ok (set_nth (clear_oneof (m_fields md) slots oi) idx (VSome v), t1) = Ok (s', t') -> shp mid (VMsg s' []) = true).
      { intros v t1 Hv s' t' E. injection E as <- _. apply sfv_put_cleared. unfold sh_slot. rewrite Ety, Esh.
        destruct (shaped_msg _ _ _ Hv) as [sl ->]. exact Hv. }
      assert (Hnil : forall (t1 : tape) (s' : list val) (t' : tape),
                 Ok (clear_oneof (m_fields md) slots oi, t1) = Ok (s', t') -> shp mid (VMsg s' []) = true).
      { intros t1 s' t' E. injection E as <- _. eapply shaped_intro; [exact Hm|]. apply zip_all_clear; [apply sh_slot_nil|apply sfv_zip]. }
      unfold set_field_value. rewrite Esh, Ety. fold s. fold target. to_default Hidx Esh Ety.
      rewrite cases_cons. simp Hidx Esh Ety. st. simp Hidx Esh Ety. fold s. fold target. st. rewrite Hma'. simp Hidx Esh Ety.
      unfold is_any, wkt_of. rewrite Hma'.
      replace (Z.of_nat depth + 1)%Z with (Z.of_nat (S depth)) by lia.
      destruct (a_wkt ma') eqn:Ew; simp Hidx Esh Ety; st; simp Hidx Esh Ety;
        replace (Z.of_nat depth + 1)%Z with (Z.of_nat (S depth)) by lia.
      4:{ (* Any *)
        destruct (run_genAny o sch ann Hann B child (S depth) F _ _ tm md' ma' _ tp
                    (child_sim_mono _ _ (le_S _ _ (le_n _)) Hc) HF ic_field Hmd' Hma' Ew Hcur) as [Hrun Hsh].
        rewrite Hrun. destruct (gen_any code_variant o sch ann child (S depth) (IField (a_iface fa)) tp) as [[[v|] t1]| | |];
          cbn [lift_sf lift_slots]; simp Hidx Esh Ety; try (split; [reflexivity|discriminate]).
        - rewrite ?blk_nil. rpL. split; [reflexivity|apply Hput; eapply Hsh; reflexivity].
        - st. simp Hidx Esh Ety. unfold default_slot. rewrite Esh. rewrite (clear_oneof_member_nil _ _ _ _ _ Hf Esh).
          rewrite ?blk_nil. rpL. split; [reflexivity|apply Hnil]. }
      all: destruct (Hc F (S depth) _ _ tm target tp HFB (le_n _) ic_field Hcur) as [Hrun Hsh];
        rewrite Hrun; destruct (child (S depth) (IField (a_iface fa)) tm target tp) as [[[v|] t1]| | |];
          cbn [lift_sf lift_slots]; simp Hidx Esh Ety; try (split; [reflexivity|discriminate]);
        [ rewrite ?blk_nil; rpL; split; [reflexivity|apply Hput; eapply Hsh; reflexivity]
        | st; simp Hidx Esh Ety; unfold default_slot; rewrite Esh; rewrite (clear_oneof_member_nil _ _ _ _ _ Hf Esh);
          rewrite ?blk_nil; rpL; split; [reflexivity|apply Hnil] ].
    Qed.

    (* ---- setFieldValue, all shapes ---- *)
    Lemma run_sfv tp :
      SFV tp = lift_slots (MODEL tp) /\ (forall slots' t, MODEL tp = Ok (slots', t) -> shp mid (VMsg slots' []) = true).
    Proof.
      destruct (f_shape f) as [|packed|oi|kk] eqn:Esh; destruct (f_ty f) as [k|tm] eqn:Ety.
      - eapply sfv_sing_scalar; eauto.
      - eapply sfv_sing_msg; eauto.
      - eapply sfv_rep_scalar; eauto.
      - eapply sfv_rep_msg; eauto.
      - eapply sfv_mem_scalar; eauto.
      - eapply sfv_mem_msg; eauto.
      - eapply sfv_map_scalar; eauto.
      - eapply sfv_map_msg; eauto.
    Qed.
  End Field.

  (* the same with the fuel of the call itself *)
  Lemma run_sfv' B child depth F mid md ma idx f fa slots tp :
    child_sim B child (S depth) -> (S (S B) <= F)%nat ->
    get_msg sch mid = Some md -> nth_error ann mid = Some ma -> nth_error (m_fields md) idx = Some f -> nth_error (a_fields ma) idx = Some fa ->
    shp mid (VMsg slots []) = true ->
    R F "setFieldValue" [RvOpts; RvT; RvH (rp_root0 (HkMsg mid)); RvFd (FdField mid idx); RvInt (Z.of_nat depth)] [VMsg slots []] tp
      = lift_slots (set_field_value code_variant o sch ann child depth md idx f fa slots tp).
  Proof.
    intros Hc HF Hm Ha Hf Hfa Hs. destruct F as [|F]; [lia|]. eapply run_sfv; eauto. lia.
  Qed.
End FieldSim.
