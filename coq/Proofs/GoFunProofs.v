(* Proofs/GoFunProofs.v — the canonical programs of Model/GoFun.v (runtime.go, timepb/cmp.go transcribed) compute the
   hand-written models Runtime.v / TimePb.v: one lemma <name>_correct per target statement <name>_stmt (task T12).

   Method: symbolic execution of the interpreter by [cbn] restricted to the interpreter's own functions ([gocbn]); machine
   arithmetic ([ity_norm], [const_to], Z operations) is never unfolded: closed instances are evaluated by [nc], the others
   are rewritten with the lemmas of the first section. Loops are handled through named copies of the interpreter's inner
   fixpoints ([for_loop], convertible with them). *)
From Coq Require Import Lia ZifyN ZifyNat ZifyBool.
From CP Require Import Bytes Runtime TimePb GoFun BytesLemmas RuntimeProofs TimePbProofs.
From CP Require UnmarshalProgProofs.
Ltac Zify.zify_post_hook ::= Z.div_mod_to_equations.
Local Open Scope Z_scope.

(* ---------------------------------------------------------------- machine arithmetic *)
Lemma norm_int z : ity_norm TInt z = wrap64 z.
Proof.
  unfold ity_norm. cbn [ity_mod ity_signed]. rewrite wrap64_arith. unfold two63, two64.
  change (18446744073709551616 / 2) with 9223372036854775808.
  destruct (Z.ltb_spec (z mod 18446744073709551616) 9223372036854775808); lia.
Qed.
Lemma norm_int64 z : ity_norm TInt64 z = wrap64 z.
Proof. exact (norm_int z). Qed.
Lemma norm_int32 z : ity_norm TInt32 z = wrap32 z.
Proof.
  unfold ity_norm. cbn [ity_mod ity_signed]. rewrite wrap32_arith.
  change (4294967296 / 2) with 2147483648.
  destruct (Z.ltb_spec (z mod 4294967296) 2147483648); lia.
Qed.
Lemma norm_uint64 z : ity_norm TUint64 z = z mod 18446744073709551616.
Proof. reflexivity. Qed.
Lemma norm_uint z : ity_norm TUint z = z mod 18446744073709551616.
Proof. reflexivity. Qed.
Lemma norm_uint8 z : ity_norm TUint8 z = z mod 256.
Proof. reflexivity. Qed.

Lemma wrap64_id' z : - 9223372036854775808 <= z < 9223372036854775808 -> wrap64 z = z.
Proof. intro H. apply wrap64_id. unfold int64, two63. lia. Qed.
Lemma wrap64_range z : - 9223372036854775808 <= wrap64 z < 9223372036854775808.
Proof. rewrite wrap64_arith. unfold two63, two64. lia. Qed.
Lemma wrap32_range z : - 2147483648 <= wrap32 z < 2147483648.
Proof. rewrite wrap32_arith. lia. Qed.

Lemma in_int_iff z : in_ity TInt z <-> - 9223372036854775808 <= z < 9223372036854775808.
Proof.
  unfold in_ity, ity_in. rewrite norm_int. split; intro H.
  - apply Z.eqb_eq in H. rewrite H. apply wrap64_range.
  - apply Z.eqb_eq. symmetry. apply wrap64_id'. exact H.
Qed.
Lemma in_int64_iff z : in_ity TInt64 z <-> - 9223372036854775808 <= z < 9223372036854775808.
Proof. exact (in_int_iff z). Qed.
Lemma in_int32_iff z : in_ity TInt32 z <-> - 2147483648 <= z < 2147483648.
Proof.
  unfold in_ity, ity_in. rewrite norm_int32. split; intro H.
  - apply Z.eqb_eq in H. rewrite H. apply wrap32_range.
  - apply Z.eqb_eq. symmetry. apply wrap32_id. exact H.
Qed.
Lemma in_uint8_iff z : in_ity TUint8 z <-> 0 <= z < 256.
Proof.
  unfold in_ity, ity_in. rewrite norm_uint8. split; intro H.
  - apply Z.eqb_eq in H. lia.
  - apply Z.eqb_eq. lia.
Qed.

Lemma ofN_lor a b : Z.of_N (N.lor a b) = Z.lor (Z.of_N a) (Z.of_N b).
Proof. destruct a, b; reflexivity. Qed.
Lemma ofN_land a b : Z.of_N (N.land a b) = Z.land (Z.of_N a) (Z.of_N b).
Proof. destruct a, b; reflexivity. Qed.
Lemma ofN_lxor a b : Z.of_N (N.lxor a b) = Z.lxor (Z.of_N a) (Z.of_N b).
Proof. destruct a, b; reflexivity. Qed.
Lemma ofN_shiftl a n : Z.of_N (N.shiftl a n) = Z.shiftl (Z.of_N a) (Z.of_N n).
Proof. rewrite N.shiftl_mul_pow2, Z.shiftl_mul_pow2 by lia. rewrite N2Z.inj_mul, N2Z.inj_pow. reflexivity. Qed.
Lemma ofN_shiftr a n : Z.of_N (N.shiftr a n) = Z.shiftr (Z.of_N a) (Z.of_N n).
Proof. rewrite N.shiftr_div_pow2, Z.shiftr_div_pow2 by lia. rewrite N2Z.inj_div, N2Z.inj_pow. reflexivity. Qed.

(* ---------------------------------------------------------------- symbolic execution *)
Ltac gocbn := cbn [go_eval go_evals go_exec go_block go_exec_atom go_bind go_lift go_leave go_restore
  lval_read lval_write lval_index op_assign go_get go_set str_eq gf_bytes_eqb gname_bytes Byte.eqb Byte.to_bits Bool.eqb andb orb negb
  find_fun bind_params bind_results coerce_results final_params named_results coerce definable assignable go_zero named_underlying
  bin_op shift_op shl_z shr_z un_op conv int_arith const_arith is_cmp go_cmp ity_eqb ity_code ity_bits Nat.eqb is_nil_like go_field index_z
  has_bytes has_const existsb lib_const lib_call lib_method ts_of_fields ts_fields fst snd length skipn Nat.sub app map
  fn_name fn_params fn_results fn_body pg_funs pg_globals
  canon_runtime canon_Sov canon_Soz canon_EncodeVarint canon_Skip canon_SizeInputToOptions canon_MarshalInputToOptions
  canon_UnmarshalInputToOptions marshal_options_lit
  canon_timepb canon_IsZero canon_Compare canon_DurationIsNegative canon_AddStd canon_overflowPanic canon_Add
  u64v intv ts_ptr secs nanos].

Ltac is_pos p := lazymatch p with xH => idtac | xO ?q => is_pos q | xI ?q => is_pos q end.
Ltac is_zc z := lazymatch z with Z0 => idtac | Zpos ?p => is_pos p | Zneg ?p => is_pos p
  | Z.opp ?a => is_zc a | Z.shiftl ?a ?b => is_zc a; is_zc b | Z.shiftr ?a ?b => is_zc a; is_zc b
  | Z.add ?a ?b => is_zc a; is_zc b | Z.sub ?a ?b => is_zc a; is_zc b | Z.mul ?a ?b => is_zc a; is_zc b end.
Ltac is_ity t := lazymatch t with TInt => idtac | TInt8 => idtac | TInt16 => idtac | TInt32 => idtac | TInt64 => idtac
  | TUint => idtac | TUint8 => idtac | TUint16 => idtac | TUint32 => idtac | TUint64 => idtac end.
(* closed instances of the arithmetic side conditions *)
Ltac nc := repeat match goal with
  | |- context [const_to ?t ?z] => is_ity t; is_zc z; let v := eval vm_compute in (const_to t z) in change (const_to t z) with v
  | |- context [ity_in ?t ?z] => is_ity t; is_zc z; let v := eval vm_compute in (ity_in t z) in change (ity_in t z) with v
  | |- context [Z.eqb ?a ?b] => is_zc a; is_zc b; let v := eval vm_compute in (Z.eqb a b) in change (Z.eqb a b) with v
  | |- context [Z.leb ?a ?b] => is_zc a; is_zc b; let v := eval vm_compute in (Z.leb a b) in change (Z.leb a b) with v
  | |- context [Z.ltb ?a ?b] => is_zc a; is_zc b; let v := eval vm_compute in (Z.ltb a b) in change (Z.ltb a b) with v
  end.
Ltac go := repeat (gocbn; progress nc); gocbn.

Lemma go_run_S p genv lf d f args :
  go_run p genv lf (S d) f args =
    match find_fun (pg_funs p) f with
    | None => GStuck
    | Some fd =>
      match bind_params (fn_params fd) args, bind_results (fn_results fd) with
      | Some pen, Some ren =>
        let np := List.length (fn_params fd) in
        match go_block genv (go_run p genv lf d) lf (fn_body fd) (ren ++ pen) with
        | SrRet vs en' =>
          let vs' := match vs with
                     | [] => named_results (fn_results fd) en'
                     | _ => Some vs
                     end in
          match vs' with
          | Some l => match coerce_results (fn_results fd) l with Some rets => GOk rets (final_params np en') | None => GStuck end
          | None => GStuck
          end
        | SrNext en' => match fn_results fd with [] => GOk [] (final_params np en') | _ => GStuck end
        | SrBreak _ | SrCont _ => GStuck
        | SrPanic => GPanic
        | SrFuel => GFuel
        | SrStuck => GStuck
        end
      | _, _ => GStuck
      end
    end.
Proof. reflexivity. Qed.

(* enter the function: [run_fun p lf (k + dp) f args] with k a literal *)
Ltac enter := unfold run_fun; cbn [Nat.add]; rewrite go_run_S; cbv zeta.

(* ================================================================ runtime.go *)
Lemma len64_lor1_small x : (x < two64)%N -> (1 <= len64 (N.lor x 1) <= 64)%N.
Proof.
  intro Hx. pose proof (lor_1_bounds x) as [Hlo Hhi].
  assert (Hb : (N.lor x 1 < two64)%N).
  { destruct (N.eq_dec x (two64 - 1)) as [->|Hne]; [vm_compute; reflexivity|]. unfold two64 in *. lia. }
  split; [|apply len64_le_64; exact Hb].
  unfold len64. destruct (N.eqb_spec (N.lor x 1) 0) as [E|_]; [|lia].
  apply N.lor_eq_0_iff in E. destruct E; discriminate.
Qed.

Lemma sov_prog_correct : sov_prog_stmt.
Proof.
  intros x lf dp Hx. enter. go.
  change 1 with (Z.of_N 1). rewrite <- ofN_lor, N2Z.id.
  pose proof (len64_lor1_small x Hx) as Hl. unfold Sov.
  set (L := len64 (N.lor x 1)) in *.
  rewrite !norm_int. rewrite (wrap64_id' (Z.of_N L + 6)) by lia.
  replace ((Z.of_N L + 6) ÷ 7) with (Z.of_N ((L + 6) / 7)).
  - rewrite wrap64_id' by (assert ((L + 6) / 7 <= 10)%N by (apply N.div_le_upper_bound; lia); lia). reflexivity.
  - rewrite N2Z.inj_div. rewrite Z.quot_div_nonneg by lia. f_equal. lia.
Qed.
Lemma zigzag_go x : (x < two64)%N ->
  Z.lxor (ity_norm TUint64 (shl_z 64 (Z.of_N x) 1)) (ity_norm TUint64 (shr_z 64 (ity_norm TInt64 (Z.of_N x)) 63))
  = Z.of_N (zigzag64 x).
Proof.
  intro Hx. unfold zigzag64, shl_z, shr_z. nc. cbv iota.
  rewrite ofN_lxor. f_equal.
  - rewrite norm_uint64. unfold u64. rewrite N2Z.inj_mod, ofN_shiftl. reflexivity.
  - rewrite norm_int64. unfold u64. rewrite N.mod_small by exact Hx.
    rewrite Z.shiftr_div_pow2 by lia. change (2 ^ 63) with 9223372036854775808.
    rewrite norm_uint64. rewrite wrap64_arith. change (Z.of_N two63) with 9223372036854775808. change (Z.of_N two64) with 18446744073709551616. unfold two63, two64 in *.
    destruct (N.ltb_spec x 9223372036854775808) as [H|H].
    + rewrite Z.mod_small by lia. replace (Z.of_N x + 9223372036854775808 - 9223372036854775808) with (Z.of_N x) by lia.
      rewrite Z.div_small by lia. reflexivity.
    + replace ((Z.of_N x + 9223372036854775808) mod 18446744073709551616) with (Z.of_N x - 9223372036854775808) by lia.
      replace ((Z.of_N x - 9223372036854775808 - 9223372036854775808) / 9223372036854775808) with (-1) by lia.
      reflexivity.
Qed.

Lemma lxor_lt_pow2 a b n : (a < 2 ^ n -> b < 2 ^ n -> N.lxor a b < 2 ^ n)%N.
Proof.
  intros Ha Hb.
  destruct (N.eq_dec a 0) as [->|Ha0]; [rewrite N.lxor_0_l; exact Hb|].
  destruct (N.eq_dec b 0) as [->|Hb0]; [rewrite N.lxor_0_r; exact Ha|].
  destruct (N.eq_dec (N.lxor a b) 0) as [->|Hx0]; [lia|].
  apply N.log2_lt_pow2; [lia|].
  apply N.log2_lt_pow2 in Ha; [|lia]. apply N.log2_lt_pow2 in Hb; [|lia].
  pose proof (N.log2_lxor a b). lia.
Qed.
Lemma zigzag64_lt x : (zigzag64 x < two64)%N.
Proof.
  unfold zigzag64. change two64 with (2 ^ 64)%N. apply lxor_lt_pow2.
  - unfold u64. apply N.mod_upper_bound. discriminate.
  - destruct (u64 x <? two63)%N; reflexivity.
Qed.

Lemma soz_prog_correct : soz_prog_stmt.
Proof.
  intros x lf dp Hx. enter. go.
  rewrite (zigzag_go x Hx).
  pose proof (zigzag64_lt x) as Hz.
  pose proof (sov_prog_correct (zigzag64 x) lf dp Hz) as HS. unfold run_fun in HS. cbn [Nat.add] in HS.
  unfold u64v in HS. rewrite HS. go. reflexivity.
Qed.

(* ================================================================ timepb/cmp.go *)
Ltac brk := match goal with |- context [if ?c then _ else _] => destruct c eqn:? end; go.

Lemma iszero_prog_correct : iszero_prog_stmt.
Proof. intros p lf dp. enter. destruct p; go; reflexivity. Qed.

Lemma durationisnegative_prog_correct : durationisnegative_prog_stmt.
Proof.
  intros d lf dp [Hs Hn]. enter. go. unfold DurationIsNegative. repeat brk; reflexivity.
Qed.

Lemma compare_prog_correct : compare_prog_stmt.
Proof.
  intros t1 t2 lf dp [Hs1 Hn1] [Hs2 Hn2]. enter. go. unfold TsCompare.
  repeat brk; try reflexivity; try lia.
Qed.

Lemma compare_nil_prog_correct : compare_nil_prog_stmt.
Proof. intros t lf dp. repeat split; enter; go; reflexivity. Qed.

Lemma compare_range_int t1 t2 : - 9223372036854775808 <= TsCompare t1 t2 < 9223372036854775808.
Proof. pose proof (Compare_range t1 t2). lia. Qed.

Lemma overflowpanic_prog_correct : overflowpanic_prog_stmt.
Proof.
  intros t1 t2 neg lf dp T1 T2. enter. go.
  pose proof (compare_prog_correct t1 t2 lf dp T1 T2) as HC. unfold run_fun in HC. cbn [Nat.add] in HC.
  rewrite HC. go. unfold overflowPanic.
  destruct neg; go; brk; reflexivity.
Qed.

Lemma add_nil_prog_correct : add_nil_prog_stmt.
Proof.
  intros t p lf dp. split; enter; go; reflexivity.
Qed.

Lemma genv_second : go_get "second" (genv_of canon_timepb) = Some (GvInt TInt32 1000000000).
Proof. vm_compute. reflexivity. Qed.

Lemma ts_ptr_fold s n : GvPtr (Some [("Seconds"%gname, GvInt TInt64 s); ("Nanos"%gname, GvInt TInt32 n)]) = ts_ptr {| secs := s; nanos := n |}.
Proof. reflexivity. Qed.
Lemma ts_typed_wrap a b : ts_typed {| secs := wrap64 a; nanos := wrap32 b |}.
Proof. split; cbn [secs nanos]; [apply in_int64_iff, wrap64_range | apply in_int32_iff, wrap32_range]. Qed.

Lemma add_prog_correct : add_prog_stmt.
Proof.
  intros t d lf dp [Hs1 Hn1] [Hs2 Hn2].
  pose proof (durationisnegative_prog_correct d lf (S dp) (conj Hs2 Hn2)) as HD. unfold run_fun in HD. cbn [Nat.add] in HD.
  enter. go. unfold TsAdd.
  pose proof (fun a b => overflowpanic_prog_correct t _ (DurationIsNegative d) lf dp (conj Hs1 Hn1) (ts_typed_wrap a b)) as HO.
  unfold run_fun in HO. cbn [Nat.add] in HO.
  brk.
  - brk.
    + destruct t; reflexivity.
    + rewrite !genv_second. go. rewrite !norm_int32, !norm_int64. unfold second.
      brk; [|brk]; rewrite HD; go; rewrite ts_ptr_fold, HO; brk; reflexivity.
  - rewrite !genv_second. go. rewrite !norm_int32, !norm_int64. unfold second.
      brk; [|brk]; rewrite HD; go; rewrite ts_ptr_fold, HO; brk; reflexivity.
Qed.

(* ================================================================ runtime.go: the option builders *)
Lemma child_limit_correct : child_limit_stmt.
Proof.
  intros depth Hd Hpos. apply in_int_iff in Hd. unfold child_limit.
  rewrite wrap64_id' by lia. split; intro H.
  - destruct (Z.leb_spec (depth - 1) 0); [reflexivity|lia].
  - destruct (Z.leb_spec (depth - 1) 0); [lia|reflexivity].
Qed.

Lemma options_prog_correct : options_prog_stmt.
Proof.
  intros a b flags depth lf dp Hf Hd nul res. subst nul res. apply in_uint8_iff in Hf.
  split; [|split].
  - enter. go. unfold marshal_input. go. reflexivity.
  - enter. go. unfold marshal_input. go. reflexivity.
  - enter. go. unfold unmarshal_input. go. rewrite !norm_int.
    unfold unmarshal_options_spec, child_limit. cbv zeta. brk; reflexivity.
Qed.

(* ================================================================ loops: named copies of the interpreter's inner fixpoints *)
Section Loops.
  Variable genv : goenv.
  Variable call : gname -> list gvalue -> gres.
  Variable lf : nat.

  Definition exec_blk (b : list gstmt) (en : goenv) : stres := go_leave en (go_block genv call lf b en).

  Definition for_loop (c : option gexpr) (post body : list gstmt) : nat -> goenv -> stres :=
    fix for_loop (fuel : nat) (en : goenv) {struct fuel} : stres :=
    match fuel with
    | O => SrFuel
    | S f =>
      go_lift (match c with Some ce => go_eval genv call en ce | None => ErOk (GvBool true) end) (fun v =>
        match v with
        | GvBool false => SrNext en
        | GvBool true =>
          match exec_blk body en with
          | SrNext en' | SrCont en' =>
            match go_block genv call lf post en' with
            | SrNext en'' => for_loop f en''
            | SrBreak _ | SrCont _ => SrStuck
            | r => r
            end
          | SrBreak en' => SrNext en'
          | r => r
          end
        | _ => SrStuck
        end)
    end.

  Lemma exec_for init c post body en :
    go_exec genv call lf (StFor init c post body) en =
    go_leave en (match go_block genv call lf init en with
                 | SrNext en1 => for_loop c post body lf en1
                 | SrBreak _ | SrCont _ => SrStuck
                 | r => r
                 end).
  Proof. reflexivity. Qed.

  Lemma for_loop_S c post body f en :
    for_loop c post body (S f) en =
      go_lift (match c with Some ce => go_eval genv call en ce | None => ErOk (GvBool true) end) (fun v =>
        match v with
        | GvBool false => SrNext en
        | GvBool true =>
          match exec_blk body en with
          | SrNext en' | SrCont en' =>
            match go_block genv call lf post en' with
            | SrNext en'' => for_loop c post body f en''
            | SrBreak _ | SrCont _ => SrStuck
            | r => r
            end
          | SrBreak en' => SrNext en'
          | r => r
          end
        | _ => SrStuck
        end).
  Proof. reflexivity. Qed.

  Lemma exec_if c a b en :
    go_exec genv call lf (StIf c a b) en =
    go_lift (go_eval genv call en c) (fun v =>
      match v with GvBool true => exec_blk a en | GvBool false => exec_blk b en | _ => SrStuck end).
  Proof. reflexivity. Qed.
End Loops.

(* ================================================================ runtime.go: EncodeVarint *)
Definition ev_cond : gexpr := ExBin BGe (ExVar "v") (ExBin BShl (ExConst 1) (ExConst 7)).
Definition ev_body : list gstmt :=
  [StAssign (LvIndex "dAtA" (ExVar "offset")) (ExConv TUint8 (ExBin BOr (ExBin BAnd (ExVar "v") (ExConst 127)) (ExConst 128)));
   StOpAssign BShr (LvVar "v") (ExConst 7);
   StInc (LvVar "offset")].
Definition ev_env (base : Z) (buf : list byte) (off : Z) (v : N) : goenv :=
  [("base"%gname, intv base); ("dAtA"%gname, GvBytes buf); ("offset"%gname, intv off); ("v"%gname, u64v v)].

(* the loop alone: Runtime.ev_loop without the last write *)
Fixpoint ev_pre (fuel : nat) (buf : list byte) (off : Z) (v : N) : outcome (list byte * Z * N) :=
  match fuel with
  | O => OutOfFuel
  | S f =>
    if (128 <=? v)%N then
      if in_range buf off
      then ev_pre f (upd buf (Z.to_nat off) (n2b (N.lor (N.land v 127) 128))) (off + 1)%Z (N.shiftr v 7)
      else Panic
    else Ok (buf, off, v)
  end.
Lemma ev_loop_pre fuel : forall buf off v,
  ev_loop fuel buf off v =
  match ev_pre fuel buf off v with
  | Ok (b, o, w) => if in_range b o then Ok (upd b (Z.to_nat o) (n2b w)) else Panic
  | Err => Err | Panic => Panic | OutOfFuel => OutOfFuel
  end.
Proof.
  induction fuel as [|f IH]; intros buf off v; cbn [ev_loop ev_pre]; [reflexivity|].
  destruct (128 <=? v)%N; [|reflexivity]. destruct (in_range buf off); [apply IH|reflexivity].
Qed.


Lemma bytes_set_eq buf off b :
  bytes_set buf off b = if in_range buf off then ErOk (upd buf (Z.to_nat off) (n2b (Z.to_N b))) else ErPanic.
Proof. reflexivity. Qed.
Lemma leb_ofN a b : (Z.of_N a <=? Z.of_N b) = (a <=? b)%N.
Proof. destruct (Z.leb_spec (Z.of_N a) (Z.of_N b)); destruct (N.leb_spec a b); try reflexivity; lia. Qed.
Lemma n2b_mod256 n : n2b (n mod 256) = n2b n.
Proof. unfold n2b. rewrite N.mod_mod by discriminate. reflexivity. Qed.
Lemma n2b_uint8 n : n2b (Z.to_N (ity_norm TUint8 (Z.of_N n))) = n2b n.
Proof. rewrite norm_uint8. change 256 with (Z.of_N 256). rewrite <- N2Z.inj_mod, N2Z.id. apply n2b_mod256. Qed.

Lemma ev_pre_S f buf off v :
  ev_pre (S f) buf off v =
    if (128 <=? v)%N then
      if in_range buf off
      then ev_pre f (upd buf (Z.to_nat off) (n2b (N.lor (N.land v 127) 128))) (off + 1)%Z (N.shiftr v 7)
      else Panic
    else Ok (buf, off, v).
Proof. reflexivity. Qed.
Lemma in_range_bounds buf off : in_range buf off = true -> 0 <= off < Z.of_nat (length buf).
Proof. unfold in_range. intro H. apply andb_prop in H. lia. Qed.
Lemma shiftr7_lt v f : (v < 128 * 2 ^ (7 * N.of_nat (S f)) -> N.shiftr v 7 < 128 * 2 ^ (7 * N.of_nat f))%N.
Proof.
  intro Hv. rewrite N.shiftr_div_pow2. change (2 ^ 7)%N with 128%N.
  apply N.div_lt_upper_bound; [discriminate|].
  replace (7 * N.of_nat (S f))%N with (7 + 7 * N.of_nat f)%N in Hv by lia.
  rewrite N.pow_add_r in Hv. change (2 ^ 7)%N with 128%N in Hv. lia.
Qed.

Lemma ev_loop_go genv call lf0 base f : forall k buf off v,
  (v < 128 * 2 ^ (7 * N.of_nat f))%N -> in_ity TInt off -> Z.of_nat (length buf) + 10 <= Z.of_N two63 ->
  for_loop genv call lf0 (Some ev_cond) [] ev_body (S f + k) (ev_env base buf off v) =
  match ev_pre (S f) buf off v with
  | Ok (b, o, w) => SrNext (ev_env base b o w)
  | Panic => SrPanic
  | OutOfFuel => SrFuel
  | Err => SrStuck
  end.
Proof.
  induction f as [|f IH]; intros k buf off v Hv Hoff Hlen.
  - cbn [Nat.add]. rewrite for_loop_S. unfold ev_cond, ev_body, exec_blk, ev_env. go.
    change (Z.shiftl 1 7) with (Z.of_N 128). rewrite leb_ofN. cbn [ev_pre].
    destruct (N.leb_spec 128 v) as [H|H]; [cbn in Hv; lia|]. reflexivity.
  - cbn [Nat.add]. rewrite for_loop_S, ev_pre_S.
    pose proof (shiftr7_lt v f Hv) as Hv'.
    unfold ev_cond at 1. unfold ev_body at 1. unfold exec_blk, ev_env. go.
    change (Z.shiftl 1 7) with (Z.of_N 128). rewrite leb_ofN.
    destruct (N.leb_spec 128 v) as [H|H]; [|reflexivity].
    rewrite bytes_set_eq. destruct (in_range buf off) eqn:Hr; go; [|reflexivity].
    apply in_range_bounds in Hr. apply in_int_iff in Hoff. change (Z.of_N two63) with 9223372036854775808 in Hlen.
    assert (E1 : n2b (Z.to_N (ity_norm TUint8 (Z.lor (Z.land (Z.of_N v) 127) 128))) = n2b (N.lor (N.land v 127) 128)).
    { change 127 with (Z.of_N 127). change 128 with (Z.of_N 128). rewrite <- ofN_land, <- ofN_lor. apply n2b_uint8. }
    assert (E2 : ity_norm TInt (off + 1) = off + 1) by (rewrite norm_int; apply wrap64_id'; lia).
    assert (E3 : shr_z 64 (Z.of_N v) 7 = Z.of_N (N.shiftr v 7)).
    { unfold shr_z. nc. cbv iota. change 7 with (Z.of_N 7). symmetry. apply ofN_shiftr. }
    rewrite E1, E2, E3.
    assert (Ho' : in_ity TInt (off + 1)) by (apply in_int_iff; lia).
    assert (Hl' : Z.of_nat (length (upd buf (Z.to_nat off) (n2b (N.lor (N.land v 127) 128)))) + 10 <= Z.of_N two63) by (rewrite upd_length; exact Hlen).
    exact (IH k _ (off + 1) _ Hv' Ho' Hl').
Qed.

Lemma encodevarint_prog_correct : encodevarint_prog_stmt.
Proof.
  intros buf off v lf dp Hv Hoff Hlen.
  pose proof (sov_prog_correct v (10 + lf)%nat dp Hv) as HS. unfold run_fun in HS. cbn [Nat.add] in HS.
  enter. unfold canon_runtime at 1. unfold canon_EncodeVarint.
  match goal with |- context [StFor ?a ?b ?c ?d] => set (L := StFor a b c d) end.
  go. rewrite HS. go. subst L. rewrite exec_for. gocbn.
  rewrite norm_int.
  set (base := off - Z.of_N (Sov v)). set (o := wrap64 base).
  change (for_loop ?g ?c ?l _ _ _ _ _) with (for_loop g c l (Some ev_cond) [] ev_body (S 9 + lf) (ev_env o buf o v)).
  pose proof (Sov_bounds v Hv) as HSov. apply in_int_iff in Hoff.
  assert (Ho : in_ity TInt o) by (apply in_int_iff, wrap64_range).
  rewrite ev_loop_go; [|eapply N.lt_le_trans; [exact Hv|vm_compute; discriminate]|exact Ho|exact Hlen].
  assert (HE : EncodeVarint buf off v = match ev_loop 10 buf o v with Ok b => Ok (b, o) | Err => Err | Panic => Panic | OutOfFuel => OutOfFuel end).
  { unfold EncodeVarint. fold base. destruct (Z_le_gt_dec (- 9223372036854775808) base) as [Hb|Hb].
    - unfold o. rewrite wrap64_id' by lia. reflexivity.
    - assert (Hv70 : (v < 2 ^ (7 * N.of_nat 10))%N) by (eapply N.lt_trans; [exact Hv|reflexivity]).
      pose proof (enc_varint_len_bounds v) as Hel. unfold enc_varint in Hel.
      change (Z.of_N two63) with 9223372036854775808 in Hlen.
      rewrite (ev_loop_panics 10 v buf base) by (try exact Hv70; lia).
      rewrite (ev_loop_panics 10 v buf o); [reflexivity|lia|exact Hv70|].
      right. unfold o. rewrite wrap64_arith. change (Z.of_N two63) with 9223372036854775808. change (Z.of_N two64) with 18446744073709551616. lia. }
  rewrite HE. rewrite ev_loop_pre.
  destruct (ev_pre 10 buf o v) as [[[b o'] w]| | |]; unfold ev_env; go; try reflexivity.
  rewrite bytes_set_eq. rewrite n2b_uint8. destruct (in_range b o'); go; reflexivity.
Qed.

(* ================================================================ timepb/cmp.go: AddStd *)
Lemma addstd_prog_correct : addstd_prog_stmt.
Proof.
  intros t d lf dp [Hs Hn] Hd Hrange. destruct t as [s n]. cbn [secs nanos] in *.
  enter. go. unfold TsAddStd.
  brk; [reflexivity|].
  set (i := inst {| secs := s; nanos := n |} + d).
  apply in_int64_iff in Hd. apply in_int32_iff in Hn.
  assert (Hq : - 9223372036854775808 <= i / second < 9223372036854775808).
  { unfold i, inst, second. cbn [secs nanos]. lia. }
  assert (Hm : 0 <= i mod second < 1000000000) by (unfold second; lia).
  assert (Hi : ity_in TInt64 (i / second) = true) by (apply in_int64_iff; exact Hq).
  rewrite Hi. go.
  assert (T2 : ts_typed {| secs := i / second; nanos := i mod second |}).
  { split; cbn [secs nanos]; [exact Hi|apply in_int32_iff; lia]. }
  assert (T1 : ts_typed {| secs := s; nanos := n |}) by (split; cbn [secs nanos]; [exact Hs|apply in_int32_iff; exact Hn]).
  pose proof (overflowpanic_prog_correct _ _ (d <? 0) lf dp T1 T2) as HO. unfold run_fun in HO. cbn [Nat.add] in HO.
  unfold ts_fields at 1. rewrite ts_ptr_fold.
  rewrite HO. fold i. brk; reflexivity.
Qed.

(* ================================================================ runtime.go: Skip *)
(* ---- bit-level facts: the signed reading of a 64-bit pattern commutes with | *)
Lemma s64_testbit a i : 0 <= i -> Z.testbit (s64 a) i = N.testbit a (if i <? 64 then Z.to_N i else 63%N).
Proof.
  intro Hi. unfold s64. cbv zeta.
  assert (Hy : (a mod two64 < two64)%N) by (apply N.mod_upper_bound; discriminate).
  assert (Hlow : forall j, (j < 64)%N -> N.testbit (a mod two64) j = N.testbit a j).
  { intros j Hj. change two64 with (2 ^ 64)%N. apply N.mod_pow2_bits_low. exact Hj. }
  assert (Hhigh : forall j, (64 <= j)%N -> N.testbit (a mod two64) j = false).
  { intros j Hj. change two64 with (2 ^ 64)%N. apply N.mod_pow2_bits_high. exact Hj. }
  set (y := (a mod two64)%N) in *.
  destruct (N.ltb_spec y two63) as [Hlt|Hge].
  - rewrite Z.testbit_of_N' by exact Hi.
    destruct (Z.ltb_spec i 64) as [H64|H64].
    + apply Hlow. lia.
    + rewrite Hhigh by lia. rewrite <- (Hlow 63%N) by lia.
      rewrite <- (N.mod_small y (2 ^ 63)%N) by exact Hlt. symmetry. apply N.mod_pow2_bits_high. lia.
  - change (Z.of_N two64) with 18446744073709551616. unfold two63, two64 in *.
    destruct (Z.ltb_spec i 64) as [H64|H64].
    + rewrite <- (Z.mod_pow2_bits_low _ 64) by lia. change (2 ^ 64) with 18446744073709551616.
      replace ((Z.of_N y - 18446744073709551616) mod 18446744073709551616) with (Z.of_N y) by lia.
      rewrite Z.testbit_of_N' by exact Hi. apply Hlow. lia.
    + rewrite Z.bits_above_log2_neg.
      * rewrite <- (Hlow 63%N) by lia. symmetry. apply N.testbit_true.
        change (2 ^ 63)%N with 9223372036854775808%N.
        assert (y / 9223372036854775808 = 1)%N by (symmetry; apply N.div_unique with (r := (y - 9223372036854775808)%N); lia).
        rewrite H. reflexivity.
      * lia.
      * set (m := Z.pred (- (Z.of_N y - 18446744073709551616))).
        destruct (Z.eq_dec m 0) as [->|Hm0]; [cbn; lia|].
        assert (Z.log2 m < 63); [|lia]. apply Z.log2_lt_pow2; [unfold m; lia|]. change (2 ^ 63) with 9223372036854775808. unfold m. lia.
Qed.
Lemma s64_lor a b : Z.lor (s64 a) (s64 b) = s64 (N.lor a b).
Proof.
  apply Z.bits_inj'. intros i Hi. rewrite Z.lor_spec, !s64_testbit by exact Hi. rewrite N.lor_spec. reflexivity.
Qed.
Lemma wrap64_ofN x : wrap64 (Z.of_N x) = s64 x.
Proof. unfold wrap64. rewrite UnmarshalProgProofs.z2u64_ofN. apply UnmarshalProgProofs.s64_u64. Qed.
Lemma u64_lor a b : N.lor (u64 a) (u64 b) = u64 (N.lor a b).
Proof. unfold u64. change two64 with (2 ^ 64)%N. symmetry. apply UnmarshalProgProofs.lor_mod_pow2. Qed.
Lemma norm_uint64_ofN x : ity_norm TUint64 (Z.of_N x) = Z.of_N (u64 x).
Proof. rewrite norm_uint64. unfold u64. rewrite N2Z.inj_mod. reflexivity. Qed.
Lemma norm_uint_ofN x : ity_norm TUint (Z.of_N x) = Z.of_N (u64 x).
Proof. exact (norm_uint64_ofN x). Qed.
Lemma u64_small x : (x < two64)%N -> u64 x = x.
Proof. intro H. unfold u64. apply N.mod_small. exact H. Qed.
Lemma shl_z_small x c : 0 <= c < 64 -> shl_z 64 x c = Z.shiftl x c.
Proof. intro H. unfold shl_z. destruct (Z.leb_spec 64 c); [lia|reflexivity]. Qed.

(* wire |= (uint64(b) & 0x7F) << shift    on the pattern *)
Lemma wire_update acc b shift : (shift < 64)%N ->
  Z.lor (Z.of_N (u64 acc)) (ity_norm TUint64 (shl_z 64 (Z.land (ity_norm TUint64 (Z.of_N (b2n b))) 127) (Z.of_N shift)))
  = Z.of_N (u64 (N.lor acc (N.shiftl (N.land (b2n b) 127) shift))).
Proof.
  intro Hs. pose proof (b2n_lt b) as Hb.
  rewrite norm_uint64_ofN, (u64_small (b2n b)) by (unfold two64; lia).
  change 127 with (Z.of_N 127). rewrite <- ofN_land. rewrite shl_z_small by lia. rewrite <- ofN_shiftl.
  rewrite norm_uint64_ofN. rewrite <- ofN_lor, u64_lor. reflexivity.
Qed.
(* length |= (int(b) & 0x7F) << shift *)
Lemma length_update acc b shift : (shift < 64)%N ->
  Z.lor (s64 acc) (ity_norm TInt (shl_z 64 (Z.land (ity_norm TInt (Z.of_N (b2n b))) 127) (Z.of_N shift)))
  = s64 (N.lor acc (N.shiftl (N.land (b2n b) 127) shift)).
Proof.
  intro Hs. pose proof (b2n_lt b) as Hb.
  rewrite (norm_int (Z.of_N (b2n b))), wrap64_id' by lia.
  change 127 with (Z.of_N 127). rewrite <- ofN_land. rewrite shl_z_small by lia. rewrite <- ofN_shiftl.
  rewrite norm_int, wrap64_ofN. apply s64_lor.
Qed.

(* ---- the pieces of the program *)
Local Open Scope gname_scope.
Definition sk_cond : gexpr := ExBin BLt (ExVar "iNdEx") (ExVar "l").
Definition sk_post : list gstmt := [StOpAssign BAdd (LvVar "shift") (ExConst 7)].
Definition sk_switch : gstmt :=
  StSwitch (ExVar "wireType")
    [([ExConst 0],
      [skip_varint_for
         [StInc (LvVar "iNdEx");
          StIf (ExBin BLt (ExIndex (ExVar "dAtA") (ExBin BSub (ExVar "iNdEx") (ExConst 1))) (ExConst 128)) [StBreak] []]]);
     ([ExConst 1], [StOpAssign BAdd (LvVar "iNdEx") (ExConst 8)]);
     ([ExConst 2],
      [StVar "length" (GoInt TInt);
       skip_varint_for (skip_accumulate "length" TInt);
       StIf (ExBin BLt (ExVar "length") (ExConst 0)) [StReturn [ExConst 0; ExVar "ErrInvalidLength"]] [];
       StOpAssign BAdd (LvVar "iNdEx") (ExVar "length")]);
     ([ExConst 3], [StInc (LvVar "depth")]);
     ([ExConst 4],
      [StIf (ExBin BEq (ExVar "depth") (ExConst 0)) [StReturn [ExConst 0; ExVar "ErrUnexpectedEndOfGroup"]] [];
       StDec (LvVar "depth")]);
     ([ExConst 5], [StOpAssign BAdd (LvVar "iNdEx") (ExConst 4)])]
    (Some [StReturn [ExConst 0; ExPkgCall "fmt" "Errorf" [ExStr "proto: illegal wireType %d"; ExVar "wireType"]]]).
Definition sk_epi : list gstmt :=
  [StIf (ExBin BLt (ExVar "iNdEx") (ExConst 0)) [StReturn [ExConst 0; ExVar "ErrInvalidLength"]] [];
   StIf (ExBin BEq (ExVar "depth") (ExConst 0)) [StReturn [ExVar "iNdEx"; ExNil]] []].
Definition sk_body : list gstmt :=
  StVar "wire" (GoInt TUint64)
  :: skip_varint_for (skip_accumulate "wire" TUint64)
  :: StDefine "wireType" (ExConv TInt (ExBin BAnd (ExVar "wire") (ExConst 7)))
  :: sk_switch
  :: sk_epi.
Lemma canon_Skip_body :
  fn_body canon_Skip =
  [StDefine "l" (ExLen (ExVar "dAtA")); StDefine "iNdEx" (ExConst 0); StDefine "depth" (ExConst 0);
   StFor [] (Some sk_cond) [] sk_body;
   StReturn [ExConst 0; ExQual "io" "ErrUnexpectedEOF"]].
Proof. reflexivity. Qed.

Definition sk_env (bs : list byte) (idx depth : Z) : goenv :=
  [("depth", intv depth); ("iNdEx", intv idx); ("l", intv (Z.of_nat (length bs)));
   ("n", GvInt TInt 0); ("err", GvErr None); ("dAtA", GvBytes bs)].
Local Close Scope gname_scope.

Notation G := (genv_of canon_runtime).
Lemma G_overflow : go_get "ErrIntOverflow" G = Some (GvErr (Some "proto: integer overflow"%gname)).
Proof. vm_compute. reflexivity. Qed.
Lemma G_invalid : go_get "ErrInvalidLength" G = Some (GvErr (Some "proto: negative length found during unmarshaling"%gname)).
Proof. vm_compute. reflexivity. Qed.
Lemma G_endgroup : go_get "ErrUnexpectedEndOfGroup" G = Some (GvErr (Some "proto: unexpected end of group"%gname)).
Proof. vm_compute. reflexivity. Qed.
Lemma G_none x : go_get x G = None ->  go_get x G = None.
Proof. exact (fun H => H). Qed.

(* a return of (0, some error) / of (n, nil), the input unchanged *)
Definition is_err_ret (bs : list byte) (r : stres) : Prop :=
  exists e en, r = SrRet [GvConst 0; GvErr (Some e)] en /\ final_params 1 en = [GvBytes bs].
Definition is_ok_ret (bs : list byte) (m : Z) (r : stres) : Prop :=
  exists en, r = SrRet [GvInt TInt m; GvNil] en /\ final_params 1 en = [GvBytes bs].

(* ---- suffix by index *)
Lemma skipn_cons_nth (bs : list byte) i b rest :
  0 <= i -> skipn (Z.to_nat i) bs = b :: rest ->
  i < Z.of_nat (length bs) /\ nth (Z.to_nat i) bs x00 = b /\ skipn (Z.to_nat (i + 1)) bs = rest.
Proof.
  intros Hi H. assert (Hl : (Z.to_nat i < length bs)%nat).
  { destruct (Nat.lt_ge_cases (Z.to_nat i) (length bs)) as [Hlt|Hge]; [exact Hlt|]. rewrite skipn_all2 in H by exact Hge. discriminate. }
  split; [lia|]. split.
  - rewrite <- (firstn_skipn (Z.to_nat i) bs) at 1. rewrite app_nth2 by (rewrite firstn_length; lia).
    rewrite firstn_length, Nat.min_l by lia. rewrite Nat.sub_diag, H. reflexivity.
  - replace (Z.to_nat (i + 1)) with (Z.to_nat i + 1)%nat by lia. rewrite <- skipn_skipn', H. reflexivity.
Qed.
Lemma bytes_get_in (bs : list byte) i b rest :
  0 <= i -> skipn (Z.to_nat i) bs = b :: rest -> bytes_get bs i = ErOk (GvInt TUint8 (Z.of_N (b2n b))).
Proof.
  intros Hi H. destruct (skipn_cons_nth bs i b rest Hi H) as (Hl & Hn & _). unfold bytes_get.
  destruct (Z.leb_spec 0 i); [|lia]. destruct (Z.ltb_spec i (Z.of_nat (length bs))); [|lia]. cbn [andb]. rewrite Hn. reflexivity.
Qed.

Lemma ltb_ofN a b : (Z.of_N a <? Z.of_N b) = (a <? b)%N.
Proof. destruct (Z.ltb_spec (Z.of_N a) (Z.of_N b)); destruct (N.ltb_spec a b); try reflexivity; lia. Qed.

(* ---- the three varint loops *)
Local Open Scope gname_scope.
Definition w_env (bs : list byte) (shift wire idx depth : Z) : goenv :=
  ("shift", GvInt TUint shift) :: ("wire", GvInt TUint64 wire) :: sk_env bs idx depth.
Local Close Scope gname_scope.

Lemma wire_loop call lf bs depth : Z.of_nat (length bs) < Z.of_N two63 ->
  forall f LF shift acc cnt idx rest,
  (f <= 10)%nat -> (f < LF)%nat -> shift = (7 * (10 - N.of_nat f))%N ->
  0 <= idx -> rest = skipn (Z.to_nat idx) bs -> idx <= Z.of_nat (length bs) ->
  let r := for_loop G call lf None sk_post (skip_guards ++ skip_accumulate "wire" TUint64) LF
             (w_env bs (Z.of_N shift) (Z.of_N (u64 acc)) idx depth) in
  match dec_varint_aux f shift acc cnt rest with
  | None => is_err_ret bs r
  | Some (raw, _, rest') =>
    exists sh, r = SrNext (w_env bs sh (Z.of_N (u64 raw)) (Z.of_nat (length bs) - Z.of_nat (length rest')) depth)
  end.
Proof.
  intros Hlen. induction f as [|f IH]; intros LF shift acc cnt idx rest Hf HLF Hs Hidx Hrest Hle r; subst r;
    (destruct LF as [|LF]; [lia|]); rewrite for_loop_S; unfold sk_post, skip_guards, skip_accumulate, exec_blk, w_env, sk_env; go.
  - subst shift. change (Z.of_N (7 * (10 - N.of_nat 0))) with 70. nc. go. rewrite G_overflow. go.
    eexists. eexists. split; reflexivity.
  - assert (Hsh : (shift < 64)%N) by lia.
    assert (H64 : (64 <=? Z.of_N shift) = false) by (apply Z.leb_gt; lia). rewrite H64. go.
    cbn [dec_varint_aux]. destruct rest as [|b rest'].
    + assert (Hge : (Z.of_nat (length bs) <=? idx) = true).
      { apply Z.leb_le. destruct (Z_lt_le_dec idx (Z.of_nat (length bs))) as [Hlt|]; [|lia].
        exfalso. assert (length (skipn (Z.to_nat idx) bs) = 0%nat) by (rewrite <- Hrest; reflexivity). rewrite skipn_length in H. lia. }
      rewrite Hge. go. eexists. eexists. split; reflexivity.
    + symmetry in Hrest. destruct (skipn_cons_nth bs idx b rest' Hidx Hrest) as (Hlt & Hnth & Hrest').
      assert (Hge : (Z.of_nat (length bs) <=? idx) = false) by (apply Z.leb_gt; lia). rewrite Hge. go.
      rewrite (bytes_get_in bs idx b rest' Hidx Hrest). go.
      assert (Hneg : (Z.of_N shift <? 0) = false) by (apply Z.ltb_ge; lia). rewrite Hneg. go.
      rewrite (wire_update acc b shift Hsh).
      change 128 with (Z.of_N 128). rewrite ltb_ofN.
      change (Z.of_N two63) with 9223372036854775808 in Hlen.
      assert (E2 : ity_norm TInt (idx + 1) = idx + 1) by (rewrite norm_int; apply wrap64_id'; lia). rewrite E2.
      destruct (b2n b <? 128)%N; go.
      * exists (Z.of_N shift).
        replace (Z.of_nat (length bs) - Z.of_nat (length rest')) with (idx + 1); [reflexivity|].
        rewrite <- Hrest', skipn_length. lia.
      * assert (E3 : ity_norm TUint (Z.of_N shift + 7) = Z.of_N (shift + 7)).
        { rewrite norm_uint. rewrite Z.mod_small by lia. lia. }
        rewrite E3.
        refine (IH LF (shift + 7)%N _ (S cnt) (idx + 1) rest' _ _ _ _ _ _); try lia. symmetry. exact Hrest'.
Qed.

Local Open Scope gname_scope.
Definition l_env (bs : list byte) (shift len wt wire idx depth : Z) : goenv :=
  ("shift", GvInt TUint shift) :: ("length", GvInt TInt len) :: ("wireType", GvInt TInt wt) :: ("wire", GvInt TUint64 wire)
  :: sk_env bs idx depth.
Definition v_env (bs : list byte) (shift wt wire idx depth : Z) : goenv :=
  ("shift", GvInt TUint shift) :: ("wireType", GvInt TInt wt) :: ("wire", GvInt TUint64 wire) :: sk_env bs idx depth.
Local Close Scope gname_scope.

Lemma length_loop call lf bs depth wt wire : Z.of_nat (length bs) < Z.of_N two63 ->
  forall f LF shift acc cnt idx rest,
  (f <= 10)%nat -> (f < LF)%nat -> shift = (7 * (10 - N.of_nat f))%N ->
  0 <= idx -> rest = skipn (Z.to_nat idx) bs -> idx <= Z.of_nat (length bs) ->
  let r := for_loop G call lf None sk_post (skip_guards ++ skip_accumulate "length" TInt) LF
             (l_env bs (Z.of_N shift) (s64 acc) wt wire idx depth) in
  match dec_varint_aux f shift acc cnt rest with
  | None => is_err_ret bs r
  | Some (raw, _, rest') =>
    exists sh, r = SrNext (l_env bs sh (s64 raw) wt wire (Z.of_nat (length bs) - Z.of_nat (length rest')) depth)
  end.
Proof.
  intros Hlen. induction f as [|f IH]; intros LF shift acc cnt idx rest Hf HLF Hs Hidx Hrest Hle r; subst r;
    (destruct LF as [|LF]; [lia|]); rewrite for_loop_S; unfold sk_post, skip_guards, skip_accumulate, exec_blk, l_env, sk_env; go.
  - subst shift. change (Z.of_N (7 * (10 - N.of_nat 0))) with 70. nc. go. rewrite G_overflow. go.
    eexists. eexists. split; reflexivity.
  - assert (Hsh : (shift < 64)%N) by lia.
    assert (H64 : (64 <=? Z.of_N shift) = false) by (apply Z.leb_gt; lia). rewrite H64. go.
    cbn [dec_varint_aux]. destruct rest as [|b rest'].
    + assert (Hge : (Z.of_nat (length bs) <=? idx) = true).
      { apply Z.leb_le. destruct (Z_lt_le_dec idx (Z.of_nat (length bs))) as [Hlt|]; [|lia].
        exfalso. assert (length (skipn (Z.to_nat idx) bs) = 0%nat) by (rewrite <- Hrest; reflexivity). rewrite skipn_length in H. lia. }
      rewrite Hge. go. eexists. eexists. split; reflexivity.
    + symmetry in Hrest. destruct (skipn_cons_nth bs idx b rest' Hidx Hrest) as (Hlt & Hnth & Hrest').
      assert (Hge : (Z.of_nat (length bs) <=? idx) = false) by (apply Z.leb_gt; lia). rewrite Hge. go.
      rewrite (bytes_get_in bs idx b rest' Hidx Hrest). go.
      assert (Hneg : (Z.of_N shift <? 0) = false) by (apply Z.ltb_ge; lia). rewrite Hneg. go.
      rewrite (length_update acc b shift Hsh).
      change 128 with (Z.of_N 128). rewrite ltb_ofN.
      change (Z.of_N two63) with 9223372036854775808 in Hlen.
      assert (E2 : ity_norm TInt (idx + 1) = idx + 1) by (rewrite norm_int; apply wrap64_id'; lia). rewrite E2.
      destruct (b2n b <? 128)%N; go.
      * exists (Z.of_N shift).
        replace (Z.of_nat (length bs) - Z.of_nat (length rest')) with (idx + 1); [reflexivity|].
        rewrite <- Hrest', skipn_length. lia.
      * assert (E3 : ity_norm TUint (Z.of_N shift + 7) = Z.of_N (shift + 7)).
        { rewrite norm_uint. rewrite Z.mod_small by lia. lia. }
        rewrite E3.
        refine (IH LF (shift + 7)%N _ (S cnt) (idx + 1) rest' _ _ _ _ _ _); try lia. symmetry. exact Hrest'.
Qed.

(* case 0: only the continuation bits are read *)
Definition sk_vbody : list gstmt :=
  [StInc (LvVar "iNdEx");
   StIf (ExBin BLt (ExIndex (ExVar "dAtA") (ExBin BSub (ExVar "iNdEx") (ExConst 1))) (ExConst 128)) [StBreak] []].
Lemma varint_loop call lf bs depth wt wire : Z.of_nat (length bs) < Z.of_N two63 ->
  forall f LF shift cnt idx rest,
  (f <= 10)%nat -> (f < LF)%nat -> shift = (7 * (10 - N.of_nat f))%N ->
  0 <= idx -> rest = skipn (Z.to_nat idx) bs -> idx <= Z.of_nat (length bs) ->
  let r := for_loop G call lf None sk_post (skip_guards ++ sk_vbody) LF (v_env bs (Z.of_N shift) wt wire idx depth) in
  match skip_varint_aux f cnt rest with
  | None => is_err_ret bs r
  | Some (_, rest') =>
    exists sh, r = SrNext (v_env bs sh wt wire (Z.of_nat (length bs) - Z.of_nat (length rest')) depth)
  end.
Proof.
  intros Hlen. induction f as [|f IH]; intros LF shift cnt idx rest Hf HLF Hs Hidx Hrest Hle r; subst r;
    (destruct LF as [|LF]; [lia|]); rewrite for_loop_S; unfold sk_post, skip_guards, sk_vbody, exec_blk, v_env, sk_env; go.
  - subst shift. change (Z.of_N (7 * (10 - N.of_nat 0))) with 70. nc. go. rewrite G_overflow. go.
    eexists. eexists. split; reflexivity.
  - assert (Hsh : (shift < 64)%N) by lia.
    assert (H64 : (64 <=? Z.of_N shift) = false) by (apply Z.leb_gt; lia). rewrite H64. go.
    cbn [skip_varint_aux]. destruct rest as [|b rest'].
    + assert (Hge : (Z.of_nat (length bs) <=? idx) = true).
      { apply Z.leb_le. destruct (Z_lt_le_dec idx (Z.of_nat (length bs))) as [Hlt|]; [|lia].
        exfalso. assert (length (skipn (Z.to_nat idx) bs) = 0%nat) by (rewrite <- Hrest; reflexivity). rewrite skipn_length in H. lia. }
      rewrite Hge. go. eexists. eexists. split; reflexivity.
    + symmetry in Hrest. destruct (skipn_cons_nth bs idx b rest' Hidx Hrest) as (Hlt & Hnth & Hrest').
      assert (Hge : (Z.of_nat (length bs) <=? idx) = false) by (apply Z.leb_gt; lia). rewrite Hge. go.
      change (Z.of_N two63) with 9223372036854775808 in Hlen.
      assert (E2 : ity_norm TInt (idx + 1) = idx + 1) by (rewrite norm_int; apply wrap64_id'; lia). rewrite E2.
      assert (E4 : ity_norm TInt (idx + 1 - 1) = idx) by (rewrite norm_int; rewrite wrap64_id' by lia; lia). rewrite E4.
      rewrite (bytes_get_in bs idx b rest' Hidx Hrest). go.
      change 128 with (Z.of_N 128). rewrite ltb_ofN.
      destruct (b2n b <? 128)%N; go.
      * exists (Z.of_N shift).
        replace (Z.of_nat (length bs) - Z.of_nat (length rest')) with (idx + 1); [reflexivity|].
        rewrite <- Hrest', skipn_length. lia.
      * assert (E3 : ity_norm TUint (Z.of_N shift + 7) = Z.of_N (shift + 7)).
        { rewrite norm_uint. rewrite Z.mod_small by lia. lia. }
        rewrite E3.
        refine (IH LF (shift + 7)%N (S cnt) (idx + 1) rest' _ _ _ _ _ _); try lia. symmetry. exact Hrest'.
Qed.

Section Switch.
  Variable genv : goenv.
  Variable call : gname -> list gvalue -> gres.
  Variable lf : nat.
  Definition sw_finish (r : stres) : stres :=
    match r with
    | SrBreak en' => SrNext en' | SrNext en' => SrNext en' | SrCont en' => SrCont en' | SrRet vs en' => SrRet vs en'
    | SrPanic => SrPanic | SrFuel => SrFuel | SrStuck => SrStuck
    end.

  Lemma switch_int tag t x c body cs dflt en :
    go_eval genv call en tag = ErOk (GvInt t x) -> ity_in t c = true ->
    go_exec genv call lf (StSwitch tag (([ExConst c], body) :: cs) dflt) en =
    if x =? c then sw_finish (exec_blk genv call lf body en) else go_exec genv call lf (StSwitch tag cs dflt) en.
  Proof.
    intros Ht Hc. cbn [go_exec]. rewrite Ht. cbn [go_lift go_eval go_bind bin_op]. unfold const_to. rewrite Hc.
    cbn [go_bind is_cmp go_cmp]. destruct (x =? c); [|reflexivity]. unfold exec_blk. destruct (go_leave _ _); reflexivity.
  Qed.
  Lemma switch_dflt tag v d en :
    go_eval genv call en tag = ErOk v ->
    go_exec genv call lf (StSwitch tag [] (Some d)) en = sw_finish (exec_blk genv call lf d en).
  Proof. intros Ht. cbn [go_exec]. rewrite Ht. cbn [go_lift]. unfold exec_blk. destruct (go_leave _ _); reflexivity. Qed.
End Switch.

(* ---- the epilogue of one iteration: if iNdEx < 0 {return 0, ErrInvalidLength}; if depth == 0 {return iNdEx, nil} *)
Definition sk_post_rel (bs : list byte) (i : Z) (d : N) (r : stres) : Prop :=
  if i <? 0 then is_err_ret bs r
  else if (d =? 0)%N then is_ok_ret bs i r
  else r = SrNext (sk_env bs i (Z.of_N d)).

Lemma eqb_ofN_0 d : (Z.of_N d =? 0) = (d =? 0)%N.
Proof. destruct d; reflexivity. Qed.

Lemma sk_epilogue call lf bs wt wire i0 d0 i d :
  sk_post_rel bs i d
    (go_leave (sk_env bs i0 d0)
       (go_block G call lf sk_epi
          (("wireType"%gname, GvInt TInt wt) :: ("wire"%gname, GvInt TUint64 wire) :: sk_env bs i (Z.of_N d)))).
Proof.
  unfold sk_post_rel, sk_epi, sk_env. go.
  destruct (i <? 0); go.
  - rewrite G_invalid. go. eexists. eexists. split; reflexivity.
  - rewrite eqb_ofN_0. destruct (d =? 0)%N; go.
    + eexists. split; reflexivity.
    + reflexivity.
Qed.

Lemma suffix_split (bs rest pre rest1 : list byte) i :
  0 <= i -> rest = skipn (Z.to_nat i) bs -> rest = pre ++ rest1 -> i <= Z.of_nat (length bs) ->
  let i1 := Z.of_nat (length bs) - Z.of_nat (length rest1) in
  i1 = i + Z.of_nat (length pre) /\ rest1 = skipn (Z.to_nat i1) bs /\ 0 <= i1 <= Z.of_nat (length bs).
Proof.
  intros Hi Hr Hp Hle i1.
  assert (Hl : length rest = (length bs - Z.to_nat i)%nat) by (rewrite Hr; apply skipn_length).
  rewrite Hp, app_length in Hl.
  assert (E : i1 = i + Z.of_nat (length pre)) by (unfold i1; lia).
  split; [exact E|]. split; [|lia].
  rewrite E. replace (Z.to_nat (i + Z.of_nat (length pre))) with (Z.to_nat i + length pre)%nat by lia.
  rewrite <- skipn_skipn', <- Hr, Hp. rewrite skipn_app, skipn_all, Nat.sub_diag. reflexivity.
Qed.

Lemma land7_cases x : let w := N.land x 7 in (w = 0 \/ w = 1 \/ w = 2 \/ w = 3 \/ w = 4 \/ w = 5 \/ w = 6 \/ w = 7)%N.
Proof.
  cbv zeta. replace (N.land x 7) with (x mod 8)%N by (symmetry; apply (N.land_ones x 3)).
  pose proof (N.mod_upper_bound x 8 ltac:(discriminate)). lia.
Qed.
Lemma wiretype_go raw : ity_norm TInt (Z.land (Z.of_N (u64 raw)) 7) = Z.of_N (N.land (u64 raw) 7).
Proof.
  change 7 with (Z.of_N 7). rewrite <- ofN_land. rewrite norm_int.
  pose proof (land7_cases (u64 raw)) as H. cbv zeta in H. apply wrap64_id'. lia.
Qed.

Ltac gocbnz := cbn [Z.eqb Pos.eqb Z.of_N go_eval go_evals go_exec go_block go_exec_atom go_bind go_lift go_leave go_restore
  lval_read lval_write lval_index op_assign go_get go_set str_eq gf_bytes_eqb gname_bytes Byte.eqb Byte.to_bits Bool.eqb andb orb negb
  coerce definable assignable go_zero named_underlying
  bin_op shift_op shl_z shr_z un_op conv int_arith const_arith is_cmp go_cmp ity_eqb ity_code ity_bits Nat.eqb is_nil_like go_field index_z
  has_bytes has_const existsb lib_const lib_call lib_method fst snd length skipn Nat.sub app map intv].
Ltac goz := repeat (gocbnz; progress nc); gocbnz.

Definition sk_rel (bs : list byte) (s : step_res) (r : stres) : Prop :=
  match s with SErr => is_err_ret bs r | SNext _ i d => sk_post_rel bs i d r end.

Lemma sk_body_step call lf bs : Z.of_nat (length bs) + 8 < Z.of_N two63 -> (11 <= lf)%nat ->
  forall idx depth rest,
  0 <= idx < Z.of_nat (length bs) -> rest = skipn (Z.to_nat idx) bs -> Z.of_N depth <= idx ->
  sk_rel bs (skip_step rest idx depth) (exec_blk G call lf sk_body (sk_env bs idx (Z.of_N depth))).
Proof.
  intros Hlen8 Hlf idx depth rest Hidx Hrest Hdep.
  assert (Hlen : Z.of_nat (length bs) < Z.of_N two63) by lia.
  unfold exec_blk, sk_body. unfold sk_env at 2. go.
  unfold skip_varint_for at 1. rewrite exec_for. go.
  pose proof (wire_loop call lf bs (Z.of_N depth) Hlen 10 lf 0%N 0%N 0%nat idx rest ltac:(lia) ltac:(lia) eq_refl ltac:(lia) Hrest ltac:(lia)) as HW.
  cbv zeta in HW. unfold skip_step, dec_varint.
  match goal with |- context [for_loop G call lf None ?p ?b lf ?en] =>
    change (for_loop G call lf None p b lf en) with
      (for_loop G call lf None sk_post (skip_guards ++ skip_accumulate "wire" TUint64) lf (w_env bs (Z.of_N 0) (Z.of_N (u64 0)) idx (Z.of_N depth))) end.
  destruct (dec_varint_aux 10 0 0 0 rest) as [[[raw n] rest1]|] eqn:Ed.
  2:{ destruct HW as (e & en & -> & Hfp). go. exists e, en. split; [reflexivity|exact Hfp]. }
  destruct HW as (sh & ->). unfold w_env, sk_env. go.
  apply dec_varint_aux_consumes in Ed. destruct Ed as (pre & Hpre & Hn & Hpl).
  destruct (suffix_split bs rest pre rest1 idx ltac:(lia) Hrest Hpre ltac:(lia)) as (Hi1 & Hrest1 & Hi1r).
  set (idx1 := Z.of_nat (length bs) - Z.of_nat (length rest1)) in *.
  replace (idx + Z.of_nat n) with idx1 by lia.
  rewrite wiretype_go. cbv zeta.
  set (wt := N.land (u64 raw) 7).
  pose proof (land7_cases (u64 raw)) as Hwt. cbv zeta in Hwt. fold wt in Hwt. clearbody wt.
  change (Z.of_N two63) with 9223372036854775808 in *.
  assert (Htag : forall k, go_eval G call
           [("wireType"%gname, GvInt TInt k); ("wire"%gname, GvInt TUint64 (Z.of_N (u64 raw)));
            ("depth"%gname, intv (Z.of_N depth)); ("iNdEx"%gname, intv idx1); ("l"%gname, intv (Z.of_nat (length bs)));
            ("n"%gname, GvInt TInt 0); ("err"%gname, GvErr None); ("dAtA"%gname, GvBytes bs)] (ExVar "wireType") = ErOk (GvInt TInt k))
    by (intro k; reflexivity).
  destruct Hwt as [->|[->|[->|[->|[->|[->|[->| ->]]]]]]]; cbn [N.eqb Pos.eqb Z.of_N]; unfold sk_switch;
    repeat (match goal with |- context [go_exec G call lf (StSwitch ?tag (([ExConst ?c], ?b) :: ?cs) ?d) (("wireType"%gname, GvInt TInt ?k) :: ?en)] =>
              rewrite (switch_int G call lf tag TInt k c b cs d _ (Htag k) eq_refl) end; cbn [Z.eqb Pos.eqb]; cbv iota);
    try rewrite (switch_dflt G call lf _ _ _ _ (Htag _)); unfold sw_finish, exec_blk; go.
  - (* 0 *) unfold skip_varint_for at 1. rewrite exec_for. go.
    pose proof (varint_loop call lf bs (Z.of_N depth) 0 (Z.of_N (u64 raw)) Hlen 10 lf 0%N 0%nat idx1 rest1
                  ltac:(lia) ltac:(lia) eq_refl ltac:(lia) Hrest1 ltac:(lia)) as HV.
    cbv zeta in HV. unfold skip_varint.
    match goal with |- context [for_loop G call lf None ?p ?b lf ?en] =>
      change (for_loop G call lf None p b lf en) with
        (for_loop G call lf None sk_post (skip_guards ++ sk_vbody) lf (v_env bs (Z.of_N 0) 0 (Z.of_N (u64 raw)) idx1 (Z.of_N depth))) end.
    destruct (skip_varint_aux 10 0 rest1) as [[n2 rest2]|] eqn:Es.
    2:{ destruct HV as (e & en & -> & Hfp). go. exists e, en. split; [reflexivity|exact Hfp]. }
    destruct HV as (sh2 & ->). unfold v_env, sk_env. go.
    apply skip_varint_aux_consumes in Es. destruct Es as (pre2 & Hpre2 & Hn2 & Hpl2).
    destruct (suffix_split bs rest1 pre2 rest2 idx1 ltac:(lia) Hrest1 Hpre2 ltac:(lia)) as (Hi2 & Hrest2 & Hi2r).
    replace (idx1 + Z.of_nat n2) with (Z.of_nat (length bs) - Z.of_nat (length rest2)) by lia.
    apply sk_epilogue.
  - (* 1 *) rewrite norm_int, wrap64_id' by lia. apply sk_epilogue.
  - (* 2 *) unfold skip_varint_for at 1. rewrite exec_for. go.
    pose proof (length_loop call lf bs (Z.of_N depth) 2 (Z.of_N (u64 raw)) Hlen 10 lf 0%N 0%N 0%nat idx1 rest1
                  ltac:(lia) ltac:(lia) eq_refl ltac:(lia) Hrest1 ltac:(lia)) as HL.
    cbv zeta in HL.
    match goal with |- context [for_loop G call lf None ?p ?b lf ?en] =>
      change (for_loop G call lf None p b lf en) with
        (for_loop G call lf None sk_post (skip_guards ++ skip_accumulate "length" TInt) lf
           (l_env bs (Z.of_N 0) (s64 0) 2 (Z.of_N (u64 raw)) idx1 (Z.of_N depth))) end.
    destruct (dec_varint_aux 10 0 0 0 rest1) as [[[raw2 n2] rest2]|] eqn:Ed2.
    2:{ destruct HL as (e & en & -> & Hfp). go. exists e, en. split; [reflexivity|exact Hfp]. }
    destruct HL as (sh2 & ->). unfold l_env, sk_env. go.
    apply dec_varint_aux_consumes in Ed2. destruct Ed2 as (pre2 & Hpre2 & Hn2 & Hpl2).
    destruct (suffix_split bs rest1 pre2 rest2 idx1 ltac:(lia) Hrest1 Hpre2 ltac:(lia)) as (Hi2 & Hrest2 & Hi2r).
    destruct (s64 raw2 <? 0) eqn:Hneg; go.
    + rewrite G_invalid. go. eexists. eexists. split; reflexivity.
    + rewrite norm_int.
      replace (idx1 + Z.of_nat n2 + s64 raw2) with (Z.of_nat (length bs) - Z.of_nat (length rest2) + s64 raw2) by lia.
      apply sk_epilogue.
  - (* 3 *) rewrite norm_int, wrap64_id' by lia. replace (Z.of_N depth + 1) with (Z.of_N (depth + 1)) by lia. apply sk_epilogue.
  - (* 4 *) rewrite eqb_ofN_0. destruct (N.eqb_spec depth 0) as [Hd0|Hd0]; go.
    + rewrite G_endgroup. go. eexists. eexists. split; reflexivity.
    + rewrite norm_int, wrap64_id' by lia. replace (Z.of_N depth - 1) with (Z.of_N (depth - 1)) by lia. apply sk_epilogue.
  - (* 5 *) rewrite norm_int, wrap64_id' by lia. apply sk_epilogue.
  - (* 6 *) match goal with |- context [fmt_args ?s ?vs] => let v := eval vm_compute in (fmt_args s vs) in change (fmt_args s vs) with v end.
    go. eexists. eexists. split; reflexivity.
  - (* 7 *) match goal with |- context [fmt_args ?s ?vs] => let v := eval vm_compute in (fmt_args s vs) in change (fmt_args s vs) with v end.
    go. eexists. eexists. split; reflexivity.
Qed.

(* ---- the model's step keeps the index <-> suffix correspondence *)
Lemma zskipn_skipn (bs : list byte) i k :
  0 <= i <= Z.of_nat (length bs) -> 0 <= k -> zskipn k (skipn (Z.to_nat i) bs) = zskipn (i + k) bs.
Proof.
  intros Hi Hk. unfold zskipn. rewrite skipn_length.
  destruct (Z.leb_spec k 0) as [H0|H0].
  - replace k with 0 by lia. replace (i + 0) with i by lia.
    destruct (Z.leb_spec i 0); [replace i with 0 by lia; reflexivity|].
    destruct (Z.leb_spec (Z.of_nat (length bs)) i); [|reflexivity]. apply skipn_all2. lia.
  - destruct (Z.leb_spec (i + k) 0); [lia|].
    destruct (Z.leb_spec (Z.of_nat (length bs - Z.to_nat i)) k); destruct (Z.leb_spec (Z.of_nat (length bs)) (i + k)); try lia; [reflexivity|].
    rewrite skipn_skipn'. f_equal. lia.
Qed.
Lemma zskipn_at (bs : list byte) i : 0 <= i <= Z.of_nat (length bs) -> zskipn i bs = skipn (Z.to_nat i) bs.
Proof. apply UnmarshalProgProofs.zskipn_nat. Qed.

Lemma skip_step_inv bs rest idx depth r i d :
  Z.of_nat (length bs) + 8 < Z.of_N two63 ->
  0 <= idx < Z.of_nat (length bs) -> rest = skipn (Z.to_nat idx) bs -> Z.of_N depth <= idx ->
  skip_step rest idx depth = SNext r i d -> 0 <= i ->
  r = zskipn i bs /\ Z.of_N d <= i /\ i < Z.of_N two63.
Proof.
  intros Hlen8 Hidx Hrest Hdep. change (Z.of_N two63) with 9223372036854775808 in *.
  unfold skip_step, dec_varint.
  destruct (dec_varint_aux 10 0 0 0 rest) as [[[raw n] rest1]|] eqn:Ed; [|discriminate].
  apply dec_varint_aux_consumes in Ed. destruct Ed as (pre & Hpre & Hn & Hpl).
  destruct (suffix_split bs rest pre rest1 idx ltac:(lia) Hrest Hpre ltac:(lia)) as (Hi1 & Hrest1 & Hi1r).
  set (idx1 := Z.of_nat (length bs) - Z.of_nat (length rest1)) in *.
  replace (idx + Z.of_nat n) with idx1 by lia. cbv zeta.
  destruct (N.land (u64 raw) 7 =? 0)%N.
  { unfold skip_varint. destruct (skip_varint_aux 10 0 rest1) as [[n2 rest2]|] eqn:Es; [|discriminate].
    apply skip_varint_aux_consumes in Es. destruct Es as (pre2 & Hpre2 & Hn2 & Hpl2).
    destruct (suffix_split bs rest1 pre2 rest2 idx1 ltac:(lia) Hrest1 Hpre2 ltac:(lia)) as (Hi2 & Hrest2 & Hi2r).
    intro E. injection E as <- <- <-. intros _.
    replace (idx1 + Z.of_nat n2) with (Z.of_nat (length bs) - Z.of_nat (length rest2)) by lia.
    rewrite zskipn_at by lia. split; [exact Hrest2|]. lia. }
  destruct (N.land (u64 raw) 7 =? 1)%N.
  { intro E. injection E as <- <- <-. intros _. rewrite Hrest1 at 1. rewrite zskipn_skipn by lia. split; [reflexivity|]. lia. }
  destruct (N.land (u64 raw) 7 =? 2)%N.
  { destruct (dec_varint_aux 10 0 0 0 rest1) as [[[raw2 n2] rest2]|] eqn:Ed2; [|discriminate].
    apply dec_varint_aux_consumes in Ed2. destruct Ed2 as (pre2 & Hpre2 & Hn2 & Hpl2).
    destruct (suffix_split bs rest1 pre2 rest2 idx1 ltac:(lia) Hrest1 Hpre2 ltac:(lia)) as (Hi2 & Hrest2 & Hi2r).
    destruct (Z.ltb_spec (s64 raw2) 0) as [|Hl0]; [discriminate|].
    intro E. injection E as <- <- <-. intro Hi.
    pose proof (s64_lt raw2) as Hs. change (Z.of_N two63) with 9223372036854775808 in Hs.
    set (idx2 := Z.of_nat (length bs) - Z.of_nat (length rest2)) in *.
    replace (idx1 + Z.of_nat n2 + s64 raw2) with (idx2 + s64 raw2) in * by lia.
    destruct (Z_lt_le_dec (idx2 + s64 raw2) 9223372036854775808) as [Hsm|Hbig].
    - rewrite wrap64_id' in * by lia. rewrite Hrest2 at 1. rewrite zskipn_skipn by lia. split; [reflexivity|]. lia.
    - exfalso. pose proof (wrap64_big_neg (idx2 + s64 raw2)) as Hw.
      change (Z.of_N two63) with 9223372036854775808 in Hw. change (Z.of_N two64) with 18446744073709551616 in Hw. lia. }
  destruct (N.land (u64 raw) 7 =? 3)%N.
  { intro E. injection E as <- <- <-. intros _. rewrite zskipn_at by lia. split; [exact Hrest1|]. lia. }
  destruct (N.land (u64 raw) 7 =? 4)%N.
  { destruct (depth =? 0)%N; [discriminate|].
    intro E. injection E as <- <- <-. intros _. rewrite zskipn_at by lia. split; [exact Hrest1|]. lia. }
  destruct (N.land (u64 raw) 7 =? 5)%N; [|discriminate].
  intro E. injection E as <- <- <-. intros _. rewrite Hrest1 at 1. rewrite zskipn_skipn by lia. split; [reflexivity|]. lia.
Qed.

(* ---- the outer loop *)
Definition sk_out (bs : list byte) (o : outcome Z) (r : stres) : Prop :=
  match o with
  | Ok m => is_ok_ret bs m r
  | Err => is_err_ret bs r \/ exists i d, r = SrNext (sk_env bs i d)
  | _ => False
  end.

Lemma sk_cond_eval call bs idx d :
  go_eval G call (sk_env bs idx d) sk_cond = ErOk (GvBool (idx <? Z.of_nat (length bs))).
Proof. reflexivity. Qed.

Lemma sk_outer call lf bs : Z.of_nat (length bs) + 8 < Z.of_N two63 -> (11 <= lf)%nat ->
  forall n rest idx depth F,
  (length rest <= n)%nat -> (n < F)%nat -> 0 <= idx < Z.of_N two63 -> rest = zskipn idx bs -> Z.of_N depth <= idx ->
  sk_out bs (skip_loop (S n) rest idx depth) (for_loop G call lf (Some sk_cond) [] sk_body F (sk_env bs idx (Z.of_N depth))).
Proof.
  intros Hlen8 Hlf. induction n as [|n IH]; intros rest idx depth F Hn HF Hidx Hrest Hdep;
    (destruct F as [|F]; [lia|]); rewrite for_loop_S, sk_cond_eval; cbn [go_lift];
    change (Z.of_N two63) with 9223372036854775808 in *.
  - destruct rest; [|cbn in Hn; lia]. cbn [skip_loop sk_out].
    destruct (Z.ltb_spec idx (Z.of_nat (length bs))) as [Hlt|Hge].
    + exfalso. rewrite zskipn_at in Hrest by lia.
      assert (length (skipn (Z.to_nat idx) bs) = 0%nat) by (rewrite <- Hrest; reflexivity). rewrite skipn_length in H. lia.
    + right. eexists. eexists. reflexivity.
  - destruct (Z.ltb_spec idx (Z.of_nat (length bs))) as [Hlt|Hge].
    + rewrite zskipn_at in Hrest by lia.
      pose proof (sk_body_step call lf bs Hlen8 Hlf idx depth rest ltac:(lia) Hrest Hdep) as HB.
      assert (Hne : rest <> []).
      { intro E. assert (length (skipn (Z.to_nat idx) bs) = 0%nat) by (rewrite <- Hrest, E; reflexivity). rewrite skipn_length in H. lia. }
      cbn [skip_loop]. destruct rest as [|b0 rest0] eqn:Er; [congruence|]. rewrite <- Er in *.
      destruct (skip_step rest idx depth) as [|r i d] eqn:Es; unfold sk_rel in HB.
      * destruct HB as (e & en & -> & Hfp). left. exists e, en. split; [reflexivity|exact Hfp].
      * pose proof (skip_step_next _ _ _ _ _ _ Es) as [Hshort _].
        pose proof (skip_step_inv bs rest idx depth r i d Hlen8 ltac:(lia) Hrest Hdep Es) as Hinv.
        unfold sk_post_rel in HB. destruct (Z.ltb_spec i 0) as [Hi|Hi].
        { destruct HB as (e & en & -> & Hfp). left. exists e, en. split; [reflexivity|exact Hfp]. }
        destruct (d =? 0)%N.
        { destruct HB as (en & -> & Hfp). exists en. split; [reflexivity|exact Hfp]. }
        rewrite HB. cbn [go_block].
        destruct (Hinv Hi) as (Hr & Hd & Hi63). change (Z.of_N two63) with 9223372036854775808 in Hi63. apply IH; [lia|lia|lia|exact Hr|exact Hd].
    + assert (rest = []) as ->.
      { rewrite Hrest. unfold zskipn. destruct (Z.leb_spec idx 0).
        - assert (length bs = 0%nat) by lia. destruct bs; [reflexivity|discriminate].
        - destruct (Z.leb_spec (Z.of_nat (length bs)) idx); [reflexivity|lia]. }
      cbn [skip_loop sk_out]. right. eexists. eexists. reflexivity.
Qed.

Definition sk_for : gstmt := StFor [] (Some sk_cond) [] sk_body.
Lemma canon_Skip_body' :
  fn_body canon_Skip =
  [StDefine "l" (ExLen (ExVar "dAtA")); StDefine "iNdEx" (ExConst 0); StDefine "depth" (ExConst 0);
   sk_for; StReturn [ExConst 0; ExQual "io" "ErrUnexpectedEOF"]].
Proof. reflexivity. Qed.

Lemma skip_run bs lf dp : Z.of_nat (length bs) + 8 < Z.of_N two63 ->
  let r := run_fun canon_runtime (11 + length bs + lf) (1 + dp) "Skip" [GvBytes bs] in
  match Skip bs with
  | Ok m => r = GOk [GvInt TInt m; GvErr None] [GvBytes bs]
  | Err => exists e, r = GOk [GvInt TInt 0; GvErr (Some e)] [GvBytes bs]
  | _ => False
  end.
Proof.
  intros Hlen8. cbv zeta.
  set (LF := (11 + length bs + lf)%nat).
  pose proof (sk_outer (go_run canon_runtime G LF dp) LF bs Hlen8 ltac:(unfold LF; lia) (length bs) bs 0 0%N LF
                (le_n _) ltac:(unfold LF; lia) ltac:(unfold two63; lia) eq_refl ltac:(lia)) as HO.
  unfold Skip.
  destruct (skip_loop (S (length bs)) bs 0 0) as [m| | |]; cbn [sk_out] in HO; try contradiction;
    unfold run_fun; cbn [Nat.add]; rewrite go_run_S; cbv zeta;
    change (find_fun (pg_funs canon_runtime) "Skip") with (Some canon_Skip); cbv iota beta;
    rewrite canon_Skip_body'; go; unfold sk_for; rewrite exec_for; gocbn;
    change (for_loop G ?c ?l _ _ _ ?F _) with (for_loop G c l (Some sk_cond) [] sk_body F (sk_env bs 0 (Z.of_N 0))).
  - destruct HO as (en & -> & Hfp). go. rewrite Hfp. reflexivity.
  - destruct HO as [(e & en & -> & Hfp)|(i & d & ->)].
    + go. rewrite Hfp. eexists. reflexivity.
    + unfold sk_env. go. eexists. reflexivity.
Qed.

Lemma skip_prog_correct : skip_prog_stmt.
Proof.
  intros bs lf dp Hlen8. pose proof (skip_run bs lf dp Hlen8) as H. cbv zeta in *.
  destruct (Skip bs) as [m| | |]; try contradiction.
  - rewrite H. split; [destruct m; reflexivity|]. intros _. reflexivity.
  - destruct H as (e & ->). split; [reflexivity|]. intros _. reflexivity.
Qed.
