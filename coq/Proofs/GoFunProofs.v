(* Proofs/GoFunProofs.v — the canonical programs of Model/GoFun.v (runtime.go, timepb/cmp.go transcribed) compute the
   hand-written models Runtime.v / TimePb.v: one lemma <name>_correct per target statement <name>_stmt (task T12).

   Method: symbolic execution of the interpreter by [cbn] restricted to the interpreter's own functions ([gocbn]); machine
   arithmetic ([ity_norm], [const_to], Z operations) is never unfolded: closed instances are evaluated by [nc], the others
   are rewritten with the lemmas of the first section. Loops are handled through named copies of the interpreter's inner
   fixpoints ([for_loop], convertible with them). *)
From Coq Require Import Lia ZifyN ZifyNat ZifyBool.
From CP Require Import Bytes Runtime TimePb GoFun BytesLemmas RuntimeProofs TimePbProofs.
Ltac Zify.zify_post_hook ::= Z.div_mod_to_equations.
Local Open Scope Z_scope.

(* ---------------------------------------------------------------- machine arithmetic *)
Lemma norm_int z : ity_norm TInt z = wrap64 z.
Proof.
  unfold ity_norm. cbn [ity_mod ity_signed]. rewrite wrap64_arith. unfold two63, two64.
  change (18446744073709551616 / 2) with 9223372036854775808.
  destruct (Z.ltb_spec (z mod 18446744073709551616) 9223372036854775808); lia.
Qed.
Lemma norm_int64 z : ity_norm TInt64 z = wrap64 z.
Proof. exact (norm_int z). Qed.
Lemma norm_int32 z : ity_norm TInt32 z = wrap32 z.
Proof.
  unfold ity_norm. cbn [ity_mod ity_signed]. rewrite wrap32_arith.
  change (4294967296 / 2) with 2147483648.
  destruct (Z.ltb_spec (z mod 4294967296) 2147483648); lia.
Qed.
Lemma norm_uint64 z : ity_norm TUint64 z = z mod 18446744073709551616.
Proof. reflexivity. Qed.
Lemma norm_uint z : ity_norm TUint z = z mod 18446744073709551616.
Proof. reflexivity. Qed.
Lemma norm_uint8 z : ity_norm TUint8 z = z mod 256.
Proof. reflexivity. Qed.

Lemma wrap64_id' z : - 9223372036854775808 <= z < 9223372036854775808 -> wrap64 z = z.
Proof. intro H. apply wrap64_id. unfold int64, two63. lia. Qed.
Lemma wrap64_range z : - 9223372036854775808 <= wrap64 z < 9223372036854775808.
Proof. rewrite wrap64_arith. unfold two63, two64. lia. Qed.
Lemma wrap32_range z : - 2147483648 <= wrap32 z < 2147483648.
Proof. rewrite wrap32_arith. lia. Qed.

Lemma in_int_iff z : in_ity TInt z <-> - 9223372036854775808 <= z < 9223372036854775808.
Proof.
  unfold in_ity, ity_in. rewrite norm_int. split; intro H.
  - apply Z.eqb_eq in H. rewrite H. apply wrap64_range.
  - apply Z.eqb_eq. symmetry. apply wrap64_id'. exact H.
Qed.
Lemma in_int64_iff z : in_ity TInt64 z <-> - 9223372036854775808 <= z < 9223372036854775808.
Proof. exact (in_int_iff z). Qed.
Lemma in_int32_iff z : in_ity TInt32 z <-> - 2147483648 <= z < 2147483648.
Proof.
  unfold in_ity, ity_in. rewrite norm_int32. split; intro H.
  - apply Z.eqb_eq in H. rewrite H. apply wrap32_range.
  - apply Z.eqb_eq. symmetry. apply wrap32_id. exact H.
Qed.
Lemma in_uint8_iff z : in_ity TUint8 z <-> 0 <= z < 256.
Proof.
  unfold in_ity, ity_in. rewrite norm_uint8. split; intro H.
  - apply Z.eqb_eq in H. lia.
  - apply Z.eqb_eq. lia.
Qed.

Lemma ofN_lor a b : Z.of_N (N.lor a b) = Z.lor (Z.of_N a) (Z.of_N b).
Proof. destruct a, b; reflexivity. Qed.
Lemma ofN_land a b : Z.of_N (N.land a b) = Z.land (Z.of_N a) (Z.of_N b).
Proof. destruct a, b; reflexivity. Qed.
Lemma ofN_lxor a b : Z.of_N (N.lxor a b) = Z.lxor (Z.of_N a) (Z.of_N b).
Proof. destruct a, b; reflexivity. Qed.
Lemma ofN_shiftl a n : Z.of_N (N.shiftl a n) = Z.shiftl (Z.of_N a) (Z.of_N n).
Proof. rewrite N.shiftl_mul_pow2, Z.shiftl_mul_pow2 by lia. rewrite N2Z.inj_mul, N2Z.inj_pow. reflexivity. Qed.
Lemma ofN_shiftr a n : Z.of_N (N.shiftr a n) = Z.shiftr (Z.of_N a) (Z.of_N n).
Proof. rewrite N.shiftr_div_pow2, Z.shiftr_div_pow2 by lia. rewrite N2Z.inj_div, N2Z.inj_pow. reflexivity. Qed.

(* ---------------------------------------------------------------- symbolic execution *)
Ltac gocbn := cbn [go_eval go_evals go_exec go_block go_exec_atom go_bind go_lift go_leave go_restore
  lval_read lval_write lval_index op_assign go_get go_set str_eq gf_bytes_eqb gname_bytes Byte.eqb Byte.to_bits Bool.eqb andb orb negb
  find_fun bind_params bind_results coerce_results final_params named_results coerce definable assignable go_zero named_underlying
  bin_op shift_op shl_z shr_z un_op conv int_arith const_arith is_cmp go_cmp ity_eqb ity_code ity_bits Nat.eqb is_nil_like go_field index_z
  has_bytes has_const existsb lib_const lib_call lib_method ts_of_fields ts_fields fst snd length skipn Nat.sub app map
  fn_name fn_params fn_results fn_body pg_funs pg_globals
  canon_runtime canon_Sov canon_Soz canon_EncodeVarint canon_Skip canon_SizeInputToOptions canon_MarshalInputToOptions
  canon_UnmarshalInputToOptions marshal_options_lit
  canon_timepb canon_IsZero canon_Compare canon_DurationIsNegative canon_AddStd canon_overflowPanic canon_Add
  u64v intv ts_ptr secs nanos].

Ltac is_pos p := lazymatch p with xH => idtac | xO ?q => is_pos q | xI ?q => is_pos q end.
Ltac is_zc z := lazymatch z with Z0 => idtac | Zpos ?p => is_pos p | Zneg ?p => is_pos p
  | Z.opp ?a => is_zc a | Z.shiftl ?a ?b => is_zc a; is_zc b | Z.shiftr ?a ?b => is_zc a; is_zc b
  | Z.add ?a ?b => is_zc a; is_zc b | Z.sub ?a ?b => is_zc a; is_zc b | Z.mul ?a ?b => is_zc a; is_zc b end.
Ltac is_ity t := lazymatch t with TInt => idtac | TInt8 => idtac | TInt16 => idtac | TInt32 => idtac | TInt64 => idtac
  | TUint => idtac | TUint8 => idtac | TUint16 => idtac | TUint32 => idtac | TUint64 => idtac end.
(* closed instances of the arithmetic side conditions *)
Ltac nc := repeat match goal with
  | |- context [const_to ?t ?z] => is_ity t; is_zc z; let v := eval vm_compute in (const_to t z) in change (const_to t z) with v
  | |- context [ity_in ?t ?z] => is_ity t; is_zc z; let v := eval vm_compute in (ity_in t z) in change (ity_in t z) with v
  | |- context [Z.eqb ?a ?b] => is_zc a; is_zc b; let v := eval vm_compute in (Z.eqb a b) in change (Z.eqb a b) with v
  | |- context [Z.leb ?a ?b] => is_zc a; is_zc b; let v := eval vm_compute in (Z.leb a b) in change (Z.leb a b) with v
  | |- context [Z.ltb ?a ?b] => is_zc a; is_zc b; let v := eval vm_compute in (Z.ltb a b) in change (Z.ltb a b) with v
  end.
Ltac go := repeat (gocbn; progress nc); gocbn.

Lemma go_run_S p genv lf d f args :
  go_run p genv lf (S d) f args =
    match find_fun (pg_funs p) f with
    | None => GStuck
    | Some fd =>
      match bind_params (fn_params fd) args, bind_results (fn_results fd) with
      | Some pen, Some ren =>
        let np := List.length (fn_params fd) in
        match go_block genv (go_run p genv lf d) lf (fn_body fd) (ren ++ pen) with
        | SrRet vs en' =>
          let vs' := match vs with
                     | [] => named_results (fn_results fd) en'
                     | _ => Some vs
                     end in
          match vs' with
          | Some l => match coerce_results (fn_results fd) l with Some rets => GOk rets (final_params np en') | None => GStuck end
          | None => GStuck
          end
        | SrNext en' => match fn_results fd with [] => GOk [] (final_params np en') | _ => GStuck end
        | SrBreak _ | SrCont _ => GStuck
        | SrPanic => GPanic
        | SrFuel => GFuel
        | SrStuck => GStuck
        end
      | _, _ => GStuck
      end
    end.
Proof. reflexivity. Qed.

(* enter the function: [run_fun p lf (k + dp) f args] with k a literal *)
Ltac enter := unfold run_fun; cbn [Nat.add]; rewrite go_run_S; cbv zeta.

(* ================================================================ runtime.go *)
Lemma len64_lor1_small x : (x < two64)%N -> (1 <= len64 (N.lor x 1) <= 64)%N.
Proof.
  intro Hx. pose proof (lor_1_bounds x) as [Hlo Hhi].
  assert (Hb : (N.lor x 1 < two64)%N).
  { destruct (N.eq_dec x (two64 - 1)) as [->|Hne]; [vm_compute; reflexivity|]. unfold two64 in *. lia. }
  split; [|apply len64_le_64; exact Hb].
  unfold len64. destruct (N.eqb_spec (N.lor x 1) 0) as [E|_]; [|lia].
  apply N.lor_eq_0_iff in E. destruct E; discriminate.
Qed.

Lemma sov_prog_correct : sov_prog_stmt.
Proof.
  intros x lf dp Hx. enter. go.
  change 1 with (Z.of_N 1). rewrite <- ofN_lor, N2Z.id.
  pose proof (len64_lor1_small x Hx) as Hl. unfold Sov.
  set (L := len64 (N.lor x 1)) in *.
  rewrite !norm_int. rewrite (wrap64_id' (Z.of_N L + 6)) by lia.
  replace ((Z.of_N L + 6) ÷ 7) with (Z.of_N ((L + 6) / 7)).
  - rewrite wrap64_id' by (assert ((L + 6) / 7 <= 10)%N by (apply N.div_le_upper_bound; lia); lia). reflexivity.
  - rewrite N2Z.inj_div. rewrite Z.quot_div_nonneg by lia. f_equal. lia.
Qed.
Lemma zigzag_go x : (x < two64)%N ->
  Z.lxor (ity_norm TUint64 (shl_z 64 (Z.of_N x) 1)) (ity_norm TUint64 (shr_z 64 (ity_norm TInt64 (Z.of_N x)) 63))
  = Z.of_N (zigzag64 x).
Proof.
  intro Hx. unfold zigzag64, shl_z, shr_z. nc. cbv iota.
  rewrite ofN_lxor. f_equal.
  - rewrite norm_uint64. unfold u64. rewrite N2Z.inj_mod, ofN_shiftl. reflexivity.
  - rewrite norm_int64. unfold u64. rewrite N.mod_small by exact Hx.
    rewrite Z.shiftr_div_pow2 by lia. change (2 ^ 63) with 9223372036854775808.
    rewrite norm_uint64. rewrite wrap64_arith. change (Z.of_N two63) with 9223372036854775808. change (Z.of_N two64) with 18446744073709551616. unfold two63, two64 in *.
    destruct (N.ltb_spec x 9223372036854775808) as [H|H].
    + rewrite Z.mod_small by lia. replace (Z.of_N x + 9223372036854775808 - 9223372036854775808) with (Z.of_N x) by lia.
      rewrite Z.div_small by lia. reflexivity.
    + replace ((Z.of_N x + 9223372036854775808) mod 18446744073709551616) with (Z.of_N x - 9223372036854775808) by lia.
      replace ((Z.of_N x - 9223372036854775808 - 9223372036854775808) / 9223372036854775808) with (-1) by lia.
      reflexivity.
Qed.

Lemma lxor_lt_pow2 a b n : (a < 2 ^ n -> b < 2 ^ n -> N.lxor a b < 2 ^ n)%N.
Proof.
  intros Ha Hb.
  destruct (N.eq_dec a 0) as [->|Ha0]; [rewrite N.lxor_0_l; exact Hb|].
  destruct (N.eq_dec b 0) as [->|Hb0]; [rewrite N.lxor_0_r; exact Ha|].
  destruct (N.eq_dec (N.lxor a b) 0) as [->|Hx0]; [lia|].
  apply N.log2_lt_pow2; [lia|].
  apply N.log2_lt_pow2 in Ha; [|lia]. apply N.log2_lt_pow2 in Hb; [|lia].
  pose proof (N.log2_lxor a b). lia.
Qed.
Lemma zigzag64_lt x : (zigzag64 x < two64)%N.
Proof.
  unfold zigzag64. change two64 with (2 ^ 64)%N. apply lxor_lt_pow2.
  - unfold u64. apply N.mod_upper_bound. discriminate.
  - destruct (u64 x <? two63)%N; reflexivity.
Qed.

Lemma soz_prog_correct : soz_prog_stmt.
Proof.
  intros x lf dp Hx. enter. go.
  rewrite (zigzag_go x Hx).
  pose proof (zigzag64_lt x) as Hz.
  pose proof (sov_prog_correct (zigzag64 x) lf dp Hz) as HS. unfold run_fun in HS. cbn [Nat.add] in HS.
  unfold u64v in HS. rewrite HS. go. reflexivity.
Qed.

(* ================================================================ timepb/cmp.go *)
Ltac brk := match goal with |- context [if ?c then _ else _] => destruct c eqn:? end; go.

Lemma iszero_prog_correct : iszero_prog_stmt.
Proof. intros p lf dp. enter. destruct p; go; reflexivity. Qed.

Lemma durationisnegative_prog_correct : durationisnegative_prog_stmt.
Proof.
  intros d lf dp [Hs Hn]. enter. go. unfold DurationIsNegative. repeat brk; reflexivity.
Qed.

Lemma compare_prog_correct : compare_prog_stmt.
Proof.
  intros t1 t2 lf dp [Hs1 Hn1] [Hs2 Hn2]. enter. go. unfold TsCompare.
  repeat brk; try reflexivity; try lia.
Qed.

Lemma compare_nil_prog_correct : compare_nil_prog_stmt.
Proof. intros t lf dp. repeat split; enter; go; reflexivity. Qed.

Lemma compare_range_int t1 t2 : - 9223372036854775808 <= TsCompare t1 t2 < 9223372036854775808.
Proof. pose proof (Compare_range t1 t2). lia. Qed.

Lemma overflowpanic_prog_correct : overflowpanic_prog_stmt.
Proof.
  intros t1 t2 neg lf dp T1 T2. enter. go.
  pose proof (compare_prog_correct t1 t2 lf dp T1 T2) as HC. unfold run_fun in HC. cbn [Nat.add] in HC.
  rewrite HC. go. unfold overflowPanic.
  destruct neg; go; brk; reflexivity.
Qed.

Lemma add_nil_prog_correct : add_nil_prog_stmt.
Proof.
  intros t p lf dp. split; enter; go; reflexivity.
Qed.

Lemma genv_second : go_get "second" (genv_of canon_timepb) = Some (GvInt TInt32 1000000000).
Proof. vm_compute. reflexivity. Qed.

Lemma ts_ptr_fold s n : GvPtr (Some [("Seconds"%gname, GvInt TInt64 s); ("Nanos"%gname, GvInt TInt32 n)]) = ts_ptr {| secs := s; nanos := n |}.
Proof. reflexivity. Qed.
Lemma ts_typed_wrap a b : ts_typed {| secs := wrap64 a; nanos := wrap32 b |}.
Proof. split; cbn [secs nanos]; [apply in_int64_iff, wrap64_range | apply in_int32_iff, wrap32_range]. Qed.

Lemma add_prog_correct : add_prog_stmt.
Proof.
  intros t d lf dp [Hs1 Hn1] [Hs2 Hn2].
  pose proof (durationisnegative_prog_correct d lf (S dp) (conj Hs2 Hn2)) as HD. unfold run_fun in HD. cbn [Nat.add] in HD.
  enter. go. unfold TsAdd.
  pose proof (fun a b => overflowpanic_prog_correct t _ (DurationIsNegative d) lf dp (conj Hs1 Hn1) (ts_typed_wrap a b)) as HO.
  unfold run_fun in HO. cbn [Nat.add] in HO.
  brk.
  - brk.
    + destruct t; reflexivity.
    + rewrite !genv_second. go. rewrite !norm_int32, !norm_int64. unfold second.
      brk; [|brk]; rewrite HD; go; rewrite ts_ptr_fold, HO; brk; reflexivity.
  - rewrite !genv_second. go. rewrite !norm_int32, !norm_int64. unfold second.
      brk; [|brk]; rewrite HD; go; rewrite ts_ptr_fold, HO; brk; reflexivity.
Qed.
