(* Proofs/GoFunProofs.v — the canonical programs of Model/GoFun.v (runtime.go, timepb/cmp.go transcribed) compute the
   hand-written models Runtime.v / TimePb.v: one lemma <name>_correct per target statement <name>_stmt (task T12).

   Method: symbolic execution of the interpreter by [cbn] restricted to the interpreter's own functions ([gocbn]); machine
   arithmetic ([ity_norm], [const_to], Z operations) is never unfolded: closed instances are evaluated by [nc], the others
   are rewritten with the lemmas of the first section. Loops are handled through named copies of the interpreter's inner
   fixpoints ([for_loop], convertible with them). *)
From Coq Require Import Lia ZifyN ZifyNat ZifyBool.
From CP Require Import Bytes Runtime TimePb GoFun BytesLemmas RuntimeProofs TimePbProofs.
Ltac Zify.zify_post_hook ::= Z.div_mod_to_equations.
Local Open Scope Z_scope.

(* ---------------------------------------------------------------- machine arithmetic *)
Lemma norm_int z : ity_norm TInt z = wrap64 z.
Proof.
  unfold ity_norm. cbn [ity_mod ity_signed]. rewrite wrap64_arith. unfold two63, two64.
  change (18446744073709551616 / 2) with 9223372036854775808.
  destruct (Z.ltb_spec (z mod 18446744073709551616) 9223372036854775808); lia.
Qed.
Lemma norm_int64 z : ity_norm TInt64 z = wrap64 z.
Proof. exact (norm_int z). Qed.
Lemma norm_int32 z : ity_norm TInt32 z = wrap32 z.
Proof.
  unfold ity_norm. cbn [ity_mod ity_signed]. rewrite wrap32_arith.
  change (4294967296 / 2) with 2147483648.
  destruct (Z.ltb_spec (z mod 4294967296) 2147483648); lia.
Qed.
Lemma norm_uint64 z : ity_norm TUint64 z = z mod 18446744073709551616.
Proof. reflexivity. Qed.
Lemma norm_uint z : ity_norm TUint z = z mod 18446744073709551616.
Proof. reflexivity. Qed.
Lemma norm_uint8 z : ity_norm TUint8 z = z mod 256.
Proof. reflexivity. Qed.

Lemma wrap64_id' z : - 9223372036854775808 <= z < 9223372036854775808 -> wrap64 z = z.
Proof. intro H. apply wrap64_id. unfold int64, two63. lia. Qed.
Lemma wrap64_range z : - 9223372036854775808 <= wrap64 z < 9223372036854775808.
Proof. rewrite wrap64_arith. unfold two63, two64. lia. Qed.
Lemma wrap32_range z : - 2147483648 <= wrap32 z < 2147483648.
Proof. rewrite wrap32_arith. lia. Qed.

Lemma in_int_iff z : in_ity TInt z <-> - 9223372036854775808 <= z < 9223372036854775808.
Proof.
  unfold in_ity, ity_in. rewrite norm_int. split; intro H.
  - apply Z.eqb_eq in H. rewrite H. apply wrap64_range.
  - apply Z.eqb_eq. symmetry. apply wrap64_id'. exact H.
Qed.
Lemma in_int64_iff z : in_ity TInt64 z <-> - 9223372036854775808 <= z < 9223372036854775808.
Proof. exact (in_int_iff z). Qed.
Lemma in_int32_iff z : in_ity TInt32 z <-> - 2147483648 <= z < 2147483648.
Proof.
  unfold in_ity, ity_in. rewrite norm_int32. split; intro H.
  - apply Z.eqb_eq in H. rewrite H. apply wrap32_range.
  - apply Z.eqb_eq. symmetry. apply wrap32_id. exact H.
Qed.
Lemma in_uint8_iff z : in_ity TUint8 z <-> 0 <= z < 256.
Proof.
  unfold in_ity, ity_in. rewrite norm_uint8. split; intro H.
  - apply Z.eqb_eq in H. lia.
  - apply Z.eqb_eq. lia.
Qed.

Lemma ofN_lor a b : Z.of_N (N.lor a b) = Z.lor (Z.of_N a) (Z.of_N b).
Proof. destruct a, b; reflexivity. Qed.
Lemma ofN_land a b : Z.of_N (N.land a b) = Z.land (Z.of_N a) (Z.of_N b).
Proof. destruct a, b; reflexivity. Qed.
Lemma ofN_lxor a b : Z.of_N (N.lxor a b) = Z.lxor (Z.of_N a) (Z.of_N b).
Proof. destruct a, b; reflexivity. Qed.
Lemma ofN_shiftl a n : Z.of_N (N.shiftl a n) = Z.shiftl (Z.of_N a) (Z.of_N n).
Proof. rewrite N.shiftl_mul_pow2, Z.shiftl_mul_pow2 by lia. rewrite N2Z.inj_mul, N2Z.inj_pow. reflexivity. Qed.
Lemma ofN_shiftr a n : Z.of_N (N.shiftr a n) = Z.shiftr (Z.of_N a) (Z.of_N n).
Proof. rewrite N.shiftr_div_pow2, Z.shiftr_div_pow2 by lia. rewrite N2Z.inj_div, N2Z.inj_pow. reflexivity. Qed.

(* ---------------------------------------------------------------- symbolic execution *)
Ltac gocbn := cbn [go_eval go_evals go_exec go_block go_exec_atom go_bind go_lift go_leave go_restore
  lval_read lval_write lval_index op_assign go_get go_set str_eq gf_bytes_eqb gname_bytes Byte.eqb Byte.to_bits Bool.eqb andb orb negb
  find_fun bind_params bind_results coerce_results final_params named_results coerce definable assignable go_zero named_underlying
  bin_op shift_op shl_z shr_z un_op conv int_arith const_arith is_cmp go_cmp ity_eqb ity_code ity_bits Nat.eqb is_nil_like go_field index_z
  has_bytes has_const existsb lib_const lib_call lib_method ts_of_fields ts_fields fst snd length skipn Nat.sub app map
  fn_name fn_params fn_results fn_body pg_funs pg_globals
  canon_runtime canon_Sov canon_Soz canon_EncodeVarint canon_Skip canon_SizeInputToOptions canon_MarshalInputToOptions
  canon_UnmarshalInputToOptions marshal_options_lit
  canon_timepb canon_IsZero canon_Compare canon_DurationIsNegative canon_AddStd canon_overflowPanic canon_Add
  u64v intv ts_ptr secs nanos].

Ltac is_pos p := lazymatch p with xH => idtac | xO ?q => is_pos q | xI ?q => is_pos q end.
Ltac is_zc z := lazymatch z with Z0 => idtac | Zpos ?p => is_pos p | Zneg ?p => is_pos p
  | Z.opp ?a => is_zc a | Z.shiftl ?a ?b => is_zc a; is_zc b | Z.shiftr ?a ?b => is_zc a; is_zc b
  | Z.add ?a ?b => is_zc a; is_zc b | Z.sub ?a ?b => is_zc a; is_zc b | Z.mul ?a ?b => is_zc a; is_zc b end.
Ltac is_ity t := lazymatch t with TInt => idtac | TInt8 => idtac | TInt16 => idtac | TInt32 => idtac | TInt64 => idtac
  | TUint => idtac | TUint8 => idtac | TUint16 => idtac | TUint32 => idtac | TUint64 => idtac end.
(* closed instances of the arithmetic side conditions *)
Ltac nc := repeat match goal with
  | |- context [const_to ?t ?z] => is_ity t; is_zc z; let v := eval vm_compute in (const_to t z) in change (const_to t z) with v
  | |- context [ity_in ?t ?z] => is_ity t; is_zc z; let v := eval vm_compute in (ity_in t z) in change (ity_in t z) with v
  | |- context [Z.eqb ?a ?b] => is_zc a; is_zc b; let v := eval vm_compute in (Z.eqb a b) in change (Z.eqb a b) with v
  | |- context [Z.leb ?a ?b] => is_zc a; is_zc b; let v := eval vm_compute in (Z.leb a b) in change (Z.leb a b) with v
  | |- context [Z.ltb ?a ?b] => is_zc a; is_zc b; let v := eval vm_compute in (Z.ltb a b) in change (Z.ltb a b) with v
  end.
Ltac go := repeat (gocbn; progress nc); gocbn.

Lemma go_run_S p genv lf d f args :
  go_run p genv lf (S d) f args =
    match find_fun (pg_funs p) f with
    | None => GStuck
    | Some fd =>
      match bind_params (fn_params fd) args, bind_results (fn_results fd) with
      | Some pen, Some ren =>
        let np := List.length (fn_params fd) in
        match go_block genv (go_run p genv lf d) lf (fn_body fd) (ren ++ pen) with
        | SrRet vs en' =>
          let vs' := match vs with
                     | [] => named_results (fn_results fd) en'
                     | _ => Some vs
                     end in
          match vs' with
          | Some l => match coerce_results (fn_results fd) l with Some rets => GOk rets (final_params np en') | None => GStuck end
          | None => GStuck
          end
        | SrNext en' => match fn_results fd with [] => GOk [] (final_params np en') | _ => GStuck end
        | SrBreak _ | SrCont _ => GStuck
        | SrPanic => GPanic
        | SrFuel => GFuel
        | SrStuck => GStuck
        end
      | _, _ => GStuck
      end
    end.
Proof. reflexivity. Qed.

(* enter the function: [run_fun p lf (k + dp) f args] with k a literal *)
Ltac enter := unfold run_fun; cbn [Nat.add]; rewrite go_run_S; cbv zeta.

(* ================================================================ runtime.go *)
Lemma len64_lor1_small x : (x < two64)%N -> (1 <= len64 (N.lor x 1) <= 64)%N.
Proof.
  intro Hx. pose proof (lor_1_bounds x) as [Hlo Hhi].
  assert (Hb : (N.lor x 1 < two64)%N).
  { destruct (N.eq_dec x (two64 - 1)) as [->|Hne]; [vm_compute; reflexivity|]. unfold two64 in *. lia. }
  split; [|apply len64_le_64; exact Hb].
  unfold len64. destruct (N.eqb_spec (N.lor x 1) 0) as [E|_]; [|lia].
  apply N.lor_eq_0_iff in E. destruct E; discriminate.
Qed.

Lemma sov_prog_correct : sov_prog_stmt.
Proof.
  intros x lf dp Hx. enter. go.
  change 1 with (Z.of_N 1). rewrite <- ofN_lor, N2Z.id.
  pose proof (len64_lor1_small x Hx) as Hl. unfold Sov.
  set (L := len64 (N.lor x 1)) in *.
  rewrite !norm_int. rewrite (wrap64_id' (Z.of_N L + 6)) by lia.
  replace ((Z.of_N L + 6) ÷ 7) with (Z.of_N ((L + 6) / 7)).
  - rewrite wrap64_id' by (assert ((L + 6) / 7 <= 10)%N by (apply N.div_le_upper_bound; lia); lia). reflexivity.
  - rewrite N2Z.inj_div. rewrite Z.quot_div_nonneg by lia. f_equal. lia.
Qed.
Lemma zigzag_go x : (x < two64)%N ->
  Z.lxor (ity_norm TUint64 (shl_z 64 (Z.of_N x) 1)) (ity_norm TUint64 (shr_z 64 (ity_norm TInt64 (Z.of_N x)) 63))
  = Z.of_N (zigzag64 x).
Proof.
  intro Hx. unfold zigzag64, shl_z, shr_z. nc. cbv iota.
  rewrite ofN_lxor. f_equal.
  - rewrite norm_uint64. unfold u64. rewrite N2Z.inj_mod, ofN_shiftl. reflexivity.
  - rewrite norm_int64. unfold u64. rewrite N.mod_small by exact Hx.
    rewrite Z.shiftr_div_pow2 by lia. change (2 ^ 63) with 9223372036854775808.
    rewrite norm_uint64. rewrite wrap64_arith. change (Z.of_N two63) with 9223372036854775808. change (Z.of_N two64) with 18446744073709551616. unfold two63, two64 in *.
    destruct (N.ltb_spec x 9223372036854775808) as [H|H].
    + rewrite Z.mod_small by lia. replace (Z.of_N x + 9223372036854775808 - 9223372036854775808) with (Z.of_N x) by lia.
      rewrite Z.div_small by lia. reflexivity.
    + replace ((Z.of_N x + 9223372036854775808) mod 18446744073709551616) with (Z.of_N x - 9223372036854775808) by lia.
      replace ((Z.of_N x - 9223372036854775808 - 9223372036854775808) / 9223372036854775808) with (-1) by lia.
      reflexivity.
Qed.

Lemma lxor_lt_pow2 a b n : (a < 2 ^ n -> b < 2 ^ n -> N.lxor a b < 2 ^ n)%N.
Proof.
  intros Ha Hb.
  destruct (N.eq_dec a 0) as [->|Ha0]; [rewrite N.lxor_0_l; exact Hb|].
  destruct (N.eq_dec b 0) as [->|Hb0]; [rewrite N.lxor_0_r; exact Ha|].
  destruct (N.eq_dec (N.lxor a b) 0) as [->|Hx0]; [lia|].
  apply N.log2_lt_pow2; [lia|].
  apply N.log2_lt_pow2 in Ha; [|lia]. apply N.log2_lt_pow2 in Hb; [|lia].
  pose proof (N.log2_lxor a b). lia.
Qed.
Lemma zigzag64_lt x : (zigzag64 x < two64)%N.
Proof.
  unfold zigzag64. change two64 with (2 ^ 64)%N. apply lxor_lt_pow2.
  - unfold u64. apply N.mod_upper_bound. discriminate.
  - destruct (u64 x <? two63)%N; reflexivity.
Qed.

Lemma soz_prog_correct : soz_prog_stmt.
Proof.
  intros x lf dp Hx. enter. go.
  rewrite (zigzag_go x Hx).
  pose proof (zigzag64_lt x) as Hz.
  pose proof (sov_prog_correct (zigzag64 x) lf dp Hz) as HS. unfold run_fun in HS. cbn [Nat.add] in HS.
  unfold u64v in HS. rewrite HS. go. reflexivity.
Qed.

(* ================================================================ timepb/cmp.go *)
Ltac brk := match goal with |- context [if ?c then _ else _] => destruct c eqn:? end; go.

Lemma iszero_prog_correct : iszero_prog_stmt.
Proof. intros p lf dp. enter. destruct p; go; reflexivity. Qed.

Lemma durationisnegative_prog_correct : durationisnegative_prog_stmt.
Proof.
  intros d lf dp [Hs Hn]. enter. go. unfold DurationIsNegative. repeat brk; reflexivity.
Qed.

Lemma compare_prog_correct : compare_prog_stmt.
Proof.
  intros t1 t2 lf dp [Hs1 Hn1] [Hs2 Hn2]. enter. go. unfold TsCompare.
  repeat brk; try reflexivity; try lia.
Qed.

Lemma compare_nil_prog_correct : compare_nil_prog_stmt.
Proof. intros t lf dp. repeat split; enter; go; reflexivity. Qed.

Lemma compare_range_int t1 t2 : - 9223372036854775808 <= TsCompare t1 t2 < 9223372036854775808.
Proof. pose proof (Compare_range t1 t2). lia. Qed.

Lemma overflowpanic_prog_correct : overflowpanic_prog_stmt.
Proof.
  intros t1 t2 neg lf dp T1 T2. enter. go.
  pose proof (compare_prog_correct t1 t2 lf dp T1 T2) as HC. unfold run_fun in HC. cbn [Nat.add] in HC.
  rewrite HC. go. unfold overflowPanic.
  destruct neg; go; brk; reflexivity.
Qed.

Lemma add_nil_prog_correct : add_nil_prog_stmt.
Proof.
  intros t p lf dp. split; enter; go; reflexivity.
Qed.

Lemma genv_second : go_get "second" (genv_of canon_timepb) = Some (GvInt TInt32 1000000000).
Proof. vm_compute. reflexivity. Qed.

Lemma ts_ptr_fold s n : GvPtr (Some [("Seconds"%gname, GvInt TInt64 s); ("Nanos"%gname, GvInt TInt32 n)]) = ts_ptr {| secs := s; nanos := n |}.
Proof. reflexivity. Qed.
Lemma ts_typed_wrap a b : ts_typed {| secs := wrap64 a; nanos := wrap32 b |}.
Proof. split; cbn [secs nanos]; [apply in_int64_iff, wrap64_range | apply in_int32_iff, wrap32_range]. Qed.

Lemma add_prog_correct : add_prog_stmt.
Proof.
  intros t d lf dp [Hs1 Hn1] [Hs2 Hn2].
  pose proof (durationisnegative_prog_correct d lf (S dp) (conj Hs2 Hn2)) as HD. unfold run_fun in HD. cbn [Nat.add] in HD.
  enter. go. unfold TsAdd.
  pose proof (fun a b => overflowpanic_prog_correct t _ (DurationIsNegative d) lf dp (conj Hs1 Hn1) (ts_typed_wrap a b)) as HO.
  unfold run_fun in HO. cbn [Nat.add] in HO.
  brk.
  - brk.
    + destruct t; reflexivity.
    + rewrite !genv_second. go. rewrite !norm_int32, !norm_int64. unfold second.
      brk; [|brk]; rewrite HD; go; rewrite ts_ptr_fold, HO; brk; reflexivity.
  - rewrite !genv_second. go. rewrite !norm_int32, !norm_int64. unfold second.
      brk; [|brk]; rewrite HD; go; rewrite ts_ptr_fold, HO; brk; reflexivity.
Qed.

(* ================================================================ runtime.go: the option builders *)
Lemma child_limit_correct : child_limit_stmt.
Proof.
  intros depth Hd Hpos. apply in_int_iff in Hd. unfold child_limit.
  rewrite wrap64_id' by lia. split; intro H.
  - destruct (Z.leb_spec (depth - 1) 0); [reflexivity|lia].
  - destruct (Z.leb_spec (depth - 1) 0); [lia|reflexivity].
Qed.

Lemma options_prog_correct : options_prog_stmt.
Proof.
  intros a b flags depth lf dp Hf Hd nul res. subst nul res. apply in_uint8_iff in Hf.
  split; [|split].
  - enter. go. unfold marshal_input. go. reflexivity.
  - enter. go. unfold marshal_input. go. reflexivity.
  - enter. go. unfold unmarshal_input. go. rewrite !norm_int.
    unfold unmarshal_options_spec, child_limit. cbv zeta. brk; reflexivity.
Qed.

(* ================================================================ loops: named copies of the interpreter's inner fixpoints *)
Section Loops.
  Variable genv : goenv.
  Variable call : gname -> list gvalue -> gres.
  Variable lf : nat.

  Definition exec_blk (b : list gstmt) (en : goenv) : stres := go_leave en (go_block genv call lf b en).

  Definition for_loop (c : option gexpr) (post body : list gstmt) : nat -> goenv -> stres :=
    fix for_loop (fuel : nat) (en : goenv) {struct fuel} : stres :=
    match fuel with
    | O => SrFuel
    | S f =>
      go_lift (match c with Some ce => go_eval genv call en ce | None => ErOk (GvBool true) end) (fun v =>
        match v with
        | GvBool false => SrNext en
        | GvBool true =>
          match exec_blk body en with
          | SrNext en' | SrCont en' =>
            match go_block genv call lf post en' with
            | SrNext en'' => for_loop f en''
            | SrBreak _ | SrCont _ => SrStuck
            | r => r
            end
          | SrBreak en' => SrNext en'
          | r => r
          end
        | _ => SrStuck
        end)
    end.

  Lemma exec_for init c post body en :
    go_exec genv call lf (StFor init c post body) en =
    go_leave en (match go_block genv call lf init en with
                 | SrNext en1 => for_loop c post body lf en1
                 | SrBreak _ | SrCont _ => SrStuck
                 | r => r
                 end).
  Proof. reflexivity. Qed.

  Lemma for_loop_S c post body f en :
    for_loop c post body (S f) en =
      go_lift (match c with Some ce => go_eval genv call en ce | None => ErOk (GvBool true) end) (fun v =>
        match v with
        | GvBool false => SrNext en
        | GvBool true =>
          match exec_blk body en with
          | SrNext en' | SrCont en' =>
            match go_block genv call lf post en' with
            | SrNext en'' => for_loop c post body f en''
            | SrBreak _ | SrCont _ => SrStuck
            | r => r
            end
          | SrBreak en' => SrNext en'
          | r => r
          end
        | _ => SrStuck
        end).
  Proof. reflexivity. Qed.

  Lemma exec_if c a b en :
    go_exec genv call lf (StIf c a b) en =
    go_lift (go_eval genv call en c) (fun v =>
      match v with GvBool true => exec_blk a en | GvBool false => exec_blk b en | _ => SrStuck end).
  Proof. reflexivity. Qed.
End Loops.

(* ================================================================ runtime.go: EncodeVarint *)
Definition ev_cond : gexpr := ExBin BGe (ExVar "v") (ExBin BShl (ExConst 1) (ExConst 7)).
Definition ev_body : list gstmt :=
  [StAssign (LvIndex "dAtA" (ExVar "offset")) (ExConv TUint8 (ExBin BOr (ExBin BAnd (ExVar "v") (ExConst 127)) (ExConst 128)));
   StOpAssign BShr (LvVar "v") (ExConst 7);
   StInc (LvVar "offset")].
Definition ev_env (base : Z) (buf : list byte) (off : Z) (v : N) : goenv :=
  [("base"%gname, intv base); ("dAtA"%gname, GvBytes buf); ("offset"%gname, intv off); ("v"%gname, u64v v)].

(* the loop alone: Runtime.ev_loop without the last write *)
Fixpoint ev_pre (fuel : nat) (buf : list byte) (off : Z) (v : N) : outcome (list byte * Z * N) :=
  match fuel with
  | O => OutOfFuel
  | S f =>
    if (128 <=? v)%N then
      if in_range buf off
      then ev_pre f (upd buf (Z.to_nat off) (n2b (N.lor (N.land v 127) 128))) (off + 1)%Z (N.shiftr v 7)
      else Panic
    else Ok (buf, off, v)
  end.
Lemma ev_loop_pre fuel : forall buf off v,
  ev_loop fuel buf off v =
  match ev_pre fuel buf off v with
  | Ok (b, o, w) => if in_range b o then Ok (upd b (Z.to_nat o) (n2b w)) else Panic
  | Err => Err | Panic => Panic | OutOfFuel => OutOfFuel
  end.
Proof.
  induction fuel as [|f IH]; intros buf off v; cbn [ev_loop ev_pre]; [reflexivity|].
  destruct (128 <=? v)%N; [|reflexivity]. destruct (in_range buf off); [apply IH|reflexivity].
Qed.


Lemma bytes_set_eq buf off b :
  bytes_set buf off b = if in_range buf off then ErOk (upd buf (Z.to_nat off) (n2b (Z.to_N b))) else ErPanic.
Proof. reflexivity. Qed.
Lemma leb_ofN a b : (Z.of_N a <=? Z.of_N b) = (a <=? b)%N.
Proof. destruct (Z.leb_spec (Z.of_N a) (Z.of_N b)); destruct (N.leb_spec a b); try reflexivity; lia. Qed.
Lemma n2b_mod256 n : n2b (n mod 256) = n2b n.
Proof. unfold n2b. rewrite N.mod_mod by discriminate. reflexivity. Qed.
Lemma n2b_uint8 n : n2b (Z.to_N (ity_norm TUint8 (Z.of_N n))) = n2b n.
Proof. rewrite norm_uint8. change 256 with (Z.of_N 256). rewrite <- N2Z.inj_mod, N2Z.id. apply n2b_mod256. Qed.

Lemma ev_pre_S f buf off v :
  ev_pre (S f) buf off v =
    if (128 <=? v)%N then
      if in_range buf off
      then ev_pre f (upd buf (Z.to_nat off) (n2b (N.lor (N.land v 127) 128))) (off + 1)%Z (N.shiftr v 7)
      else Panic
    else Ok (buf, off, v).
Proof. reflexivity. Qed.
Lemma in_range_bounds buf off : in_range buf off = true -> 0 <= off < Z.of_nat (length buf).
Proof. unfold in_range. intro H. apply andb_prop in H. lia. Qed.
Lemma shiftr7_lt v f : (v < 128 * 2 ^ (7 * N.of_nat (S f)) -> N.shiftr v 7 < 128 * 2 ^ (7 * N.of_nat f))%N.
Proof.
  intro Hv. rewrite N.shiftr_div_pow2. change (2 ^ 7)%N with 128%N.
  apply N.div_lt_upper_bound; [discriminate|].
  replace (7 * N.of_nat (S f))%N with (7 + 7 * N.of_nat f)%N in Hv by lia.
  rewrite N.pow_add_r in Hv. change (2 ^ 7)%N with 128%N in Hv. lia.
Qed.

Lemma ev_loop_go genv call lf0 base f : forall k buf off v,
  (v < 128 * 2 ^ (7 * N.of_nat f))%N -> in_ity TInt off -> Z.of_nat (length buf) + 10 <= Z.of_N two63 ->
  for_loop genv call lf0 (Some ev_cond) [] ev_body (S f + k) (ev_env base buf off v) =
  match ev_pre (S f) buf off v with
  | Ok (b, o, w) => SrNext (ev_env base b o w)
  | Panic => SrPanic
  | OutOfFuel => SrFuel
  | Err => SrStuck
  end.
Proof.
  induction f as [|f IH]; intros k buf off v Hv Hoff Hlen.
  - cbn [Nat.add]. rewrite for_loop_S. unfold ev_cond, ev_body, exec_blk, ev_env. go.
    change (Z.shiftl 1 7) with (Z.of_N 128). rewrite leb_ofN. cbn [ev_pre].
    destruct (N.leb_spec 128 v) as [H|H]; [cbn in Hv; lia|]. reflexivity.
  - cbn [Nat.add]. rewrite for_loop_S, ev_pre_S.
    pose proof (shiftr7_lt v f Hv) as Hv'.
    unfold ev_cond at 1. unfold ev_body at 1. unfold exec_blk, ev_env. go.
    change (Z.shiftl 1 7) with (Z.of_N 128). rewrite leb_ofN.
    destruct (N.leb_spec 128 v) as [H|H]; [|reflexivity].
    rewrite bytes_set_eq. destruct (in_range buf off) eqn:Hr; go; [|reflexivity].
    apply in_range_bounds in Hr. apply in_int_iff in Hoff. change (Z.of_N two63) with 9223372036854775808 in Hlen.
    assert (E1 : n2b (Z.to_N (ity_norm TUint8 (Z.lor (Z.land (Z.of_N v) 127) 128))) = n2b (N.lor (N.land v 127) 128)).
    { change 127 with (Z.of_N 127). change 128 with (Z.of_N 128). rewrite <- ofN_land, <- ofN_lor. apply n2b_uint8. }
    assert (E2 : ity_norm TInt (off + 1) = off + 1) by (rewrite norm_int; apply wrap64_id'; lia).
    assert (E3 : shr_z 64 (Z.of_N v) 7 = Z.of_N (N.shiftr v 7)).
    { unfold shr_z. nc. cbv iota. change 7 with (Z.of_N 7). symmetry. apply ofN_shiftr. }
    rewrite E1, E2, E3.
    assert (Ho' : in_ity TInt (off + 1)) by (apply in_int_iff; lia).
    assert (Hl' : Z.of_nat (length (upd buf (Z.to_nat off) (n2b (N.lor (N.land v 127) 128)))) + 10 <= Z.of_N two63) by (rewrite upd_length; exact Hlen).
    exact (IH k _ (off + 1) _ Hv' Ho' Hl').
Qed.

Lemma encodevarint_prog_correct : encodevarint_prog_stmt.
Proof.
  intros buf off v lf dp Hv Hoff Hlen.
  pose proof (sov_prog_correct v (10 + lf)%nat dp Hv) as HS. unfold run_fun in HS. cbn [Nat.add] in HS.
  enter. unfold canon_runtime at 1. unfold canon_EncodeVarint.
  match goal with |- context [StFor ?a ?b ?c ?d] => set (L := StFor a b c d) end.
  go. rewrite HS. go. subst L. rewrite exec_for. gocbn.
  rewrite norm_int.
  set (base := off - Z.of_N (Sov v)). set (o := wrap64 base).
  change (for_loop ?g ?c ?l _ _ _ _ _) with (for_loop g c l (Some ev_cond) [] ev_body (S 9 + lf) (ev_env o buf o v)).
  pose proof (Sov_bounds v Hv) as HSov. apply in_int_iff in Hoff.
  assert (Ho : in_ity TInt o) by (apply in_int_iff, wrap64_range).
  rewrite ev_loop_go; [|eapply N.lt_le_trans; [exact Hv|vm_compute; discriminate]|exact Ho|exact Hlen].
  assert (HE : EncodeVarint buf off v = match ev_loop 10 buf o v with Ok b => Ok (b, o) | Err => Err | Panic => Panic | OutOfFuel => OutOfFuel end).
  { unfold EncodeVarint. fold base. destruct (Z_le_gt_dec (- 9223372036854775808) base) as [Hb|Hb].
    - unfold o. rewrite wrap64_id' by lia. reflexivity.
    - assert (Hv70 : (v < 2 ^ (7 * N.of_nat 10))%N) by (eapply N.lt_trans; [exact Hv|reflexivity]).
      pose proof (enc_varint_len_bounds v) as Hel. unfold enc_varint in Hel.
      change (Z.of_N two63) with 9223372036854775808 in Hlen.
      rewrite (ev_loop_panics 10 v buf base) by (try exact Hv70; lia).
      rewrite (ev_loop_panics 10 v buf o); [reflexivity|lia|exact Hv70|].
      right. unfold o. rewrite wrap64_arith. change (Z.of_N two63) with 9223372036854775808. change (Z.of_N two64) with 18446744073709551616. lia. }
  rewrite HE. rewrite ev_loop_pre.
  destruct (ev_pre 10 buf o v) as [[[b o'] w]| | |]; unfold ev_env; go; try reflexivity.
  rewrite bytes_set_eq. rewrite n2b_uint8. destruct (in_range b o'); go; reflexivity.
Qed.

(* ================================================================ timepb/cmp.go: AddStd *)
Lemma addstd_prog_correct : addstd_prog_stmt.
Proof.
  intros t d lf dp [Hs Hn] Hd Hrange. destruct t as [s n]. cbn [secs nanos] in *.
  enter. go. unfold TsAddStd.
  brk; [reflexivity|].
  set (i := inst {| secs := s; nanos := n |} + d).
  apply in_int64_iff in Hd. apply in_int32_iff in Hn.
  assert (Hq : - 9223372036854775808 <= i / second < 9223372036854775808).
  { unfold i, inst, second. cbn [secs nanos]. lia. }
  assert (Hm : 0 <= i mod second < 1000000000) by (unfold second; lia).
  assert (Hi : ity_in TInt64 (i / second) = true) by (apply in_int64_iff; exact Hq).
  rewrite Hi. go.
  assert (T2 : ts_typed {| secs := i / second; nanos := i mod second |}).
  { split; cbn [secs nanos]; [exact Hi|apply in_int32_iff; lia]. }
  assert (T1 : ts_typed {| secs := s; nanos := n |}) by (split; cbn [secs nanos]; [exact Hs|apply in_int32_iff; exact Hn]).
  pose proof (overflowpanic_prog_correct _ _ (d <? 0) lf dp T1 T2) as HO. unfold run_fun in HO. cbn [Nat.add] in HO.
  unfold ts_fields at 1. rewrite ts_ptr_fold.
  rewrite HO. fold i. brk; reflexivity.
Qed.
