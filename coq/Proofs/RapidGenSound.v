(* Proofs/RapidGenSound.v — C18: every output of the tape-driven generator model (RapidGen.gen, the code
   after its seven fix: commits) lies in the range predicate (RapidGen.rapid_in_range), for every
   schema, option set and draw tape. Part 1: draws and scalars. Part 2: a size-free description of
   the outputs ([sdeep]: like the range predicate, but an Any says "the marshalled form of SOME
   described payload" instead of decoding its bytes) and gen's outputs satisfy it (one induction on
   the fuel, with the revisiting of map entries as the multiplicity q). Part 3: for a value whose
   encoding fits a Go slice (< 2^63 bytes) the description implies the range predicate: C01 (decode o
   marshal = norm) and the range predicate is closed under norm. *)
From Coq Require Import Lia ZifyN ZifyNat ZifyBool Permutation.
From CP Require Import BytesLemmas DecodeTotal Extra CodecSize RoundTrip RapidGen RapidGenProofs.
Local Open Scope N_scope.

(* ================================ Part 1: draws ================================================ *)
Lemma draw_z_range lo hi tp : (lo <= hi)%Z -> (lo <= fst (draw_z lo hi tp) <= hi)%Z.
Proof.
  intros H. unfold draw_z. destruct (draw tp) as [x t]. cbn [fst].
  pose proof (Z.mod_pos_bound (Z.of_N x) (hi - lo + 1)). lia.
Qed.

Lemma draw_n_range lo hi tp : lo <= hi -> lo <= fst (draw_n lo hi tp) <= hi.
Proof.
  intros H. unfold draw_n. destruct (draw tp) as [x t]. cbn [fst].
  pose proof (N.mod_upper_bound x (hi - lo + 1)). lia.
Qed.

Ltac dm := zify; Z.div_mod_to_equations; lia.
(* decide every comparison whose outcome follows from the context by linear arithmetic; split the rest *)
Ltac dec_cmp :=
  repeat match goal with
         | |- context [N.ltb ?a ?b] =>
           first [ replace (N.ltb a b) with true by (symmetry; apply N.ltb_lt; lia)
                 | replace (N.ltb a b) with false by (symmetry; apply N.ltb_ge; lia)
                 | destruct (N.ltb_spec a b) ]
         | |- context [N.leb ?a ?b] =>
           first [ replace (N.leb a b) with true by (symmetry; apply N.leb_le; lia)
                 | replace (N.leb a b) with false by (symmetry; apply N.leb_gt; lia)
                 | destruct (N.leb_spec a b) ]
         | |- context [N.eqb ?a ?b] =>
           first [ replace (N.eqb a b) with true by (symmetry; apply N.eqb_eq; lia)
                 | replace (N.eqb a b) with false by (symmetry; apply N.eqb_neq; lia)
                 | destruct (N.eqb_spec a b) ]
         end; cbn [andb orb negb]; try reflexivity.

(* a Unicode scalar value, UTF-8 encoded, is accepted by the validity checker *)
Lemma utf8_encode_valid c rest : scalar_value c = true -> utf8_valid (utf8_encode c ++ rest) = utf8_valid rest.
Proof.
  unfold scalar_value. intros Hs.
  assert (Hc : c < 55296 \/ (57344 <= c /\ c < 1114112)).
  { apply orb_true_iff in Hs. destruct Hs as [H|H]; [left; apply N.ltb_lt; exact H|right].
    apply andb_true_iff in H. destruct H as [H1 H2]. apply N.leb_le in H1. apply N.ltb_lt in H2. lia. }
  clear Hs. unfold utf8_encode.
  destruct (N.ltb_spec c 128) as [H1|H1].
  { cbn [app utf8_valid]. rewrite b2n_n2b_small by lia. destruct (N.ltb_spec c 128); [reflexivity|lia]. }
  destruct (N.ltb_spec c 2048) as [H2|H2].
  { assert (F : 2 <= c / 64 < 32 /\ c mod 64 < 64) by dm.
    set (d := c / 64) in *. set (m := c mod 64) in *. clearbody d m.
    cbn [app utf8_valid]. unfold cont. rewrite !b2n_n2b_small by lia. cbv zeta. dec_cmp. }
  destruct (N.ltb_spec c 65536) as [H3|H3].
  { assert (F : c / 4096 < 16 /\ (c / 64) mod 64 < 64 /\ c mod 64 < 64 /\
                (c / 4096 = 0 -> 32 <= (c / 64) mod 64) /\ (c / 4096 = 13 -> (c / 64) mod 64 < 32)) by dm.
    set (a := c / 4096) in *. set (b := (c / 64) mod 64) in *. set (m := c mod 64) in *. clearbody a b m.
    cbn [app utf8_valid]. unfold cont, in_rng. rewrite !b2n_n2b_small by lia. cbv zeta. dec_cmp. }
  assert (F : c / 262144 < 5 /\ (c / 4096) mod 64 < 64 /\ (c / 64) mod 64 < 64 /\ c mod 64 < 64 /\
              (c / 262144 = 0 -> 16 <= (c / 4096) mod 64) /\ (c / 262144 = 4 -> (c / 4096) mod 64 < 16)) by dm.
  set (a := c / 262144) in *. set (b := (c / 4096) mod 64) in *. set (b2 := (c / 64) mod 64) in *. set (m := c mod 64) in *.
  clearbody a b b2 m.
  cbn [app utf8_valid]. unfold cont, in_rng. rewrite !b2n_n2b_small by lia. cbv zeta. dec_cmp.
Qed.

Lemma rune_of_scalar x : scalar_value (rune_of x) = true.
Proof.
  unfold rune_of, scalar_value. pose proof (N.mod_upper_bound x 1112064).
  set (y := x mod 1112064) in *. clearbody y. destruct (N.ltb_spec y 55296).
  - dec_cmp.
  - dec_cmp.
Qed.

Lemma draw_many_forall {A} (P : A -> Prop) (f : tape -> A * tape) :
  (forall t, P (fst (f t))) -> forall n tp, Forall P (fst (draw_many f n tp)).
Proof.
  intros Hf. induction n as [|n IH]; intros tp; cbn [draw_many]; [constructor|].
  pose proof (Hf tp) as H1. destruct (f tp) as [a t1]. pose proof (IH t1) as H2.
  destruct (draw_many f n t1) as [l t2]. cbn [fst] in *. constructor; assumption.
Qed.

Lemma draw_many_length {A} (f : tape -> A * tape) : forall n tp, length (fst (draw_many f n tp)) = n.
Proof.
  induction n as [|n IH]; intros tp; cbn [draw_many]; [reflexivity|].
  destruct (f tp) as [a t1]. pose proof (IH t1). destruct (draw_many f n t1). cbn [fst length] in *. lia.
Qed.

Lemma utf8_concat l : Forall (fun bs => exists c, scalar_value c = true /\ bs = utf8_encode c) l ->
  utf8_valid (concat l) = true.
Proof.
  induction 1 as [|bs l (c & Hc & ->) _ IH]; [reflexivity|]. cbn [concat]. rewrite utf8_encode_valid; assumption.
Qed.

Lemma draw_string_valid tp : utf8_valid (fst (draw_string tp)) = true.
Proof.
  unfold draw_string. destruct (draw_n 0 12 tp) as [n t1].
  match goal with |- context [draw_many ?f ?k ?t] =>
    pose proof (draw_many_forall (fun bs => exists c, scalar_value c = true /\ bs = utf8_encode c) f) as H;
    specialize (fun Hf => H Hf k t); destruct (draw_many f k t) as [rs t2] end.
  cbn [fst] in *. apply utf8_concat. apply H. intros t. destruct (draw t) as [x t']. cbn [fst].
  exists (rune_of x). split; [apply rune_of_scalar|reflexivity].
Qed.

Lemma sub_exp32 n : n < 4294967296 -> (n / 8388608) mod 256 = 255 ->
  (n - 8388608) < 4294967296 /\ ((n - 8388608) / 8388608) mod 256 = 254.
Proof. dm. Qed.
Lemma sub_exp64 n : n < 18446744073709551616 -> (n / 4503599627370496) mod 2048 = 2047 ->
  (n - 4503599627370496) < 18446744073709551616 /\ ((n - 4503599627370496) / 4503599627370496) mod 2048 = 2046.
Proof. dm. Qed.

Lemma mk_finite32_ok x : finite32 (mk_finite32 x) = true.
Proof.
  unfold mk_finite32. set (n := x mod two32).
  assert (Hn : n < 4294967296) by (apply N.mod_upper_bound; discriminate).
  clearbody n. destruct (finite32 n) eqn:E; [exact E|].
  assert (He : (n / 8388608) mod 256 = 255).
  { unfold finite32 in E. apply andb_false_iff in E. destruct E as [E|E].
    - apply N.ltb_ge in E. unfold two32 in E. lia.
    - apply negb_false_iff, N.eqb_eq in E. exact E. }
  destruct (sub_exp32 n Hn He) as [F1 F2]. unfold finite32. rewrite F2.
  apply andb_true_iff. split; [apply N.ltb_lt; exact F1|reflexivity].
Qed.

Lemma mk_finite64_ok x : finite64 (mk_finite64 x) = true.
Proof.
  unfold mk_finite64. set (n := x mod two64).
  assert (Hn : n < 18446744073709551616) by (apply N.mod_upper_bound; discriminate).
  clearbody n. destruct (finite64 n) eqn:E; [exact E|].
  assert (He : (n / 4503599627370496) mod 2048 = 2047).
  { unfold finite64 in E. apply andb_false_iff in E. destruct E as [E|E].
    - apply N.ltb_ge in E. unfold two64 in E. lia.
    - apply negb_false_iff, N.eqb_eq in E. exact E. }
  destruct (sub_exp64 n Hn He) as [F1 F2]. unfold finite64. rewrite F2.
  apply andb_true_iff. split; [apply N.ltb_lt; exact F1|reflexivity].
Qed.

(* ---- hypotheses on annotations and options -------------------------------------------------------- *)
(* an enum declares at least one value (proto3: the zero value) and its numbers are int32 *)
Definition enum_decl_ok (decl : list Z) : Prop :=
  decl <> [] /\ Forall (fun z => (-2147483648 <= z < 2147483648)%Z) decl.
(* what a FieldMapper returns for a draw is in the set it is declared to answer from *)
Definition fmap_gen_sound (o : gopts) : Prop :=
  forall k decl p g, (o_fmap o k decl = FmAlways p g \/ o_fmap o k decl = FmMaybe p g) -> forall x, p (g x) = true.

Lemma in_range_z_intro lo hi z : (lo <= z < hi)%Z -> in_range_z lo hi z = true.
Proof. intros H. unfold in_range_z. apply andb_true_iff. split; [apply Z.leb_le|apply Z.ltb_lt]; lia. Qed.

Lemma gen_scalar_default_ok k decl tp : (k = KEnum -> enum_decl_ok decl) ->
  rg_scalar_default repaired k decl (fst (gen_scalar_default repaired k decl tp)) = true.
Proof.
  intros He. unfold gen_scalar_default, rg_scalar_default.
  destruct k;
    try (match goal with |- context [draw_z ?lo ?hi tp] =>
           let H := fresh in pose proof (draw_z_range lo hi tp ltac:(lia)) as H; destruct (draw_z lo hi tp) as [z t]; cbn [fst] in *;
           cbn [wt_scalar]; apply in_range_z_intro; lia end).
  - destruct (draw tp) as [x t]. cbn [fst]. apply mk_finite64_ok.
  - destruct (draw tp) as [x t]. cbn [fst]. apply mk_finite32_ok.
  - destruct (draw_bool tp) as [b t]. reflexivity.
  - pose proof (draw_string_valid tp) as H. destruct (draw_string tp) as [s t]. exact H.
  - destruct (draw_bytes tp) as [b t]. reflexivity.
  - destruct (He eq_refl) as [Hne Hall]. cbn [v_enum_by_number repaired].
    assert (Hl : (1 <= Z.of_nat (length decl))%Z) by (destruct decl; [congruence|cbn [length]; lia]).
    pose proof (draw_z_range 0 (Z.of_nat (length decl) - 1) tp ltac:(lia)) as Hr.
    destruct (draw_z 0 (Z.of_nat (length decl) - 1) tp) as [i t]. cbn [fst] in *.
    assert (Hin : In (nth (Z.to_nat i) decl 0%Z) decl) by (apply nth_In; lia).
    apply andb_true_iff. split.
    + apply in_range_z_intro. rewrite Forall_forall in Hall. apply Hall in Hin. lia.
    + unfold declared. apply existsb_exists. eexists. split; [exact Hin|apply Z.eqb_refl].
Qed.

Lemma gen_scalar_ok o k decl tp : fmap_gen_sound o -> (k = KEnum -> enum_decl_ok decl) ->
  rg_scalar repaired o k decl (fst (gen_scalar repaired o k decl tp)) = true.
Proof.
  intros Hf He. unfold gen_scalar, rg_scalar. destruct (o_fmap o k decl) as [|p g|p g] eqn:E.
  - apply gen_scalar_default_ok. exact He.
  - destruct (draw tp) as [x t]. cbn [fst]. eapply Hf. left. exact E.
  - destruct (draw_bool tp) as [b t]. destruct b.
    + destruct (draw t) as [x t']. cbn [fst]. apply orb_true_iff. left. eapply Hf. right. exact E.
    + apply orb_true_iff. right. apply gen_scalar_default_ok. exact He.
Qed.

(* ---- FieldMask paths ------------------------------------------------------------------------------ *)
Lemma letter_lower x : lower (letter x) = true.
Proof.
  unfold lower, in_rng, letter. pose proof (N.mod_upper_bound x 26). rewrite b2n_n2b_small by lia.
  apply andb_true_iff. split; apply N.leb_le; lia.
Qed.

Definition good_seg (s : list byte) : Prop := s <> [] /\ Forall (fun b => lower b = true) s.

Lemma draw_segment_good tp : good_seg (fst (draw_segment tp)).
Proof.
  unfold draw_segment. pose proof (draw_n_range 1 6 tp ltac:(lia)) as Hn. destruct (draw_n 1 6 tp) as [n t1]. cbn [fst] in Hn.
  match goal with |- context [draw_many ?f ?k ?t] =>
    pose proof (draw_many_forall (fun b => lower b = true) f) as H; specialize (fun Hf => H Hf k t);
    pose proof (draw_many_length f k t) as Hl; destruct (draw_many f k t) as [l t2] end.
  cbn [fst] in *. split.
  - destruct l; [cbn in Hl; lia|discriminate].
  - apply H. intros t. destruct (draw t) as [x t']. apply letter_lower.
Qed.

Lemma fm_seg s : Forall (fun b => lower b = true) s -> forall rest dots ne,
  fm_path_aux (s ++ rest) dots ne = fm_path_aux rest dots (ne || negb (is_nilb s)).
Proof.
  induction 1 as [|b s Hb _ IH]; intros rest dots ne; cbn [app is_nilb negb]; [rewrite orb_false_r; reflexivity|].
  cbn [fm_path_aux]. rewrite Hb. rewrite IH. cbn [orb]. rewrite orb_true_r. reflexivity.
Qed.

Lemma fm_more more : Forall good_seg more -> forall dots, (length more <= dots)%nat ->
  fm_path_aux (concat (map (fun s => dot :: s) more)) dots true = true.
Proof.
  induction 1 as [|s more [Hne Hs] _ IH]; intros dots Hd; [reflexivity|].
  cbn [map concat app fm_path_aux]. cbn [length] in Hd. destruct dots as [|d]; [lia|].
  change (lower dot) with false. change (b2n dot =? 46) with true. cbv iota. cbn [andb].
  rewrite fm_seg by exact Hs. destruct s; [congruence|]. cbn [is_nilb negb orb]. apply IH. lia.
Qed.

Lemma draw_path_ok tp : fm_path_ok (fst (draw_path tp)) = true.
Proof.
  unfold draw_path, fm_path_ok. pose proof (draw_segment_good tp) as [Hne Hs]. destruct (draw_segment tp) as [s0 t1]. cbn [fst] in *.
  pose proof (draw_n_range 0 2 t1 ltac:(lia)) as Hk. destruct (draw_n 0 2 t1) as [k t2]. cbn [fst] in Hk.
  pose proof (draw_many_forall good_seg draw_segment draw_segment_good (N.to_nat k) t2) as Hm.
  pose proof (draw_many_length draw_segment (N.to_nat k) t2) as Hl.
  destruct (draw_many draw_segment (N.to_nat k) t2) as [more t3]. cbn [fst] in *.
  rewrite fm_seg by exact Hs. destruct s0; [congruence|]. cbn [is_nilb negb orb]. apply fm_more; [exact Hm|lia].
Qed.

(* ================================ Part 2: the size-free description ============================== *)
Section SDeep.
  Variable o : gopts.
  Variable sch : schema.
  Variable ann : annots.
  Notation vr := repaired.

  Definition srec_t := N -> ictx -> nat -> val -> Prop.

  Definition selem (rec : srec_t) (pp : N) (f : field) (fa : fannot) (e : val) : Prop :=
    match f_ty f with
    | TScalar k => rg_scalar vr o k (a_enum fa) e = true
    | TMsg tm => match e with VNil => True | _ => rec pp (IField (a_iface fa)) tm e end
    end.

  Definition sslot (rec : srec_t) (r : nat) (p : N) (f : field) (fa : fannot) (s : val) : Prop :=
    rg_slot vr o sch ann r p f fa s = true /\
    match f_shape f with
    | Singular => selem rec p f fa s
    | Rep _ =>
      match s, f_ty f with
      | VList l, TScalar _ => Forall (selem rec 1 f fa) l
      | VList l, TMsg _ => if (2 <=? r)%nat then Forall (selem rec 1 f fa) l else True
      | _, _ => True
      end
    | Member _ => match s with VSome e => selem rec p f fa e | _ => True end
    | MapOf kk =>
      match s with
      | VMap kvs => Forall (fun kv => rg_scalar vr o kk [] (fst kv) = true /\ selem rec (10 * p) f fa (snd kv)) kvs
      | _ => True
      end
    end.

  Fixpoint sslots (rec : srec_t) (r : nat) (p : N) (fs : list field) (fas : list fannot) (ss : list val) : Prop :=
    match fs, fas, ss with
    | f :: fs', fa :: fas', s :: ss' => sslot rec r p f fa s /\ sslots rec r p fs' fas' ss'
    | [], [], [] => True
    | _, _, _ => False
    end.

  (* an Any: the marshalled form of SOME described payload *)
  Definition s_any (rec : srec_t) (r : nat) (ic : ictx) (slots : list val) (unk : list byte) : Prop :=
    unk = [] /\
    exists u vb, slots = [VBytes u; vb] /\ (vb = VNil \/ exists b, vb = VBytes b) /\
      if has_urls o then
        exists tm ma, nth_error ann tm = Some ma /\ u = url_of ma /\ resolve ann u = Some tm /\ any_allowed vr o ic tm = true /\
          if (2 <=? r)%nat then exists pv bs, rec 1 INoField tm pv /\ pulsar_marshal sch false tm pv = Ok bs /\ vb = VBytes bs
          else bytes_empty vb = true
      else u = [] /\ bytes_empty vb = true.

  Fixpoint sdeep (r : nat) (p : N) (ic : ictx) (mid : nat) (v : val) {struct r} : Prop :=
    match r with
    | O => False
    | S r' =>
      match get_msg sch mid, nth_error ann mid, v with
      | Some md, Some ma, VMsg slots unk =>
        match a_wkt ma with
        | WNone => rg_msg vr o sch ann r' ic ma md slots unk = true /\
                   sslots (sdeep r') r' p (m_fields md) (a_fields ma) slots
        | WAny => s_any (sdeep r') r' ic slots unk
        | _ => rg_msg vr o sch ann r' ic ma md slots unk = true
        end
      | _, _, _ => False
      end
    end.

  (* what setFields needs of the message it is handed (fresh, or the result of q earlier passes):
     like [sslot] without the demands a pass re-establishes (singular scalars, forced fields) *)
  Definition cslot (rec : srec_t) (r : nat) (q : N) (f : field) (fa : fannot) (s : val) : Prop :=
    match f_shape f, f_ty f with
    | Singular, TScalar _ => True
    | Singular, TMsg tm =>
      s = VNil \/ (is_msgv s = true /\ child_ok_singular o ann r tm = true /\ rec q (IField (a_iface fa)) tm s)
    | Rep _, TScalar k =>
      exists l, rep_len s = Some l /\ len_le l (10 * q) = true /\ Forall (fun e => rg_scalar vr o k (a_enum fa) e = true) l
    | Rep _, TMsg tm =>
      exists l, rep_len s = Some l /\ len_le l (10 * q) = true /\
                (l = [] \/ child_ok_container vr o ann r tm = true) /\
                Forall (fun e => is_msgv e = true /\ rec 1 (IField (a_iface fa)) tm e) l /\
                (s = VList [] -> min_len o = 0)
    | Member _, TScalar k => s = VNil \/ exists e, s = VSome e /\ rg_scalar vr o k (a_enum fa) e = true
    | Member _, TMsg tm =>
      s = VNil \/ exists e, s = VSome e /\ is_msgv e = true /\ child_ok_singular o ann r tm = true /\ rec q (IField (a_iface fa)) tm e
    | MapOf kk, ty =>
      exists kvs, map_kvs s = Some kvs /\ len_le kvs (10 * q) = true /\ nodup_keys (map fst kvs) = true /\
        Forall (fun kv => rg_scalar vr o kk [] (fst kv) = true /\
                          match ty with
                          | TScalar k => rg_scalar vr o k (a_enum fa) (snd kv) = true
                          | TMsg tm => is_msgv (snd kv) = true /\ rec (10 * q) (IField (a_iface fa)) tm (snd kv)
                          end) kvs /\
        match ty with TScalar _ => True | TMsg tm => kvs = [] \/ child_ok_container vr o ann r tm = true end
    end.

  Definition cur_ok (r : nat) (q : N) (mid : nat) (cur : val) : Prop :=
    match r with
    | O => False
    | S r' =>
      match get_msg sch mid, nth_error ann mid, cur with
      | Some md, Some ma, VMsg slots unk =>
        unk = [] /\
        match a_wkt ma with
        | WNone =>
          length slots = length (m_fields md) /\
          (forall i f fa s, nth_error (m_fields md) i = Some f -> nth_error (a_fields ma) i = Some fa ->
                            nth_error slots i = Some s -> cslot (sdeep r') r' q f fa s) /\
          (forall oi, (oi < m_oneofs md)%nat ->
                      (oneof_count (m_fields md) slots oi <= 1)%nat /\
                      In (oneof_state (m_fields md) slots 0%nat oi) (None :: oneof_reach o ann r' (m_fields md) 0%nat oi [None]))
        | _ => True
        end
      | _, _, _ => False
      end
    end.
End SDeep.

Section Sound.
  Variable o : gopts.
  Variable sch : schema.
  Variable ann : annots.
  Notation vr := repaired.
  Notation SD := (sdeep o sch ann).

  Lemma len_le_mono {A} (l : list A) a b : a <= b -> len_le l a = true -> len_le l b = true.
  Proof. unfold len_le. intros H1 H2. apply N.leb_le in H2. apply N.leb_le. lia. Qed.

  Lemma len_le_nil {A} b : len_le (@nil A) b = true.
  Proof. unfold len_le. apply N.leb_le. cbn. lia. Qed.

  Lemma rg_slot_mono r p p' f fa s : p <= p' ->
    rg_slot vr o sch ann r p f fa s = true -> rg_slot vr o sch ann r p' f fa s = true.
  Proof.
    intros Hp. unfold rg_slot. destruct (f_shape f); destruct (f_ty f) as [k|tm]; auto.
    - intros H. splitb. apply andb_true_iff. split; [assumption|].
      destruct (rep_len s); [|discriminate]. splitb. apply andb_true_iff. split; [assumption|].
      eapply len_le_mono; [|eassumption]. lia.
    - intros H. splitb. apply andb_true_iff. split; [assumption|].
      destruct (rep_len s) as [l|]; [|discriminate]. destruct (child_ok_container vr o ann r tm); [|assumption].
      destruct l; [assumption|]. splitb. apply andb_true_iff. split; [|assumption].
      eapply len_le_mono; [|eassumption]. lia.
    - destruct (map_kvs s); [|discriminate]. intros H. splitb.
      repeat (apply andb_true_iff; split); try assumption. eapply len_le_mono; [|eassumption]. lia.
    - destruct (map_kvs s); [|discriminate]. intros H. splitb.
      repeat (apply andb_true_iff; split); try assumption. eapply len_le_mono; [|eassumption]. lia.
  Qed.

  Lemma selem_mono (rec : srec_t) pp pp' f fa e :
    (forall ic tm x, rec pp ic tm x -> rec pp' ic tm x) -> selem o rec pp f fa e -> selem o rec pp' f fa e.
  Proof. intros Hr. unfold selem. destruct (f_ty f); auto. destruct e; auto. Qed.

  Lemma sdeep_mono : forall r p p' ic mid v, p <= p' -> SD r p ic mid v -> SD r p' ic mid v.
  Proof.
    induction r as [|r IH]; intros p p' ic mid v Hp; cbn [sdeep]; auto.
    destruct (get_msg sch mid) as [md|]; auto. destruct (nth_error ann mid) as [ma|]; auto. destruct v; auto.
    destruct (a_wkt ma); auto. intros [Hm Hs]. split; [exact Hm|].
    revert Hs. generalize (a_fields ma) slots. induction (m_fields md) as [|f fs IHf]; intros [|fa fas] [|s ss]; cbn [sslots]; auto.
    intros [[H1 H2] H3]. split; [|apply IHf; exact H3]. split; [eapply rg_slot_mono; eauto|].
    destruct (f_shape f).
    - eapply selem_mono; [|exact H2]. intros; eapply IH; [|eassumption]; assumption.
    - exact H2.
    - destruct s; auto. eapply selem_mono; [|exact H2]. intros; eapply IH; [|eassumption]; assumption.
    - destruct s; auto. eapply Forall_impl; [|exact H2]. intros [k x] [Ha Hb]. split; [exact Ha|].
      eapply selem_mono; [|exact Hb]. intros; eapply IH; [|eassumption]. lia.
  Qed.

  (* ---- positional access to aligned slot lists ---- *)
  Lemma sslots_nth (rec : srec_t) r p : forall fs fas ss, sslots o sch ann rec r p fs fas ss ->
    length fas = length fs /\ length ss = length fs /\
    forall i f fa s, nth_error fs i = Some f -> nth_error fas i = Some fa -> nth_error ss i = Some s -> sslot o sch ann rec r p f fa s.
  Proof.
    induction fs as [|f fs IH]; intros [|fa fas] [|s ss]; cbn [sslots]; try contradiction.
    - intros _. split; [reflexivity|]. split; [reflexivity|]. intros [|j]; discriminate.
    - intros [H1 H2]. destruct (IH _ _ H2) as (L1 & L2 & Hn). cbn [length]. split; [lia|]. split; [lia|].
      intros [|j] f' fa' s'; cbn [nth_error]; [intros; congruence|apply Hn].
  Qed.

  Lemma sslots_intro (rec : srec_t) r p : forall fs fas ss, length fas = length fs -> length ss = length fs ->
    (forall i f fa s, nth_error fs i = Some f -> nth_error fas i = Some fa -> nth_error ss i = Some s -> sslot o sch ann rec r p f fa s) ->
    sslots o sch ann rec r p fs fas ss.
  Proof.
    induction fs as [|f fs IH]; intros [|fa fas] [|s ss]; cbn [length sslots]; try lia; auto.
    intros L1 L2 H. split; [apply (H 0%nat); reflexivity|]. apply IH; try lia.
    intros i f' fa' s' A B C. apply (H (S i)); assumption.
  Qed.

  Lemma opt_nat_eqb_eq a b : opt_nat_eqb a b = true -> a = b.
  Proof. destruct a, b; cbn; try discriminate; auto. intros H. apply Nat.eqb_eq in H. congruence. Qed.

  Lemma existsb_opt_in x l : existsb (opt_nat_eqb x) l = true -> In x l.
  Proof. intros H. apply existsb_exists in H. destruct H as (y & Hy & E). apply opt_nat_eqb_eq in E. congruence. Qed.

  Lemma in_existsb_opt x l : In x l -> existsb (opt_nat_eqb x) l = true.
  Proof.
    intros H. apply existsb_exists. exists x. split; [exact H|]. destruct x; cbn; [apply Nat.eqb_refl|reflexivity].
  Qed.

  Lemma forallb_Forall {A} (g : A -> bool) l : forallb g l = true -> Forall (fun x => g x = true) l.
  Proof. intros H. apply Forall_forall. intros x Hx. eapply forallb_forall in H; eauto. Qed.

  (* a completed pass leaves what the next pass expects *)
  Lemma sslot_cslot (rec : srec_t) r p f fa s : sslot o sch ann rec r p f fa s -> cslot o ann rec r p f fa s.
  Proof.
    unfold sslot, cslot, rg_slot, selem. intros [Hl Hd].
    destruct (f_shape f) eqn:Es; destruct (f_ty f) as [k|tm] eqn:Et; auto.
    - destruct s; try discriminate; [left; reflexivity|]. right. repeat split; auto.
    - splitb. destruct (rep_len s) as [l|] eqn:El; [|discriminate]. splitb. exists l. repeat split; auto.
      destruct s; cbn [rep_len] in El; try discriminate; injection El as <-; [constructor|exact Hd].
    - splitb. destruct (rep_len s) as [l|] eqn:El; [|discriminate]. exists l.
      destruct (child_ok_container vr o ann r tm) eqn:Ec.
      + destruct l as [|e l].
        * repeat split; auto using len_le_nil. intros ->. unfold rep_exact_ok in H. cbn in H. rewrite orb_false_r in H. apply N.eqb_eq. exact H.
        * splitb. split; [reflexivity|]. split; [assumption|]. split; [right; reflexivity|]. split; [|intros ->; discriminate].
          destruct s; cbn [rep_len] in El; try discriminate. injection El as ->.
          unfold child_ok_container in Ec. apply andb_true_iff in Ec. destruct Ec as [E2 _]. rewrite E2 in Hd.
          apply forallb_Forall in H1. rewrite Forall_forall in *. intros x Hx. specialize (Hd x Hx). specialize (H1 x Hx).
          split; [exact H1|]. destruct x; try discriminate. exact Hd.
      + cbn [v_list_truncate repaired] in H0. destruct l; [|discriminate]. repeat split; auto using len_le_nil.
        intros ->. unfold rep_exact_ok in H. cbn in H. rewrite orb_false_r in H. apply N.eqb_eq. exact H.
    - destruct s; try discriminate; [left; reflexivity|]. right. eexists. split; [reflexivity|exact Hd].
    - destruct s; try discriminate; [left; reflexivity|]. destruct s; try discriminate. right. eexists. repeat split; auto.
    - destruct (map_kvs s) as [kvs|] eqn:Ek; [|discriminate]. splitb. exists kvs. repeat split; auto.
      destruct s; cbn [map_kvs] in Ek; try discriminate; injection Ek as <-; [constructor|].
      eapply Forall_impl; [|exact Hd]. intros [a b] [Ha Hb]. split; assumption.
    - destruct (map_kvs s) as [kvs|] eqn:Ek; [|discriminate]. splitb. exists kvs. repeat split; auto.
      + destruct s; cbn [map_kvs] in Ek; try discriminate; injection Ek as <-; [constructor|].
        apply forallb_Forall in H1. rewrite Forall_forall in *. intros [a b] Hx. specialize (Hd _ Hx). specialize (H1 _ Hx).
        cbn [fst snd] in *. destruct Hd as [Ha Hb]. repeat split; auto. destruct b; try discriminate. exact Hb.
      + apply orb_true_iff in H0. destruct H0 as [H0|H0]; [left; destruct kvs; [reflexivity|discriminate]|right; exact H0].
  Qed.

  Lemma sdeep_cur_ok r p ic mid v : SD r p ic mid v -> cur_ok o sch ann r p mid v.
  Proof.
    destruct r as [|r]; cbn [sdeep cur_ok]; auto.
    destruct (get_msg sch mid) as [md|]; auto. destruct (nth_error ann mid) as [ma|]; auto. destruct v; auto.
    destruct (a_wkt ma) eqn:Ew.
    - intros [Hm Hs]. unfold rg_msg in Hm. rewrite Ew in Hm. splitb.
      split; [destruct unk; [reflexivity|discriminate]|].
      destruct (sslots_nth _ _ _ _ _ _ Hs) as (L1 & L2 & Hn). split; [exact L2|]. split.
      + intros i f fa s A B C. apply sslot_cslot. eapply Hn; eauto.
      + intros oi Hoi. unfold oneofs_ok in H0. eapply forallb_forall in H0; [|apply in_seq; split; [lia|cbn; exact Hoi]].
        splitb. split; [apply Nat.leb_le; assumption|right; apply existsb_opt_in; assumption].
    - unfold rg_msg. rewrite Ew. intros H. splitb. split; [destruct unk; [reflexivity|discriminate]|exact I].
    - unfold rg_msg. rewrite Ew. intros H. splitb. split; [destruct unk; [reflexivity|discriminate]|exact I].
    - intros [Hu _]. split; [exact Hu|exact I].
    - unfold rg_msg. rewrite Ew. intros H. splitb. split; [destruct unk; [reflexivity|discriminate]|exact I].
  Qed.

  (* msgType.New(): what the first pass starts from *)
  Lemma default_cslot (rec : srec_t) r f fa : cslot o ann rec r 0 f fa (default_slot f).
  Proof.
    unfold cslot, default_slot. destruct (f_shape f); destruct (f_ty f) as [k|tm]; auto.
    - exists []. repeat split; auto using len_le_nil.
    - exists []. repeat split; auto using len_le_nil. discriminate.
    - exists []. repeat split; auto using len_le_nil.
    - exists []. repeat split; auto using len_le_nil.
  Qed.

  Lemma default_count fs oi : oneof_count fs (map default_slot fs) oi = 0%nat.
  Proof.
    induction fs as [|f fs IH]; cbn [map oneof_count]; [reflexivity|]. rewrite IH.
    unfold default_slot. destruct (f_shape f); try (destruct (f_ty f)); reflexivity.
  Qed.

  Lemma default_state fs oi : forall i, oneof_state fs (map default_slot fs) i oi = None.
  Proof.
    induction fs as [|f fs IH]; intros i; cbn [map oneof_state]; [reflexivity|].
    destruct (f_shape f); try apply IH. destruct (default_slot f) eqn:E; try apply IH.
    exfalso. unfold default_slot in E. destruct (f_shape f); try discriminate. destruct (f_ty f) as [k|]; try discriminate. destruct k; discriminate.
  Qed.

  Lemma fresh_cur_ok r mid md ma : get_msg sch mid = Some md -> nth_error ann mid = Some ma ->
    cur_ok o sch ann (S r) 0 mid (fresh sch mid).
  Proof.
    intros Hg Ha. unfold fresh. rewrite Hg. unfold empty_msg. cbn [cur_ok]. rewrite Hg, Ha.
    split; [reflexivity|]. destruct (a_wkt ma); auto. split; [apply map_length|]. split.
    - intros i f fa s Hf Hfa Hs. rewrite nth_error_map, Hf in Hs. injection Hs as <-. apply default_cslot.
    - intros oi _. rewrite default_count, default_state. split; [lia|left; reflexivity].
  Qed.

  (* ---- the loops of setFieldValue ---------------------------------------------------------------- *)
  Hypothesis Hfm : fmap_gen_sound o.

  (* what a call of setFields at nesting depth d returns *)
  Definition child_sound (child : child_t) (d : nat) : Prop :=
    forall ic mid cur tp res tp', child d ic mid cur tp = Ok (res, tp') ->
      match res with
      | Some v => (d <= 10)%nat /\ (is_any ann mid = true -> has_urls o = true) /\ is_msgv v = true /\
                  (exists md ma, get_msg sch mid = Some md /\ nth_error ann mid = Some ma) /\
                  forall q, cur_ok o sch ann (12 - d) q mid cur -> SD (12 - d) (q + 1) ic mid v
      | None => (10 < d)%nat \/ (is_any ann mid = true /\ has_urls o = false)
      end.

  Lemma container_ok_iff depth tm :
    child_ok_container vr o ann (12 - S depth) tm = true <->
    ((S depth <= 10)%nat /\ (is_any ann tm = true -> has_urls o = true)).
  Proof.
    unfold child_ok_container. cbn [v_any_container repaired negb]. rewrite orb_false_r. split.
    - intros H. apply andb_true_iff in H. destruct H as [H1 H2]. apply Nat.leb_le in H1. split; [lia|].
      intros Ea. rewrite Ea in H2. exact H2.
    - intros [H1 H2]. apply andb_true_iff. split; [apply Nat.leb_le; lia|]. destruct (is_any ann tm); auto.
  Qed.

  Lemma scalar_loop_ok k decl : (k = KEnum -> enum_decl_ok decl) -> forall n l tp,
    Forall (fun e => rg_scalar vr o k decl e = true) l ->
    Forall (fun e => rg_scalar vr o k decl e = true) (fst (scalar_loop vr o k decl n l tp)) /\
    length (fst (scalar_loop vr o k decl n l tp)) = (length l + n)%nat.
  Proof.
    intros He. induction n as [|n IH]; intros l tp Hl; cbn [scalar_loop]; [cbn [fst]; split; [exact Hl|lia]|].
    pose proof (gen_scalar_ok o k decl tp Hfm He) as Hv. destruct (gen_scalar vr o k decl tp) as [v t1]. cbn [fst] in Hv.
    destruct (IH (l ++ [v]) t1) as [H1 H2]; [apply Forall_app; split; [exact Hl|constructor; [exact Hv|constructor]]|].
    split; [exact H1|]. rewrite H2, app_length. cbn [length]. lia.
  Qed.

  Definition elem_ok (depth : nat) (fa : fannot) (tm : nat) (m : N) (e : val) : Prop :=
    is_msgv e = true /\ SD (12 - S depth) m (IField (a_iface fa)) tm e.

  Lemma list_loop_ok child depth fa tm : child_sound child (S depth) ->
    forall k i l tp l' tp', list_loop vr sch child depth fa tm k i l tp = Ok (l', tp') ->
      Forall (elem_ok depth fa tm 1) l ->
      Forall (elem_ok depth fa tm 1) l' /\
      (child_ok_container vr o ann (12 - S depth) tm = true -> length l' = (length l + k)%nat) /\
      (child_ok_container vr o ann (12 - S depth) tm = false -> l' = l).
  Proof.
    intros Hc. induction k as [|k IH]; intros i l tp l' tp'; cbn [list_loop].
    - intros E Hl. injection E as <- <-. repeat split; auto.
    - destruct (child (S depth) (IField (a_iface fa)) tm (fresh sch tm) tp) as [[[e|] t1]| | |] eqn:Ec; try discriminate.
      + specialize (Hc _ _ _ _ _ _ Ec). cbn beta iota in Hc. destruct Hc as (Hd & Ha & Hm & (md & ma & Hg & Hn) & Hs).
        intros E Hl. specialize (IH _ _ _ _ _ E).
        assert (He : elem_ok depth fa tm 1 e).
        { split; [exact Hm|]. apply (Hs 0). replace (12 - S depth)%nat with (S (11 - S depth)) by lia. eapply fresh_cur_ok; eauto. }
        destruct IH as (I1 & I2 & I3); [apply Forall_app; split; [exact Hl|constructor; [exact He|constructor]]|].
        assert (Hok : child_ok_container vr o ann (12 - S depth) tm = true) by (apply container_ok_iff; split; assumption).
        split; [exact I1|]. split.
        * intros _. rewrite (I2 Hok), app_length. cbn [length]. lia.
        * intros Hf. congruence.
      + specialize (Hc _ _ _ _ _ _ Ec). cbn beta iota in Hc. cbn [v_list_truncate repaired].
        assert (Hok : child_ok_container vr o ann (12 - S depth) tm = false).
        { destruct (child_ok_container vr o ann (12 - S depth) tm) eqn:E0; [|reflexivity].
          apply container_ok_iff in E0. destruct E0 as [E1 E2]. destruct Hc as [Hc|[Hc1 Hc2]]; [lia|]. rewrite (E2 Hc1) in Hc2. discriminate. }
        intros E Hl. destruct (IH _ _ _ _ _ E Hl) as (I1 & I2 & I3). split; [exact I1|]. split.
        * intros Ht. congruence.
        * intros _. apply I3. exact Hok.
  Qed.

  (* ---- association lists ---- *)
  Lemma Forall_map_set (P : val * val -> Prop) kvs k v : Forall P kvs -> P (k, v) -> Forall P (map_set kvs k v).
  Proof.
    intros H Hp. induction H as [|[k0 v0] t H0 Ht IH]; cbn [map_set]; [constructor; [exact Hp|constructor]|].
    destruct (val_key_eqb k0 k); constructor; auto.
  Qed.
  Lemma Forall_map_remove (P : val * val -> Prop) kvs k : Forall P kvs -> Forall P (map_remove kvs k).
  Proof.
    induction 1 as [|[k0 v0] t H0 H IH]; cbn [map_remove]; [constructor|]. destruct (val_key_eqb k0 k); [exact H|constructor; auto].
  Qed.
  Lemma existsb_map_remove (Q : val -> bool) kvs k :
    existsb Q (map fst (map_remove kvs k)) = true -> existsb Q (map fst kvs) = true.
  Proof.
    induction kvs as [|[k0 v0] t IH]; cbn [map_remove map fst existsb]; auto.
    destruct (val_key_eqb k0 k); cbn [map fst existsb]; intros H.
    - rewrite H. apply orb_true_r.
    - apply orb_true_iff in H. destruct H as [H|H]; [rewrite H; reflexivity|rewrite (IH H); apply orb_true_r].
  Qed.
  Lemma map_remove_nodup kvs k : nodup_keys (map fst kvs) = true -> nodup_keys (map fst (map_remove kvs k)) = true.
  Proof.
    induction kvs as [|[k0 v0] t IH]; cbn [map_remove map fst nodup_keys]; auto. intros H. splitb.
    destruct (val_key_eqb k0 k); [assumption|]. cbn [map fst nodup_keys]. apply andb_true_iff. split; [|apply IH; assumption].
    destruct (existsb (val_key_eqb k0) (map fst (map_remove t k))) eqn:E; [|reflexivity].
    apply existsb_map_remove in E. rewrite E in H. discriminate.
  Qed.
  Lemma map_set_length kvs k v : (length (map_set kvs k v) <= S (length kvs))%nat.
  Proof. induction kvs as [|[k0 v0] t IH]; cbn [map_set length]; [lia|]. destruct (val_key_eqb k0 k); cbn [length]; lia. Qed.
  Lemma map_remove_length kvs k : (length (map_remove kvs k) <= length kvs)%nat.
  Proof. induction kvs as [|[k0 v0] t IH]; cbn [map_remove length]; [lia|]. destruct (val_key_eqb k0 k); cbn [length]; lia. Qed.
  Lemma map_get_in kvs k x : map_get kvs k = Some x -> exists k', In (k', x) kvs.
  Proof.
    induction kvs as [|[k0 v0] t IH]; cbn [map_get]; [discriminate|]. destruct (val_key_eqb k0 k).
    - intros E. injection E as <-. exists k0. left. reflexivity.
    - intros E. destruct (IH E) as [k' H]. exists k'. right. exact H.
  Qed.

  Definition mval_ok (depth : nat) (fa : fannot) (ty : ftype) (m : N) (x : val) : Prop :=
    match ty with
    | TScalar k => rg_scalar vr o k (a_enum fa) x = true
    | TMsg tm => elem_ok depth fa tm m x
    end.
  Definition entry_ok (depth : nat) (kk : kind) (fa : fannot) (ty : ftype) (m : N) (kv : val * val) : Prop :=
    rg_scalar vr o kk [] (fst kv) = true /\ mval_ok depth fa ty m (snd kv).

  Lemma entry_ok_mono depth kk fa ty m m' kv : m <= m' -> entry_ok depth kk fa ty m kv -> entry_ok depth kk fa ty m' kv.
  Proof.
    intros Hm [H1 H2]. split; [exact H1|]. unfold mval_ok in *. destruct ty; [exact H2|].
    destruct H2 as [A B]. split; [exact A|]. eapply sdeep_mono; eauto.
  Qed.

  Definition map_tail_ok (depth : nat) (ty : ftype) (kvs : list (val * val)) : Prop :=
    match ty with TScalar _ => True | TMsg tm => kvs = [] \/ child_ok_container vr o ann (12 - S depth) tm = true end.

  Lemma map_loop_ok child depth kk ty fa : child_sound child (S depth) -> kk <> KEnum ->
    (forall k, ty = TScalar k -> k = KEnum -> enum_decl_ok (a_enum fa)) ->
    forall n kvs tp kvs' tp' m, map_loop vr o sch child depth kk ty fa n kvs tp = Ok (kvs', tp') ->
      nodup_keys (map fst kvs) = true -> Forall (entry_ok depth kk fa ty m) kvs -> map_tail_ok depth ty kvs ->
      nodup_keys (map fst kvs') = true /\ Forall (entry_ok depth kk fa ty (m + N.of_nat n)) kvs' /\
      (length kvs' <= length kvs + n)%nat /\ map_tail_ok depth ty kvs'.
  Proof.
    intros Hc Hkk Hen. induction n as [|n IH]; intros kvs tp kvs' tp' m; cbn [map_loop].
    - intros E Hn Hf Ht. injection E as <- <-. repeat split; auto; [|lia].
      eapply Forall_impl; [|exact Hf]. intros kv. apply entry_ok_mono. lia.
    - pose proof (gen_scalar_ok o kk [] tp Hfm ltac:(intros; congruence)) as Hkey.
      destruct (gen_scalar vr o kk [] tp) as [key t1]. cbn [fst] in Hkey.
      assert (Hmono : forall l, Forall (entry_ok depth kk fa ty m) l -> Forall (entry_ok depth kk fa ty (m + 1)) l).
      { intros l Hl. eapply Forall_impl; [|exact Hl]. intros kv. apply entry_ok_mono. lia. }
      assert (Harith : m + 1 + N.of_nat n = m + N.of_nat (S n)) by lia.
      destruct ty as [k|tm].
      + pose proof (gen_scalar_ok o k (a_enum fa) t1 Hfm (Hen k eq_refl)) as Hv.
        destruct (gen_scalar vr o k (a_enum fa) t1) as [v t2]. cbn [fst] in Hv.
        intros E Hn Hf Ht. destruct (IH _ _ _ _ (m + 1) E) as (I1 & I2 & I3 & I4).
        * apply map_set_nodup. exact Hn.
        * apply Forall_map_set; [apply Hmono; exact Hf|]. split; [exact Hkey|exact Hv].
        * exact I.
        * rewrite Harith in I2. repeat split; auto. pose proof (map_set_length kvs key v). lia.
      + match goal with |- context [child ?a ?b ?c ?d ?e] => destruct (child a b c d e) as [[[v|] t2]| | |] eqn:Ec end; try discriminate.
        * specialize (Hc _ _ _ _ _ _ Ec). cbn beta iota in Hc. destruct Hc as (Hd & Ha & Hm & (md & ma & Hg & Hna) & Hs).
          intros E Hn Hf Ht. destruct (IH _ _ _ _ (m + 1) E) as (I1 & I2 & I3 & I4).
          -- apply map_set_nodup. exact Hn.
          -- apply Forall_map_set; [apply Hmono; exact Hf|]. split; [exact Hkey|]. cbn [snd mval_ok]. split; [exact Hm|].
             destruct (map_get kvs key) as [x|] eqn:Eg.
             ++ destruct (map_get_in _ _ _ Eg) as [k' Hin]. rewrite Forall_forall in Hf. destruct (Hf _ Hin) as [_ [Hx1 Hx2]]. cbn [snd] in *.
                apply Hs. unfold or_fresh. destruct x; try discriminate. eapply sdeep_cur_ok. exact Hx2.
             ++ apply (sdeep_mono _ 1 (m + 1)); [lia|]. apply (Hs 0). replace (12 - S depth)%nat with (S (11 - S depth)) by lia. eapply fresh_cur_ok; eauto.
          -- right. apply container_ok_iff. split; assumption.
          -- rewrite Harith in I2. repeat split; auto. pose proof (map_set_length kvs key v). lia.
        * intros E Hn Hf Ht. destruct (IH _ _ _ _ (m + 1) E) as (I1 & I2 & I3 & I4).
          -- apply map_remove_nodup. exact Hn.
          -- apply Forall_map_remove. apply Hmono. exact Hf.
          -- destruct Ht as [->|Ht]; [left; reflexivity|right; exact Ht].
          -- rewrite Harith in I2. repeat split; auto. pose proof (map_remove_length kvs key). lia.
  Qed.

  (* ---- an unpopulated message marshals to no bytes ------------------------------------------------ *)
  Lemma emit_field_default det rec f : emit_field det rec f (default_slot f) = [].
  Proof.
    unfold emit_field, default_slot. destruct (f_shape f); destruct (f_ty f) as [k|tm]; try reflexivity.
    destruct k; reflexivity.
  Qed.

  Lemma concat_all_nil {A} (l : list (list A)) : (forall x, In x l -> x = []) -> concat l = [].
  Proof.
    induction l as [|x l IH]; intros H; [reflexivity|]. cbn [concat]. rewrite (H x (or_introl eq_refl)).
    apply IH. intros y Hy. apply H. right. exact Hy.
  Qed.

  Lemma assemble_all_nil md (per : list (field * list byte)) : (forall p, In p per -> snd p = []) -> assemble md per = [].
  Proof.
    intros H. unfold assemble.
    assert (E1 : forall l : list (field * list byte), (forall p, In p l -> In p per) -> concat (map snd l) = []).
    { intros l Hl. apply concat_all_nil. intros x Hx. apply in_map_iff in Hx. destruct Hx as (p & <- & Hp). apply H. apply Hl. exact Hp. }
    rewrite E1.
    - cbn [app]. apply concat_all_nil. intros x Hx. apply in_map_iff in Hx. destruct Hx as (i & <- & _).
      apply E1. intros p Hp. apply filter_In in Hp. tauto.
    - intros p Hp. apply (Permutation_in _ (CodecSize.isort_perm _ _)) in Hp. apply filter_In in Hp. tauto.
  Qed.

  Lemma emit_fresh tm : emit sch false tm (fresh sch tm) = [].
  Proof.
    unfold fresh. destruct (get_msg sch tm) as [md|] eqn:Hg.
    - unfold empty_msg. rewrite RoundTrip.emit_unfold, Hg, app_nil_r. apply assemble_all_nil.
      intros p Hp. apply RoundTrip.zipf_in in Hp. destruct Hp as (i & f & s0 & Hf & Hs & ->). cbn [snd].
      rewrite nth_error_map, Hf in Hs. injection Hs as <-. apply emit_field_default.
    - cbn [emit]. rewrite Hg. reflexivity.
  Qed.

  Hypothesis Hwf : wf sch = true.

  Lemma marshal_fresh tm : pulsar_marshal sch false tm (fresh sch tm) = Ok [].
  Proof.
    rewrite CodecSize.marshal_ok; [rewrite emit_fresh; reflexivity|exact Hwf|]. rewrite emit_fresh. cbn. reflexivity.
  Qed.

  (* ---- type URLs ---------------------------------------------------------------------------------- *)
  Hypothesis Hnames : NoDup (map a_name ann).

  Lemma beqb_refl a : beqb a a = true.
  Proof. induction a as [|x a IH]; [reflexivity|]. cbn [beqb]. rewrite IH, andb_true_r. apply Byte.byte_dec_lb. reflexivity. Qed.

  Lemma find_idx_url : forall (l : list mannot) i0 tm ma, NoDup (map a_name l) -> nth_error l tm = Some ma ->
    find_idx (fun ma' => beqb (url_of ma) (url_of ma')) l i0 = Some (i0 + tm)%nat.
  Proof.
    induction l as [|m0 l IH]; intros i0 tm ma Hnd Hn; [destruct tm; discriminate|]. cbn [find_idx].
    cbn [map] in Hnd. inversion Hnd as [|? ? Hnotin Hnd']; subst.
    destruct tm as [|tm]; cbn [nth_error] in Hn.
    - injection Hn as ->. rewrite beqb_refl. f_equal. lia.
    - destruct (beqb (url_of ma) (url_of m0)) eqn:E.
      + exfalso. apply beqb_eq in E. unfold url_of in E. injection E as E. apply Hnotin. rewrite <- E.
        apply in_map. eapply nth_error_In. exact Hn.
      + rewrite (IH (S i0) tm ma Hnd' Hn). f_equal. lia.
  Qed.

  Lemma resolve_url tm ma : nth_error ann tm = Some ma -> resolve ann (url_of ma) = Some tm.
  Proof. intros H. unfold resolve. rewrite (find_idx_url ann 0 tm ma Hnames H). reflexivity. Qed.

  (* ---- genAny -------------------------------------------------------------------------------------- *)
  Lemma has_urls_spec : has_urls o = negb (is_nilb (o_any o)).
  Proof. reflexivity. Qed.

  Lemma pick_allowed i : i <= N.of_nat (length (o_any o)) - 1 -> o_any o <> [] ->
    existsb (Nat.eqb (nth (N.to_nat i) (o_any o) 0%nat)) (o_any o) = true.
  Proof.
    intros Hi Hne. apply existsb_exists. exists (nth (N.to_nat i) (o_any o) 0%nat). split; [|apply Nat.eqb_refl].
    apply nth_In. destruct (o_any o); [congruence|]. cbn [length] in *. lia.
  Qed.

  Lemma gen_any_sound child adepth ic tp res tp' : child_sound child (S adepth) -> (adepth <= 11)%nat ->
    gen_any vr o sch ann child adepth ic tp = Ok (res, tp') ->
    match res with
    | None => has_urls o = false
    | Some A => has_urls o = true /\ exists slots, A = VMsg slots [] /\ s_any o sch ann (SD (11 - adepth)) (11 - adepth) ic slots []
    end.
  Proof.
    intros Hc Hd. unfold gen_any. rewrite has_urls_spec. destruct (is_nilb (o_any o)) eqn:En.
    { intros E. injection E as <- <-. reflexivity. }
    assert (Hne : o_any o <> []) by (destruct (o_any o); [discriminate|congruence]).
    cbn [negb].
    assert (Htail : forall tm t1, any_allowed vr o ic tm = true ->
              match nth_error ann tm with
              | None => Err
              | Some ma =>
                match child (S adepth) INoField tm (fresh sch tm) t1 with
                | Ok (r, t2) =>
                  match pulsar_marshal sch false tm (match r with Some v => v | None => fresh sch tm end) with
                  | Ok bs => Ok (Some (VMsg [VBytes (url_of ma); VBytes bs] []), t2)
                  | Err => Err | Panic => Panic | OutOfFuel => OutOfFuel
                  end
                | Err => Err | Panic => Panic | OutOfFuel => OutOfFuel
                end
              end = Ok (res, tp') ->
              match res with
              | None => true = false
              | Some A => true = true /\ exists slots, A = VMsg slots [] /\ s_any o sch ann (SD (11 - adepth)) (11 - adepth) ic slots []
              end).
    { intros tm t1 Hal. destruct (nth_error ann tm) as [ma|] eqn:Ea; [|discriminate].
      destruct (child (S adepth) INoField tm (fresh sch tm) t1) as [[r t2]| | |] eqn:Ec; try discriminate.
      destruct (pulsar_marshal sch false tm (match r with Some v => v | None => fresh sch tm end)) as [bs| | |] eqn:Em; try discriminate.
      intros E. injection E as <- <-. split; [reflexivity|]. eexists. split; [reflexivity|].
      unfold s_any. split; [reflexivity|]. exists (url_of ma), (VBytes bs). split; [reflexivity|]. split; [right; eexists; reflexivity|].
      rewrite has_urls_spec, En. cbn [negb]. exists tm, ma. split; [exact Ea|]. split; [reflexivity|].
      split; [apply resolve_url; exact Ea|]. split; [exact Hal|].
      specialize (Hc _ _ _ _ _ _ Ec). cbn beta iota in Hc.
      destruct (2 <=? 11 - adepth)%nat eqn:E2.
      - apply Nat.leb_le in E2. destruct r as [pv|].
        + destruct Hc as (_ & _ & _ & (md & ma' & Hg & Hn) & Hs). exists pv, bs. split; [|split; [exact Em|reflexivity]].
          replace (11 - adepth)%nat with (12 - S adepth)%nat by lia. apply (Hs 0).
          replace (12 - S adepth)%nat with (S (11 - S adepth)) by lia. eapply fresh_cur_ok; eauto.
        + exfalso. destruct Hc as [Hc|[Hc1 Hc2]]; [lia|]. rewrite has_urls_spec, En in Hc2. discriminate.
      - apply Nat.leb_gt in E2. destruct r as [pv|].
        + exfalso. destruct Hc as (Hc & _). lia.
        + rewrite marshal_fresh in Em. injection Em as <-. reflexivity. }
    destruct ic as [|[ai|]].
    - cbn [v_any_nil_field repaired].
      pose proof (draw_n_range 0 (N.of_nat (length (o_any o)) - 1) tp ltac:(lia)) as Hr.
      destruct (draw_n 0 (N.of_nat (length (o_any o)) - 1) tp) as [i t]. cbn [fst] in Hr. apply Htail.
      unfold any_allowed. cbn [v_any_nil_field repaired andb]. apply pick_allowed; [lia|exact Hne].
    - destruct (nth_error (o_hints o) ai) as [[tm|]|] eqn:Eh; try discriminate. apply Htail.
      unfold any_allowed. rewrite Eh. apply Nat.eqb_refl.
    - pose proof (draw_n_range 0 (N.of_nat (length (o_any o)) - 1) tp ltac:(lia)) as Hr.
      destruct (draw_n 0 (N.of_nat (length (o_any o)) - 1) tp) as [i t]. cbn [fst] in Hr. apply Htail.
      unfold any_allowed. apply pick_allowed; [lia|exact Hne].
  Qed.

  (* ---- oneofs: which member is set, and which can be --------------------------------------------- *)
  Definition not_member_of (f : field) (oi : nat) : Prop := forall j, f_shape f = Member j -> j <> oi.

  Lemma state_set_nonmember fs : forall ss idx i f v oi, nth_error fs idx = Some f -> not_member_of f oi ->
    oneof_state fs (set_nth ss idx v) i oi = oneof_state fs ss i oi.
  Proof.
    induction fs as [|g fs IH]; intros ss idx i f v oi Hn Hnm; [destruct idx; discriminate|].
    destruct ss as [|s ss]; [reflexivity|]. destruct idx as [|idx]; cbn [nth_error] in Hn; cbn [set_nth oneof_state].
    - injection Hn as ->. destruct (f_shape f) as [| |j|] eqn:Es; try reflexivity.
      assert (Nat.eqb j oi = false) as E by (apply Nat.eqb_neq; apply Hnm; exact Es). rewrite E.
      destruct v, s; reflexivity.
    - rewrite (IH ss idx (S i) f v oi Hn Hnm). reflexivity.
  Qed.

  Lemma state_clear_other fs : forall ss i oi' oi, oi' <> oi ->
    oneof_state fs (clear_oneof fs ss oi') i oi = oneof_state fs ss i oi.
  Proof.
    induction fs as [|g fs IH]; intros ss i oi' oi Hne; [destruct ss; reflexivity|].
    destruct ss as [|s ss]; [reflexivity|]. cbn [clear_oneof oneof_state]. rewrite (IH ss (S i) oi' oi Hne).
    destruct (f_shape g) as [| |j|]; try reflexivity.
    destruct (Nat.eqb j oi') eqn:E1; [|reflexivity]. apply Nat.eqb_eq in E1. subst j.
    assert (Nat.eqb oi' oi = false) as E by (apply Nat.eqb_neq; exact Hne). rewrite E. destruct s; reflexivity.
  Qed.

  Lemma state_clear_same fs : forall ss i oi, oneof_state fs (clear_oneof fs ss oi) i oi = None.
  Proof.
    induction fs as [|g fs IH]; intros ss i oi; [destruct ss; reflexivity|].
    destruct ss as [|s ss]; [reflexivity|]. cbn [clear_oneof oneof_state]. rewrite IH.
    destruct (f_shape g) as [| |j|]; try reflexivity.
    destruct (Nat.eqb j oi) eqn:E1; [reflexivity|]. destruct s; reflexivity.
  Qed.

  Lemma state_set_member fs : forall ss idx i f v oi, nth_error fs idx = Some f -> f_shape f = Member oi ->
    (idx < length ss)%nat -> oneof_state fs ss i oi = None ->
    oneof_state fs (set_nth ss idx (VSome v)) i oi = Some (i + idx)%nat.
  Proof.
    induction fs as [|g fs IH]; intros ss idx i f v oi Hn Hs Hl Hst; [destruct idx; discriminate|].
    destruct ss as [|s ss]; [cbn in Hl; lia|]. destruct idx as [|idx]; cbn [nth_error] in Hn; cbn [set_nth oneof_state].
    - injection Hn as ->. rewrite Hs, Nat.eqb_refl. f_equal. lia.
    - cbn [oneof_state] in Hst. cbn [length] in Hl.
      assert (Hrec : oneof_state fs ss (S i) oi = None).
      { destruct (f_shape g) as [| |j|]; try exact Hst. destruct s; try exact Hst. destruct (Nat.eqb j oi); [discriminate|exact Hst]. }
      rewrite (IH ss idx (S i) f v oi Hn Hs ltac:(lia) Hrec).
      destruct (f_shape g) as [| |j|]; try (f_equal; lia). destruct s; try (f_equal; lia).
      destruct (Nat.eqb j oi); [discriminate|f_equal; lia].
  Qed.

  Lemma clear_length fs : forall ss oi, length (clear_oneof fs ss oi) = length ss.
  Proof. induction fs as [|g fs IH]; intros [|s ss] oi; cbn [clear_oneof length]; auto. Qed.

  Lemma clear_nth fs : forall ss oi k s', nth_error (clear_oneof fs ss oi) k = Some s' ->
    exists s, nth_error ss k = Some s /\ (s' = s \/ (s' = VNil /\ exists g, nth_error fs k = Some g /\ f_shape g = Member oi)).
  Proof.
    induction fs as [|g fs IH]; intros ss oi k s'.
    - cbn [clear_oneof]. intros H. exists s'. split; [exact H|left; reflexivity].
    - destruct ss as [|s ss]; cbn [clear_oneof]; [destruct k; discriminate|].
      destruct k as [|k]; cbn [nth_error].
      + intros E. injection E as <-. exists s. split; [reflexivity|].
        destruct (f_shape g) as [| |j|] eqn:Es; auto. destruct (Nat.eqb j oi) eqn:E; auto.
        apply Nat.eqb_eq in E. subst j. right. split; [reflexivity|]. exists g. split; [reflexivity|exact Es].
      + intros E. destruct (IH ss oi k s' E) as (s0 & A & B). exists s0. split; [exact A|].
        destruct B as [B|(B1 & g0 & B2 & B3)]; [left; exact B|right; split; [exact B1|exists g0; split; assumption]].
  Qed.

  Lemma clear_member_nil fs : forall ss k f oi s, nth_error fs k = Some f -> f_shape f = Member oi ->
    nth_error (clear_oneof fs ss oi) k = Some s -> s = VNil.
  Proof.
    induction fs as [|g fs IH]; intros ss k f oi s Hf Hm Hs; [destruct k; discriminate|].
    destruct ss as [|x ss]; cbn [clear_oneof] in Hs; [destruct k; discriminate|].
    destruct k as [|k]; cbn [nth_error] in *.
    - injection Hf as ->. rewrite Hm, Nat.eqb_refl in Hs. congruence.
    - eapply IH; eauto.
  Qed.

  (* [oneof_reach] along a list of fields *)
  Lemma reach_app r a : forall b i oi acc,
    oneof_reach o ann r (a ++ b) i oi acc = oneof_reach o ann r b (i + length a) oi (oneof_reach o ann r a i oi acc).
  Proof.
    induction a as [|f a IH]; intros b i oi acc; cbn [app length oneof_reach]; [f_equal; lia|].
    destruct (f_shape f) as [| |j|]; try (rewrite IH; f_equal; lia).
    destruct (Nat.eqb j oi); rewrite IH; f_equal; lia.
  Qed.

  Lemma reach_incl r fs : forall i oi acc acc', incl acc acc' ->
    incl (oneof_reach o ann r fs i oi acc) (oneof_reach o ann r fs i oi acc').
  Proof.
    induction fs as [|f fs IH]; intros i oi acc acc' H; cbn [oneof_reach]; [exact H|].
    destruct (f_shape f) as [| |j|]; try (apply IH; exact H).
    destruct (Nat.eqb j oi); [|apply IH; exact H]. apply IH. destruct (forced o f); [apply incl_refl|].
    intros x [Hx|Hx]; [left; exact Hx|right; apply H; exact Hx].
  Qed.

  Lemma reach_split_app r fs : forall i oi acc1 acc2 x, In x (oneof_reach o ann r fs i oi (acc1 ++ acc2)) ->
    In x (oneof_reach o ann r fs i oi acc1) \/ In x acc2.
  Proof.
    induction fs as [|f fs IH]; intros i oi acc1 acc2 x; cbn [oneof_reach]; [apply in_app_or|].
    destruct (f_shape f) as [| |j|]; try apply IH.
    destruct (Nat.eqb j oi); [|apply IH]. destruct (forced o f); [auto|].
    intros H. apply (IH (S i) oi (_ :: acc1) acc2 x). exact H.
  Qed.

  Lemma reach_split r fs i oi acc x : In x (oneof_reach o ann r fs i oi acc) ->
    In x acc \/ In x (oneof_reach o ann r fs i oi []).
  Proof. intros H. apply (reach_split_app r fs i oi [] acc x) in H. tauto. Qed.

  (* the member set after a pass is one a pass from scratch can leave *)
  Lemma reach_closed r fs oi st0 st :
    In st0 (None :: oneof_reach o ann r fs 0 oi [None]) -> In st (oneof_reach o ann r fs 0 oi [st0]) ->
    In st (oneof_reach o ann r fs 0 oi [None]).
  Proof.
    intros [<-|H0] H; [exact H|]. apply reach_split in H. destruct H as [[<-|[]]|H]; [exact H0|].
    eapply reach_incl; [|exact H]. intros y [].
  Qed.

  (* ---- setFieldValue --------------------------------------------------------------------------------- *)
  Lemma any_sdeep r pp ic tm md slots : is_any ann tm = true -> get_msg sch tm = Some md ->
    s_any o sch ann (SD r) r ic slots [] -> SD (S r) pp ic tm (VMsg slots []).
  Proof.
    unfold is_any, wkt_of. intros Ha Hg Hs. cbn [sdeep]. rewrite Hg.
    destruct (nth_error ann tm) as [ma|]; [|discriminate]. destruct (a_wkt ma); try discriminate. exact Hs.
  Qed.

  Definition field_facts (f : field) (fa : fannot) : Prop :=
    (forall k, f_ty f = TScalar k -> k = KEnum -> enum_decl_ok (a_enum fa)) /\
    (forall kk, f_shape f = MapOf kk -> kk <> KEnum) /\
    (forall tm, f_ty f = TMsg tm -> exists md', get_msg sch tm = Some md').

  Definition succ_of (r : nat) (f : field) : bool :=
    match f_ty f with TScalar _ => true | TMsg tm => child_ok_singular o ann r tm end.

  Lemma singular_ok_iff depth tm : is_any ann tm = false ->
    (child_ok_singular o ann (12 - S depth) tm = true <-> (S depth <= 10)%nat).
  Proof.
    intros Ha. unfold child_ok_singular. rewrite Ha. split; intros H; [apply Nat.leb_le in H; lia|apply Nat.leb_le; lia].
  Qed.

  (* the message-typed child of a singular field or oneof member *)
  Lemma msg_child_ok child depth fa tm s tp res tp' q :
    child_sound child (S depth) -> child_sound child (S (S depth)) -> (depth <= 10)%nat ->
    (exists md', get_msg sch tm = Some md') ->
    (s = VNil \/ (is_msgv s = true /\ SD (12 - S depth) q (IField (a_iface fa)) tm s)) ->
    (if is_any ann tm then gen_any vr o sch ann child (S depth) (IField (a_iface fa)) tp
     else child (S depth) (IField (a_iface fa)) tm (or_fresh sch tm s) tp) = Ok (res, tp') ->
    match res with
    | Some v => is_msgv v = true /\ child_ok_singular o ann (12 - S depth) tm = true /\
                SD (12 - S depth) (q + 1) (IField (a_iface fa)) tm v
    | None => child_ok_singular o ann (12 - S depth) tm = false
    end.
  Proof.
    intros Hc1 Hc2 Hd [md' Hg] Hs. destruct (is_any ann tm) eqn:Ea.
    - intros E. pose proof (gen_any_sound _ _ _ _ _ _ Hc2 ltac:(lia) E) as H. destruct res as [A|].
      + destruct H as (Hu & slots & -> & Hsa). split; [reflexivity|]. unfold child_ok_singular. rewrite Ea. split; [exact Hu|].
        replace (12 - S depth)%nat with (S (11 - S depth)) by lia. eapply any_sdeep; eauto.
      + unfold child_ok_singular. rewrite Ea. exact H.
    - intros E. specialize (Hc1 _ _ _ _ _ _ E). cbn beta iota in Hc1. destruct res as [v|].
      + destruct Hc1 as (H1 & _ & Hm & (md & ma & Hg' & Hn) & Hsd). split; [exact Hm|].
        split; [apply singular_ok_iff; assumption|].
        destruct Hs as [->|[Hm' Hs]].
        * cbn [or_fresh] in Hsd. apply (sdeep_mono _ 1 (q + 1)); [lia|]. apply (Hsd 0).
          replace (12 - S depth)%nat with (S (11 - S depth)) by lia. eapply fresh_cur_ok; eauto.
        * apply Hsd. destruct s; try discriminate. cbn [or_fresh]. eapply sdeep_cur_ok. exact Hs.
      + destruct (child_ok_singular o ann (12 - S depth) tm) eqn:E0; [|reflexivity].
        apply singular_ok_iff in E0; [|exact Ea]. destruct Hc1 as [Hc1|[Hc1 _]]; [lia|congruence].
  Qed.

  Lemma min_n_len : min_n o = min_len o.
  Proof. reflexivity. Qed.

  Lemma len_le_intro {A} (l : list A) b : N.of_nat (length l) <= b -> len_le l b = true.
  Proof. intros H. unfold len_le. apply N.leb_le. exact H. Qed.
  Lemma len_le_elim {A} (l : list A) b : len_le l b = true -> N.of_nat (length l) <= b.
  Proof. unfold len_le. apply N.leb_le. Qed.

  Lemma Forall_forallb {A} (g : A -> bool) l : Forall (fun x => g x = true) l -> forallb g l = true.
  Proof. intros H. apply forallb_forall. rewrite Forall_forall in H. exact H. Qed.

  Lemma sfv_sound child depth md idx f fa slots tp slots' tp' q :
    child_sound child (S depth) -> child_sound child (S (S depth)) -> (depth <= 10)%nat ->
    field_facts f fa ->
    cslot o ann (SD (12 - S depth)) (12 - S depth) q f fa (nth idx slots VNil) ->
    set_field_value vr o sch ann child depth md idx f fa slots tp = Ok (slots', tp') ->
    match f_shape f with
    | Member oi =>
      (exists e, slots' = set_nth (clear_oneof (m_fields md) slots oi) idx (VSome e) /\
                 sslot o sch ann (SD (12 - S depth)) (12 - S depth) (q + 1) f fa (VSome e) /\
                 succ_of (12 - S depth) f = true) \/
      (slots' = clear_oneof (m_fields md) slots oi /\ succ_of (12 - S depth) f = false)
    | _ => exists v, slots' = set_nth slots idx v /\ sslot o sch ann (SD (12 - S depth)) (12 - S depth) (q + 1) f fa v
    end.
  Proof.
    intros Hc1 Hc2 Hd (F1 & F2 & F3) Hcs. unfold set_field_value. set (s := nth idx slots VNil) in *.
    set (r' := (12 - S depth)%nat) in *. unfold cslot in Hcs.
    destruct (f_shape f) as [|packed|oi|kk] eqn:Es; destruct (f_ty f) as [k|tm] eqn:Et.
    - (* singular scalar *)
      pose proof (gen_scalar_ok o k (a_enum fa) tp Hfm (F1 k eq_refl)) as Hv.
      destruct (gen_scalar vr o k (a_enum fa) tp) as [v t1]. cbn [fst] in Hv. intros E. injection E as <- <-.
      exists v. split; [reflexivity|]. unfold sslot, rg_slot, selem. rewrite Es, Et. split; [reflexivity|exact Hv].
    - (* singular message *)
      match goal with |- context [if is_any ann tm then ?a else ?b] => destruct (if is_any ann tm then a else b) as [[res t1]| | |] eqn:Er end; try discriminate.
      assert (Hs' : s = VNil \/ (is_msgv s = true /\ SD r' q (IField (a_iface fa)) tm s)) by (destruct Hcs as [H|(H1 & _ & H2)]; auto).
      pose proof (msg_child_ok child depth fa tm s tp res t1 q Hc1 Hc2 Hd (F3 tm eq_refl) Hs' Er) as H. fold r' in H.
      destruct res as [v|]; intros E; injection E as <- <-.
      + destruct H as (Hm & Hok & Hsd). exists v. split; [reflexivity|]. unfold sslot, rg_slot, selem. rewrite Es, Et.
        destruct v; try discriminate. split; [exact Hok|exact Hsd].
      + exists VNil. split; [reflexivity|]. unfold sslot, rg_slot, selem. rewrite Es, Et. rewrite H.
        split; [apply orb_true_r|exact I].
    - (* repeated scalar *)
      destruct Hcs as (l0 & Hl0 & Hlen & Hall).
      assert (El : match s with VList l => l | _ => [] end = l0) by (destruct s; cbn [rep_len] in Hl0; try discriminate; congruence).
      rewrite El. pose proof (draw_n_range (min_n o) 10 tp ltac:(unfold min_n; destruct (o_no_empty o); lia)) as Hn.
      destruct (draw_n (min_n o) 10 tp) as [n t1]. cbn [fst] in Hn.
      destruct (scalar_loop_ok k (a_enum fa) (F1 k eq_refl) (N.to_nat n) l0 t1 Hall) as [Hf Hlen'].
      destruct (scalar_loop vr o k (a_enum fa) (N.to_nat n) l0 t1) as [l' t2]. cbn [fst] in *. intros E. injection E as <- <-.
      exists (VList l'). split; [reflexivity|]. unfold sslot, rg_slot, selem. rewrite Es, Et. apply len_le_elim in Hlen. split; [|exact Hf].
      cbn [rep_len]. rewrite min_n_len in Hn. apply andb_true_iff. split.
      + unfold rep_exact_ok. destruct l'; [|reflexivity]. cbn [length] in Hlen'. apply orb_true_iff. left. apply N.eqb_eq. lia.
      + apply andb_true_iff. split; [apply N.leb_le; lia|apply len_le_intro; lia].
    - (* repeated message *)
      destruct Hcs as (l0 & Hl0 & Hlen & Hor & Hall & _).
      assert (El : match s with VList l => l | _ => [] end = l0) by (destruct s; cbn [rep_len] in Hl0; try discriminate; congruence).
      rewrite El. pose proof (draw_n_range (min_n o) 10 tp ltac:(unfold min_n; destruct (o_no_empty o); lia)) as Hn.
      destruct (draw_n (min_n o) 10 tp) as [n t1]. cbn [fst] in Hn. rewrite min_n_len in Hn.
      destruct (list_loop vr sch child depth fa tm (N.to_nat n) 0 l0 t1) as [[l' t2]| | |] eqn:Ell; try discriminate.
      destruct (list_loop_ok child depth fa tm Hc1 _ _ _ _ _ _ Ell Hall) as (Hf & Hyes & Hno). fold r' in Hyes, Hno.
      intros E. injection E as <- <-. cbn [v_list_clear repaired andb]. apply len_le_elim in Hlen.
      assert (Hmsgs : forallb is_msgv l' = true).
      { apply Forall_forallb. eapply Forall_impl; [|exact Hf]. intros x [Hx _]. exact Hx. }
      destruct (child_ok_container vr o ann r' tm) eqn:Eok.
      + specialize (Hyes eq_refl).
        assert (E2 : (2 <=? r')%nat = true) by (unfold child_ok_container in Eok; apply andb_true_iff in Eok; tauto).
        assert (Ev : (if (0 <? n) && is_nilb l' then VNil else VList l') = VList l').
        { destruct l'; [|rewrite andb_false_r; reflexivity]. cbn [length] in Hyes. destruct (N.ltb_spec 0 n); [lia|reflexivity]. }
        rewrite Ev. exists (VList l'). split; [reflexivity|]. unfold sslot, rg_slot, selem. rewrite Es, Et, E2. fold r'. rewrite Eok. split.
        * cbn [rep_len negb]. apply andb_true_iff. split.
          -- unfold rep_exact_ok. destruct l'; [|reflexivity]. cbn [length] in Hyes. apply orb_true_iff. left. apply N.eqb_eq. lia.
          -- destruct l' as [|e l']; [apply orb_true_iff; right; apply N.eqb_eq; cbn [length] in Hyes; lia|].
             apply andb_true_iff. split; [apply len_le_intro; lia|exact Hmsgs].
        * eapply Forall_impl; [|exact Hf]. intros x [Hx1 Hx2]. destruct x; try discriminate. exact Hx2.
      + specialize (Hno eq_refl). subst l'. destruct Hor as [->|Hor]; [|discriminate].
        exists (if (0 <? n) && true then VNil else VList []). cbn [is_nilb]. split; [reflexivity|].
        unfold sslot, rg_slot, selem. rewrite Es, Et. fold r'. rewrite Eok. cbn [negb v_list_truncate repaired].
        destruct (N.ltb_spec 0 n); cbn [andb rep_len rep_exact_ok is_nilb].
        * split; [reflexivity|exact I].
        * split; [|destruct (2 <=? r')%nat; [constructor|exact I]].
          rewrite andb_true_r. apply orb_true_iff. left. apply N.eqb_eq. lia.
    - (* oneof member, scalar *)
      pose proof (gen_scalar_ok o k (a_enum fa) tp Hfm (F1 k eq_refl)) as Hv.
      destruct (gen_scalar vr o k (a_enum fa) tp) as [v t1]. cbn [fst] in Hv. intros E. injection E as <- <-.
      left. exists v. split; [reflexivity|]. split; [|unfold succ_of; rewrite Et; reflexivity].
      unfold sslot, rg_slot, selem. rewrite Es, Et. split; [reflexivity|exact Hv].
    - (* oneof member, message *)
      set (payload := match s with VSome p => p | _ => VNil end).
      assert (Etarget : match s with VSome p => or_fresh sch tm p | _ => fresh sch tm end = or_fresh sch tm payload).
      { unfold payload. destruct s; reflexivity. }
      rewrite Etarget.
      match goal with |- context [if is_any ann tm then ?a else ?b] => destruct (if is_any ann tm then a else b) as [[res t1]| | |] eqn:Er end; try discriminate.
      assert (Hs' : payload = VNil \/ (is_msgv payload = true /\ SD r' q (IField (a_iface fa)) tm payload)).
      { unfold payload. destruct Hcs as [->|(e & -> & H1 & _ & H2)]; auto. }
      pose proof (msg_child_ok child depth fa tm payload tp res t1 q Hc1 Hc2 Hd (F3 tm eq_refl) Hs' Er) as H. fold r' in H.
      destruct res as [v|]; intros E; injection E as <- <-.
      + destruct H as (Hm & Hok & Hsd). left. exists v. split; [reflexivity|]. split; [|unfold succ_of; rewrite Et; exact Hok].
        unfold sslot, rg_slot, selem. rewrite Es, Et. destruct v; try discriminate. split; [exact Hok|exact Hsd].
      + right. split; [reflexivity|]. unfold succ_of. rewrite Et. exact H.
    - (* map, scalar values *)
      destruct Hcs as (kvs0 & Hk0 & Hlen & Hnd & Hall & _).
      assert (El : match s with VMap kvs => kvs | _ => [] end = kvs0) by (destruct s; cbn [map_kvs] in Hk0; try discriminate; congruence).
      rewrite El. pose proof (draw_n_range 0 10 tp ltac:(lia)) as Hn. destruct (draw_n 0 10 tp) as [n t1]. cbn [fst] in Hn.
      destruct (map_loop vr o sch child depth kk (TScalar k) fa (N.to_nat n) kvs0 t1) as [[kvs' t2]| | |] eqn:Eml; try discriminate.
      destruct (map_loop_ok child depth kk (TScalar k) fa Hc1 (F2 kk eq_refl) ltac:(intros k0 E0; injection E0 as <-; apply F1; reflexivity)
                            _ _ _ _ _ (10 * q) Eml Hnd) as (I1 & I2 & I3 & _); [exact Hall|exact I|].
      intros E. injection E as <- <-. exists (VMap kvs'). split; [reflexivity|]. apply len_le_elim in Hlen.
      unfold sslot, rg_slot, selem. rewrite Es, Et. cbn [map_kvs]. split.
      + repeat (apply andb_true_iff; split); auto. apply len_le_intro. lia.
      + eapply Forall_impl; [|exact I2]. intros kv [Ha Hb]. split; [exact Ha|exact Hb].
    - (* map, message values *)
      destruct Hcs as (kvs0 & Hk0 & Hlen & Hnd & Hall & Htail).
      assert (El : match s with VMap kvs => kvs | _ => [] end = kvs0) by (destruct s; cbn [map_kvs] in Hk0; try discriminate; congruence).
      rewrite El. pose proof (draw_n_range 0 10 tp ltac:(lia)) as Hn. destruct (draw_n 0 10 tp) as [n t1]. cbn [fst] in Hn.
      destruct (map_loop vr o sch child depth kk (TMsg tm) fa (N.to_nat n) kvs0 t1) as [[kvs' t2]| | |] eqn:Eml; try discriminate.
      destruct (map_loop_ok child depth kk (TMsg tm) fa Hc1 (F2 kk eq_refl) ltac:(intros k0 E0; discriminate)
                            _ _ _ _ _ (10 * q) Eml Hnd) as (I1 & I2 & I3 & I4); [exact Hall|exact Htail|].
      intros E. injection E as <- <-. exists (VMap kvs'). split; [reflexivity|]. apply len_le_elim in Hlen.
      unfold sslot, rg_slot, selem. rewrite Es, Et. cbn [map_kvs]. fold r'. split.
      + repeat (apply andb_true_iff; split); auto.
        * apply len_le_intro. lia.
        * destruct I4 as [->|I4]; [reflexivity|]. fold r' in I4. rewrite I4. apply orb_true_r.
        * apply Forall_forallb. eapply Forall_impl; [|exact I2]. intros kv [_ [Hb _]]. exact Hb.
      + eapply Forall_impl; [|exact I2]. intros kv [Ha [Hb Hc]]. split; [exact Ha|]. destruct (snd kv); try discriminate.
        eapply sdeep_mono; [|exact Hc]. lia.
  Qed.

  (* ---- the loop over the fields ------------------------------------------------------------------- *)
  (* a message-kind field the bool draw leaves alone keeps a slot the range admits *)
  Lemma cslot_skip r q f fa s : forced o f = false ->
    cslot o ann (SD r) r q f fa s -> sslot o sch ann (SD r) r (q + 1) f fa s.
  Proof.
    intros Hf. unfold cslot, sslot, rg_slot, selem. rewrite Hf. cbn [negb orb].
    assert (Hmk : msg_kind f = true) by (unfold forced in Hf; destruct (msg_kind f); [reflexivity|discriminate]).
    unfold msg_kind in Hmk.
    destruct (f_shape f) as [|packed|oi|kk] eqn:Es; destruct (f_ty f) as [k|tm] eqn:Et; try discriminate.
    - intros [->|(Hm & Hok & Hs)]; [split; [reflexivity|exact I]|].
      destruct s; try discriminate. split; [exact Hok|]. eapply sdeep_mono; [|exact Hs]. lia.
    - intros (l & Hl & Hlen & Hor & Hall & Hex). apply len_le_elim in Hlen.
      assert (Hmsgs : forallb is_msgv l = true).
      { apply Forall_forallb. eapply Forall_impl; [|exact Hall]. intros x [Hx _]. exact Hx. }
      split.
      + apply andb_true_iff. split.
        * unfold rep_exact_ok. destruct s; try reflexivity. destruct l0; [|reflexivity].
          rewrite (Hex eq_refl). reflexivity.
        * rewrite Hl. destruct (child_ok_container vr o ann r tm) eqn:Eok.
          -- destruct l; [reflexivity|]. apply andb_true_iff. split; [apply len_le_intro; lia|exact Hmsgs].
          -- destruct Hor as [->|Hor]; [reflexivity|discriminate].
      + destruct s; auto. cbn [rep_len] in Hl. injection Hl as ->. destruct (2 <=? r)%nat; auto.
        eapply Forall_impl; [|exact Hall]. intros x [Hx1 Hx2]. destruct x; try discriminate. exact Hx2.
    - intros [->|(e & -> & Hm & Hok & Hs)]; [split; [reflexivity|exact I]|].
      destruct e; try discriminate. split; [exact Hok|]. eapply sdeep_mono; [|exact Hs]. lia.
    - intros (kvs & Hk & Hlen & Hnd & Hall & _). apply len_le_elim in Hlen. rewrite Hk. split.
      + repeat (apply andb_true_iff; split); auto. apply len_le_intro. lia.
      + destruct s; auto. cbn [map_kvs] in Hk. injection Hk as ->. eapply Forall_impl; [|exact Hall]. intros kv [Ha Hb]. split; assumption.
    - intros (kvs & Hk & Hlen & Hnd & Hall & Htail). apply len_le_elim in Hlen. rewrite Hk. split.
      + repeat (apply andb_true_iff; split); auto.
        * apply len_le_intro. lia.
        * destruct Htail as [->|Ht]; [reflexivity|rewrite Ht; apply orb_true_r].
        * apply Forall_forallb. eapply Forall_impl; [|exact Hall]. intros kv [_ [Hb _]]. exact Hb.
      + destruct s; auto. cbn [map_kvs] in Hk. injection Hk as ->. eapply Forall_impl; [|exact Hall].
        intros kv [Ha [Hb Hc]]. split; [exact Ha|]. destruct (snd kv); try discriminate. eapply sdeep_mono; [|exact Hc]. lia.
  Qed.

  Lemma member_nil_sslot (rec : srec_t) r p f fa oi : f_shape f = Member oi -> sslot o sch ann rec r p f fa VNil.
  Proof. intros Es. unfold sslot, rg_slot. rewrite Es. destruct (f_ty f); split; auto. Qed.
  Lemma member_nil_cslot (rec : srec_t) r q f fa oi : f_shape f = Member oi -> cslot o ann rec r q f fa VNil.
  Proof. intros Es. unfold cslot. rewrite Es. destruct (f_ty f); left; reflexivity. Qed.

  Section Fields.
    Variable child : child_t.
    Variable depth : nat.
    Variable md : msgdesc.
    Variable ma : mannot.
    Variable q : N.
    Variable st0 : nat -> option nat.
    Hypothesis Hc1 : child_sound child (S depth).
    Hypothesis Hc2 : child_sound child (S (S depth)).
    Hypothesis Hd : (depth <= 10)%nat.
    Hypothesis Hlenfa : length (a_fields ma) = length (m_fields md).
    Hypothesis Hfacts : forall i f fa, nth_error (m_fields md) i = Some f -> nth_error (a_fields ma) i = Some fa ->
      field_facts f fa /\ (forall j, f_shape f = Member j -> (j < m_oneofs md)%nat).
    Let r' := (12 - S depth)%nat.

    Definition finv (pre : list field) (slots : list val) : Prop :=
      length slots = length (m_fields md) /\
      (forall i f fa s, nth_error (m_fields md) i = Some f -> nth_error (a_fields ma) i = Some fa -> nth_error slots i = Some s ->
         ((i < length pre)%nat -> sslot o sch ann (SD r') r' (q + 1) f fa s) /\
         ((length pre <= i)%nat -> cslot o ann (SD r') r' q f fa s)) /\
      (forall oi, (oi < m_oneofs md)%nat ->
         (oneof_count (m_fields md) slots oi <= 1)%nat /\
         In (oneof_state (m_fields md) slots 0 oi) (oneof_reach o ann r' pre 0 oi [st0 oi])).

    Lemma reach_snoc pre f oi acc :
      oneof_reach o ann r' (pre ++ [f]) 0 oi acc =
      match f_shape f with
      | Member j =>
        if Nat.eqb j oi then
          let out := if succ_of r' f then Some (length pre) else None in
          if forced o f then [out] else out :: oneof_reach o ann r' pre 0 oi acc
        else oneof_reach o ann r' pre 0 oi acc
      | _ => oneof_reach o ann r' pre 0 oi acc
      end.
    Proof.
      rewrite reach_app. cbn [oneof_reach Nat.add]. unfold succ_of.
      destruct (f_shape f); reflexivity.
    Qed.

    Lemma set_nth_nth_error {A} (l : list A) : forall i k x, nth_error (set_nth l i x) k =
      if Nat.eqb k i then (match nth_error l k with Some _ => Some x | None => None end) else nth_error l k.
    Proof.
      induction l as [|a l IH]; intros i k x; cbn [set_nth].
      - destruct k; destruct (Nat.eqb _ i); reflexivity.
      - destruct i as [|i]; destruct k as [|k]; cbn [set_nth nth_error Nat.eqb]; try reflexivity. apply IH.
    Qed.

    (* the field is left alone *)
    Lemma finv_skip pre f fa slots : nth_error (m_fields md) (length pre) = Some f ->
      nth_error (a_fields ma) (length pre) = Some fa -> forced o f = false ->
      finv pre slots -> finv (pre ++ [f]) slots.
    Proof.
      intros Hf Hfa Hfo (L & Hsl & Hone). split; [exact L|]. split.
      - intros i g ga s Hg Hga Hs. rewrite app_length. cbn [length]. destruct (Hsl i g ga s Hg Hga Hs) as [A B]. split.
        + intros Hi. destruct (Nat.eq_dec i (length pre)) as [->|Hne]; [|apply A; lia].
          rewrite Hf in Hg. injection Hg as <-. rewrite Hfa in Hga. injection Hga as <-. apply cslot_skip; [exact Hfo|apply B; lia].
        + intros Hi. apply B. lia.
      - intros oi Hoi. destruct (Hone oi Hoi) as [C R]. split; [exact C|]. rewrite reach_snoc.
        destruct (f_shape f); try exact R. destruct (Nat.eqb oneof oi); [|exact R]. rewrite Hfo. right. exact R.
    Qed.

    (* a field that is not a oneof member gets a new slot *)
    Lemma finv_set pre f fa slots v : nth_error (m_fields md) (length pre) = Some f ->
      nth_error (a_fields ma) (length pre) = Some fa -> (forall j, f_shape f <> Member j) ->
      sslot o sch ann (SD r') r' (q + 1) f fa v ->
      finv pre slots -> finv (pre ++ [f]) (set_nth slots (length pre) v).
    Proof.
      intros Hf Hfa Hnm Hv (L & Hsl & Hone). split; [rewrite RoundTrip.set_nth_length; exact L|]. split.
      - intros i g ga s Hg Hga Hs. rewrite app_length. cbn [length]. rewrite set_nth_nth_error in Hs.
        destruct (Nat.eqb_spec i (length pre)) as [->|Hne].
        + rewrite Hf in Hg. injection Hg as <-. rewrite Hfa in Hga. injection Hga as <-.
          destruct (nth_error slots (length pre)); [|discriminate]. injection Hs as <-. split; [intros _; exact Hv|lia].
        + destruct (Hsl i g ga s Hg Hga Hs) as [A B]. split; [intros Hi; apply A; lia|intros Hi; apply B; lia].
      - intros oi Hoi. destruct (Hone oi Hoi) as [C R].
        assert (Hnm' : not_member_of f oi) by (intros j Hj; exfalso; eapply Hnm; exact Hj).
        split.
        + pose proof (count_set_le (m_fields md) slots (length pre) f v oi Hf) as H.
          unfold oo_term in H. destruct (f_shape f) eqn:Es; try lia. exfalso. eapply Hnm. reflexivity.
        + rewrite (state_set_nonmember _ _ _ _ _ _ _ Hf Hnm'). rewrite reach_snoc.
          destruct (f_shape f) eqn:Es; try exact R. exfalso. eapply Hnm. reflexivity.
    Qed.

    (* slots other than the member just written, after the oneof was cleared *)
    Lemma cleared_slots pre slots oi0 : finv pre slots ->
      forall i g ga s', nth_error (m_fields md) i = Some g -> nth_error (a_fields ma) i = Some ga ->
        nth_error (clear_oneof (m_fields md) slots oi0) i = Some s' ->
        ((i < length pre)%nat -> sslot o sch ann (SD r') r' (q + 1) g ga s') /\
        ((length pre <= i)%nat -> cslot o ann (SD r') r' q g ga s').
    Proof.
      intros (L & Hsl & _) i g ga s' Hg Hga Hs. destruct (clear_nth _ _ _ _ _ Hs) as (s & Hs0 & [->|(-> & g0 & Hg0 & Hm)]).
      - apply (Hsl i g ga s Hg Hga Hs0).
      - rewrite Hg in Hg0. injection Hg0 as <-. split; intros _; [eapply member_nil_sslot|eapply member_nil_cslot]; exact Hm.
    Qed.

    Lemma finv_member_some pre f fa slots oi0 e : nth_error (m_fields md) (length pre) = Some f ->
      nth_error (a_fields ma) (length pre) = Some fa -> f_shape f = Member oi0 ->
      sslot o sch ann (SD r') r' (q + 1) f fa (VSome e) -> succ_of r' f = true ->
      finv pre slots -> finv (pre ++ [f]) (set_nth (clear_oneof (m_fields md) slots oi0) (length pre) (VSome e)).
    Proof.
      intros Hf Hfa Hm Hv Hsucc Hinv. pose proof Hinv as (L & Hsl & Hone).
      assert (Hidx : (length pre < length slots)%nat) by (rewrite L; apply nth_error_Some; congruence).
      split; [rewrite RoundTrip.set_nth_length, clear_length; exact L|]. split.
      - intros i g ga s Hg Hga Hs. rewrite app_length. cbn [length]. rewrite set_nth_nth_error in Hs.
        destruct (Nat.eqb_spec i (length pre)) as [->|Hne].
        + rewrite Hf in Hg. injection Hg as <-. rewrite Hfa in Hga. injection Hga as <-.
          destruct (nth_error (clear_oneof (m_fields md) slots oi0) (length pre)); [|discriminate]. injection Hs as <-. split; [intros _; exact Hv|lia].
        + destruct (cleared_slots pre slots oi0 Hinv i g ga s Hg Hga Hs) as [A B]. split; [intros Hi; apply A; lia|intros Hi; apply B; lia].
      - intros oi Hoi. destruct (Hone oi Hoi) as [C R]. rewrite reach_snoc, Hm.
        pose proof (count_set_le (m_fields md) (clear_oneof (m_fields md) slots oi0) (length pre) f (VSome e) oi Hf) as Hcnt.
        unfold oo_term in Hcnt. rewrite Hm in Hcnt.
        destruct (Nat.eqb_spec oi0 oi) as [->|Hne].
        + rewrite count_clear_same in Hcnt. split; [lia|].
          rewrite (state_set_member _ _ _ 0%nat f e oi Hf Hm); [|rewrite clear_length; exact Hidx|apply state_clear_same].
          rewrite Hsucc. cbn [Nat.add]. destruct (forced o f); left; reflexivity.
        + pose proof (count_clear_le (m_fields md) slots oi0 oi). split; [lia|].
          rewrite (state_set_nonmember _ _ _ _ f); [|exact Hf|intros j Hj; rewrite Hm in Hj; injection Hj as <-; exact Hne].
          rewrite state_clear_other by exact Hne. exact R.
    Qed.

    Lemma finv_member_none pre f fa slots oi0 : nth_error (m_fields md) (length pre) = Some f ->
      nth_error (a_fields ma) (length pre) = Some fa -> f_shape f = Member oi0 -> succ_of r' f = false ->
      finv pre slots -> finv (pre ++ [f]) (clear_oneof (m_fields md) slots oi0).
    Proof.
      intros Hf Hfa Hm Hsucc Hinv. pose proof Hinv as (L & Hsl & Hone).
      split; [rewrite clear_length; exact L|]. split.
      - intros i g ga s Hg Hga Hs. rewrite app_length. cbn [length].
        destruct (cleared_slots pre slots oi0 Hinv i g ga s Hg Hga Hs) as [A B].
        destruct (Nat.eq_dec i (length pre)) as [->|Hne].
        + split; [intros _|lia]. rewrite Hf in Hg. injection Hg as <-.
          destruct (clear_nth _ _ _ _ _ Hs) as (s0 & Hs0 & Hcase).
          rewrite (clear_member_nil _ _ _ _ _ _ Hf Hm Hs).
          eapply member_nil_sslot. exact Hm.
        + split; [intros Hi; apply A; lia|intros Hi; apply B; lia].
      - intros oi Hoi. destruct (Hone oi Hoi) as [C R]. rewrite reach_snoc, Hm.
        destruct (Nat.eqb_spec oi0 oi) as [->|Hne].
        + rewrite count_clear_same, state_clear_same. split; [lia|]. rewrite Hsucc. destruct (forced o f); left; reflexivity.
        + pose proof (count_clear_le (m_fields md) slots oi0 oi). split; [lia|]. rewrite state_clear_other by exact Hne. exact R.
    Qed.

    Lemma fields_loop_sound : forall fs fas pre pre_as slots tp slots' tp',
      m_fields md = pre ++ fs -> a_fields ma = pre_as ++ fas -> length pre_as = length pre ->
      fields_loop vr o sch ann child depth md fs fas (length pre) slots tp = Ok (slots', tp') ->
      finv pre slots -> finv (m_fields md) slots'.
    Proof.
      induction fs as [|f fs IH]; intros fas pre pre_as slots tp slots' tp' Efs Efas Hl.
      - rewrite app_nil_r in Efs. cbn [fields_loop]. intros E. injection E as <- <-. rewrite Efs. auto.
      - destruct fas as [|fa fas].
        { exfalso. rewrite Efs, Efas, !app_length in Hlenfa. cbn [length] in Hlenfa. lia. }
        assert (Hf : nth_error (m_fields md) (length pre) = Some f).
        { rewrite Efs, nth_error_app2, Nat.sub_diag by lia. reflexivity. }
        assert (Hfa : nth_error (a_fields ma) (length pre) = Some fa).
        { rewrite Efas, nth_error_app2, Hl, Nat.sub_diag by lia. reflexivity. }
        destruct (Hfacts _ _ _ Hf Hfa) as [Hff Hmb].
        assert (Enext : length (pre ++ [f]) = S (length pre)) by (rewrite app_length; cbn [length]; lia).
        assert (Efs' : m_fields md = (pre ++ [f]) ++ fs) by (rewrite <- app_assoc; exact Efs).
        assert (Efas' : a_fields ma = (pre_as ++ [fa]) ++ fas) by (rewrite <- app_assoc; exact Efas).
        assert (Hl' : length (pre_as ++ [fa]) = length (pre ++ [f])) by (rewrite !app_length; cbn [length]; lia).
        cbn [fields_loop]. destruct (draw_bool tp) as [b t1].
        destruct (negb b && msg_kind f && negb (o_disallow_nil o)) eqn:Eskip.
        + intros E Hinv. rewrite <- Enext in E. eapply IH; eauto. eapply finv_skip; eauto.
          unfold forced. apply andb_true_iff in Eskip. destruct Eskip as [Ea Eb]. apply andb_true_iff in Ea. destruct Ea as [_ Ea].
          rewrite Ea, Eb. reflexivity.
        + destruct (set_field_value vr o sch ann child depth md (length pre) f fa slots t1) as [[slots1 t2]| | |] eqn:Esf; try discriminate.
          intros E Hinv. rewrite <- Enext in E. eapply IH; eauto.
          pose proof Hinv as (L & Hsl & _).
          assert (Hcs : cslot o ann (SD (12 - S depth)) (12 - S depth) q f fa (nth (length pre) slots VNil)).
          { assert (Hlt : (length pre < length slots)%nat) by (rewrite L; apply nth_error_Some; congruence).
            destruct (nth_error slots (length pre)) as [s|] eqn:En; [|apply nth_error_None in En; lia].
            rewrite (RoundTrip.nth_error_nth' _ _ _ VNil En). apply (Hsl _ _ _ _ Hf Hfa En). lia. }
          pose proof (sfv_sound child depth md (length pre) f fa slots t1 slots1 t2 q Hc1 Hc2 Hd Hff Hcs Esf) as H.
          destruct (f_shape f) as [|packed|oi0|kk] eqn:Es.
          * destruct H as (v & -> & Hv). eapply finv_set; eauto. intros j Hj. rewrite Es in Hj. discriminate.
          * destruct H as (v & -> & Hv). eapply finv_set; eauto. intros j Hj. rewrite Es in Hj. discriminate.
          * destruct H as [(e & -> & Hv & Hsu)|(-> & Hsu)]; [eapply finv_member_some|eapply finv_member_none]; eauto.
          * destruct H as (v & -> & Hv). eapply finv_set; eauto. intros j Hj. rewrite Es in Hj. discriminate.
    Qed.
  End Fields.

  (* ---- setFields, by induction on the fuel ---------------------------------------------------------- *)
  Hypothesis Hann : ann_ok sch ann = true.
  Definition enums_ok : Prop :=
    forall mid md ma i f fa, get_msg sch mid = Some md -> nth_error ann mid = Some ma ->
      nth_error (m_fields md) i = Some f -> nth_error (a_fields ma) i = Some fa ->
      f_ty f = TScalar KEnum -> enum_decl_ok (a_enum fa).
  Hypothesis Henum : enums_ok.

  Lemma facts_of mid md ma : get_msg sch mid = Some md -> nth_error ann mid = Some ma ->
    forall i f fa, nth_error (m_fields md) i = Some f -> nth_error (a_fields ma) i = Some fa ->
      field_facts f fa /\ (forall j, f_shape f = Member j -> (j < m_oneofs md)%nat).
  Proof.
    intros Hg Ha i f fa Hf Hfa. pose proof (RoundTrip.wf_get_msg sch mid md Hwf Hg) as Hmd.
    destruct (RoundTrip.msg_wf_field sch md i f Hmd Hf) as [Hfw _].
    pose proof (RoundTrip.field_wf_shape _ _ f Hfw) as Hsh. split; [split; [|split]|].
    - intros k Hk ->. eapply Henum; eauto.
    - intros kk Hkk. rewrite Hkk in Hsh. intros ->. discriminate.
    - intros tm Htm. pose proof (RoundTrip.field_wf_ty _ _ f tm Hfw Htm) as Hlt.
      destruct (get_msg sch tm) as [md'|] eqn:E; [eauto|]. apply nth_error_None in E. lia.
    - intros j Hj. rewrite Hj in Hsh. exact Hsh.
  Qed.

  Lemma wkt_is_any mid ma : nth_error ann mid = Some ma -> is_any ann mid = match a_wkt ma with WAny => true | _ => false end.
  Proof. intros H. unfold is_any, wkt_of. rewrite H. reflexivity. Qed.

  Lemma set_fields_sound : forall fuel d, child_sound (set_fields vr o sch ann fuel) d.
  Proof.
    induction fuel as [|fu IH]; intros d ic mid cur tp res tp'; cbn [set_fields]; [discriminate|].
    destruct (depth_limit <? d)%nat eqn:Ed.
    { intros E. injection E as <- <-. left. apply Nat.ltb_lt in Ed. exact Ed. }
    apply Nat.ltb_ge in Ed. unfold depth_limit in Ed.
    destruct (get_msg sch mid) as [md|] eqn:Hg; [|discriminate]. destruct (nth_error ann mid) as [ma|] eqn:Ha; [|discriminate].
    pose proof (wkt_is_any mid ma Ha) as Hia. destruct (ann_ok_nth _ _ _ _ _ Hann Hg Ha) as [Hlay Hlen].
    assert (Hr : (12 - d = S (11 - d))%nat) by lia.
    assert (Hcur : forall q, cur_ok o sch ann (12 - d) q mid cur -> exists slots, cur = VMsg slots []).
    { intros q. rewrite Hr. cbn [cur_ok]. rewrite Hg, Ha. destruct cur; try contradiction. intros [-> _]. eauto. }
    destruct (a_wkt ma) eqn:Ew.
    - (* ordinary message *)
      destruct (fields_loop vr o sch ann (set_fields vr o sch ann fu) d md (m_fields md) (a_fields ma) 0 (slots_of cur) tp) as [[slots' t1]| | |] eqn:Efl; try discriminate.
      intros E. injection E as <- <-. split; [exact Ed|]. split; [rewrite Hia; discriminate|]. split; [reflexivity|]. split; [eauto|].
      intros q Hq. destruct (Hcur q Hq) as [slots ->]. cbn [slots_of unk_of] in *.
      rewrite Hr in Hq. cbn [cur_ok] in Hq. rewrite Hg, Ha, Ew in Hq. destruct Hq as (_ & L & Hsl & Hone).
      replace (11 - d)%nat with (12 - S d)%nat in * by lia.
      pose proof (fields_loop_sound (set_fields vr o sch ann fu) d md ma q (fun oi => oneof_state (m_fields md) slots 0 oi)
                    (IH (S d)) (IH (S (S d))) Ed (eq_sym Hlen) (facts_of mid md ma Hg Ha)
                    (m_fields md) (a_fields ma) [] [] slots tp slots' t1 eq_refl eq_refl eq_refl Efl) as Hfin.
      destruct Hfin as (L' & Hsl' & Hone').
      { split; [exact L|]. split.
        - intros i f fa s Hf Hfa Hs. split; [cbn [length]; lia|intros _; eapply Hsl; eauto].
        - intros oi Hoi. split; [apply (Hone oi Hoi)|left; reflexivity]. }
      rewrite Hr. cbn [sdeep]. rewrite Hg, Ha, Ew. replace (11 - d)%nat with (12 - S d)%nat by lia. split.
      + unfold rg_msg. rewrite Ew. cbn [is_nilb andb]. unfold oneofs_ok. apply forallb_forall. intros oi Hoi.
        apply in_seq in Hoi. destruct (Hone' oi ltac:(lia)) as [C R]. apply andb_true_iff. split; [apply Nat.leb_le; exact C|].
        apply in_existsb_opt. eapply reach_closed; [|exact R]. apply (Hone oi). lia.
      + apply sslots_intro; [lia|exact L'|]. intros i f fa s Hf Hfa Hs. apply (Hsl' i f fa s Hf Hfa Hs).
        apply nth_error_Some. congruence.
    - (* Timestamp *)
      pose proof (draw_z_range (-9999999999) 9999999999 tp ltac:(lia)) as H1. destruct (draw_z (-9999999999) 9999999999 tp) as [s t1].
      pose proof (draw_z_range 0 999999999 t1 ltac:(lia)) as H2. destruct (draw_z 0 999999999 t1) as [n t2]. cbn [fst] in *.
      intros E. injection E as <- <-. split; [exact Ed|]. split; [rewrite Hia; discriminate|]. split; [reflexivity|]. split; [eauto|].
      intros q Hq. destruct (Hcur q Hq) as [slots ->]. cbn [unk_of]. rewrite Hr. cbn [sdeep]. rewrite Hg, Ha, Ew.
      unfold rg_msg. rewrite Ew. cbn [is_nilb andb]. repeat (apply andb_true_iff; split); try apply Z.leb_le; lia.
    - (* Duration *)
      pose proof (draw_z_range 0 9223372035 tp ltac:(lia)) as H1. destruct (draw_z 0 9223372035 tp) as [s t1].
      pose proof (draw_z_range 0 999999999 t1 ltac:(lia)) as H2. destruct (draw_z 0 999999999 t1) as [n t2]. cbn [fst] in *.
      intros E. injection E as <- <-. split; [exact Ed|]. split; [rewrite Hia; discriminate|]. split; [reflexivity|]. split; [eauto|].
      intros q Hq. destruct (Hcur q Hq) as [slots ->]. cbn [unk_of]. rewrite Hr. cbn [sdeep]. rewrite Hg, Ha, Ew.
      unfold rg_msg. rewrite Ew. cbn [is_nilb andb]. repeat (apply andb_true_iff; split); try apply Z.leb_le; lia.
    - (* Any *)
      destruct (gen_any vr o sch ann (set_fields vr o sch ann fu) d ic tp) as [[[A|] t1]| | |] eqn:Ega; try discriminate.
      + pose proof (gen_any_sound _ _ _ _ _ _ (IH (S d)) ltac:(lia) Ega) as (Hu & slots & -> & Hsa).
        intros E. injection E as <- <-. split; [exact Ed|]. split; [intros _; exact Hu|]. split; [reflexivity|]. split; [eauto|].
        intros q _. rewrite Hr. cbn [sdeep]. rewrite Hg, Ha, Ew. exact Hsa.
      + pose proof (gen_any_sound _ _ _ _ _ _ (IH (S d)) ltac:(lia) Ega) as Hu. cbn beta iota in Hu.
        cbn [v_any_container repaired]. intros E. injection E as <- <-. right. split; [rewrite Hia; reflexivity|exact Hu].
    - (* FieldMask *)
      pose proof (draw_n_range 1 5 tp ltac:(lia)) as Hn. destruct (draw_n 1 5 tp) as [n t1]. cbn [fst] in Hn.
      pose proof (draw_many_forall (fun b => fm_path_ok b = true) draw_path draw_path_ok (N.to_nat n) t1) as Hp.
      pose proof (draw_many_length draw_path (N.to_nat n) t1) as Hl.
      destruct (draw_many draw_path (N.to_nat n) t1) as [paths t2]. cbn [fst] in *. cbn [v_fieldmask_stored repaired].
      intros E. injection E as <- <-. split; [exact Ed|]. split; [rewrite Hia; discriminate|]. split; [reflexivity|]. split; [eauto|].
      intros q Hq. destruct (Hcur q Hq) as [slots ->]. cbn [unk_of]. rewrite Hr. cbn [sdeep]. rewrite Hg, Ha, Ew.
      unfold rg_msg. rewrite Ew. cbn [is_nilb andb rep_len v_fieldmask_stored repaired]. rewrite map_length, Hl.
      repeat (apply andb_true_iff; split); try (apply N.leb_le; lia).
      apply forallb_forall. intros x Hx. apply in_map_iff in Hx. destruct Hx as (b & <- & Hb).
      rewrite Forall_forall in Hp. apply Hp. exact Hb.
  Qed.

  (* MessageGenerator *)
  Lemma gen_sdeep mid tp v : gen vr o sch ann mid tp = Ok v -> SD top_fuel 1 INoField mid v.
  Proof.
    unfold gen. set (tp1 := if v_root_draw vr then snd (draw_bool tp) else tp). clearbody tp1.
    destruct (set_fields vr o sch ann top_fuel 0 INoField mid (fresh sch mid) tp1) as [[[v'|] t]| | |] eqn:E; try discriminate.
    - intros E'. injection E' as <-. pose proof (set_fields_sound _ _ _ _ _ _ _ _ E) as H. cbn beta iota in H.
      destruct H as (_ & _ & _ & (md & ma & Hg & Ha) & Hs). apply (Hs 0). eapply fresh_cur_ok; eauto.
    - intros E'. injection E' as <-. pose proof (set_fields_sound _ _ _ _ _ _ _ _ E) as H. cbn beta iota in H.
      destruct H as [H|[Hia Hu]]; [lia|].
      (* the root is an Any and AnyTypeURLs is empty: the message is left as created *)
      unfold is_any, wkt_of in Hia. destruct (nth_error ann mid) as [ma|] eqn:Ha; [|discriminate].
      destruct (a_wkt ma) eqn:Ew; try discriminate.
      unfold top_fuel, fresh. cbn [sdeep]. destruct (get_msg sch mid) as [md|] eqn:Hg.
      + rewrite Ha, Ew. destruct (ann_ok_nth _ _ _ _ _ Hann Hg Ha) as [Hlay _]. rewrite Ew in Hlay. cbn [wkt_layout] in Hlay.
        apply fields_eqb_eq in Hlay. unfold empty_msg. rewrite Hlay. cbn [map default_slot fld f_shape f_ty zero_scalar].
        split; [reflexivity|]. exists [], VNil. split; [reflexivity|]. split; [left; reflexivity|]. rewrite Hu. split; reflexivity.
      + exfalso. unfold ann_ok in Hann. clear - Hann Hg Ha. revert mid Hg Ha. revert Hann. generalize ann as an. induction sch as [|m0 sc IHs]; intros [|a0 an]; cbn [ann_ok_aux]; try discriminate.
        * intros _ mid _ Ha. destruct mid; discriminate.
        * intros H mid Hg Ha. apply andb_true_iff in H. destruct H as [_ H]. destruct mid as [|mid]; cbn in Hg; [discriminate|]. eapply IHs; eauto.
  Qed.

  (* ================================ Part 3: from the description to the range ====================== *)
  (* ---- what is inside a message is not longer than its encoding ---- *)
  Notation EM := (emit sch false).

  Lemma child_le_field f s m x : f_ty f = TMsg m -> In x (RoundTrip.elems_of f s) ->
    (length (EM m x) <= length (emit_field false EM f s))%nat.
  Proof.
    intros Ht Hx. unfold RoundTrip.elems_of, emit_field in *. rewrite Ht.
    pose proof (RoundTrip.lenpfx_len (EM m x)) as Hp.
    destruct (f_shape f) as [|packed|oi|kk].
    - destruct s; try contradiction; destruct Hx as [<-|[]]; rewrite app_length; lia.
    - destruct s; try contradiction. cbn [RoundTrip.lst] in Hx. destruct l as [|e l]; [contradiction|]. destruct packed.
      + rewrite app_length. pose proof (RoundTrip.in_concat_le (emit_elem EM (TMsg m)) (e :: l) x Hx) as H1. cbn [emit_elem] in H1.
        pose proof (RoundTrip.lenpfx_len (concat (map (emit_elem EM (TMsg m)) (e :: l)))). cbn [emit_elem] in *. lia.
      + pose proof (RoundTrip.in_concat_le (fun y => key_bytes (f_num f) (ftype_wt (TMsg m)) ++ emit_elem EM (TMsg m) y) (e :: l) x Hx) as H1.
        cbv beta in H1. rewrite app_length in H1. cbn [emit_elem] in *. lia.
    - destruct s; try contradiction. destruct Hx as [<-|[]]. rewrite app_length. cbn [emit_elem]. lia.
    - destruct s; try contradiction. cbn [RoundTrip.mp] in Hx. apply in_map_iff in Hx. destruct Hx as (kv & <- & Hkv).
      rewrite map_map. cbn [snd].
      pose proof (RoundTrip.in_concat_le (fun kv0 => emit_entry EM (f_num f) kk (TMsg m) kv0) kvs kv Hkv) as H1. cbv beta in H1.
      unfold emit_entry at 1 in H1. rewrite app_length in H1.
      pose proof (RoundTrip.lenpfx_len (key_bytes 1 (kind_wt kk) ++ scalar_payload kk (fst kv) ++ key_bytes 2 (ftype_wt (TMsg m)) ++ emit_elem EM (TMsg m) (snd kv))) as H2.
      rewrite !app_length in H2. cbn [emit_elem] in *. pose proof (RoundTrip.lenpfx_len (EM m (snd kv))). lia.
  Qed.

  Lemma field_le_emit mid md slots unk i f s : get_msg sch mid = Some md ->
    nth_error (m_fields md) i = Some f -> nth_error slots i = Some s ->
    (length (emit_field false EM f s) <= length (EM mid (VMsg slots unk)))%nat.
  Proof.
    intros Hg Hf Hs. rewrite RoundTrip.emit_unfold, Hg, app_length.
    pose proof (RoundTrip.wf_get_msg sch mid md Hwf Hg) as Hmd.
    set (per := RoundTrip.zipf (fun f0 s0 => (f0, emit_field false EM f0 s0)) (m_fields md) slots).
    assert (Hmem : forall p j, In p per -> f_shape (fst p) = Member j -> (j < m_oneofs md)%nat).
    { intros p j Hp Hj. unfold per in Hp. apply RoundTrip.zipf_in in Hp. destruct Hp as (k & g & s0 & Hg0 & _ & ->). cbn [fst] in Hj.
      destruct (RoundTrip.msg_wf_field sch md k g Hmd Hg0) as [Hfw _]. apply RoundTrip.field_wf_shape in Hfw. rewrite Hj in Hfw. exact Hfw. }
    pose proof (RoundTrip.in_assemble_le md per (f, emit_field false EM f s) Hmem) as H. cbn [snd] in H.
    assert (In (f, emit_field false EM f s) per).
    { unfold per. apply nth_error_In with (n := i). apply (RoundTrip.zipf_nth_error (fun f0 s0 => (f0, emit_field false EM f0 s0))); assumption. }
    specialize (H H0). lia.
  Qed.

  Definition small (mid : nat) (v : val) : Prop := N.of_nat (length (EM mid v)) < two63.

  Lemma small_child mid md slots unk i f s m x : get_msg sch mid = Some md ->
    nth_error (m_fields md) i = Some f -> nth_error slots i = Some s -> f_ty f = TMsg m ->
    In x (RoundTrip.elems_of f s) -> small mid (VMsg slots unk) -> small m x.
  Proof.
    intros Hg Hf Hs Ht Hx Hsm. unfold small in *.
    pose proof (child_le_field f s m x Ht Hx). pose proof (field_le_emit mid md slots unk i f s Hg Hf Hs). lia.
  Qed.

  (* the value of an Any *)
  Lemma any_value_small mid md u bs : get_msg sch mid = Some md ->
    m_fields md = [fld 1 (TScalar KString) Singular; fld 2 (TScalar KBytes) Singular] ->
    small mid (VMsg [VBytes u; VBytes bs] []) -> N.of_nat (length bs) < two63.
  Proof.
    intros Hg Hl Hsm. unfold small in Hsm.
    pose proof (field_le_emit mid md [VBytes u; VBytes bs] [] 1 (fld 2 (TScalar KBytes) Singular) (VBytes bs) Hg) as H.
    rewrite Hl in H. specialize (H eq_refl eq_refl). unfold emit_field in H. cbn [f_shape f_ty fld f_num] in H.
    destruct (present KBytes (VBytes bs)) eqn:Ep.
    - rewrite app_length in H. pose proof (RoundTrip.as_bytes_le_payload KBytes (VBytes bs) eq_refl) as H2. cbn [as_bytes] in H2. lia.
    - unfold present, blen in Ep. cbn [as_bytes] in Ep. apply negb_false_iff, N.eqb_eq in Ep. unfold two63. lia.
  Qed.

  Lemma marshal_len tm pv bs : pulsar_marshal sch false tm pv = Ok bs -> (length (EM tm pv) <= length bs)%nat.
  Proof.
    unfold pulsar_marshal. destruct (N.of_nat (length (EM tm pv)) =? msg_size sch tm pv); [intros E; injection E as <-; lia|].
    destruct (msg_size sch tm pv <? N.of_nat (length (EM tm pv))); [discriminate|].
    intros E. injection E as <-. rewrite app_length. lia.
  Qed.

  (* ---- the range predicate is closed under the decoder's normalisation ---- *)
  Notation R := (range_preds vr o sch ann).
  Hypothesis Hfty : fmap_typed o.
  (* a FieldMapper for bytes fields does not tell nil from empty (the wire cannot) *)
  Definition fmap_bytes_norm : Prop :=
    forall decl p g, (o_fmap o KBytes decl = FmAlways p g \/ o_fmap o KBytes decl = FmMaybe p g) -> p (VBytes []) = p VNil.
  Hypothesis Hfbn : fmap_bytes_norm.

  Lemma rg_scalar_bytes_swap d a b : (a = VNil /\ b = VBytes []) \/ (a = VBytes [] /\ b = VNil) ->
    rg_scalar vr o KBytes d a = true -> rg_scalar vr o KBytes d b = true.
  Proof.
    intros Hab. unfold rg_scalar. destruct (o_fmap o KBytes d) as [|p g|p g] eqn:E.
    - destruct Hab as [[-> ->]|[-> ->]]; reflexivity.
    - pose proof (Hfbn d p g (or_introl E)) as H. destruct Hab as [[-> ->]|[-> ->]]; congruence.
    - pose proof (Hfbn d p g (or_intror E)) as H. intros H1. apply orb_true_iff in H1. apply orb_true_iff.
      destruct Hab as [[-> ->]|[-> ->]]; (destruct H1 as [H1|H1]; [left; congruence|right; reflexivity]).
  Qed.

  Lemma rg_scalar_norm_elem k d v : rg_scalar vr o k d v = true -> rg_scalar vr o k d (norm_scalar k v) = true.
  Proof.
    intros H. destruct k; try exact H. destruct v; try exact H. cbn [norm_scalar]. eapply rg_scalar_bytes_swap; [|exact H]. left. split; reflexivity.
  Qed.

  Lemma rg_scalar_norm_singular d s : rg_scalar vr o KBytes d s = true ->
    rg_scalar vr o KBytes d (if present KBytes s then s else VNil) = true.
  Proof.
    intros H. destruct (present KBytes s) eqn:Ep; [exact H|].
    pose proof (rg_scalar_wt vr o KBytes d s Hfty H) as Hw. destruct s; try discriminate; [|exact H].
    destruct l; [|discriminate]. eapply rg_scalar_bytes_swap; [|exact H]. right. split; reflexivity.
  Qed.

  Lemma norm_is_msgv m x : is_msgv x = true -> is_msgv (norm sch m x) = true.
  Proof. destruct x; try discriminate. intros _. rewrite RoundTrip.norm_unfold. destruct (get_msg sch m); reflexivity. Qed.

  Lemma norm_elem_msg m x : is_msgv x = true -> norm_elem sch (norm sch) (TMsg m) x = norm sch m x.
  Proof. destruct x; try discriminate. reflexivity. Qed.

  Lemma map_id_ext {A} (g : A -> A) l : (forall x, In x l -> g x = x) -> map g l = l.
  Proof. induction l as [|a l IH]; intros H; [reflexivity|]. cbn [map]. rewrite (H a (or_introl eq_refl)), IH; [reflexivity|]. intros x Hx. apply H. right. exact Hx. Qed.

  Lemma slot_norm (rec : rec_t) r p f fa s :
    (forall pp ic tm e, rec pp ic tm e = true -> rec pp ic tm (norm sch tm e) = true) ->
    slot_deep R rec r p f fa s = true -> slot_deep R rec r p f fa (norm_slot sch (norm sch) f s) = true.
  Proof.
    intros Hrec. unfold slot_deep, norm_slot, elem_deep. cbn [p_slot p_scalar range_preds]. unfold rg_slot.
    intros H. apply andb_true_iff in H. destruct H as [Hl Hd].
    destruct (f_shape f) as [|packed|oi|kk] eqn:Es; destruct (f_ty f) as [k|tm] eqn:Et.
    - (* singular scalar *)
      apply andb_true_iff. split; [reflexivity|]. destruct k; try exact Hd. apply rg_scalar_norm_singular. exact Hd.
    - destruct s; try discriminate; [apply andb_true_iff; split; assumption|].
      apply andb_true_iff. split.
      + pose proof (norm_is_msgv tm (VMsg slots unk) eq_refl) as Hm. destruct (norm sch tm (VMsg slots unk)); try discriminate. exact Hl.
      + pose proof (norm_is_msgv tm (VMsg slots unk) eq_refl) as Hm. pose proof (Hrec _ _ _ _ Hd) as Hd'.
        destruct (norm sch tm (VMsg slots unk)); try discriminate. exact Hd'.
    - (* repeated scalar *)
      apply andb_true_iff in Hl. destruct Hl as [He Hl].
      destruct s; cbn [rep_len] in Hl; try discriminate; [apply andb_true_iff; split; [apply andb_true_iff; split; assumption|reflexivity]|].
      destruct l as [|e l].
      + apply andb_true_iff. split; [|reflexivity]. apply andb_true_iff. split; [reflexivity|exact Hl].
      + apply andb_true_iff. split.
        * apply andb_true_iff. split; [reflexivity|]. cbn [rep_len]. unfold len_le in *. rewrite !map_length. exact Hl.
        * apply forallb_forall. intros x Hx. apply in_map_iff in Hx. destruct Hx as (y & <- & Hy).
          eapply forallb_forall in Hd; [|exact Hy]. cbn [norm_elem]. apply rg_scalar_norm_elem. exact Hd.
    - (* repeated message *)
      apply andb_true_iff in Hl. destruct Hl as [He Hl].
      destruct s; cbn [rep_len] in Hl; try discriminate; [apply andb_true_iff; split; [apply andb_true_iff; split; assumption|reflexivity]|].
      destruct l as [|e l].
      + apply andb_true_iff. split; [|reflexivity]. apply andb_true_iff. split; [reflexivity|exact Hl].
      + destruct (child_ok_container vr o ann r tm) eqn:Eok; [|cbn [v_list_truncate repaired is_nilb] in Hl; discriminate].
        apply andb_true_iff in Hl. destruct Hl as [Hlen Hm].
        assert (E2 : (2 <=? r)%nat = true) by (unfold child_ok_container in Eok; apply andb_true_iff in Eok; tauto). rewrite E2 in Hd.
        assert (Hmap : map (norm_elem sch (norm sch) (TMsg tm)) (e :: l) = map (norm sch tm) (e :: l)).
        { apply map_ext_in. intros x Hx. apply norm_elem_msg. eapply forallb_forall in Hm; eauto. }
        rewrite Hmap. apply andb_true_iff. split.
        * cbn [map rep_len]. apply andb_true_iff. split; [reflexivity|]. apply andb_true_iff. split.
          -- unfold len_le in *. cbn [length] in *. rewrite map_length. exact Hlen.
          -- change (forallb is_msgv (map (norm sch tm) (e :: l)) = true). apply forallb_forall. intros x Hx. apply in_map_iff in Hx.
             destruct Hx as (y & <- & Hy). apply norm_is_msgv. eapply forallb_forall in Hm; eauto.
        * rewrite E2. apply forallb_forall. intros x Hx. apply in_map_iff in Hx. destruct Hx as (y & <- & Hy).
          pose proof Hy as Hy'. eapply forallb_forall in Hy; [|exact Hd]. eapply forallb_forall in Hy'; [|exact Hm]. cbv beta in Hy.
          pose proof (norm_is_msgv tm y Hy') as Hn. destruct y; try discriminate. apply Hrec in Hy.
          destruct (norm sch tm (VMsg slots unk)); try discriminate. exact Hy.
    - (* member scalar *)
      destruct s; try discriminate; [apply andb_true_iff; split; reflexivity|]. apply andb_true_iff. split; [reflexivity|].
      cbn [norm_elem]. apply rg_scalar_norm_elem. exact Hd.
    - (* member message *)
      destruct s; try discriminate; [apply andb_true_iff; split; reflexivity|]. destruct s; try discriminate.
      pose proof (norm_is_msgv tm (VMsg slots unk) eq_refl) as Hm. pose proof (Hrec _ _ _ _ Hd) as Hd'. cbn [norm_elem].
      destruct (norm sch tm (VMsg slots unk)); try discriminate. apply andb_true_iff. split; [exact Hl|exact Hd'].
    - (* map, scalar values *)
      destruct s; cbn [map_kvs] in Hl; try discriminate; [apply andb_true_iff; split; [exact Hl|reflexivity]|].
      destruct kvs as [|e l]; [apply andb_true_iff; split; [exact Hl|reflexivity]|].
      splitb. apply andb_true_iff. split.
      + cbn [map_kvs]. rewrite map_map. cbn [fst]. apply andb_true_iff. split; [apply andb_true_iff; split|reflexivity].
        * unfold len_le in *. rewrite map_length. assumption.
        * assumption.
      + apply forallb_forall. intros x Hx. apply in_map_iff in Hx. destruct Hx as ([a b] & <- & Hy).
        eapply forallb_forall in Hd; [|exact Hy]. cbn [fst snd] in *. splitb. apply andb_true_iff. split; [assumption|].
        cbn [norm_elem]. apply rg_scalar_norm_elem. assumption.
    - (* map, message values *)
      destruct s; cbn [map_kvs] in Hl; try discriminate; [apply andb_true_iff; split; [exact Hl|reflexivity]|].
      destruct kvs as [|e l]; [apply andb_true_iff; split; [exact Hl|reflexivity]|].
      splitb. apply andb_true_iff. split.
      + cbn [map_kvs]. rewrite map_map. cbn [fst].
        apply andb_true_iff; split; [apply andb_true_iff; split|apply andb_true_iff; split].
        * unfold len_le in *. rewrite map_length. assumption.
        * assumption.
        * match goal with Ht : is_nilb (_ :: _) || _ = true |- _ => exact Ht end.
        * apply forallb_forall. intros x Hx. apply in_map_iff in Hx. destruct Hx as ([a b] & <- & Hy). cbn [fst snd].
          match goal with Hm : forallb (fun kv => is_msgv (snd kv)) _ = true |- _ => eapply forallb_forall in Hm; [|exact Hy]; cbn [snd] in Hm end.
          rewrite norm_elem_msg by assumption. apply norm_is_msgv. assumption.
      + apply forallb_forall. intros x Hx. apply in_map_iff in Hx. destruct Hx as ([a b] & <- & Hy).
        pose proof Hy as Hy'. eapply forallb_forall in Hy; [|exact Hd]. cbn [fst snd] in *. apply andb_true_iff in Hy. destruct Hy as [Hk Hv].
        apply andb_true_iff. split; [exact Hk|].
        match goal with Hm : forallb (fun kv => is_msgv (snd kv)) _ = true |- _ => eapply forallb_forall in Hm; [|exact Hy']; cbn [snd] in Hm end.
        rewrite norm_elem_msg by assumption. pose proof (norm_is_msgv tm b ltac:(assumption)) as Hn.
        destruct b; try discriminate. apply Hrec in Hv. destruct (norm sch tm (VMsg slots unk)); try discriminate. exact Hv.
  Qed.

  Lemma slots_norm (rec : rec_t) r p :
    (forall pp ic tm e, rec pp ic tm e = true -> rec pp ic tm (norm sch tm e) = true) ->
    forall fs fas ss, slots_deep R rec r p fs fas ss = true ->
      slots_deep R rec r p fs fas (RoundTrip.zipf (norm_slot sch (norm sch)) fs ss) = true.
  Proof.
    intros Hrec. induction fs as [|f fs IH]; intros [|fa fas] [|s ss]; cbn [slots_deep RoundTrip.zipf]; auto.
    intros H. apply andb_true_iff in H. destruct H as [H1 H2]. apply andb_true_iff. split; [apply slot_norm; assumption|apply IH; assumption].
  Qed.

  Lemma norm_slot_some f s oi : f_shape f = Member oi ->
    (match norm_slot sch (norm sch) f s with VSome _ => true | _ => false end) = (match s with VSome _ => true | _ => false end).
  Proof. intros Es. unfold norm_slot. rewrite Es. destruct s; reflexivity. Qed.

  Lemma count_norm fs : forall ss oi, oneof_count fs (RoundTrip.zipf (norm_slot sch (norm sch)) fs ss) oi = oneof_count fs ss oi.
  Proof.
    induction fs as [|f fs IH]; intros [|s ss] oi; cbn [RoundTrip.zipf oneof_count]; auto. rewrite IH. f_equal.
    destruct (f_shape f) as [| |j|] eqn:Es; try reflexivity. pose proof (norm_slot_some f s j Es) as H.
    destruct (norm_slot sch (norm sch) f s), s; try discriminate; reflexivity.
  Qed.

  Lemma state_norm fs : forall ss i oi, oneof_state fs (RoundTrip.zipf (norm_slot sch (norm sch)) fs ss) i oi = oneof_state fs ss i oi.
  Proof.
    induction fs as [|f fs IH]; intros [|s ss] i oi; cbn [RoundTrip.zipf oneof_state]; auto. rewrite IH.
    destruct (f_shape f) as [| |j|] eqn:Es; try reflexivity. pose proof (norm_slot_some f s j Es) as H.
    destruct (norm_slot sch (norm sch) f s), s; try discriminate; reflexivity.
  Qed.

  Lemma range_norm : forall r p ic mid v, deep sch ann R r p ic mid v = true -> deep sch ann R r p ic mid (norm sch mid v) = true.
  Proof.
    induction r as [|r IH]; intros p ic mid v; cbn [deep]; [discriminate|].
    destruct (get_msg sch mid) as [md|] eqn:Hg; [|discriminate]. destruct (nth_error ann mid) as [ma|] eqn:Ha; [|discriminate].
    destruct v; try discriminate. rewrite RoundTrip.norm_unfold, Hg.
    destruct (ann_ok_nth _ _ _ _ _ Hann Hg Ha) as [Hlay _].
    intros H. apply andb_true_iff in H. destruct H as [Hm Hs]. cbn [p_msg range_preds] in *. unfold rg_msg in *.
    destruct (a_wkt ma) eqn:Ew; cbn [wkt_layout] in Hlay.
    - apply andb_true_iff. split.
      + splitb. apply andb_true_iff. split; [assumption|]. unfold oneofs_ok in *. eapply forallb_impl; [|eassumption].
        intros oi _. rewrite count_norm, state_norm. auto.
      + apply slots_norm; [intros; apply IH; assumption|exact Hs].
    - apply fields_eqb_eq in Hlay. rewrite Hlay. splitb. destruct slots as [|[] [|[] [|]]]; try discriminate.
      cbn [RoundTrip.zipf norm_slot fld f_shape f_ty]. apply andb_true_iff. split; [apply andb_true_iff; split; assumption|reflexivity].
    - apply fields_eqb_eq in Hlay. rewrite Hlay. splitb. destruct slots as [|[] [|[] [|]]]; try discriminate.
      cbn [RoundTrip.zipf norm_slot fld f_shape f_ty]. apply andb_true_iff. split; [apply andb_true_iff; split; assumption|reflexivity].
    - apply fields_eqb_eq in Hlay. rewrite Hlay. splitb. destruct slots as [|[] [|vb [|]]]; try discriminate.
      cbn [RoundTrip.zipf norm_slot fld f_shape f_ty].
      set (vb' := if present KBytes vb then vb else VNil).
      assert (Hab : as_bytes vb' = as_bytes vb).
      { unfold vb'. destruct (present KBytes vb) eqn:Ep; [reflexivity|]. unfold present, blen in Ep. apply negb_false_iff, N.eqb_eq in Ep.
        destruct (as_bytes vb); [reflexivity|cbn in Ep; lia]. }
      assert (Hform : match vb' with VBytes _ | VNil => true | _ => false end = true).
      { unfold vb'. destruct (present KBytes vb); [|reflexivity]. splitb. assumption. }
      assert (Hbe : bytes_empty vb = true -> bytes_empty vb' = true).
      { unfold vb'. destruct (present KBytes vb); auto. }
      apply andb_true_iff. split.
      + splitb. apply andb_true_iff. split; [assumption|]. apply andb_true_iff. split; [exact Hform|].
        destruct (has_urls o).
        * destruct (resolve ann l); [|discriminate]. splitb. apply andb_true_iff. split; [assumption|].
          rewrite Hab. destruct (2 <=? r)%nat; auto.
        * splitb. apply andb_true_iff. split; auto.
      + unfold any_deep in *. rewrite Hab. exact Hs.
    - apply fields_eqb_eq in Hlay. rewrite Hlay. splitb. destruct slots as [|s [|]]; try discriminate.
      cbn [RoundTrip.zipf norm_slot fld f_shape f_ty]. apply andb_true_iff. split; [|reflexivity]. apply andb_true_iff. split; [assumption|].
      cbn [v_fieldmask_stored repaired] in *. destruct s; cbn [rep_len] in *; try discriminate.
      destruct l as [|e l]; [discriminate|]. cbn [rep_len].
      rewrite (map_id_ext (norm_elem sch (norm sch) (TScalar KString))); [assumption|]. intros x _. reflexivity.
  Qed.

  (* ---- values in the range carry no unknown fields ---- *)
  Lemma wt_scalar_strip k v : wt_scalar k v = true -> strip_unknown v = v.
  Proof. destruct k, v; cbn; try discriminate; reflexivity. Qed.

  Lemma elem_strip (rec : rec_t) pp f fa e :
    (forall pp ic tm x, rec pp ic tm x = true -> strip_unknown x = x) ->
    elem_deep R rec pp f fa e = true -> strip_unknown e = e.
  Proof.
    intros Hr. unfold elem_deep. destruct (f_ty f) as [k|tm].
    - cbn [p_scalar range_preds]. intros H. eapply wt_scalar_strip. eapply rg_scalar_wt; eauto.
    - destruct e; try reflexivity; apply Hr.
  Qed.

  Lemma slot_strip (rec : rec_t) r p f fa s :
    (forall pp ic tm x, rec pp ic tm x = true -> strip_unknown x = x) ->
    slot_deep R rec r p f fa s = true -> strip_unknown s = s.
  Proof.
    intros Hr. unfold slot_deep. cbn [p_slot range_preds]. unfold rg_slot. intros H. apply andb_true_iff in H. destruct H as [Hl Hd].
    destruct (f_shape f) eqn:Es.
    - eapply elem_strip; eauto.
    - destruct s; try (destruct (f_ty f); splitb; discriminate); try reflexivity.
      cbn [strip_unknown]. f_equal. apply map_id_ext. intros x Hx.
      destruct (f_ty f) as [k|tm] eqn:Et.
      + eapply forallb_forall in Hd; [|exact Hx]. eapply elem_strip; [exact Hr|]. exact Hd.
      + destruct (2 <=? r)%nat eqn:E2.
        * eapply forallb_forall in Hd; [|exact Hx]. eapply elem_strip; [exact Hr|]. exact Hd.
        * exfalso. splitb. cbn [rep_len] in *. unfold child_ok_container in *. rewrite E2 in *. cbn [andb v_list_truncate repaired] in *.
          destruct l; [destruct Hx|discriminate].
    - destruct s; try (destruct (f_ty f); discriminate); try reflexivity.
      cbn [strip_unknown]. f_equal. eapply elem_strip; eauto.
    - destruct s; try (destruct (f_ty f); discriminate); try reflexivity.
      cbn [strip_unknown]. f_equal. apply map_id_ext. intros [a b] Hx. eapply forallb_forall in Hd; [|exact Hx]. cbn [fst snd] in *.
      apply andb_true_iff in Hd. destruct Hd as [_ Hd]. f_equal. eapply elem_strip; eauto.
  Qed.

  Lemma range_strip : forall r p ic mid v, deep sch ann R r p ic mid v = true -> strip_unknown v = v.
  Proof.
    induction r as [|r IH]; intros p ic mid v; cbn [deep]; [discriminate|].
    destruct (get_msg sch mid) as [md|] eqn:Hg; [|discriminate]. destruct (nth_error ann mid) as [ma|] eqn:Ha; [|discriminate].
    destruct v; try discriminate. intros H. apply andb_true_iff in H. destruct H as [Hm Hs]. cbn [p_msg range_preds] in Hm. unfold rg_msg in Hm.
    apply andb_true_iff in Hm. destruct Hm as [Hu Hm]. destruct unk; [|discriminate]. cbn [strip_unknown]. f_equal.
    destruct (a_wkt ma).
    - revert Hs. generalize (a_fields ma) as fas. generalize (m_fields md) as fs. clear Hm. induction slots as [|s ss IHs]; intros [|f fs] [|fa fas]; cbn [slots_deep map]; try discriminate; auto.
      intros H. apply andb_true_iff in H. destruct H as [H1 H2]. f_equal; [|eapply IHs; eauto].
      eapply slot_strip; [|exact H1]. intros pp ic' tm x. apply IH.
    - destruct slots as [|[] [|[] [|]]]; try discriminate. reflexivity.
    - destruct slots as [|[] [|[] [|]]]; try discriminate. reflexivity.
    - destruct slots as [|[] [|vb [|]]]; try discriminate. splitb. destruct vb; try discriminate; reflexivity.
    - destruct slots as [|s [|]]; try discriminate. cbn [v_fieldmask_stored repaired] in Hm.
      destruct s; cbn [rep_len] in Hm; try discriminate. splitb. cbn [map strip_unknown]. do 2 f_equal. apply map_id_ext. intros x Hx.
      match goal with Hf : forallb _ l = true |- _ => eapply forallb_forall in Hf; [|exact Hx]; destruct x; try discriminate end. reflexivity.
  Qed.

  (* ---- the description, for a value whose encoding fits a Go slice, implies the range ---- *)
  Lemma slots_deep_intro (rec : rec_t) r p : forall fs fas ss, length fas = length fs -> length ss = length fs ->
    (forall i f fa s, nth_error fs i = Some f -> nth_error fas i = Some fa -> nth_error ss i = Some s -> slot_deep R rec r p f fa s = true) ->
    slots_deep R rec r p fs fas ss = true.
  Proof.
    induction fs as [|f fs IH]; intros [|fa fas] [|s ss]; cbn [length slots_deep]; try lia; auto.
    intros L1 L2 H. apply andb_true_iff. split; [apply (H 0%nat); reflexivity|]. apply IH; try lia.
    intros i f' fa' s' A B C. apply (H (S i)); assumption.
  Qed.

  Lemma find_idx_nil_url : forall (l : annots) i, find_idx (fun ma => beqb [] (url_of ma)) l i = None.
  Proof. induction l as [|ma l IH]; intros i; cbn [find_idx]; [reflexivity|]. cbn [beqb url_of]. apply IH. Qed.
  Lemma resolve_nil : resolve ann [] = None.
  Proof. unfold resolve. apply find_idx_nil_url. Qed.

  Lemma Forall_forallb' {A} (P : A -> Prop) (g : A -> bool) l : (forall x, In x l -> P x -> g x = true) -> Forall P l -> forallb g l = true.
  Proof. intros H HF. apply forallb_forall. intros x Hx. rewrite Forall_forall in HF. apply H; auto. Qed.

  Lemma sdeep_range : forall r p ic mid v, (r <= 100)%nat -> SD r p ic mid v -> small mid v -> deep sch ann R r p ic mid v = true.
  Proof.
    induction r as [|r IH]; intros p ic mid v Hr; cbn [sdeep deep]; [contradiction|].
    destruct (get_msg sch mid) as [md|] eqn:Hg; [|contradiction]. destruct (nth_error ann mid) as [ma|] eqn:Ha; [|contradiction].
    destruct v; try contradiction. destruct (ann_ok_nth _ _ _ _ _ Hann Hg Ha) as [Hlay Hlen].
    cbn [p_msg range_preds].
    destruct (a_wkt ma) eqn:Ew; cbn [wkt_layout] in Hlay.
    - (* ordinary message *)
      intros [Hm Hs] Hsm. apply andb_true_iff. split; [exact Hm|].
      destruct (sslots_nth _ _ _ _ _ _ Hs) as (L1 & L2 & Hn). apply slots_deep_intro; [exact L1|exact L2|].
      intros i f fa s Hf Hfa Hsl. destruct (Hn i f fa s Hf Hfa Hsl) as [Hrg Htr].
      assert (Hchild : forall pp x tm, f_ty f = TMsg tm -> In x (RoundTrip.elems_of f s) -> x <> VNil ->
                SD r pp (IField (a_iface fa)) tm x -> deep sch ann R r pp (IField (a_iface fa)) tm x = true).
      { intros pp x tm Ht Hx _ Hsd. apply IH; [lia|exact Hsd|]. eapply small_child; eauto. }
      unfold slot_deep. cbn [p_slot p_scalar range_preds]. apply andb_true_iff. split; [exact Hrg|].
      unfold selem, elem_deep in *. unfold RoundTrip.elems_of in Hchild.
      destruct (f_shape f) as [|packed|oi|kk] eqn:Es.
      + destruct (f_ty f) as [k|tm] eqn:Et; [exact Htr|]. destruct s; try exact I; try reflexivity;
          (apply (Hchild p _ tm eq_refl); [left; reflexivity|discriminate|exact Htr]).
      + destruct s; try reflexivity. destruct (f_ty f) as [k|tm] eqn:Et.
        * apply Forall_forallb. exact Htr.
        * destruct (2 <=? r)%nat; [|reflexivity]. eapply Forall_forallb'; [|exact Htr]. intros x Hx Hsx.
          destruct x; try reflexivity; (apply (Hchild 1 _ tm eq_refl); [exact Hx|discriminate|exact Hsx]).
      + destruct s; try reflexivity. destruct (f_ty f) as [k|tm] eqn:Et; [exact Htr|].
        destruct s; try reflexivity; (apply (Hchild p _ tm eq_refl); [left; reflexivity|discriminate|exact Htr]).
      + destruct s; try reflexivity. eapply Forall_forallb'; [|exact Htr]. intros [a b] Hx [Hk Hv]. cbn [fst snd] in *.
        apply andb_true_iff. split; [exact Hk|]. destruct (f_ty f) as [k|tm] eqn:Et; [exact Hv|].
        destruct b; try reflexivity; (apply (Hchild (10 * p) _ tm eq_refl); [apply in_map_iff; eexists; split; [|exact Hx]; reflexivity|discriminate|exact Hv]).
    - intros H _. rewrite H. reflexivity.
    - intros H _. rewrite H. reflexivity.
    - (* Any *)
      apply fields_eqb_eq in Hlay.
      intros (-> & u & vb & -> & Hvb & Hrest) Hsm. unfold rg_msg. rewrite Ew. cbn [is_nilb andb any_deep].
      destruct (has_urls o) eqn:Hu.
      + destruct Hrest as (tm & mat & Hmat & -> & Hres & Hal & Hpay). rewrite Hres, Hal. cbn [andb].
        destruct (2 <=? r)%nat eqn:E2.
        * destruct Hpay as (pv & bs & Hpv & Hmar & ->). cbn [as_bytes].
          pose proof (any_value_small mid md _ bs Hg Hlay Hsm) as Hbs.
          pose proof (marshal_len _ _ _ Hmar) as Hle.
          assert (Hspv : small tm pv) by (unfold small; lia).
          pose proof (IH 1 INoField tm pv ltac:(lia) Hpv Hspv) as Dpv.
          assert (Ebs : bs = emit sch false tm pv).
          { rewrite CodecSize.marshal_ok in Hmar; [congruence|exact Hwf|]. unfold small, two63 in Hspv. unfold two64. lia. }
          apply Nat.leb_le in E2.
          assert (Hrt : pulsar_unmarshal sch false tm VNil bs = Ok (norm sch tm pv)).
          { rewrite Ebs. apply RoundTrip.roundtrip_nondet; [exact Hwf| | | |exact Hspv].
            - eapply range_wt; eauto.
            - eapply range_strip; eauto.
            - pose proof (range_depth vr o sch ann Hfty r 1 INoField tm pv E2 Dpv). lia. }
          rewrite Hrt. cbn [is_ok andb]. apply range_norm. exact Dpv.
        * destruct Hvb as [->|[b ->]]; rewrite Hpay; reflexivity.
      + destruct Hrest as [-> Hbe]. rewrite resolve_nil, Hbe.
        destruct Hvb as [->|[b ->]]; reflexivity.
    - intros H _. rewrite H. reflexivity.
  Qed.

  Lemma gen_in_range_sec mid tp v : gen vr o sch ann mid tp = Ok v -> small mid v -> rapid_in_range vr o sch ann mid v = true.
  Proof.
    intros Hgen Hsm. unfold rapid_in_range, rapid_in_range_at. apply sdeep_range; [unfold top_fuel; lia| |exact Hsm].
    eapply gen_sdeep. exact Hgen.
  Qed.
End Sound.

(* every output of the generator model (the code after its fix: commits) whose encoding fits a Go slice lies in
   the range predicate: for every schema, option set and tape of draws *)
Theorem gen_in_range : forall o sch ann,
  wf sch = true -> ann_ok sch ann = true -> NoDup (map a_name ann) -> enums_ok sch ann ->
  fmap_gen_sound o -> fmap_typed o -> fmap_bytes_norm o ->
  forall mid tape v, gen code_variant o sch ann mid tape = Ok v ->
    N.of_nat (length (emit sch false mid v)) < two63 ->
    rapid_in_range code_variant o sch ann mid v = true.
Proof.
  intros o sch ann Hwf Hann Hnd Hen Hfm Hfty Hfbn mid tape v Hgen Hsm.
  exact (gen_in_range_sec o sch ann Hfm Hwf Hnd Hann Hen Hfty Hfbn mid tape v Hgen Hsm).
Qed.

(* ---- hence every validity theorem applies to every output of the generator model ---------------- *)
Lemma gen_outputs_valid o sch ann :
  wf sch = true -> ann_ok sch ann = true -> NoDup (map a_name ann) -> enums_ok sch ann ->
  fmap_gen_sound o -> fmap_typed o -> fmap_bytes_norm o ->
  fmap_sound o (p_scalar utf8_preds) -> fmap_sound o (p_scalar enum_preds) ->
  forall mid tape v, gen code_variant o sch ann mid tape = Ok v -> N.of_nat (length (emit sch false mid v)) < two63 ->
    let D := fun Q => deep sch ann Q top_fuel 1 INoField mid v = true in
    wt_msg sch mid v = true /\ (val_depth v <= 12)%nat /\
    D utf8_preds /\ D timestamp_preds /\ D duration_preds /\ D fieldmask_preds /\ D enum_preds /\
    D (no_empty_preds code_variant o ann) /\ D (no_empty_nonnil_preds o) /\ D (disallow_nil_preds o ann) /\
    D no_nil_elem_preds /\ D (mapper_preds o) /\
    (o_any o <> [] -> D (any_preds o sch ann)) /\ (o_any o = [] -> D (no_any_field_preds ann)).
Proof.
  intros Hwf Hann Hnd Hen Hfm Hfty Hfbn Hu8 Hfe mid tape v Hgen Hsm D.
  pose proof (gen_in_range o sch ann Hwf Hann Hnd Hen Hfm Hfty Hfbn mid tape v Hgen Hsm) as Hr. unfold D.
  split; [eapply gen_wt; eauto|]. split; [eapply gen_depth_bounded; eauto|].
  split; [eapply gen_utf8; eauto|]. split; [eapply gen_timestamp_valid; eauto|]. split; [eapply gen_duration_valid; eauto|].
  split; [eapply gen_fieldmask_paths; eauto; reflexivity|]. split; [eapply gen_enum_declared; eauto; reflexivity|].
  split; [eapply gen_no_empty_lists; eauto|]. split; [eapply gen_no_empty_nonnil; eauto; reflexivity|].
  split; [eapply gen_disallow_nil; eauto|]. split; [eapply gen_no_nil_elements; eauto|]. split; [eapply gen_field_mapper; eauto|].
  split; [intros Hne; eapply gen_any_resolvable; eauto|intros He; eapply gen_any_absent; eauto; reflexivity].
Qed.

(* ---- the hypotheses are satisfiable: boolean checkers and the runner's mappers -------------------- *)
Definition int32b (z : Z) : bool := in_range_z (-2147483648) 2147483648 z.
Fixpoint fields_enums_okb (fs : list field) (fas : list fannot) : bool :=
  match fs, fas with
  | f :: fs', fa :: fas' =>
    (match f_ty f with TScalar KEnum => negb (is_nilb (a_enum fa)) && forallb int32b (a_enum fa) | _ => true end)
    && fields_enums_okb fs' fas'
  | _, _ => true
  end.
Fixpoint enums_okb (sch : schema) (ann : annots) : bool :=
  match sch, ann with
  | md :: sch', ma :: ann' => fields_enums_okb (m_fields md) (a_fields ma) && enums_okb sch' ann'
  | _, _ => true
  end.

Lemma fields_enums_okb_sound fs : forall fas i f fa, fields_enums_okb fs fas = true ->
  nth_error fs i = Some f -> nth_error fas i = Some fa -> f_ty f = TScalar KEnum -> enum_decl_ok (a_enum fa).
Proof.
  induction fs as [|g fs IH]; intros [|ga fas] i f fa H Hf Hfa Ht; try (destruct i; discriminate).
  cbn [fields_enums_okb] in H. apply andb_true_iff in H. destruct H as [H1 H2]. destruct i as [|i]; cbn [nth_error] in *.
  - injection Hf as ->. injection Hfa as ->. rewrite Ht in H1. apply andb_true_iff in H1. destruct H1 as [A B]. split.
    + destruct (a_enum fa); [discriminate|congruence].
    + apply Forall_forall. intros z Hz. eapply forallb_forall in B; [|exact Hz]. apply RoundTrip.in_range_z_spec in B. exact B.
  - eapply IH; eauto.
Qed.

Lemma enums_okb_sound sch : forall ann, enums_okb sch ann = true -> enums_ok sch ann.
Proof.
  induction sch as [|md0 sch IH]; intros [|ma0 ann] H mid md ma i f fa Hg Ha Hf Hfa Ht; try (destruct mid; discriminate).
  cbn [enums_okb] in H. apply andb_true_iff in H. destruct H as [H1 H2]. destruct mid as [|mid]; cbn in Hg, Ha.
  - injection Hg as ->. injection Ha as ->. eapply fields_enums_okb_sound; eauto.
  - eapply (IH ann H2 mid); eauto.
Qed.

Lemma no_mapper_ok o : (forall k d, o_fmap o k d = FmNone) -> fmap_gen_sound o /\ fmap_typed o /\ fmap_bytes_norm o /\
  fmap_sound o (p_scalar utf8_preds) /\ fmap_sound o (p_scalar enum_preds).
Proof.
  intros H. repeat split; intros k; intros; rewrite H in *; intuition discriminate.
Qed.

(* mapper 1 of the runner: every string from a fixed set *)
Lemma mapper1_ok o : o_fmap o = fmap_of_id 1 -> fmap_gen_sound o /\ fmap_typed o /\ fmap_bytes_norm o /\
  fmap_sound o (p_scalar utf8_preds) /\ fmap_sound o (p_scalar enum_preds).
Proof.
  intros E.
  assert (Hcase : forall k d p g, (o_fmap o k d = FmAlways p g \/ o_fmap o k d = FmMaybe p g) ->
            k = KString /\ p = (fun v => match v with VBytes b => existsb (beqb b) mapped_strings | _ => false end) /\
            g = (fun x => VBytes (nth (N.to_nat (x mod 3)) mapped_strings []))).
  { intros k d p g H. rewrite E in H. cbn [fmap_of_id] in H. destruct k; destruct H as [H|H]; try discriminate. injection H as <- <-. auto. }
  repeat split.
  - intros k d p g H x. destruct (Hcase k d p g H) as (-> & -> & ->).
    pose proof (N.mod_upper_bound x 3 ltac:(lia)) as Hx. destruct (x mod 3) as [|[[]|[]|]] eqn:Em; try lia; reflexivity.
  - intros k d p g v H Hp. destruct (Hcase k d p g H) as (-> & -> & ->). destruct v; try discriminate. reflexivity.
  - intros d p g H. destruct (Hcase KBytes d p g H) as (Hk & _). discriminate.
  - intros k d p g v H Hp. destruct (Hcase k d p g H) as (-> & -> & ->). cbn. destruct v; try discriminate.
    apply existsb_exists in Hp. destruct Hp as (m & Hm & Eb). apply beqb_eq in Eb. subst l.
    cbn in Hm. destruct Hm as [<-|[<-|[<-|[]]]]; reflexivity.
  - intros k d p g v H Hp. destruct (Hcase k d p g H) as (-> & -> & ->). reflexivity.
Qed.

(* non-vacuity: the hypotheses of gen_in_range hold of the demo schema (recursion through a list, a bool-keyed
   map, a oneof; enum, Timestamp, Duration, FieldMask, Any with accepts_interface) with AnyTypeURLs, NoEmptyLists
   and the string mapper, and the generator model yields a value there *)
Definition demo_o : gopts := mk_opts true false [1; 4; 3]%nat 1.
Lemma gen_in_range_demo :
  wf sch_demo = true /\ ann_ok sch_demo ann_demo = true /\ NoDup (map a_name ann_demo) /\ enums_ok sch_demo ann_demo /\
  fmap_gen_sound demo_o /\ fmap_typed demo_o /\ fmap_bytes_norm demo_o /\
  exists m, gen code_variant demo_o sch_demo ann_demo 0 (lcg 1500 2) = Ok m /\
            N.of_nat (length (emit sch_demo false 0 m)) < two63 /\ (1 < length (emit sch_demo false 0 m))%nat.
Proof.
  split; [vm_compute; reflexivity|]. split; [vm_compute; reflexivity|].
  split. { cbn. repeat constructor; cbn; intuition discriminate. }
  split; [apply enums_okb_sound; vm_compute; reflexivity|].
  destruct (mapper1_ok demo_o eq_refl) as (A & B & C & _). split; [exact A|]. split; [exact B|]. split; [exact C|].
  assert (H : match gen code_variant demo_o sch_demo ann_demo 0 (lcg 1500 2) with
              | Ok m => (N.of_nat (length (emit sch_demo false 0 m)) <? two63) && (1 <? length (emit sch_demo false 0 m))%nat
              | _ => false
              end = true) by (vm_compute; reflexivity).
  destruct (gen code_variant demo_o sch_demo ann_demo 0 (lcg 1500 2)) as [m| | |]; try discriminate.
  exists m. apply andb_true_iff in H. destruct H as [H1 H2]. split; [reflexivity|]. split; [apply N.ltb_lt; exact H1|apply Nat.ltb_lt; exact H2].
Qed.
