(* Proofs/RuntimeProofs.v — lemmas about Model/Runtime.v (C15). *)
From Coq Require Import Lia ZifyN ZifyNat ZifyBool PreOmega.
Ltac Zify.zify_post_hook ::= Z.div_mod_to_equations.
From CP Require Import Bytes Runtime BytesLemmas.
Local Open Scope N_scope.

(* ------------------------------------------------------------------ Sov *)
Lemma Sov_0 : Sov 0 = 1. Proof. reflexivity. Qed.

Lemma Sov_pos x : 0 < x -> Sov x = N.log2 x / 7 + 1.
Proof.
  intro Hx. unfold Sov, len64.
  pose proof (lor_1_bounds x) as Hb.
  destruct (N.eqb_spec (N.lor x 1) 0) as [E|E]; [lia|].
  rewrite log2_lor_1 by exact Hx.
  replace (N.log2 x + 1 + 6) with (N.log2 x + 1 * 7) by lia.
  rewrite N.div_add by discriminate. reflexivity.
Qed.

Lemma enc_varint_aux_length fuel v :
  v < 2 ^ (7 * N.of_nat fuel) -> (0 < fuel)%nat ->
  N.of_nat (length (enc_varint_aux fuel v)) = Sov v.
Proof.
  revert v. induction fuel as [|f IH]; intros v Hv Hf; [lia|].
  cbn [enc_varint_aux]. destruct (N.ltb_spec v 128) as [Hs|Hb].
  - cbn [length]. destruct (N.eq_dec v 0) as [->|Hne]; [reflexivity|].
    rewrite Sov_pos by lia.
    assert (N.log2 v < 7) by (apply N.log2_lt_pow2; [lia| exact Hs]).
    rewrite N.div_small by assumption. reflexivity.
  - cbn [length]. rewrite Nat2N.inj_succ.
    destruct f as [|f'].
    { exfalso. cbn in Hv. lia. }
    assert (Hd: 0 < v / 128) by (apply N.div_str_pos; lia).
    rewrite IH; [| | lia].
    + rewrite N.shiftr_div_pow2. change (2^7) with 128.
      rewrite !Sov_pos by lia.
      change 128 with (2^7). rewrite <- N.shiftr_div_pow2. rewrite N.log2_shiftr.
      assert (7 <= N.log2 v) by (apply N.log2_le_pow2; [lia| exact Hb]).
      replace (N.log2 v) with ((N.log2 v - 7) + 1 * 7) at 2 by lia.
      rewrite N.div_add by discriminate. lia.
    + rewrite N.shiftr_div_pow2. change (2^7) with 128.
      apply N.div_lt_upper_bound; [discriminate|].
      replace (7 * N.of_nat (S (S f'))) with (7 + 7 * N.of_nat (S f')) in Hv by lia.
      rewrite N.pow_add_r in Hv. exact Hv.
Qed.

Lemma enc_varint_length v : v < two64 -> N.of_nat (length (enc_varint v)) = Sov v.
Proof.
  intro H. apply enc_varint_aux_length; [|lia].
  eapply N.lt_trans; [exact H|]. reflexivity.
Qed.

Lemma len64_le_64 x : x < two64 -> len64 x <= 64.
Proof.
  intro H. unfold len64. destruct (N.eqb_spec x 0); [lia|].
  assert (N.log2 x < 64) by (apply N.log2_lt_pow2; [lia|exact H]). lia.
Qed.

Lemma sizes_agree_on_lengths L : L < 65 -> 0 < L -> (9 * L + 64) / 64 = (L + 6) / 7.
Proof.
  intros H H0.
  assert (E : ((L =? 0) || ((9 * L + 64) / 64 =? (L + 6) / 7))%bool = true).
  { apply (sweep (fun L => ((L =? 0) || ((9 * L + 64) / 64 =? (L + 6) / 7))%bool) 65); [vm_compute; reflexivity|exact H]. }
  apply orb_true_iff in E. destruct E as [E|E]; [apply N.eqb_eq in E; lia|].
  apply N.eqb_eq in E. exact E.
Qed.

Lemma Sov_protowire x : x < two64 -> Sov x = protowire_size x.
Proof.
  intro H. destruct (N.eq_dec x 0) as [->|Hne]; [reflexivity|].
  rewrite Sov_pos by lia. unfold protowire_size.
  pose proof (len64_le_64 x H) as HL. unfold len64 in *.
  destruct (N.eqb_spec x 0); [lia|].
  rewrite sizes_agree_on_lengths by lia.
  replace (N.log2 x + 1 + 6) with (N.log2 x + 1 * 7) by lia.
  rewrite N.div_add by discriminate. reflexivity.
Qed.

Lemma Sov_bounds x : x < two64 -> 1 <= Sov x <= 10.
Proof.
  intro H. rewrite <- enc_varint_length by exact H.
  pose proof (enc_varint_len_bounds x). lia.
Qed.

(* ------------------------------------------------------------------ zig-zag *)
Lemma lxor_ones_low a n : a < 2 ^ n -> N.lxor a (N.ones n) = N.ones n - a.
Proof.
  intro H. destruct (N.eq_dec a 0) as [->|Hne].
  - rewrite N.lxor_0_l. lia.
  - change (N.lxor a (N.ones n)) with (N.lnot a n). apply N.lnot_sub_low.
    apply N.log2_lt_pow2; [lia|exact H].
Qed.

Lemma zigzag64_spec z :
  (- Z.of_N two63 <= z < Z.of_N two63)%Z ->
  zigzag64 (z2u64 z) = Z.to_N (if (z <? 0)%Z then (-2 * z - 1)%Z else (2 * z)%Z).
Proof.
  intro H. unfold zigzag64, z2u64, u64.
  destruct (Z.ltb_spec z 0) as [Hn|Hp].
  - assert (E : (z mod Z.of_N two64 = z + Z.of_N two64)%Z).
    { symmetry. apply Z.mod_unique with (q := (-1)%Z); unfold two63, two64 in *; lia. }
    rewrite E. rewrite N.shiftl_mul_pow2. change (2^1) with 2.
    set (x := Z.to_N (z + Z.of_N two64)).
    assert (Hx : Z.of_N x = (z + Z.of_N two64)%Z) by (unfold x, two63, two64 in *; lia).
    rewrite (N.mod_small x) by (unfold two63, two64 in *; lia).
    destruct (N.ltb_spec x two63) as [Hl|_]; [unfold two63, two64 in *; lia|].
    assert (Em : (x * 2) mod two64 = Z.to_N (2 * z + Z.of_N two64)).
    { symmetry. apply N.mod_unique with (q := 1); unfold two63, two64 in *; lia. }
    rewrite Em. change (two64 - 1) with (N.ones 64).
    rewrite lxor_ones_low by (change (2^64) with two64; unfold two63, two64 in *; lia).
    change (N.ones 64) with (two64 - 1). unfold two63, two64 in *. lia.
  - rewrite Z.mod_small by (unfold two63, two64 in *; lia).
    rewrite N.shiftl_mul_pow2. change (2^1) with 2.
    rewrite (N.mod_small (Z.to_N z)) by (unfold two63, two64 in *; lia).
    destruct (N.ltb_spec (Z.to_N z) two63) as [_|Hl]; [|unfold two63, two64 in *; lia].
    rewrite N.lxor_0_r. rewrite N.mod_small by (unfold two63, two64 in *; lia). lia.
Qed.

(* ------------------------------------------------------------------ EncodeVarint *)
Lemma upd_app_exact pre x t b : upd (pre ++ x :: t) (length pre) b = pre ++ b :: t.
Proof. induction pre as [|h pre IH]; cbn; [reflexivity|]. rewrite IH. reflexivity. Qed.

Lemma upd_length buf i b : length (upd buf i b) = length buf.
Proof. revert i. induction buf as [|h t IH]; intro i; cbn; [reflexivity|]. destruct i; cbn; [reflexivity|]. rewrite IH. reflexivity. Qed.

Lemma in_range_mid pre x t : in_range (pre ++ x :: t) (Z.of_nat (length pre)) = true.
Proof. unfold in_range. rewrite app_length. cbn [length]. apply andb_true_intro. split; lia. Qed.

Lemma ev_loop_writes fuel v pre mid post :
  (0 < fuel)%nat -> v < 2 ^ (7 * N.of_nat fuel) ->
  length mid = length (enc_varint_aux fuel v) ->
  ev_loop fuel (pre ++ mid ++ post) (Z.of_nat (length pre)) v = Ok (pre ++ enc_varint_aux fuel v ++ post).
Proof.
  revert v pre mid. induction fuel as [|f IH]; intros v pre mid Hf Hv Hlen; [lia|].
  cbn [ev_loop enc_varint_aux] in *.
  destruct (N.ltb_spec v 128) as [Hs|Hb].
  - destruct (N.leb_spec 128 v) as [?|_]; [lia|].
    destruct mid as [|m0 [|m1 mid']]; cbn [length] in Hlen; try discriminate.
    cbn [app]. rewrite in_range_mid. rewrite Nat2Z.id, upd_app_exact. reflexivity.
  - destruct (N.leb_spec 128 v) as [_|?]; [|lia].
    destruct mid as [|m0 mid']; cbn [length] in Hlen; [discriminate|].
    cbn [app]. rewrite in_range_mid. rewrite Nat2Z.id, upd_app_exact.
    destruct f as [|f']. { exfalso. cbn in Hv. lia. }
    replace (pre ++ n2b (N.lor (N.land v 127) 128) :: mid' ++ post)
      with ((pre ++ [n2b (N.lor (N.land v 127) 128)]) ++ mid' ++ post) by (rewrite <- app_assoc; reflexivity).
    replace (Z.of_nat (length pre) + 1)%Z with (Z.of_nat (length (pre ++ [n2b (N.lor (N.land v 127) 128)])))
      by (rewrite app_length; cbn [length]; lia).
    rewrite IH; [ rewrite <- app_assoc; reflexivity | lia | | lia ].
    rewrite N.shiftr_div_pow2. change (2^7) with 128.
    apply N.div_lt_upper_bound; [discriminate|].
    replace (7 * N.of_nat (S (S f'))) with (7 + 7 * N.of_nat (S f')) in Hv by lia.
    rewrite N.pow_add_r in Hv. exact Hv.
Qed.

Lemma split_buffer (buf : list byte) (a b : nat) :
  (a <= b <= length buf)%nat ->
  buf = firstn a buf ++ firstn (b - a) (skipn a buf) ++ skipn b buf
  /\ length (firstn a buf) = a /\ length (firstn (b - a) (skipn a buf)) = (b - a)%nat.
Proof.
  intro H. split; [|split].
  - rewrite <- (firstn_skipn a buf) at 1. f_equal.
    rewrite <- (firstn_skipn (b - a) (skipn a buf)) at 1. f_equal.
    rewrite skipn_skipn'. f_equal. lia.
  - apply firstn_length_le. lia.
  - apply firstn_length_le. rewrite skipn_length. lia.
Qed.

Lemma encode_varint_ok buf off v :
  v < two64 ->
  (Z.of_N (Sov v) <= off <= Z.of_nat (length buf))%Z ->
  EncodeVarint buf off v =
  Ok (firstn (Z.to_nat (off - Z.of_N (Sov v))) buf ++ enc_varint v ++ skipn (Z.to_nat off) buf,
      (off - Z.of_N (Sov v))%Z).
Proof.
  intros Hv Hoff. unfold EncodeVarint.
  pose proof (enc_varint_length v Hv) as Hlen.
  set (n := Sov v) in *.
  set (a := Z.to_nat (off - Z.of_N n)). set (b := Z.to_nat off).
  destruct (split_buffer buf a b) as (Hsplit & Ha & Hm); [unfold a, b; lia|].
  rewrite Hsplit at 1.
  replace (off - Z.of_N n)%Z with (Z.of_nat (length (firstn a buf))) at 1 by (rewrite Ha; unfold a; lia).
  unfold enc_varint in *. rewrite ev_loop_writes.
  - reflexivity.
  - lia.
  - eapply N.lt_trans; [exact Hv|]. reflexivity.
  - rewrite Hm. unfold a, b. lia.
Qed.

(* the writer panics exactly when the space is missing *)
Lemma ev_loop_panics fuel v buf off :
  (0 < fuel)%nat -> v < 2 ^ (7 * N.of_nat fuel) ->
  (off < 0 \/ Z.of_nat (length buf) < off + Z.of_nat (length (enc_varint_aux fuel v)))%Z ->
  ev_loop fuel buf off v = Panic.
Proof.
  revert v buf off. induction fuel as [|f IH]; intros v buf off Hf Hv Hout; [lia|].
  cbn [ev_loop enc_varint_aux] in *.
  destruct (N.ltb_spec v 128) as [Hs|Hb].
  - destruct (N.leb_spec 128 v) as [?|_]; [lia|].
    cbn [length] in Hout. unfold in_range.
    destruct (Z.leb_spec 0 off); destruct (Z.ltb_spec off (Z.of_nat (length buf))); cbn [andb]; try reflexivity; lia.
  - destruct (N.leb_spec 128 v) as [_|?]; [|lia].
    cbn [length] in Hout. unfold in_range.
    destruct (Z.leb_spec 0 off); destruct (Z.ltb_spec off (Z.of_nat (length buf))); cbn [andb]; try reflexivity.
    destruct f as [|f']. { exfalso. cbn in Hv. lia. }
    apply IH; [lia| |].
    + rewrite N.shiftr_div_pow2. change (2^7) with 128.
      apply N.div_lt_upper_bound; [discriminate|].
      replace (7 * N.of_nat (S (S f'))) with (7 + 7 * N.of_nat (S f')) in Hv by lia.
      rewrite N.pow_add_r in Hv. exact Hv.
    + rewrite upd_length. right. lia.
Qed.

Lemma encode_varint_panics buf off v :
  v < two64 ->
  ~ (Z.of_N (Sov v) <= off <= Z.of_nat (length buf))%Z ->
  EncodeVarint buf off v = Panic.
Proof.
  intros Hv Hoff. unfold EncodeVarint.
  pose proof (enc_varint_length v Hv) as Hlen. unfold enc_varint in Hlen.
  rewrite ev_loop_panics; [reflexivity|lia| |].
  - eapply N.lt_trans; [exact Hv|]. reflexivity.
  - lia.
Qed.

(* ------------------------------------------------------------------ Skip: totality *)


(* ------------------------------------------------------------------ Skip: totality, progress *)
Lemma skip_varint_aux_consumes f n bs m rest :
  skip_varint_aux f n bs = Some (m, rest) ->
  exists pre, bs = pre ++ rest /\ (m = n + length pre)%nat /\ (1 <= length pre)%nat.
Proof.
  revert n bs. induction f as [|f IH]; intros n bs H; [discriminate|].
  cbn in H. destruct bs as [|b t]; [discriminate|].
  destruct (b2n b <? 128).
  - injection H as <- <-. exists [b]. cbn. split; [reflexivity|]. lia.
  - apply IH in H. destruct H as (pre & -> & -> & Hl). exists (b :: pre). cbn. split; [reflexivity|]. lia.
Qed.

Lemma s64_lt raw : (s64 raw < Z.of_N two63)%Z.
Proof.
  unfold s64. pose proof (N.mod_upper_bound raw two64 ltac:(discriminate)).
  destruct (N.ltb_spec (raw mod two64) two63); unfold two63, two64 in *; lia.
Qed.

Lemma zskipn_nonempty_length {A} k (l : list A) :
  (0 <= k)%Z -> zskipn k l <> [] -> (Z.of_nat (length (zskipn k l)) = Z.of_nat (length l) - k)%Z.
Proof.
  intros Hk Hne. unfold zskipn in *.
  destruct (Z.leb_spec k 0); [lia|].
  destruct (Z.leb_spec (Z.of_nat (length l)) k); [congruence|].
  rewrite skipn_length. lia.
Qed.

(* What one loop iteration does to (suffix, index): it consumes at least one byte; and unless the
   index went negative (rejected by the epilogue) it moved forward and still describes the suffix. *)
Lemma skip_step_next rest idx depth r i d :
  skip_step rest idx depth = SNext r i d ->
  (length r < length rest)%nat /\
  ((0 <= idx)%Z -> (idx + Z.of_nat (length rest) < Z.of_N two63)%Z ->
   (i < 0)%Z \/ ((idx < i)%Z /\ (r <> [] -> (i + Z.of_nat (length r) = idx + Z.of_nat (length rest))%Z))).
Proof.
  unfold skip_step.
  destruct (dec_varint rest) as [[[wire n] rest1]|] eqn:Ed; [|discriminate].
  apply dec_varint_consumes in Ed. destruct Ed as (pre & Hpre & Hn & Hlen).
  assert (Hl1 : length rest = (length pre + length rest1)%nat) by (rewrite Hpre, app_length; reflexivity).
  cbv zeta.
  destruct (N.land (u64 wire) 7 =? 0).
  { destruct (skip_varint rest1) as [[n2 rest2]|] eqn:Es; [|discriminate].
    apply skip_varint_aux_consumes in Es. destruct Es as (pre2 & Hp2 & Hn2 & Hl2).
    assert (length rest1 = (length pre2 + length rest2)%nat) by (rewrite Hp2, app_length; reflexivity).
    intro E. injection E as <- <- <-. split; [lia|]. intros _ _. right. split; lia. }
  destruct (N.land (u64 wire) 7 =? 1).
  { intro E. injection E as <- <- <-. pose proof (zskipn_length 8 rest1). split; [lia|].
    intros _ _. right. split; [lia|]. intro Hne. apply zskipn_nonempty_length in Hne; lia. }
  destruct (N.land (u64 wire) 7 =? 2).
  { destruct (dec_varint rest1) as [[[raw n2] rest2]|] eqn:Ed2; [|discriminate].
    apply dec_varint_consumes in Ed2. destruct Ed2 as (pre2 & Hp2 & Hn2 & Hl2).
    assert (length rest1 = (length pre2 + length rest2)%nat) by (rewrite Hp2, app_length; reflexivity).
    destruct (Z.ltb_spec (s64 raw) 0) as [|Hlen0]; [discriminate|].
    intro E. injection E as <- <- <-.
    pose proof (zskipn_length (s64 raw) rest2). split; [lia|].
    intros Hidx Hsmall. pose proof (s64_lt raw) as Hs.
    set (sum := (idx + Z.of_nat n + Z.of_nat n2 + s64 raw)%Z).
    destruct (Z.ltb_spec sum (Z.of_N two63)) as [Hlt|Hge].
    + right. rewrite wrap64_small by (unfold sum; lia). split; [unfold sum; lia|].
      intro Hne. apply zskipn_nonempty_length in Hne; [|lia]. unfold sum. lia.
    + left. apply wrap64_big_neg. unfold sum, two63, two64 in *. lia. }
  destruct (N.land (u64 wire) 7 =? 3).
  { intro E. injection E as <- <- <-. split; [lia|]. intros _ _. right. split; lia. }
  destruct (N.land (u64 wire) 7 =? 4).
  { destruct (depth =? 0); [discriminate|].
    intro E. injection E as <- <- <-. split; [lia|]. intros _ _. right. split; lia. }
  destruct (N.land (u64 wire) 7 =? 5); [|discriminate].
  intro E. injection E as <- <- <-. pose proof (zskipn_length 4 rest1). split; [lia|].
  intros _ _. right. split; [lia|]. intro Hne. apply zskipn_nonempty_length in Hne; lia.
Qed.

Lemma skip_loop_not_panic fuel rest idx depth : skip_loop fuel rest idx depth <> Panic.
Proof.
  revert rest idx depth. induction fuel as [|f IH]; intros rest idx depth; cbn [skip_loop]; [discriminate|].
  destruct rest as [|b t]; [discriminate|].
  destruct (skip_step (b :: t) idx depth) as [|r i d]; [discriminate|].
  destruct (i <? 0)%Z; [discriminate|]. destruct (d =? 0); [discriminate|]. apply IH.
Qed.

Lemma skip_loop_enough_fuel fuel rest idx depth :
  (length rest < fuel)%nat -> skip_loop fuel rest idx depth <> OutOfFuel.
Proof.
  revert rest idx depth. induction fuel as [|f IH]; intros rest idx depth Hf; [lia|].
  cbn [skip_loop]. destruct rest as [|b t] eqn:Er; [discriminate|]. rewrite <- Er in *.
  destruct (skip_step rest idx depth) as [|r i d] eqn:Es; [discriminate|].
  apply skip_step_next in Es. destruct Es as [Hl _].
  destruct (i <? 0)%Z; [discriminate|]. destruct (d =? 0); [discriminate|]. apply IH. lia.
Qed.

Lemma skip_loop_progress fuel rest idx depth n :
  (0 <= idx)%Z -> (rest <> [] -> (idx + Z.of_nat (length rest) < Z.of_N two63)%Z) ->
  skip_loop fuel rest idx depth = Ok n -> (idx < n)%Z.
Proof.
  revert rest idx depth. induction fuel as [|f IH]; intros rest idx depth Hidx Hinv; cbn [skip_loop]; [discriminate|].
  destruct rest as [|b t] eqn:Er; [discriminate|]. rewrite <- Er in *.
  assert (Hne : rest <> []) by (rewrite Er; discriminate). specialize (Hinv Hne).
  destruct (skip_step rest idx depth) as [|r i d] eqn:Es; [discriminate|].
  apply skip_step_next in Es. destruct Es as [Hl Hmove]. specialize (Hmove Hidx Hinv).
  destruct (Z.ltb_spec i 0) as [|Hi]; [discriminate|].
  destruct Hmove as [?|[Hlt Hsuf]]; [lia|].
  destruct (d =? 0).
  - intro E. injection E as <-. exact Hlt.
  - intro E. apply IH in E; [lia|lia|]. intro Hr. specialize (Hsuf Hr). lia.
Qed.

(* ------------------------------------------------------------------ Skip on well-formed records *)
From CP Require Import Wire.

Lemma skip_enc_varint_aux f v n rest :
  (0 < f)%nat -> v < 2 ^ (7 * N.of_nat f) ->
  skip_varint_aux f n (enc_varint_aux f v ++ rest) = Some ((n + length (enc_varint_aux f v))%nat, rest).
Proof.
  revert v n. induction f as [|f IH]; intros v n Hf Hv; [lia|].
  cbn [enc_varint_aux]. destruct (N.ltb_spec v 128) as [Hs|Hb].
  - cbn [app skip_varint_aux length]. rewrite b2n_n2b_small by lia.
    destruct (N.ltb_spec v 128) as [_|?]; [|lia]. f_equal. f_equal. lia.
  - cbn [app skip_varint_aux length]. rewrite lor_land_128.
    assert (Hm : v mod 128 < 128) by (apply N.mod_upper_bound; discriminate).
    rewrite b2n_n2b_small by lia.
    destruct (N.ltb_spec (v mod 128 + 128) 128) as [?|_]; [lia|].
    destruct f as [|f']. { exfalso. cbn in Hv. lia. }
    rewrite IH; [f_equal; f_equal; lia | lia |].
    rewrite N.shiftr_div_pow2. change (2^7) with 128.
    apply N.div_lt_upper_bound; [discriminate|].
    replace (7 * N.of_nat (S (S f'))) with (7 + 7 * N.of_nat (S f')) in Hv by lia.
    rewrite N.pow_add_r in Hv. exact Hv.
Qed.

Lemma skip_enc_varint v rest :
  v < two64 -> skip_varint (enc_varint v ++ rest) = Some (length (enc_varint v), rest).
Proof.
  intro H. unfold skip_varint, enc_varint. rewrite skip_enc_varint_aux; [reflexivity|lia|].
  eapply N.lt_trans; [exact H|]. reflexivity.
Qed.

Lemma tag_wiretype num wt : num_ok num -> wt < 8 -> N.land (u64 (num * 8 + wt)) 7 = wt.
Proof.
  intros Hn Hw. unfold num_ok in Hn. unfold u64. rewrite N.mod_small by (unfold two64; lia).
  change 7 with (N.ones 3). rewrite N.land_ones. change (2^3) with 8.
  rewrite N.add_comm, N.mod_add by discriminate. apply N.mod_small. exact Hw.
Qed.

Lemma dec_tag num wt rest :
  num_ok num -> wt < 8 ->
  dec_varint (tag num wt ++ rest) = Some (num * 8 + wt, length (tag num wt), rest).
Proof. intros Hn Hw. unfold tag. apply dec_enc_varint. unfold num_ok, two64 in *. lia. Qed.

Lemma tag_nonempty num wt : tag num wt <> [].
Proof. unfold tag, enc_varint. apply enc_varint_aux_nonempty. lia. Qed.

Lemma skip_loop_S f rest idx depth r i d :
  rest <> [] -> skip_step rest idx depth = SNext r i d -> (0 <= i)%Z ->
  skip_loop (S f) rest idx depth = if d =? 0 then Ok i else skip_loop f r i d.
Proof.
  intros Hne Hs Hi. cbn [skip_loop]. destruct rest as [|b t]; [congruence|].
  rewrite Hs. destruct (Z.ltb_spec i 0); [lia|]. reflexivity.
Qed.

Lemma skip_loop_S_tag f num wt rest' idx depth r i d :
  skip_step (tag num wt ++ rest') idx depth = SNext r i d -> (0 <= i)%Z ->
  skip_loop (S f) (tag num wt ++ rest') idx depth = if d =? 0 then Ok i else skip_loop f r i d.
Proof.
  intros Hs Hi. apply skip_loop_S; [|exact Hs|exact Hi].
  intro E. apply app_eq_nil in E. destruct E as [E _]. exact (tag_nonempty _ _ E).
Qed.

(* steps on each kind of token *)
Lemma step_varint num v rest idx d :
  num_ok num -> v < two64 ->
  skip_step (tag num 0 ++ enc_varint v ++ rest) idx d
  = SNext rest (idx + Z.of_nat (length (tag num 0)) + Z.of_nat (length (enc_varint v)))%Z d.
Proof.
  intros Hn Hv. unfold skip_step. rewrite dec_tag by (assumption || lia). cbv zeta.
  rewrite tag_wiretype by (assumption || lia). cbn [N.eqb].
  rewrite skip_enc_varint by exact Hv. reflexivity.
Qed.

Lemma step_fixed64 num p rest idx d :
  num_ok num -> length p = 8%nat ->
  skip_step (tag num 1 ++ p ++ rest) idx d = SNext rest (idx + Z.of_nat (length (tag num 1)) + 8)%Z d.
Proof.
  intros Hn Hp. unfold skip_step. rewrite dec_tag by (assumption || lia). cbv zeta.
  rewrite tag_wiretype by (assumption || lia). cbn [N.eqb Pos.eqb].
  replace 8%Z with (Z.of_nat (length p)) at 1 by (rewrite Hp; reflexivity).
  rewrite zskipn_app_exact. reflexivity.
Qed.

Lemma step_fixed32 num p rest idx d :
  num_ok num -> length p = 4%nat ->
  skip_step (tag num 5 ++ p ++ rest) idx d = SNext rest (idx + Z.of_nat (length (tag num 5)) + 4)%Z d.
Proof.
  intros Hn Hp. unfold skip_step. rewrite dec_tag by (assumption || lia). cbv zeta.
  rewrite tag_wiretype by (assumption || lia). cbn [N.eqb Pos.eqb].
  replace 4%Z with (Z.of_nat (length p)) at 1 by (rewrite Hp; reflexivity).
  rewrite zskipn_app_exact. reflexivity.
Qed.

Lemma step_start num rest idx d :
  num_ok num -> skip_step (tag num 3 ++ rest) idx d = SNext rest (idx + Z.of_nat (length (tag num 3)))%Z (d + 1).
Proof.
  intros Hn. unfold skip_step. rewrite dec_tag by (assumption || lia). cbv zeta.
  rewrite tag_wiretype by (assumption || lia). cbn [N.eqb Pos.eqb]. reflexivity.
Qed.

Lemma step_end num rest idx d :
  num_ok num -> 0 < d -> skip_step (tag num 4 ++ rest) idx d = SNext rest (idx + Z.of_nat (length (tag num 4)))%Z (d - 1).
Proof.
  intros Hn Hd. unfold skip_step. rewrite dec_tag by (assumption || lia). cbv zeta.
  rewrite tag_wiretype by (assumption || lia). cbn [N.eqb Pos.eqb].
  destruct (N.eqb_spec d 0); [lia|]. reflexivity.
Qed.

Lemma step_bytes num p rest idx d :
  num_ok num -> (0 <= idx)%Z ->
  (idx + Z.of_nat (length (tag num 2 ++ enc_varint (N.of_nat (length p)) ++ p ++ rest)) < Z.of_N two63)%Z ->
  skip_step (tag num 2 ++ enc_varint (N.of_nat (length p)) ++ p ++ rest) idx d
  = SNext rest (idx + Z.of_nat (length (tag num 2)) + Z.of_nat (length (enc_varint (N.of_nat (length p))))
                + Z.of_nat (length p))%Z d.
Proof.
  intros Hn Hidx Hsmall. rewrite !app_length in Hsmall.
  unfold skip_step. rewrite dec_tag by (assumption || lia). cbv zeta.
  rewrite tag_wiretype by (assumption || lia). cbn [N.eqb Pos.eqb].
  rewrite dec_enc_varint by (unfold two63, two64 in *; lia).
  rewrite s64_small by (unfold two63 in *; lia).
  destruct (Z.ltb_spec (Z.of_N (N.of_nat (length p))) 0); [lia|].
  rewrite nat_N_Z, zskipn_app_exact.
  rewrite wrap64_small by (unfold two63 in *; lia). reflexivity.
Qed.

Definition ntoks (rs : list wrec) : nat := fold_right (fun x acc => (ntok x + acc)%nat) 0%nat rs.
Definition wf_all (rs : list wrec) : Prop := fold_right (fun x acc => wf_wrec x /\ acc) True rs.

(* the statement proved simultaneously for a record and for record lists *)
Definition skip_rec_stmt (r : wrec) : Prop :=
  forall k rest idx d,
    wf_wrec r -> (0 <= idx)%Z ->
    (idx + Z.of_nat (length (enc_wrec r ++ rest)) < Z.of_N two63)%Z ->
    skip_loop (ntok r + k) (enc_wrec r ++ rest) idx d
    = if d =? 0 then Ok (idx + Z.of_nat (length (enc_wrec r)))%Z
      else skip_loop k rest (idx + Z.of_nat (length (enc_wrec r)))%Z d.

Lemma skip_recs (rs : list wrec) :
  fold_right (fun x acc => skip_rec_stmt x /\ acc) True rs ->
  forall k rest idx d,
    wf_all rs -> 0 < d -> (0 <= idx)%Z ->
    (idx + Z.of_nat (length (flat_map enc_wrec rs ++ rest)) < Z.of_N two63)%Z ->
    skip_loop (ntoks rs + k) (flat_map enc_wrec rs ++ rest) idx d
    = skip_loop k rest (idx + Z.of_nat (length (flat_map enc_wrec rs)))%Z d.
Proof.
  induction rs as [|r rs IH]; intros Hall k rest idx d Hwf Hd Hidx Hsmall.
  - cbn. rewrite Z.add_0_r. reflexivity.
  - cbn [fold_right] in Hall. destruct Hall as [Hr Hrs]. cbn [wf_all fold_right] in Hwf. destruct Hwf as [Hwr Hwrs].
    cbn [flat_map ntoks fold_right]. rewrite <- app_assoc.
    rewrite <- Nat.add_assoc.
    cbn [flat_map] in Hsmall. rewrite <- app_assoc in Hsmall.
    rewrite Hr; [|assumption|assumption|exact Hsmall].
    destruct (N.eqb_spec d 0); [lia|].
    rewrite !app_length in Hsmall.
    change (fold_right (fun x acc => (ntok x + acc)%nat) 0%nat rs) with (ntoks rs).
    rewrite IH; [|assumption|assumption|assumption|lia|rewrite app_length; lia].
    f_equal. rewrite app_length. lia.
Qed.

Lemma skip_rec_all : forall r, skip_rec_stmt r.
Proof.
  fix IHr 1. intro r. destruct r as [num v|num p|num p|num body e|num p]; unfold skip_rec_stmt;
    intros k rest idx d Hwf Hidx Hsmall; cbn [enc_wrec ntok wf_wrec] in *.
  - destruct Hwf as [Hn Hv]. rewrite <- app_assoc. cbn [Nat.add].
    rewrite (skip_loop_S_tag _ _ _ _ _ _ _ _ _
               (step_varint num v rest idx d Hn Hv)) by lia.
    rewrite app_length. replace (idx + Z.of_nat (length (tag num 0)) + Z.of_nat (length (enc_varint v)))%Z
      with (idx + Z.of_nat (length (tag num 0) + length (enc_varint v)))%Z by lia. reflexivity.
  - destruct Hwf as [Hn Hp]. rewrite <- app_assoc. cbn [Nat.add].
    rewrite (skip_loop_S_tag _ _ _ _ _ _ _ _ _
               (step_fixed64 num p rest idx d Hn Hp)) by lia.
    rewrite app_length, Hp. replace (idx + Z.of_nat (length (tag num 1)) + 8)%Z
      with (idx + Z.of_nat (length (tag num 1) + 8))%Z by lia. reflexivity.
  - rewrite <- !app_assoc in *. cbn [Nat.add].
    rewrite (skip_loop_S_tag _ _ _ _ _ _ _ _ _
               (step_bytes num p rest idx d Hwf Hidx Hsmall)) by lia.
    rewrite !app_length.
    replace (idx + Z.of_nat (length (tag num 2)) + Z.of_nat (length (enc_varint (N.of_nat (length p)))) + Z.of_nat (length p))%Z
      with (idx + Z.of_nat (length (tag num 2) + (length (enc_varint (N.of_nat (length p))) + length p)))%Z by lia.
    reflexivity.
  - destruct Hwf as (Hn & He & Hbody).
    rewrite <- !app_assoc in *. cbn [Nat.add].
    rewrite (skip_loop_S_tag _ _ _ _ _ _ _ _ _
               (step_start num _ idx d Hn)) by lia.
    destruct (N.eqb_spec (d + 1) 0) as [?|_]; [lia|].
    change (fold_right (fun x acc => (ntok x + acc)%nat) 0%nat body) with (ntoks body).
    rewrite !app_length in Hsmall.
    replace (S (ntoks body + k))%nat with (ntoks body + S k)%nat by lia.
    rewrite skip_recs; [| | exact Hbody | lia | lia | rewrite !app_length; lia].
    2:{ clear - IHr. induction body as [|b body IHb]; cbn; [exact I|]. split; [apply IHr|exact IHb]. }
    rewrite (skip_loop_S_tag _ _ _ _ _ _ _ _ _
               (step_end e rest _ (d + 1) He ltac:(lia))) by lia.
    replace (d + 1 - 1) with d by lia.
    rewrite !app_length.
    replace (idx + Z.of_nat (length (tag num 3)) + Z.of_nat (length (flat_map enc_wrec body)) + Z.of_nat (length (tag e 4)))%Z
      with (idx + Z.of_nat (length (tag num 3) + (length (flat_map enc_wrec body) + length (tag e 4))))%Z by lia.
    reflexivity.
  - destruct Hwf as [Hn Hp]. rewrite <- app_assoc. cbn [Nat.add].
    rewrite (skip_loop_S_tag _ _ _ _ _ _ _ _ _
               (step_fixed32 num p rest idx d Hn Hp)) by lia.
    rewrite app_length, Hp. replace (idx + Z.of_nat (length (tag num 5)) + 4)%Z
      with (idx + Z.of_nat (length (tag num 5) + 4))%Z by lia. reflexivity.
Qed.

Lemma ntok_le_len r : (ntok r <= length (enc_wrec r))%nat.
Proof.
  revert r. fix IHr 1. intro r. destruct r as [num v|num p|num p|num body e|num p]; cbn [ntok enc_wrec];
    rewrite ?app_length;
    try (pose proof (tag_nonempty num 0); pose proof (tag_nonempty num 1); pose proof (tag_nonempty num 2);
         pose proof (tag_nonempty num 5);
         destruct (tag num 0); destruct (tag num 1); destruct (tag num 2); destruct (tag num 5); cbn [length]; try congruence; lia).
  assert (H : (fold_right (fun x acc => (ntok x + acc)%nat) 0%nat body <= length (flat_map enc_wrec body))%nat).
  { induction body as [|b body IHb]; cbn [fold_right flat_map length]; [lia|].
    rewrite app_length. specialize (IHr b). lia. }
  pose proof (tag_nonempty num 3). pose proof (tag_nonempty e 4).
  destruct (tag num 3); destruct (tag e 4); cbn [length]; try congruence. lia.
Qed.

Lemma skip_loop_fuel_mono f k rest idx depth :
  skip_loop f rest idx depth <> OutOfFuel -> skip_loop (f + k) rest idx depth = skip_loop f rest idx depth.
Proof.
  revert rest idx depth. induction f as [|f IH]; intros rest idx depth H; cbn [skip_loop] in *; [congruence|].
  cbn [Nat.add skip_loop].
  destruct rest as [|b t]; [reflexivity|].
  destruct (skip_step (b :: t) idx depth) as [|r i d]; [reflexivity|].
  destruct (i <? 0)%Z; [reflexivity|]. destruct (d =? 0); [reflexivity|]. apply IH. exact H.
Qed.

Lemma skip_wellformed_record r rest :
  wf_wrec r -> (Z.of_nat (length (enc_wrec r ++ rest)) < Z.of_N two63)%Z ->
  Skip (enc_wrec r ++ rest) = Ok (Z.of_nat (length (enc_wrec r))).
Proof.
  intros Hwf Hsmall. unfold Skip.
  pose proof (ntok_le_len r) as Hle. rewrite app_length in *.
  replace (S (length (enc_wrec r) + length rest)) with (ntok r + (S (length (enc_wrec r) + length rest) - ntok r))%nat by lia.
  rewrite <- app_length. rewrite skip_rec_all; [reflexivity|exact Hwf|lia|rewrite app_length; lia].
Qed.
