(* Proofs/GenNamesProofs.v — lemmas about Model/GenNames.v *)
From CP Require Import Bytes GenNames.
From Coq Require Import Lia.
Local Open Scope N_scope.

(* ---- generic list facts ------------------------------------------------------------------------ *)
Lemma byte_eqb_refl : forall a, Byte.eqb a a = true.
Proof. intros. apply Byte.byte_dec_lb. reflexivity. Qed.

Lemma name_eqb_refl : forall a, name_eqb a a = true.
Proof. induction a; simpl; auto. rewrite byte_eqb_refl. auto. Qed.

Lemma byte_eqb_eq : forall a b, Byte.eqb a b = true -> a = b.
Proof. intros a b H. apply Byte.byte_dec_bl in H. exact H. Qed.

Lemma name_eqb_eq : forall a b, name_eqb a b = true <-> a = b.
Proof.
  induction a; destruct b; simpl; split; intros H; try discriminate; auto.
  - apply andb_true_iff in H. destruct H as [H1 H2]. apply byte_eqb_eq in H1. apply IHa in H2. subst. auto.
  - inversion H. subst. rewrite byte_eqb_refl. simpl. apply IHa. auto.
Qed.

Lemma existsb_name_In : forall x l, existsb (name_eqb x) l = true <-> In x l.
Proof.
  intros x l. rewrite existsb_exists. split.
  - intros [y [Hy He]]. apply name_eqb_eq in He. subst. auto.
  - intros H. exists x. split; auto. apply name_eqb_refl.
Qed.

Lemma nodupb_NoDup : forall l, nodupb l = true -> NoDup l.
Proof.
  induction l; simpl; intros H. constructor.
  apply andb_true_iff in H. destruct H as [H1 H2]. constructor; auto.
  intros Hin. apply existsb_name_In in Hin. rewrite Hin in H1. discriminate.
Qed.

Lemma nodupN_NoDup : forall l, nodupN l = true -> NoDup l.
Proof.
  induction l; simpl; intros H. constructor.
  apply andb_true_iff in H. destruct H as [H1 H2]. constructor; auto.
  intros Hin. assert (existsb (N.eqb a) l = true).
  { apply existsb_exists. exists a. split; auto. apply N.eqb_refl. }
  rewrite H in H1. discriminate.
Qed.

Lemma nodup_app : forall (A : Type) (a b : list A), NoDup a -> NoDup b -> (forall x, In x a -> ~ In x b) -> NoDup (a ++ b).
Proof.
  intros A a. induction a as [|h t IH]; simpl; intros b Ha Hb Hd; auto.
  inversion Ha as [|? ? Hnot Hnd]; subst. constructor.
  - intros Hin. apply in_app_or in Hin. destruct Hin as [H|H].
    + exact (Hnot H).
    + exact (Hd h (or_introl eq_refl) H).
  - apply IH; auto; intros x Hx; apply Hd; simpl; auto.
Qed.

Lemma nodup_map_inj_in : forall (A B : Type) (f : A -> B) (l : list A),
  (forall x y, In x l -> In y l -> f x = f y -> x = y) -> NoDup l -> NoDup (map f l).
Proof.
  induction l; simpl; intros Hinj Hnd. constructor.
  inversion Hnd; subst. constructor.
  - intros Hin. apply in_map_iff in Hin. destruct Hin as [y [Hy Hin]].
    assert (y = a) by (apply Hinj; auto). subst. auto.
  - apply IHl; auto.
Qed.

(* the last separator splits uniquely *)
Lemma split_last_sep : forall (s : byte) (a b a' b' : name),
  ~ In s b -> ~ In s b' -> a ++ s :: b = a' ++ s :: b' -> a = a' /\ b = b'.
Proof.
  induction a; intros b a' b' Hb Hb' H.
  - destruct a'; simpl in H.
    + inversion H. auto.
    + inversion H. subst. exfalso. apply Hb. apply in_or_app. right. simpl. auto.
  - destruct a'; simpl in H.
    + inversion H. subst. exfalso. apply Hb'. apply in_or_app. right. simpl. auto.
    + inversion H. subst. destruct (IHa b a' b' Hb Hb' H2). subst. auto.
Qed.

(* ---- decimal rendering ------------------------------------------------------------------------ *)
Lemma small_cases : forall d, d < 10 -> d = 0 \/ d = 1 \/ d = 2 \/ d = 3 \/ d = 4 \/ d = 5 \/ d = 6 \/ d = 7 \/ d = 8 \/ d = 9.
Proof. intros. lia. Qed.

Lemma digit_is_digit : forall d, d < 10 -> is_digit (digit d) = true /\ b2n (digit d) - 48 = d.
Proof.
  intros d H. destruct (small_cases d H) as [E|[E|[E|[E|[E|[E|[E|[E|[E|E]]]]]]]]]; subst; vm_compute; auto.
Qed.

Lemma dec_aux_digits : forall fuel n acc, Forall (fun c => is_digit c = true) acc ->
  Forall (fun c => is_digit c = true) (dec_aux fuel n acc).
Proof.
  induction fuel; simpl; intros n acc H; auto.
  assert (Hd : is_digit (digit (n mod 10)) = true).
  { apply digit_is_digit. apply N.mod_lt. lia. }
  destruct (n / 10 =? 0); [constructor; auto | apply IHfuel; constructor; auto].
Qed.

Lemma dec_digits : forall n, Forall (fun c => is_digit c = true) (dec n).
Proof. intros. apply dec_aux_digits. constructor. Qed.

Lemma dec_no_us : forall n, ~ In us (dec n).
Proof.
  intros n Hin. pose proof (dec_digits n) as H. rewrite Forall_forall in H. apply H in Hin. vm_compute in Hin. discriminate.
Qed.

Definition step (a : N) (c : byte) : N := a * 10 + (b2n c - 48).

Lemma undec_dec_gen : forall fuel n acc, n < 10 ^ N.of_nat fuel ->
  fold_left step (dec_aux fuel n acc) 0 = fold_left step acc n.
Proof.
  induction fuel; intros n acc H.
  - simpl in H. assert (n = 0) by lia. subst. simpl. reflexivity.
  - cbn [dec_aux].
    assert (Hm : n mod 10 < 10) by (apply N.mod_lt; lia).
    destruct (digit_is_digit _ Hm) as [_ Hd].
    destruct (n / 10 =? 0) eqn:E.
    + apply N.eqb_eq in E. cbn [fold_left]. unfold step at 2. rewrite Hd.
      assert (n = 10 * (n / 10) + n mod 10) by (apply N.div_mod; lia).
      rewrite E in H0. simpl. f_equal. lia.
    + rewrite IHfuel.
      * cbn [fold_left]. unfold step at 2. rewrite Hd. f_equal.
        assert (n = 10 * (n / 10) + n mod 10) by (apply N.div_mod; lia). lia.
      * rewrite Nat2N.inj_succ, N.pow_succ_r' in H. apply N.div_lt_upper_bound; lia.
Qed.

Lemma undec_dec : forall n, n < dec_bound -> undec (dec n) = n.
Proof.
  intros n H. unfold undec, dec. change (fun a c => a * 10 + (b2n c - 48)) with step.
  rewrite undec_dec_gen. reflexivity. exact H.
Qed.

Lemma dec_inj : forall n m, n < dec_bound -> m < dec_bound -> dec n = dec m -> n = m.
Proof. intros n m Hn Hm H. rewrite <- (undec_dec n Hn), <- (undec_dec m Hm), H. reflexivity. Qed.

(* ---- camel-case facts ---------------------------------------------------------------------------- *)
Lemma camel_ok_app_us_lower : forall a c b, is_lower c = true -> camel_ok (a ++ us :: c :: b) = false.
Proof.
  induction a; intros c b Hc.
  - simpl. rewrite Hc. reflexivity.
  - simpl. destruct (a0 ++ us :: c :: b) eqn:E.
    + destruct a0; discriminate.
    + rewrite <- E. rewrite IHa; auto. apply andb_false_r.
Qed.

Lemma go_ok_not_msgtype_suffix : forall g, go_ok (g ++ s_msgtype) = false.
Proof.
  intros g. unfold go_ok. destruct (g ++ s_msgtype) eqn:E. reflexivity.
  rewrite <- E. unfold s_msgtype.
  rewrite camel_ok_app_us_lower by reflexivity. apply andb_false_r.
Qed.

(* ---- rewriteMessageField ------------------------------------------------------------------------ *)
Lemma reserved_us_not_reserved : forallb (fun r => negb (is_reserved (r ++ [us]))) reserved = true.
Proof. vm_compute. reflexivity. Qed.

Lemma no_field_method_clash : forall g, is_reserved (rewrite_field g) = false.
Proof.
  intros g. unfold rewrite_field. destruct (is_reserved g) eqn:E; auto.
  unfold is_reserved in E. apply existsb_name_In in E.
  pose proof reserved_us_not_reserved as H. rewrite forallb_forall in H.
  apply H in E. apply negb_true_iff in E. exact E.
Qed.

Lemma no_field_method_clash_In : forall g, ~ In (rewrite_field g) reserved.
Proof.
  intros g Hin. apply existsb_name_In in Hin. pose proof (no_field_method_clash g) as H. unfold is_reserved in H.
  rewrite Hin in H. discriminate.
Qed.

(* D8 (fixed): oneofs are struct members too and are renamed like fields *)
Lemma no_member_method_clash : forall fields oneofs m, In m (struct_members fields oneofs) -> ~ In m reserved.
Proof.
  intros fields oneofs m H. unfold struct_members in H. apply in_app_or in H.
  destruct H as [H|H]; apply in_map_iff in H; destruct H as [g [E _]]; subst; apply no_field_method_clash_In.
Qed.

(* D15: the rename is applied after protogen made members and getters unique *)
Local Open Scope byte_scope.
Definition d15_fields : list name := [ ["H"; "a"; "s"]; ["G"; "e"; "t"; "H"; "a"; "s"; "_"] ].
Local Close Scope byte_scope.
Lemma rewrite_breaks_getter_uniqueness_refuted :
  ~ (forall fields, getter_unique fields = true -> getter_unique (map rewrite_field fields) = true).
Proof. intros H. specialize (H d15_fields eq_refl). vm_compute in H. discriminate. Qed.

(* ---- identifiers are pairwise distinct -------------------------------------------------------- *)
Definition key_go (k : key) : name :=
  match k with KMd g | KFast g | KMsgType g | KMsgTypeVar g | KList g _ | KMap g _ | KFd g _ => g end.

Definition key_ok (k : key) : Prop :=
  go_ok (key_go k) = true /\
  match k with KList _ n | KMap _ n => n < dec_bound | KFd _ f => ~ In us f | _ => True end.

Lemma go_ok_cons : forall g, go_ok g = true -> exists c t, g = c :: t /\ is_upper c = true.
Proof.
  intros g H. destruct g as [|c t]; simpl in H. discriminate.
  apply andb_true_iff in H. destruct H as [H _]. eauto.
Qed.

Lemma cons_inj_tl : forall (x : byte) (a b : name), x :: a = x :: b -> a = b.
Proof. intros x a b H. injection H. auto. Qed.

Lemma container_shape : forall g n s, (us :: g ++ us :: dec n) ++ s = us :: g ++ (us :: dec n ++ s).
Proof. intros. simpl. rewrite <- app_assoc. reflexivity. Qed.

Lemma fast_msgtype_ne : forall g g0, go_ok g = true -> fast_ident g <> msgtype_ident g0.
Proof.
  intros g g0 G H. unfold fast_ident, msgtype_ident in H. rewrite <- app_assoc in H.
  apply app_inv_head in H. subst. rewrite go_ok_not_msgtype_suffix in G. discriminate.
Qed.

Lemma upper_start_ne_fast : forall g r r', go_ok g = true -> s_fast ++ r <> g ++ r'.
Proof.
  intros g r r' G H. destruct (go_ok_cons g G) as [c [t [E U]]]. subst.
  unfold s_fast in H. simpl in H. inversion H. subst. vm_compute in U. discriminate.
Qed.

Lemma msgtypevar_container_ne : forall g g0 n s, go_ok g0 = true -> msgtype_var g <> (us :: g0 ++ us :: dec n) ++ s.
Proof.
  intros g g0 n s G H. rewrite container_shape in H. unfold msgtype_var, msgtype_ident in H.
  apply cons_inj_tl in H. rename H into H1.
  rewrite <- app_assoc in H1. exact (upper_start_ne_fast _ _ _ G H1).
Qed.

Lemma list_map_suffix_ne : forall (a b : name), a ++ s_list <> b ++ s_map.
Proof.
  intros a b H.
  change s_list with (removelast s_list ++ [last s_list x00]) in H.
  change s_map with (removelast s_map ++ [last s_map x00]) in H.
  rewrite !app_assoc in H. apply app_inj_tail in H. destruct H as [_ H]. vm_compute in H. discriminate.
Qed.

Lemma container_inj : forall g n g0 n0 s, n < dec_bound -> n0 < dec_bound ->
  (us :: g ++ us :: dec n) ++ s = (us :: g0 ++ us :: dec n0) ++ s -> g = g0 /\ n = n0.
Proof.
  intros g n g0 n0 s Hn Hn0 H. apply app_inv_tail in H.
  simpl in H. apply cons_inj_tl in H. rename H into H1.
  apply split_last_sep in H1; try apply dec_no_us. destruct H1 as [E1 E2]. split; auto. apply dec_inj; auto.
Qed.

Lemma ident_of_inj : forall k1 k2, key_ok k1 -> key_ok k2 -> ident_of k1 = ident_of k2 -> k1 = k2.
Proof.
  intros k1 k2 [G1 O1] [G2 O2] H.
  destruct k1 as [g|g|g|g|g n|g n|g f]; destruct k2 as [g0|g0|g0|g0|g0 n0|g0 n0|g0 f0];
    simpl in G1, G2, O1, O2; unfold ident_of in H;
    try (exfalso; unfold md_ident, fd_ident, fast_ident, msgtype_ident, msgtype_var, list_ident, map_ident, s_md, s_fd, s_fast in H;
         simpl in H; discriminate H).
  - unfold md_ident in H. apply app_inv_head in H. subst. reflexivity.
  - unfold fast_ident in H. apply app_inv_head in H. subst. reflexivity.
  - exfalso. exact (fast_msgtype_ne _ _ G1 H).
  - exfalso. symmetry in H. exact (fast_msgtype_ne _ _ G2 H).
  - unfold msgtype_ident in H. apply app_inv_tail in H. apply app_inv_head in H. subst. reflexivity.
  - unfold msgtype_var, msgtype_ident in H. apply cons_inj_tl in H. rename H into H1.
    apply app_inv_tail in H1. apply app_inv_head in H1. subst. reflexivity.
  - exfalso. exact (msgtypevar_container_ne _ _ _ _ G2 H).
  - exfalso. exact (msgtypevar_container_ne _ _ _ _ G2 H).
  - exfalso. symmetry in H. exact (msgtypevar_container_ne _ _ _ _ G1 H).
  - unfold list_ident in H. destruct (container_inj _ _ _ _ _ O1 O2 H). subst. reflexivity.
  - exfalso. exact (list_map_suffix_ne _ _ H).
  - exfalso. symmetry in H. exact (msgtypevar_container_ne _ _ _ _ G1 H).
  - exfalso. symmetry in H. exact (list_map_suffix_ne _ _ H).
  - unfold map_ident in H. destruct (container_inj _ _ _ _ _ O1 O2 H). subst. reflexivity.
  - unfold fd_ident in H. apply app_inv_head in H. apply split_last_sep in H; auto. destruct H. subst. reflexivity.
Qed.

(* ---- the keys of a well-formed file are distinct and ok ------------------------------------------ *)
Definition kind (k : key) : nat :=
  match k with KMd _ => 0 | KFast _ => 1 | KMsgType _ => 2 | KMsgTypeVar _ => 3 | KList _ _ | KMap _ _ => 4 | KFd _ _ => 5 end%nat.

Lemma container_in : forall g fs k, In k (flat_map (container_keys g) fs) ->
  exists f, In f fs /\ (k = KList g (f_num f) \/ k = KMap g (f_num f)).
Proof.
  induction fs as [|f t IH]; simpl; intros k H. contradiction.
  apply in_app_or in H. destruct H as [H|H].
  - exists f. split; auto. unfold container_keys in H. destruct (f_shape f); simpl in H; intuition.
  - destruct (IH k H) as [f' [Hin Hk]]. exists f'. auto.
Qed.

Lemma container_nodup : forall g fs, NoDup (map f_num fs) -> NoDup (flat_map (container_keys g) fs).
Proof.
  induction fs as [|f t IH]; simpl; intros H. constructor.
  inversion H as [|? ? Hnot Hnd]; subst. apply nodup_app; auto.
  - unfold container_keys. destruct (f_shape f); repeat constructor; simpl; auto.
  - intros k Hk Hin. destruct (container_in _ _ _ Hin) as [f' [Hf' Hk']].
    assert (f_num f' = f_num f).
    { unfold container_keys in Hk. destruct (f_shape f); simpl in Hk; try contradiction; destruct Hk as [Hk|Hk]; try contradiction; subst k; destruct Hk' as [E|E]; inversion E; auto. }
    apply Hnot. rewrite <- H0. apply in_map. exact Hf'.
Qed.

Lemma msg_keys_nodup : forall m, msg_wf m = true -> NoDup (msg_keys m).
Proof.
  intros m H. unfold msg_wf in H. repeat (apply andb_true_iff in H; destruct H as [H ?]).
  apply nodupb_NoDup in H2. apply nodupN_NoDup in H1.
  unfold msg_keys, msg_keys_nofd, msg_keys_fd. apply nodup_app.
  - apply nodup_app.
    + repeat constructor; simpl; intuition discriminate.
    + apply container_nodup. exact H1.
    + intros k Hk Hin. destruct (container_in _ _ _ Hin) as [f [_ [E|E]]]; subst k; simpl in Hk; intuition discriminate.
  - rewrite <- (map_map f_name (KFd (m_go m))). apply nodup_map_inj_in; auto. intros x y _ _ E. inversion E. reflexivity.
  - intros k Hk Hin. apply in_map_iff in Hin. destruct Hin as [f [E _]]. subst k.
    apply in_app_or in Hk. destruct Hk as [Hk|Hk].
    + simpl in Hk. intuition discriminate.
    + destruct (container_in _ _ _ Hk) as [f' [_ [E|E]]]; discriminate.
Qed.

Lemma msg_keys_go : forall m k, In k (msg_keys m) -> key_go k = m_go m.
Proof.
  intros m k H. unfold msg_keys, msg_keys_nofd, msg_keys_fd in H. apply in_app_or in H. destruct H as [H|H].
  - apply in_app_or in H. destruct H as [H|H].
    + simpl in H. intuition; subst; reflexivity.
    + destruct (container_in _ _ _ H) as [f [_ [E|E]]]; subst; reflexivity.
  - apply in_map_iff in H. destruct H as [f [E _]]. subst. reflexivity.
Qed.

Lemma keys_nodup : forall ms, names_wf ms = true -> NoDup (flat_map msg_keys ms).
Proof.
  intros ms H. unfold names_wf in H. apply andb_true_iff in H. destruct H as [Hwf Hnd].
  apply nodupb_NoDup in Hnd. rewrite forallb_forall in Hwf.
  induction ms as [|m t IH]; cbn [flat_map]. constructor.
  cbn [map] in Hnd. inversion Hnd as [|? ? Hnot Hnd']; subst. apply nodup_app.
  - apply msg_keys_nodup. apply Hwf. simpl. auto.
  - apply IH; auto. intros x Hx. apply Hwf. simpl. auto.
  - intros k Hk Hin. apply in_flat_map in Hin. destruct Hin as [m' [Hm' Hk']].
    apply msg_keys_go in Hk. apply msg_keys_go in Hk'. apply Hnot. rewrite <- Hk, Hk'. apply in_map. exact Hm'.
Qed.

Lemma nodup_app_l : forall (A : Type) (a b : list A), NoDup (a ++ b) -> NoDup a.
Proof.
  induction a as [|x a IH]; intros b H. constructor.
  simpl in H. inversion H; subst. constructor.
  - intros Hin. apply H2. apply in_or_app. auto.
  - apply (IH b). exact H3.
Qed.
Lemma nodup_app_r : forall (A : Type) (a b : list A), NoDup (a ++ b) -> NoDup b.
Proof. induction a as [|x a IH]; intros b H; auto. simpl in H. inversion H; subst. auto. Qed.
Lemma nodup_app_disj : forall (A : Type) (a b : list A) x, NoDup (a ++ b) -> In x a -> In x b -> False.
Proof.
  induction a as [|y a IH]; intros b x H Ha Hb. contradiction.
  simpl in H. inversion H; subst. destruct Ha as [E|Ha].
  - subst. apply H2. apply in_or_app. auto.
  - exact (IH b x H3 Ha Hb).
Qed.

Lemma sublist_nodup_keys : forall ms, NoDup (flat_map msg_keys ms) -> NoDup (flat_map msg_keys_nofd ms).
Proof.
  induction ms as [|m t IH]; cbn [flat_map]; intros H. constructor.
  unfold msg_keys at 1 in H. apply nodup_app.
  - apply nodup_app_l in H. apply nodup_app_l in H. exact H.
  - apply IH. apply nodup_app_r in H. exact H.
  - intros k Hk Hin. apply in_flat_map in Hin. destruct Hin as [m' [Hm' Hk']].
    apply (nodup_app_disj _ _ _ k H).
    + apply in_or_app. auto.
    + apply in_flat_map. exists m'. split; auto. unfold msg_keys. apply in_or_app. auto.
Qed.

Lemma keys_ok : forall ms, names_wf ms = true -> forall k, In k (flat_map msg_keys ms) ->
  go_ok (key_go k) = true /\ match k with KList _ n | KMap _ n => n < dec_bound | _ => True end.
Proof.
  intros ms H k Hin. unfold names_wf in H. apply andb_true_iff in H. destruct H as [Hwf _].
  rewrite forallb_forall in Hwf. apply in_flat_map in Hin. destruct Hin as [m [Hm Hk]].
  pose proof (Hwf m Hm) as W. unfold msg_wf in W. repeat (apply andb_true_iff in W; destruct W as [W ?]).
  split. rewrite (msg_keys_go _ _ Hk). exact W.
  rewrite forallb_forall in H. unfold msg_keys, msg_keys_nofd, msg_keys_fd in Hk.
  apply in_app_or in Hk. destruct Hk as [Hk|Hk].
  - apply in_app_or in Hk. destruct Hk as [Hk|Hk].
    + simpl in Hk. intuition; subst; exact I.
    + destruct (container_in _ _ _ Hk) as [f [Hf [E|E]]]; subst; apply N.ltb_lt; apply H; auto.
  - apply in_map_iff in Hk. destruct Hk as [f [E _]]. subst. exact I.
Qed.

Lemma fd_keys_safe : forall ms, fd_safe ms = true -> forall g f, In (KFd g f) (flat_map msg_keys ms) -> ~ In us f.
Proof.
  intros ms H g f Hin. unfold fd_safe in H. rewrite forallb_forall in H.
  apply in_flat_map in Hin. destruct Hin as [m [Hm Hk]]. specialize (H m Hm). rewrite forallb_forall in H.
  unfold msg_keys, msg_keys_nofd, msg_keys_fd in Hk. apply in_app_or in Hk. destruct Hk as [Hk|Hk].
  - apply in_app_or in Hk. destruct Hk as [Hk|Hk].
    + simpl in Hk. intuition discriminate.
    + destruct (container_in _ _ _ Hk) as [f' [_ [E|E]]]; discriminate.
  - apply in_map_iff in Hk. destruct Hk as [f' [E Hf']]. inversion E; subst.
    specialize (H f' Hf'). apply negb_true_iff in H. intros Hin.
    assert (existsb is_us (f_name f') = true).
    { apply existsb_exists. exists us. split; auto. }
    rewrite H0 in H. discriminate.
Qed.

Lemma nofd_keys_in : forall ms k, In k (flat_map msg_keys_nofd ms) -> In k (flat_map msg_keys ms) /\ kind k <> 5%nat.
Proof.
  intros ms k H. apply in_flat_map in H. destruct H as [m [Hm Hk]]. split.
  - apply in_flat_map. exists m. split; auto. unfold msg_keys. apply in_or_app. auto.
  - unfold msg_keys_nofd in Hk. apply in_app_or in Hk. destruct Hk as [Hk|Hk].
    + simpl in Hk. intuition; subst; simpl; discriminate.
    + destruct (container_in _ _ _ Hk) as [f [_ [E|E]]]; subst; simpl; discriminate.
Qed.

Lemma NoDup_nodupb : forall l, NoDup l -> nodupb l = true.
Proof.
  induction l; simpl; intros H; auto. inversion H; subst. rewrite IHl; auto.
  destruct (existsb (name_eqb a) l) eqn:E; auto. apply existsb_name_In in E. contradiction.
Qed.

(* the package-level identifiers derived for a file whose names come from protoc + protogen are pairwise distinct
   when no proto field name contains an underscore ... *)
Lemma derived_idents_distinct : forall ms, names_wf ms = true -> fd_safe ms = true -> NoDup (derived_idents ms).
Proof.
  intros ms W S. unfold derived_idents. apply nodup_map_inj_in. 2: apply keys_nodup; exact W.
  intros x y Hx Hy E. apply ident_of_inj; auto.
  - destruct (keys_ok ms W x Hx) as [G O]. split; auto. destruct x; auto. exact (fd_keys_safe ms S _ _ Hx).
  - destruct (keys_ok ms W y Hy) as [G O]. split; auto. destruct y; auto. exact (fd_keys_safe ms S _ _ Hy).
Qed.

(* ... all of them but the fd_ variables are distinct unconditionally ... *)
Lemma derived_idents_nofd_distinct : forall ms, names_wf ms = true -> NoDup (derived_idents_nofd ms).
Proof.
  intros ms W. unfold derived_idents_nofd. apply nodup_map_inj_in. 2: apply sublist_nodup_keys; apply keys_nodup; exact W.
  intros x y Hx Hy E. destruct (nofd_keys_in _ _ Hx) as [Hx' Kx]. destruct (nofd_keys_in _ _ Hy) as [Hy' Ky].
  apply ident_of_inj; auto.
  - destruct (keys_ok ms W x Hx') as [G O]. split; auto. destruct x; auto; simpl in Kx; congruence.
  - destruct (keys_ok ms W y Hy') as [G O]. split; auto. destruct y; auto; simpl in Ky; congruence.
Qed.

(* ... and the fd_ variables are NOT in general (D9) *)
Lemma fd_ident_collision : names_wf d9_schema = true /\ ~ NoDup (derived_idents d9_schema).
Proof.
  split. vm_compute. reflexivity.
  intros H. apply NoDup_nodupb in H. vm_compute in H. discriminate.
Qed.

(* derived identifiers never collide with what protoc-gen-go declares at package level: those are exported (upper-case
   first letter) or start with file_ / is / xxx_ / Default_ / E_ *)
Definition first2 (n : name) : name := firstn 2 n.
Local Open Scope byte_scope.
Definition derived_prefixes : list name := [ ["m"; "d"]; ["f"; "d"]; ["f"; "a"] ].
Local Close Scope byte_scope.
Lemma derived_ident_prefix : forall k, In (first2 (ident_of k)) derived_prefixes \/ hd x00 (ident_of k) = us.
Proof. destruct k; simpl; auto 6. Qed.
