(* Proofs/TimePbOverflow.v — C17: overflow of the seconds sum always panics (slow case analysis) *)
From Coq Require Import Lia ZifyN ZifyNat ZifyBool PreOmega.
Ltac Zify.zify_post_hook ::= Z.div_mod_to_equations.
From CP Require Import Bytes BytesLemmas TimePb TimePbProofs.
Local Open Scope Z_scope.

(* overflow: whenever the true seconds sum (with the nanos carry) leaves int64, TsAdd panics.
   Stated for arbitrary int64 seconds and nanos whose sum does not itself wrap int32. *)
Definition carry (n : Z) : Z := if second <=? n then 1 else if n <? 0 then -1 else 0.

Lemma Add_overflow_panics t d :
  int64 (secs t) -> int64 (secs d) ->
  0 <= nanos t < second -> - second < nanos d < second ->
  (0 < secs d -> 0 <= nanos d) -> (secs d < 0 -> nanos d <= 0) ->
  ~ int64 (secs t + secs d + carry (nanos t + nanos d)) ->
  TsAdd t d = Panic.
Proof.
  unfold int64, carry, second. intros Hts Hds Htn Hdn Hpos Hneg Hov.
  unfold TsAdd.
  destruct ((secs d =? 0) && (nanos d =? 0))%bool eqn:Ez.
  { apply andb_true_iff in Ez. destruct Ez as [E1 E2]. apply Z.eqb_eq in E1. apply Z.eqb_eq in E2.
    exfalso. apply Hov. rewrite E1, E2, !Z.add_0_r.
    destruct (Z.leb_spec 1000000000 (nanos t)); [lia|].
    destruct (Z.ltb_spec (nanos t) 0); unfold two63 in *; cbn [Z.of_N] in *; lia. }
  rewrite (wrap32_id (nanos t + nanos d)) by lia. unfold second.
  set (n := nanos t + nanos d) in *.
  pose proof (wrap64_arith (secs t + secs d)) as W1.
  set (s := wrap64 (secs t + secs d)) in *.
  unfold overflowPanic, DurationIsNegative, TsCompare.
  destruct (Z.leb_spec 1000000000 n) as [Hc|Hc]; [|destruct (Z.ltb_spec n 0) as [Hb|Hb]]; cbn [secs nanos].
  - pose proof (wrap64_arith (s + 1)) as W2. rewrite (wrap32_id (n - 1000000000)) by (unfold n; lia).
    set (s2 := wrap64 (s + 1)) in *. unfold two63, two64 in *. cbn [Z.of_N] in *.
    destruct (Z.ltb_spec (secs d) 0); destruct (Z.eqb_spec (secs d) 0); destruct (Z.ltb_spec (nanos d) 0); cbn [orb andb];
    destruct (Z.eqb_spec (secs t) s2); destruct (Z.eqb_spec (nanos t) (n - 1000000000));
    destruct (Z.ltb_spec (secs t) s2); destruct (Z.ltb_spec (nanos t) (n - 1000000000)); cbn [orb andb]; try reflexivity; exfalso; unfold n in *; lia.
  - pose proof (wrap64_arith (s - 1)) as W2. rewrite (wrap32_id (n + 1000000000)) by (unfold n; lia).
    set (s2 := wrap64 (s - 1)) in *. unfold two63, two64 in *. cbn [Z.of_N] in *.
    destruct (Z.ltb_spec (secs d) 0); destruct (Z.eqb_spec (secs d) 0); destruct (Z.ltb_spec (nanos d) 0); cbn [orb andb];
    destruct (Z.eqb_spec (secs t) s2); destruct (Z.eqb_spec (nanos t) (n + 1000000000));
    destruct (Z.ltb_spec (secs t) s2); destruct (Z.ltb_spec (nanos t) (n + 1000000000)); cbn [orb andb]; try reflexivity; exfalso; unfold n in *; lia.
  - unfold two63, two64 in *. cbn [Z.of_N] in *.
    destruct (Z.ltb_spec (secs d) 0); destruct (Z.eqb_spec (secs d) 0); destruct (Z.ltb_spec (nanos d) 0); cbn [orb andb];
    destruct (Z.eqb_spec (secs t) s); destruct (Z.eqb_spec (nanos t) n);
    destruct (Z.ltb_spec (secs t) s); destruct (Z.ltb_spec (nanos t) n); cbn [orb andb]; try reflexivity; exfalso; unfold n in *; lia.
Qed.

