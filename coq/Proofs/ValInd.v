(* Proofs/ValInd.v — induction principle for the nested inductive [val]. *)
From CP Require Import Schema.

Section ValInd.
  Variable P : val -> Prop.
  Hypothesis HInt : forall z, P (VInt z).
  Hypothesis HBool : forall b, P (VBool b).
  Hypothesis HBits : forall n, P (VBits n).
  Hypothesis HBytes : forall l, P (VBytes l).
  Hypothesis HNil : P VNil.
  Hypothesis HSome : forall v, P v -> P (VSome v).
  Hypothesis HMsg : forall slots unk, Forall P slots -> P (VMsg slots unk).
  Hypothesis HList : forall l, Forall P l -> P (VList l).
  Hypothesis HMap : forall kvs, Forall (fun kv => P (fst kv) /\ P (snd kv)) kvs -> P (VMap kvs).

  Fixpoint val_ind' (v : val) : P v :=
    match v with
    | VInt z => HInt z
    | VBool b => HBool b
    | VBits n => HBits n
    | VBytes l => HBytes l
    | VNil => HNil
    | VSome p => HSome p (val_ind' p)
    | VMsg slots unk =>
      HMsg slots unk ((fix go (l : list val) : Forall P l :=
                         match l with
                         | [] => Forall_nil _
                         | x :: t => Forall_cons x (val_ind' x) (go t)
                         end) slots)
    | VList l =>
      HList l ((fix go (l : list val) : Forall P l :=
                  match l with
                  | [] => Forall_nil _
                  | x :: t => Forall_cons x (val_ind' x) (go t)
                  end) l)
    | VMap kvs =>
      HMap kvs ((fix go (l : list (val * val)) : Forall (fun kv => P (fst kv) /\ P (snd kv)) l :=
                   match l with
                   | [] => Forall_nil _
                   | (k, x) :: t => Forall_cons (k, x) (conj (val_ind' k) (val_ind' x)) (go t)
                   end) kvs)
    end.
End ValInd.
