(* Proofs/ReflectViewProgProofs.v — the canonical list / map wrapper methods (Model/ReflectViewProg.v: canon_list, canon_map)
   executed by the interpreter are Reflect.step, for all schemas, heaps, views and operands. Sibling of ReflectProgProofs.v. *)
From Coq Require Import List Arith NArith ZArith Bool Lia ZifyN ZifyNat ZifyBool.
From CP Require Import Reflect ReflectProg ReflectLaws ReflectProgProofs ReflectViewProg.
Import ListNotations.
Local Open Scope nat_scope.

(* ================================================================== small facts *)
Lemma vunwrap_eqb_refl u : vunwrap_eqb u u = true.
Proof. destruct u; reflexivity. Qed.
Lemma vcast_eqb_refl c : vcast_eqb c c = true.
Proof. destruct c; try reflexivity. apply Nat.eqb_refl. Qed.

Lemma wrap_okb_of t : wrap_okb t (wrap_of t) = true.
Proof. destruct t as [k|m]; [destruct k|]; reflexivity. Qed.
Lemma wrap_okb_range_of t : wrap_okb t (wrap_range_of t) = true.
Proof. destruct t as [k|m]; [destruct k|]; reflexivity. Qed.

Lemma key_conv_canon kk k :
  key_conv kk (unwrap_of (TScalar kk)) (cast_of (TScalar kk)) k =
  if wt_scalar kk k then Some (Some k) else match kk with KString => None | _ => Some None end.
Proof. unfold key_conv. rewrite vunwrap_eqb_refl, vcast_eqb_refl. reflexivity. Qed.

Lemma val_conv_canon t v :
  val_conv t (unwrap_of t) (cast_of t) v =
  match pval_to_elem t v with
  | Some e => Some (Some e)
  | None => match t with TScalar KString => None | _ => Some None end
  end.
Proof. unfold val_conv. rewrite vunwrap_eqb_refl, vcast_eqb_refl. reflexivity. Qed.

Lemma vp_res_rel_refl x : vp_res_rel x x.
Proof.
  unfold vp_res_rel. split; [reflexivity|]. destruct (snd x); try reflexivity. exists []. symmetry. apply app_nil_r.
Qed.
Lemma vp_res_rel_garbage h g : vp_res_rel (h ++ g, PPanic) (h, PPanic).
Proof. unfold vp_res_rel. cbn [fst snd]. split; [reflexivity|]. exists g. reflexivity. Qed.

Lemma liveb_list h t r : view_liveb h (PList t r) = true -> r = RNil \/ exists l, read_list h r = Some l.
Proof.
  destruct r as [o f|v|]; cbn [view_liveb]; [| |auto].
  - destruct (read_list h (RField o f)) as [l|]; [eauto|discriminate].
  - destruct (read_list h (RVar v)) as [l|]; [eauto|discriminate].
Qed.
Lemma liveb_map h kk t r : view_liveb h (PMap kk t r) = true -> r = RNil \/ exists m, read_map h r = Some m.
Proof.
  destruct r as [o f|v|]; cbn [view_liveb]; [| |auto].
  - destruct (read_map h (RField o f)) as [l|]; [eauto|discriminate].
  - destruct (read_map h (RVar v)) as [l|]; [eauto|discriminate].
Qed.
Lemma read_list_not_nil h r l : read_list h r = Some l -> cref_nil r = false.
Proof. destruct r; [reflexivity|reflexivity|discriminate]. Qed.
Lemma read_map_not_nil h r m : read_map h r = Some m -> cref_nil r = false.
Proof. destruct r; [reflexivity|reflexivity|discriminate]. Qed.
Lemma cref_nil_true r : cref_nil r = true -> r = RNil.
Proof. destruct r; try discriminate. reflexivity. Qed.
Lemma isvalid_nil r : match r with RNil => false | _ => true end = negb (cref_nil r).
Proof. destruct r; reflexivity. Qed.

(* ================================================================== IsValid *)
Lemma list_isvalid_prog_correct : list_isvalid_prog_stmt.
Proof.
  intros sch h t r Hwf Hok. unfold vp_agrees, vp_canon_step. cbn [vp_step canon_list vl_isvalid]. unfold run_view.
  cbn [vexec vstep1 step]. rewrite isvalid_nil. apply vp_res_rel_refl.
Qed.
Lemma map_isvalid_prog_correct : map_isvalid_prog_stmt.
Proof.
  intros sch h kk t r Hwf Hok. unfold vp_agrees, vp_canon_step. cbn [vp_step canon_map vm_isvalid]. unfold run_view.
  cbn [vexec vstep1 step]. rewrite isvalid_nil. apply vp_res_rel_refl.
Qed.

(* ================================================================== Len *)
Lemma list_len_prog_correct : list_len_prog_stmt.
Proof.
  intros sch h t r Hwf Hok Hl. unfold vp_agrees, vp_canon_step. cbn [vp_step canon_list vl_len]. unfold run_view.
  cbn [vexec vstep1 step]. destruct (liveb_list _ _ _ Hl) as [->|[l R]].
  - cbn [cref_nil read_list]. apply vp_res_rel_refl.
  - rewrite (read_list_not_nil _ _ _ R). unfold on_list. rewrite R. apply vp_res_rel_refl.
Qed.
Lemma map_len_prog_correct : map_len_prog_stmt.
Proof.
  intros sch h kk t r Hwf Hok Hl. unfold vp_agrees, vp_canon_step. cbn [vp_step canon_map vm_len]. unfold run_view.
  cbn [vexec vstep1 step]. destruct (liveb_map _ _ _ _ Hl) as [->|[m R]].
  - cbn [cref_nil read_map]. apply vp_res_rel_refl.
  - rewrite (read_map_not_nil _ _ _ R). unfold on_map. rewrite R. apply vp_res_rel_refl.
Qed.

(* ================================================================== List.Get *)
Lemma list_get_prog_correct : list_get_prog_stmt.
Proof.
  intros sch h t r i Hwf Hok. unfold vp_agrees, vp_canon_step. cbn [vp_step canon_list vl_get]. unfold run_view.
  cbn [vexec vstep1 step a_int]. rewrite wrap_okb_of. unfold on_list, vpanic.
  destruct (read_list h r) as [l|]; [|apply vp_res_rel_refl].
  destruct (in_bounds i (olen l)); apply vp_res_rel_refl.
Qed.

(* ================================================================== NewElement / NewValue *)
Lemma run_newzero sch rk t r h :
  run_view sch rk t r VTValue vargs0 (canon_newzero t) h =
  Some (match t with
        | TScalar k => (h, PScalar (zero_scalar k))
        | TMsg m => let (h', id) := halloc h (HObj (new_obj sch m)) in (h', PMsg m (Some id))
        end).
Proof.
  unfold run_view. destruct t as [k|m].
  - destruct k; reflexivity.
  - reflexivity.
Qed.

Lemma list_newelement_prog_correct : list_newelement_prog_stmt.
Proof.
  intros sch h t r Hwf Hok. unfold vp_agrees, vp_canon_step. cbn [vp_step canon_list vl_newelem].
  rewrite run_newzero. cbn [step]. apply vp_res_rel_refl.
Qed.
Lemma map_newvalue_prog_correct : map_newvalue_prog_stmt.
Proof.
  intros sch h kk t r Hwf Hok. unfold vp_agrees, vp_canon_step. cbn [vp_step canon_map vm_newvalue].
  rewrite run_newzero. cbn [step]. apply vp_res_rel_refl.
Qed.

(* ================================================================== Map.Has / Get / Clear *)
Lemma str_key_not_wt kk k : wt_scalar kk k = false -> str_key_okb kk k = true ->
  match kk with KString => @None (option val) | _ => Some None end = Some None.
Proof. unfold str_key_okb. destruct kk; try reflexivity. congruence. Qed.

(* what the hypothesis of Has / Get / Clear gives for a view that is not the nil view *)
Lemma key_op_ok h kk r k : cref_nil r = false ->
  (if wt_scalar kk k then view_liveb h (PMap kk (TScalar KBool) r) else str_key_okb kk k) = true ->
  (wt_scalar kk k = true /\ exists m, read_map h r = Some m) \/ (wt_scalar kk k = false /\ str_key_okb kk k = true).
Proof.
  intros N H. destruct (wt_scalar kk k); [left|right; auto].
  split; [reflexivity|]. destruct (liveb_map _ _ _ _ H) as [->|X]; [discriminate|exact X].
Qed.

Lemma map_has_prog_correct : map_has_prog_stmt.
Proof.
  intros sch h kk t r k Hwf Hok Hop. unfold vp_agrees, vp_canon_step. cbn [vp_step canon_map vm_has]. unfold run_view.
  cbn [vp_op_okb] in Hop. cbn [vexec vstep1 step]. destruct (cref_nil r) eqn:N.
  - apply cref_nil_true in N. subst r. apply vp_res_rel_refl.
  - cbn [orb] in Hop. cbn [vexec vstep1 a_key]. rewrite key_conv_canon.
    replace (match r with RNil => (h, PBool false) | _ => if wt_scalar kk k then (h, PBool match read_map h r with Some m => match massoc (olist m) k with Some _ => true | None => false end | None => false end) else (h, PPanic) end)
      with (if wt_scalar kk k then (h, PBool match read_map h r with Some m => match massoc (olist m) k with Some _ => true | None => false end | None => false end) else (h, PPanic))
      by (destruct r; [reflexivity|reflexivity|discriminate]).
    destruct (key_op_ok _ _ _ _ N Hop) as [[W [m R]]|[W S]]; rewrite W.
    + cbn [vexec vstep1 set_key g_key]. unfold on_map. rewrite R. cbn [vexec vstep1 set_look g_look]. apply vp_res_rel_refl.
    + rewrite (str_key_not_wt _ _ W S). apply vp_res_rel_refl.
Qed.

Lemma map_get_prog_correct : map_get_prog_stmt.
Proof.
  intros sch h kk t r k Hwf Hok Hop. unfold vp_agrees, vp_canon_step. cbn [vp_step canon_map vm_get]. unfold run_view.
  cbn [vp_op_okb] in Hop. cbn [vexec vstep1 step]. destruct (cref_nil r) eqn:N.
  - apply cref_nil_true in N. subst r. apply vp_res_rel_refl.
  - cbn [orb] in Hop. cbn [vexec vstep1 a_key]. rewrite key_conv_canon.
    replace (match r with RNil => (h, PInvalid) | _ => if wt_scalar kk k then (h, match read_map h r with Some m => match massoc (olist m) k with Some e => elem_to_pval t e | None => PInvalid end | None => PInvalid end) else (h, PPanic) end)
      with (if wt_scalar kk k then (h, match read_map h r with Some m => match massoc (olist m) k with Some e => elem_to_pval t e | None => PInvalid end | None => PInvalid end) else (h, PPanic))
      by (destruct r; [reflexivity|reflexivity|discriminate]).
    destruct (key_op_ok _ _ _ _ N Hop) as [[W [m R]]|[W S]]; rewrite W.
    + cbn [vexec vstep1 set_key g_key]. unfold on_map. rewrite R. cbn [vexec vstep1 set_look g_look].
      destruct (massoc (olist m) k) as [e|]; cbn [vexec vstep1]; [|apply vp_res_rel_refl].
      rewrite wrap_okb_of. apply vp_res_rel_refl.
    + rewrite (str_key_not_wt _ _ W S). apply vp_res_rel_refl.
Qed.

Lemma map_clear_prog_correct : map_clear_prog_stmt.
Proof.
  intros sch h kk t r k Hwf Hok Hop. unfold vp_agrees, vp_canon_step. cbn [vp_step canon_map vm_clear]. unfold run_view.
  cbn [vp_op_okb] in Hop. cbn [vexec vstep1 step]. destruct (cref_nil r) eqn:N.
  - apply cref_nil_true in N. subst r. apply vp_res_rel_refl.
  - cbn [orb] in Hop. cbn [vexec vstep1 a_key]. rewrite key_conv_canon.
    replace (match r with RNil => (h, PUnit) | _ => if wt_scalar kk k then match read_map h r with Some (Some m) => (write_map h r (Some (mdel m k)), PUnit) | _ => (h, PUnit) end else (h, PPanic) end)
      with (if wt_scalar kk k then match read_map h r with Some (Some m) => (write_map h r (Some (mdel m k)), PUnit) | _ => (h, PUnit) end else (h, PPanic))
      by (destruct r; [reflexivity|reflexivity|discriminate]).
    destruct (key_op_ok _ _ _ _ N Hop) as [[W [m R]]|[W S]]; rewrite W.
    + cbn [vexec vstep1 set_key g_key]. unfold on_map. rewrite R. destruct m as [kvs|]; cbn [vexec]; apply vp_res_rel_refl.
    + rewrite (str_key_not_wt _ _ W S). apply vp_res_rel_refl.
Qed.

(* ================================================================== List.Set / Append *)
Lemma str_val_none t v : pval_to_elem t v = None -> str_val_okb t v = true ->
  match t with TScalar KString => @None (option elem) | _ => Some None end = Some None.
Proof.
  intros P S. destruct t as [k|m]; [|reflexivity]. destruct k; try reflexivity. unfold str_val_okb in S. rewrite P in S. discriminate.
Qed.

Lemma list_set_prog_correct : list_set_prog_stmt.
Proof.
  intros sch h t r i v Hwf Hok Hs. unfold vp_agrees, vp_canon_step. cbn [vp_step canon_list vl_set]. unfold run_view.
  cbn [vexec vstep1 step a_value]. rewrite val_conv_canon. destruct (pval_to_elem t v) as [e|] eqn:P.
  - cbn [vexec vstep1 set_val g_val a_int]. unfold on_list, vpanic. destruct (read_list h r) as [l|]; [|apply vp_res_rel_refl].
    destruct (in_bounds i (olen l)); cbn [vexec]; apply vp_res_rel_refl.
  - rewrite (str_val_none _ _ P Hs). unfold vpanic. destruct (read_list h r); apply vp_res_rel_refl.
Qed.

Lemma list_append_prog_correct : list_append_prog_stmt.
Proof.
  intros sch h t r v Hwf Hok Hs. unfold vp_agrees, vp_canon_step. cbn [vp_step canon_list vl_append]. unfold run_view.
  cbn [vexec vstep1 step a_value]. rewrite val_conv_canon. destruct (pval_to_elem t v) as [e|] eqn:P.
  - cbn [vexec vstep1 set_val g_val]. unfold on_list, vpanic. destruct (read_list h r) as [l|]; cbn [vexec]; apply vp_res_rel_refl.
  - rewrite (str_val_none _ _ P Hs). unfold vpanic. destruct (read_list h r); apply vp_res_rel_refl.
Qed.

(* ================================================================== List.Truncate *)
Lemma set_nth_twice {A} (l : list A) : forall i x y, set_nth (set_nth l i x) i y = set_nth l i y.
Proof. induction l as [|a l IH]; intros [|i] x y; cbn [set_nth]; try reflexivity. rewrite IH. reflexivity. Qed.

Lemma firstn_set_nth {A} (l : list A) : forall i x, firstn i (set_nth l i x) = firstn i l.
Proof. induction l as [|a l IH]; intros [|i] x; cbn [set_nth firstn]; try reflexivity. rewrite IH. reflexivity. Qed.

Lemma firstn_of_S {A} (l l' : list A) i : firstn (S i) l = firstn (S i) l' -> firstn i l = firstn i l'.
Proof.
  intro H. assert (X : forall m : list A, firstn i m = firstn i (firstn (S i) m)).
  { intro m. rewrite firstn_firstn. rewrite Nat.min_l by lia. reflexivity. }
  rewrite (X l), (X l'), H. reflexivity.
Qed.

Lemma hset_twice h id x y : hset (hset h id x) id y = hset h id y.
Proof. unfold hset. apply set_nth_twice. Qed.

Lemma write_write_list h r l a b : read_list h r = Some l -> write_list (write_list h r a) r b = write_list h r b.
Proof.
  destruct r as [o f|v|]; cbn [read_list write_list]; [| |reflexivity].
  - destruct (get_obj h o) as [ob|] eqn:G; [|discriminate]. intros _.
    rewrite get_obj_hset_eq by (eapply get_obj_lt; eauto). rewrite hset_twice. unfold set_cell. cbn [o_mid o_cells o_oneofs o_unk].
    rewrite set_nth_twice. reflexivity.
  - intros _. apply hset_twice.
Qed.
Lemma write_write_map h r l a b : read_map h r = Some l -> write_map (write_map h r a) r b = write_map h r b.
Proof.
  destruct r as [o f|v|]; cbn [read_map write_map]; [| |reflexivity].
  - destruct (get_obj h o) as [ob|] eqn:G; [|discriminate]. intros _.
    rewrite get_obj_hset_eq by (eapply get_obj_lt; eauto). rewrite hset_twice. unfold set_cell. cbn [o_mid o_cells o_oneofs o_unk].
    rewrite set_nth_twice. reflexivity.
  - intros _. apply hset_twice.
Qed.

(* the zeroing loop of Truncate on a non-nil slice, from an index i >= 0: it ends, keeps the length and the first i elements,
   and what it wrote is overwritten by the next write of the slice *)
Lemma zero_loop_some : forall fuel h r x i, read_list h r = Some (Some x) -> (0 <= i)%Z -> length x - Z.to_nat i < fuel ->
  exists h' x', zero_loop fuel h r i = Some (Some h') /\ read_list h' r = Some (Some x') /\ length x' = length x /\
                firstn (Z.to_nat i) x' = firstn (Z.to_nat i) x /\ (forall b, write_list h' r b = write_list h r b) /\
                ((Z.of_nat (length x) <= i)%Z -> h' = h).
Proof.
  induction fuel as [|fu IH]; intros h r x i R I F; [lia|].
  cbn [zero_loop]. rewrite R. cbn [olen olist]. destruct (i <? Z.of_nat (length x))%Z eqn:E.
  - assert (I' : (0 <=? i)%Z = true) by lia. rewrite I'.
    set (x1 := set_nth x (Z.to_nat i) (EPtr None)). set (h1 := write_list h r (Some x1)).
    assert (R1 : read_list h1 r = Some (Some x1)) by (eapply read_write_list; eauto).
    assert (L1 : length x1 = length x) by apply set_nth_length.
    destruct (IH h1 r x1 (i + 1)%Z R1) as [h' [x' [Z1 [Z2 [Z3 [Z4 [Z5 _]]]]]]]; [lia|lia|].
    exists h', x'. split; [exact Z1|]. split; [exact Z2|]. split; [congruence|]. split; [|split; [|lia]].
    + replace (Z.to_nat (i + 1)) with (S (Z.to_nat i)) in Z4 by lia. apply firstn_of_S in Z4. rewrite Z4. apply firstn_set_nth.
    + intro b. rewrite Z5. unfold h1. eapply write_write_list; eauto.
  - exists h, x. repeat split; auto.
Qed.

Lemma list_truncate_prog_correct : list_truncate_prog_stmt.
Proof.
  intros sch h t r n Hwf Hok. unfold vp_agrees, vp_canon_step. cbn [vp_step canon_list vl_truncate]. unfold run_view.
  cbn [step]. destruct t as [k|m]; cbn [app].
  - cbn [vexec vstep1 a_int]. unfold on_list, vpanic. destruct (read_list h r) as [l|]; [|apply vp_res_rel_refl].
    destruct ((0 <=? n) && (n <=? Z.of_nat (olen l)))%Z; cbn [vexec]; apply vp_res_rel_refl.
  - cbn [vexec vstep1 a_int]. destruct (read_list h r) as [l|] eqn:R.
    2:{ cbn [zero_loop]. rewrite R. apply vp_res_rel_refl. }
    destruct l as [x|].
    + destruct (0 <=? n)%Z eqn:N0.
      * destruct (zero_loop_some (S (olen (Some x))) h r x n R) as [h' [x' [Z1 [Z2 [Z3 [Z4 [Z5 Z6]]]]]]]; [lia|cbn [olen]; lia|].
        rewrite Z1. cbn [vexec vstep1 a_int]. unfold on_list, vpanic. rewrite Z2. cbn [olen andb]. rewrite Z3.
        destruct (n <=? Z.of_nat (length x))%Z eqn:N1; cbn [vexec].
        -- rewrite Z5, Z4. apply vp_res_rel_refl.
        -- rewrite Z6 by lia. apply vp_res_rel_refl.
      * cbn [zero_loop]. rewrite R. cbn [olen andb].
        assert (E : (n <? Z.of_nat (length x))%Z = true) by lia. rewrite E, N0. apply vp_res_rel_refl.
    + cbn [olen zero_loop]. rewrite R. cbn [olen]. change (Z.of_nat 0) with 0%Z. destruct (n <? 0)%Z eqn:E.
      * assert (N0 : (0 <=? n)%Z = false) by lia. rewrite N0. cbn [andb]. apply vp_res_rel_refl.
      * assert (N0 : (0 <=? n)%Z = true) by lia. rewrite N0. cbn [vexec vstep1 a_int andb]. unfold on_list, vpanic. rewrite R. cbn [olen].
        change (Z.of_nat 0) with 0%Z. destruct (n <=? 0)%Z; cbn [vexec]; apply vp_res_rel_refl.
Qed.

(* ================================================================== Map.Set *)
Definition is_invalid (v : pval) : bool := match v with PInvalid => true | _ => false end.

Lemma step_mset_badval sch h kk t r k v : pval_to_elem t v = None -> step sch h (OMSet (PMap kk t r) k v) = (h, PPanic).
Proof. intro P. cbn [step]. rewrite P. destruct (read_map h r) as [[m|]|]; reflexivity. Qed.
Lemma step_mset_badkey sch h kk t r k v : wt_scalar kk k = false -> step sch h (OMSet (PMap kk t r) k v) = (h, PPanic).
Proof. intro W. cbn [step]. rewrite W. destruct (read_map h r) as [[m|]|]; destruct (pval_to_elem t v); reflexivity. Qed.
Lemma pte_invalid t : pval_to_elem t PInvalid = None.
Proof. destruct t; reflexivity. Qed.

Lemma map_set_prog_correct : map_set_prog_stmt.
Proof.
  intros sch h kk t r k v Hwf Hok Hop. unfold vp_agrees, vp_canon_step. cbn [vp_step canon_map vm_set]. unfold run_view.
  cbn [vp_op_okb] in Hop. cbn [vexec vstep1 a_key a_value].
  destruct (is_invalid v) eqn:I.
  - destruct v; try discriminate. unfold vpanic. rewrite (step_mset_badval _ _ _ _ _ _ _ (pte_invalid t)). apply vp_res_rel_refl.
  - assert (Hop' : str_key_okb kk k && (negb (wt_scalar kk k) || str_val_okb t v) = true) by (destruct v; try exact Hop; discriminate).
    apply andb_prop in Hop'. destruct Hop' as [Sk Sv].
    replace (match v with PInvalid => vpanic h | _ => VONext h vregs0 end) with (VONext h vregs0) by (destruct v; try reflexivity; discriminate).
    cbn [vexec vstep1 a_key]. rewrite key_conv_canon. destruct (wt_scalar kk k) eqn:W.
    + cbn [negb orb] in Sv. cbn [vexec vstep1 a_value]. rewrite val_conv_canon. destruct (pval_to_elem t v) as [e|] eqn:P.
      * cbn [vexec vstep1 set_val set_key g_key g_val]. unfold on_map, vpanic. cbn [step]. rewrite P, W.
        destruct (read_map h r) as [[kvs|]|]; cbn [vexec]; apply vp_res_rel_refl.
      * rewrite (str_val_none _ _ P Sv). unfold vpanic. rewrite (step_mset_badval _ _ _ _ _ _ _ P). apply vp_res_rel_refl.
    + rewrite (str_key_not_wt _ _ W Sk). unfold vpanic. rewrite (step_mset_badkey _ _ _ _ _ _ _ W). apply vp_res_rel_refl.
Qed.

(* ================================================================== List.AppendMutable *)
(* Without the liveness hypothesis [list_appendmutable_prog_stmt] would be FALSE: a dangling view that points one past the end of the heap, at a repeated field of
   the message type being allocated, comes alive when `v := new(T)` is executed before `*x.list` is read. Counterexample
   (one message type 0 with field 0 = repeated message 0, the empty heap, the view RField 0 0): Reflect.step answers ([], PPanic), the
   interpreter stores the new object in its own field 0 and returns it. *)
Definition am_sch : schema := [ {| m_fields := [ {| f_num := 1%N; f_ty := TMsg 0; f_shape := Rep false |} ]; m_oneofs := 0; m_impl := Pulsar |} ].
Lemma list_appendmutable_prog_counterexample :
  wf am_sch = true /\ rp_heap_okb am_sch [] = true /\ vp_op_okb [] (OLAppendMutable (PList (TMsg 0) (RField 0 0))) = true /\
  ~ vp_agrees am_sch [] (OLAppendMutable (PList (TMsg 0) (RField 0 0))).
Proof.
  split; [vm_compute; reflexivity|]. split; [reflexivity|]. split; [reflexivity|].
  unfold vp_agrees. intros [H _]. vm_compute in H. discriminate.
Qed.

(* true whenever allocating does not revive the view: *)
Lemma list_appendmutable_prog_gen : forall sch h t r, wf sch = true -> rp_heap_okb sch h = true ->
  (forall m, t = TMsg m -> read_list h r = None -> read_list (h ++ [HObj (new_obj sch m)]) r = None) ->
  vp_agrees sch h (OLAppendMutable (PList t r)).
Proof.
  intros sch h t r Hwf Hok Hd. unfold vp_agrees, vp_canon_step. cbn [vp_step canon_list vl_appendmut]. unfold run_view.
  cbn [step]. destruct t as [k|m].
  - cbn [vexec vstep1]. apply vp_res_rel_refl.
  - cbn [vexec vstep1]. unfold halloc. cbn [set_new g_new]. rewrite Nat.eqb_refl. unfold on_list, vpanic.
    destruct (read_list h r) as [l|] eqn:R.
    + rewrite (read_list_app _ _ _ _ R). cbn [vexec vstep1 g_new]. apply vp_res_rel_refl.
    + rewrite (Hd m eq_refl eq_refl). apply vp_res_rel_garbage.
Qed.

(* in particular for every live view (the invariant of the views a history hands out: vp_view_live_kept / vp_result_live) *)
Lemma list_appendmutable_prog_correct : list_appendmutable_prog_stmt.
Proof.
  intros sch h t r Hwf Hok Hl. apply list_appendmutable_prog_gen; [exact Hwf|exact Hok|]. intros m _ R.
  destruct (liveb_list _ _ _ Hl) as [->|[l R']]; [reflexivity|congruence].
Qed.

(* ================================================================== Map.Mutable *)
Lemma map_mutable_prog_correct : map_mutable_prog_stmt.
Proof.
  intros sch h kk t r k Hwf Hok Hop. unfold vp_agrees, vp_canon_step. cbn [vp_step canon_map vm_mutable]. unfold run_view.
  cbn [step]. destruct t as [s|mm].
  - cbn [vexec vstep1]. apply vp_res_rel_refl.
  - cbn [vp_op_okb] in Hop. cbn [vexec vstep1 a_key]. rewrite key_conv_canon. destruct (wt_scalar kk k) eqn:W.
    + cbn [vexec vstep1 set_key g_key]. unfold on_map, vpanic. destruct (read_map h r) as [mp|] eqn:R; [|apply vp_res_rel_refl].
      cbn [vexec vstep1 set_look g_look]. destruct mp as [kvs|]; cbn [olist massoc].
      * destruct (massoc kvs k) as [e|]; [apply vp_res_rel_refl|].
        cbn [vexec vstep1]. unfold halloc. cbn [set_new g_new g_key]. rewrite Nat.eqb_refl. unfold on_map.
        rewrite (read_map_app _ _ _ _ R). cbn [vexec vstep1 g_new]. apply vp_res_rel_refl.
      * cbn [vexec vstep1]. unfold halloc. cbn [set_new g_new g_key]. rewrite Nat.eqb_refl. unfold on_map, vpanic.
        rewrite (read_map_app _ _ _ _ R). apply vp_res_rel_garbage.
    + rewrite (str_key_not_wt _ _ W Hop). unfold vpanic. destruct (read_map h r) as [[kvs|]|]; apply vp_res_rel_refl.
Qed.

(* ================================================================== Map.Range *)
Lemma range_calls_cut f t : forall m,
  range_calls f t m = vp_cut_calls f (map (fun kv => (fst kv, elem_to_pval t (snd kv))) m).
Proof.
  induction m as [|[k e] m IH]; [reflexivity|]. cbn [range_calls map vp_cut_calls fst snd]. rewrite IH. reflexivity.
Qed.
Lemma vp_cut_calls_all l : vp_cut_calls (fun _ _ => true) l = l.
Proof. induction l as [|c l IH]; [reflexivity|]. cbn [vp_cut_calls]. rewrite IH. reflexivity. Qed.

Lemma map_range_stop_prog_correct : map_range_stop_prog_stmt.
Proof.
  intros sch h kk t r f Hwf Hok Hl. unfold run_maprange. cbn [canon_map vm_range]. unfold run_view.
  cbn [vexec vstep1 step]. destruct (liveb_map _ _ _ _ Hl) as [->|[m R]].
  - reflexivity.
  - rewrite (read_map_not_nil _ _ _ R). cbn [vexec vstep1 a_f]. rewrite rctor_eqb_refl, wrap_okb_range_of. cbn [andb].
    unfold on_map. rewrite R. cbn [vexec set_calls g_calls olist app]. rewrite range_calls_cut. reflexivity.
Qed.

Lemma map_range_prog_correct : map_range_prog_stmt.
Proof.
  intros sch h kk t r Hwf Hok Hl. unfold vp_agrees, vp_canon_step. cbn [vp_step].
  pose proof (map_range_stop_prog_correct sch h kk t r (fun _ _ => true) Hwf Hok Hl) as X. unfold run_maprange in X. rewrite X.
  cbn [step]. rewrite vp_cut_calls_all. apply vp_res_rel_refl.
Qed.

(* ================================================================== all at once *)
Lemma vp_agrees_default sch h o : vp_canon_step sch h o = Some (step sch h o) -> vp_agrees sch h o.
Proof. unfold vp_agrees. intros ->. apply vp_res_rel_refl. Qed.


(* true with the view of AppendMutable live (like the view of Len) *)
Lemma view_prog_correct : view_prog_correct_stmt.
Proof.
  intros sch h o Hwf Hok Hop Ham.
  destruct o; try (apply vp_agrees_default; reflexivity);
    destruct r; try (apply vp_agrees_default; reflexivity); cbn [vp_op_okb] in Hop;
    first
      [ apply list_isvalid_prog_correct; assumption
      | apply map_isvalid_prog_correct; assumption
      | apply list_len_prog_correct; assumption
      | apply list_get_prog_correct; assumption
      | apply list_set_prog_correct; assumption
      | apply list_append_prog_correct; assumption
      | apply list_appendmutable_prog_correct; [assumption|assumption|apply Ham; reflexivity]
      | apply list_truncate_prog_correct; assumption
      | apply list_newelement_prog_correct; assumption
      | apply map_len_prog_correct; assumption
      | apply map_range_prog_correct; assumption
      | apply map_has_prog_correct; assumption
      | apply map_clear_prog_correct; assumption
      | apply map_get_prog_correct; assumption
      | apply map_set_prog_correct; assumption
      | apply map_mutable_prog_correct; assumption
      | apply map_newvalue_prog_correct; assumption ].
Qed.

(* ================================================================== the canonical wrapper of a field *)
Lemma canon_view_correct : canon_view_stmt.
Proof. intros sch mid f fd F. unfold canon_view. rewrite F. reflexivity. Qed.

(* ================================================================== liveness of views is kept by every step *)
(* every slice / map a view can point to is still there *)
Definition lext (h h' : heap) : Prop :=
  (forall r l, read_list h r = Some l -> exists l', read_list h' r = Some l') /\
  (forall r m, read_map h r = Some m -> exists m', read_map h' r = Some m').

Lemma lext_refl h : lext h h.
Proof. split; eauto. Qed.
Lemma lext_trans h1 h2 h3 : lext h1 h2 -> lext h2 h3 -> lext h1 h3.
Proof.
  intros [A1 A2] [B1 B2]. split.
  - intros r l R. destruct (A1 _ _ R) as [l' R']. eauto.
  - intros r m R. destruct (A2 _ _ R) as [m' R']. eauto.
Qed.
Lemma lext_app h e : lext h (h ++ [e]).
Proof.
  split.
  - intros r l R. exists l. apply read_list_app. exact R.
  - intros r m R. exists m. apply read_map_app. exact R.
Qed.

Lemma lext_liveb h h' v : lext h h' -> view_liveb h v = true -> view_liveb h' v = true.
Proof.
  intros [A1 A2] L. destruct v; try reflexivity.
  - destruct (liveb_list _ _ _ L) as [->|[l R]]; [reflexivity|]. destruct (A1 _ _ R) as [l' R'].
    destruct r; cbn [view_liveb]; [rewrite R'; reflexivity|rewrite R'; reflexivity|reflexivity].
  - destruct (liveb_map _ _ _ _ L) as [->|[m R]]; [reflexivity|]. destruct (A2 _ _ R) as [m' R'].
    destruct r; cbn [view_liveb]; [rewrite R'; reflexivity|rewrite R'; reflexivity|reflexivity].
Qed.

(* an object replaced by one whose list / map cells are still list / map cells *)
Definition cells_kept (ob ob' : obj) : Prop :=
  (forall f l, nth_error (o_cells ob) f = Some (CList l) -> exists l', nth_error (o_cells ob') f = Some (CList l')) /\
  (forall f m, nth_error (o_cells ob) f = Some (CMap m) -> exists m', nth_error (o_cells ob') f = Some (CMap m')).

Lemma get_obj_hset_neq h id o e : o <> id -> get_obj (hset h id e) o = get_obj h o.
Proof. intro N. unfold get_obj, hget, hset. rewrite nth_error_set_nth_neq by congruence. reflexivity. Qed.
Lemma hget_hset_neq h id v e : v <> id -> hget (hset h id e) v = hget h v.
Proof. intro N. unfold hget, hset. rewrite nth_error_set_nth_neq by congruence. reflexivity. Qed.

Lemma lext_hset_obj h id ob ob' : get_obj h id = Some ob -> cells_kept ob ob' -> lext h (hset h id (HObj ob')).
Proof.
  intros G [K1 K2]. pose proof (get_obj_lt _ _ _ G) as Lt. split.
  - intros [o f|v|] l R; cbn [read_list] in *; [| |discriminate].
    + destruct (Nat.eq_dec o id) as [->|N].
      * rewrite G in R. rewrite get_obj_hset_eq by exact Lt.
        destruct (nth_error (o_cells ob) f) as [[| |l0| |]|] eqn:C; try discriminate.
        destruct (K1 _ _ C) as [l' C']. rewrite C'. eauto.
      * rewrite get_obj_hset_neq by exact N. eauto.
    + destruct (Nat.eq_dec v id) as [->|N].
      * unfold get_obj in G. destruct (hget h id) as [[| |]|]; discriminate.
      * rewrite hget_hset_neq by exact N. eauto.
  - intros [o f|v|] m R; cbn [read_map] in *; [| |discriminate].
    + destruct (Nat.eq_dec o id) as [->|N].
      * rewrite G in R. rewrite get_obj_hset_eq by exact Lt.
        destruct (nth_error (o_cells ob) f) as [[| | |m0|]|] eqn:C; try discriminate.
        destruct (K2 _ _ C) as [m' C']. rewrite C'. eauto.
      * rewrite get_obj_hset_neq by exact N. eauto.
    + destruct (Nat.eq_dec v id) as [->|N].
      * unfold get_obj in G. destruct (hget h id) as [[| |]|]; discriminate.
      * rewrite hget_hset_neq by exact N. eauto.
Qed.

Lemma hget_hset_eq h id e : id < length h -> hget (hset h id e) id = Some e.
Proof. intro L. unfold hget, hset. apply nth_error_set_nth_eq. exact L. Qed.
Lemma hget_lt h id e : hget h id = Some e -> id < length h.
Proof. unfold hget. apply nth_error_Some_lt. Qed.

(* a stand-alone slice / map variable overwritten by a slice / map *)
Lemma lext_hset_var h id e e' : hget h id = Some e ->
  match e, e' with HListVar _, HListVar _ | HMapVar _, HMapVar _ => True | _, _ => False end -> lext h (hset h id e').
Proof.
  intros G K. pose proof (hget_lt _ _ _ G) as Lt. split.
  - intros [o f|v|] l R; cbn [read_list] in *; [| |discriminate].
    + destruct (Nat.eq_dec o id) as [->|N].
      * unfold get_obj in R. rewrite G in R. destruct e as [ob| |]; [|discriminate|discriminate]. destruct e'; destruct K.
      * rewrite get_obj_hset_neq by exact N. eauto.
    + destruct (Nat.eq_dec v id) as [->|N].
      * rewrite hget_hset_eq by exact Lt. rewrite G in R. destruct e as [|l0|]; try discriminate. destruct e' as [|l1|]; try destruct K. eauto.
      * rewrite hget_hset_neq by exact N. eauto.
  - intros [o f|v|] m R; cbn [read_map] in *; [| |discriminate].
    + destruct (Nat.eq_dec o id) as [->|N].
      * unfold get_obj in R. rewrite G in R. destruct e as [ob| |]; [|discriminate|discriminate]. destruct e'; destruct K.
      * rewrite get_obj_hset_neq by exact N. eauto.
    + destruct (Nat.eq_dec v id) as [->|N].
      * rewrite hget_hset_eq by exact Lt. rewrite G in R. destruct e as [| |m0]; try discriminate. destruct e' as [| |m1]; try destruct K. eauto.
      * rewrite hget_hset_neq by exact N. eauto.
Qed.

Lemma cells_kept_refl ob : cells_kept ob ob.
Proof. split; eauto. Qed.

Lemma cells_kept_set_cell ob f c :
  (forall c0, nth_error (o_cells ob) f = Some c0 ->
     match c0 with CList _ => exists l, c = CList l | CMap _ => exists m, c = CMap m | _ => True end) ->
  cells_kept ob (set_cell ob f c).
Proof.
  intro K. unfold set_cell. split; cbn [o_cells]; intros f' x C.
  - destruct (Nat.eq_dec f' f) as [->|N].
    + destruct (K _ C) as [l ->]. rewrite nth_error_set_nth_eq by (eapply nth_error_Some_lt; eauto). eauto.
    + rewrite nth_error_set_nth_neq by congruence. eauto.
  - destruct (Nat.eq_dec f' f) as [->|N].
    + destruct (K _ C) as [l ->]. rewrite nth_error_set_nth_eq by (eapply nth_error_Some_lt; eauto). eauto.
    + rewrite nth_error_set_nth_neq by congruence. eauto.
Qed.

(* the heap a step writes into: the one it was given, or that heap with a freshly allocated entry *)
Definition hbase (h0 h : heap) : Prop := h = h0 \/ exists x, h = h0 ++ [x].
Lemma hbase_refl h : hbase h h.
Proof. left. reflexivity. Qed.
Lemma hbase_app h x : hbase h (h ++ [x]).
Proof. right. eauto. Qed.
Lemma hbase_lext h0 h : hbase h0 h -> lext h0 h.
Proof. intros [->|[x ->]]; [apply lext_refl|apply lext_app]. Qed.
Lemma hbase_get_obj h0 h id ob : hbase h0 h -> get_obj h0 id = Some ob -> get_obj h id = Some ob.
Proof. intros [->|[x ->]] G; [exact G|apply get_obj_app; exact G]. Qed.
Lemma hbase_read_list h0 h r l : hbase h0 h -> read_list h0 r = Some l -> read_list h r = Some l.
Proof. intros [->|[x ->]] G; [exact G|apply read_list_app; exact G]. Qed.
Lemma hbase_read_map h0 h r l : hbase h0 h -> read_map h0 r = Some l -> read_map h r = Some l.
Proof. intros [->|[x ->]] G; [exact G|apply read_map_app; exact G]. Qed.

Lemma lext_write_list h0 h r l0 l : hbase h0 h -> read_list h0 r = Some l0 -> lext h0 (write_list h r l).
Proof.
  intros B R0. apply (lext_trans _ h); [apply hbase_lext; exact B|]. pose proof (hbase_read_list _ _ _ _ B R0) as R.
  destruct r as [o f|v|]; cbn [write_list]; [| |apply lext_refl].
  - destruct (read_list_field _ _ _ _ R) as [ob [G C]]. rewrite G. eapply lext_hset_obj; [exact G|].
    apply cells_kept_set_cell. intros c0 C0. rewrite C in C0. inversion C0; subst. eauto.
  - cbn [read_list] in R. destruct (hget h v) as [[|l1|]|] eqn:G; try discriminate.
    eapply lext_hset_var; [exact G|exact I].
Qed.
Lemma lext_write_map h0 h r m0 m : hbase h0 h -> read_map h0 r = Some m0 -> lext h0 (write_map h r m).
Proof.
  intros B R0. apply (lext_trans _ h); [apply hbase_lext; exact B|]. pose proof (hbase_read_map _ _ _ _ B R0) as R.
  destruct r as [o f|v|]; cbn [write_map]; [| |apply lext_refl].
  - destruct (read_map_field _ _ _ _ R) as [ob [G C]]. rewrite G. eapply lext_hset_obj; [exact G|].
    apply cells_kept_set_cell. intros c0 C0. rewrite C in C0. inversion C0; subst. eauto.
  - cbn [read_map] in R. destruct (hget h v) as [[| |m1]|] eqn:G; try discriminate.
    eapply lext_hset_var; [exact G|exact I].
Qed.

Section LiveKept.
  Variable sch : schema.

  Lemma lext_same h mid id ob : recv_obj sch h mid (Some id) = Some ob -> lext h (hset h id (HObj ob)).
  Proof. intro R. apply recv_obj_inv in R. destruct R as [G _]. rewrite (hset_same _ _ _ G). apply lext_refl. Qed.

  Lemma lext_set_unk h mid id ob u : recv_obj sch h mid (Some id) = Some ob -> lext h (hset h id (HObj (set_unk ob u))).
  Proof. intro R. apply recv_obj_inv in R. destruct R as [G _]. eapply lext_hset_obj; [exact G|]. split; cbn [set_unk o_cells]; eauto. Qed.

  Lemma lext_set_oneof h0 h mid id ob j x : hbase h0 h -> recv_obj sch h0 mid (Some id) = Some ob ->
    lext h0 (hset h id (HObj (set_oneof ob j x))).
  Proof.
    intros B R. apply recv_obj_inv in R. destruct R as [G _]. apply (lext_trans _ h); [apply hbase_lext; exact B|].
    eapply lext_hset_obj; [eapply hbase_get_obj; eauto|]. split; cbn [set_oneof o_cells]; eauto.
  Qed.

  (* a cell overwritten by one that fits the field: the invariant says the old one fits it too *)
  Lemma lext_set_cell h0 h mid id ob f fd c : hbase h0 h -> hokP sch h0 -> recv_obj sch h0 mid (Some id) = Some ob ->
    field_of sch mid f = Some fd -> cell_fitsb fd c = true -> lext h0 (hset h id (HObj (set_cell ob f c))).
  Proof.
    intros B H R F C. apply recv_obj_inv in R. destruct R as [G M]. apply (lext_trans _ h); [apply hbase_lext; exact B|].
    eapply lext_hset_obj; [eapply hbase_get_obj; eauto|]. apply cells_kept_set_cell. intros c0 C0.
    pose proof (H _ _ G) as K. unfold rp_obj_okb in K. unfold field_of in F. rewrite M in K.
    destruct (get_msg sch mid) as [md|]; [|discriminate].
    apply andb_prop in K. destruct K as [K _]. apply andb_prop in K. destruct K as [K _].
    destruct (cells_fitb_nth _ _ _ _ K F) as [c1 [C1 F1]]. rewrite C0 in C1. inversion C1; subst c1.
    unfold cell_fitsb in C, F1. destruct c0; try exact I; destruct (f_shape fd); destruct (f_ty fd); try discriminate; destruct c; try discriminate; eauto.
  Qed.

  Ltac ldm :=
    match goal with
    | |- context [match ?x with _ => _ end] => destruct x eqn:?
    | |- context [if ?x then _ else _] => destruct x eqn:?
    end.

  Ltac lfits :=
    unfold cell_fitsb;
    repeat match goal with
           | H : pval_to_elem (f_ty _) _ = Some (EScalar _) |- _ => destruct (pte_scalar _ _ _ H) as [? ?]; clear H
           | H : pval_to_elem (f_ty _) _ = Some (EPtr _) |- _ => destruct (pte_ptr _ _ _ H) as [? ?]; clear H
           end;
    repeat match goal with
           | H : f_shape _ = _ |- _ => rewrite H
           | H : f_ty _ = _ |- _ => rewrite H
           end;
    try reflexivity.

  Ltac lbase := first [apply hbase_refl | apply hbase_app].

  Ltac lleaf H :=
    cbn [fst];
    first
      [ apply lext_refl
      | apply lext_app
      | eapply lext_same; eassumption
      | eapply lext_set_unk; eassumption
      | eapply lext_set_oneof; [lbase | eassumption]
      | eapply lext_set_cell; [lbase | exact H | eassumption | eassumption | lfits]
      | eapply lext_write_list; [lbase | eassumption]
      | eapply lext_write_map; [lbase | eassumption] ].

  Lemma step_lext : forall h o, hokP sch h -> lext h (fst (step sch h o)).
  Proof.
    intros h o H. destruct o; cbn [step]; unfold halloc; repeat ldm; lleaf H.
  Qed.
End LiveKept.

Lemma vp_view_live_kept : vp_view_live_kept_stmt.
Proof.
  intros sch h o v Hwf Hok Hl. eapply lext_liveb; [|exact Hl]. apply step_lext. apply hokP_of. exact Hok.
Qed.

(* ================================================================== the views an operation returns are live *)
Definition res_live (hr : heap * pval) : Prop :=
  view_liveb (fst hr) (snd hr) = true /\
  match snd hr with PRange l => forallb (fun c => view_liveb (fst hr) (snd c)) l = true | _ => True end.

Lemma res_live_elem h t e : res_live (h, elem_to_pval t e).
Proof. destruct t; destruct e; split; cbn; auto. Qed.
Lemma res_live_zero h t : res_live (h, zero_elem t).
Proof. destruct t; split; cbn; auto. Qed.

Section ResLive.
  Variable sch : schema.

  Lemma own_read_list h mid p ob id f l : recv_obj sch h mid p = Some ob -> p = Some id ->
    nth_error (o_cells ob) f = Some (CList l) -> read_list h (RField id f) = Some l.
  Proof. intros R -> C. apply recv_obj_inv in R. destruct R as [G _]. cbn [read_list]. rewrite G, C. reflexivity. Qed.
  Lemma own_read_map h mid p ob id f m : recv_obj sch h mid p = Some ob -> p = Some id ->
    nth_error (o_cells ob) f = Some (CMap m) -> read_map h (RField id f) = Some m.
  Proof. intros R -> C. apply recv_obj_inv in R. destruct R as [G _]. cbn [read_map]. rewrite G, C. reflexivity. Qed.

  Lemma get_field_live h mid p ob f fd : recv_obj sch h mid p = Some ob -> res_live (h, get_field ob p f fd).
  Proof.
    intro R. unfold get_field. destruct (f_shape fd) eqn:Sh.
    1,2,4: destruct (nth_error (o_cells ob) f) as [[v|q|l|m|]|] eqn:C; try (split; cbn; auto; fail);
      try (destruct (f_ty fd); split; cbn; auto; fail).
    all: try (destruct (Nat.eqb (olen l) 0); [split; cbn; auto|]; destruct p as [id|]; [|split; cbn; auto];
              split; [|exact I]; cbn [fst snd view_liveb]; rewrite (own_read_list _ _ _ _ _ _ _ R eq_refl C); reflexivity).
    all: try (destruct (Nat.eqb (olen m) 0); [split; cbn; auto|]; destruct p as [id|]; [|split; cbn; auto];
              split; [|exact I]; cbn [fst snd view_liveb]; rewrite (own_read_map _ _ _ _ _ _ _ R eq_refl C); reflexivity).
    destruct (nth oneof (o_oneofs ob) None) as [[f' e]|]; [|apply res_live_zero].
    destruct (Nat.eqb f' f); [apply res_live_elem|apply res_live_zero].
  Qed.

  Lemma range_field_live h mid p ob f fd : recv_obj sch h mid p = Some ob -> res_live (h, range_field ob p f fd).
  Proof.
    intro R. unfold range_field. pose proof (get_field_live h mid p ob f fd R) as G.
    destruct (f_shape fd) eqn:Sh; try exact G;
      (destruct (nth_error (o_cells ob) f) as [[v|q|l|m|]|] eqn:C; try exact G; destruct p as [id|]; try exact G;
       first [ split; [|exact I]; cbn [fst snd view_liveb]; rewrite (own_read_list _ _ _ _ _ _ _ R eq_refl C); reflexivity
             | split; [|exact I]; cbn [fst snd view_liveb]; rewrite (own_read_map _ _ _ _ _ _ _ R eq_refl C); reflexivity
             | split; [reflexivity|exact I] ]).
  Qed.

  Lemma range_from_live h mid p ob : recv_obj sch h mid p = Some ob -> forall fs i,
    forallb (fun c => view_liveb h (snd c)) (range_from ob p i fs) = true.
  Proof.
    intro R. induction fs as [|fd fs IH]; intro i; [reflexivity|]. cbn [range_from]. rewrite forallb_app, IH, andb_true_r.
    destruct (has_field ob i fd); [|reflexivity]. cbn [forallb snd]. rewrite andb_true_r.
    exact (proj1 (range_field_live h mid p ob i fd R)).
  Qed.

  Lemma res_live_range h mid p ob fs : recv_obj sch h mid p = Some ob -> res_live (h, PRange (range_from ob p 0 fs)).
  Proof. intro R. split; [reflexivity|]. cbn [fst snd]. apply range_from_live with (mid := mid). exact R. Qed.

  Lemma res_live_newlist h t : res_live (h ++ [HListVar (Some [])], PList t (RVar (length h))).
  Proof.
    split; [|exact I]. cbn [fst snd view_liveb read_list]. unfold hget. rewrite nth_error_app2 by lia. rewrite Nat.sub_diag. reflexivity.
  Qed.
  Lemma res_live_newmap h kk t : res_live (h ++ [HMapVar (Some [])], PMap kk t (RVar (length h))).
  Proof.
    split; [|exact I]. cbn [fst snd view_liveb read_map]. unfold hget. rewrite nth_error_app2 by lia. rewrite Nat.sub_diag. reflexivity.
  Qed.

  (* Mutable of a repeated / map field *)
  Lemma res_live_mut_list_set h mid id ob f t l0 l : recv_obj sch h mid (Some id) = Some ob ->
    nth_error (o_cells ob) f = Some (CList l0) -> res_live (hset h id (HObj (set_cell ob f (CList l))), PList t (RField id f)).
  Proof.
    intros R C. apply recv_obj_inv in R. destruct R as [G _]. split; [|exact I]. cbn [fst snd view_liveb read_list].
    rewrite get_obj_hset_eq by (eapply get_obj_lt; eauto). cbn [set_cell o_cells].
    rewrite nth_error_set_nth_eq by (eapply nth_error_Some_lt; eauto). reflexivity.
  Qed.
  Lemma res_live_mut_map_set h mid id ob f kk t m0 m : recv_obj sch h mid (Some id) = Some ob ->
    nth_error (o_cells ob) f = Some (CMap m0) -> res_live (hset h id (HObj (set_cell ob f (CMap m))), PMap kk t (RField id f)).
  Proof.
    intros R C. apply recv_obj_inv in R. destruct R as [G _]. split; [|exact I]. cbn [fst snd view_liveb read_map].
    rewrite get_obj_hset_eq by (eapply get_obj_lt; eauto). cbn [set_cell o_cells].
    rewrite nth_error_set_nth_eq by (eapply nth_error_Some_lt; eauto). reflexivity.
  Qed.

  Lemma field_cell h mid id ob f fd : hokP sch h -> recv_obj sch h mid (Some id) = Some ob -> field_of sch mid f = Some fd ->
    exists c, nth_error (o_cells ob) f = Some c /\ cell_fitsb fd c = true.
  Proof.
    intros H R F. apply recv_obj_inv in R. destruct R as [G M]. pose proof (H _ _ G) as K. unfold rp_obj_okb in K. unfold field_of in F.
    rewrite M in K. destruct (get_msg sch mid) as [md|]; [|discriminate].
    apply andb_prop in K. destruct K as [K _]. apply andb_prop in K. destruct K as [K _]. eapply cells_fitb_nth; eauto.
  Qed.

  Lemma res_live_mut_list h mid id ob f fd b t : hokP sch h -> recv_obj sch h mid (Some id) = Some ob -> field_of sch mid f = Some fd ->
    f_shape fd = Rep b -> res_live (h, PList t (RField id f)).
  Proof.
    intros H R F Sh. destruct (field_cell _ _ _ _ _ _ H R F) as [c [C Fit]]. unfold cell_fitsb in Fit. rewrite Sh in Fit.
    destruct c; try (destruct (f_ty fd); discriminate). split; [|exact I]. cbn [fst snd view_liveb].
    rewrite (own_read_list _ _ _ _ _ _ _ R eq_refl C). reflexivity.
  Qed.
  Lemma res_live_mut_map h mid id ob f fd kk kk' t : hokP sch h -> recv_obj sch h mid (Some id) = Some ob -> field_of sch mid f = Some fd ->
    f_shape fd = MapOf kk' -> res_live (h, PMap kk t (RField id f)).
  Proof.
    intros H R F Sh. destruct (field_cell _ _ _ _ _ _ H R F) as [c [C Fit]]. unfold cell_fitsb in Fit. rewrite Sh in Fit.
    destruct c; try (destruct (f_ty fd); discriminate). split; [|exact I]. cbn [fst snd view_liveb].
    rewrite (own_read_map _ _ _ _ _ _ _ R eq_refl C). reflexivity.
  Qed.

  Ltac rdm :=
    match goal with
    | |- context [match ?x with _ => _ end] => destruct x eqn:?
    | |- context [if ?x then _ else _] => destruct x eqn:?
    end.

  Ltac rleaf H :=
    first
      [ split; [reflexivity | exact I]
      | apply res_live_elem
      | apply res_live_zero
      | eapply get_field_live; eassumption
      | eapply res_live_range; eassumption
      | apply res_live_newlist
      | apply res_live_newmap
      | eapply res_live_mut_list_set; eassumption
      | eapply res_live_mut_map_set; eassumption
      | eapply res_live_mut_list; [exact H | eassumption | eassumption | eassumption]
      | eapply res_live_mut_map; [exact H | eassumption | eassumption | eassumption] ].

  Lemma step_res_live : forall h o, hokP sch h -> res_live (step sch h o).
  Proof.
    intros h o H. destruct o; cbn [step]; unfold halloc; repeat rdm; rleaf H.
  Qed.
End ResLive.

Lemma vp_result_live : vp_result_live_stmt.
Proof.
  intros sch h o Hwf Hok. pose proof (step_res_live sch h o (hokP_of _ _ Hok)) as X. unfold res_live in X.
  destruct (step sch h o) as [h' res]. exact X.
Qed.
