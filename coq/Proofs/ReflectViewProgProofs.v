(* Proofs/ReflectViewProgProofs.v — the canonical list / map wrapper methods (Model/ReflectViewProg.v: canon_list, canon_map)
   executed by the interpreter are Reflect.step, for all schemas, heaps, views and operands. Sibling of ReflectProgProofs.v. *)
From Coq Require Import List Arith NArith ZArith Bool Lia ZifyN ZifyNat ZifyBool.
From CP Require Import Reflect ReflectProg ReflectLaws ReflectProgProofs ReflectViewProg.
Import ListNotations.
Local Open Scope nat_scope.

(* ================================================================== small facts *)
Lemma vunwrap_eqb_refl u : vunwrap_eqb u u = true.
Proof. destruct u; reflexivity. Qed.
Lemma vcast_eqb_refl c : vcast_eqb c c = true.
Proof. destruct c; try reflexivity. apply Nat.eqb_refl. Qed.

Lemma wrap_okb_of t : wrap_okb t (wrap_of t) = true.
Proof. destruct t as [k|m]; [destruct k|]; reflexivity. Qed.
Lemma wrap_okb_range_of t : wrap_okb t (wrap_range_of t) = true.
Proof. destruct t as [k|m]; [destruct k|]; reflexivity. Qed.

Lemma key_conv_canon kk k :
  key_conv kk (unwrap_of (TScalar kk)) (cast_of (TScalar kk)) k =
  if wt_scalar kk k then Some (Some k) else match kk with KString => None | _ => Some None end.
Proof. unfold key_conv. rewrite vunwrap_eqb_refl, vcast_eqb_refl. reflexivity. Qed.

Lemma val_conv_canon t v :
  val_conv t (unwrap_of t) (cast_of t) v =
  match pval_to_elem t v with
  | Some e => Some (Some e)
  | None => match t with TScalar KString => None | _ => Some None end
  end.
Proof. unfold val_conv. rewrite vunwrap_eqb_refl, vcast_eqb_refl. reflexivity. Qed.

Lemma vp_res_rel_refl x : vp_res_rel x x.
Proof.
  unfold vp_res_rel. split; [reflexivity|]. destruct (snd x); try reflexivity. exists []. symmetry. apply app_nil_r.
Qed.
Lemma vp_res_rel_garbage h g : vp_res_rel (h ++ g, PPanic) (h, PPanic).
Proof. unfold vp_res_rel. cbn [fst snd]. split; [reflexivity|]. exists g. reflexivity. Qed.

Lemma liveb_list h t r : view_liveb h (PList t r) = true -> r = RNil \/ exists l, read_list h r = Some l.
Proof.
  destruct r as [o f|v|]; cbn [view_liveb]; [| |auto].
  - destruct (read_list h (RField o f)) as [l|]; [eauto|discriminate].
  - destruct (read_list h (RVar v)) as [l|]; [eauto|discriminate].
Qed.
Lemma liveb_map h kk t r : view_liveb h (PMap kk t r) = true -> r = RNil \/ exists m, read_map h r = Some m.
Proof.
  destruct r as [o f|v|]; cbn [view_liveb]; [| |auto].
  - destruct (read_map h (RField o f)) as [l|]; [eauto|discriminate].
  - destruct (read_map h (RVar v)) as [l|]; [eauto|discriminate].
Qed.
Lemma read_list_not_nil h r l : read_list h r = Some l -> cref_nil r = false.
Proof. destruct r; [reflexivity|reflexivity|discriminate]. Qed.
Lemma read_map_not_nil h r m : read_map h r = Some m -> cref_nil r = false.
Proof. destruct r; [reflexivity|reflexivity|discriminate]. Qed.
Lemma cref_nil_true r : cref_nil r = true -> r = RNil.
Proof. destruct r; try discriminate. reflexivity. Qed.
Lemma isvalid_nil r : match r with RNil => false | _ => true end = negb (cref_nil r).
Proof. destruct r; reflexivity. Qed.

(* ================================================================== IsValid *)
Lemma list_isvalid_prog_correct : list_isvalid_prog_stmt.
Proof.
  intros sch h t r Hwf Hok. unfold vp_agrees, vp_canon_step. cbn [vp_step canon_list vl_isvalid]. unfold run_view.
  cbn [vexec vstep1 step]. rewrite isvalid_nil. apply vp_res_rel_refl.
Qed.
Lemma map_isvalid_prog_correct : map_isvalid_prog_stmt.
Proof.
  intros sch h kk t r Hwf Hok. unfold vp_agrees, vp_canon_step. cbn [vp_step canon_map vm_isvalid]. unfold run_view.
  cbn [vexec vstep1 step]. rewrite isvalid_nil. apply vp_res_rel_refl.
Qed.

(* ================================================================== Len *)
Lemma list_len_prog_correct : list_len_prog_stmt.
Proof.
  intros sch h t r Hwf Hok Hl. unfold vp_agrees, vp_canon_step. cbn [vp_step canon_list vl_len]. unfold run_view.
  cbn [vexec vstep1 step]. destruct (liveb_list _ _ _ Hl) as [->|[l R]].
  - cbn [cref_nil read_list]. apply vp_res_rel_refl.
  - rewrite (read_list_not_nil _ _ _ R). unfold on_list. rewrite R. apply vp_res_rel_refl.
Qed.
Lemma map_len_prog_correct : map_len_prog_stmt.
Proof.
  intros sch h kk t r Hwf Hok Hl. unfold vp_agrees, vp_canon_step. cbn [vp_step canon_map vm_len]. unfold run_view.
  cbn [vexec vstep1 step]. destruct (liveb_map _ _ _ _ Hl) as [->|[m R]].
  - cbn [cref_nil read_map]. apply vp_res_rel_refl.
  - rewrite (read_map_not_nil _ _ _ R). unfold on_map. rewrite R. apply vp_res_rel_refl.
Qed.

(* ================================================================== List.Get *)
Lemma list_get_prog_correct : list_get_prog_stmt.
Proof.
  intros sch h t r i Hwf Hok. unfold vp_agrees, vp_canon_step. cbn [vp_step canon_list vl_get]. unfold run_view.
  cbn [vexec vstep1 step a_int]. rewrite wrap_okb_of. unfold on_list, vpanic.
  destruct (read_list h r) as [l|]; [|apply vp_res_rel_refl].
  destruct (in_bounds i (olen l)); apply vp_res_rel_refl.
Qed.

(* ================================================================== NewElement / NewValue *)
Lemma run_newzero sch rk t r h :
  run_view sch rk t r VTValue vargs0 (canon_newzero t) h =
  Some (match t with
        | TScalar k => (h, PScalar (zero_scalar k))
        | TMsg m => let (h', id) := halloc h (HObj (new_obj sch m)) in (h', PMsg m (Some id))
        end).
Proof.
  unfold run_view. destruct t as [k|m].
  - destruct k; reflexivity.
  - reflexivity.
Qed.

Lemma list_newelement_prog_correct : list_newelement_prog_stmt.
Proof.
  intros sch h t r Hwf Hok. unfold vp_agrees, vp_canon_step. cbn [vp_step canon_list vl_newelem].
  rewrite run_newzero. cbn [step]. apply vp_res_rel_refl.
Qed.
Lemma map_newvalue_prog_correct : map_newvalue_prog_stmt.
Proof.
  intros sch h kk t r Hwf Hok. unfold vp_agrees, vp_canon_step. cbn [vp_step canon_map vm_newvalue].
  rewrite run_newzero. cbn [step]. apply vp_res_rel_refl.
Qed.

(* ================================================================== Map.Has / Get / Clear *)
Lemma str_key_not_wt kk k : wt_scalar kk k = false -> str_key_okb kk k = true ->
  match kk with KString => @None (option val) | _ => Some None end = Some None.
Proof. unfold str_key_okb. destruct kk; try reflexivity. congruence. Qed.

(* what the hypothesis of Has / Get / Clear gives for a view that is not the nil view *)
Lemma key_op_ok h kk r k : cref_nil r = false ->
  (if wt_scalar kk k then view_liveb h (PMap kk (TScalar KBool) r) else str_key_okb kk k) = true ->
  (wt_scalar kk k = true /\ exists m, read_map h r = Some m) \/ (wt_scalar kk k = false /\ str_key_okb kk k = true).
Proof.
  intros N H. destruct (wt_scalar kk k); [left|right; auto].
  split; [reflexivity|]. destruct (liveb_map _ _ _ _ H) as [->|X]; [discriminate|exact X].
Qed.

Lemma map_has_prog_correct : map_has_prog_stmt.
Proof.
  intros sch h kk t r k Hwf Hok Hop. unfold vp_agrees, vp_canon_step. cbn [vp_step canon_map vm_has]. unfold run_view.
  cbn [vp_op_okb] in Hop. cbn [vexec vstep1 step]. destruct (cref_nil r) eqn:N.
  - apply cref_nil_true in N. subst r. apply vp_res_rel_refl.
  - cbn [orb] in Hop. cbn [vexec vstep1 a_key]. rewrite key_conv_canon.
    replace (match r with RNil => (h, PBool false) | _ => if wt_scalar kk k then (h, PBool match read_map h r with Some m => match massoc (olist m) k with Some _ => true | None => false end | None => false end) else (h, PPanic) end)
      with (if wt_scalar kk k then (h, PBool match read_map h r with Some m => match massoc (olist m) k with Some _ => true | None => false end | None => false end) else (h, PPanic))
      by (destruct r; [reflexivity|reflexivity|discriminate]).
    destruct (key_op_ok _ _ _ _ N Hop) as [[W [m R]]|[W S]]; rewrite W.
    + cbn [vexec vstep1 set_key g_key]. unfold on_map. rewrite R. cbn [vexec vstep1 set_look g_look]. apply vp_res_rel_refl.
    + rewrite (str_key_not_wt _ _ W S). apply vp_res_rel_refl.
Qed.

Lemma map_get_prog_correct : map_get_prog_stmt.
Proof.
  intros sch h kk t r k Hwf Hok Hop. unfold vp_agrees, vp_canon_step. cbn [vp_step canon_map vm_get]. unfold run_view.
  cbn [vp_op_okb] in Hop. cbn [vexec vstep1 step]. destruct (cref_nil r) eqn:N.
  - apply cref_nil_true in N. subst r. apply vp_res_rel_refl.
  - cbn [orb] in Hop. cbn [vexec vstep1 a_key]. rewrite key_conv_canon.
    replace (match r with RNil => (h, PInvalid) | _ => if wt_scalar kk k then (h, match read_map h r with Some m => match massoc (olist m) k with Some e => elem_to_pval t e | None => PInvalid end | None => PInvalid end) else (h, PPanic) end)
      with (if wt_scalar kk k then (h, match read_map h r with Some m => match massoc (olist m) k with Some e => elem_to_pval t e | None => PInvalid end | None => PInvalid end) else (h, PPanic))
      by (destruct r; [reflexivity|reflexivity|discriminate]).
    destruct (key_op_ok _ _ _ _ N Hop) as [[W [m R]]|[W S]]; rewrite W.
    + cbn [vexec vstep1 set_key g_key]. unfold on_map. rewrite R. cbn [vexec vstep1 set_look g_look].
      destruct (massoc (olist m) k) as [e|]; cbn [vexec vstep1]; [|apply vp_res_rel_refl].
      rewrite wrap_okb_of. apply vp_res_rel_refl.
    + rewrite (str_key_not_wt _ _ W S). apply vp_res_rel_refl.
Qed.

Lemma map_clear_prog_correct : map_clear_prog_stmt.
Proof.
  intros sch h kk t r k Hwf Hok Hop. unfold vp_agrees, vp_canon_step. cbn [vp_step canon_map vm_clear]. unfold run_view.
  cbn [vp_op_okb] in Hop. cbn [vexec vstep1 step]. destruct (cref_nil r) eqn:N.
  - apply cref_nil_true in N. subst r. apply vp_res_rel_refl.
  - cbn [orb] in Hop. cbn [vexec vstep1 a_key]. rewrite key_conv_canon.
    replace (match r with RNil => (h, PUnit) | _ => if wt_scalar kk k then match read_map h r with Some (Some m) => (write_map h r (Some (mdel m k)), PUnit) | _ => (h, PUnit) end else (h, PPanic) end)
      with (if wt_scalar kk k then match read_map h r with Some (Some m) => (write_map h r (Some (mdel m k)), PUnit) | _ => (h, PUnit) end else (h, PPanic))
      by (destruct r; [reflexivity|reflexivity|discriminate]).
    destruct (key_op_ok _ _ _ _ N Hop) as [[W [m R]]|[W S]]; rewrite W.
    + cbn [vexec vstep1 set_key g_key]. unfold on_map. rewrite R. destruct m as [kvs|]; cbn [vexec]; apply vp_res_rel_refl.
    + rewrite (str_key_not_wt _ _ W S). apply vp_res_rel_refl.
Qed.
