(* Proofs/AllocLinear.v — C06: the logical size of what the decoder builds is linear in the number of input bytes
   (K = 1, optimal). History: against the model of the code before /repo 8507b6c the statement was false — a map entry's
   key / value was decoded bounded by the end of the BUFFER while the outer loop resumed at the end of the ENTRY, so the
   same bytes were decoded again (quadratic with string keys, exponential with message M { map<int32,M> m = 1; }).
   The inputs that showed this are kept below as Examples: they are now rejected. *)
From CP Require Import Extra AllocSize BytesLemmas RuntimeProofs DecodeTotal.
From Coq Require Import Lia ZifyN ZifyNat ZifyBool.
Local Open Scope nat_scope.

(* ------------------------------------------------------------------ counterexamples to the unrestricted bound *)
(* message A { map<string,int32> m = 1; } *)
Definition cx_sch1 : schema :=
  [ {| m_fields := [ {| f_num := 1; f_ty := TScalar KInt32; f_shape := MapOf KString |} ]; m_oneofs := 0; m_impl := Pulsar |} ].
(* n records  0a 02 0a L  with L = 4*(records that follow): the entry (2 bytes) ends right after the key's length byte;
   the key itself is everything that follows, which the outer loop then parses again *)
Fixpoint cx_recs1 (n : nat) : list byte :=
  match n with
  | O => []
  | S k => [x0a; x02; x0a; n2b (4 * N.of_nat k)] ++ cx_recs1 k
  end.

Example overrun_quadratic_rejected :
  wf cx_sch1 = true /\ length (cx_recs1 32) = 128 /\ pulsar_unmarshal cx_sch1 false 0 VNil (cx_recs1 32) = Err.
Proof. repeat split; vm_compute; reflexivity. Qed.

(* message M { map<int32,M> m = 1; } *)
Definition cx_sch2 : schema :=
  [ {| m_fields := [ {| f_num := 1; f_ty := TMsg 0; f_shape := MapOf KInt32 |} ]; m_oneofs := 0; m_impl := Pulsar |} ].
(* n records  0a 04 08 k 12 L  with L = 6*(records that follow): the value payload is all following records, decoded by
   the child and then again by the parent: T(n) = 1 + T(0) + ... + T(n-1) *)
Fixpoint cx_recs2 (n : nat) : list byte :=
  match n with
  | O => []
  | S k => [x0a; x04; x08; n2b (N.of_nat k); x12; n2b (6 * N.of_nat k)] ++ cx_recs2 k
  end.

Example overrun_exponential_rejected :
  wf cx_sch2 = true /\ length (cx_recs2 12) = 72 /\
  forall n, 2 <= n <= 20 -> pulsar_unmarshal cx_sch2 false 0 VNil (cx_recs2 n) = Err.
Proof.
  split; [vm_compute; reflexivity|]. split; [vm_compute; reflexivity|].
  intros n [Hlo Hhi]. do 2 (destruct n as [|n]; [lia|]).
  do 19 (destruct n as [|n]; [vm_compute; reflexivity|]). lia.
Qed.

(* ------------------------------------------------------------------ sizes: basic facts *)
Definition ssum (l : list val) : nat := nsumn (map vsize l).
Definition msum (kvs : list (val * val)) : nat := nsumn (map (fun kv => S (vsize (fst kv) + vsize (snd kv))) kvs).

Lemma ssum_cons v l : ssum (v :: l) = vsize v + ssum l.
Proof. reflexivity. Qed.
Lemma msum_cons kv l : msum (kv :: l) = S (vsize (fst kv) + vsize (snd kv)) + msum l.
Proof. reflexivity. Qed.
Lemma vsize_msg slots unk : vsize (VMsg slots unk) = S (length unk + ssum slots).
Proof. reflexivity. Qed.
Lemma vsize_list l : vsize (VList l) = S (ssum l).
Proof. reflexivity. Qed.
Lemma vsize_map kvs : vsize (VMap kvs) = S (msum kvs).
Proof. reflexivity. Qed.

Lemma vsize_pos v : 1 <= vsize v.
Proof. destruct v; cbn [vsize]; lia. Qed.

Lemma vsize_norm msg : S (length (unk_of msg) + ssum (slots_of msg)) <= vsize msg.
Proof. pose proof (vsize_pos msg). destruct msg; cbn [unk_of slots_of length]; try (cbn [ssum nsumn map fold_right]; lia). rewrite vsize_msg. lia. Qed.

Lemma set_nth_sum ss : forall idx v, ssum (set_nth ss idx v) + vsize (nth idx ss VNil) <= ssum ss + vsize v.
Proof.
  induction ss as [|s ss IH]; intros idx v.
  - pose proof (vsize_pos v). destruct idx; cbn [set_nth nth]; cbn [vsize]; lia.
  - destruct idx as [|i]; cbn [set_nth nth]; rewrite !ssum_cons; [lia|]. specialize (IH i v). lia.
Qed.

Lemma clear_sum_le fs : forall ss oi, ssum (clear_oneof fs ss oi) <= ssum ss.
Proof.
  induction fs as [|g fs IH]; intros ss oi; destruct ss as [|s ss]; cbn [clear_oneof]; try lia.
  rewrite !ssum_cons. specialize (IH ss oi). pose proof (vsize_pos s).
  destruct (f_shape g) as [| |j|]; try lia. destruct (Nat.eqb j oi); cbn [vsize]; lia.
Qed.

Lemma set_clear_sum fs : forall ss oi idx v,
  ssum (set_nth (clear_oneof fs ss oi) idx v) + vsize (nth idx ss VNil) <= ssum ss + vsize v.
Proof.
  induction fs as [|g fs IH]; intros ss oi idx v.
  - replace (clear_oneof [] ss oi) with ss by (destruct ss; reflexivity). apply set_nth_sum.
  - destruct ss as [|s ss]; [cbn [clear_oneof]; apply set_nth_sum|].
    cbn [clear_oneof]. destruct idx as [|i]; cbn [set_nth nth]; rewrite !ssum_cons.
    + pose proof (clear_sum_le fs ss oi). lia.
    + specialize (IH ss oi i v). pose proof (vsize_pos s).
      destruct (f_shape g) as [| |j|]; try lia. destruct (Nat.eqb j oi); cbn [vsize]; lia.
Qed.

Lemma put_size msg idx v :
  vsize (VMsg (set_nth (slots_of msg) idx v) (unk_of msg)) + vsize (nth idx (slots_of msg) VNil) <= vsize msg + vsize v.
Proof. rewrite vsize_msg. pose proof (vsize_norm msg). pose proof (set_nth_sum (slots_of msg) idx v). lia. Qed.

Lemma put_clear_size fs msg oi idx v :
  vsize (VMsg (set_nth (clear_oneof fs (slots_of msg) oi) idx v) (unk_of msg)) + vsize (nth idx (slots_of msg) VNil)
  <= vsize msg + vsize v.
Proof. rewrite vsize_msg. pose proof (vsize_norm msg). pose proof (set_clear_sum fs (slots_of msg) oi idx v). lia. Qed.

Lemma list_append_size s v : vsize (list_append s v) <= vsize s + vsize v.
Proof.
  pose proof (vsize_pos s). unfold list_append.
  destruct s; rewrite ?vsize_list; try (cbn [ssum nsumn map fold_right]; lia).
  unfold ssum. rewrite map_app. unfold nsumn. rewrite fold_right_app. cbn [map fold_right].
  generalize (map vsize l). induction l0 as [|a t IH]; cbn [fold_right]; lia.
Qed.

Lemma map_set_sum kvs k v : msum (map_set kvs k v) <= msum kvs + S (vsize k + vsize v).
Proof.
  induction kvs as [|[k0 v0] t IH]; cbn [map_set].
  - rewrite msum_cons. cbn [fst snd]. unfold msum; cbn. lia.
  - destruct (val_key_eqb k0 k); rewrite !msum_cons; cbn [fst snd]; lia.
Qed.

Lemma fixed_val_size k n : vsize (fixed_val k n) = 1.
Proof. destruct k; reflexivity. Qed.
Lemma varint_val_size k n : vsize (varint_val k n) = 1.
Proof. destruct k; reflexivity. Qed.
Lemma zero_scalar_size k : vsize (zero_scalar k) = 1.
Proof. destruct k; reflexivity. Qed.

(* a decoded scalar costs at most what it consumed *)
Lemma dec_scalar_size k rest v r : dec_scalar k rest = Some (v, r) -> vsize v + length r <= length rest.
Proof.
  unfold dec_scalar.
  destruct k;
    try (destruct (take_fixed 8 rest) as [[n0 r0]|] eqn:E; [|discriminate];
         intro H; injection H as <- <-; cbn [vsize varint_val fixed_val];
         apply take_fixed_shorter in E; lia);
    try (destruct (take_fixed 4 rest) as [[n0 r0]|] eqn:E; [|discriminate];
         intro H; injection H as <- <-; cbn [vsize varint_val fixed_val];
         apply take_fixed_shorter in E; lia);
    try (destruct (dec_varint rest) as [[[raw n0] r0]|] eqn:E; [|discriminate];
         intro H; injection H as <- <-; cbn [vsize varint_val fixed_val];
         apply dec_varint_shorter in E; lia);
    try (destruct (take_len rest) as [[p0 r0]|] eqn:E; [|discriminate];
         intro H; injection H as <- <-; apply take_len_shorter in E; cbn [vsize]; lia).
Qed.

Lemma dec_scalar_size1 k rest v r :
  N.eqb (kind_wt k) WT_BYTES = false -> dec_scalar k rest = Some (v, r) -> vsize v = 1.
Proof.
  intro Hk. unfold dec_scalar.
  destruct k; try discriminate Hk;
    try (destruct (take_fixed 8 rest) as [[n0 r0]|]; [|discriminate];
         intro H; injection H as <- _; reflexivity);
    try (destruct (take_fixed 4 rest) as [[n0 r0]|]; [|discriminate];
         intro H; injection H as <- _; reflexivity);
    try (destruct (dec_varint rest) as [[[raw n0] r0]|]; [|discriminate];
         intro H; injection H as <- _; reflexivity).
Qed.

Lemma default_slot_size f : vsize (default_slot f) = 1.
Proof. unfold default_slot. destruct (f_shape f); destruct (f_ty f); try reflexivity. apply zero_scalar_size. Qed.

Lemma empty_msg_size md : vsize (empty_msg md) = S (length (m_fields md)).
Proof.
  assert (H : forall fs, ssum (map default_slot fs) = length fs).
  { induction fs as [|f fs IH]; [reflexivity|].
    cbn [map length]. rewrite ssum_cons, default_slot_size, IH. reflexivity. }
  unfold empty_msg. rewrite vsize_msg, H. reflexivity.
Qed.

Lemma max_fields_ge sch md : In md sch -> length (m_fields md) <= max_fields sch.
Proof.
  induction sch as [|m0 sch IH]; intro H; [destruct H|].
  cbn [max_fields fold_right]. fold (max_fields sch). destruct H as [->|H]; [lia|]. specialize (IH H). lia.
Qed.

Lemma zfirstn_zskipn_len {A} k (l : list A) : length (zfirstn k l) + length (zskipn k l) = length l.
Proof.
  unfold zfirstn, zskipn. destruct (k <=? 0)%Z; [reflexivity|].
  destruct (Z.of_nat (length l) <=? k)%Z; [cbn [length]; lia|].
  rewrite <- app_length, firstn_skipn. reflexivity.
Qed.

(* ------------------------------------------------------------------ the potential argument *)
Definition tbase (F : nat) (tg : val) : nat := match tg with VMsg _ _ => vsize tg | _ => F + 1 end.
Definition child_lin (F c : nat) (child : child_t) : Prop :=
  forall m tg p v, child m tg p = Ok v -> vsize v <= tbase F tg + c * length p.
Definition ibase (F c : nat) (t : ftype) (tg : val) : nat :=
  match t with TScalar _ => c | TMsg _ => tbase F tg end.

Lemma tbase_le F c tg : F + 1 <= 2 * c -> tbase F tg <= vsize tg + 2 * c.
Proof. intros H. unfold tbase. destruct tg; lia. Qed.
Lemma ibase_le F c t tg : F + 1 <= 2 * c -> ibase F c t tg <= vsize tg + 2 * c.
Proof. intros H. unfold ibase. destruct t; [lia|]. apply tbase_le. exact H. Qed.
Lemma ibase_nonmsg F c t tg : F + 1 <= 2 * c -> (forall s u, tg <> VMsg s u) -> ibase F c t tg <= 2 * c.
Proof. intros H Hn. unfold ibase, tbase. destruct t; [lia|]. destruct tg; try lia. exfalso. eapply Hn. reflexivity. Qed.
Lemma member_base F c t s : F + 1 <= 2 * c ->
  ibase F c t (match s with VSome p => p | _ => VNil end) + 1 <= vsize s + 2 * c.
Proof.
  intros H. pose proof (vsize_pos s).
  destruct s; try (pose proof (ibase_nonmsg F c t VNil H ltac:(discriminate)); lia).
  cbn [vsize]. pose proof (ibase_le F c t s H). lia.
Qed.

Lemma scale c a r n : 1 <= c -> a + r <= n -> a + c * r <= c * n.
Proof. intros. nia. Qed.
Lemma scale_lt c r n : r < n -> c * r + c <= c * n.
Proof. intros. nia. Qed.
Lemma pot_step c K1 u K0 a : 1 <= c -> K1 + u = K0 -> a <= u -> a + c * K1 <= c * K0.
Proof. intros. nia. Qed.
Lemma pot_step_msg c K1 u K0 P : K1 + u = K0 -> P + 2 <= u -> c * P + 2 * c + c * K1 <= c * K0.
Proof. intros. nia. Qed.
Lemma mul_split c a b n : a + b = n -> c * a + c * b = c * n.
Proof. intros. nia. Qed.

Lemma dec_item_lin F c child t tg rest v r : child_lin F c child -> 1 <= c ->
  dec_item child t tg rest = Ok (v, r) -> vsize v + c * length r + c <= ibase F c t tg + c * length rest.
Proof.
  intros Hc H1. unfold dec_item, ibase. destruct t as [k|m].
  - destruct (dec_scalar k rest) as [[v0 r0]|] eqn:E; [|discriminate].
    intro H. injection H as <- <-. apply dec_scalar_size in E.
    pose proof (scale c _ _ _ H1 E). lia.
  - destruct (take_len rest) as [[p r0]|] eqn:E; [|discriminate].
    destruct (child m tg p) eqn:Ec; try discriminate.
    intro H. injection H as <- <-. apply Hc in Ec. apply take_len_shorter in E.
    pose proof (scale_lt c _ _ E) as H2. rewrite Nat.mul_add_distr_l in H2. lia.
Qed.

Lemma packed_loop_lin c fuel kd : 1 <= c -> forall k acc rest v r,
  packed_loop fuel kd k acc rest = Ok (v, r) -> vsize v + c * length r <= vsize acc + c * length rest.
Proof.
  intro H1. induction fuel as [|f IH]; intros k acc rest v r; cbn [packed_loop]; [discriminate|].
  destruct (k <=? 0)%Z; [intro E; injection E as <- <-; lia|].
  destruct (dec_scalar kd rest) as [[v0 r0]|] eqn:Es; [|discriminate].
  intro E. apply IH in E. apply dec_scalar_size in Es.
  pose proof (list_append_size acc v0). pose proof (scale c _ _ _ H1 Es). lia.
Qed.

Lemma skip_loop_nonneg fuel : forall rest idx depth n, skip_loop fuel rest idx depth = Ok n -> (0 <= n)%Z.
Proof.
  induction fuel as [|f IH]; intros rest idx depth n; cbn [skip_loop]; [discriminate|].
  destruct rest as [|b t]; [discriminate|].
  destruct (skip_step (b :: t) idx depth) as [|r i d]; [discriminate|].
  destruct (Z.ltb_spec i 0) as [|Hi]; [discriminate|].
  destruct (N.eqb d 0); [intro E; injection E as <-; exact Hi|]. apply IH.
Qed.
Lemma Skip_nonneg bs n : Skip bs = Ok n -> (0 <= n)%Z.
Proof. apply skip_loop_nonneg. Qed.

Lemma zskipn_len_exact {A} k (l : list A) :
  (0 <= k <= Z.of_nat (length l))%Z -> length (zskipn k l) + Z.to_nat k = length l.
Proof.
  intros Hk. unfold zskipn. destruct (Z.leb_spec k 0); [lia|].
  destruct (Z.leb_spec (Z.of_nat (length l)) k); [cbn [length]; lia|].
  rewrite skipn_length. lia.
Qed.

(* a map entry: the key and the value it ends with cost at most what they started with plus c per byte of the entry
   (every subfield ends inside the entry: [0 <= k] is an invariant of the loop) *)
Lemma entry_loop_lin F c child fuel kk t : child_lin F c child -> 1 <= c -> F + 1 <= 2 * c ->
  forall k key value rest k' v', (0 <= k)%Z ->
  entry_loop child fuel kk t k key value rest = Ok (k', v') ->
  vsize k' + vsize v' <= vsize key + vsize value + c * Z.to_nat k.
Proof.
  intros Hc H1 HF. induction fuel as [|f IH]; intros k key value rest k' v' Hk; cbn [entry_loop]; [discriminate|].
  destruct (k <=? 0)%Z; [intro E; injection E as <- <-; lia|].
  destruct (dec_varint rest) as [[[raw n] rest1]|] eqn:Ed; [|discriminate].
  apply dec_varint_shorter in Ed.
  destruct (s32 (u64 raw / 8) =? 1)%Z.
  { destruct (dec_scalar kk rest1) as [[v r]|] eqn:Es; [|discriminate].
    apply dec_scalar_size in Es.
    destruct (Z.ltb_spec (k - (Z.of_nat (length rest) - Z.of_nat (length r))) 0) as [|Hin]; [discriminate|].
    intro E. apply IH in E; [|exact Hin].
    pose proof (pot_step c (Z.to_nat (k - (Z.of_nat (length rest) - Z.of_nat (length r))))
                         (length rest - length r) (Z.to_nat k) (vsize v) H1 ltac:(lia) ltac:(lia)).
    pose proof (vsize_pos key). lia. }
  destruct (s32 (u64 raw / 8) =? 2)%Z.
  { destruct t as [kd|m0].
    - destruct (dec_scalar kd rest1) as [[v r]|] eqn:Es; [|discriminate].
      apply dec_scalar_size in Es.
      destruct (Z.ltb_spec (k - (Z.of_nat (length rest) - Z.of_nat (length r))) 0) as [|Hin]; [discriminate|].
      intro E. apply IH in E; [|exact Hin].
      pose proof (pot_step c (Z.to_nat (k - (Z.of_nat (length rest) - Z.of_nat (length r))))
                           (length rest - length r) (Z.to_nat k) (vsize v) H1 ltac:(lia) ltac:(lia)).
      pose proof (vsize_pos value). lia.
    - destruct (take_len rest1) as [[p0 r]|] eqn:Et; [|discriminate].
      apply take_len_shorter in Et.
      destruct (Z.ltb_spec (k - (Z.of_nat (length rest) - Z.of_nat (length r))) 0) as [|Hin]; [discriminate|].
      destruct (child m0 value p0) as [v| | |] eqn:Ec; try discriminate.
      apply Hc in Ec. intro E. apply IH in E; [|exact Hin].
      pose proof (pot_step_msg c (Z.to_nat (k - (Z.of_nat (length rest) - Z.of_nat (length r))))
                               (length rest - length r) (Z.to_nat k) (length p0) ltac:(lia) ltac:(lia)).
      pose proof (tbase_le F c value HF). lia. }
  destruct (Skip rest) as [skippy| | |] eqn:Esk; try discriminate.
  apply Skip_nonneg in Esk.
  destruct (Z.ltb_spec k skippy) as [|Hin]; [discriminate|].
  intro E. apply IH in E; [|lia].
  pose proof (Nat.mul_le_mono_l (Z.to_nat (k - skippy)) (Z.to_nat k) c ltac:(lia)). lia.
Qed.

Lemma map_value_init_size F sch t :
  (forall m md, get_msg sch m = Some md -> length (m_fields md) <= F) ->
  vsize (map_value_init (get_msg sch) t) <= F + 1.
Proof.
  intro HF. unfold map_value_init. destruct t as [k|m]; [rewrite zero_scalar_size; lia|].
  destruct (get_msg sch m) as [md|] eqn:E; [|cbn [vsize]; lia].
  rewrite empty_msg_size. specialize (HF _ _ E). lia.
Qed.

Lemma field_item_lin F c sch child md idx f wt msg rest1 msg' r :
  child_lin F c child -> F + 3 <= 2 * c ->
  (forall m md0, get_msg sch m = Some md0 -> length (m_fields md0) <= F) ->
  field_item sch child md idx f wt msg rest1 = Ok (msg', r) ->
  vsize msg' + c * length r <= vsize msg + c * length rest1 + c.
Proof.
  intros Hc H3 Hsch. assert (H1 : 1 <= c) by lia. assert (HF : F + 1 <= 2 * c) by lia.
  unfold field_item. set (s := nth idx (slots_of msg) VNil).
  destruct (f_shape f) as [|pk|oi|kk] eqn:Esh.
  - (* Singular *)
    destruct (N.eqb wt (ftype_wt (f_ty f))); [|discriminate].
    destruct (dec_item child (f_ty f) s rest1) as [[v r0]| | |] eqn:Ei; try discriminate.
    intro H. injection H as <- <-.
    apply (dec_item_lin F c) in Ei; [|exact Hc|exact H1].
    pose proof (ibase_le F c (f_ty f) s HF). pose proof (put_size msg idx v) as Hp. fold s in Hp. lia.
  - (* Rep *)
    assert (Happ : forall v (r0 : list byte), vsize v + c * length r0 <= c * length rest1 + c ->
                   vsize (VMsg (set_nth (slots_of msg) idx (list_append s v)) (unk_of msg)) + c * length r0
                   <= vsize msg + c * length rest1 + c).
    { intros v r0 Hv. pose proof (put_size msg idx (list_append s v)) as Hp. fold s in Hp.
      pose proof (list_append_size s v). lia. }
    destruct (f_ty f) as [kd|m0] eqn:Ety.
    + destruct (negb (N.eqb (kind_wt kd) WT_BYTES)).
      * destruct (N.eqb wt (kind_wt kd)).
        { destruct (dec_scalar kd rest1) as [[v r0]|] eqn:Es; [|discriminate].
          intro H. injection H as <- <-. apply Happ. apply dec_scalar_size in Es.
          pose proof (scale c _ _ _ H1 Es). lia. }
        destruct (N.eqb wt WT_BYTES); [|discriminate].
        destruct (dec_varint rest1) as [[[raw n] rest2]|] eqn:Ed; [|discriminate].
        apply dec_varint_shorter in Ed.
        destruct (s64 raw <? 0)%Z; [discriminate|].
        destruct (Z.of_nat (length rest2) <? s64 raw)%Z; [discriminate|].
        destruct (packed_loop (S (length rest2)) kd (s64 raw) s rest2) as [[s' r0]| | |] eqn:Ep; try discriminate.
        intro H. injection H as <- <-.
        apply (packed_loop_lin c) in Ep; [|exact H1].
        pose proof (put_size msg idx s') as Hp. fold s in Hp.
        pose proof (scale_lt c _ _ Ed). lia.
      * destruct (N.eqb wt WT_BYTES); [|discriminate].
        destruct (dec_scalar kd rest1) as [[v r0]|] eqn:Es; [|discriminate].
        intro H. injection H as <- <-. apply Happ. apply dec_scalar_size in Es.
        pose proof (scale c _ _ _ H1 Es). lia.
    + destruct (N.eqb wt WT_BYTES); [|discriminate].
      destruct (dec_item child (TMsg m0) VNil rest1) as [[v r0]| | |] eqn:Ei; try discriminate.
      intro H. injection H as <- <-. apply Happ.
      apply (dec_item_lin F c) in Ei; [|exact Hc|exact H1].
      pose proof (ibase_nonmsg F c (TMsg m0) VNil HF ltac:(discriminate)). lia.
  - (* Member *)
    destruct (N.eqb wt (ftype_wt (f_ty f))); [|discriminate].
    set (tg := match s with VSome p => p | _ => VNil end).
    destruct (dec_item child (f_ty f) tg rest1) as [[v r0]| | |] eqn:Ei; try discriminate.
    intro H. injection H as <- <-.
    apply (dec_item_lin F c) in Ei; [|exact Hc|exact H1].
    pose proof (member_base F c (f_ty f) s HF) as Hb. fold tg in Hb.
    pose proof (put_clear_size (m_fields md) msg oi idx (VSome v)) as Hp. fold s in Hp.
    change (vsize (VSome v)) with (S (vsize v)) in Hp. lia.
  - (* MapOf *)
    destruct (N.eqb wt WT_BYTES); [|discriminate].
    destruct (dec_varint rest1) as [[[raw n] rest2]|] eqn:Ed; [|discriminate].
    apply dec_varint_shorter in Ed.
    destruct (Z.ltb_spec (s64 raw) 0) as [|Hlen0]; [discriminate|].
    destruct (Z.ltb_spec (Z.of_nat (length rest2)) (s64 raw)) as [|Hlen1]; [discriminate|].
    set (kvs := match s with VMap kvs => kvs | _ => [] end).
    match goal with |- context [entry_loop ?c0 ?fu ?a1 ?a2 ?a3 ?a4 ?a5 ?a6] =>
      destruct (entry_loop c0 fu a1 a2 a3 a4 a5 a6) as [[k0 v0]| | |] eqn:Ee end; try discriminate.
    apply (entry_loop_lin F c) in Ee; [|exact Hc|exact H1|exact HF|exact Hlen0].
    rewrite zero_scalar_size in Ee. pose proof (map_value_init_size F sch (f_ty f) Hsch) as Hmv.
    intro H. injection H as <- <-.
    pose proof (put_size msg idx (VMap (map_set kvs k0 v0))) as Hp. fold s in Hp. rewrite vsize_map in Hp.
    pose proof (map_set_sum kvs k0 v0) as Hm.
    assert (Hs : S (msum kvs) <= vsize s).
    { subst kvs. pose proof (vsize_pos s). destruct s; try (unfold msum; cbn [map nsumn fold_right]; lia).
      rewrite vsize_map. lia. }
    pose proof (zskipn_len_exact (s64 raw) rest2 ltac:(lia)) as Hz.
    pose proof (mul_split c _ _ _ Hz) as Hz'.
    pose proof (scale_lt c _ _ Ed). lia.
Qed.

Lemma msg_loop_lin F sch discard child md :
  child_lin F (S F) child -> length (m_fields md) <= F ->
  (forall m md0, get_msg sch m = Some md0 -> length (m_fields md0) <= F) ->
  forall fuel msg rest m, msg_loop sch discard child md fuel msg rest = Ok m ->
  vsize m <= vsize msg + S F * length rest.
Proof.
  intros Hc HF Hsch. induction fuel as [|fu IH]; intros msg rest m; cbn [msg_loop]; [discriminate|].
  destruct rest as [|b0 t0] eqn:Er; [intro E; injection E as <-; lia|]. rewrite <- Er. clear Er.
  destruct (dec_varint rest) as [[[raw n] rest1]|] eqn:Ed; [|discriminate].
  apply dec_varint_shorter in Ed.
  destruct (N.eqb (u64 raw mod 8) 4); [discriminate|].
  destruct (s32 (u64 raw / 8)%N <=? 0)%Z; [discriminate|].
  destruct (find_field (m_fields md) 0 (s32 (u64 raw / 8)%N)) as [[idx f]|] eqn:Ef.
  - apply find_field_in in Ef. destruct Ef as [_ Ef].
    assert (HF1 : 1 <= F).
    { destruct (m_fields md); [destruct (idx - 0); discriminate Ef|]. cbn [length] in HF. lia. }
    destruct (field_item sch child md idx f (u64 raw mod 8)%N msg rest1) as [[msg' rest']| | |] eqn:Ei; try discriminate.
    apply (field_item_lin F (S F)) in Ei; [|exact Hc|lia|exact Hsch].
    intro E. apply IH in E. pose proof (scale_lt (S F) _ _ Ed). lia.
  - destruct (Skip rest) as [skippy| | |]; try discriminate.
    destruct (Z.of_nat (length rest) <? skippy)%Z; [discriminate|].
    intro E. apply IH in E.
    pose proof (zfirstn_zskipn_len skippy rest) as Hsplit.
    assert (Hsc : length (zfirstn skippy rest) + S F * length (zskipn skippy rest) <= S F * length rest).
    { apply scale; lia. }
    destruct discard; [lia|].
    rewrite vsize_msg, app_length in E. pose proof (vsize_norm msg). lia.
Qed.

Lemma max_fields_get sch m md : get_msg sch m = Some md -> length (m_fields md) <= max_fields sch.
Proof. intro H. apply max_fields_ge. eapply nth_error_In. exact H. Qed.

Lemma start_msg_base sch mid tg : vsize (start_msg sch mid tg) <= tbase (max_fields sch) tg.
Proof.
  unfold start_msg, tbase.
  assert (H : vsize (match get_msg sch mid with Some md => empty_msg md | None => VNil end) <= max_fields sch + 1).
  { destruct (get_msg sch mid) as [md|] eqn:Hg; [|cbn [vsize]; lia].
    rewrite empty_msg_size. apply max_fields_get in Hg. lia. }
  destruct tg; try exact H. lia.
Qed.

Lemma unmarshal_at_lin sch discard : forall fuel depth mid tg bs r,
  unmarshal_at sch discard fuel depth mid tg bs = Ok r ->
  vsize r <= vsize (start_msg sch mid tg) + (max_fields sch + 1) * length bs.
Proof.
  induction fuel as [|f IH]; intros depth mid tg bs r; cbn [unmarshal_at]; [discriminate|].
  destruct (depth <=? 0)%Z; [discriminate|].
  destruct (get_msg sch mid) as [md|] eqn:Hg; [|discriminate].
  intro H. replace (max_fields sch + 1) with (S (max_fields sch)) by lia.
  apply (msg_loop_lin (max_fields sch)) in H.
  - replace (start_msg sch mid tg) with (match tg with VMsg _ _ => tg | _ => empty_msg md end);
      [exact H|]. unfold start_msg. rewrite Hg. destruct tg; reflexivity.
  - intros m0 tg0 p v Hc. apply IH in Hc. pose proof (start_msg_base sch m0 tg0). lia.
  - eapply max_fields_get. exact Hg.
  - intros m0 md0. apply max_fields_get.
Qed.

(* ------------------------------------------------------------------ targets: K = 1 *)
Lemma alloc_linear sch discard mid init bs r : wf sch = true ->
  pulsar_unmarshal sch discard mid init bs = Ok r ->
  (vsize r <= vsize (start_msg sch mid init) + (max_fields sch + 1) * length bs)%nat.
Proof. intros _ H. unfold pulsar_unmarshal in H. eapply unmarshal_at_lin; eassumption. Qed.

Lemma alloc_linear_fresh sch discard mid bs r : wf sch = true -> (mid < length sch)%nat ->
  pulsar_unmarshal sch discard mid VNil bs = Ok r -> (vsize r <= (max_fields sch + 2) + (max_fields sch + 1) * length bs)%nat.
Proof.
  intros Hwf _ H. pose proof (alloc_linear _ _ _ _ _ _ Hwf H) as Hl.
  pose proof (start_msg_base sch mid VNil) as Hb. unfold tbase in Hb. lia.
Qed.

(* K = 1 is optimal: message B { map<int32,int32> m = 1; } on the two bytes 0a 00 *)
Lemma alloc_linear_K0_false :
  exists sch bs r, wf sch = true /\ pulsar_unmarshal sch false 0 VNil bs = Ok r /\
    vsize (start_msg sch 0 VNil) + (max_fields sch + 0) * length bs < vsize r.
Proof.
  exists [ {| m_fields := [ {| f_num := 1; f_ty := TScalar KInt32; f_shape := MapOf KInt32 |} ]; m_oneofs := 0; m_impl := Pulsar |} ],
         [x0a; x00]. eexists.
  split; [vm_compute; reflexivity|].
  split; [vm_compute; reflexivity|]. apply Nat.ltb_lt. vm_compute. reflexivity.
Qed.
