(* Proofs/AnyUtilProofs.v — C16: laws of the anyutil model (Model/AnyUtil.v), for every codec and
   every pair of registries.  The codec's own laws (round trip = statement of C01, decoder totality
   = statement of C06) are hypotheses of the section: the development stays parametric in the codec. *)
From Coq Require Import Lia.
From CP Require Import Bytes AnyUtil.

(* ---- strings --------------------------------------------------------------------------- *)
Lemma byte_eqb_refl c : Byte.eqb c c = true.
Proof. apply Byte.byte_dec_lb. reflexivity. Qed.

Lemma str_eqb_refl a : str_eqb a a = true.
Proof. induction a; cbn; [reflexivity|]. rewrite byte_eqb_refl. exact IHa. Qed.

Lemma str_eqb_eq a : forall b, str_eqb a b = true -> a = b.
Proof.
  induction a as [|x a IH]; intros [|y b]; cbn; try discriminate; [reflexivity|].
  intro H. apply andb_prop in H as [H1 H2]. apply Byte.byte_dec_bl in H1. subst. f_equal. auto.
Qed.

Lemma is_slash_slash : is_slash slash = true.
Proof. reflexivity. Qed.

Lemma valid_name_cons c n : valid_name (c :: n) -> is_slash c = false /\ valid_name n.
Proof. unfold valid_name. cbn. intro H. apply orb_false_elim in H. exact H. Qed.

Lemma after_last_slash_valid n : valid_name n -> after_last_slash n = n.
Proof.
  destruct n as [|c r]; [reflexivity|]. intro H. apply valid_name_cons in H as [Hc Hr].
  unfold valid_name in Hr. cbn. rewrite Hr, Hc. reflexivity.
Qed.

(* the text after the last '/' of  prefix ++ "/" ++ name  is name, whatever the prefix (host or not) *)
Lemma after_last_slash_app p n : valid_name n -> after_last_slash (p ++ slash :: n) = n.
Proof.
  intro Hn. induction p as [|c p IH]; cbn [app after_last_slash].
  - unfold valid_name in Hn. rewrite Hn, is_slash_slash. reflexivity.
  - rewrite existsb_app. cbn [existsb]. rewrite is_slash_slash, orb_true_r. cbn. exact IH.
Qed.

Lemma after_last_slash_packed n : valid_name n -> after_last_slash (slash :: n) = n.
Proof. exact (after_last_slash_app [] n). Qed.

Lemma after_last_slash_is_valid u : valid_name (after_last_slash u).
Proof.
  induction u as [|c r IH]; [reflexivity|]. cbn.
  destruct (existsb is_slash r) eqn:E; [exact IH|].
  destruct (is_slash c) eqn:Ec; [exact E|]. unfold valid_name. cbn. rewrite Ec, E. reflexivity.
Qed.

Lemma trim_prefix_slash_packed n : trim_prefix_slash (slash :: n) = n.
Proof. reflexivity. Qed.

Lemma trim_prefix_slash_valid n : valid_name n -> trim_prefix_slash n = n.
Proof. destruct n as [|c r]; [reflexivity|]. intro H. apply valid_name_cons in H as [Hc _]. cbn. rewrite Hc. reflexivity. Qed.

Lemma strip_prefix_app p : forall r, strip_prefix p (p ++ r) = Some r.
Proof. induction p as [|c p IH]; intro r; cbn; [destruct r; reflexivity|]. rewrite byte_eqb_refl. apply IH. Qed.

Lemma message_is_self n : message_is n n = true.
Proof. unfold message_is. rewrite <- (app_nil_r (rev n)) at 2. rewrite strip_prefix_app. reflexivity. Qed.

Lemma message_is_app p n : message_is (p ++ slash :: n) n = true.
Proof.
  unfold message_is. rewrite rev_app_distr. cbn [rev]. rewrite <- !app_assoc. rewrite strip_prefix_app.
  cbn. reflexivity.
Qed.

Lemma message_is_packed n : message_is (slash :: n) n = true.
Proof. exact (message_is_app [] n). Qed.

(* ---- the package ----------------------------------------------------------------------- *)
Section Laws.
  Variable msg desc opts : Type.
  Variable dname : desc -> str.
  Variable descr_of : msg -> desc.
  Variable marshal : opts -> msg -> outcome (list byte).
  Variable unmarshal : bool -> desc -> list byte -> outcome msg.
  Variable default_opts : opts.

  Notation full_name := (full_name msg desc dname descr_of).
  Notation marshal_from := (marshal_from msg desc opts dname descr_of marshal).
  Notation pack := (pack msg desc opts dname descr_of marshal).
  Notation new_any := (new_any msg desc opts dname descr_of marshal default_opts).
  Notation unmarshal_to := (unmarshal_to msg desc dname unmarshal).
  Notation unpack_gen := (unpack_gen msg desc dname unmarshal).
  Notation unpack := (unpack msg desc dname unmarshal).
  Notation registry := (registry desc).

  Notation resolve := (resolve desc).
  Notation out_msg := (out_msg msg).

  (* -- packing -- *)
  Lemma Marshal_from_ok dst src o a :
    marshal_from dst src o = (Ok tt, Some a) ->
    exists m, src = Some m /\ dst <> None /\ type_url a = slash :: full_name m /\ marshal o m = Ok (value a).
  Proof.
    unfold AnyUtil.marshal_from. destruct src as [m|]; [|discriminate].
    destruct (marshal o m) eqn:E; try discriminate. destruct dst; [|discriminate].
    intro H. inversion H; subst; clear H. exists m. cbn. repeat split; [discriminate|exact E].
  Qed.

  Lemma Pack_spec o m a :
    pack o m = Ok a <-> exists b, marshal o m = Ok b /\ a = {| type_url := slash :: full_name m; value := b |}.
  Proof.
    unfold AnyUtil.pack, AnyUtil.marshal_from. destruct (marshal o m) as [b0| | |] eqn:E; split; intro H.
    - inversion H; subst. exists b0. split; reflexivity.
    - destruct H as [b [Hb ->]]. inversion Hb; subst. reflexivity.
    - discriminate.
    - destruct H as [b [Hb ?]]. discriminate.
    - discriminate.
    - destruct H as [b [Hb ?]]. discriminate.
    - discriminate.
    - destruct H as [b [Hb ?]]. discriminate.
  Qed.

  Lemma Pack_url o m a : pack o m = Ok a -> type_url a = slash :: full_name m.
  Proof. intro H. apply Pack_spec in H as [b [_ ->]]. reflexivity. Qed.

  Lemma Pack_value o m a : pack o m = Ok a -> marshal o m = Ok (value a).
  Proof. intro H. apply Pack_spec in H as [b [Hb ->]]. exact Hb. Qed.

  (* the destination's previous content never shows through *)
  Lemma Marshal_from_pack a0 o m :
    marshal_from (Some a0) (Some m) o =
    match pack o m with Ok a => (Ok tt, Some a) | Err => (Err, Some a0) | Panic => (Panic, Some a0) | OutOfFuel => (OutOfFuel, Some a0) end.
  Proof. unfold AnyUtil.pack, AnyUtil.marshal_from. destruct (marshal o m); reflexivity. Qed.

  Lemma New_spec : new_any None = Err /\ forall m, new_any (Some m) = pack default_opts m.
  Proof. split; reflexivity. Qed.

  Lemma Pack_fail_untouched dst src o :
    fst (marshal_from dst src o) <> Ok tt -> snd (marshal_from dst src o) = dst.
  Proof.
    unfold AnyUtil.marshal_from. destruct src as [m|]; [|reflexivity].
    destruct (marshal o m); try reflexivity. destruct dst; cbn; [congruence|reflexivity].
  Qed.

  (* a nil destination is the only way MarshalFrom panics when the encoder does not *)
  Lemma Marshal_from_panic dst src o :
    fst (marshal_from dst src o) = Panic ->
    exists m, src = Some m /\ (marshal o m = Panic \/ (dst = None /\ exists b, marshal o m = Ok b)).
  Proof.
    unfold AnyUtil.marshal_from. destruct src as [m|]; [|discriminate].
    destruct (marshal o m) eqn:E; cbn; try discriminate.
    - destruct dst; cbn; [discriminate|]. intros _. exists m. split; [reflexivity|]. right. split; [reflexivity|]. eauto.
    - intros _. exists m. auto.
  Qed.

  (* -- unpacking what was packed -- *)
  Variable eqv : msg -> msg -> Prop.                       (* proto.Equal *)
  (* statement of C01 for the codec, for both implementations of the type *)
  Hypothesis round_trip : forall dyn o m b, marshal o m = Ok b ->
    exists m', unmarshal dyn (descr_of m) b = Ok m' /\ eqv m' m.

  Lemma Unpack_pack_types gt gf fr tr o m a :
    valid_name (full_name m) ->
    pack o m = Ok a ->
    lookup desc (resolve tr gt) (full_name m) = Some (EMessage (descr_of m)) ->
    exists m', unpack gt gf (Some a) fr tr = Ok (false, m') /\ eqv m' m.
  Proof.
    intros Hv Hp Hl. apply Pack_spec in Hp as [b [Hb ->]].
    unfold AnyUtil.unpack, AnyUtil.unpack_gen, find_message_by_url. cbv zeta. cbn [type_url].
    rewrite (after_last_slash_packed _ Hv). rewrite Hl.
    unfold AnyUtil.unmarshal_to. cbn [type_url value]. fold (full_name m). rewrite message_is_packed.
    destruct (round_trip false o m b Hb) as [m' [Hu He]]. rewrite Hu. eauto.
  Qed.

  Lemma Unpack_pack_files gt gf fr tr o m a :
    valid_name (full_name m) ->
    pack o m = Ok a ->
    lookup desc (resolve tr gt) (full_name m) = None ->
    lookup desc (resolve fr gf) (full_name m) = Some (EMessage (descr_of m)) ->
    exists m', unpack gt gf (Some a) fr tr = Ok (true, m') /\ eqv m' m.
  Proof.
    intros Hv Hp Ht Hf. apply Pack_spec in Hp as [b [Hb ->]].
    unfold AnyUtil.unpack, AnyUtil.unpack_gen, find_message_by_url. cbv zeta. cbn [type_url].
    rewrite (after_last_slash_packed _ Hv). rewrite Ht.
    rewrite trim_prefix_slash_packed, Hf.
    unfold AnyUtil.unmarshal_to. cbn [type_url value]. fold (full_name m). rewrite message_is_packed.
    destruct (round_trip true o m b Hb) as [m' [Hu He]]. rewrite Hu. eauto.
  Qed.

  (* both routes give a message equal to the one that was packed *)
  Lemma Paths_agree gt gf fr tr tr' o m a :
    valid_name (full_name m) ->
    pack o m = Ok a ->
    lookup desc (resolve tr gt) (full_name m) = Some (EMessage (descr_of m)) ->
    lookup desc (resolve tr' gt) (full_name m) = None ->
    lookup desc (resolve fr gf) (full_name m) = Some (EMessage (descr_of m)) ->
    exists m1 m2, unpack gt gf (Some a) fr tr = Ok (false, m1) /\ unpack gt gf (Some a) fr tr' = Ok (true, m2) /\
                  eqv m1 m /\ eqv m2 m.
  Proof.
    intros Hv Hp H1 H2 H3.
    destruct (Unpack_pack_types gt gf fr tr o m a Hv Hp H1) as [m1 [E1 Q1]].
    destruct (Unpack_pack_files gt gf fr tr' o m a Hv Hp H2 H3) as [m2 [E2 Q2]].
    exists m1, m2. auto.
  Qed.

  (* for ANY value bytes: when both registries map the name to the same descriptor and the two
     decoders agree on it, the two routes give the same outcome (on "/name" and on "name") *)
  Lemma Paths_agree_any gt gf fr tr tr' n d v u :
    (forall b, unmarshal true d b = unmarshal false d b) ->
    valid_name n -> u = n \/ u = slash :: n ->
    lookup desc (resolve tr gt) n = Some (EMessage d) ->
    lookup desc (resolve tr' gt) n = None ->
    lookup desc (resolve fr gf) n = Some (EMessage d) ->
    let a := {| type_url := u; value := v |} in
    out_msg (unpack gt gf (Some a) fr tr) = out_msg (unpack gt gf (Some a) fr tr').
  Proof.
    intros Hd Hv Hu H1 H2 H3.
    unfold AnyUtil.unpack, AnyUtil.unpack_gen, find_message_by_url. cbv zeta. cbn [type_url].
    assert (Ha : after_last_slash u = n) by (destruct Hu as [-> | ->]; [apply after_last_slash_valid | apply after_last_slash_packed]; exact Hv).
    assert (Ht : trim_prefix_slash u = n) by (destruct Hu as [-> | ->]; [apply trim_prefix_slash_valid; exact Hv | reflexivity]).
    rewrite Ha, H1, H2, Ht, H3. unfold AnyUtil.unmarshal_to. cbn [type_url value]. rewrite Hd.
    destruct (message_is u (dname d)); [|reflexivity].
    destruct (unmarshal false d v); reflexivity.
  Qed.

  (* -- totality -- *)
  (* statement of C06 for the codec: the decoders never panic *)
  Hypothesis unmarshal_no_panic : forall dyn d b, unmarshal dyn d b <> Panic.

  Lemma Unmarshal_to_no_panic a dyn d : unmarshal_to a dyn d <> Panic.
  Proof.
    unfold AnyUtil.unmarshal_to. destruct (message_is _ _); [|discriminate].
    destruct (unmarshal dyn d (value a)) eqn:E; try discriminate. exfalso. exact (unmarshal_no_panic _ _ _ E).
  Qed.

  Lemma Unpack_total gt gf a fr tr : unpack gt gf a fr tr <> Panic.
  Proof.
    unfold AnyUtil.unpack, AnyUtil.unpack_gen. destruct a as [a|]; [|discriminate].
    destruct (find_message_by_url _ _ _); try discriminate; [apply Unmarshal_to_no_panic|].
    destruct (lookup _ _ _) as [[d| | |]|]; try discriminate. apply Unmarshal_to_no_panic.
  Qed.

  (* every way of not getting a message is an error, each named *)
  Lemma Unpack_errors gt gf fr tr :
    unpack gt gf None fr tr = Err /\
    (forall a, lookup desc (resolve tr gt) (after_last_slash (type_url a)) = None ->
               lookup desc (resolve fr gf) (trim_prefix_slash (type_url a)) = None ->
               unpack gt gf (Some a) fr tr = Err) /\                                   (* unknown / malformed URL *)
    (forall a e, lookup desc (resolve tr gt) (after_last_slash (type_url a)) = Some e ->
               (forall d, e <> EMessage d) -> unpack gt gf (Some a) fr tr = Err) /\      (* enum / extension in the type registry *)
    (forall a e, lookup desc (resolve tr gt) (after_last_slash (type_url a)) = None ->
               lookup desc (resolve fr gf) (trim_prefix_slash (type_url a)) = Some e ->
               (forall d, e <> EMessage d) -> unpack gt gf (Some a) fr tr = Err) /\      (* enum / service / field ... in the file registry *)
    (forall a dyn d, unmarshal dyn d (value a) = Err -> unmarshal_to a dyn d = Err).   (* corrupt value *)
  Proof.
    unfold AnyUtil.unpack, AnyUtil.unpack_gen, find_message_by_url. cbv zeta. repeat split.
    - intros a H1 H2. rewrite H1, H2. reflexivity.
    - intros a e H1 He. rewrite H1. destruct e; try reflexivity. exfalso. exact (He d eq_refl).
    - intros a e H1 H2 He. rewrite H1, H2. destruct e; try reflexivity. exfalso. exact (He d eq_refl).
    - intros a dyn d H. unfold AnyUtil.unmarshal_to. rewrite H. destruct (message_is _ _); reflexivity.
  Qed.

  (* the code before /repo commit d0c621d: exactly these inputs panicked *)
  Lemma Before_fix_panics gt gf a fr tr :
    unpack_gen false gt gf a fr tr = Panic <->
    a = None \/
    exists a', a = Some a' /\ lookup desc (resolve tr gt) (after_last_slash (type_url a')) = None /\
               exists e, lookup desc (resolve fr gf) (trim_prefix_slash (type_url a')) = Some e /\ forall d, e <> EMessage d.
  Proof.
    unfold AnyUtil.unpack_gen, find_message_by_url. cbv zeta. split.
    - destruct a as [a|]; [|auto]. intro H. right. exists a. split; [reflexivity|].
      destruct (lookup desc _ (after_last_slash _)) as [[d| | |]|] eqn:E1; try discriminate;
        try (exfalso; exact (Unmarshal_to_no_panic _ _ _ H)).
      split; [reflexivity|].
      destruct (lookup desc _ (trim_prefix_slash _)) as [[d| | |]|] eqn:E2; try discriminate;
        try (exfalso; exact (Unmarshal_to_no_panic _ _ _ H)); eexists; (split; [reflexivity|discriminate]).
    - intros [-> | [a' [-> [H1 [e [H2 He]]]]]]; [reflexivity|]. rewrite H1, H2.
      destruct e; try reflexivity. exfalso. exact (He d eq_refl).
  Qed.
End Laws.
